/-
Helper lemmas for property C10 (equation of state, `Thermodynamics` in
`src/WallGo/thermodynamics.py`, generated copy in `Gen/R/Thermo.lean`).

Organisation
* `pw`        : the three-branch "below / above / inside the tabulated range" shape shared by
                `p`, `dp`, `ddp`, `csq`, with generic continuity / derivative lemmas.
* `plP …`     : the template-model power laws used in the extrapolated regions, their derivatives,
                and the *matching* lemmas (the values chosen by `setExtrapolate` make value, first and
                second derivative agree at the boundary).
* `Phase`     : a one-phase record; `highPhase s` / `lowPhase s` view a `ThermoP` as two `Phase`s, and the
                generated `pHighT s`, … are *definitionally* `(highPhase s).p`, … (lemmas `pHighT_eq` …).
* `Extrapolated s`, `WF s` : "`s` is the state left by `setExtrapolate`", and the side conditions.
-/
import WallGoVerif.Gen.R.Thermo
import Mathlib.Tactic
import Mathlib.Analysis.SpecialFunctions.Pow.Deriv
import Mathlib.Analysis.SpecialFunctions.Pow.Continuity
import Mathlib.Analysis.Calculus.Deriv.Basic
import Mathlib.Topology.Order.LeftRight

namespace Lemmas.Thermo

open Set Filter Topology

/-! ## The three-branch shape -/

/-- `if T < TMin then gL T else if T > TMax then gR T else h T` -/
noncomputable def pw (TMin TMax : ℝ) (gL gR h : ℝ → ℝ) (T : ℝ) : ℝ :=
  if T < TMin then gL T else if T > TMax then gR T else h T

section pw
variable {TMin TMax : ℝ} {gL gR h : ℝ → ℝ} {T : ℝ}

theorem pw_of_lt (hT : T < TMin) : pw TMin TMax gL gR h T = gL T := by
  simp [pw, hT]

theorem pw_of_gt (hle : TMin ≤ TMax) (hT : TMax < T) : pw TMin TMax gL gR h T = gR T := by
  have : ¬ T < TMin := not_lt.mpr (hle.trans hT.le)
  simp [pw, this, hT]

theorem pw_of_mem (h1 : TMin ≤ T) (h2 : T ≤ TMax) : pw TMin TMax gL gR h T = h T := by
  simp [pw, not_lt.mpr h1, not_lt.mpr h2]

theorem pw_TMin (hle : TMin ≤ TMax) : pw TMin TMax gL gR h TMin = h TMin :=
  pw_of_mem le_rfl hle

theorem pw_TMax (hle : TMin ≤ TMax) : pw TMin TMax gL gR h TMax = h TMax :=
  pw_of_mem hle le_rfl

theorem pw_eventuallyEq_of_lt (hT : T < TMin) : pw TMin TMax gL gR h =ᶠ[𝓝 T] gL := by
  filter_upwards [Iio_mem_nhds hT] with x hx using pw_of_lt hx

theorem pw_eventuallyEq_of_gt (hle : TMin ≤ TMax) (hT : TMax < T) :
    pw TMin TMax gL gR h =ᶠ[𝓝 T] gR := by
  filter_upwards [Ioi_mem_nhds hT] with x hx using pw_of_gt hle hx

theorem pw_eventuallyEq_of_mem (h1 : TMin < T) (h2 : T < TMax) :
    pw TMin TMax gL gR h =ᶠ[𝓝 T] h := by
  filter_upwards [Ioo_mem_nhds h1 h2] with x hx using pw_of_mem hx.1.le hx.2.le

/-- left limit at `TMin` -/
theorem pw_tendsto_left_TMin (hle : TMin ≤ TMax) (hc : ContinuousAt gL TMin)
    (hm : gL TMin = h TMin) :
    Tendsto (pw TMin TMax gL gR h) (𝓝[<] TMin) (𝓝 (pw TMin TMax gL gR h TMin)) := by
  rw [pw_TMin hle, ← hm]
  refine (hc.tendsto.mono_left nhdsWithin_le_nhds).congr' ?_
  filter_upwards [self_mem_nhdsWithin] with x hx using (pw_of_lt hx).symm

/-- right limit at `TMax` -/
theorem pw_tendsto_right_TMax (hle : TMin ≤ TMax) (hc : ContinuousAt gR TMax)
    (hm : gR TMax = h TMax) :
    Tendsto (pw TMin TMax gL gR h) (𝓝[>] TMax) (𝓝 (pw TMin TMax gL gR h TMax)) := by
  rw [pw_TMax hle, ← hm]
  refine (hc.tendsto.mono_left nhdsWithin_le_nhds).congr' ?_
  filter_upwards [self_mem_nhdsWithin] with x hx using (pw_of_gt hle hx).symm

theorem pw_continuousWithinAt_Ici_TMin (hlt : TMin < TMax)
    (hh : ContinuousWithinAt h (Ici TMin) TMin) :
    ContinuousWithinAt (pw TMin TMax gL gR h) (Ici TMin) TMin := by
  refine hh.congr_of_eventuallyEq ?_ (pw_TMin hlt.le)
  filter_upwards [Icc_mem_nhdsGE hlt] with x hx using pw_of_mem hx.1 hx.2

theorem pw_continuousWithinAt_Iic_TMax (hlt : TMin < TMax)
    (hh : ContinuousWithinAt h (Iic TMax) TMax) :
    ContinuousWithinAt (pw TMin TMax gL gR h) (Iic TMax) TMax := by
  refine hh.congr_of_eventuallyEq ?_ (pw_TMax hlt.le)
  filter_upwards [Icc_mem_nhdsLE hlt] with x hx using pw_of_mem hx.1 hx.2

theorem pw_continuousAt_TMin (hlt : TMin < TMax) (hc : ContinuousAt gL TMin)
    (hm : gL TMin = h TMin) (hh : ContinuousWithinAt h (Ici TMin) TMin) :
    ContinuousAt (pw TMin TMax gL gR h) TMin := by
  rw [continuousAt_iff_continuous_left'_right']
  refine ⟨pw_tendsto_left_TMin hlt.le hc hm, ?_⟩
  rw [continuousWithinAt_Ioi_iff_Ici]
  exact pw_continuousWithinAt_Ici_TMin hlt hh

theorem pw_continuousAt_TMax (hlt : TMin < TMax) (hc : ContinuousAt gR TMax)
    (hm : gR TMax = h TMax) (hh : ContinuousWithinAt h (Iic TMax) TMax) :
    ContinuousAt (pw TMin TMax gL gR h) TMax := by
  rw [continuousAt_iff_continuous_left'_right']
  refine ⟨?_, pw_tendsto_right_TMax hlt.le hc hm⟩
  rw [continuousWithinAt_Iio_iff_Iic]
  exact pw_continuousWithinAt_Iic_TMax hlt hh

theorem pw_hasDerivAt_of_lt {g' : ℝ} (hT : T < TMin) (hg : HasDerivAt gL g' T) :
    HasDerivAt (pw TMin TMax gL gR h) g' T :=
  hg.congr_of_eventuallyEq (pw_eventuallyEq_of_lt hT)

theorem pw_hasDerivAt_of_gt {g' : ℝ} (hle : TMin ≤ TMax) (hT : TMax < T)
    (hg : HasDerivAt gR g' T) : HasDerivAt (pw TMin TMax gL gR h) g' T :=
  hg.congr_of_eventuallyEq (pw_eventuallyEq_of_gt hle hT)

theorem pw_hasDerivAt_of_mem {h' : ℝ} (h1 : TMin < T) (h2 : T < TMax)
    (hh : HasDerivAt h h' T) : HasDerivAt (pw TMin TMax gL gR h) h' T :=
  hh.congr_of_eventuallyEq (pw_eventuallyEq_of_mem h1 h2)

/-- two-sided derivative AT `TMin`: the outer branch is differentiable there with derivative `d`,
matches the inner branch in value, and the inner branch has right derivative `d`. -/
theorem pw_hasDerivAt_TMin {d : ℝ} (hlt : TMin < TMax) (hg : HasDerivAt gL d TMin)
    (hm : gL TMin = h TMin) (hh : HasDerivWithinAt h d (Ici TMin) TMin) :
    HasDerivAt (pw TMin TMax gL gR h) d TMin := by
  have hL : HasDerivWithinAt (pw TMin TMax gL gR h) d (Iic TMin) TMin := by
    refine hg.hasDerivWithinAt.congr ?_ ((pw_TMin hlt.le).trans hm.symm)
    intro x hx
    rcases (mem_Iic.mp hx).lt_or_eq with hx | rfl
    · exact pw_of_lt hx
    · exact (pw_TMin hlt.le).trans hm.symm
  have hR : HasDerivWithinAt (pw TMin TMax gL gR h) d (Ici TMin) TMin := by
    refine hh.congr_of_eventuallyEq ?_ (pw_TMin hlt.le)
    filter_upwards [Icc_mem_nhdsGE hlt] with x hx using pw_of_mem hx.1 hx.2
  have := hL.union hR
  rwa [Iic_union_Ici, hasDerivWithinAt_univ] at this

theorem pw_hasDerivAt_TMax {d : ℝ} (hlt : TMin < TMax) (hg : HasDerivAt gR d TMax)
    (hm : gR TMax = h TMax) (hh : HasDerivWithinAt h d (Iic TMax) TMax) :
    HasDerivAt (pw TMin TMax gL gR h) d TMax := by
  have hR : HasDerivWithinAt (pw TMin TMax gL gR h) d (Ici TMax) TMax := by
    refine hg.hasDerivWithinAt.congr ?_ ((pw_TMax hlt.le).trans hm.symm)
    intro x hx
    rcases (mem_Ici.mp hx).lt_or_eq with hx | rfl
    · exact pw_of_gt hlt.le hx
    · exact (pw_TMax hlt.le).trans hm.symm
  have hL : HasDerivWithinAt (pw TMin TMax gL gR h) d (Iic TMax) TMax := by
    refine hh.congr_of_eventuallyEq ?_ (pw_TMax hlt.le)
    filter_upwards [Icc_mem_nhdsLE hlt] with x hx using pw_of_mem hx.1 hx.2
  have := hL.union hR
  rwa [Iic_union_Ici, hasDerivWithinAt_univ] at this

end pw

/-! ## Template-model power laws (extrapolated regions) -/

/-- `1/3 · a · T^mu − eps` -/
noncomputable def plP (a mu eps T : ℝ) : ℝ := 1 / 3 * a * T ^ mu - eps
/-- `1/3 · mu · a · T^(mu−1)` -/
noncomputable def plDP (a mu T : ℝ) : ℝ := 1 / 3 * mu * a * T ^ (mu - 1)
/-- `1/3 · mu · (mu−1) · a · T^(mu−2)` -/
noncomputable def plDDP (a mu T : ℝ) : ℝ := 1 / 3 * mu * (mu - 1) * a * T ^ (mu - 2)

section pl
variable {a mu eps T : ℝ}

theorem hasDerivAt_plP (hT : T ≠ 0) : HasDerivAt (plP a mu eps) (plDP a mu T) T := by
  have h := ((Real.hasDerivAt_rpow_const (p := mu) (Or.inl hT)).const_mul (1 / 3 * a)).sub_const eps
  have e : 1 / 3 * a * (mu * T ^ (mu - 1)) = plDP a mu T := by unfold plDP; ring
  rw [e] at h
  exact h

theorem hasDerivAt_plDP (hT : T ≠ 0) : HasDerivAt (plDP a mu) (plDDP a mu T) T := by
  have h := (Real.hasDerivAt_rpow_const (p := mu - 1) (Or.inl hT)).const_mul (1 / 3 * mu * a)
  have e : 1 / 3 * mu * a * ((mu - 1) * T ^ (mu - 1 - 1)) = plDDP a mu T := by
    unfold plDDP; rw [show mu - 1 - 1 = mu - 2 by ring]; ring
  rw [e] at h
  exact h

theorem continuousAt_plP (hT : T ≠ 0) : ContinuousAt (plP a mu eps) T :=
  (hasDerivAt_plP hT).continuousAt

theorem continuousAt_plDP (hT : T ≠ 0) : ContinuousAt (plDP a mu) T :=
  (hasDerivAt_plDP hT).continuousAt

theorem continuousAt_plDDP (hT : T ≠ 0) : ContinuousAt (plDDP a mu) T :=
  continuousAt_const.mul (Real.continuousAt_rpow_const T (mu - 2) (Or.inl hT))

/-- value matching: needs only the definition of `eps`. -/
theorem pl_match_p {T0 p0 : ℝ} (heps : eps = 1 / 3 * a * T0 ^ mu - p0) :
    plP a mu eps T0 = p0 := by
  unfold plP; rw [heps]; ring

/-- `mu = 1 + 1/csq` is `(dp + de)/dp`. -/
theorem mu_eq {T0 dp0 ddp0 : ℝ} (hdp : dp0 ≠ 0)
    (hmu : mu = 1 + 1 / (dp0 / (T0 * ddp0))) : mu = (dp0 + T0 * ddp0) / dp0 := by
  rw [hmu, one_div_div]; field_simp

theorem mu_ne_zero {T0 dp0 ddp0 : ℝ} (hdp : dp0 ≠ 0) (hdw : dp0 + T0 * ddp0 ≠ 0)
    (hmu : mu = 1 + 1 / (dp0 / (T0 * ddp0))) : mu ≠ 0 := by
  rw [mu_eq hdp hmu]; exact div_ne_zero hdw hdp

theorem mu_sub_one {T0 dp0 ddp0 : ℝ}
    (hmu : mu = 1 + 1 / (dp0 / (T0 * ddp0))) : mu - 1 = T0 * ddp0 / dp0 := by
  rw [hmu, one_div_div]; ring

/-- first-derivative matching. -/
theorem pl_match_dp {T0 dp0 : ℝ} (hT0 : 0 < T0) (hmu0 : mu ≠ 0)
    (ha : a = 3 * (T0 * dp0) / (mu * T0 ^ mu)) :
    plDP a mu T0 = dp0 := by
  have hP : T0 ^ mu ≠ 0 := (Real.rpow_pos_of_pos hT0 mu).ne'
  unfold plDP
  rw [Real.rpow_sub_one hT0.ne', ha]
  field_simp

/-- second-derivative matching. -/
theorem pl_match_ddp {T0 dp0 ddp0 : ℝ} (hT0 : 0 < T0) (hdp : dp0 ≠ 0) (hmu0 : mu ≠ 0)
    (hmu : mu = 1 + 1 / (dp0 / (T0 * ddp0)))
    (ha : a = 3 * (T0 * dp0) / (mu * T0 ^ mu)) :
    plDDP a mu T0 = ddp0 := by
  have hP : T0 ^ mu ≠ 0 := (Real.rpow_pos_of_pos hT0 mu).ne'
  unfold plDDP
  rw [Real.rpow_sub hT0, Real.rpow_two, mu_sub_one hmu, ha]
  field_simp

theorem a_ne_zero {T0 dp0 : ℝ} (hT0 : 0 < T0) (hdp : dp0 ≠ 0) (hmu0 : mu ≠ 0)
    (ha : a = 3 * (T0 * dp0) / (mu * T0 ^ mu)) : a ≠ 0 := by
  have hP : T0 ^ mu ≠ 0 := (Real.rpow_pos_of_pos hT0 mu).ne'
  rw [ha]; positivity

/-- on the power law, `dp / (T·ddp) = 1/(mu−1)` at every `T > 0`. -/
theorem pl_ratio (hT : 0 < T) (hmu0 : mu ≠ 0) (ha0 : a ≠ 0) :
    plDP a mu T / (T * plDDP a mu T) = 1 / (mu - 1) := by
  have hQ : T ^ (mu - 2) ≠ 0 := (Real.rpow_pos_of_pos hT _).ne'
  have e : T ^ (mu - 1) = T ^ (mu - 2) * T := by
    rw [show mu - 1 = (mu - 2) + 1 by ring, Real.rpow_add_one hT.ne']
  unfold plDP plDDP
  rw [e]
  by_cases h1 : mu - 1 = 0
  · simp [h1]
  · field_simp

/-- on the power law, `T·ddp ≠ 0` when `mu ∉ {0,1}`, `a ≠ 0`, `T > 0`. -/
theorem pl_de_ne_zero (hT : 0 < T) (hmu0 : mu ≠ 0) (hmu1 : mu - 1 ≠ 0) (ha0 : a ≠ 0) :
    T * plDDP a mu T ≠ 0 := by
  have hQ : T ^ (mu - 2) ≠ 0 := (Real.rpow_pos_of_pos hT _).ne'
  unfold plDDP; positivity

end pl

/-! ## One phase -/

/-- The data of ONE phase: boundary temperatures, template-model parameters at both ends of the
tabulated range, and the free-energy spline with its two derivatives. -/
structure Phase where
  TMin : ℝ
  muMin : ℝ
  aMin : ℝ
  epsMin : ℝ
  TMax : ℝ
  muMax : ℝ
  aMax : ℝ
  epsMax : ℝ
  F : ℝ → ℝ
  dF : ℝ → ℝ
  ddF : ℝ → ℝ

namespace Phase
variable (ph : Phase)

noncomputable def p : ℝ → ℝ :=
  pw ph.TMin ph.TMax (plP ph.aMin ph.muMin ph.epsMin) (plP ph.aMax ph.muMax ph.epsMax)
    (fun T => -(ph.F T))
noncomputable def dp : ℝ → ℝ :=
  pw ph.TMin ph.TMax (plDP ph.aMin ph.muMin) (plDP ph.aMax ph.muMax) (fun T => -(ph.dF T))
noncomputable def ddp : ℝ → ℝ :=
  pw ph.TMin ph.TMax (plDDP ph.aMin ph.muMin) (plDDP ph.aMax ph.muMax) (fun T => -(ph.ddF T))
noncomputable def e (T : ℝ) : ℝ := T * ph.dp T - ph.p T
noncomputable def de (T : ℝ) : ℝ := T * ph.ddp T
noncomputable def w (T : ℝ) : ℝ := T * ph.dp T
noncomputable def csq : ℝ → ℝ :=
  pw ph.TMin ph.TMax (fun _ => ph.dp ph.TMin / ph.de ph.TMin)
    (fun _ => ph.dp ph.TMax / ph.de ph.TMax) (fun T => ph.dp T / ph.de T)

/-- the six assignments of `setExtrapolate` for this phase hold. -/
structure Extrap : Prop where
  muMin : ph.muMin = 1 + 1 / ph.csq ph.TMin
  aMin : ph.aMin = 3 * ph.w ph.TMin / (ph.muMin * ph.TMin ^ ph.muMin)
  epsMin : ph.epsMin = 1 / 3 * ph.aMin * ph.TMin ^ ph.muMin - ph.p ph.TMin
  muMax : ph.muMax = 1 + 1 / ph.csq ph.TMax
  aMax : ph.aMax = 3 * ph.w ph.TMax / (ph.muMax * ph.TMax ^ ph.muMax)
  epsMax : ph.epsMax = 1 / 3 * ph.aMax * ph.TMax ^ ph.muMax - ph.p ph.TMax

/-- side conditions for one phase. `dp ≠ 0` is `w ≠ 0` (given `T > 0`), `de ≠ 0` makes `csq = dp/de`
a genuine quotient, `dp + de ≠ 0` (= `dw/dT ≠ 0`) is `mu ≠ 0`. -/
structure WF : Prop where
  TMin_pos : 0 < ph.TMin
  TMin_lt_TMax : ph.TMin < ph.TMax
  dpMin : ph.dp ph.TMin ≠ 0
  deMin : ph.de ph.TMin ≠ 0
  dwMin : ph.dp ph.TMin + ph.de ph.TMin ≠ 0
  dpMax : ph.dp ph.TMax ≠ 0
  deMax : ph.de ph.TMax ≠ 0
  dwMax : ph.dp ph.TMax + ph.de ph.TMax ≠ 0

variable {ph}

/-! ### in-range values -/

theorem p_of_mem {T : ℝ} (h1 : ph.TMin ≤ T) (h2 : T ≤ ph.TMax) : ph.p T = -(ph.F T) :=
  pw_of_mem h1 h2
theorem dp_of_mem {T : ℝ} (h1 : ph.TMin ≤ T) (h2 : T ≤ ph.TMax) : ph.dp T = -(ph.dF T) :=
  pw_of_mem h1 h2
theorem ddp_of_mem {T : ℝ} (h1 : ph.TMin ≤ T) (h2 : T ≤ ph.TMax) : ph.ddp T = -(ph.ddF T) :=
  pw_of_mem h1 h2
theorem csq_of_mem {T : ℝ} (h1 : ph.TMin ≤ T) (h2 : T ≤ ph.TMax) :
    ph.csq T = ph.dp T / ph.de T :=
  pw_of_mem h1 h2

theorem csq_of_lt {T : ℝ} (h : T < ph.TMin) :
    ph.csq T = ph.dp ph.TMin / ph.de ph.TMin :=
  pw_of_lt h

theorem csq_of_gt (hle : ph.TMin ≤ ph.TMax) {T : ℝ} (h : ph.TMax < T) :
    ph.csq T = ph.dp ph.TMax / ph.de ph.TMax :=
  pw_of_gt hle h

/-! ### matching at the boundaries (T10.1, algebraic form) -/

theorem matchMin_p (hE : ph.Extrap) : plP ph.aMin ph.muMin ph.epsMin ph.TMin = ph.p ph.TMin :=
  pl_match_p hE.epsMin

theorem matchMax_p (hE : ph.Extrap) : plP ph.aMax ph.muMax ph.epsMax ph.TMax = ph.p ph.TMax :=
  pl_match_p hE.epsMax

theorem muMin_eq (hE : ph.Extrap) (hle : ph.TMin ≤ ph.TMax) :
    ph.muMin = 1 + 1 / (ph.dp ph.TMin / (ph.TMin * ph.ddp ph.TMin)) := by
  rw [hE.muMin, csq_of_mem le_rfl hle]; rfl

theorem muMax_eq (hE : ph.Extrap) (hle : ph.TMin ≤ ph.TMax) :
    ph.muMax = 1 + 1 / (ph.dp ph.TMax / (ph.TMax * ph.ddp ph.TMax)) := by
  rw [hE.muMax, csq_of_mem hle le_rfl]; rfl

theorem muMin_ne_zero (hE : ph.Extrap) (hle : ph.TMin ≤ ph.TMax) (hdp : ph.dp ph.TMin ≠ 0)
    (hdw : ph.dp ph.TMin + ph.de ph.TMin ≠ 0) : ph.muMin ≠ 0 :=
  mu_ne_zero hdp hdw (muMin_eq hE hle)

theorem muMax_ne_zero (hE : ph.Extrap) (hle : ph.TMin ≤ ph.TMax) (hdp : ph.dp ph.TMax ≠ 0)
    (hdw : ph.dp ph.TMax + ph.de ph.TMax ≠ 0) : ph.muMax ≠ 0 :=
  mu_ne_zero hdp hdw (muMax_eq hE hle)

theorem matchMin_dp (hE : ph.Extrap) (hle : ph.TMin ≤ ph.TMax) (hT : 0 < ph.TMin)
    (hdp : ph.dp ph.TMin ≠ 0) (hdw : ph.dp ph.TMin + ph.de ph.TMin ≠ 0) :
    plDP ph.aMin ph.muMin ph.TMin = ph.dp ph.TMin :=
  pl_match_dp hT (muMin_ne_zero hE hle hdp hdw) hE.aMin

theorem matchMax_dp (hE : ph.Extrap) (hle : ph.TMin ≤ ph.TMax) (hT : 0 < ph.TMax)
    (hdp : ph.dp ph.TMax ≠ 0) (hdw : ph.dp ph.TMax + ph.de ph.TMax ≠ 0) :
    plDP ph.aMax ph.muMax ph.TMax = ph.dp ph.TMax :=
  pl_match_dp hT (muMax_ne_zero hE hle hdp hdw) hE.aMax

theorem matchMin_ddp (hE : ph.Extrap) (hle : ph.TMin ≤ ph.TMax) (hT : 0 < ph.TMin)
    (hdp : ph.dp ph.TMin ≠ 0) (hdw : ph.dp ph.TMin + ph.de ph.TMin ≠ 0) :
    plDDP ph.aMin ph.muMin ph.TMin = ph.ddp ph.TMin :=
  pl_match_ddp hT hdp (muMin_ne_zero hE hle hdp hdw) (muMin_eq hE hle) hE.aMin

theorem matchMax_ddp (hE : ph.Extrap) (hle : ph.TMin ≤ ph.TMax) (hT : 0 < ph.TMax)
    (hdp : ph.dp ph.TMax ≠ 0) (hdw : ph.dp ph.TMax + ph.de ph.TMax ≠ 0) :
    plDDP ph.aMax ph.muMax ph.TMax = ph.ddp ph.TMax :=
  pl_match_ddp hT hdp (muMax_ne_zero hE hle hdp hdw) (muMax_eq hE hle) hE.aMax

theorem WF.TMax_pos (hW : ph.WF) : 0 < ph.TMax := hW.TMin_pos.trans hW.TMin_lt_TMax

/-! ### one-sided limits from the extrapolated side (T10.1) -/

theorem p_tendsto_left_TMin (hE : ph.Extrap) (hle : ph.TMin ≤ ph.TMax) (hT : ph.TMin ≠ 0) :
    Tendsto ph.p (𝓝[<] ph.TMin) (𝓝 (ph.p ph.TMin)) :=
  pw_tendsto_left_TMin hle (continuousAt_plP hT) ((matchMin_p hE).trans (p_of_mem le_rfl hle))

theorem p_tendsto_right_TMax (hE : ph.Extrap) (hle : ph.TMin ≤ ph.TMax) (hT : ph.TMax ≠ 0) :
    Tendsto ph.p (𝓝[>] ph.TMax) (𝓝 (ph.p ph.TMax)) :=
  pw_tendsto_right_TMax hle (continuousAt_plP hT) ((matchMax_p hE).trans (p_of_mem hle le_rfl))

theorem dp_tendsto_left_TMin (hE : ph.Extrap) (hW : ph.WF) :
    Tendsto ph.dp (𝓝[<] ph.TMin) (𝓝 (ph.dp ph.TMin)) :=
  have hle := hW.TMin_lt_TMax.le
  pw_tendsto_left_TMin hle (continuousAt_plDP hW.TMin_pos.ne')
    ((matchMin_dp hE hle hW.TMin_pos hW.dpMin hW.dwMin).trans (dp_of_mem le_rfl hle))

theorem dp_tendsto_right_TMax (hE : ph.Extrap) (hW : ph.WF) :
    Tendsto ph.dp (𝓝[>] ph.TMax) (𝓝 (ph.dp ph.TMax)) :=
  have hle := hW.TMin_lt_TMax.le
  pw_tendsto_right_TMax hle (continuousAt_plDP hW.TMax_pos.ne')
    ((matchMax_dp hE hle hW.TMax_pos hW.dpMax hW.dwMax).trans (dp_of_mem hle le_rfl))

theorem ddp_tendsto_left_TMin (hE : ph.Extrap) (hW : ph.WF) :
    Tendsto ph.ddp (𝓝[<] ph.TMin) (𝓝 (ph.ddp ph.TMin)) :=
  have hle := hW.TMin_lt_TMax.le
  pw_tendsto_left_TMin hle (continuousAt_plDDP hW.TMin_pos.ne')
    ((matchMin_ddp hE hle hW.TMin_pos hW.dpMin hW.dwMin).trans (ddp_of_mem le_rfl hle))

theorem ddp_tendsto_right_TMax (hE : ph.Extrap) (hW : ph.WF) :
    Tendsto ph.ddp (𝓝[>] ph.TMax) (𝓝 (ph.ddp ph.TMax)) :=
  have hle := hW.TMin_lt_TMax.le
  pw_tendsto_right_TMax hle (continuousAt_plDDP hW.TMax_pos.ne')
    ((matchMax_ddp hE hle hW.TMax_pos hW.dpMax hW.dwMax).trans (ddp_of_mem hle le_rfl))

theorem csq_tendsto_left_TMin (hle : ph.TMin ≤ ph.TMax) :
    Tendsto ph.csq (𝓝[<] ph.TMin) (𝓝 (ph.csq ph.TMin)) :=
  pw_tendsto_left_TMin hle continuousAt_const rfl

theorem csq_tendsto_right_TMax (hle : ph.TMin ≤ ph.TMax) :
    Tendsto ph.csq (𝓝[>] ph.TMax) (𝓝 (ph.csq ph.TMax)) :=
  pw_tendsto_right_TMax hle continuousAt_const rfl

/-! ### two-sided continuity at the boundaries (T10.1) -/

theorem p_continuousAt_TMin (hE : ph.Extrap) (hlt : ph.TMin < ph.TMax) (hT : ph.TMin ≠ 0)
    (hF : ContinuousWithinAt ph.F (Ici ph.TMin) ph.TMin) : ContinuousAt ph.p ph.TMin :=
  pw_continuousAt_TMin hlt (continuousAt_plP hT)
    ((matchMin_p hE).trans (p_of_mem le_rfl hlt.le)) hF.neg

theorem p_continuousAt_TMax (hE : ph.Extrap) (hlt : ph.TMin < ph.TMax) (hT : ph.TMax ≠ 0)
    (hF : ContinuousWithinAt ph.F (Iic ph.TMax) ph.TMax) : ContinuousAt ph.p ph.TMax :=
  pw_continuousAt_TMax hlt (continuousAt_plP hT)
    ((matchMax_p hE).trans (p_of_mem hlt.le le_rfl)) hF.neg

theorem dp_continuousAt_TMin (hE : ph.Extrap) (hW : ph.WF)
    (hF : ContinuousWithinAt ph.dF (Ici ph.TMin) ph.TMin) : ContinuousAt ph.dp ph.TMin :=
  have hle := hW.TMin_lt_TMax.le
  pw_continuousAt_TMin hW.TMin_lt_TMax (continuousAt_plDP hW.TMin_pos.ne')
    ((matchMin_dp hE hle hW.TMin_pos hW.dpMin hW.dwMin).trans (dp_of_mem le_rfl hle)) hF.neg

theorem dp_continuousAt_TMax (hE : ph.Extrap) (hW : ph.WF)
    (hF : ContinuousWithinAt ph.dF (Iic ph.TMax) ph.TMax) : ContinuousAt ph.dp ph.TMax :=
  have hle := hW.TMin_lt_TMax.le
  pw_continuousAt_TMax hW.TMin_lt_TMax (continuousAt_plDP hW.TMax_pos.ne')
    ((matchMax_dp hE hle hW.TMax_pos hW.dpMax hW.dwMax).trans (dp_of_mem hle le_rfl)) hF.neg

theorem ddp_continuousAt_TMin (hE : ph.Extrap) (hW : ph.WF)
    (hF : ContinuousWithinAt ph.ddF (Ici ph.TMin) ph.TMin) : ContinuousAt ph.ddp ph.TMin :=
  have hle := hW.TMin_lt_TMax.le
  pw_continuousAt_TMin hW.TMin_lt_TMax (continuousAt_plDDP hW.TMin_pos.ne')
    ((matchMin_ddp hE hle hW.TMin_pos hW.dpMin hW.dwMin).trans (ddp_of_mem le_rfl hle)) hF.neg

theorem ddp_continuousAt_TMax (hE : ph.Extrap) (hW : ph.WF)
    (hF : ContinuousWithinAt ph.ddF (Iic ph.TMax) ph.TMax) : ContinuousAt ph.ddp ph.TMax :=
  have hle := hW.TMin_lt_TMax.le
  pw_continuousAt_TMax hW.TMin_lt_TMax (continuousAt_plDDP hW.TMax_pos.ne')
    ((matchMax_ddp hE hle hW.TMax_pos hW.dpMax hW.dwMax).trans (ddp_of_mem hle le_rfl)) hF.neg

/-- `csq` is continuous at `TMin`: constant on the left; on the right it is `dp/de` with
`dp = -dF`, `de = -T·ddF` right-continuous and `de(TMin) ≠ 0`. No `Extrap` needed. -/
theorem csq_continuousAt_TMin (hlt : ph.TMin < ph.TMax) (hde : ph.de ph.TMin ≠ 0)
    (hdF : ContinuousWithinAt ph.dF (Ici ph.TMin) ph.TMin)
    (hddF : ContinuousWithinAt ph.ddF (Ici ph.TMin) ph.TMin) : ContinuousAt ph.csq ph.TMin := by
  refine pw_continuousAt_TMin hlt continuousAt_const rfl ?_
  have h1 : ContinuousWithinAt ph.dp (Ici ph.TMin) ph.TMin :=
    pw_continuousWithinAt_Ici_TMin hlt hdF.neg
  have h2 : ContinuousWithinAt ph.ddp (Ici ph.TMin) ph.TMin :=
    pw_continuousWithinAt_Ici_TMin hlt hddF.neg
  exact h1.div (continuousWithinAt_id.mul h2) hde

theorem csq_continuousAt_TMax (hlt : ph.TMin < ph.TMax) (hde : ph.de ph.TMax ≠ 0)
    (hdF : ContinuousWithinAt ph.dF (Iic ph.TMax) ph.TMax)
    (hddF : ContinuousWithinAt ph.ddF (Iic ph.TMax) ph.TMax) : ContinuousAt ph.csq ph.TMax := by
  refine pw_continuousAt_TMax hlt continuousAt_const rfl ?_
  have h1 : ContinuousWithinAt ph.dp (Iic ph.TMax) ph.TMax :=
    pw_continuousWithinAt_Iic_TMax hlt hdF.neg
  have h2 : ContinuousWithinAt ph.ddp (Iic ph.TMax) ph.TMax :=
    pw_continuousWithinAt_Iic_TMax hlt hddF.neg
  exact h1.div (continuousWithinAt_id.mul h2) hde

/-! ### derivatives (T10.2) -/

theorem hasDerivAt_p_of_lt {T : ℝ} (hT0 : T ≠ 0) (hT : T < ph.TMin) :
    HasDerivAt ph.p (ph.dp T) T := by
  rw [dp, pw_of_lt hT]; exact pw_hasDerivAt_of_lt hT (hasDerivAt_plP hT0)

theorem hasDerivAt_dp_of_lt {T : ℝ} (hT0 : T ≠ 0) (hT : T < ph.TMin) :
    HasDerivAt ph.dp (ph.ddp T) T := by
  rw [ddp, pw_of_lt hT]; exact pw_hasDerivAt_of_lt hT (hasDerivAt_plDP hT0)

theorem hasDerivAt_p_of_gt (hle : ph.TMin ≤ ph.TMax) {T : ℝ} (hT0 : T ≠ 0) (hT : ph.TMax < T) :
    HasDerivAt ph.p (ph.dp T) T := by
  rw [dp, pw_of_gt hle hT]; exact pw_hasDerivAt_of_gt hle hT (hasDerivAt_plP hT0)

theorem hasDerivAt_dp_of_gt (hle : ph.TMin ≤ ph.TMax) {T : ℝ} (hT0 : T ≠ 0) (hT : ph.TMax < T) :
    HasDerivAt ph.dp (ph.ddp T) T := by
  rw [ddp, pw_of_gt hle hT]; exact pw_hasDerivAt_of_gt hle hT (hasDerivAt_plDP hT0)

theorem hasDerivAt_p_of_mem {T : ℝ} (h1 : ph.TMin < T) (h2 : T < ph.TMax)
    (hF : HasDerivAt ph.F (ph.dF T) T) : HasDerivAt ph.p (ph.dp T) T := by
  rw [dp_of_mem h1.le h2.le]; exact pw_hasDerivAt_of_mem h1 h2 hF.fun_neg

theorem hasDerivAt_dp_of_mem {T : ℝ} (h1 : ph.TMin < T) (h2 : T < ph.TMax)
    (hF : HasDerivAt ph.dF (ph.ddF T) T) : HasDerivAt ph.dp (ph.ddp T) T := by
  rw [ddp_of_mem h1.le h2.le]; exact pw_hasDerivAt_of_mem h1 h2 hF.fun_neg

theorem hasDerivAt_p_TMin (hE : ph.Extrap) (hW : ph.WF)
    (hF : HasDerivWithinAt ph.F (ph.dF ph.TMin) (Ici ph.TMin) ph.TMin) :
    HasDerivAt ph.p (ph.dp ph.TMin) ph.TMin := by
  have hle := hW.TMin_lt_TMax.le
  refine pw_hasDerivAt_TMin hW.TMin_lt_TMax ?_
    ((matchMin_p hE).trans (p_of_mem le_rfl hle)) ?_
  · rw [← matchMin_dp hE hle hW.TMin_pos hW.dpMin hW.dwMin]
    exact hasDerivAt_plP hW.TMin_pos.ne'
  · rw [dp_of_mem le_rfl hle]; exact hF.fun_neg

theorem hasDerivAt_p_TMax (hE : ph.Extrap) (hW : ph.WF)
    (hF : HasDerivWithinAt ph.F (ph.dF ph.TMax) (Iic ph.TMax) ph.TMax) :
    HasDerivAt ph.p (ph.dp ph.TMax) ph.TMax := by
  have hle := hW.TMin_lt_TMax.le
  refine pw_hasDerivAt_TMax hW.TMin_lt_TMax ?_
    ((matchMax_p hE).trans (p_of_mem hle le_rfl)) ?_
  · rw [← matchMax_dp hE hle hW.TMax_pos hW.dpMax hW.dwMax]
    exact hasDerivAt_plP hW.TMax_pos.ne'
  · rw [dp_of_mem hle le_rfl]; exact hF.fun_neg

theorem hasDerivAt_dp_TMin (hE : ph.Extrap) (hW : ph.WF)
    (hF : HasDerivWithinAt ph.dF (ph.ddF ph.TMin) (Ici ph.TMin) ph.TMin) :
    HasDerivAt ph.dp (ph.ddp ph.TMin) ph.TMin := by
  have hle := hW.TMin_lt_TMax.le
  refine pw_hasDerivAt_TMin hW.TMin_lt_TMax ?_
    ((matchMin_dp hE hle hW.TMin_pos hW.dpMin hW.dwMin).trans (dp_of_mem le_rfl hle)) ?_
  · rw [← matchMin_ddp hE hle hW.TMin_pos hW.dpMin hW.dwMin]
    exact hasDerivAt_plDP hW.TMin_pos.ne'
  · rw [ddp_of_mem le_rfl hle]; exact hF.fun_neg

theorem hasDerivAt_dp_TMax (hE : ph.Extrap) (hW : ph.WF)
    (hF : HasDerivWithinAt ph.dF (ph.ddF ph.TMax) (Iic ph.TMax) ph.TMax) :
    HasDerivAt ph.dp (ph.ddp ph.TMax) ph.TMax := by
  have hle := hW.TMin_lt_TMax.le
  refine pw_hasDerivAt_TMax hW.TMin_lt_TMax ?_
    ((matchMax_dp hE hle hW.TMax_pos hW.dpMax hW.dwMax).trans (dp_of_mem hle le_rfl)) ?_
  · rw [← matchMax_ddp hE hle hW.TMax_pos hW.dpMax hW.dwMax]
    exact hasDerivAt_plDP hW.TMax_pos.ne'
  · rw [ddp_of_mem hle le_rfl]; exact hF.fun_neg

/-- `dp` is the derivative of `p` at EVERY `T > 0`, given the spline contract on the closed range. -/
theorem hasDerivAt_p (hE : ph.Extrap) (hW : ph.WF)
    (hF : ∀ T, ph.TMin ≤ T → T ≤ ph.TMax → HasDerivAt ph.F (ph.dF T) T) {T : ℝ} (hT : 0 < T) :
    HasDerivAt ph.p (ph.dp T) T := by
  have hlt := hW.TMin_lt_TMax
  rcases lt_trichotomy T ph.TMin with h | rfl | h
  · exact hasDerivAt_p_of_lt hT.ne' h
  · exact hasDerivAt_p_TMin hE hW (hF _ le_rfl hlt.le).hasDerivWithinAt
  rcases lt_trichotomy T ph.TMax with h' | rfl | h'
  · exact hasDerivAt_p_of_mem h h' (hF _ h.le h'.le)
  · exact hasDerivAt_p_TMax hE hW (hF _ hlt.le le_rfl).hasDerivWithinAt
  · exact hasDerivAt_p_of_gt hlt.le hT.ne' h'

/-- `ddp` is the derivative of `dp` at EVERY `T > 0`, given the spline contract on the closed range. -/
theorem hasDerivAt_dp (hE : ph.Extrap) (hW : ph.WF)
    (hF : ∀ T, ph.TMin ≤ T → T ≤ ph.TMax → HasDerivAt ph.dF (ph.ddF T) T) {T : ℝ} (hT : 0 < T) :
    HasDerivAt ph.dp (ph.ddp T) T := by
  have hlt := hW.TMin_lt_TMax
  rcases lt_trichotomy T ph.TMin with h | rfl | h
  · exact hasDerivAt_dp_of_lt hT.ne' h
  · exact hasDerivAt_dp_TMin hE hW (hF _ le_rfl hlt.le).hasDerivWithinAt
  rcases lt_trichotomy T ph.TMax with h' | rfl | h'
  · exact hasDerivAt_dp_of_mem h h' (hF _ h.le h'.le)
  · exact hasDerivAt_dp_TMax hE hW (hF _ hlt.le le_rfl).hasDerivWithinAt
  · exact hasDerivAt_dp_of_gt hlt.le hT.ne' h'

/-! ### `csq = dp/de` in the extrapolated regions -/

theorem aMin_ne_zero (hE : ph.Extrap) (hle : ph.TMin ≤ ph.TMax) (hT : 0 < ph.TMin)
    (hdp : ph.dp ph.TMin ≠ 0) (hdw : ph.dp ph.TMin + ph.de ph.TMin ≠ 0) : ph.aMin ≠ 0 :=
  a_ne_zero hT hdp (muMin_ne_zero hE hle hdp hdw) hE.aMin

theorem aMax_ne_zero (hE : ph.Extrap) (hle : ph.TMin ≤ ph.TMax) (hT : 0 < ph.TMax)
    (hdp : ph.dp ph.TMax ≠ 0) (hdw : ph.dp ph.TMax + ph.de ph.TMax ≠ 0) : ph.aMax ≠ 0 :=
  a_ne_zero hT hdp (muMax_ne_zero hE hle hdp hdw) hE.aMax

theorem csq_eq_of_lt (hE : ph.Extrap) (hle : ph.TMin ≤ ph.TMax) (hTm : 0 < ph.TMin)
    (hdp : ph.dp ph.TMin ≠ 0) (hdw : ph.dp ph.TMin + ph.de ph.TMin ≠ 0)
    {T : ℝ} (hT0 : 0 < T) (hT : T < ph.TMin) : ph.csq T = ph.dp T / ph.de T := by
  have e1 : ph.dp T = plDP ph.aMin ph.muMin T := pw_of_lt hT
  have e2 : ph.de T = T * plDDP ph.aMin ph.muMin T := by unfold de ddp; rw [pw_of_lt hT]
  rw [csq_of_lt hT, e1, e2,
    pl_ratio hT0 (muMin_ne_zero hE hle hdp hdw) (aMin_ne_zero hE hle hTm hdp hdw),
    mu_sub_one (muMin_eq hE hle), one_div_div]
  rfl

theorem csq_eq_of_gt (hE : ph.Extrap) (hle : ph.TMin ≤ ph.TMax) (hTm : 0 < ph.TMax)
    (hdp : ph.dp ph.TMax ≠ 0) (hdw : ph.dp ph.TMax + ph.de ph.TMax ≠ 0)
    {T : ℝ} (hT : ph.TMax < T) : ph.csq T = ph.dp T / ph.de T := by
  have hT0 : 0 < T := hTm.trans hT
  have e1 : ph.dp T = plDP ph.aMax ph.muMax T := pw_of_gt hle hT
  have e2 : ph.de T = T * plDDP ph.aMax ph.muMax T := by unfold de ddp; rw [pw_of_gt hle hT]
  rw [csq_of_gt hle hT, e1, e2,
    pl_ratio hT0 (muMax_ne_zero hE hle hdp hdw) (aMax_ne_zero hE hle hTm hdp hdw),
    mu_sub_one (muMax_eq hE hle), one_div_div]
  rfl

/-- `csq = dp/de` at every `T > 0`. -/
theorem csq_eq (hE : ph.Extrap) (hW : ph.WF) {T : ℝ} (hT : 0 < T) :
    ph.csq T = ph.dp T / ph.de T := by
  have hle := hW.TMin_lt_TMax.le
  rcases lt_or_ge T ph.TMin with h | h
  · exact csq_eq_of_lt hE hle hW.TMin_pos hW.dpMin hW.dwMin hT h
  rcases le_or_gt T ph.TMax with h' | h'
  · exact csq_of_mem h h'
  · exact csq_eq_of_gt hE hle hW.TMax_pos hW.dpMax hW.dwMax h'

/-- in the low extrapolated region the quotient `dp/de` is genuine: `de T ≠ 0`. -/
theorem de_ne_zero_of_lt (hE : ph.Extrap) (hW : ph.WF) {T : ℝ} (hT0 : 0 < T) (hT : T < ph.TMin) :
    ph.de T ≠ 0 := by
  have hle := hW.TMin_lt_TMax.le
  have e2 : ph.de T = T * plDDP ph.aMin ph.muMin T := by unfold de ddp; rw [pw_of_lt hT]
  rw [e2]
  refine pl_de_ne_zero hT0 (muMin_ne_zero hE hle hW.dpMin hW.dwMin) ?_
    (aMin_ne_zero hE hle hW.TMin_pos hW.dpMin hW.dwMin)
  rw [mu_sub_one (muMin_eq hE hle)]
  exact div_ne_zero hW.deMin hW.dpMin

theorem de_ne_zero_of_gt (hE : ph.Extrap) (hW : ph.WF) {T : ℝ} (hT : ph.TMax < T) :
    ph.de T ≠ 0 := by
  have hle := hW.TMin_lt_TMax.le
  have e2 : ph.de T = T * plDDP ph.aMax ph.muMax T := by unfold de ddp; rw [pw_of_gt hle hT]
  rw [e2]
  refine pl_de_ne_zero (hW.TMax_pos.trans hT) (muMax_ne_zero hE hle hW.dpMax hW.dwMax) ?_
    (aMax_ne_zero hE hle hW.TMax_pos hW.dpMax hW.dwMax)
  rw [mu_sub_one (muMax_eq hE hle)]
  exact div_ne_zero hW.deMax hW.dpMax

/-- the sound speed used in the extrapolated regions is `1/(mu−1)`. -/
theorem csq_TMin_eq (hE : ph.Extrap) (hle : ph.TMin ≤ ph.TMax) :
    ph.csq ph.TMin = 1 / (ph.muMin - 1) := by
  rw [mu_sub_one (muMin_eq hE hle), one_div_div, csq_of_mem le_rfl hle]; rfl

theorem csq_TMax_eq (hE : ph.Extrap) (hle : ph.TMin ≤ ph.TMax) :
    ph.csq ph.TMax = 1 / (ph.muMax - 1) := by
  rw [mu_sub_one (muMax_eq hE hle), one_div_div, csq_of_mem hle le_rfl]; rfl

end Phase

/-! ## The generated `ThermoP` as two phases -/

open Gen.R.Thermo

/-- the high-temperature phase of `s`. -/
def highPhase (s : ThermoP) : Phase :=
  { TMin := s.TMinHighT, muMin := s.muMinHighT, aMin := s.aMinHighT, epsMin := s.epsilonMinHighT,
    TMax := s.TMaxHighT, muMax := s.muMaxHighT, aMax := s.aMaxHighT, epsMax := s.epsilonMaxHighT,
    F := s.FHigh, dF := s.dFHigh, ddF := s.ddFHigh }

/-- the low-temperature phase of `s`. -/
def lowPhase (s : ThermoP) : Phase :=
  { TMin := s.TMinLowT, muMin := s.muMinLowT, aMin := s.aMinLowT, epsMin := s.epsilonMinLowT,
    TMax := s.TMaxLowT, muMax := s.muMaxLowT, aMax := s.aMaxLowT, epsMax := s.epsilonMaxLowT,
    F := s.FLow, dF := s.dFLow, ddF := s.ddFLow }

section bridge
variable (s : ThermoP)

/-! The generated functions are *definitionally* the one-phase functions. -/
theorem pHighT_eq : pHighT s = (highPhase s).p := rfl
theorem dpHighT_eq : dpHighT s = (highPhase s).dp := rfl
theorem ddpHighT_eq : ddpHighT s = (highPhase s).ddp := rfl
theorem eHighT_eq : eHighT s = (highPhase s).e := rfl
theorem deHighT_eq : deHighT s = (highPhase s).de := rfl
theorem wHighT_eq : wHighT s = (highPhase s).w := rfl
theorem csqHighT_eq : csqHighT s = (highPhase s).csq := rfl
theorem pLowT_eq : pLowT s = (lowPhase s).p := rfl
theorem dpLowT_eq : dpLowT s = (lowPhase s).dp := rfl
theorem ddpLowT_eq : ddpLowT s = (lowPhase s).ddp := rfl
theorem eLowT_eq : eLowT s = (lowPhase s).e := rfl
theorem deLowT_eq : deLowT s = (lowPhase s).de := rfl
theorem wLowT_eq : wLowT s = (lowPhase s).w := rfl
theorem csqLowT_eq : csqLowT s = (lowPhase s).csq := rfl

end bridge

/-- "`s` is the state left by `setExtrapolate`": each of the 12 template-model fields equals the value
that `setExtrapolate` assigns to it (the `*_set` definitions of the generated file, which read the
fields assigned earlier from `s` itself). -/
def Extrapolated (s : ThermoP) : Prop :=
  s.muMinHighT = muMinHighT_set s ∧ s.aMinHighT = aMinHighT_set s ∧
  s.epsilonMinHighT = epsilonMinHighT_set s ∧
  s.muMaxHighT = muMaxHighT_set s ∧ s.aMaxHighT = aMaxHighT_set s ∧
  s.epsilonMaxHighT = epsilonMaxHighT_set s ∧
  s.muMinLowT = muMinLowT_set s ∧ s.aMinLowT = aMinLowT_set s ∧
  s.epsilonMinLowT = epsilonMinLowT_set s ∧
  s.muMaxLowT = muMaxLowT_set s ∧ s.aMaxLowT = aMaxLowT_set s ∧
  s.epsilonMaxLowT = epsilonMaxLowT_set s

theorem Extrapolated.high {s : ThermoP} (h : Extrapolated s) : (highPhase s).Extrap :=
  ⟨h.1, h.2.1, h.2.2.1, h.2.2.2.1, h.2.2.2.2.1, h.2.2.2.2.2.1⟩

theorem Extrapolated.low {s : ThermoP} (h : Extrapolated s) : (lowPhase s).Extrap :=
  ⟨h.2.2.2.2.2.2.1, h.2.2.2.2.2.2.2.1, h.2.2.2.2.2.2.2.2.1, h.2.2.2.2.2.2.2.2.2.1,
    h.2.2.2.2.2.2.2.2.2.2.1, h.2.2.2.2.2.2.2.2.2.2.2⟩

/-- Well-formedness side conditions (all are conditions on the spline data at the four boundary
temperatures, because there `dp = -dF`, `de = -T·ddF`):
* the tabulated range is a non-degenerate interval of positive temperatures;
* `dp ≠ 0` at each boundary  (enthalpy `w = T·dp ≠ 0`; also `csq ≠ 0`, so `1/csq` is genuine);
* `de ≠ 0` at each boundary  (`csq = dp/de` is a genuine quotient);
* `dp + de ≠ 0` at each boundary (this is `mu = 1 + 1/csq ≠ 0`, needed because `a = 3w/(mu·T^mu)`).
Physically `dp > 0` and `de > 0` (positive enthalpy and sound speed) imply all three, see `WF.of_pos`. -/
structure WF (s : ThermoP) : Prop where
  TMinHighT_pos : 0 < s.TMinHighT
  rangeHighT : s.TMinHighT < s.TMaxHighT
  dpMinHighT : dpHighT s s.TMinHighT ≠ 0
  deMinHighT : deHighT s s.TMinHighT ≠ 0
  dwMinHighT : dpHighT s s.TMinHighT + deHighT s s.TMinHighT ≠ 0
  dpMaxHighT : dpHighT s s.TMaxHighT ≠ 0
  deMaxHighT : deHighT s s.TMaxHighT ≠ 0
  dwMaxHighT : dpHighT s s.TMaxHighT + deHighT s s.TMaxHighT ≠ 0
  TMinLowT_pos : 0 < s.TMinLowT
  rangeLowT : s.TMinLowT < s.TMaxLowT
  dpMinLowT : dpLowT s s.TMinLowT ≠ 0
  deMinLowT : deLowT s s.TMinLowT ≠ 0
  dwMinLowT : dpLowT s s.TMinLowT + deLowT s s.TMinLowT ≠ 0
  dpMaxLowT : dpLowT s s.TMaxLowT ≠ 0
  deMaxLowT : deLowT s s.TMaxLowT ≠ 0
  dwMaxLowT : dpLowT s s.TMaxLowT + deLowT s s.TMaxLowT ≠ 0

theorem WF.high {s : ThermoP} (h : WF s) : (highPhase s).WF :=
  ⟨h.TMinHighT_pos, h.rangeHighT, h.dpMinHighT, h.deMinHighT, h.dwMinHighT,
    h.dpMaxHighT, h.deMaxHighT, h.dwMaxHighT⟩

theorem WF.low {s : ThermoP} (h : WF s) : (lowPhase s).WF :=
  ⟨h.TMinLowT_pos, h.rangeLowT, h.dpMinLowT, h.deMinLowT, h.dwMinLowT,
    h.dpMaxLowT, h.deMaxLowT, h.dwMaxLowT⟩

/-- the physical conditions (positive temperatures, `dp > 0` i.e. positive enthalpy, `de > 0` i.e.
positive sound speed, at the four boundaries) imply `WF`. -/
theorem WF.of_pos {s : ThermoP}
    (h1 : 0 < s.TMinHighT) (h2 : s.TMinHighT < s.TMaxHighT)
    (h3 : 0 < dpHighT s s.TMinHighT) (h4 : 0 < deHighT s s.TMinHighT)
    (h5 : 0 < dpHighT s s.TMaxHighT) (h6 : 0 < deHighT s s.TMaxHighT)
    (l1 : 0 < s.TMinLowT) (l2 : s.TMinLowT < s.TMaxLowT)
    (l3 : 0 < dpLowT s s.TMinLowT) (l4 : 0 < deLowT s s.TMinLowT)
    (l5 : 0 < dpLowT s s.TMaxLowT) (l6 : 0 < deLowT s s.TMaxLowT) : WF s :=
  ⟨h1, h2, h3.ne', h4.ne', (add_pos h3 h4).ne', h5.ne', h6.ne', (add_pos h5 h6).ne',
    l1, l2, l3.ne', l4.ne', (add_pos l3 l4).ne', l5.ne', l6.ne', (add_pos l5 l6).ne'⟩

/-! ## A concrete instance (non-vacuity)

Bag-like equations of state on the tabulated range `[1,2]`:
high-T phase `F = -T⁴`  (so `p = T⁴`, `csq = 1/3`, `mu = 4`, `a = 3`, `eps = 0`);
low-T phase `F = -T⁴/2 - 1` (so `p = T⁴/2 + 1`, `csq = 1/3`, `mu = 4`, `a = 3/2`, `eps = -1`). -/

noncomputable def exS : ThermoP :=
  { TMinHighT := 1, muMinHighT := 4, aMinHighT := 3, epsilonMinHighT := 0,
    TMaxHighT := 2, muMaxHighT := 4, aMaxHighT := 3, epsilonMaxHighT := 0,
    TMinLowT := 1, muMinLowT := 4, aMinLowT := 3 / 2, epsilonMinLowT := -1,
    TMaxLowT := 2, muMaxLowT := 4, aMaxLowT := 3 / 2, epsilonMaxLowT := -1,
    FHigh := fun T => -T ^ 4, dFHigh := fun T => -(4 * T ^ 3), ddFHigh := fun T => -(12 * T ^ 2),
    FLow := fun T => -T ^ 4 / 2 - 1, dFLow := fun T => -(2 * T ^ 3),
    ddFLow := fun T => -(6 * T ^ 2) }

theorem two_rpow_four : (2 : ℝ) ^ (4 : ℝ) = 16 := by
  rw [show (4 : ℝ) = ((4 : ℕ) : ℝ) by norm_num, Real.rpow_natCast]; norm_num

theorem exS_Extrapolated : Extrapolated exS := by
  have h2 := two_rpow_four
  refine ⟨?_, ?_, ?_, ?_, ?_, ?_, ?_, ?_, ?_, ?_, ?_, ?_⟩ <;>
  norm_num [exS, muMinHighT_set, aMinHighT_set, epsilonMinHighT_set, muMaxHighT_set, aMaxHighT_set,
    epsilonMaxHighT_set, muMinLowT_set, aMinLowT_set, epsilonMinLowT_set, muMaxLowT_set,
    aMaxLowT_set, epsilonMaxLowT_set, csqHighT, csqLowT, wHighT, wLowT, pHighT, pLowT, dpHighT,
    dpLowT, deHighT, deLowT, ddpHighT, ddpLowT, WG.R.rpow, h2]

theorem exS_WF : WF exS := by
  constructor <;>
  norm_num [exS, dpHighT, dpLowT, deHighT, deLowT, ddpHighT, ddpLowT]

theorem exS_contract_FHigh (T : ℝ) : HasDerivAt exS.FHigh (exS.dFHigh T) T := by
  show HasDerivAt (fun T : ℝ => -T ^ 4) (-(4 * T ^ 3)) T
  exact ((hasDerivAt_pow 4 T).fun_neg).congr_deriv (by norm_num)

theorem exS_contract_dFHigh (T : ℝ) : HasDerivAt exS.dFHigh (exS.ddFHigh T) T := by
  show HasDerivAt (fun T : ℝ => -(4 * T ^ 3)) (-(12 * T ^ 2)) T
  exact (((hasDerivAt_pow 3 T).const_mul 4).fun_neg).congr_deriv (by norm_num; ring)

theorem exS_contract_FLow (T : ℝ) : HasDerivAt exS.FLow (exS.dFLow T) T := by
  show HasDerivAt (fun T : ℝ => -T ^ 4 / 2 - 1) (-(2 * T ^ 3)) T
  exact ((((hasDerivAt_pow 4 T).fun_neg).div_const 2).sub_const 1).congr_deriv (by norm_num; ring)

theorem exS_contract_dFLow (T : ℝ) : HasDerivAt exS.dFLow (exS.ddFLow T) T := by
  show HasDerivAt (fun T : ℝ => -(2 * T ^ 3)) (-(6 * T ^ 2)) T
  exact (((hasDerivAt_pow 3 T).const_mul 2).fun_neg).congr_deriv (by norm_num; ring)

end Lemmas.Thermo
