/-
Helper lemmas for property C19 (finite-difference helpers `derivative / gradient / hessian`,
src/WallGo/helpers.py:12-426).  Everything here is about the hand model `Model.Deriv`
instantiated at `K = ℝ` with the embedding `cR : ℚ → ℝ`, and about the generated tables
`Gen.Q.Tables`.
-/
import Mathlib.Tactic
import Mathlib.Algebra.Polynomial.Derivative
import Mathlib.Algebra.Polynomial.Eval.Degree
import Mathlib.Data.Real.Basic
import Mathlib.Data.List.GetD
import WallGoVerif.Model.Deriv

namespace Lemmas.Stencil
open Model.Deriv Gen.Q.Tables Polynomial

/-- the embedding `ℚ → ℝ` of the table entries at which the model is instantiated. -/
abbrev cR : ℚ → ℝ := fun q => (q : ℝ)

/-! ### `foldl`/`zipWith` → `List.sum` and linearity of weighted list sums -/

theorem foldl_add_eq_sum (l : List ℝ) : l.foldl (· + ·) (cR 0) = l.sum := by
  rw [List.sum_eq_foldl]; simp [cR]

theorem hpow_eq (h : ℝ) (n : ℕ) : hpow cR h n = h ^ n := by
  induction n with
  | zero => simp [hpow, cR]
  | succ k ih => simp [hpow, ih, pow_succ]

theorem zipWith_sum_add {α β : Type} (F G : α → β → ℝ) (l₁ : List α) (l₂ : List β) :
    (List.zipWith (fun p q => F p q + G p q) l₁ l₂).sum
      = (List.zipWith F l₁ l₂).sum + (List.zipWith G l₁ l₂).sum := by
  induction l₁ generalizing l₂ with
  | nil => simp
  | cons a l ih =>
    cases l₂ with
    | nil => simp
    | cons b l' => simp only [List.zipWith_cons_cons, List.sum_cons, ih]; ring

theorem zipWith_sum_mul_left {α β : Type} (a : ℝ) (F : α → β → ℝ) (l₁ : List α) (l₂ : List β) :
    (List.zipWith (fun p q => a * F p q) l₁ l₂).sum = a * (List.zipWith F l₁ l₂).sum := by
  induction l₁ generalizing l₂ with
  | nil => simp
  | cons a l ih =>
    cases l₂ with
    | nil => simp
    | cons b l' => simp only [List.zipWith_cons_cons, List.sum_cons, ih]; ring

theorem zipWith_sum_finset_sum {α β ι : Type} (s : Finset ι) (F : ι → α → β → ℝ)
    (l₁ : List α) (l₂ : List β) :
    (List.zipWith (fun p q => ∑ d ∈ s, F d p q) l₁ l₂).sum
      = ∑ d ∈ s, (List.zipWith (F d) l₁ l₂).sum := by
  induction l₁ generalizing l₂ with
  | nil => simp
  | cons a l ih =>
    cases l₂ with
    | nil => simp
    | cons b l' =>
      simp only [List.zipWith_cons_cons, List.sum_cons, ih, Finset.sum_add_distrib]

theorem zipWith_sum_cast {α : Type} (F : α → ℚ → ℚ) (l₁ : List α) (l₂ : List ℚ) :
    (((List.zipWith F l₁ l₂).sum : ℚ) : ℝ) = (List.zipWith (fun p q => ((F p q : ℚ) : ℝ)) l₁ l₂).sum := by
  induction l₁ generalizing l₂ with
  | nil => simp
  | cons a l ih =>
    cases l₂ with
    | nil => simp
    | cons b l' => simp only [List.zipWith_cons_cons, List.sum_cons, Rat.cast_add, ih]

/-- `applyStencil` at `K = ℝ` in `List.sum` form. -/
theorem applyStencil_eq_sum (pos coef : List ℚ) (f : ℝ → ℝ) (n : ℕ) (x h : ℝ) :
    applyStencil cR pos coef f n x h
      = (List.zipWith (fun (p q : ℚ) => ((q : ℝ) / h ^ n) * f (x + (p : ℝ) * h)) pos coef).sum := by
  unfold applyStencil
  rw [foldl_add_eq_sum, hpow_eq]

/-! ### Moment conditions -/

/-- `Σᵢ coefᵢ · posᵢ^k` (exact rational arithmetic). -/
def momentSum (pos coef : List ℚ) (k : ℕ) : ℚ :=
  (List.zipWith (fun p q => q * p ^ k) pos coef).sum

/-- decidable check: `Σᵢ coefᵢ·posᵢ^k = n!·[k = n]` for all `k ≤ D`. -/
def momentsOK (pos coef : List ℚ) (n D : ℕ) : Bool :=
  (List.range (D + 1)).all fun k =>
    decide (momentSum pos coef k = if k = n then (n.factorial : ℚ) else 0)

theorem momentsOK_iff (pos coef : List ℚ) (n D : ℕ) :
    momentsOK pos coef n D = true ↔
      ∀ k ≤ D, momentSum pos coef k = if k = n then (n.factorial : ℚ) else 0 := by
  simp [momentsOK]

theorem momentSum_cast (pos coef : List ℚ) (k : ℕ) :
    ((momentSum pos coef k : ℚ) : ℝ)
      = (List.zipWith (fun (p q : ℚ) => (q : ℝ) * (p : ℝ) ^ k) pos coef).sum := by
  unfold momentSum
  rw [zipWith_sum_cast]
  simp only [Rat.cast_mul, Rat.cast_pow]

/-- Exactness of a stencil on one monomial, via the binomial theorem. -/
theorem stencil_monomial (pos coef : List ℚ) (n D : ℕ)
    (hM : ∀ k ≤ D, momentSum pos coef k = if k = n then (n.factorial : ℚ) else 0)
    (d : ℕ) (hd : d ≤ D) (x h : ℝ) (hh : h ≠ 0) :
    (List.zipWith (fun (p q : ℚ) => ((q : ℝ) / h ^ n) * (x + (p : ℝ) * h) ^ d) pos coef).sum
      = (d.descFactorial n : ℝ) * x ^ (d - n) := by
  have key : ∀ p q : ℝ, (q / h ^ n) * (x + p * h) ^ d
      = ∑ m ∈ Finset.range (d + 1),
          (h ^ m * x ^ (d - m) * (d.choose m : ℝ) / h ^ n) * (q * p ^ m) := by
    intro p q
    rw [add_comm x, add_pow, Finset.mul_sum]
    refine Finset.sum_congr rfl fun m _ => ?_
    rw [mul_pow]; ring
  simp only [key]
  rw [zipWith_sum_finset_sum]
  simp only [zipWith_sum_mul_left, ← momentSum_cast]
  have h2 : ∀ m ∈ Finset.range (d + 1),
      (h ^ m * x ^ (d - m) * (d.choose m : ℝ) / h ^ n) * ((momentSum pos coef m : ℚ) : ℝ)
        = if m = n then (d.descFactorial n : ℝ) * x ^ (d - n) else 0 := by
    intro m hm
    have hmD : m ≤ D := le_trans (Nat.lt_succ_iff.mp (Finset.mem_range.mp hm)) hd
    rw [hM m hmD]
    split_ifs with hmn
    · subst hmn
      rw [Nat.descFactorial_eq_factorial_mul_choose]
      push_cast
      field_simp
    · simp
  rw [Finset.sum_congr rfl h2, Finset.sum_ite_eq']
  split_ifs with hn
  · rfl
  · have : d < n := by
      have := Finset.mem_range.not.mp hn; omega
    rw [(Nat.descFactorial_eq_zero_iff_lt).mpr this]; simp

/-- **Generic exactness lemma.** A stencil `(pos, coef)` whose moments satisfy
`Σᵢ coefᵢ·posᵢ^k = n!·[k = n]` for all `k ≤ D` reproduces the `n`-th derivative of every real
polynomial of degree `≤ D`, at every point, for every non-zero step. -/
theorem applyStencil_exact (pos coef : List ℚ) (n D : ℕ)
    (hM : ∀ k ≤ D, momentSum pos coef k = if k = n then (n.factorial : ℚ) else 0)
    (P : ℝ[X]) (hP : P.natDegree ≤ D) (x h : ℝ) (hh : h ≠ 0) :
    applyStencil cR pos coef (fun y => P.eval y) n x h = (derivative^[n] P).eval x := by
  rw [applyStencil_eq_sum]
  have hR := congrArg (fun Q : ℝ[X] => (derivative^[n] Q).eval x) P.as_sum_range_C_mul_X_pow
  rw [hR, iterate_derivative_sum, eval_finsetSum]
  simp only [eval_eq_sum_range (p := P), Finset.mul_sum]
  rw [zipWith_sum_finset_sum]
  refine Finset.sum_congr rfl fun d hd => ?_
  have hdD : d ≤ D := le_trans (Nat.lt_succ_iff.mp (Finset.mem_range.mp hd)) hP
  have : ∀ p q : ℚ, (q : ℝ) / h ^ n * (P.coeff d * (x + (p : ℝ) * h) ^ d)
      = P.coeff d * ((q : ℝ) / h ^ n * (x + (p : ℝ) * h) ^ d) := by intros; ring
  simp only [this]
  rw [zipWith_sum_mul_left, stencil_monomial pos coef n D hM d hdD x h hh,
    iterate_derivative_C_mul, eval_mul, eval_C, iterate_derivative_X_pow_eq_smul, eval_smul,
    eval_pow, eval_X, smul_eq_mul]

/-- value of a stencil on the monomial `y ↦ y^m` at `x = 0`: `h^m / h^n · Σᵢ coefᵢ posᵢ^m`
(used for the tightness witnesses). -/
theorem applyStencil_pow_at_zero (pos coef : List ℚ) (n m : ℕ) (h : ℝ) :
    applyStencil cR pos coef (fun y => y ^ m) n 0 h
      = h ^ m / h ^ n * ((momentSum pos coef m : ℚ) : ℝ) := by
  rw [applyStencil_eq_sum, momentSum_cast, ← zipWith_sum_mul_left]
  congr 2
  funext p q
  rw [zero_add, mul_pow]; ring

/-- `applyStencil` is linear in the function. -/
theorem applyStencil_linear (pos coef : List ℚ) (f g : ℝ → ℝ) (a b : ℝ) (n : ℕ) (x h : ℝ) :
    applyStencil cR pos coef (fun y => a * f y + b * g y) n x h
      = a * applyStencil cR pos coef f n x h + b * applyStencil cR pos coef g n x h := by
  simp only [applyStencil_eq_sum]
  rw [← zipWith_sum_mul_left, ← zipWith_sum_mul_left, ← zipWith_sum_add]
  congr 2
  funext p q
  ring

/-! ### Table-level checks (all decidable, to be discharged by `decide +kernel`) -/

/-- every row of the `(posTable n order, coeffTable n order)` pair has as many coefficients as
positions and satisfies the moment conditions up to degree `(#points − 1)`. -/
def tableOK (n order : ℕ) : Bool :=
  (posTable n order).length == (coeffTable n order).length &&
  ((posTable n order).zip (coeffTable n order)).all fun r =>
    r.1.length == r.2.length && momentsOK r.1 r.2 n (r.1.length - 1)

/-- every row has `order + n − 1` points and the table is non-empty. -/
def rowLenOK (n order : ℕ) : Bool :=
  decide (0 < (posTable n order).length) &&
  (posTable n order).all fun r => r.length == order + n - 1

/-- the central row (row 0) satisfies the moment conditions one degree higher. -/
def centralOK (n order : ℕ) : Bool :=
  momentsOK ((posTable n order).getD 0 []) ((coeffTable n order).getD 0 []) n
    ((posTable n order).getD 0 []).length

/-- every one-sided row (row index ≥ 1) violates the moment condition of degree `#points`
(which would have to be `0` because `#points > n`). -/
def oneSidedTight (n order : ℕ) : Bool :=
  (List.range (posTable n order).length).all fun r =>
    r == 0 || decide (momentSum ((posTable n order).getD r []) ((coeffTable n order).getD r [])
      ((posTable n order).getD r []).length ≠ 0)

theorem oneSidedTight_row {n order : ℕ} (hT : oneSidedTight n order = true) {r : ℕ}
    (hr : r < (posTable n order).length) (hr1 : 1 ≤ r) :
    momentSum ((posTable n order).getD r []) ((coeffTable n order).getD r [])
      ((posTable n order).getD r []).length ≠ 0 := by
  unfold oneSidedTight at hT
  rw [List.all_eq_true] at hT
  have := hT r (List.mem_range.mpr hr)
  have hr0 : ¬ r = 0 := by omega
  simpa [hr0] using this

theorem pyIndex_lt {m : ℕ} (hm : 0 < m) (i : ℤ) : pyIndex m i < m := by
  unfold pyIndex
  have h1 : 0 ≤ i % (m : ℤ) := Int.emod_nonneg _ (by omega)
  have h2 : i % (m : ℤ) < m := Int.emod_lt_of_pos _ (by omega)
  omega

theorem pyIndex_zero (m : ℕ) : pyIndex m 0 = 0 := by simp [pyIndex]

theorem all_zip_getD {A B : List (List ℚ)} {p : List ℚ × List ℚ → Bool}
    (h : (A.zip B).all p = true) (hl : A.length = B.length) {r : ℕ} (hr : r < A.length) :
    p (A.getD r [], B.getD r []) = true := by
  rw [List.all_eq_true] at h
  have hr' : r < B.length := hl ▸ hr
  have hz : r < (A.zip B).length := by simp [List.length_zip]; omega
  have := h _ (List.getElem_mem hz)
  rw [List.getElem_zip] at this
  rw [List.getD_eq_getElem _ _ hr, List.getD_eq_getElem _ _ hr']
  exact this

/-- From the table check: the row selected by any in-range index satisfies the moment
conditions up to `#points − 1`. -/
theorem row_moments {n order : ℕ} (hT : tableOK n order = true) {r : ℕ}
    (hr : r < (posTable n order).length) :
    ∀ k ≤ ((posTable n order).getD r []).length - 1,
      momentSum ((posTable n order).getD r []) ((coeffTable n order).getD r []) k
        = if k = n then (n.factorial : ℚ) else 0 := by
  unfold tableOK at hT
  rw [Bool.and_eq_true, beq_iff_eq] at hT
  have := all_zip_getD hT.2 hT.1 hr
  simp only [Bool.and_eq_true] at this
  exact (momentsOK_iff _ _ _ _).mp this.2

theorem row_length {n order : ℕ} (hL : rowLenOK n order = true) {r : ℕ}
    (hr : r < (posTable n order).length) :
    ((posTable n order).getD r []).length = order + n - 1 := by
  unfold rowLenOK at hL
  rw [Bool.and_eq_true, List.all_eq_true] at hL
  rw [List.getD_eq_getElem _ _ hr]
  simpa using hL.2 _ (List.getElem_mem hr)

/-! ### Hessian stencil -/

/-- mixed moment `Σₖ cₖ · pₖ^a · qₖ^b` of a two-dimensional stencil. -/
def hessMoment (p0 p1 cs : List ℚ) (a b : ℕ) : ℚ :=
  (List.zipWith (fun (pq : ℚ × ℚ) (q : ℚ) => q * pq.1 ^ a * pq.2 ^ b) (List.zip p0 p1) cs).sum

/-- decidable check: mixed moments equal `[a = 1 ∧ b = 1]` for all `a + b ≤ D`. -/
def hessMomentsOK (p0 p1 cs : List ℚ) (D : ℕ) : Bool :=
  (List.range (D + 1)).all fun a => (List.range (D + 1 - a)).all fun b =>
    decide (hessMoment p0 p1 cs a b = if a = 1 ∧ b = 1 then 1 else 0)

theorem hessMomentsOK_iff (p0 p1 cs : List ℚ) (D : ℕ) :
    hessMomentsOK p0 p1 cs D = true ↔
      ∀ a b, a + b ≤ D → hessMoment p0 p1 cs a b = if a = 1 ∧ b = 1 then 1 else 0 := by
  simp only [hessMomentsOK, List.all_eq_true, List.mem_range, decide_eq_true_eq]
  constructor
  · intro h a b hab; exact h a (by omega) b (by omega)
  · intro h a _ b hb; exact h a b (by omega)

/-- positions of the Hessian stencil as pairs, and its coefficients -/
abbrev hessPairs (order : ℕ) : List (ℚ × ℚ) :=
  List.zip ((hessPos order).getD 0 []) ((hessPos order).getD 1 [])

/-- `hessEntry` at `K = ℝ` in `List.sum` form. -/
theorem hessEntry_eq_sum (order : ℕ) (g : ℝ → ℝ → ℝ) (hi hj : ℝ) :
    hessEntry cR order g hi hj
      = (List.zipWith (fun (pq : ℚ × ℚ) (q : ℚ) =>
            ((q : ℝ) / (hj * hi)) * g ((pq.1 : ℝ) * hi) ((pq.2 : ℝ) * hj))
          (hessPairs order) (hessCoeff order)).sum := by
  unfold hessEntry
  rw [foldl_add_eq_sum]

theorem hessEntry_monomial (order a b : ℕ) (hi hj : ℝ) :
    hessEntry cR order (fun s t => s ^ a * t ^ b) hi hj
      = hi ^ a * hj ^ b / (hj * hi) *
          ((hessMoment ((hessPos order).getD 0 []) ((hessPos order).getD 1 []) (hessCoeff order) a b
            : ℚ) : ℝ) := by
  rw [hessEntry_eq_sum]
  unfold hessMoment
  rw [zipWith_sum_cast, ← zipWith_sum_mul_left]
  congr 2
  funext pq q
  push_cast
  rw [mul_pow, mul_pow]; ring

/-- `hessEntry` is linear in the function (finite linear combinations). -/
theorem hessEntry_finset_sum {ι : Type} (S : Finset ι) (w : ι → ℝ) (g : ι → ℝ → ℝ → ℝ)
    (order : ℕ) (hi hj : ℝ) :
    hessEntry cR order (fun s t => ∑ i ∈ S, w i * g i s t) hi hj
      = ∑ i ∈ S, w i * hessEntry cR order (g i) hi hj := by
  simp only [hessEntry_eq_sum, Finset.mul_sum]
  rw [zipWith_sum_finset_sum]
  refine Finset.sum_congr rfl fun i _ => ?_
  rw [← zipWith_sum_mul_left]
  congr 2
  funext pq q
  ring

theorem hessEntry_add_smul (f g : ℝ → ℝ → ℝ) (a b : ℝ) (order : ℕ) (hi hj : ℝ) :
    hessEntry cR order (fun s t => a * f s t + b * g s t) hi hj
      = a * hessEntry cR order f hi hj + b * hessEntry cR order g hi hj := by
  simp only [hessEntry_eq_sum]
  rw [← zipWith_sum_mul_left, ← zipWith_sum_mul_left, ← zipWith_sum_add]
  congr 2
  funext pq q
  ring

/-- the one-dimensional positions `pₖ + qₖ` that the Hessian stencil visits when `i = j`. -/
def diagPos (order : ℕ) : List ℚ := (hessPairs order).map fun pq => pq.1 + pq.2

/-- On the diagonal (`i = j`, `g s t = f (s + t)`, one step size) the Hessian stencil is the
one-dimensional second-derivative stencil `(diagPos, hessCoeff)` at `x = 0`. -/
theorem hessEntry_diag (order : ℕ) (f : ℝ → ℝ) (h : ℝ) :
    hessEntry cR order (fun s t => f (s + t)) h h
      = applyStencil cR (diagPos order) (hessCoeff order) f 2 0 h := by
  rw [hessEntry_eq_sum, applyStencil_eq_sum, diagPos, List.zipWith_map_left]
  congr 2
  funext pq q
  have : (0 : ℝ) + ((pq.1 + pq.2 : ℚ) : ℝ) * h = (pq.1 : ℝ) * h + (pq.2 : ℝ) * h := by
    push_cast; ring
  rw [this, sq]

/-- one component of `gradient` is the central first-derivative stencil at `x = 0`. -/
theorem gradComp_eq_applyStencil (order : ℕ) (g : ℝ → ℝ) (h : ℝ) :
    gradComp cR order g h = applyStencil cR (firstPos0 order) (firstCoeff0 order) g 1 0 h := by
  unfold gradComp
  rw [foldl_add_eq_sum, applyStencil_eq_sum]
  congr 2
  funext p q
  rw [pow_one, zero_add]

/-! ### Bounds -/

/-- `y` lies inside the (possibly half-infinite) interval `b`. -/
def InBounds (b : Bounds ℝ) (y : ℝ) : Prop :=
  (∀ l, b.lo = some l → l ≤ y) ∧ (∀ u, b.hi = some u → y ≤ u)

-- unfold `positions`/`rowOf`/`offset` and the position tables in hypothesis `hy` and the goal.
set_option hygiene false in
macro "pos_unfold" : tactic => `(tactic| (
  simp only [positions, rowOf, offset, aboveHi, belowLo, posTable, FIRST_DERIV_POS_2,
    FIRST_DERIV_POS_4, SECOND_DERIV_POS_2, SECOND_DERIV_POS_4, cR, Rat.cast_ofNat,
    List.length_cons, List.length_nil, InBounds] at hy ⊢))

end Lemmas.Stencil
