/-
Helper lemmas for properties C12 and C13 (`BoltzmannSolver` in src/WallGo/boltzmann.py).

* Part A: the generated pointwise formulas (`Gen.R.Boltz.deltaIntegrand`, `sourceTerm`), the derivative of a
  constant profile, the C-order flattening `Model.Boltz.flatIndex`.
* Part B: the momentum-space measure: 1-D substitutions `p_z = 2T·artanh ρ_z`, `p_∥ = −T·log((1−ρ_∥)/2)`
  (Jacobians of Props/C17), the double integral in compact coordinates, and `d³p/((2π)³E)` in cylindrical
  coordinates.
* Part C: `Model.Boltz.moment` as a finite double sum; linearity.
* Part D: exactness of the double Gauss–Chebyshev–Lobatto sum.
* Part F: the assembled operator as a matrix over the index `(particle, i, j, k)`, its change of basis.
* Part E: zero row sums, homogeneous background, reshaping.
* Part G: correspondence of `opMat` with `Model.Boltz.liouvilleEntry/collisionEntry`;
  `_chebyshevDeriv = _cardinalDeriv · _chebyshevMatrix`.
-/
import WallGoVerif.Gen.R.Boltz
import WallGoVerif.Model.Boltz
import WallGoVerif.Lemmas.PolyCardinal
import WallGoVerif.Lemmas.Lobatto
import WallGoVerif.Lemmas.GridMaps
import WallGoVerif.Lemmas.CollisionCheb
import Mathlib.LinearAlgebra.Matrix.NonsingularInverse
import Mathlib.LinearAlgebra.Matrix.Kronecker
import Mathlib.LinearAlgebra.Matrix.ToLin
import Mathlib.MeasureTheory.Function.JacobianOneDim
import Mathlib.MeasureTheory.Integral.IntervalIntegral.Basic
import Mathlib.Analysis.SpecialFunctions.PolarCoord
import Mathlib.MeasureTheory.Integral.Prod
import Mathlib.Tactic

namespace Lemmas.Boltz

/-! ## Part A: generated formulas, constant profiles, flattening -/
section PartA
open Gen.R.Boltz Model.Boltz

/-- first component of `deltaIntegrand`: the energy `E = √(m² + p_z² + p_∥²)` -/
theorem deltaIntegrand_fst (msq pz pp dxi dpz dpp : ℝ) :
    (deltaIntegrand msq pz pp dxi dpz dpp).1 = √(msq + pz ^ 2 + pp ^ 2) := rfl

/-- second component of `deltaIntegrand`: `dp_z/dρ_z · dp_∥/dρ_∥ · p_∥ / (4π² E)` -/
theorem deltaIntegrand_snd (msq pz pp dxi dpz dpp : ℝ) :
    (deltaIntegrand msq pz pp dxi dpz dpp).2
      = dpz * dpp * pp / (4 * Real.pi ^ 2 * √(msq + pz ^ 2 + pp ^ 2)) := rfl

/-- the source term vanishes when all three profile derivatives vanish -/
theorem sourceTerm_fst_zero (vw pz E v T stat dxi dpz dpp : ℝ) :
    (sourceTerm vw pz E v T 0 0 0 stat dxi dpz dpp).1 = 0 := by
  simp [sourceTerm]

open Model.Poly Polynomial in
/-- the spectral derivative (cardinal basis, end points kept) of a constant profile is zero at every node -/
theorem cardinalDeriv_const {xs : List ℝ} (h : xs.Nodup) (d : Dir) (c : ℝ) :
    mulVec (0 : ℝ) (cardinalDeriv (0 : ℝ) 1 d true xs) (xs.map (fun _ => c)) = xs.map (fun _ => 0) := by
  rcases xs with _ | ⟨x, xs⟩
  · simp [mulVec, cardinalDeriv, keptRange]
  · have := Lemmas.PolyCardinal.cardinalDeriv_exact h d true (p := C c) (by simp)
      (Lemmas.PolyCardinal.vanishes_endpoints d _ _)
    rw [Lemmas.PolyCardinal.kept_endpoints] at this
    simpa using this

/-- the flat index stays below the total size -/
theorem flatIndex_lt {np nM nN a i j k : ℕ} (ha : a < np) (hi : i < nM) (hj : j < nN) (hk : k < nN) :
    flatIndex nM nN a i j k < np * nM * nN * nN := by
  unfold flatIndex
  have h1 : a * nM + i + 1 ≤ np * nM := by nlinarith
  have h2 : (a * nM + i) * nN + j + 1 ≤ np * nM * nN := by nlinarith
  nlinarith

/-- C-order flattening is injective on the index box -/
theorem flatIndex_inj {nM nN a i j k a' i' j' k' : ℕ} (hi : i < nM) (hj : j < nN) (hk : k < nN)
    (hi' : i' < nM) (hj' : j' < nN) (hk' : k' < nN)
    (h : flatIndex nM nN a i j k = flatIndex nM nN a' i' j' k') :
    a = a' ∧ i = i' ∧ j = j' ∧ k = k' := by
  unfold flatIndex at h
  have e1 : ∀ {q r q' r' n : ℕ}, r < n → r' < n → q * n + r = q' * n + r' → q = q' ∧ r = r' := by
    intro q r q' r' n hr hr' he
    have hn : 0 < n := by omega
    have h1 : (q * n + r) / n = q := by
      rw [Nat.mul_comm, Nat.mul_add_div hn, Nat.div_eq_of_lt hr, Nat.add_zero]
    have h2 : (q' * n + r') / n = q' := by
      rw [Nat.mul_comm, Nat.mul_add_div hn, Nat.div_eq_of_lt hr', Nat.add_zero]
    have hq : q = q' := by rw [← h1, ← h2, he]
    subst hq
    exact ⟨rfl, by omega⟩
  obtain ⟨h3, rfl⟩ := e1 hk hk' h
  obtain ⟨h2, rfl⟩ := e1 hj hj' h3
  obtain ⟨rfl, rfl⟩ := e1 hi hi' h2
  exact ⟨rfl, rfl, rfl, rfl⟩


end PartA

/-! ## Part B: the momentum-space measure -/
section PartB
open Gen.R.Boltz Set MeasureTheory WG.GridMaps Real


/-- the `p_z` map of the grid, `ρ ↦ 2T·artanh ρ` -/
noncomputable def pzMap (T ρ : ℝ) : ℝ := 2 * T * WG.R.artanh ρ
/-- the `p_∥` map of the grid, `ρ ↦ −T·log((1−ρ)/2)` -/
noncomputable def ppMap (T ρ : ℝ) : ℝ := -T * Real.log ((1 - ρ) / 2)

/-- the generated `Grid.decompactify` uses exactly these maps, the generated
`Grid.compactificationDerivatives` exactly the Jacobians used below -/
theorem grid_maps_eq (s : Gen.R.Grid.GridP) (a b ρ : ℝ) :
    (Gen.R.Grid.decompactify s a ρ b).2.1 = pzMap s.momentumFalloffT ρ ∧
    (Gen.R.Grid.decompactify s a b ρ).2.2 = ppMap s.momentumFalloffT ρ ∧
    (Gen.R.Grid.compactificationDerivatives s a ρ b).2.1 = 2 * s.momentumFalloffT / (1 - ρ ^ 2) ∧
    (Gen.R.Grid.compactificationDerivatives s a b ρ).2.2 = s.momentumFalloffT / (1 - ρ) :=
  ⟨rfl, rfl, rfl, rfl⟩

/-- `ρ ↦ 2T·artanh ρ` maps `(−1,1)` onto the whole line -/
theorem pzMap_image {T : ℝ} (hT : 0 < T) : pzMap T '' Ioo (-1) 1 = univ := by
  refine eq_univ_of_forall fun pz => ⟨Real.tanh (pz / 2 / T), ⟨Real.neg_one_lt_tanh _, Real.tanh_lt_one _⟩, ?_⟩
  exact pzmap_pzcompact hT.ne' pz

/-- `ρ ↦ −T·log((1−ρ)/2)` maps `(−1,1)` onto `(0,∞)` -/
theorem ppMap_image {T : ℝ} (hT : 0 < T) : ppMap T '' Ioo (-1) 1 = Ioi 0 := by
  ext pp
  constructor
  · rintro ⟨ρ, ⟨h1, h2⟩, rfl⟩
    have hlog : Real.log ((1 - ρ) / 2) < 0 := Real.log_neg (by linarith) (by linarith)
    simp only [ppMap, mem_Ioi]
    nlinarith
  · intro hpp
    rw [mem_Ioi] at hpp
    have he1 : Real.exp (-pp / T) < 1 := by
      rw [Real.exp_lt_one_iff]; exact div_neg_of_neg_of_pos (by linarith) hT
    have he0 := Real.exp_pos (-pp / T)
    exact ⟨1 - 2 * Real.exp (-pp / T), ⟨by linarith, by linarith⟩, ppmap_ppcompact hT.ne' pp⟩

/-- the `p_z` map is increasing on `(−1,1)` for `T > 0` -/
theorem pzMap_monotoneOn {T : ℝ} (hT : 0 < T) : MonotoneOn (pzMap T) (Ioo (-1) 1) :=
  (strictMonoOn_of_hasDerivAt_pos (convex_Ioo _ _) (f' := fun ρ => 2 * T / (1 - ρ ^ 2))
    (fun _ hx => hasDerivAt_pzmap T (abs_lt.mpr hx))
    (fun _ hx => by have := one_sub_sq_pos (abs_lt.mpr hx); positivity)).monotoneOn

/-- the `p_∥` map is increasing on `(−1,1)` for `T > 0` -/
theorem ppMap_monotoneOn {T : ℝ} (hT : 0 < T) : MonotoneOn (ppMap T) (Ioo (-1) 1) :=
  (strictMonoOn_of_hasDerivAt_pos (convex_Ioo _ _) (f' := fun ρ => T / (1 - ρ))
    (fun _ hx => hasDerivAt_ppmap T (ne_of_lt hx.2))
    (fun _ hx => div_pos hT (by linarith [hx.2]))).monotoneOn

/-- `∫_{-1}^{1}` as a set integral over the open interval -/
theorem intervalIntegral_eq_Ioo (f : ℝ → ℝ) :
    ∫ x in (-1 : ℝ)..1, f x = ∫ x in Ioo (-1 : ℝ) 1, f x := by
  rw [intervalIntegral.integral_of_le (by norm_num), integral_Ioc_eq_integral_Ioo]

/-- substitution `p_z = 2T·artanh ρ` on the whole line; no integrability hypothesis -/
theorem integral_pz_subst {T : ℝ} (hT : 0 < T) (F : ℝ → ℝ) :
    ∫ pz, F pz = ∫ ρ in (-1 : ℝ)..1, 2 * T / (1 - ρ ^ 2) * F (pzMap T ρ) := by
  rw [intervalIntegral_eq_Ioo, ← setIntegral_univ, ← pzMap_image hT]
  exact integral_image_eq_integral_deriv_smul_of_monotoneOn measurableSet_Ioo
      (f := pzMap T) (f' := fun ρ => 2 * T / (1 - ρ ^ 2))
      (fun x hx => (hasDerivAt_pzmap T (abs_lt.mpr hx)).hasDerivWithinAt) (pzMap_monotoneOn hT) F

/-- substitution `p_∥ = −T·log((1−ρ)/2)` on the half line `p_∥ > 0`; no integrability hypothesis -/
theorem integral_pp_subst {T : ℝ} (hT : 0 < T) (G : ℝ → ℝ) :
    ∫ pp in Ioi 0, G pp = ∫ ρ in (-1 : ℝ)..1, T / (1 - ρ) * G (ppMap T ρ) := by
  rw [intervalIntegral_eq_Ioo, ← ppMap_image hT]
  exact integral_image_eq_integral_deriv_smul_of_monotoneOn measurableSet_Ioo
      (f := ppMap T) (f' := fun ρ => T / (1 - ρ))
      (fun x hx => (hasDerivAt_ppmap T (ne_of_lt hx.2)).hasDerivWithinAt) (ppMap_monotoneOn hT) G

/-- the measure: `∫dp_z ∫_{p_∥>0} dp_∥ g·p_∥/(4π²E)` in compact coordinates is
`∫∫ g · deltaIntegrand` with the Jacobians `2T/(1−ρ_z²)`, `T/(1−ρ_∥)`. Iterated integrals, no
integrability hypothesis (both sides are `0` by convention in the non-integrable case, consistently). -/
theorem measure_compact {T : ℝ} (hT : 0 < T) (msq dxi : ℝ) (g : ℝ → ℝ → ℝ) :
    ∫ pz, ∫ pp in Ioi 0, g pz pp * (pp / (4 * Real.pi ^ 2 * √(msq + pz ^ 2 + pp ^ 2)))
      = ∫ ρz in (-1 : ℝ)..1, ∫ ρp in (-1 : ℝ)..1,
          g (pzMap T ρz) (ppMap T ρp) *
            (deltaIntegrand msq (pzMap T ρz) (ppMap T ρp) dxi (2 * T / (1 - ρz ^ 2)) (T / (1 - ρp))).2 := by
  rw [integral_pz_subst hT]
  refine intervalIntegral.integral_congr fun ρz _ => ?_
  rw [integral_pp_subst hT, ← intervalIntegral.integral_const_mul]
  refine intervalIntegral.integral_congr fun ρp _ => ?_
  simp only [deltaIntegrand]
  ring


/-- transverse plane in polar coordinates: for a function of `|q|` only,
`∫_{ℝ²} h(|q|) d²q = 2π ∫_0^∞ r·h(r) dr`.  No integrability hypothesis. -/
theorem integral_radial (h : ℝ → ℝ) :
    ∫ q : ℝ × ℝ, h (√(q.1 ^ 2 + q.2 ^ 2)) = 2 * π * ∫ r in Ioi (0 : ℝ), r * h r := by
  rw [← integral_comp_polarCoord_symm]
  have : ∀ p ∈ polarCoord.target,
      p.1 • (fun q : ℝ × ℝ => h (√(q.1 ^ 2 + q.2 ^ 2))) (polarCoord.symm p)
        = (fun r => r * h r) p.1 * (fun _ => (1 : ℝ)) p.2 := by
    intro p hp
    have hr : 0 < p.1 := hp.1
    have e : (p.1 * cos p.2) ^ 2 + (p.1 * sin p.2) ^ 2 = p.1 ^ 2 := by
      have := cos_sq_add_sin_sq p.2
      linear_combination (p.1 ^ 2) * this
    simp only [polarCoord_symm_apply, e, Real.sqrt_sq hr.le, smul_eq_mul, mul_one]
  rw [setIntegral_congr_fun polarCoord.open_target.measurableSet this, polarCoord_target,
    Measure.volume_eq_prod]
  refine (setIntegral_prod_mul (μ := volume) (ν := volume) (fun r : ℝ => r * h r) (fun _ : ℝ => (1 : ℝ))
    (Ioi 0) (Ioo (-π) π)).trans ?_
  have hpi : (0 : ℝ) ≤ π + π := by positivity
  simp only [integral_const, MeasurableSet.univ, measureReal_restrict_apply, univ_inter, smul_eq_mul,
    mul_one, Real.volume_real_Ioo, sub_neg_eq_add, max_eq_left hpi]
  ring

/-- **`d³p/((2π)³E)` in cylindrical coordinates.**  For an integrand depending on the transverse
momentum only through `p_∥ = |p_⊥|`, `∫dp_z ∫d²p_⊥ g/((2π)³E) = ∫dp_z ∫_0^∞ dp_∥ g·p_∥/(4π²E)`
(iterated integrals; no integrability hypothesis). -/
theorem d3p_cylindrical (msq : ℝ) (g : ℝ → ℝ → ℝ) :
    ∫ pz : ℝ, ∫ q : ℝ × ℝ, g pz (√(q.1 ^ 2 + q.2 ^ 2))
        / ((2 * π) ^ 3 * √(msq + pz ^ 2 + (q.1 ^ 2 + q.2 ^ 2)))
      = ∫ pz : ℝ, ∫ pp in Ioi (0 : ℝ), g pz pp * (pp / (4 * π ^ 2 * √(msq + pz ^ 2 + pp ^ 2))) := by
  congr 1
  funext pz
  have h := integral_radial (fun r => g pz r / ((2 * π) ^ 3 * √(msq + pz ^ 2 + r ^ 2)))
  have e : ∀ q : ℝ × ℝ, √(q.1 ^ 2 + q.2 ^ 2) ^ 2 = q.1 ^ 2 + q.2 ^ 2 := fun q =>
    Real.sq_sqrt (add_nonneg (sq_nonneg _) (sq_nonneg _))
  simp only [e] at h
  rw [h, ← integral_const_mul]
  refine setIntegral_congr_fun measurableSet_Ioi fun r _ => ?_
  have hpi : π ≠ 0 := Real.pi_ne_zero
  by_cases hE : √(msq + pz ^ 2 + r ^ 2) = 0
  · simp [hE]
  · field_simp
    ring


end PartB

/-! ## Part C: `moment` as a finite double sum -/
section PartC
open Model.Boltz Finset


/-- `foldl (+) 0` is `List.sum` -/
theorem foldl_add_eq_sum (l : List ℝ) : l.foldl (· + ·) 0 = l.sum := by
  rw [← Lemmas.PolyCardinal.sum_eq]; rfl

/-- `zipWith` as a map over the common index range -/
theorem zipWith_eq_map_range {α β γ : Type*} (g : α → β → γ) (l1 : List α) (l2 : List β) (a : α) (b : β) :
    List.zipWith g l1 l2
      = (List.range (min l1.length l2.length)).map (fun i => g (l1.getD i a) (l2.getD i b)) := by
  apply List.ext_getElem
  · simp
  · intro i h1 h2
    simp only [List.length_zipWith, lt_min_iff] at h1
    rw [List.getElem_zipWith, List.getElem_map, List.getElem_range,
      List.getD_eq_getElem _ _ h1.1, List.getD_eq_getElem _ _ h1.2]

/-- sum of a `zipWith` as a `Finset` sum over the common index range -/
theorem sum_zipWith {α β : Type*} (g : α → β → ℝ) (l1 : List α) (l2 : List β) (a : α) (b : β) :
    (List.zipWith g l1 l2).sum
      = ∑ i ∈ range (min l1.length l2.length), g (l1.getD i a) (l2.getD i b) := by
  rw [zipWith_eq_map_range g l1 l2 a b, Lemmas.PolyCardinal.range_map_sum]

/-- the double sum formed by `moment`, for arbitrary (possibly ragged) lists: `zipWith` truncates to
the common lengths. -/
theorem moment_eq_sum_min (F W : List (List ℝ)) (sz sp : List ℝ) :
    moment (0 : ℝ) F W sz sp
      = ∑ j ∈ range (min (min F.length W.length) sz.length),
          ∑ k ∈ range (min (min (F.getD j []).length (W.getD j []).length) sp.length),
            (F.getD j []).getD k 0 * (W.getD j []).getD k 0 * sz.getD j 0 * sp.getD k 0 := by
  unfold moment
  rw [foldl_add_eq_sum, sum_zipWith _ _ _ ([], []) 0]
  rw [List.length_zip]
  refine Finset.sum_congr rfl fun j hj => ?_
  rw [mem_range, lt_min_iff, lt_min_iff] at hj
  rw [foldl_add_eq_sum, sum_zipWith _ _ _ (0, 0) 0, List.length_zip]
  have hz : (List.zip F W).getD j ([], []) = (F.getD j [], W.getD j []) := by
    rw [List.getD_eq_getElem _ _ (by rw [List.length_zip]; exact lt_min hj.1.1 hj.1.2), List.getElem_zip,
      List.getD_eq_getElem _ _ hj.1.1, List.getD_eq_getElem _ _ hj.1.2]
  rw [hz]
  refine Finset.sum_congr rfl fun k hk => ?_
  rw [mem_range, lt_min_iff, lt_min_iff] at hk
  have hz2 : (List.zip (F.getD j []) (W.getD j [])).getD k (0, 0)
      = ((F.getD j []).getD k 0, (W.getD j []).getD k 0) := by
    rw [List.getD_eq_getElem _ _ (by rw [List.length_zip]; exact lt_min hk.1.1 hk.1.2), List.getElem_zip,
      List.getD_eq_getElem _ _ hk.1.1, List.getD_eq_getElem _ _ hk.1.2]
  rw [hz2]

/-- rectangular arrays: `n × p` deviation and weight, `n` and `p` quadrature factors -/
theorem moment_eq_sum {n p : ℕ} (F W : List (List ℝ)) (sz sp : List ℝ) (hF : F.length = n)
    (hW : W.length = n) (hsz : sz.length = n) (hsp : sp.length = p)
    (hFr : ∀ r ∈ F, r.length = p) (hWr : ∀ r ∈ W, r.length = p) :
    moment (0 : ℝ) F W sz sp
      = ∑ j ∈ range n, ∑ k ∈ range p,
          (F.getD j []).getD k 0 * (W.getD j []).getD k 0 * sz.getD j 0 * sp.getD k 0 := by
  rw [moment_eq_sum_min, hF, hW, hsz, min_self, min_self]
  refine Finset.sum_congr rfl fun j hj => ?_
  rw [mem_range] at hj
  have h1 : (F.getD j []).length = p := by
    rw [List.getD_eq_getElem _ _ (by omega)]; exact hFr _ (List.getElem_mem _)
  have h2 : (W.getD j []).length = p := by
    rw [List.getD_eq_getElem _ _ (by omega)]; exact hWr _ (List.getElem_mem _)
  rw [h1, h2, hsp, min_self, min_self]

/-- tabulated form: arrays given by index functions -/
theorem moment_tabulated (n p : ℕ) (f w : ℕ → ℕ → ℝ) (a b : ℕ → ℝ) :
    moment (0 : ℝ) ((List.range n).map fun j => (List.range p).map (f j))
        ((List.range n).map fun j => (List.range p).map (w j))
        ((List.range n).map a) ((List.range p).map b)
      = ∑ j ∈ range n, ∑ k ∈ range p, f j k * w j k * a j * b k := by
  rw [moment_eq_sum (n := n) (p := p) _ _ _ _ (by simp) (by simp) (by simp) (by simp)
    (by intro r hr; simp only [List.mem_map] at hr; obtain ⟨_, _, rfl⟩ := hr; simp)
    (by intro r hr; simp only [List.mem_map] at hr; obtain ⟨_, _, rfl⟩ := hr; simp)]
  refine Finset.sum_congr rfl fun j hj => Finset.sum_congr rfl fun k hk => ?_
  rw [mem_range] at hj hk
  have e1 : ((List.range n).map fun j => (List.range p).map (f j)).getD j [] = (List.range p).map (f j) := by
    rw [List.getD_eq_getElem _ _ (by simpa using hj)]; simp
  have e2 : ((List.range n).map fun j => (List.range p).map (w j)).getD j [] = (List.range p).map (w j) := by
    rw [List.getD_eq_getElem _ _ (by simpa using hj)]; simp
  rw [e1, e2, Lemmas.PolyCardinal.range_map_getD _ _ hk, Lemmas.PolyCardinal.range_map_getD _ _ hk,
    Lemmas.PolyCardinal.range_map_getD _ _ hj, Lemmas.PolyCardinal.range_map_getD _ _ hk]

/-- `moment` is linear in the deviation -/
theorem moment_axpy (c : ℝ) (F G W : List (List ℝ)) (sz sp : List ℝ) (hlen : F.length = G.length)
    (hrow : ∀ j < F.length, (F.getD j []).length = (G.getD j []).length) :
    moment (0 : ℝ) (List.zipWith (List.zipWith (fun a b => a + c * b)) F G) W sz sp
      = moment (0 : ℝ) F W sz sp + c * moment (0 : ℝ) G W sz sp := by
  rw [moment_eq_sum_min, moment_eq_sum_min, moment_eq_sum_min, List.length_zipWith, ← hlen, min_self,
    Finset.mul_sum, ← Finset.sum_add_distrib]
  refine Finset.sum_congr rfl fun j hj => ?_
  rw [mem_range, lt_min_iff, lt_min_iff] at hj
  have hjG : j < G.length := hlen ▸ hj.1.1
  have hr := hrow j hj.1.1
  have e : (List.zipWith (List.zipWith (fun a b => a + c * b)) F G).getD j []
      = List.zipWith (fun a b => a + c * b) (F.getD j []) (G.getD j []) := by
    rw [List.getD_eq_getElem _ _ (by rw [List.length_zipWith]; exact lt_min hj.1.1 hjG), List.getElem_zipWith,
      List.getD_eq_getElem _ _ hj.1.1, List.getD_eq_getElem _ _ hjG]
  rw [e, List.length_zipWith, ← hr, min_self, Finset.mul_sum, ← Finset.sum_add_distrib]
  refine Finset.sum_congr rfl fun k hk => ?_
  rw [mem_range, lt_min_iff, lt_min_iff] at hk
  rw [Lemmas.PolyCardinal.zipWith_getD _ hr hk.1.1]
  ring

/-- the zero deviation has zero moments -/
theorem moment_zero (F W : List (List ℝ)) (sz sp : List ℝ)
    (h0 : ∀ r ∈ F, ∀ x ∈ r, x = (0 : ℝ)) : moment (0 : ℝ) F W sz sp = 0 := by
  rw [moment_eq_sum_min]
  refine Finset.sum_eq_zero fun j hj => Finset.sum_eq_zero fun k hk => ?_
  rw [mem_range, lt_min_iff, lt_min_iff] at hj hk
  have : (F.getD j []).getD k 0 = 0 := by
    rw [List.getD_eq_getElem _ _ hk.1.1]
    refine h0 _ ?_ _ (List.getElem_mem _)
    rw [List.getD_eq_getElem _ _ hj.1.1]; exact List.getElem_mem _
  rw [this]; ring


end PartC

/-! ## Part D: exactness of the double quadrature -/
section PartD
open Model.Boltz Model.Poly Finset Polynomial Lob Lemmas.Lobatto Real


/-- polynomial with the given coefficients `f 0, …, f (N-1)` -/
noncomputable def polyOf (N : ℕ) (f : ℕ → ℝ) : ℝ[X] := ∑ b ∈ range N, C (f b) * X ^ b

/-- evaluation of `polyOf` -/
theorem polyOf_eval (N : ℕ) (f : ℕ → ℝ) (y : ℝ) : (polyOf N f).eval y = ∑ b ∈ range N, f b * y ^ b := by
  simp [polyOf, eval_finsetSum]

/-- degree bound of `polyOf` -/
theorem polyOf_natDegree_le (N : ℕ) (f : ℕ → ℝ) : (polyOf N f).natDegree ≤ N - 1 := by
  refine natDegree_sum_le_of_forall_le _ _ fun b hb => ?_
  have := mem_range.mp hb
  exact (natDegree_C_mul_X_pow_le _ _).trans (by omega)

/-- `codeQuad` is homogeneous in the integrand -/
theorem codeQuad_mul_const {M : ℕ} (hM : M ≠ 0) (φ : ℝ → ℝ) (s : ℝ) (d : Dir) (e : Bool) (p : ℝ) :
    codeQuad (fun y => φ y * s) d e (lobNodes M) p = codeQuad φ d e (lobNodes M) p * s := by
  rw [codeQuad_eq_interior hM, codeQuad_eq_interior hM, mul_assoc, Finset.sum_mul]
  congr 1
  exact Finset.sum_congr rfl fun j _ => by ring

/-- `codeQuad` only looks at the interior nodes -/
theorem codeQuad_congr {M : ℕ} (hM : M ≠ 0) (φ ψ : ℝ → ℝ) (d : Dir) (e : Bool) (p : ℝ)
    (h : ∀ j, 0 < j → j < M → φ (node M j) * √(1 - node M j ^ 2) = ψ (node M j) * √(1 - node M j ^ 2)) :
    codeQuad φ d e (lobNodes M) p = codeQuad ψ d e (lobNodes M) p := by
  rw [codeQuad_eq_interior hM, codeQuad_eq_interior hM]
  congr 1
  exact Finset.sum_congr rfl fun j hj => by
    rw [Finset.mem_Ico] at hj; exact h j (by omega) hj.2

/-- the `√(1-x²)·weight` factors handed to the moment sum for one direction (polynomial.py:538-560) -/
noncomputable def quadFactors (d : Dir) (e : Bool) (M : ℕ) : List ℝ :=
  List.zipWith (fun x w => √(1 - x ^ 2) * w) (kept d e (lobNodes M))
    (gclWeights (π / M) (1 / 2) d e (M + 1))

/-- the moment sum on the Lobatto grids is the nested `integrate` sum -/
theorem moment_eq_codeQuad (dz dp : Dir) (ez ep : Bool) (Mz Mp : ℕ) (δ w : ℝ → ℝ → ℝ) :
    moment (0 : ℝ)
        ((kept dz ez (lobNodes Mz)).map fun x => (kept dp ep (lobNodes Mp)).map fun y => δ x y)
        ((kept dz ez (lobNodes Mz)).map fun x => (kept dp ep (lobNodes Mp)).map fun y => w x y)
        (quadFactors dz ez Mz) (quadFactors dp ep Mp)
      = codeQuad (fun x => codeQuad (fun y => δ x y * w x y) dp ep (lobNodes Mp) (π / Mp))
          dz ez (lobNodes Mz) (π / Mz) := by
  rw [codeQuad_eq_sum, Finset.sum_Ico_eq_sum_range]
  simp only [codeQuad_eq_sum, Finset.sum_Ico_eq_sum_range]
  simp only [quadFactors, kept_lobNodes, gclWeights_eq, List.zipWith_map, List.zipWith_self, List.map_map,
    Function.comp_def]
  rw [moment_tabulated]
  refine Finset.sum_congr rfl fun j _ => ?_
  rw [Finset.sum_mul, Finset.sum_mul]
  refine Finset.sum_congr rfl fun k _ => ?_
  ring


/-- swapping the finite sums: a Lobatto sum in `y` of a polynomial in `(x, y)` is a polynomial in `x` -/
theorem sum_swap_aux (Na Nb K : ℕ) (c : ℕ → ℕ → ℝ) (u : ℕ → ℝ) (Y : ℕ → ℝ) (x q : ℝ) :
    q * ∑ k ∈ range K, u k * ∑ b ∈ range Nb, (∑ a ∈ range Na, c a b * x ^ a) * Y k ^ b
      = ∑ a ∈ range Na, (q * ∑ k ∈ range K, u k * ∑ b ∈ range Nb, c a b * Y k ^ b) * x ^ a := by
  simp only [Finset.mul_sum, Finset.sum_mul]
  conv_rhs => rw [Finset.sum_comm]
  refine Finset.sum_congr rfl fun k _ => ?_
  conv_rhs => rw [Finset.sum_comm]
  refine Finset.sum_congr rfl fun b _ => Finset.sum_congr rfl fun a _ => ?_
  ring

/-- **Exactness of the double quadrature.**  If `Φ = δ·w` times `√(1−x²)√(1−y²)` agrees on `[−1,1]²`
with a polynomial of degree `≤ 2Mz−1` in `x` and `≤ 2Mp−1` in `y`, the nested `integrate` sum is the
double integral of `Φ`. -/
theorem codeQuad_double_exact {Mz Mp : ℕ} (hz : Mz ≠ 0) (hp : Mp ≠ 0) (dz dp : Dir) (ez ep : Bool)
    (Φ : ℝ → ℝ → ℝ) (c : ℕ → ℕ → ℝ)
    (hΦ : ∀ x ∈ Set.Icc (-1 : ℝ) 1, ∀ y ∈ Set.Icc (-1 : ℝ) 1,
      Φ x y * √(1 - x ^ 2) * √(1 - y ^ 2)
        = ∑ a ∈ range (2 * Mz), ∑ b ∈ range (2 * Mp), c a b * x ^ a * y ^ b) :
    codeQuad (fun x => codeQuad (fun y => Φ x y) dp ep (lobNodes Mp) (π / Mp)) dz ez (lobNodes Mz) (π / Mz)
      = ∫ x in (-1 : ℝ)..1, ∫ y in (-1 : ℝ)..1, Φ x y := by
  -- polynomial in `y` for fixed `x`
  set gx : ℝ → ℝ[X] := fun x => polyOf (2 * Mp) (fun b => ∑ a ∈ range (2 * Mz), c a b * x ^ a) with hgx
  have hgx_eval : ∀ x ∈ Set.Icc (-1 : ℝ) 1, ∀ y ∈ Set.Icc (-1 : ℝ) 1,
      (Φ x y * √(1 - x ^ 2)) * √(1 - y ^ 2) = (gx x).eval y := by
    intro x hx y hy
    rw [hΦ x hx y hy, hgx, polyOf_eval, Finset.sum_comm]
    refine Finset.sum_congr rfl fun b _ => ?_
    rw [Finset.sum_mul]
  -- Step A: the inner sum times `√(1-x²)` is the inner integral times `√(1-x²)`
  have hA : ∀ x ∈ Set.Icc (-1 : ℝ) 1,
      codeQuad (fun y => Φ x y) dp ep (lobNodes Mp) (π / Mp) * √(1 - x ^ 2)
        = (∫ y in (-1 : ℝ)..1, Φ x y) * √(1 - x ^ 2) := by
    intro x hx
    rw [← codeQuad_mul_const hp, ← intervalIntegral.integral_mul_const]
    exact codeQuad_exact hp dp ep _ (gx x) (polyOf_natDegree_le _ _)
      (fun y hy => hgx_eval x hx y ⟨hy.1.le, hy.2.le⟩)
      (by
        have h1 := hgx_eval x hx 1 (by norm_num)
        have h2 := hgx_eval x hx (-1) (by norm_num)
        simp at h1 h2
        rw [← h1, ← h2]; ring)
  -- Step B: the outer polynomial
  set G : ℝ[X] := polyOf (2 * Mz) (fun a => π / Mp * ∑ k ∈ range (Mp + 1), lobW Mp k *
      ∑ b ∈ range (2 * Mp), c a b * (-cos (k * π / Mp)) ^ b) with hG
  have hB : ∀ x ∈ Set.Icc (-1 : ℝ) 1, (∫ y in (-1 : ℝ)..1, Φ x y) * √(1 - x ^ 2) = G.eval x := by
    intro x hx
    rw [← intervalIntegral.integral_mul_const,
      ← integral_div_sqrt_eq (g := fun y => (gx x).eval y)
        (fun y hy => hgx_eval x hx y ⟨hy.1.le, hy.2.le⟩),
      ← gauss_lobatto_exact_neg hp (gx x) (polyOf_natDegree_le _ _), hG, polyOf_eval]
    simp only [hgx, polyOf_eval]
    exact sum_swap_aux _ _ _ c _ (fun k => -cos (k * π / Mp)) x _
  rw [codeQuad_congr hz _ (fun x => ∫ y in (-1 : ℝ)..1, Φ x y) dz ez _
    (fun j h0 hj => hA _ (Set.Ioo_subset_Icc_self (node_mem_Ioo h0 hj)))]
  have h1 : G.eval 1 = 0 := by rw [← hB 1 (by norm_num)]; simp
  have hm1 : G.eval (-1) = 0 := by rw [← hB (-1) (by norm_num)]; simp
  exact codeQuad_exact hz dz ez _ G (polyOf_natDegree_le _ _)
    (fun x hx => hB x ⟨hx.1.le, hx.2.le⟩) (by rw [h1, hm1]; ring)

/-- **T13.2 exactness for the moment sum.** -/
theorem moment_exact {Mz Mp : ℕ} (hz : Mz ≠ 0) (hp : Mp ≠ 0) (dz dp : Dir) (ez ep : Bool)
    (δ w : ℝ → ℝ → ℝ) (c : ℕ → ℕ → ℝ)
    (hΦ : ∀ x ∈ Set.Icc (-1 : ℝ) 1, ∀ y ∈ Set.Icc (-1 : ℝ) 1,
      δ x y * w x y * √(1 - x ^ 2) * √(1 - y ^ 2)
        = ∑ a ∈ range (2 * Mz), ∑ b ∈ range (2 * Mp), c a b * x ^ a * y ^ b) :
    moment (0 : ℝ)
        ((kept dz ez (lobNodes Mz)).map fun x => (kept dp ep (lobNodes Mp)).map fun y => δ x y)
        ((kept dz ez (lobNodes Mz)).map fun x => (kept dp ep (lobNodes Mp)).map fun y => w x y)
        (quadFactors dz ez Mz) (quadFactors dp ep Mp)
      = ∫ x in (-1 : ℝ)..1, ∫ y in (-1 : ℝ)..1, δ x y * w x y := by
  rw [moment_eq_codeQuad]
  exact codeQuad_double_exact hz hp dz dp ez ep (fun x y => δ x y * w x y) c hΦ

end PartD

/-! ## Part F: the assembled operator and its change of basis -/
section PartF
open Model.Boltz Finset Matrix
open scoped Kronecker


section Operator
variable {P : Type} [Fintype P] [DecidableEq P] {m n p : ℕ}

/-- index of one unknown: (particle, position index, p_z index, p_par index), nested so that
`Matrix.kroneckerMap` applies directly; C-order flattening of this index is `flatIndex`. -/
abbrev Idx (P : Type) (m n p : ℕ) := ((P × Fin m) × Fin n) × Fin p

/-- the assembled operator `liouville + collision` of `buildLinearEquations`, entry
`[a,i,j,k ; b,l,m',n']`, for given coefficient fields and basis matrices. -/
def opMat (A B : P → Fin m → Fin n → Fin p → ℝ) (t : Fin m → ℝ)
    (DChi TChi : Matrix (Fin m) (Fin m) ℝ) (DRz TRz : Matrix (Fin n) (Fin n) ℝ)
    (TRp : Matrix (Fin p) (Fin p) ℝ) (C : P → Fin n → Fin p → P → Fin n → Fin p → ℝ) :
    Matrix (Idx P m n p) (Idx P m n p) ℝ :=
  fun r c =>
    (if r.1.1.1 = c.1.1.1 then
        A r.1.1.1 r.1.1.2 r.1.2 r.2 * DChi r.1.1.2 c.1.1.2 * TRz r.1.2 c.1.2 * TRp r.2 c.2
          - B r.1.1.1 r.1.1.2 r.1.2 r.2 * TChi r.1.1.2 c.1.1.2 * DRz r.1.2 c.1.2 * TRp r.2 c.2
      else 0)
      + t r.1.1.2 * TChi r.1.1.2 c.1.1.2 * C r.1.1.1 r.1.2 r.2 c.1.1.1 c.1.2 c.2

/-- basis change of the collision array on its two column axes (`CollisionArray.changeBasis`, C14) -/
def collisionChangeBasis (C : P → Fin n → Fin p → P → Fin n → Fin p → ℝ)
    (Tz : Matrix (Fin n) (Fin n) ℝ) (Tp : Matrix (Fin p) (Fin p) ℝ) :
    P → Fin n → Fin p → P → Fin n → Fin p → ℝ :=
  fun a j k b m' n' => ∑ m0, ∑ n0, C a j k b m0 n0 * Tz m0 m' * Tp n0 n'

/-- the tensor-product basis change `1 ⊗ T_M ⊗ T_z ⊗ T_p` (coefficients ↦ grid values) -/
def basisKron (TM : Matrix (Fin m) (Fin m) ℝ) (Tz : Matrix (Fin n) (Fin n) ℝ)
    (Tp : Matrix (Fin p) (Fin p) ℝ) : Matrix (Idx P m n p) (Idx P m n p) ℝ :=
  (((1 : Matrix P P ℝ) ⊗ₖ TM) ⊗ₖ Tz) ⊗ₖ Tp

omit [Fintype P] in
theorem basisKron_apply (TM : Matrix (Fin m) (Fin m) ℝ) (Tz : Matrix (Fin n) (Fin n) ℝ)
    (Tp : Matrix (Fin p) (Fin p) ℝ) (r c : Idx P m n p) :
    basisKron (P := P) TM Tz Tp r c
      = (if r.1.1.1 = c.1.1.1 then 1 else 0) * TM r.1.1.2 c.1.1.2 * Tz r.1.2 c.1.2 * Tp r.2 c.2 := by
  simp [basisKron, Matrix.kroneckerMap_apply, Matrix.one_apply]

/-- **operator in a general basis = operator in the cardinal basis ∘ (1 ⊗ T_M ⊗ T_z ⊗ T_p)** -/
theorem opMat_basis_change (A B : P → Fin m → Fin n → Fin p → ℝ) (t : Fin m → ℝ)
    (Dχ TM : Matrix (Fin m) (Fin m) ℝ) (Dz Tz : Matrix (Fin n) (Fin n) ℝ)
    (Tp : Matrix (Fin p) (Fin p) ℝ) (C : P → Fin n → Fin p → P → Fin n → Fin p → ℝ) :
    opMat A B t (Dχ * TM) TM (Dz * Tz) Tz Tp (collisionChangeBasis C Tz Tp)
      = opMat A B t Dχ 1 Dz 1 1 C * basisKron TM Tz Tp := by
  ext ⟨⟨⟨pa, i⟩, j⟩, k⟩ ⟨⟨⟨pb, l⟩, m'⟩, n'⟩
  rw [Matrix.mul_apply]
  simp only [Fintype.sum_prod_type, basisKron_apply, opMat, collisionChangeBasis, Matrix.mul_apply,
    Matrix.one_apply]
  rw [Finset.sum_eq_single pb]
  · by_cases hab : pa = pb
    · subst hab
      simp only [if_true, one_mul, add_mul, sub_mul, Finset.sum_add_distrib, Finset.sum_sub_distrib]
      simp [Finset.mul_sum, mul_comm, mul_left_comm]
    · simp only [if_neg hab, if_true, one_mul, zero_add]
      simp [Finset.mul_sum, mul_comm, mul_left_comm]
  · intro b _ hb
    simp [if_neg hb]
  · intro h; exact absurd (Finset.mem_univ _) h


/-- same source, non-singular cardinal operator ⇒ the cardinal-basis solution is the basis change of the
general-basis solution -/
theorem solution_basis_change (A B : P → Fin m → Fin n → Fin p → ℝ) (t : Fin m → ℝ)
    (Dχ TM : Matrix (Fin m) (Fin m) ℝ) (Dz Tz : Matrix (Fin n) (Fin n) ℝ)
    (Tp : Matrix (Fin p) (Fin p) ℝ) (C : P → Fin n → Fin p → P → Fin n → Fin p → ℝ)
    (hcard : IsUnit (opMat A B t Dχ 1 Dz 1 1 C).det) (s x y : Idx P m n p → ℝ)
    (hx : opMat A B t Dχ 1 Dz 1 1 C *ᵥ x = s)
    (hy : opMat A B t (Dχ * TM) TM (Dz * Tz) Tz Tp (collisionChangeBasis C Tz Tp) *ᵥ y = s) :
    x = basisKron TM Tz Tp *ᵥ y := by
  rw [opMat_basis_change, ← Matrix.mulVec_mulVec, ← hx] at hy
  have := Matrix.eq_zero_of_mulVec_eq_zero hcard.ne_zero (v := x - basisKron TM Tz Tp *ᵥ y)
    (by rw [Matrix.mulVec_sub, hy, sub_self])
  exact sub_eq_zero.mp this

/-- the tensor-product basis change is non-singular when its factors are -/
theorem basisKron_det_isUnit (TM : Matrix (Fin m) (Fin m) ℝ) (Tz : Matrix (Fin n) (Fin n) ℝ)
    (Tp : Matrix (Fin p) (Fin p) ℝ) (hM : IsUnit TM.det) (hz : IsUnit Tz.det) (hp : IsUnit Tp.det) :
    IsUnit (basisKron (P := P) TM Tz Tp).det := by
  simp only [basisKron, Matrix.det_kronecker, Matrix.det_one, one_pow, one_mul]
  exact ((hM.pow _).pow _ |>.mul (hz.pow _)).pow _ |>.mul (hp.pow _)

end Operator

end PartF

/-! ## Part E: homogeneous background, reshaping -/
section PartE
open Gen.R.Boltz Model.Boltz Model.Poly Matrix Finset

/-- a matrix with zero row sums (every consistent finite-difference derivative matrix) annihilates
constant vectors -/
theorem mulVec_const_of_row_sums_zero {ι κ : Type*} [Fintype κ] (D : Matrix ι κ ℝ)
    (h : ∀ i, ∑ j, D i j = 0) (c : ℝ) : D *ᵥ (fun _ => c) = 0 := by
  funext i
  simp only [Matrix.mulVec, dotProduct, Pi.zero_apply, ← Finset.sum_mul, h i, zero_mul]

/-- a non-singular matrix has trivial kernel (the `np.linalg.solve` contract) -/
theorem mulVec_eq_zero_of_isUnit_det {ι : Type*} [Fintype ι] [DecidableEq ι] (M : Matrix ι ι ℝ)
    (hM : IsUnit M.det) (x : ι → ℝ) (h : M *ᵥ x = 0) : x = 0 :=
  Matrix.eq_zero_of_mulVec_eq_zero hM.ne_zero h

/-- homogeneous background ⇒ zero source ⇒ zero solution of the non-singular system -/
theorem solution_zero_of_homogeneous {ι : Type*} [Fintype ι] [DecidableEq ι] (A : Matrix ι ι ℝ)
    (hA : IsUnit A.det) (vw : ℝ) (pz E v T dv dT dm stat dxi dpz dpp : ι → ℝ) (s x : ι → ℝ)
    (hs : ∀ r, s r = (sourceTerm vw (pz r) (E r) (v r) (T r) (dv r) (dT r) (dm r) (stat r) (dxi r)
      (dpz r) (dpp r)).1)
    (hdv : ∀ r, dv r = 0) (hdT : ∀ r, dT r = 0) (hdm : ∀ r, dm r = 0) (hx : A *ᵥ x = s) : x = 0 := by
  refine mulVec_eq_zero_of_isUnit_det A hA x ?_
  rw [hx]; funext r
  rw [hs r, hdv r, hdT r, hdm r, sourceTerm_fst_zero]; rfl

/-- C-order flattening of the index `(a, i, j, k)` as an equivalence with `Fin (np·nM·nN·nN)` -/
def flatEquiv (np nM nN : ℕ) : Idx (Fin np) nM nN nN ≃ Fin (np * nM * nN * nN) :=
  ((Equiv.prodCongr (Equiv.prodCongr finProdFinEquiv (Equiv.refl _)) (Equiv.refl _)).trans
    (Equiv.prodCongr finProdFinEquiv (Equiv.refl _))).trans finProdFinEquiv

/-- `flatEquiv` is `Model.Boltz.flatIndex` -/
theorem flatEquiv_val (np nM nN : ℕ) (r : Idx (Fin np) nM nN nN) :
    (flatEquiv np nM nN r : ℕ) = flatIndex nM nN r.1.1.1 r.1.1.2 r.1.2 r.2 := by
  obtain ⟨⟨⟨a, i⟩, j⟩, k⟩ := r
  simp [flatEquiv, flatIndex, finProdFinEquiv]
  ring

/-- reshaping operator and source with the same bijection preserves the linear system -/
theorem reindex_system {ι κ : Type*} [Fintype ι] [Fintype κ] (e : ι ≃ κ) (A : Matrix ι ι ℝ) (x s : ι → ℝ) :
    Matrix.reindex e e A *ᵥ (x ∘ e.symm) = s ∘ e.symm ↔ A *ᵥ x = s := by
  rw [Matrix.reindex_apply, Matrix.submatrix_mulVec_equiv]
  simp only [Equiv.symm_symm, Function.comp_assoc, Equiv.symm_comp_self, Function.comp_id]
  constructor
  · intro h
    funext i
    have := congrFun h (e i)
    simpa using this
  · intro h; rw [h]

end PartE

/-! ## Part G: correspondence with the data-flow model; derivative matrices in the Chebyshev basis -/
section PartG
open Model.Boltz Model.Poly Matrix Finset Polynomial Lemmas.ChebyshevModel Lemmas.CollisionCheb

/-- the entries of `opMat` are `liouvilleEntry + collisionEntry` of the data-flow model -/
theorem opMat_eq_model {P : Type} [DecidableEq P] {m n p : ℕ} (dchidxi : Fin m → ℝ)
    (pWall : P → Fin m → Fin n → Fin p → ℝ) (drzdpz : Fin n → ℝ) (gammaWall : ℝ) (dMsq : P → Fin m → ℝ)
    (mult : ℝ) (temp : Fin m → ℝ)
    (DChi TChi : Matrix (Fin m) (Fin m) ℝ) (DRz TRz : Matrix (Fin n) (Fin n) ℝ)
    (TRp : Matrix (Fin p) (Fin p) ℝ) (C : P → Fin n → Fin p → P → Fin n → Fin p → ℝ)
    (a b : P) (i l : Fin m) (j m' : Fin n) (k n' : Fin p) :
    opMat (fun a i j k => dchidxi i * pWall a i j k)
        (fun a i j _ => dchidxi i * drzdpz j * (gammaWall / 2) * dMsq a i)
        (fun i => mult * (temp i * temp i)) DChi TChi DRz TRz TRp C (((a, i), j), k) (((b, l), m'), n')
      = liouvilleEntry (0 : ℝ) 2 (decide (a = b)) (dchidxi i) (pWall a i j k) (drzdpz j) gammaWall
          (dMsq a i) (DChi i l) (TRz j m') (TRp k n') (TChi i l) (DRz j m')
        + collisionEntry mult (temp i) (TChi i l) (C a j k b m' n') := by
  by_cases h : a = b
  · simp [opMat, liouvilleEntry, collisionEntry, h]; ring
  · simp [opMat, liouvilleEntry, collisionEntry, h]; ring

/-- one column of `_chebyshevDeriv` (z or pz, no end points) is `_cardinalDeriv` applied to the same
column of `_chebyshevMatrix`: the derivative of a basis function at all nodes is the cardinal
derivative matrix applied to its node values. -/
theorem chebyshevDeriv_col {xs : List ℝ} (hnd : xs.Nodup) {d : Dir} (hd : d ≠ .pp)
    (h0 : xs.getD 0 0 = -1) (h1 : xs.getD (xs.length - 1) 0 = 1) (k : ℕ) (hk2 : 2 ≤ k)
    (hk : k < xs.length) :
    Model.Poly.mulVec (0 : ℝ) (cardinalDeriv (0 : ℝ) 1 d false xs)
        ((kept d false xs).map (fun x => chebyshev (1 : ℝ) 2 .full k x))
      = xs.map (fun x => derivEntry .full k x) := by
  have hdeg : (Tbar .full k).natDegree < xs.length := by
    rw [natDegree_Tbar .full k (by simpa [minOrder] using hk2)]; exact hk
  have := Lemmas.PolyCardinal.cardinalDeriv_exact hnd d false hdeg
    (Lemmas.PolyCardinal.vanishes_interior hd xs _ (by rw [h0]; exact Tbar_full_eval_neg_one k)
      (by rw [h1]; exact Tbar_full_eval_one k))
  simp only [← chebyshev_eq, derivative_Tbar] at this
  exact this

/-- **`DChi_B = Dχ · T`**: the `_chebyshevDeriv` matrix (all nodes × orders; z or pz, no end points) is
the `_cardinalDeriv` matrix (all nodes × interior nodes) times the basis-change matrix
`_chebyshevMatrix` (interior nodes × orders).  Taking the interior rows `[1:-1]` of both sides gives
the hypothesis `DChi_B = Dχ * T_M`, `DRz_B = Dz * T_z` of `opMat_basis_change`. -/
theorem chebyshevDeriv_eq_mul {xs : List ℝ} (hnd : xs.Nodup) {d : Dir} (hd : d ≠ .pp)
    (h0 : xs.getD 0 0 = -1) (h1 : xs.getD (xs.length - 1) 0 = 1) (m : ℕ)
    (hm : m = (kept d false xs).length) :
    toMatrix (chebyshevDeriv (0 : ℝ) 1 2 Nat.cast d false xs) xs.length m
      = toMatrix (cardinalDeriv (0 : ℝ) 1 d false xs) xs.length m * chebMat d false xs m := by
  have hr : restrictionOf d false = .full := by cases d <;> simp_all [restrictionOf]
  have hkr : keptRange d false xs.length = (1, xs.length - 1) := by cases d <;> simp_all [keptRange]
  have hm' : m = xs.length - 1 - 1 := by rw [hm, Lemmas.PolyCardinal.kept_length, hkr]
  have hord : orders d false xs.length = (List.range (xs.length - 2)).map (· + 2) := by
    cases d <;> simp_all [orders]
  ext a b
  have hb : (b : ℕ) < xs.length - 2 := by have := b.2; omega
  have hob : (orders d false xs.length).getD b 0 = b + 2 := by
    rw [hord, List.getD_eq_getElem _ _ (by simpa using hb)]; simp
  -- the column of the basis-change matrix
  have hcol : List.ofFn (fun c => chebMat d false xs m c b)
      = (kept d false xs).map (fun x => chebyshev (1 : ℝ) 2 .full (b + 2) x) := by
    apply List.ext_getElem
    · simp [hm]
    · intro i hi1 hi2
      have hi : i < m := by simpa using hi1
      rw [List.getElem_ofFn, chebMat_apply d false xs m hm ⟨i, hi⟩ b, hr, hob, List.getElem_map,
        List.getD_eq_getElem _ _ (by simpa using hi2)]
  have hrows : ∀ r ∈ cardinalDeriv (0 : ℝ) 1 d false xs, r.length = m := by
    intro r hr'
    simp only [cardinalDeriv, List.mem_map] at hr'
    obtain ⟨_, _, rfl⟩ := hr'
    simp [hkr, hm']
  have key := mulVec_ofFn (cardinalDeriv (0 : ℝ) 1 d false xs) xs.length m
    (Lemmas.PolyCardinal.cardinalDeriv_length d false xs) hrows (fun c => chebMat d false xs m c b)
  rw [hcol, chebyshevDeriv_col hnd hd h0 h1 (b + 2) (by omega) (by omega)] at key
  have hk := congrArg (fun l => l.getD a 0) key
  simp only [List.getD_eq_getElem?_getD, List.getElem?_map, List.getElem?_eq_getElem a.2,
    Option.map_some, Option.getD_some, List.getElem?_ofFn] at hk
  rw [Matrix.mul_apply]
  have hlhs : toMatrix (chebyshevDeriv (0 : ℝ) 1 2 Nat.cast d false xs) xs.length m a b
      = derivEntry .full (b + 2) xs[a] := by
    simp only [toMatrix, chebyshevDeriv_eq, hr, hord, List.getD_eq_getElem?_getD, List.getElem?_map,
      List.getElem?_eq_getElem a.2, Option.map_some, Option.getD_some]
    rw [List.getElem?_eq_getElem (by simpa using hb)]
    simp
  rw [hlhs]
  refine hk.trans ?_
  simp [Matrix.mulVec, dotProduct]

end PartG

/-! ## Part H: example data (non-vacuity of the C13 chain theorem) -/
section PartH
open Gen.R.Boltz Set Real WG.GridMaps Finset

/-- example deviation for the non-vacuity of the chain theorem: in compact coordinates
`δf·I·√(1−ρ_z²)·√(1−ρ_∥²) = (1−ρ_z²)(1−ρ_∥²)` (`T = 1`, `m² = 0`) -/
noncomputable def exDeltaF (pz pp : ℝ) : ℝ :=
  let x := Real.tanh (pz / 2 / 1)
  let y := 1 - 2 * Real.exp (-pp / 1)
  (1 - x ^ 2) * (1 - y ^ 2)
    / ((deltaIntegrand 0 pz pp 1 (2 * 1 / (1 - x ^ 2)) (1 / (1 - y))).2 * √(1 - x ^ 2) * √(1 - y ^ 2))

theorem exDeltaF_poly (x : ℝ) (hx : x ∈ Icc (-1 : ℝ) 1) (y : ℝ) (hy : y ∈ Icc (-1 : ℝ) 1) :
    exDeltaF (pzMap 1 x) (ppMap 1 y)
        * (1 * (deltaIntegrand 0 (pzMap 1 x) (ppMap 1 y) 1 (2 * 1 / (1 - x ^ 2)) (1 / (1 - y))).2)
        * √(1 - x ^ 2) * √(1 - y ^ 2)
      = ∑ a ∈ range (2 * 2), ∑ b ∈ range (2 * 2),
          ((![1, 0, -1, 0] : Fin 4 → ℝ) (Fin.ofNat 4 a) * (![1, 0, -1, 0] : Fin 4 → ℝ) (Fin.ofNat 4 b))
            * x ^ a * y ^ b := by
  have hrhs : ∑ a ∈ range (2 * 2), ∑ b ∈ range (2 * 2),
      ((![1, 0, -1, 0] : Fin 4 → ℝ) (Fin.ofNat 4 a) * (![1, 0, -1, 0] : Fin 4 → ℝ) (Fin.ofNat 4 b))
        * x ^ a * y ^ b = (1 - x ^ 2) * (1 - y ^ 2) := by
    simp [Finset.sum_range_succ, Fin.ofNat]; ring
  rw [hrhs]
  have hx' : 0 ≤ 1 - x ^ 2 := by nlinarith [hx.1, hx.2]
  have hy' : 0 ≤ 1 - y ^ 2 := by nlinarith [hy.1, hy.2]
  by_cases hx0 : 1 - x ^ 2 = 0
  · rw [hx0]; simp
  by_cases hy0 : 1 - y ^ 2 = 0
  · rw [hy0]; simp
  have hxm : -1 < x := lt_of_le_of_ne hx.1 (fun h => hx0 (by rw [← h]; norm_num))
  have hxp : x < 1 := lt_of_le_of_ne hx.2 (fun h => hx0 (by rw [h]; norm_num))
  have hym : -1 < y := lt_of_le_of_ne hy.1 (fun h => hy0 (by rw [← h]; norm_num))
  have hyp : y < 1 := lt_of_le_of_ne hy.2 (fun h => hy0 (by rw [h]; norm_num))
  have e1 : Real.tanh (pzMap 1 x / 2 / 1) = x := pzcompact_pzmap one_ne_zero (abs_lt.mpr ⟨hxm, hxp⟩)
  have e2 : 1 - 2 * Real.exp (-ppMap 1 y / 1) = y := ppcompact_ppmap one_ne_zero hyp
  have hpp : 0 < ppMap 1 y := by
    have : ppMap 1 y ∈ ppMap 1 '' Ioo (-1) 1 := mem_image_of_mem _ ⟨hym, hyp⟩
    rwa [ppMap_image one_pos] at this
  have hE : 0 < √(0 + pzMap 1 x ^ 2 + ppMap 1 y ^ 2) := Real.sqrt_pos.mpr (by positivity)
  have hsx : √(1 - x ^ 2) ≠ 0 := (Real.sqrt_pos.mpr (lt_of_le_of_ne hx' (Ne.symm hx0))).ne'
  have hsy : √(1 - y ^ 2) ≠ 0 := (Real.sqrt_pos.mpr (lt_of_le_of_ne hy' (Ne.symm hy0))).ne'
  have hI : (deltaIntegrand 0 (pzMap 1 x) (ppMap 1 y) 1 (2 * 1 / (1 - x ^ 2)) (1 / (1 - y))).2 ≠ 0 := by
    rw [deltaIntegrand_snd]
    have : 1 - y ≠ 0 := by linarith
    have := hpp.ne'
    have := hE.ne'
    have := Real.pi_ne_zero
    positivity
  unfold exDeltaF
  simp only [e1, e2]
  generalize (deltaIntegrand 0 (pzMap 1 x) (ppMap 1 y) 1 (2 * 1 / (1 - x ^ 2)) (1 / (1 - y))).2 = I at hI ⊢
  field_simp


end PartH

end Lemmas.Boltz
