/-
Helper lemmas for property file `Props/C04P.lean`: the computable model `Model/ProfilePoint.lean` of the
branch logic of `EOM.findPlasmaProfilePoint` (src/WallGo/equationOfMotion.py) instantiated at `α := ℝ`,
`zero := 0` (and, where it matters, `tiny := 1e-10`, `up := 1.2`, `down := 0.8`).

Organisation
* `absv`/`max2`/`min2` are `|·|`/`max`/`min`; the model multiplier equals `Lemmas.EOM.tMultiplier`.
* the marching loop `march`: complete characterisation of its three possible results in terms of the
  sequence of test temperatures `t, t m, t m², …`.
* `profilePoint`: the same characterisation for the whole function (test temperatures `tmin m^(j+1)`).
* size and sign of the multiplier on the two branches, geometric ordering of the bracket end points.
-/
import WallGoVerif.Model.ProfilePoint
import WallGoVerif.Lemmas.EOM
import Mathlib.Tactic

namespace Lemmas.ProfilePoint

open Model.ProfilePoint

/-! ## Primitive operations -/

theorem absv_eq (x : ℝ) : absv (0 : ℝ) x = |x| := by
  unfold absv; split_ifs with h
  · rw [abs_of_neg h]; ring
  · rw [abs_of_nonneg (not_lt.mp h)]

theorem max2_eq (a b : ℝ) : max2 a b = max a b := by
  unfold max2; split_ifs with h
  · exact (max_eq_right h.le).symm
  · exact (max_eq_left (not_lt.mp h)).symm

theorem min2_eq (a b : ℝ) : min2 a b = min a b := by
  unfold min2; split_ifs with h
  · exact (min_eq_right h.le).symm
  · exact (min_eq_left (not_lt.mp h)).symm

/-- the multiplier of the model over `ℝ`, for arbitrary constants -/
theorem tMultiplier_real (tiny up down Tn Tplus Tminus tmin : ℝ) :
    tMultiplier (0 : ℝ) tiny up down Tn Tplus Tminus tmin =
      if |Tn - Tplus| < tiny then min (Tminus / tmin) down else max (Tplus / tmin) up := by
  unfold tMultiplier
  rw [absv_eq, min2_eq, max2_eq]

/-- **Link lemma.** The computable model's multiplier with the code's constants is the older
`Lemmas.EOM.tMultiplier`. -/
theorem tMultiplier_eq (Tn Tplus Tminus tmin : ℝ) :
    tMultiplier (0 : ℝ) 1e-10 1.2 0.8 Tn Tplus Tminus tmin =
      Lemmas.EOM.tMultiplier Tn Tplus Tminus tmin := by
  rw [tMultiplier_real]; rfl

theorem tMultiplier_detonation {Tn Tplus Tminus tmin : ℝ} (h : |Tn - Tplus| < 1e-10) :
    tMultiplier (0 : ℝ) 1e-10 1.2 0.8 Tn Tplus Tminus tmin = min (Tminus / tmin) 0.8 := by
  rw [tMultiplier_real, if_pos h]

theorem tMultiplier_deflagration {Tn Tplus Tminus tmin : ℝ} (h : ¬ |Tn - Tplus| < 1e-10) :
    tMultiplier (0 : ℝ) 1e-10 1.2 0.8 Tn Tplus Tminus tmin = max (Tplus / tmin) 1.2 := by
  rw [tMultiplier_real, if_neg h]

/-- detonation branch: `0 < m ≤ 0.8` (needs `0 < tmin`, `0 < Tminus` for positivity) and the first test
temperature is at most `Tminus` -/
theorem detonation_mult_bounds {Tn Tplus Tminus tmin : ℝ} (h : |Tn - Tplus| < 1e-10)
    (ht : 0 < tmin) :
    tMultiplier (0 : ℝ) 1e-10 1.2 0.8 Tn Tplus Tminus tmin ≤ 0.8 ∧
    tmin * tMultiplier (0 : ℝ) 1e-10 1.2 0.8 Tn Tplus Tminus tmin ≤ Tminus ∧
    (0 < Tminus → 0 < tMultiplier (0 : ℝ) 1e-10 1.2 0.8 Tn Tplus Tminus tmin) := by
  rw [tMultiplier_detonation h]
  refine ⟨min_le_right _ _, ?_, fun hT => lt_min (div_pos hT ht) (by norm_num)⟩
  calc tmin * min (Tminus / tmin) 0.8 ≤ tmin * (Tminus / tmin) := by
        gcongr; exact min_le_left _ _
    _ = Tminus := by field_simp

/-- deflagration branch: `1.2 ≤ m` and, for `0 < tmin`, the first test temperature is at least `Tplus` -/
theorem deflagration_mult_bounds {Tn Tplus Tminus tmin : ℝ} (h : ¬ |Tn - Tplus| < 1e-10) :
    1.2 ≤ tMultiplier (0 : ℝ) 1e-10 1.2 0.8 Tn Tplus Tminus tmin ∧
    (0 < tmin → Tplus ≤ tmin * tMultiplier (0 : ℝ) 1e-10 1.2 0.8 Tn Tplus Tminus tmin) := by
  rw [tMultiplier_deflagration h]
  refine ⟨le_max_right _ _, fun ht => ?_⟩
  calc Tplus = tmin * (Tplus / tmin) := by field_simp
    _ ≤ tmin * max (Tplus / tmin) 1.2 := by gcongr; exact le_max_left _ _

/-! ## Geometric sequences -/

/-- `0 < m < 1`: the points `tmin m^k` decrease strictly, stay positive and never exceed `tmin` -/
theorem geom_below {tmin m : ℝ} (ht : 0 < tmin) (hm0 : 0 < m) (hm1 : m < 1) (k : ℕ) :
    0 < tmin * m ^ (k + 1) ∧ tmin * m ^ (k + 1) < tmin * m ^ k ∧ tmin * m ^ k ≤ tmin := by
  have hk : 0 < m ^ k := pow_pos hm0 k
  have hk1 : m ^ k ≤ 1 := pow_le_one₀ hm0.le hm1.le
  have hp : 0 < tmin * m ^ k := mul_pos ht hk
  refine ⟨by positivity, ?_, ?_⟩
  · rw [pow_succ, ← mul_assoc]; nlinarith
  · nlinarith

/-- `1 < m`: the points `tmin m^k` increase strictly and never fall below `tmin` -/
theorem geom_above {tmin m : ℝ} (ht : 0 < tmin) (hm : 1 < m) (k : ℕ) :
    tmin ≤ tmin * m ^ k ∧ tmin * m ^ k < tmin * m ^ (k + 1) := by
  have hk1 : 1 ≤ m ^ k := one_le_pow₀ hm.le
  have hp : 0 < tmin * m ^ k := mul_pos ht (by positivity)
  refine ⟨by nlinarith, ?_⟩
  rw [pow_succ, ← mul_assoc]; nlinarith

/-! ## The marching loop -/

theorem march_zero (lhs : ℝ → ℝ) (m a t : ℝ) :
    march lhs (0 : ℝ) m 0 a t = if lhs t < 0 then .noSolution else .root a t := rfl

theorem march_succ (lhs : ℝ → ℝ) (m : ℝ) (n : ℕ) (a t : ℝ) :
    march lhs (0 : ℝ) m (n + 1) a t =
      if lhs t < 0 then march lhs 0 m n (a * m) (t * m) else .root a t := rfl

/-- if the first non-negative value of `lhs` along `t, t m, t m², …` occurs at index `k ≤ fuel`, the
loop stops there with the bracket `(a m^k, t m^k)` -/
theorem march_eq_root (lhs : ℝ → ℝ) (m : ℝ) : ∀ (n : ℕ) (a t : ℝ) (k : ℕ), k ≤ n →
    (∀ j < k, lhs (t * m ^ j) < 0) → 0 ≤ lhs (t * m ^ k) →
    march lhs 0 m n a t = .root (a * m ^ k) (t * m ^ k) := by
  intro n
  induction n with
  | zero =>
    intro a t k hk _ h0
    obtain rfl : k = 0 := by omega
    simp only [pow_zero, mul_one] at h0 ⊢
    rw [march_zero, if_neg (not_lt.mpr h0)]
  | succ n ih =>
    intro a t k hk hneg h0
    cases k with
    | zero =>
      simp only [pow_zero, mul_one] at h0 ⊢
      rw [march_succ, if_neg (not_lt.mpr h0)]
    | succ k =>
      have ht : lhs t < 0 := by simpa using hneg 0 (Nat.succ_pos k)
      rw [march_succ, if_pos ht, ih (a * m) (t * m) k (by omega) ?_ ?_]
      · congr 1 <;> ring
      · intro j hj
        have := hneg (j + 1) (by omega)
        rwa [show t * m ^ (j + 1) = t * m * m ^ j by ring] at this
      · rwa [show t * m ^ (k + 1) = t * m * m ^ k by ring] at h0

/-- if `lhs` is negative at all `fuel + 1` test temperatures the loop gives up -/
theorem march_eq_noSolution (lhs : ℝ → ℝ) (m : ℝ) : ∀ (n : ℕ) (a t : ℝ),
    (∀ j ≤ n, lhs (t * m ^ j) < 0) → march lhs 0 m n a t = .noSolution := by
  intro n
  induction n with
  | zero =>
    intro a t h
    have ht : lhs t < 0 := by simpa using h 0 le_rfl
    rw [march_zero, if_pos ht]
  | succ n ih =>
    intro a t h
    have ht : lhs t < 0 := by simpa using h 0 (Nat.zero_le _)
    rw [march_succ, if_pos ht]
    refine ih (a * m) (t * m) fun j hj => ?_
    have := h (j + 1) (by omega)
    rwa [show t * m ^ (j + 1) = t * m * m ^ j by ring] at this

/-- a finite real sequence is negative throughout or has a first non-negative entry -/
theorem neg_or_first (f : ℕ → ℝ) (n : ℕ) :
    (∀ j ≤ n, f j < 0) ∨ ∃ k ≤ n, (∀ j < k, f j < 0) ∧ 0 ≤ f k := by
  by_cases h : ∀ j ≤ n, f j < 0
  · exact Or.inl h
  · right
    push Not at h
    classical
    have hex : ∃ j, j ≤ n ∧ 0 ≤ f j := h
    refine ⟨Nat.find hex, (Nat.find_spec hex).1, fun j hj => ?_, (Nat.find_spec hex).2⟩
    by_contra hc
    exact Nat.find_min hex hj ⟨le_trans hj.le (Nat.find_spec hex).1, not_lt.mp hc⟩

theorem march_root_iff (lhs : ℝ → ℝ) (m : ℝ) (n : ℕ) (a t a' b' : ℝ) :
    march lhs 0 m n a t = .root a' b' ↔
      ∃ k ≤ n, a' = a * m ^ k ∧ b' = t * m ^ k ∧ (∀ j < k, lhs (t * m ^ j) < 0) ∧
        0 ≤ lhs (t * m ^ k) := by
  constructor
  · intro h
    rcases neg_or_first (fun j => lhs (t * m ^ j)) n with hall | ⟨k, hk, hneg, h0⟩
    · rw [march_eq_noSolution lhs m n a t hall] at h; cases h
    · rw [march_eq_root lhs m n a t k hk hneg h0] at h
      injection h with h1 h2
      exact ⟨k, hk, h1.symm, h2.symm, hneg, h0⟩
  · rintro ⟨k, hk, rfl, rfl, hneg, h0⟩
    exact march_eq_root lhs m n a t k hk hneg h0

theorem march_noSolution_iff (lhs : ℝ → ℝ) (m : ℝ) (n : ℕ) (a t : ℝ) :
    march lhs 0 m n a t = .noSolution ↔ ∀ j ≤ n, lhs (t * m ^ j) < 0 := by
  constructor
  · intro h
    rcases neg_or_first (fun j => lhs (t * m ^ j)) n with hall | ⟨k, hk, hneg, h0⟩
    · exact hall
    · rw [march_eq_root lhs m n a t k hk hneg h0] at h; cases h
  · exact march_eq_noSolution lhs m n a t

theorem march_ne_minimum (lhs : ℝ → ℝ) (m : ℝ) (n : ℕ) (a t T : ℝ) :
    march lhs 0 m n a t ≠ .minimum T := by
  intro h
  rcases neg_or_first (fun j => lhs (t * m ^ j)) n with hall | ⟨k, hk, hneg, h0⟩
  · rw [march_eq_noSolution lhs m n a t hall] at h; cases h
  · rw [march_eq_root lhs m n a t k hk hneg h0] at h; cases h

/-! ## The whole function -/

theorem profilePoint_eq (lhs : ℝ → ℝ) (tiny up down Tn Tplus Tminus tmin : ℝ) :
    profilePoint lhs 0 tiny up down Tn Tplus Tminus tmin =
      if lhs tmin < 0 then
        march lhs 0 (tMultiplier 0 tiny up down Tn Tplus Tminus tmin) 101 tmin
          (tmin * tMultiplier 0 tiny up down Tn Tplus Tminus tmin)
      else .minimum tmin := rfl

theorem pow_shift (tmin m : ℝ) (j : ℕ) : tmin * m * m ^ j = tmin * m ^ (j + 1) := by ring

theorem profilePoint_minimum_iff (lhs : ℝ → ℝ) (tiny up down Tn Tplus Tminus tmin T : ℝ) :
    profilePoint lhs 0 tiny up down Tn Tplus Tminus tmin = .minimum T ↔
      0 ≤ lhs tmin ∧ T = tmin := by
  rw [profilePoint_eq]
  split_ifs with h
  · constructor
    · intro h'; exact absurd h' (march_ne_minimum _ _ _ _ _ _)
    · rintro ⟨h0, -⟩; exact absurd h (not_lt.mpr h0)
  · constructor
    · intro h'; injection h' with h1; exact ⟨not_lt.mp h, h1.symm⟩
    · rintro ⟨-, rfl⟩; rfl

theorem profilePoint_root_iff (lhs : ℝ → ℝ) (tiny up down Tn Tplus Tminus tmin a b : ℝ) :
    profilePoint lhs 0 tiny up down Tn Tplus Tminus tmin = .root a b ↔
      lhs tmin < 0 ∧ ∃ k ≤ 101,
        a = tmin * tMultiplier 0 tiny up down Tn Tplus Tminus tmin ^ k ∧
        b = tmin * tMultiplier 0 tiny up down Tn Tplus Tminus tmin ^ (k + 1) ∧
        (∀ j < k, lhs (tmin * tMultiplier 0 tiny up down Tn Tplus Tminus tmin ^ (j + 1)) < 0) ∧
        0 ≤ lhs (tmin * tMultiplier 0 tiny up down Tn Tplus Tminus tmin ^ (k + 1)) := by
  rw [profilePoint_eq]
  split_ifs with h
  · rw [march_root_iff]
    simp only [pow_shift, h, true_and]
  · constructor
    · intro h'; cases h'
    · rintro ⟨h0, -⟩; exact absurd h0 h

theorem profilePoint_noSolution_iff (lhs : ℝ → ℝ) (tiny up down Tn Tplus Tminus tmin : ℝ) :
    profilePoint lhs 0 tiny up down Tn Tplus Tminus tmin = .noSolution ↔
      lhs tmin < 0 ∧ ∀ j ≤ 101,
        lhs (tmin * tMultiplier 0 tiny up down Tn Tplus Tminus tmin ^ (j + 1)) < 0 := by
  rw [profilePoint_eq]
  split_ifs with h
  · rw [march_noSolution_iff]
    simp only [pow_shift, h, true_and]
  · constructor
    · intro h'; cases h'
    · rintro ⟨h0, -⟩; exact absurd h0 h

end Lemmas.ProfilePoint
