/-
Helper lemmas for `Model.DetonScan` (hand model of the scanning loop of `EOM.findWallVelocityDetonation`,
equationOfMotion.py:246-380), used by `Props/C01D.lean`.

Contents
* `maxR = max`, `minR = min` on `Rat`;
* the proposal contracts `ProposeOK` (result in `(pos2, posMax]`) and its upper half `ProposeLe`;
* `nextV` (the clipped proposal `vw3`), the three shapes of the state after one pass (`pushed`, `shifted`) and the
  four-way case split `step_cases` of `step`;
* the loop invariant `Inv` for states from which the loop goes on, the weaker `Post` for states the loop returns,
  preservation (`Inv.step_true`), `Inv.toPost`, `Inv.step_false`;
* `loop_cases` (how a run of `loop` can end), `loop_post`, `loop_term` (enough fuel: the loop ended on its own),
  `loop_stable` (fuel independence);
* `scan` in terms of the final state (`scan_eq`), arithmetic about `stepMin = (vmax - vmin)/(nMax - 1)`.
-/
import Mathlib.Tactic
import WallGoVerif.Model.DetonScan

namespace Lemmas.DetonScan

open Model.DetonScan

/-! ### `maxR`, `minR` -/

theorem maxR_eq (a b : Rat) : maxR a b = max a b := by
  unfold maxR; split_ifs with h
  · exact (max_eq_right h.le).symm
  · exact (max_eq_left (not_lt.mp h)).symm

theorem minR_eq (a b : Rat) : minR a b = min a b := by
  unfold minR; split_ifs with h
  · exact (min_eq_right h.le).symm
  · exact (min_eq_left (not_lt.mp h)).symm

/-! ### Contracts on the step proposal -/

/-- what `nextStepDeton` guarantees: the proposal lies in `(pos2, posMax]` whenever `pos2 < posMax` -/
def ProposeOK (propose : Nat → Rat → Rat → Rat → Rat → Rat → Rat) : Prop :=
  ∀ i v1 v2 p1 p2 posMax, v2 < posMax →
    v2 < propose i v1 v2 p1 p2 posMax ∧ propose i v1 v2 p1 p2 posMax ≤ posMax

/-- the upper half of `ProposeOK` (the only part the proofs use) -/
def ProposeLe (propose : Nat → Rat → Rat → Rat → Rat → Rat → Rat) : Prop :=
  ∀ i v1 v2 p1 p2 posMax, v2 < posMax → propose i v1 v2 p1 p2 posMax ≤ posMax

theorem ProposeOK.le {propose : Nat → Rat → Rat → Rat → Rat → Rat → Rat} (h : ProposeOK propose) :
    ProposeLe propose := fun i v1 v2 p1 p2 posMax hv => (h i v1 v2 p1 p2 posMax hv).2

/-- a pair of consecutive probes across which the pressure goes from `≤ 0` to `≥ 0` -/
def SignPair (x y : Rat × Rat) : Prop := x.2 ≤ 0 ∧ 0 ≤ y.2

/-! ### List facts -/

theorem infix_pair_concat_iff {α : Type} (x y z : α) (l : List α) :
    [x, y] <:+: l ++ [z] ↔ [x, y] <:+: l ∨ (l.getLast? = some x ∧ y = z) := by
  rw [List.infix_concat_iff]
  constructor
  · rintro (⟨t, ht⟩ | h)
    · right
      have h1 : (t ++ [x]) ++ [y] = l ++ [z] := by simpa using ht
      obtain ⟨h2, h3⟩ := List.append_inj' h1 rfl
      refine ⟨?_, by simpa using h3⟩
      rw [← h2]; simp
    · exact Or.inl h
  · rintro (h | ⟨h1, h2⟩)
    · exact Or.inr h
    · left
      obtain ⟨ys, rfl⟩ := List.getLast?_eq_some_iff.mp h1
      exact ⟨ys, by simp [h2]⟩

theorem infix_append_right {α : Type} {l m : List α} (t : List α) (h : l <:+: m) : l <:+: m ++ t :=
  h.trans (List.prefix_append m t).isInfix

theorem pair_infix_of_getLast {α : Type} {l : List α} {x : α} (h : l.getLast? = some x) (z : α) :
    [x, z] <:+: l ++ [z] := by
  obtain ⟨ys, rfl⟩ := List.getLast?_eq_some_iff.mp h
  exact ⟨ys, [], by simp⟩

theorem head_le_of_pairwise {l : List (Rat × Rat)} {a : Rat × Rat} (h : l.head? = some a)
    (hp : (l.map Prod.fst).Pairwise (· < ·)) : ∀ x ∈ l, a.1 ≤ x.1 := by
  cases l with
  | nil => simp at h
  | cons b tl =>
    simp only [List.head?_cons, Option.some.injEq] at h
    subst h
    intro x hx
    simp only [List.map_cons, List.pairwise_cons] at hp
    rcases List.mem_cons.mp hx with rfl | hx
    · exact le_refl _
    · exact (hp.1 x.1 (List.mem_map_of_mem hx)).le

/-! ### One pass of the loop -/

section
variable (press : Rat → Rat) (propose : Nat → Rat → Rat → Rat → Rat → Rat → Rat)
  (vmin vmax stepMin stepMax : Rat) (only : Bool)

/-- the velocity `vw3` the loop wants to probe next (proposal clipped from below, lines 289-301) -/
def nextV (s : St) : Rat :=
  maxR (propose s.i s.vw1 s.vw2 s.p1 s.p2 (minR vmax (s.vw2 + stepMax))) (minR vmax (s.vw2 + stepMin))

/-- state after a pass that found a bracket with `onlySmallest` (break before the shift) -/
def pushed (s : St) : St :=
  { s with brackets := s.brackets ++ [(s.vw2, nextV propose vmax stepMin stepMax s)],
           probes := s.probes ++ [(nextV propose vmax stepMin stepMax s,
                                    press (nextV propose vmax stepMin stepMax s))] }

/-- state after a pass that goes on (`br` = the new list of brackets) -/
def shifted (br : List (Rat × Rat)) (s : St) : St :=
  { vw1 := s.vw2, vw2 := nextV propose vmax stepMin stepMax s, p1 := s.p2,
    p2 := press (nextV propose vmax stepMin stepMax s), i := s.i + 1, brackets := br,
    probes := s.probes ++ [(nextV propose vmax stepMin stepMax s,
                             press (nextV propose vmax stepMin stepMax s))] }

local notation "NV" => nextV propose vmax stepMin stepMax
local notation "STEP" => step press propose vmax stepMin stepMax only
local notation "LOOP" => loop press propose vmax stepMin stepMax only

/-- The four things one pass can do: (A) stop early, state untouched; (B) record a bracket and stop
(`onlySmallest`); (C1) record a bracket and go on; (C2) go on without a bracket. -/
theorem step_cases (s : St) :
    (NV s = vmax ∧ 0 < s.p2 ∧ STEP s = (s, false)) ∨
    (¬(NV s = vmax ∧ 0 < s.p2) ∧ 0 ≤ press (NV s) ∧ s.p2 ≤ 0 ∧ only = true ∧
        STEP s = (pushed press propose vmax stepMin stepMax s, false)) ∨
    (¬(NV s = vmax ∧ 0 < s.p2) ∧ 0 ≤ press (NV s) ∧ s.p2 ≤ 0 ∧ only = false ∧
        STEP s = (shifted press propose vmax stepMin stepMax (s.brackets ++ [(s.vw2, NV s)]) s, true)) ∨
    (¬(NV s = vmax ∧ 0 < s.p2) ∧ ¬(0 ≤ press (NV s) ∧ s.p2 ≤ 0) ∧
        STEP s = (shifted press propose vmax stepMin stepMax s.brackets s, true)) := by
  by_cases hA : NV s = vmax ∧ 0 < s.p2
  · left
    refine ⟨hA.1, hA.2, ?_⟩
    unfold step
    unfold nextV at hA
    simp only [gt_iff_lt]
    rw [if_pos hA]
  · right
    by_cases hF : 0 ≤ press (NV s) ∧ s.p2 ≤ 0
    · cases only
      · right; left
        refine ⟨hA, hF.1, hF.2, rfl, ?_⟩
        unfold step
        unfold nextV at hA hF
        simp only [gt_iff_lt, ge_iff_le]
        rw [if_neg hA]
        simp [hF, shifted, nextV]
      · left
        refine ⟨hA, hF.1, hF.2, rfl, ?_⟩
        unfold step
        unfold nextV at hA hF
        simp only [gt_iff_lt, ge_iff_le]
        rw [if_neg hA]
        simp [hF, pushed, nextV]
    · right; right
      refine ⟨hA, hF, ?_⟩
      unfold step
      unfold nextV at hA hF
      simp only [gt_iff_lt, ge_iff_le]
      rw [if_neg hA]
      simp [hF, shifted, nextV]

/-! ### Facts on `nextV` -/

theorem nextV_ge (s : St) : min vmax (s.vw2 + stepMin) ≤ NV s := by
  unfold nextV; rw [maxR_eq, minR_eq, minR_eq]; exact le_max_right _ _

theorem nextV_lo (s : St) : stepMin ≤ NV s - s.vw2 ∨ vmax ≤ NV s := by
  have h := nextV_ge propose vmax stepMin stepMax s
  rcases le_total vmax (s.vw2 + stepMin) with h1 | h1
  · right; rwa [min_eq_left h1] at h
  · left; rw [min_eq_right h1] at h; linarith

theorem nextV_gt (s : St) (h0 : 0 < stepMin) (hv : s.vw2 < vmax) : s.vw2 < NV s := by
  have h := nextV_ge propose vmax stepMin stepMax s
  have : s.vw2 < min vmax (s.vw2 + stepMin) := lt_min hv (by linarith)
  linarith

theorem nextV_le (s : St) (hP : ProposeLe propose) (h0 : 0 < stepMax) (hv : s.vw2 < vmax) : NV s ≤ vmax := by
  unfold nextV; rw [maxR_eq, minR_eq, minR_eq]
  have h1 : s.vw2 < min vmax (s.vw2 + stepMax) := lt_min hv (by linarith)
  have h2 := hP s.i s.vw1 s.vw2 s.p1 s.p2 _ h1
  exact max_le (h2.trans (min_le_left _ _)) (min_le_left _ _)

theorem nextV_sub_le (s : St) (hP : ProposeLe propose) (h0 : 0 < stepMax) (h01 : stepMin ≤ stepMax)
    (hv : s.vw2 < vmax) : NV s - s.vw2 ≤ stepMax := by
  unfold nextV; rw [maxR_eq, minR_eq, minR_eq]
  have h1 : s.vw2 < min vmax (s.vw2 + stepMax) := lt_min hv (by linarith)
  have h2 := hP s.i s.vw1 s.vw2 s.p1 s.p2 _ h1
  have h3 : max (propose s.i s.vw1 s.vw2 s.p1 s.p2 (min vmax (s.vw2 + stepMax))) (min vmax (s.vw2 + stepMin))
      ≤ s.vw2 + stepMax :=
    max_le (h2.trans (min_le_right _ _)) ((min_le_right _ _).trans (by linarith))
  linarith

/-! ### The loop invariant -/

/-- Invariant of the states from which the `while` loop goes on (after the initialisation and after every
pass that did not `break`). Hypothesis-dependent facts are stored as implications so that one preservation
proof serves all theorems. -/
structure Inv (s : St) : Prop where
  last : s.probes.getLast? = some (s.vw2, s.p2)
  len : s.probes.length = s.i + 1
  head : s.probes.head? = some (vmin, press vmin)
  graph : ∀ x ∈ s.probes, x.2 = press x.1
  sound : ∀ ab ∈ s.brackets, press ab.1 ≤ 0 ∧ 0 ≤ press ab.2 ∧
    [(ab.1, press ab.1), (ab.2, press ab.2)] <:+: s.probes
  complete : ∀ x y, [x, y] <:+: s.probes → x.2 ≤ 0 → 0 ≤ y.2 → (x.1, y.1) ∈ s.brackets
  onlyT : only = true → s.brackets = []
  neg : s.brackets = [] → press vmin ≤ 0 → s.p2 ≤ 0 ∧ (s.i ≠ 0 → s.p2 < 0)
  top : s.i ≠ 0 → s.brackets = [] → s.vw2 = vmax → s.p2 < 0
  prog : vmin + (s.i : Rat) * stepMin ≤ s.vw2 ∨ vmax ≤ s.vw2
  ilt : s.i ≠ 0 → vmin + ((s.i : Rat) - 1) * stepMin < vmax
  i0 : s.i = 0 → s.vw2 = vmin
  stepLo : ∀ x y, [x, y] <:+: s.probes → stepMin ≤ y.1 - x.1 ∨ vmax ≤ y.1
  below : 0 < stepMin → ∀ x ∈ s.probes, x.1 ≤ s.vw2
  incr : 0 < stepMin → (s.probes.map Prod.fst).Pairwise (· < ·)
  le : ProposeLe propose → 0 < stepMax → vmin ≤ vmax → s.vw2 ≤ vmax
  stepHi : ProposeLe propose → 0 < stepMax → stepMin ≤ stepMax →
    ∀ x y, [x, y] <:+: s.probes → y.1 - x.1 ≤ stepMax

/-- What is known about any state the loop returns (it may have stopped by `break` with `onlySmallest`,
in which case `vw2, p2` are not the last probe). -/
structure Post (r : St) : Prop where
  last : r.brackets = [] → r.probes.getLast? = some (r.vw2, r.p2)
  len : r.probes.length = r.i + 1 ∨ (r.probes.length = r.i + 2 ∧ r.vw2 < vmax)
  head : r.probes.head? = some (vmin, press vmin)
  graph : ∀ x ∈ r.probes, x.2 = press x.1
  sound : ∀ ab ∈ r.brackets, press ab.1 ≤ 0 ∧ 0 ≤ press ab.2 ∧
    [(ab.1, press ab.1), (ab.2, press ab.2)] <:+: r.probes
  complete : ∀ x y, [x, y] <:+: r.probes → x.2 ≤ 0 → 0 ≤ y.2 → (x.1, y.1) ∈ r.brackets
  onlyT : only = true → r.brackets = [] ∨ ∃ l a b, r.brackets = [(a, b)] ∧
    r.probes = l ++ [(a, press a), (b, press b)] ∧
    ∀ x y, [x, y] <:+: l ++ [(a, press a)] → ¬ (x.2 ≤ 0 ∧ 0 ≤ y.2)
  neg : r.brackets = [] → press vmin ≤ 0 → r.p2 ≤ 0 ∧ (r.i ≠ 0 → r.p2 < 0)
  top : r.i ≠ 0 → r.brackets = [] → r.vw2 = vmax → r.p2 < 0
  prog : vmin + (r.i : Rat) * stepMin ≤ r.vw2 ∨ vmax ≤ r.vw2
  ilt : r.i ≠ 0 → vmin + ((r.i : Rat) - 1) * stepMin < vmax
  i0 : r.i = 0 → r.vw2 = vmin
  stepLo : ∀ x y, [x, y] <:+: r.probes → stepMin ≤ y.1 - x.1 ∨ vmax ≤ y.1
  below : 0 < stepMin → r.brackets = [] → ∀ x ∈ r.probes, x.1 ≤ r.vw2
  incr : 0 < stepMin → (r.probes.map Prod.fst).Pairwise (· < ·)
  le : ProposeLe propose → 0 < stepMax → vmin ≤ vmax → r.vw2 ≤ vmax
  leAll : ProposeLe propose → 0 < stepMax → 0 < stepMin → vmin ≤ vmax → ∀ x ∈ r.probes, x.1 ≤ vmax
  stepHi : ProposeLe propose → 0 < stepMax → stepMin ≤ stepMax →
    ∀ x y, [x, y] <:+: r.probes → y.1 - x.1 ≤ stepMax

/-- the state before the first pass (lines 260-275) -/
def init : St :=
  { vw1 := 0, vw2 := vmin, p1 := press vmin, p2 := press vmin, i := 0, brackets := [],
    probes := [(vmin, press vmin)] }

local notation "INV" => Inv press propose vmin vmax stepMin stepMax only
local notation "POST" => Post press propose vmin vmax stepMin stepMax only

variable {press propose vmin vmax stepMin stepMax only}

/-- the invariant holds initially -/
theorem Inv.init : INV (init press vmin) where
  last := rfl
  len := rfl
  head := rfl
  graph := by simp [Lemmas.DetonScan.init]
  sound := by simp [Lemmas.DetonScan.init]
  complete := by
    intro x y h
    have := h.length_le
    simp [Lemmas.DetonScan.init] at this
  onlyT := fun _ => rfl
  neg := fun _ h => ⟨h, fun h0 => absurd rfl h0⟩
  top := fun h0 => absurd rfl h0
  prog := Or.inl (by simp [Lemmas.DetonScan.init])
  ilt := fun h0 => absurd rfl h0
  i0 := fun _ => rfl
  stepLo := by
    intro x y h
    have := h.length_le
    simp [Lemmas.DetonScan.init] at this
  below := by simp [Lemmas.DetonScan.init]
  incr := by simp [Lemmas.DetonScan.init]
  le := fun _ _ h => h
  stepHi := by
    intro _ _ _ x y h
    have := h.length_le
    simp [Lemmas.DetonScan.init] at this

/-- the invariant survives a pass that goes on (general form: any bracket list `br` that is sound and
complete for the extended probe list) -/
theorem Inv.shifted {s : St} (hI : INV s) (hv : s.vw2 < vmax) (br : List (Rat × Rat))
    (hA : ¬(nextV propose vmax stepMin stepMax s = vmax ∧ 0 < s.p2))
    (hbr : (br = s.brackets ∧ ¬(0 ≤ press (nextV propose vmax stepMin stepMax s) ∧ s.p2 ≤ 0)) ∨
      (br = s.brackets ++ [(s.vw2, nextV propose vmax stepMin stepMax s)] ∧ only = false ∧
        0 ≤ press (nextV propose vmax stepMin stepMax s) ∧ s.p2 ≤ 0)) :
    INV (shifted press propose vmax stepMin stepMax br s) := by
  have hp2 : s.p2 = press s.vw2 := by
    obtain ⟨ys, hys⟩ := List.getLast?_eq_some_iff.mp hI.last
    exact hI.graph (s.vw2, s.p2) (by rw [hys]; simp)
  have hsub : ∀ ab ∈ s.brackets, ab ∈ br := by
    intro ab hab
    rcases hbr with ⟨h, _⟩ | ⟨h, _⟩ <;> rw [h]
    · exact hab
    · exact List.mem_append_left _ hab
  refine
    { last := ?_, len := ?_, head := ?_, graph := ?_, sound := ?_, complete := ?_, onlyT := ?_, neg := ?_,
      top := ?_, prog := ?_, ilt := ?_, i0 := fun h => absurd h (Nat.succ_ne_zero _), stepLo := ?_, below := ?_,
      incr := ?_, le := ?_, stepHi := ?_ }
  · simp [Lemmas.DetonScan.shifted, nextV]
  · simp [Lemmas.DetonScan.shifted, hI.len]
  · simp [Lemmas.DetonScan.shifted, List.head?_append, hI.head]
  · intro x hx
    simp only [Lemmas.DetonScan.shifted, List.mem_append, List.mem_singleton] at hx
    rcases hx with hx | rfl
    · exact hI.graph x hx
    · rfl
  · intro ab hab
    simp only [Lemmas.DetonScan.shifted] at hab ⊢
    have hnew : ab = (s.vw2, (NV s)) → 0 ≤ press (NV s) → s.p2 ≤ 0 → press ab.1 ≤ 0 ∧ 0 ≤ press ab.2 ∧
        [(ab.1, press ab.1), (ab.2, press ab.2)] <:+: s.probes ++ [((NV s), press (NV s))] := by
      rintro rfl h1 h2
      refine ⟨by rw [← hp2]; exact h2, h1, ?_⟩
      have := pair_infix_of_getLast hI.last ((NV s), press (NV s))
      rwa [hp2] at this
    rcases hbr with ⟨h, _⟩ | ⟨h, _, h1, h2⟩
    · rw [h] at hab
      obtain ⟨a1, a2, a3⟩ := hI.sound ab hab
      exact ⟨a1, a2, infix_append_right _ a3⟩
    · rw [h, List.mem_append, List.mem_singleton] at hab
      rcases hab with hab | hab
      · obtain ⟨a1, a2, a3⟩ := hI.sound ab hab
        exact ⟨a1, a2, infix_append_right _ a3⟩
      · exact hnew hab h1 h2
  · intro x y hxy hx hy
    simp only [Lemmas.DetonScan.shifted] at hxy ⊢
    rcases (infix_pair_concat_iff _ _ _ _).mp hxy with h | ⟨h1, h2⟩
    · exact hsub _ (hI.complete x y h hx hy)
    · rw [hI.last] at h1
      have hx' : x = (s.vw2, s.p2) := (Option.some.inj h1).symm
      subst hx' h2
      rcases hbr with ⟨_, hn⟩ | ⟨h, _⟩
      · exact absurd ⟨hy, hx⟩ hn
      · rw [h]; simp
  · intro ho
    simp only [Lemmas.DetonScan.shifted]
    rcases hbr with ⟨h, _⟩ | ⟨_, h, _⟩
    · rw [h]; exact hI.onlyT ho
    · rw [ho] at h; exact absurd h (by simp)
  · intro hb h0
    simp only [Lemmas.DetonScan.shifted] at hb ⊢
    rcases hbr with ⟨h, hn⟩ | ⟨h, _⟩
    · rw [h] at hb
      have hle := (hI.neg hb h0).1
      have : press (NV s) < 0 := by
        by_contra hc
        exact hn ⟨not_lt.mp hc, hle⟩
      exact ⟨this.le, fun _ => this⟩
    · rw [h] at hb; simp at hb
  · intro _ hb hvm
    simp only [Lemmas.DetonScan.shifted] at hb hvm ⊢
    rcases hbr with ⟨h, hn⟩ | ⟨h, _⟩
    · have hle : s.p2 ≤ 0 := by
        by_contra hc
        exact hA ⟨hvm, not_le.mp hc⟩
      by_contra hc
      exact hn ⟨not_lt.mp hc, hle⟩
    · rw [h] at hb; simp at hb
  · simp only [Lemmas.DetonScan.shifted]
    have hlo := nextV_lo propose vmax stepMin stepMax s
    rcases hlo with h | h
    · rcases hI.prog with h' | h'
      · left; push_cast; linarith
      · exact absurd hv (not_lt.mpr h')
    · exact Or.inr h
  · intro _
    simp only [Lemmas.DetonScan.shifted]
    rcases hI.prog with h' | h'
    · push_cast; linarith
    · exact absurd hv (not_lt.mpr h')
  · intro x y hxy
    simp only [Lemmas.DetonScan.shifted] at hxy
    rcases (infix_pair_concat_iff _ _ _ _).mp hxy with h | ⟨h1, h2⟩
    · exact hI.stepLo x y h
    · rw [hI.last] at h1
      have hx' : x = (s.vw2, s.p2) := (Option.some.inj h1).symm
      subst hx' h2
      exact nextV_lo propose vmax stepMin stepMax s
  · intro h0 x hx
    simp only [Lemmas.DetonScan.shifted, List.mem_append, List.mem_singleton] at hx ⊢
    have hgt := nextV_gt propose vmax stepMin stepMax s h0 hv
    rcases hx with hx | rfl
    · exact (hI.below h0 x hx).trans hgt.le
    · exact le_refl _
  · intro h0
    simp only [Lemmas.DetonScan.shifted, List.map_append, List.map_cons, List.map_nil]
    rw [List.pairwise_append]
    refine ⟨hI.incr h0, by simp, ?_⟩
    intro a ha b hb
    have hgt := nextV_gt propose vmax stepMin stepMax s h0 hv
    obtain ⟨x, hx, rfl⟩ := List.mem_map.mp ha
    rw [List.mem_singleton] at hb
    rw [hb]
    exact lt_of_le_of_lt (hI.below h0 x hx) hgt
  · intro hP h0 _
    exact nextV_le propose vmax stepMin stepMax s hP h0 hv
  · intro hP h0 h01 x y hxy
    simp only [Lemmas.DetonScan.shifted] at hxy
    rcases (infix_pair_concat_iff _ _ _ _).mp hxy with h | ⟨h1, h2⟩
    · exact hI.stepHi hP h0 h01 x y h
    · rw [hI.last] at h1
      have hx' : x = (s.vw2, s.p2) := (Option.some.inj h1).symm
      subst hx' h2
      exact nextV_sub_le propose vmax stepMin stepMax s hP h0 h01 hv

/-- the invariant survives every pass after which the loop goes on; the pass counter goes up by one -/
theorem Inv.step_true {s : St} (hI : INV s) (hv : s.vw2 < vmax)
    (hgo : (step press propose vmax stepMin stepMax only s).2 = true) :
    INV (step press propose vmax stepMin stepMax only s).1 ∧
      (step press propose vmax stepMin stepMax only s).1.i = s.i + 1 := by
  rcases step_cases press propose vmax stepMin stepMax only s with
    ⟨_, _, h⟩ | ⟨_, _, _, _, h⟩ | ⟨hA, h1, h2, ho, h⟩ | ⟨hA, hn, h⟩
  · rw [h] at hgo; simp at hgo
  · rw [h] at hgo; simp at hgo
  · rw [h]
    exact ⟨hI.shifted hv _ hA (Or.inr ⟨rfl, ho, h1, h2⟩), rfl⟩
  · rw [h]
    exact ⟨hI.shifted hv _ hA (Or.inl ⟨rfl, hn⟩), rfl⟩

/-- a state satisfying the invariant satisfies the weaker description of returned states -/
theorem Inv.toPost {s : St} (hI : INV s) : POST s where
  last := fun _ => hI.last
  len := Or.inl hI.len
  head := hI.head
  graph := hI.graph
  sound := hI.sound
  complete := hI.complete
  onlyT := fun ho => Or.inl (hI.onlyT ho)
  neg := hI.neg
  top := hI.top
  prog := hI.prog
  ilt := hI.ilt
  i0 := hI.i0
  stepLo := hI.stepLo
  below := fun h0 _ => hI.below h0
  incr := hI.incr
  le := hI.le
  leAll := fun hP h0 h1 hm x hx => (hI.below h1 x hx).trans (hI.le hP h0 hm)
  stepHi := hI.stepHi

/-- the state returned by the `onlySmallest` break -/
theorem Inv.pushed {s : St} (hI : INV s) (hv : s.vw2 < vmax) (ho : only = true)
    (h1 : 0 ≤ press (nextV propose vmax stepMin stepMax s)) (h2 : s.p2 ≤ 0) :
    POST (pushed press propose vmax stepMin stepMax s) := by
  have hp2 : s.p2 = press s.vw2 := by
    obtain ⟨ys, hys⟩ := List.getLast?_eq_some_iff.mp hI.last
    exact hI.graph (s.vw2, s.p2) (by rw [hys]; simp)
  have hbr : s.brackets = [] := hI.onlyT ho
  refine
    { last := ?_, len := ?_, head := ?_, graph := ?_, sound := ?_, complete := ?_, onlyT := ?_, neg := ?_,
      top := ?_, prog := hI.prog, ilt := hI.ilt, i0 := hI.i0, stepLo := ?_, below := ?_, incr := ?_, le := hI.le,
      leAll := ?_, stepHi := ?_ }
  · intro h; simp [Lemmas.DetonScan.pushed] at h
  · right; exact ⟨by simp [Lemmas.DetonScan.pushed, hI.len], hv⟩
  · simp [Lemmas.DetonScan.pushed, List.head?_append, hI.head]
  · intro x hx
    simp only [Lemmas.DetonScan.pushed, List.mem_append, List.mem_singleton] at hx
    rcases hx with hx | rfl
    · exact hI.graph x hx
    · rfl
  · intro ab hab
    simp only [Lemmas.DetonScan.pushed, hbr, List.nil_append, List.mem_singleton] at hab ⊢
    subst hab
    refine ⟨by rw [← hp2]; exact h2, h1, ?_⟩
    have := pair_infix_of_getLast hI.last ((NV s), press (NV s))
    rwa [hp2] at this
  · intro x y hxy hx hy
    simp only [Lemmas.DetonScan.pushed] at hxy ⊢
    rcases (infix_pair_concat_iff _ _ _ _).mp hxy with h | ⟨h1', h2'⟩
    · exact List.mem_append_left _ (hI.complete x y h hx hy)
    · rw [hI.last] at h1'
      have hx' : x = (s.vw2, s.p2) := (Option.some.inj h1').symm
      subst hx' h2'
      simp
  · intro _
    right
    obtain ⟨ys, hys⟩ := List.getLast?_eq_some_iff.mp hI.last
    refine ⟨ys, s.vw2, (NV s), by simp [Lemmas.DetonScan.pushed, hbr], ?_, ?_⟩
    · simp [Lemmas.DetonScan.pushed, hys, hp2]
    · intro x y hxy hs
      rw [← hp2, ← hys] at hxy
      have := hI.complete x y hxy hs.1 hs.2
      rw [hbr] at this; simp at this
  · intro h; simp [Lemmas.DetonScan.pushed] at h
  · intro _ h; simp [Lemmas.DetonScan.pushed] at h
  · intro x y hxy
    simp only [Lemmas.DetonScan.pushed] at hxy
    rcases (infix_pair_concat_iff _ _ _ _).mp hxy with h | ⟨h1', h2'⟩
    · exact hI.stepLo x y h
    · rw [hI.last] at h1'
      have hx' : x = (s.vw2, s.p2) := (Option.some.inj h1').symm
      subst hx' h2'
      exact nextV_lo propose vmax stepMin stepMax s
  · intro _ h; simp [Lemmas.DetonScan.pushed] at h
  · intro h0
    simp only [Lemmas.DetonScan.pushed, List.map_append, List.map_cons, List.map_nil]
    rw [List.pairwise_append]
    refine ⟨hI.incr h0, by simp, ?_⟩
    intro a ha b hb
    have hgt := nextV_gt propose vmax stepMin stepMax s h0 hv
    obtain ⟨x, hx, rfl⟩ := List.mem_map.mp ha
    rw [List.mem_singleton] at hb
    rw [hb]
    exact lt_of_le_of_lt (hI.below h0 x hx) hgt
  · intro hP h0 h1' hm x hx
    simp only [Lemmas.DetonScan.pushed, List.mem_append, List.mem_singleton] at hx
    rcases hx with hx | rfl
    · exact (hI.below h1' x hx).trans (hI.le hP h0 hm)
    · exact nextV_le propose vmax stepMin stepMax s hP h0 hv
  · intro hP h0 h01 x y hxy
    simp only [Lemmas.DetonScan.pushed] at hxy
    rcases (infix_pair_concat_iff _ _ _ _).mp hxy with h | ⟨h1', h2'⟩
    · exact hI.stepHi hP h0 h01 x y h
    · rw [hI.last] at h1'
      have hx' : x = (s.vw2, s.p2) := (Option.some.inj h1').symm
      subst hx' h2'
      exact nextV_sub_le propose vmax stepMin stepMax s hP h0 h01 hv

/-- a state the loop returns has ended "on its own" (not by lack of fuel): the `while` condition failed, or the
early `break` of line 305 fired, or a bracket was recorded -/
def Term (propose : Nat → Rat → Rat → Rat → Rat → Rat → Rat) (vmax stepMin stepMax : Rat) (r : St) : Prop :=
  ¬ r.vw2 < vmax ∨ (r.vw2 < vmax ∧ nextV propose vmax stepMin stepMax r = vmax ∧ 0 < r.p2) ∨ r.brackets ≠ []

/-- the state returned by a pass that stops the loop -/
theorem Inv.step_false {s : St} (hI : INV s) (hv : s.vw2 < vmax)
    (hgo : (step press propose vmax stepMin stepMax only s).2 = false) :
    POST (step press propose vmax stepMin stepMax only s).1 ∧
      Term propose vmax stepMin stepMax (step press propose vmax stepMin stepMax only s).1 := by
  rcases step_cases press propose vmax stepMin stepMax only s with
    ⟨hA1, hA2, h⟩ | ⟨_, h1, h2, ho, h⟩ | ⟨_, _, _, _, h⟩ | ⟨_, _, h⟩
  · rw [h]; exact ⟨hI.toPost, Or.inr (Or.inl ⟨hv, hA1, hA2⟩)⟩
  · rw [h]
    refine ⟨hI.pushed hv ho h1 h2, Or.inr (Or.inr ?_)⟩
    simp [Lemmas.DetonScan.pushed]
  · rw [h] at hgo; simp at hgo
  · rw [h] at hgo; simp at hgo

/-! ### The loop -/

theorem loop_succ (f : Nat) (s : St) :
    loop press propose vmax stepMin stepMax only (f + 1) s =
      if s.vw2 < vmax then
        (if (step press propose vmax stepMin stepMax only s).2 then
          loop press propose vmax stepMin stepMax only f (step press propose vmax stepMin stepMax only s).1
         else (step press propose vmax stepMin stepMax only s).1)
      else s := rfl

theorem loop_of_not_lt (f : Nat) (s : St) (h : ¬ s.vw2 < vmax) :
    loop press propose vmax stepMin stepMax only f s = s := by
  cases f with
  | zero => rfl
  | succ f => rw [loop_succ, if_neg h]

/-- How a run of the loop can end: the state returned satisfies `Post`, and either it ended on its own
(`Term`) or the fuel ran out, in which case exactly `fuel` passes were made and it would go on. -/
theorem loop_cases : ∀ (f : Nat) (s : St), INV s →
    POST (loop press propose vmax stepMin stepMax only f s) ∧
      (Term propose vmax stepMin stepMax (loop press propose vmax stepMin stepMax only f s) ∨
        ((loop press propose vmax stepMin stepMax only f s).vw2 < vmax ∧
          (loop press propose vmax stepMin stepMax only f s).i = s.i + f))
  | 0, s, hI => by
    refine ⟨hI.toPost, ?_⟩
    by_cases h : s.vw2 < vmax
    · exact Or.inr ⟨h, rfl⟩
    · exact Or.inl (Or.inl h)
  | f + 1, s, hI => by
    rw [loop_succ]
    by_cases h : s.vw2 < vmax
    · rw [if_pos h]
      by_cases hgo : (step press propose vmax stepMin stepMax only s).2 = true
      · rw [if_pos hgo]
        obtain ⟨hI', hi⟩ := hI.step_true h hgo
        obtain ⟨hP, hT⟩ := loop_cases f _ hI'
        refine ⟨hP, ?_⟩
        rcases hT with hT | ⟨hT1, hT2⟩
        · exact Or.inl hT
        · exact Or.inr ⟨hT1, by rw [hT2, hi]; omega⟩
      · rw [if_neg hgo]
        obtain ⟨hP, hT⟩ := hI.step_false h (by simpa using hgo)
        exact ⟨hP, Or.inl hT⟩
    · rw [if_neg h]
      exact ⟨hI.toPost, Or.inl (Or.inl h)⟩

/-- with `fuel` large enough that `vmin + fuel * stepMin ≥ vmax`, the loop ends on its own -/
theorem loop_term (f : Nat) (s : St) (hI : INV s) (hf : vmax ≤ vmin + ((s.i + f : Nat) : Rat) * stepMin) :
    Term propose vmax stepMin stepMax (loop press propose vmax stepMin stepMax only f s) := by
  obtain ⟨hP, hT | ⟨h1, h2⟩⟩ := loop_cases f s hI
  · exact hT
  · exfalso
    rcases hP.prog with h | h
    · rw [h2] at h; linarith
    · linarith

/-- fuel independence: once `vmin + (i + f) * stepMin ≥ vmax`, more fuel changes nothing -/
theorem loop_stable : ∀ (f k : Nat) (s : St), INV s → vmax ≤ vmin + ((s.i + f : Nat) : Rat) * stepMin →
    loop press propose vmax stepMin stepMax only (f + k) s = loop press propose vmax stepMin stepMax only f s
  | 0, k, s, hI, hf => by
    have h : ¬ s.vw2 < vmax := by
      rcases hI.prog with h | h
      · simp only [Nat.add_zero] at hf; intro hc; linarith
      · exact not_lt.mpr h
    rw [loop_of_not_lt _ _ h, loop_of_not_lt _ _ h]
  | f + 1, k, s, hI, hf => by
    have e : f + 1 + k = (f + k) + 1 := by omega
    rw [e, loop_succ, loop_succ]
    by_cases h : s.vw2 < vmax
    · rw [if_pos h, if_pos h]
      by_cases hgo : (step press propose vmax stepMin stepMax only s).2 = true
      · rw [if_pos hgo, if_pos hgo]
        obtain ⟨hI', hi⟩ := hI.step_true h hgo
        apply loop_stable f k _ hI'
        rw [hi]
        have e2 : s.i + 1 + f = s.i + (f + 1) := by omega
        rw [e2]; exact hf
      · rw [if_neg hgo, if_neg hgo]
    · rw [if_neg h, if_neg h]

end

/-! ### `scan` -/

section
variable (press : Rat → Rat) (propose : Nat → Rat → Rat → Rat → Rat → Rat → Rat)
  (vmin vmax : Rat) (nMin nMax : Nat) (only : Bool) (fuel : Nat)

/-- the state with which the loop of `scan` ends -/
def final : St :=
  loop press propose vmax ((vmax - vmin) / ((nMax : Rat) - 1)) ((vmax - vmin) / ((nMin : Rat) - 1)) only fuel
    (init press vmin)

/-- the label computed at lines 345-379 -/
def labelOf (p0 : Rat) (r : St) : Label :=
  if r.brackets ≠ [] then Label.roots
  else if p0 > 0 ∧ 0 > r.p2 then Label.deflagrationOrRunaway
  else if p0 > 0 ∧ r.p2 > 0 then Label.deflagration
  else Label.runaway

theorem scan_eq : scan press propose vmin vmax nMin nMax only fuel =
    { label := labelOf (press vmin) (final press propose vmin vmax nMin nMax only fuel),
      brackets := (final press propose vmin vmax nMin nMax only fuel).brackets,
      probes := (final press propose vmin vmax nMin nMax only fuel).probes } := rfl

theorem scan_brackets : (scan press propose vmin vmax nMin nMax only fuel).brackets =
    (final press propose vmin vmax nMin nMax only fuel).brackets := rfl

theorem scan_probes : (scan press propose vmin vmax nMin nMax only fuel).probes =
    (final press propose vmin vmax nMin nMax only fuel).probes := rfl

theorem scan_label : (scan press propose vmin vmax nMin nMax only fuel).label =
    labelOf (press vmin) (final press propose vmin vmax nMin nMax only fuel) := rfl

theorem final_post : Post press propose vmin vmax ((vmax - vmin) / ((nMax : Rat) - 1))
    ((vmax - vmin) / ((nMin : Rat) - 1)) only (final press propose vmin vmax nMin nMax only fuel) :=
  (loop_cases fuel _ Inv.init).1

/-! ### Arithmetic of the step sizes -/

theorem stepMin_pos (h : vmin < vmax) (hn : 2 ≤ nMax) : 0 < (vmax - vmin) / ((nMax : Rat) - 1) := by
  have : (2 : Rat) ≤ nMax := by exact_mod_cast hn
  exact div_pos (by linarith) (by linarith)

theorem stepMin_le_stepMax (h : vmin < vmax) (hn : 2 ≤ nMin) (hnn : nMin ≤ nMax) :
    (vmax - vmin) / ((nMax : Rat) - 1) ≤ (vmax - vmin) / ((nMin : Rat) - 1) := by
  have h1 : (2 : Rat) ≤ nMin := by exact_mod_cast hn
  have h2 : (nMin : Rat) ≤ nMax := by exact_mod_cast hnn
  exact div_le_div_of_nonneg_left (by linarith) (by linarith) (by linarith)

/-- `vmin + (nMax - 1) * stepMin = vmax` -/
theorem top_reached (hn : 2 ≤ nMax) :
    vmin + ((nMax : Rat) - 1) * ((vmax - vmin) / ((nMax : Rat) - 1)) = vmax := by
  have : (2 : Rat) ≤ nMax := by exact_mod_cast hn
  have h0 : (nMax : Rat) - 1 ≠ 0 := by linarith
  field_simp
  ring

/-- below the top the pass counter is `< nMax - 1` -/
theorem count_lt (h : vmin < vmax) (hn : 2 ≤ nMax) (k : Rat)
    (hk : vmin + k * ((vmax - vmin) / ((nMax : Rat) - 1)) < vmax) : k < (nMax : Rat) - 1 := by
  have h2 : (2 : Rat) ≤ nMax := by exact_mod_cast hn
  have hpos := stepMin_pos vmin vmax nMax h hn
  have htop := top_reached vmin vmax nMax hn
  by_contra hc
  have hc' : (nMax : Rat) - 1 ≤ k := not_lt.mp hc
  have := mul_le_mul_of_nonneg_right hc' hpos.le
  linarith

theorem fuel_enough (h : vmin < vmax) (hn : 2 ≤ nMax) (hf : nMax ≤ fuel + 1) :
    vmax ≤ vmin + (((0 : Nat) + fuel : Nat) : Rat) * ((vmax - vmin) / ((nMax : Rat) - 1)) := by
  have hpos := stepMin_pos vmin vmax nMax h hn
  have htop := top_reached vmin vmax nMax hn
  have hf' : (nMax : Rat) ≤ (fuel : Rat) + 1 := by exact_mod_cast hf
  have : ((nMax : Rat) - 1) * ((vmax - vmin) / ((nMax : Rat) - 1)) ≤
      (fuel : Rat) * ((vmax - vmin) / ((nMax : Rat) - 1)) :=
    mul_le_mul_of_nonneg_right (by linarith) hpos.le
  simp only [Nat.zero_add]
  linarith

/-- enough fuel (`nMax ≤ fuel + 1`): the scan ended on its own -/
theorem final_term (h : vmin < vmax) (hn : 2 ≤ nMax) (hf : nMax ≤ fuel + 1) :
    Term propose vmax ((vmax - vmin) / ((nMax : Rat) - 1)) ((vmax - vmin) / ((nMin : Rat) - 1))
      (final press propose vmin vmax nMin nMax only fuel) :=
  loop_term fuel _ Inv.init (fuel_enough vmin vmax nMax fuel h hn hf)

/-- fuel independence of the final state -/
theorem final_stable (h : vmin < vmax) (hn : 2 ≤ nMax) (hf : nMax ≤ fuel + 1) :
    final press propose vmin vmax nMin nMax only fuel =
      final press propose vmin vmax nMin nMax only (nMax - 1) := by
  obtain ⟨k, rfl⟩ : ∃ k, fuel = (nMax - 1) + k := ⟨fuel - (nMax - 1), by omega⟩
  unfold final
  apply loop_stable (nMax - 1) k _ Inv.init
  exact fuel_enough vmin vmax nMax (nMax - 1) h hn (by omega)

end

/-! ### Concrete instances (for the non-vacuity examples and the witnesses of `Props/C01D.lean`) -/

/-- proposal: midpoint of `(pos2, posMax]` -/
def propMid : Nat → Rat → Rat → Rat → Rat → Rat → Rat := fun _ _ v2 _ _ posMax => (v2 + posMax) / 2
/-- proposal: always `posMax` (largest allowed step) -/
def propTop : Nat → Rat → Rat → Rat → Rat → Rat → Rat := fun _ _ _ _ _ posMax => posMax
/-- proposal: `pos2` itself (violates the strict lower half of `ProposeOK`, satisfies `ProposeLe`): the loop then
always takes the smallest step -/
def propLow : Nat → Rat → Rat → Rat → Rat → Rat → Rat := fun _ _ v2 _ _ _ => v2
/-- a proposal that violates the contract: it always answers `2`, beyond any `posMax ≤ 1` -/
def propOver : Nat → Rat → Rat → Rat → Rat → Rat → Rat := fun _ _ _ _ _ _ => 2

theorem propMid_ok : ProposeOK propMid := by
  intro i v1 v2 p1 p2 posMax h
  unfold propMid
  constructor <;> linarith

theorem propTop_ok : ProposeOK propTop := fun _ _ _ _ _ _ h => ⟨h, le_refl _⟩

theorem propLow_le : ProposeLe propLow := fun _ _ _ _ _ _ h => h.le

theorem propOver_not_ok : ¬ ProposeLe propOver := by
  intro h
  have := h 0 0 0 0 0 1 (by norm_num)
  unfold propOver at this
  norm_num at this

/-- pressure rising through a single stable root at `7/10` -/
def pressLin : Rat → Rat := fun v => v - 7 / 10
/-- pressure with roots at `13/20` (unstable), `3/4` (stable), `17/20` (unstable); positive at `6/10` -/
def pressCubic : Rat → Rat := fun v => (v - 13 / 20) * (v - 3 / 4) * (17 / 20 - v)
/-- pressure with stable roots at `13/20` and `17/20` and an unstable one at `3/4`; negative at `6/10` -/
def pressCubicNeg : Rat → Rat := fun v => (v - 13 / 20) * (v - 3 / 4) * (v - 17 / 20)
/-- pressure positive everywhere -/
def pressPos : Rat → Rat := fun _ => 1
/-- pressure negative everywhere -/
def pressNeg : Rat → Rat := fun _ => -1
/-- pressure falling through an unstable root at `3/4` -/
def pressDown : Rat → Rat := fun v => 3 / 4 - v
/-- pressure `1` everywhere except exactly `0` at `v = 2` -/
def pressSpike : Rat → Rat := fun v => if v = 2 then 0 else 1

end Lemmas.DetonScan
