/-
Lemmas for property C20 (thermal one-loop integrals `J_b`, `J_f` of
`src/WallGo/PotentialTools/integrals.py` and the thermal sum of
`effectivePotentialNoResum.py::potentialOneLoopThermal`).

Part A: the six integrand classmethods are the real / imaginary parts of the defining complex
        integrands (principal square root and logarithm) — regulator-free versions, plus the exact
        effect of the `SMALL_NUMBER = 1e-100` regulator.
Part B: the thermal sum `Model.Thermal.oneLoopThermal` at `α = ℝ`.
-/
import Mathlib.Analysis.SpecialFunctions.Complex.Arg
import Mathlib.Analysis.SpecialFunctions.Complex.Log
import Mathlib.Analysis.SpecialFunctions.Pow.Real
import Mathlib.Analysis.SpecialFunctions.Trigonometric.Arctan
import Mathlib.Analysis.SpecialFunctions.Trigonometric.ArctanDeriv
import Mathlib.Analysis.Calculus.MeanValue
import Mathlib.Tactic
import WallGoVerif.Gen.R.Integrals
import WallGoVerif.Model.Thermal

namespace Lemmas.Thermal

open Real

/-! ## Part A.0  generic complex facts -/

/-- For `Re z > 0` the principal argument is `arctan (Im z / Re z)`. -/
theorem arg_eq_arctan_of_re_pos {z : ℂ} (hz : 0 < z.re) : z.arg = Real.arctan (z.im / z.re) := by
  have h := Complex.abs_arg_lt_pi_div_two_iff.2 (Or.inl hz)
  rw [abs_lt] at h
  rw [← Complex.tan_arg, Real.arctan_tan h.1 h.2]

/-- Principal square root of a negative real: `√r = i·√(-r)` (as the complex power `r^(1/2)`). -/
theorem cpow_half_of_neg {r : ℝ} (hr : r < 0) :
    ((r : ℂ)) ^ ((1 / 2 : ℂ)) = (Real.sqrt (-r) : ℂ) * Complex.I := by
  rw [Complex.ofReal_cpow_of_nonpos hr.le]
  have h1 : (-(r : ℂ)) ^ ((1 / 2 : ℂ)) = (Real.sqrt (-r) : ℂ) := by
    rw [Real.sqrt_eq_rpow, Complex.ofReal_cpow (by linarith : (0 : ℝ) ≤ -r)]
    push_cast; rfl
  have h2 : Complex.exp (↑π * Complex.I * (1 / 2 : ℂ)) = Complex.I := by
    rw [show (↑π * Complex.I * (1 / 2 : ℂ)) = ↑π / 2 * Complex.I by ring]
    exact Complex.exp_pi_div_two_mul_I
  rw [h1, h2]

/-- Principal square root of a non-negative real is the real square root. -/
theorem cpow_half_of_nonneg {r : ℝ} (hr : 0 ≤ r) :
    ((r : ℂ)) ^ ((1 / 2 : ℂ)) = (Real.sqrt r : ℂ) := by
  rw [Real.sqrt_eq_rpow, Complex.ofReal_cpow hr]
  push_cast; rfl

theorem exp_neg_mul_I_re (θ : ℝ) : (Complex.exp (-(θ : ℂ) * Complex.I)).re = Real.cos θ := by
  rw [← Complex.ofReal_neg, Complex.exp_ofReal_mul_I_re, Real.cos_neg]

theorem exp_neg_mul_I_im (θ : ℝ) : (Complex.exp (-(θ : ℂ) * Complex.I)).im = -Real.sin θ := by
  rw [← Complex.ofReal_neg, Complex.exp_ofReal_mul_I_im, Real.sin_neg]

theorem cos_eq_half (θ : ℝ) : Real.cos θ = 1 - 2 * Real.sin (θ / 2) ^ 2 := by
  have := Real.cos_two_mul (θ / 2)
  have h2 := Real.sin_sq_add_cos_sq (θ / 2)
  rw [show 2 * (θ / 2) = θ by ring] at this
  nlinarith

theorem cos_eq_half' (θ : ℝ) : Real.cos θ = 2 * Real.cos (θ / 2) ^ 2 - 1 := by
  have := Real.cos_two_mul (θ / 2)
  rwa [show 2 * (θ / 2) = θ by ring] at this

theorem sin_eq_half (θ : ℝ) : Real.sin θ = 2 * Real.sin (θ / 2) * Real.cos (θ / 2) := by
  have := Real.sin_two_mul (θ / 2)
  rwa [show 2 * (θ / 2) = θ by ring] at this

/-! ## Part A.1  bosonic: `z = 1 - e^{-iθ}` -/

/-- `1 - e^{-iθ}`: the argument of the logarithm in the `J_b` integrand where `√(y²+x) = iθ`. -/
noncomputable def zB (θ : ℝ) : ℂ := 1 - Complex.exp (-(θ : ℂ) * Complex.I)

theorem zB_re (θ : ℝ) : (zB θ).re = 2 * Real.sin (θ / 2) ^ 2 := by
  simp only [zB, Complex.sub_re, Complex.one_re, exp_neg_mul_I_re, cos_eq_half θ]; ring

theorem zB_im (θ : ℝ) : (zB θ).im = 2 * Real.sin (θ / 2) * Real.cos (θ / 2) := by
  simp only [zB, Complex.sub_im, Complex.one_im, exp_neg_mul_I_im, sin_eq_half θ]; ring

theorem norm_zB (θ : ℝ) : ‖zB θ‖ = 2 * |Real.sin (θ / 2)| := by
  have h : ‖zB θ‖ ^ 2 = (2 * |Real.sin (θ / 2)|) ^ 2 := by
    rw [Complex.sq_norm, Complex.normSq_apply, zB_re, zB_im, mul_pow, sq_abs]
    have := Real.sin_sq_add_cos_sq (θ / 2)
    nlinarith [sq_nonneg (Real.sin (θ / 2))]
  exact (sq_eq_sq₀ (norm_nonneg _) (by positivity)).1 h

theorem zB_eq_zero_iff (θ : ℝ) : zB θ = 0 ↔ Real.sin (θ / 2) = 0 := by
  rw [← norm_eq_zero, norm_zB]; simp

/-- **Real part (bosons).** `Re log(1 - e^{-iθ}) = log(2|sin(θ/2)|)` — no side condition (at
`sin(θ/2) = 0`, where the integrand is singular, both sides are Mathlib's `log 0 = 0`). -/
theorem log_zB_re (θ : ℝ) : (Complex.log (zB θ)).re = Real.log (2 * |Real.sin (θ / 2)|) := by
  rw [Complex.log_re, norm_zB]

/-- **Imaginary part (bosons).** `Im log(1 - e^{-iθ}) = arg(1 - e^{-iθ}) = arctan(1/tan(θ/2))`.
Holds for every `θ`: for `cos(θ/2) = 0` Mathlib's `tan = 0`, `1/0 = 0` and indeed `z = 2 > 0` has
argument `0`; for `sin(θ/2) = 0` (`z = 0`, singular point of the integrand) both sides are `0` by
convention only. -/
theorem log_zB_im (θ : ℝ) :
    (Complex.log (zB θ)).im = Real.arctan (1 / Real.tan (θ / 2)) := by
  rw [Complex.log_im]
  by_cases hs : Real.sin (θ / 2) = 0
  · rw [(zB_eq_zero_iff θ).2 hs]
    simp [Real.tan_eq_sin_div_cos, hs]
  · have hre : 0 < (zB θ).re := by rw [zB_re]; positivity
    rw [arg_eq_arctan_of_re_pos hre, zB_re, zB_im, Real.tan_eq_sin_div_cos, one_div_div]
    congr 1
    field_simp

/-! ## Part A.2  fermionic: `w = 1 + e^{-iθ}` -/

/-- `1 + e^{-iθ}`: the argument of the logarithm in the `J_f` integrand where `√(y²+x) = iθ`. -/
noncomputable def zF (θ : ℝ) : ℂ := 1 + Complex.exp (-(θ : ℂ) * Complex.I)

theorem zF_re (θ : ℝ) : (zF θ).re = 2 * Real.cos (θ / 2) ^ 2 := by
  simp only [zF, Complex.add_re, Complex.one_re, exp_neg_mul_I_re, cos_eq_half' θ]; ring

theorem zF_im (θ : ℝ) : (zF θ).im = -(2 * Real.sin (θ / 2) * Real.cos (θ / 2)) := by
  simp only [zF, Complex.add_im, Complex.one_im, exp_neg_mul_I_im, sin_eq_half θ]; ring

theorem norm_zF (θ : ℝ) : ‖zF θ‖ = 2 * |Real.cos (θ / 2)| := by
  have h : ‖zF θ‖ ^ 2 = (2 * |Real.cos (θ / 2)|) ^ 2 := by
    rw [Complex.sq_norm, Complex.normSq_apply, zF_re, zF_im, mul_pow, sq_abs]
    have := Real.sin_sq_add_cos_sq (θ / 2)
    nlinarith [sq_nonneg (Real.cos (θ / 2))]
  exact (sq_eq_sq₀ (norm_nonneg _) (by positivity)).1 h

theorem zF_eq_zero_iff (θ : ℝ) : zF θ = 0 ↔ Real.cos (θ / 2) = 0 := by
  rw [← norm_eq_zero, norm_zF]; simp

/-- **Real part (fermions).** `Re log(1 + e^{-iθ}) = log(2|cos(θ/2)|)`. -/
theorem log_zF_re (θ : ℝ) : (Complex.log (zF θ)).re = Real.log (2 * |Real.cos (θ / 2)|) := by
  rw [Complex.log_re, norm_zF]

/-- **Imaginary part (fermions).** `Im log(1 + e^{-iθ}) = -arctan(tan(θ/2))` (every `θ`; at
`cos(θ/2) = 0`, the singular point `w = 0`, both sides are `0` by convention). -/
theorem log_zF_im (θ : ℝ) :
    (Complex.log (zF θ)).im = -Real.arctan (Real.tan (θ / 2)) := by
  rw [Complex.log_im]
  by_cases hc : Real.cos (θ / 2) = 0
  · rw [(zF_eq_zero_iff θ).2 hc]
    simp [Real.tan_eq_sin_div_cos, hc]
  · have hre : 0 < (zF θ).re := by rw [zF_re]; positivity
    rw [arg_eq_arctan_of_re_pos hre, zF_re, zF_im, Real.tan_eq_sin_div_cos, ← Real.arctan_neg]
    congr 1
    field_simp

/-! ## Part A.3  regulator-free integrands and the defining complex integrands -/

/-- `θ(x,y) = √(-y² - x)`, the modulus of the imaginary square root where `y² + x < 0`. -/
noncomputable def theta (x y : ℝ) : ℝ := Real.sqrt (-(y ^ 2) - x)

/-- the generated integrands with `SMALL_NUMBER` replaced by `0`. -/
noncomputable def JbPosRe0 (x y : ℝ) : ℝ := y ^ 2 * Real.log (1 - Real.exp (-Real.sqrt (y ^ 2 + x)))
noncomputable def JbNegRe0 (x y : ℝ) : ℝ :=
  y ^ 2 * Real.log (2 * |Real.sin ((1 / 2 : ℝ) * Real.sqrt (-(y ^ 2) - x))|)
noncomputable def JbNegIm0 (x y : ℝ) : ℝ :=
  y ^ 2 * Real.arctan (1 / Real.tan ((1 / 2 : ℝ) * Real.sqrt (-(y ^ 2) - x)))
noncomputable def JfPosRe0 (x y : ℝ) : ℝ :=
  -(y ^ 2) * Real.log (1 + Real.exp (-Real.sqrt (y ^ 2 + x)))
noncomputable def JfNegRe0 (x y : ℝ) : ℝ :=
  -(y ^ 2) * Real.log (2 * |Real.cos ((1 / 2 : ℝ) * Real.sqrt (-(y ^ 2) - x))|)
noncomputable def JfNegIm0 (x y : ℝ) : ℝ :=
  y ^ 2 * Real.arctan (Real.tan ((1 / 2 : ℝ) * Real.sqrt (-(y ^ 2) - x)))

/-- The defining complex integrand of `J_b`: `y² log(1 - exp(-√(y²+x)))`, principal `√` and `log`. -/
noncomputable def JbC (x y : ℝ) : ℂ :=
  (y : ℂ) ^ 2 * Complex.log (1 - Complex.exp (-(((y ^ 2 + x : ℝ) : ℂ) ^ ((1 / 2 : ℂ)))))

/-- The defining complex integrand of `J_f`: `-y² log(1 + exp(-√(y²+x)))`. -/
noncomputable def JfC (x y : ℝ) : ℂ :=
  -(y : ℂ) ^ 2 * Complex.log (1 + Complex.exp (-(((y ^ 2 + x : ℝ) : ℂ) ^ ((1 / 2 : ℂ)))))

theorem JbC_of_neg {x y : ℝ} (h : y ^ 2 + x < 0) :
    JbC x y = (y : ℂ) ^ 2 * Complex.log (zB (theta x y)) := by
  unfold JbC zB theta
  rw [cpow_half_of_neg h, show -(y ^ 2 + x) = -(y ^ 2) - x by ring, neg_mul]

theorem JfC_of_neg {x y : ℝ} (h : y ^ 2 + x < 0) :
    JfC x y = -(y : ℂ) ^ 2 * Complex.log (zF (theta x y)) := by
  unfold JfC zF theta
  rw [cpow_half_of_neg h, show -(y ^ 2 + x) = -(y ^ 2) - x by ring]
  simp only [neg_mul]

theorem ofReal_sq_mul_re (y : ℝ) (w : ℂ) : ((y : ℂ) ^ 2 * w).re = y ^ 2 * w.re := by
  rw [← Complex.ofReal_pow, Complex.re_ofReal_mul]

theorem ofReal_sq_mul_im (y : ℝ) (w : ℂ) : ((y : ℂ) ^ 2 * w).im = y ^ 2 * w.im := by
  rw [← Complex.ofReal_pow, Complex.im_ofReal_mul]

/-- T20.1(a), real part. -/
theorem JbC_re_of_neg {x y : ℝ} (h : y ^ 2 + x < 0) : (JbC x y).re = JbNegRe0 x y := by
  rw [JbC_of_neg h, ofReal_sq_mul_re, log_zB_re, JbNegRe0, theta]
  rw [show Real.sqrt (-(y ^ 2) - x) / 2 = 1 / 2 * Real.sqrt (-(y ^ 2) - x) by ring]

/-- T20.1(a), imaginary part. -/
theorem JbC_im_of_neg {x y : ℝ} (h : y ^ 2 + x < 0) : (JbC x y).im = JbNegIm0 x y := by
  rw [JbC_of_neg h, ofReal_sq_mul_im, log_zB_im, JbNegIm0, theta]
  rw [show Real.sqrt (-(y ^ 2) - x) / 2 = 1 / 2 * Real.sqrt (-(y ^ 2) - x) by ring]

/-- T20.1(b), real part. -/
theorem JfC_re_of_neg {x y : ℝ} (h : y ^ 2 + x < 0) : (JfC x y).re = JfNegRe0 x y := by
  rw [JfC_of_neg h, ← neg_mul_eq_neg_mul, Complex.neg_re, ofReal_sq_mul_re, log_zF_re, JfNegRe0,
    theta]
  rw [show Real.sqrt (-(y ^ 2) - x) / 2 = 1 / 2 * Real.sqrt (-(y ^ 2) - x) by ring]
  ring

/-- T20.1(b), imaginary part: the code's `+y² arctan(tan(θ/2))` is `Im(-y² log w)`. -/
theorem JfC_im_of_neg {x y : ℝ} (h : y ^ 2 + x < 0) : (JfC x y).im = JfNegIm0 x y := by
  rw [JfC_of_neg h, ← neg_mul_eq_neg_mul, Complex.neg_im, ofReal_sq_mul_im, log_zF_im, JfNegIm0,
    theta]
  rw [show Real.sqrt (-(y ^ 2) - x) / 2 = 1 / 2 * Real.sqrt (-(y ^ 2) - x) by ring]
  ring

/-- T20.1(c): for `y² + x ≥ 0` the defining integrand is real and equals the positive-branch one. -/
theorem JbC_of_nonneg {x y : ℝ} (h : 0 ≤ y ^ 2 + x) : JbC x y = (JbPosRe0 x y : ℂ) := by
  unfold JbC JbPosRe0
  rw [cpow_half_of_nonneg h]
  have h1 : (0 : ℝ) ≤ 1 - Real.exp (-Real.sqrt (y ^ 2 + x)) := by
    have : Real.exp (-Real.sqrt (y ^ 2 + x)) ≤ 1 :=
      Real.exp_le_one_iff.2 (neg_nonpos.2 (Real.sqrt_nonneg _))
    linarith
  push_cast
  rw [Complex.ofReal_log h1]
  push_cast
  rfl

theorem JfC_of_nonneg {x y : ℝ} (h : 0 ≤ y ^ 2 + x) : JfC x y = (JfPosRe0 x y : ℂ) := by
  unfold JfC JfPosRe0
  rw [cpow_half_of_nonneg h]
  have h1 : (0 : ℝ) ≤ 1 + Real.exp (-Real.sqrt (y ^ 2 + x)) := by positivity
  push_cast
  rw [Complex.ofReal_log h1]
  push_cast
  rfl

/-- T20.1(d): for `x < 0`, `y ≥ 0` the radicand is negative exactly below the split point `√|x|`. -/
theorem split_point {x y : ℝ} (hx : x < 0) (hy : 0 ≤ y) : y ^ 2 + x < 0 ↔ y < Real.sqrt |x| := by
  rw [abs_of_neg hx, Real.lt_sqrt hy]
  constructor <;> intro h <;> linarith

/-! ## Part A.4  the `SMALL_NUMBER = 1e-100` regulator of the generated integrands -/

/-- `SMALL_NUMBER` of `JbIntegral` / `JfIntegral`. -/
noncomputable def eps : ℝ := 1 / 10 ^ 100

theorem eps_pos : 0 < eps := by unfold eps; positivity

theorem eps_lit : (1 / 10000000000000000000000000000000000000000000000000000000000000000000000000000000000000000000000000000 : ℝ) = eps := by
  unfold eps; norm_num

open Gen.R.Integrals

/-- unfolding lemmas: the generated integrands are the regulator-free ones with `+ eps` inserted. -/
theorem JbPositiveReal_eq (x y : ℝ) :
    JbPositiveReal x y = y ^ 2 * Real.log (1 - Real.exp (-Real.sqrt (y ^ 2 + x)) + eps) := by
  rw [← eps_lit]; rfl

theorem JbNegativeReal_eq (x y : ℝ) :
    JbNegativeReal x y
      = y ^ 2 * Real.log (2 * |Real.sin ((1 / 2 : ℝ) * Real.sqrt (-(y ^ 2) - x))| + eps) := by
  rw [← eps_lit]; rfl

theorem JbNegativeImaginary_eq (x y : ℝ) :
    JbNegativeImaginary x y
      = y ^ 2 * Real.arctan (1 / (Real.tan ((1 / 2 : ℝ) * Real.sqrt (-(y ^ 2) - x)) + eps)) := by
  rw [← eps_lit]; rfl

theorem JfPositiveReal_eq (x y : ℝ) :
    JfPositiveReal x y = -(y ^ 2) * Real.log (1 + Real.exp (-Real.sqrt (y ^ 2 + x)) + eps) := by
  rw [← eps_lit]; rfl

theorem JfNegativeReal_eq (x y : ℝ) :
    JfNegativeReal x y
      = -(y ^ 2) * Real.log (2 * |Real.cos ((1 / 2 : ℝ) * Real.sqrt (-(y ^ 2) - x))| + eps) := by
  rw [← eps_lit]; rfl

theorem JfNegativeImaginary_eq (x y : ℝ) :
    JfNegativeImaginary x y
      = y ^ 2 * Real.arctan (Real.tan ((1 / 2 : ℝ) * Real.sqrt (-(y ^ 2) - x)) + eps) := by
  rw [← eps_lit]; rfl

/-- `log (a + e) - log a = log (1 + e / a)` and it lies in `[0, e / a]` (`a > 0`, `e ≥ 0`). -/
theorem log_add_sub_log {a e : ℝ} (ha : 0 < a) (he : 0 ≤ e) :
    Real.log (a + e) - Real.log a = Real.log (1 + e / a) ∧
      0 ≤ Real.log (1 + e / a) ∧ Real.log (1 + e / a) ≤ e / a := by
  have hq : 0 ≤ e / a := div_nonneg he ha.le
  refine ⟨?_, Real.log_nonneg (by linarith), ?_⟩
  · rw [← Real.log_div (by positivity) ha.ne']
    congr 1; field_simp
  · have := Real.log_le_sub_one_of_pos (show 0 < 1 + e / a by linarith)
    linarith

/-- `arctan` is 1-Lipschitz. -/
theorem abs_arctan_sub_le (a b : ℝ) : |Real.arctan a - Real.arctan b| ≤ |a - b| := by
  have hb : ∀ x ∈ (Set.univ : Set ℝ), ‖deriv Real.arctan x‖ ≤ 1 := by
    intro x _
    rw [Real.deriv_arctan, Real.norm_eq_abs, abs_of_nonneg (by positivity)]
    rw [div_le_one (by positivity)]
    nlinarith [sq_nonneg x]
  have := Convex.norm_image_sub_le_of_norm_deriv_le (f := Real.arctan) (s := Set.univ) (C := 1)
    (fun x _ => Real.differentiableAt_arctan x) hb convex_univ (Set.mem_univ b) (Set.mem_univ a)
  simpa [Real.norm_eq_abs] using this

/-- Regulator effect, bosons, real part on the negative branch (exact): off the singular points
`sin(θ/2) = 0` the generated integrand exceeds the clean one by `y² log(1 + eps/(2|sin(θ/2)|))`,
which lies in `[0, y²·eps/(2|sin(θ/2)|)]`. -/
theorem JbNegativeReal_sub {x y : ℝ}
    (hs : Real.sin ((1 / 2 : ℝ) * Real.sqrt (-(y ^ 2) - x)) ≠ 0) :
    JbNegativeReal x y - JbNegRe0 x y
        = y ^ 2 * Real.log (1 + eps / (2 * |Real.sin ((1 / 2 : ℝ) * Real.sqrt (-(y ^ 2) - x))|)) ∧
      |JbNegativeReal x y - JbNegRe0 x y|
        ≤ y ^ 2 * (eps / (2 * |Real.sin ((1 / 2 : ℝ) * Real.sqrt (-(y ^ 2) - x))|)) := by
  have ha : 0 < 2 * |Real.sin ((1 / 2 : ℝ) * Real.sqrt (-(y ^ 2) - x))| := by positivity
  obtain ⟨h1, h2, h3⟩ := log_add_sub_log ha eps_pos.le
  have hd : JbNegativeReal x y - JbNegRe0 x y
      = y ^ 2 * Real.log (1 + eps / (2 * |Real.sin ((1 / 2 : ℝ) * Real.sqrt (-(y ^ 2) - x))|)) := by
    rw [JbNegativeReal_eq, JbNegRe0, ← mul_sub, h1]
  refine ⟨hd, ?_⟩
  rw [hd, abs_of_nonneg (mul_nonneg (sq_nonneg y) h2)]
  exact mul_le_mul_of_nonneg_left h3 (sq_nonneg y)

/-- Regulator effect, bosons, positive branch (exact), for `y² + x > 0`. -/
theorem JbPositiveReal_sub {x y : ℝ} (h : 0 < y ^ 2 + x) :
    JbPositiveReal x y - JbPosRe0 x y
        = y ^ 2 * Real.log (1 + eps / (1 - Real.exp (-Real.sqrt (y ^ 2 + x)))) ∧
      |JbPositiveReal x y - JbPosRe0 x y|
        ≤ y ^ 2 * (eps / (1 - Real.exp (-Real.sqrt (y ^ 2 + x)))) := by
  have ha : 0 < 1 - Real.exp (-Real.sqrt (y ^ 2 + x)) := by
    have : Real.exp (-Real.sqrt (y ^ 2 + x)) < 1 :=
      Real.exp_lt_one_iff.2 (neg_lt_zero.2 (Real.sqrt_pos.2 h))
    linarith
  obtain ⟨h1, h2, h3⟩ := log_add_sub_log ha eps_pos.le
  have hd : JbPositiveReal x y - JbPosRe0 x y
      = y ^ 2 * Real.log (1 + eps / (1 - Real.exp (-Real.sqrt (y ^ 2 + x)))) := by
    rw [JbPositiveReal_eq, JbPosRe0, ← mul_sub, h1]
  refine ⟨hd, ?_⟩
  rw [hd, abs_of_nonneg (mul_nonneg (sq_nonneg y) h2)]
  exact mul_le_mul_of_nonneg_left h3 (sq_nonneg y)

/-- Regulator effect, fermions, positive branch: uniformly at most `y²·eps` (no side condition). -/
theorem JfPositiveReal_sub (x y : ℝ) : |JfPositiveReal x y - JfPosRe0 x y| ≤ y ^ 2 * eps := by
  have ha : 0 < 1 + Real.exp (-Real.sqrt (y ^ 2 + x)) := by positivity
  obtain ⟨h1, h2, h3⟩ := log_add_sub_log ha eps_pos.le
  have hd : JfPositiveReal x y - JfPosRe0 x y
      = -(y ^ 2 * Real.log (1 + eps / (1 + Real.exp (-Real.sqrt (y ^ 2 + x))))) := by
    rw [JfPositiveReal_eq, JfPosRe0, ← h1]; ring
  rw [hd, abs_neg, abs_of_nonneg (mul_nonneg (sq_nonneg y) h2)]
  refine mul_le_mul_of_nonneg_left (h3.trans ?_) (sq_nonneg y)
  rw [div_le_iff₀ ha]
  nlinarith [eps_pos, Real.exp_pos (-Real.sqrt (y ^ 2 + x))]

/-- Regulator effect, fermions, real part on the negative branch (off `cos(θ/2) = 0`). -/
theorem JfNegativeReal_sub {x y : ℝ}
    (hc : Real.cos ((1 / 2 : ℝ) * Real.sqrt (-(y ^ 2) - x)) ≠ 0) :
    JfNegativeReal x y - JfNegRe0 x y
        = -(y ^ 2 * Real.log (1 + eps / (2 * |Real.cos ((1 / 2 : ℝ) * Real.sqrt (-(y ^ 2) - x))|))) ∧
      |JfNegativeReal x y - JfNegRe0 x y|
        ≤ y ^ 2 * (eps / (2 * |Real.cos ((1 / 2 : ℝ) * Real.sqrt (-(y ^ 2) - x))|)) := by
  have ha : 0 < 2 * |Real.cos ((1 / 2 : ℝ) * Real.sqrt (-(y ^ 2) - x))| := by positivity
  obtain ⟨h1, h2, h3⟩ := log_add_sub_log ha eps_pos.le
  have hd : JfNegativeReal x y - JfNegRe0 x y
      = -(y ^ 2 * Real.log (1 + eps / (2 * |Real.cos ((1 / 2 : ℝ) * Real.sqrt (-(y ^ 2) - x))|))) := by
    rw [JfNegativeReal_eq, JfNegRe0, ← h1]; ring
  refine ⟨hd, ?_⟩
  rw [hd, abs_neg, abs_of_nonneg (mul_nonneg (sq_nonneg y) h2)]
  exact mul_le_mul_of_nonneg_left h3 (sq_nonneg y)

/-- Regulator effect, fermions, imaginary part: uniformly at most `y²·eps`. -/
theorem JfNegativeImaginary_sub (x y : ℝ) :
    |JfNegativeImaginary x y - JfNegIm0 x y| ≤ y ^ 2 * eps := by
  rw [JfNegativeImaginary_eq, JfNegIm0, ← mul_sub, abs_mul, abs_of_nonneg (sq_nonneg y)]
  refine mul_le_mul_of_nonneg_left ((abs_arctan_sub_le _ _).trans ?_) (sq_nonneg y)
  rw [add_sub_cancel_left, abs_of_pos eps_pos]

/-- Regulator effect, bosons, imaginary part: with `t = tan(θ/2)`, `t ≠ 0`, `t + eps ≠ 0`, at most
`y²·eps/|t (t+eps)|`.  (Not uniform: for `t ∈ (-eps, 0)` the regulated `arctan(1/(t+eps))` has the
opposite sign of `arctan(1/t)`; that window has width `1e-100`.) -/
theorem JbNegativeImaginary_sub {x y : ℝ}
    (ht : Real.tan ((1 / 2 : ℝ) * Real.sqrt (-(y ^ 2) - x)) ≠ 0)
    (ht' : Real.tan ((1 / 2 : ℝ) * Real.sqrt (-(y ^ 2) - x)) + eps ≠ 0) :
    |JbNegativeImaginary x y - JbNegIm0 x y|
      ≤ y ^ 2 * (eps / |Real.tan ((1 / 2 : ℝ) * Real.sqrt (-(y ^ 2) - x)) *
          (Real.tan ((1 / 2 : ℝ) * Real.sqrt (-(y ^ 2) - x)) + eps)|) := by
  rw [JbNegativeImaginary_eq, JbNegIm0, ← mul_sub, abs_mul, abs_of_nonneg (sq_nonneg y)]
  refine mul_le_mul_of_nonneg_left ((abs_arctan_sub_le _ _).trans ?_) (sq_nonneg y)
  generalize Real.tan ((1 / 2 : ℝ) * Real.sqrt (-(y ^ 2) - x)) = t at ht ht'
  have : 1 / (t + eps) - 1 / t = -eps / (t * (t + eps)) := by field_simp; ring
  rw [this, abs_div, abs_neg, abs_of_pos eps_pos]

/-! ## Part B  the thermal sum `Model.Thermal.oneLoopThermal` over `ℝ` -/

section sum
open Model.Thermal

theorem foldl_add_eq (l : List ℝ) (a : ℝ) : l.foldl (· + ·) a = a + l.sum := by
  induction l generalizing a with
  | nil => simp
  | cons b l ih => simp [List.foldl_cons, ih, add_assoc]

theorem sum_eq (l : List ℝ) : Model.Thermal.sum (0 : ℝ) l = l.sum := by
  unfold Model.Thermal.sum; rw [foldl_add_eq, zero_add]

/-- the weighted sum `Σ n·J(m²/(T²+small))` over a particle list. -/
noncomputable def wsum (small T : ℝ) (J : ℝ → ℝ) (ps : List (ℝ × ℝ)) : ℝ :=
  (ps.map (fun p => p.2 * J (thermalArg small T p.1))).sum

/-- The real-number instance of the model (`zero := 0, two := 2, pi := π`). -/
noncomputable def VT (small : ℝ) (Jb Jf : ℝ → ℝ) (T : ℝ) (bosons fermions : List (ℝ × ℝ)) : ℝ :=
  oneLoopThermal (0 : ℝ) 2 Real.pi small Jb Jf T bosons fermions

theorem VT_eq (small : ℝ) (Jb Jf : ℝ → ℝ) (T : ℝ) (bs fs : List (ℝ × ℝ)) :
    VT small Jb Jf T bs fs
      = (wsum small T Jb bs + wsum small T Jf fs) * T ^ 4 / (2 * Real.pi ^ 2) := by
  unfold VT oneLoopThermal wsum
  simp only [sum_eq]
  ring

theorem thermalArg_zero (small T : ℝ) : thermalArg small T (0 : ℝ) = 0 := by
  unfold thermalArg; simp

theorem wsum_massless (small T : ℝ) (J : ℝ → ℝ) (ps : List (ℝ × ℝ)) (h0 : ∀ p ∈ ps, p.1 = 0) :
    wsum small T J ps = (ps.map Prod.snd).sum * J 0 := by
  unfold wsum
  induction ps with
  | nil => simp
  | cons p ps ih =>
    have hp : p.1 = 0 := h0 p (by simp)
    have := ih (fun q hq => h0 q (by simp [hq]))
    simp only [List.map_cons, List.sum_cons, this, hp, thermalArg_zero]
    ring

theorem wsum_append (small T : ℝ) (J : ℝ → ℝ) (ps qs : List (ℝ × ℝ)) :
    wsum small T J (ps ++ qs) = wsum small T J ps + wsum small T J qs := by
  unfold wsum; simp

theorem wsum_scale (small T : ℝ) (J : ℝ → ℝ) (c : ℝ) (ps : List (ℝ × ℝ)) :
    wsum small T J (ps.map (fun p => (p.1, c * p.2))) = c * wsum small T J ps := by
  unfold wsum
  induction ps with
  | nil => simp
  | cons p ps ih =>
    simp only [List.map_cons, List.sum_cons] at ih ⊢
    rw [ih]; ring

/-- Massless particles: only `J(0)` enters, for any regulator `small` and any temperature. -/
theorem VT_massless (small : ℝ) (Jb Jf : ℝ → ℝ) (T : ℝ) (bs fs : List (ℝ × ℝ))
    (hb : ∀ p ∈ bs, p.1 = 0) (hf : ∀ p ∈ fs, p.1 = 0) :
    VT small Jb Jf T bs fs
      = ((bs.map Prod.snd).sum * Jb 0 + (fs.map Prod.snd).sum * Jf 0) * T ^ 4 / (2 * Real.pi ^ 2) := by
  rw [VT_eq, wsum_massless _ _ _ _ hb, wsum_massless _ _ _ _ hf]

/-- Stefan–Boltzmann: with `J_b(0) = -π⁴/45`, `J_f(0) = -7π⁴/360` the massless thermal potential is
`-(π²/90)(N_b + 7/8 N_f) T⁴`. -/
theorem VT_stefan_boltzmann (small : ℝ) (Jb Jf : ℝ → ℝ) (T : ℝ) (bs fs : List (ℝ × ℝ))
    (hb : ∀ p ∈ bs, p.1 = 0) (hf : ∀ p ∈ fs, p.1 = 0)
    (hJb : Jb 0 = -Real.pi ^ 4 / 45) (hJf : Jf 0 = -7 * Real.pi ^ 4 / 360) :
    VT small Jb Jf T bs fs
      = -(Real.pi ^ 2 / 90) * ((bs.map Prod.snd).sum + 7 / 8 * (fs.map Prod.snd).sum) * T ^ 4 := by
  rw [VT_massless _ _ _ _ _ _ hb hf, hJb, hJf]
  have hpi : Real.pi ≠ 0 := Real.pi_ne_zero
  field_simp
  ring

/-- Additivity over the particle content. -/
theorem VT_append (small : ℝ) (Jb Jf : ℝ → ℝ) (T : ℝ) (bs bs' fs fs' : List (ℝ × ℝ)) :
    VT small Jb Jf T (bs ++ bs') (fs ++ fs')
      = VT small Jb Jf T bs fs + VT small Jb Jf T bs' fs' := by
  simp only [VT_eq, wsum_append]; ring

/-- Homogeneity in the degrees of freedom. -/
theorem VT_scale (small : ℝ) (Jb Jf : ℝ → ℝ) (T c : ℝ) (bs fs : List (ℝ × ℝ)) :
    VT small Jb Jf T (bs.map (fun p => (p.1, c * p.2))) (fs.map (fun p => (p.1, c * p.2)))
      = c * VT small Jb Jf T bs fs := by
  simp only [VT_eq, wsum_scale]; ring

theorem VT_nil (small : ℝ) (Jb Jf : ℝ → ℝ) (T : ℝ) : VT small Jb Jf T [] [] = 0 := by
  simp [VT_eq, wsum]

/-- Continuity of the weighted sum when masses (and temperature) depend continuously on a
parameter, as long as `T² + small` does not vanish. -/
theorem continuous_wsum {X : Type*} [TopologicalSpace X] (small : ℝ) (J : ℝ → ℝ) (hJ : Continuous J)
    (T : X → ℝ) (hT : Continuous T) (hne : ∀ t, T t * T t + small ≠ 0) :
    ∀ (ps : List ((X → ℝ) × ℝ)), (∀ p ∈ ps, Continuous p.1) →
      Continuous fun t => wsum small (T t) J (ps.map (fun p => (p.1 t, p.2)))
  | [], _ => by simp [wsum]; exact continuous_const
  | p :: ps, hp => by
      have ih := continuous_wsum small J hJ T hT hne ps (fun q hq => hp q (by simp [hq]))
      have h1 : Continuous p.1 := hp p (by simp)
      have : Continuous fun t => p.2 * J (thermalArg small (T t) (p.1 t)) := by
        unfold thermalArg
        exact continuous_const.mul (hJ.comp (h1.div ((hT.mul hT).add continuous_const) hne))
      have h2 : Continuous fun t => p.2 * J (thermalArg small (T t) (p.1 t))
          + wsum small (T t) J (ps.map (fun p => (p.1 t, p.2))) := this.add ih
      simpa [wsum] using h2

/-- **Continuity in masses and temperature.** -/
theorem continuous_VT {X : Type*} [TopologicalSpace X] (small : ℝ) (Jb Jf : ℝ → ℝ)
    (hJb : Continuous Jb) (hJf : Continuous Jf)
    (T : X → ℝ) (hT : Continuous T) (hne : ∀ t, T t * T t + small ≠ 0)
    (bs fs : List ((X → ℝ) × ℝ)) (hb : ∀ p ∈ bs, Continuous p.1) (hf : ∀ p ∈ fs, Continuous p.1) :
    Continuous fun t => VT small Jb Jf (T t)
      (bs.map (fun p => (p.1 t, p.2))) (fs.map (fun p => (p.1 t, p.2))) := by
  simp only [VT_eq]
  exact ((((continuous_wsum small Jb hJb T hT hne bs hb).add
    (continuous_wsum small Jf hJf T hT hne fs hf)).mul (hT.pow 4)).div_const _)

/-- With the code's positive regulator the denominator never vanishes. -/
theorem denom_ne_zero {small : ℝ} (hs : 0 < small) (T : ℝ) : T * T + small ≠ 0 := by
  nlinarith [mul_self_nonneg T]

/-- one species, continuity in its mass squared (fixed `T`; no condition on `T` is needed because
division by a constant is continuous even if that constant is `0`). -/
theorem continuous_VT_single_boson (small : ℝ) (Jb Jf : ℝ → ℝ) (hJb : Continuous Jb) (T n : ℝ) :
    Continuous fun m => VT small Jb Jf T [(m, n)] [] := by
  simp only [VT_eq, wsum, thermalArg, List.map_cons, List.map_nil, List.sum_cons, List.sum_nil]
  fun_prop

theorem continuous_VT_single_fermion (small : ℝ) (Jb Jf : ℝ → ℝ) (hJf : Continuous Jf) (T n : ℝ) :
    Continuous fun m => VT small Jb Jf T [] [(m, n)] := by
  simp only [VT_eq, wsum, thermalArg, List.map_cons, List.map_nil, List.sum_cons, List.sum_nil]
  fun_prop

/-- Heavy-particle suppression for one boson: if `|J_b(x)| ≤ C e^{-√x}` for `x ≥ x₀`, then for
`m ≥ 0`, `m² ≥ x₀ T²`, `T > 0` (regulator `0`) its contribution is at most
`|n|·C·e^{-m/T}·T⁴/(2π²)`. -/
theorem VT_heavy_boson (Jb Jf : ℝ → ℝ) {C x0 : ℝ}
    (hdecay : ∀ x, x0 ≤ x → |Jb x| ≤ C * Real.exp (-Real.sqrt x))
    {T m n : ℝ} (hT : 0 < T) (hm : 0 ≤ m) (hheavy : x0 * T ^ 2 ≤ m ^ 2) :
    |VT 0 Jb Jf T [(m ^ 2, n)] []| ≤ |n| * C * Real.exp (-(m / T)) * T ^ 4 / (2 * Real.pi ^ 2) := by
  have harg : thermalArg (0 : ℝ) T (m ^ 2) = (m / T) ^ 2 := by
    unfold thermalArg; rw [add_zero, div_pow, pow_two T]
  have hx : x0 ≤ (m / T) ^ 2 := by
    rw [div_pow, le_div_iff₀ (by positivity)]; exact hheavy
  have hsqrt : Real.sqrt ((m / T) ^ 2) = m / T := Real.sqrt_sq (div_nonneg hm hT.le)
  have hJ := hdecay _ hx
  rw [hsqrt] at hJ
  simp only [VT_eq, wsum, List.map_cons, List.map_nil, List.sum_cons, List.sum_nil, harg, add_zero]
  have hpos : 0 < T ^ 4 / (2 * Real.pi ^ 2) := by positivity
  rw [mul_div_assoc, abs_mul, abs_mul, abs_of_pos hpos]
  rw [show |n| * C * Real.exp (-(m / T)) * T ^ 4 / (2 * Real.pi ^ 2)
      = |n| * (C * Real.exp (-(m / T))) * (T ^ 4 / (2 * Real.pi ^ 2)) by ring]
  exact mul_le_mul_of_nonneg_right (mul_le_mul_of_nonneg_left hJ (abs_nonneg n)) hpos.le

/-- Same for one fermion. -/
theorem VT_heavy_fermion (Jb Jf : ℝ → ℝ) {C x0 : ℝ}
    (hdecay : ∀ x, x0 ≤ x → |Jf x| ≤ C * Real.exp (-Real.sqrt x))
    {T m n : ℝ} (hT : 0 < T) (hm : 0 ≤ m) (hheavy : x0 * T ^ 2 ≤ m ^ 2) :
    |VT 0 Jb Jf T [] [(m ^ 2, n)]| ≤ |n| * C * Real.exp (-(m / T)) * T ^ 4 / (2 * Real.pi ^ 2) := by
  have harg : thermalArg (0 : ℝ) T (m ^ 2) = (m / T) ^ 2 := by
    unfold thermalArg; rw [add_zero, div_pow, pow_two T]
  have hx : x0 ≤ (m / T) ^ 2 := by
    rw [div_pow, le_div_iff₀ (by positivity)]; exact hheavy
  have hsqrt : Real.sqrt ((m / T) ^ 2) = m / T := Real.sqrt_sq (div_nonneg hm hT.le)
  have hJ := hdecay _ hx
  rw [hsqrt] at hJ
  simp only [VT_eq, wsum, List.map_cons, List.map_nil, List.sum_cons, List.sum_nil, harg, add_zero,
    zero_add]
  have hpos : 0 < T ^ 4 / (2 * Real.pi ^ 2) := by positivity
  rw [mul_div_assoc, abs_mul, abs_mul, abs_of_pos hpos]
  rw [show |n| * C * Real.exp (-(m / T)) * T ^ 4 / (2 * Real.pi ^ 2)
      = |n| * (C * Real.exp (-(m / T))) * (T ^ 4 / (2 * Real.pi ^ 2)) by ring]
  exact mul_le_mul_of_nonneg_right (mul_le_mul_of_nonneg_left hJ (abs_nonneg n)) hpos.le

end sum

end Lemmas.Thermal
