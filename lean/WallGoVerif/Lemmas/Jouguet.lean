/-
Helper lemmas for reasoning about `Model.Jouguet` (the bracket search of `Hydrodynamics.findJouguetVelocity`,
hydrodynamics.py:126-160) over the real numbers, with `zero := 0`, `two := 2`.

Contents
* `min2 = min`, `max2 = max` on `ℝ`;
* `Cond` (the `while` condition), `step` (the loop body), unfolding lemmas for `widen` and `search`;
* `widen_inv`: any predicate preserved by one loop step holds for the final window (induction on fuel);
* `tmax0` (first upper end, line 130) and `visit k` (the k-th temperature at which `f` can be evaluated:
  `Tn, tmax0, min(tmax0+Tn, TMaxHydro), min(tmax0+2Tn, TMaxHydro), …`);
* `Inv`: the loop invariant (stored residuals, window ends on the progression, strict equal signs on all earlier
  windows, all earlier upper ends strictly below the ceiling), and its consequences;
* fuel lemmas (`widen_add`, `widen_stop`, step-count bounds);
* `widen_congr`: the result depends on `f` only through its values at the visited temperatures;
* sign lemmas for products, intermediate value theorem for a product `≤ 0`; concrete functions used by the examples of `Props/C06J.lean`.
-/
import Mathlib.Tactic
import Mathlib.Data.Real.Basic
import Mathlib.Algebra.Order.Floor.Semiring
import Mathlib.Topology.Order.IntermediateValue
import Mathlib.Topology.Instances.Real.Lemmas
import WallGoVerif.Model.Jouguet

namespace Lemmas.Jouguet

open Model.Jouguet

/-! ### python `min`, `max` -/

theorem min2_eq (a b : ℝ) : min2 a b = min a b := by
  unfold min2; split_ifs with h
  · exact (min_eq_right h.le).symm
  · exact (min_eq_left (not_lt.mp h)).symm

theorem max2_eq (a b : ℝ) : max2 a b = max a b := by
  unfold max2; split_ifs with h
  · exact (max_eq_right h.le).symm
  · exact (max_eq_left (not_lt.mp h)).symm

/-! ### sign lemmas -/

theorem mul_pos_trans {a b c : ℝ} (h1 : 0 < a * b) (h2 : 0 < b * c) : 0 < a * c := by
  rcases mul_pos_iff.mp h1 with ⟨ha, hb⟩ | ⟨ha, hb⟩ <;> rcases mul_pos_iff.mp h2 with ⟨hb', hc⟩ | ⟨hb', hc⟩
  · exact mul_pos ha hc
  · linarith
  · linarith
  · exact mul_pos_of_neg_of_neg ha hc

theorem mul_nonpos_trans {a b c : ℝ} (h1 : 0 < a * b) (h2 : b * c ≤ 0) : a * c ≤ 0 := by
  rcases mul_pos_iff.mp h1 with ⟨ha, hb⟩ | ⟨ha, hb⟩ <;> rcases mul_nonpos_iff.mp h2 with ⟨hb', hc⟩ | ⟨hb', hc⟩
  · exact mul_nonpos_of_nonneg_of_nonpos ha.le hc
  · linarith
  · linarith
  · exact mul_nonpos_of_nonpos_of_nonneg ha.le hc

/-- intermediate value theorem in the form needed here: a product of end values `≤ 0` gives a root -/
theorem exists_root_of_mul_nonpos {f : ℝ → ℝ} {a b : ℝ} (hab : a ≤ b) (hf : ContinuousOn f (Set.Icc a b))
    (h : f a * f b ≤ 0) : ∃ x ∈ Set.Icc a b, f x = 0 := by
  rcases mul_nonpos_iff.mp h with ⟨h1, h2⟩ | ⟨h1, h2⟩
  · obtain ⟨x, hx, hfx⟩ := intermediate_value_Icc' hab hf ⟨h2, h1⟩
    exact ⟨x, hx, hfx⟩
  · obtain ⟨x, hx, hfx⟩ := intermediate_value_Icc hab hf ⟨h1, h2⟩
    exact ⟨x, hx, hfx⟩

/-! ### the loop: condition, body, unfolding -/

/-- the `while` condition `bracket1 * bracket2 > 0 and Tmax < TMaxHydro` (line 133) -/
def Cond (TH : ℝ) (w : Win ℝ) : Prop := 0 < w.b1 * w.b2 ∧ w.tmax < TH

/-- the loop body (lines 134-136) -/
def step (f : ℝ → ℝ) (Tn TH : ℝ) (w : Win ℝ) : Win ℝ :=
  { tmin := w.tmax, tmax := min (w.tmax + Tn) TH, b1 := f w.tmax, b2 := f (min (w.tmax + Tn) TH),
    steps := w.steps + 1 }

variable {f g : ℝ → ℝ} {Tn TL TH : ℝ} {w : Win ℝ}

@[simp] theorem widen_zero : widen f 0 Tn TH 0 w = w := rfl

theorem widen_succ_pos {n : ℕ} (h : Cond TH w) :
    widen f 0 Tn TH (n + 1) w = widen f 0 Tn TH n (step f Tn TH w) := by
  have h' : 0 < w.b1 * w.b2 ∧ w.tmax < TH := h
  rw [widen, if_pos h']; simp only [min2_eq, step]

theorem widen_succ_neg {n : ℕ} (h : ¬ Cond TH w) : widen f 0 Tn TH (n + 1) w = w := by
  have h' : ¬ (0 < w.b1 * w.b2 ∧ w.tmax < TH) := h
  rw [widen, if_neg h']

theorem widen_of_not_cond (h : ¬ Cond TH w) (n : ℕ) : widen f 0 Tn TH n w = w := by
  cases n with
  | zero => rfl
  | succ n => exact widen_succ_neg h

/-- **Invariant principle.** A predicate that holds for the initial window and is preserved by one execution of the
loop body (under the loop condition) holds for the window the loop ends with, for every fuel. -/
theorem widen_inv (P : Win ℝ → Prop) (hstep : ∀ w, P w → Cond TH w → P (step f Tn TH w)) :
    ∀ (fuel : ℕ) (w : Win ℝ), P w → P (widen f 0 Tn TH fuel w)
  | 0, _, h => h
  | n + 1, w, h => by
    by_cases hc : Cond TH w
    · rw [widen_succ_pos hc]; exact widen_inv P hstep n _ (hstep w h hc)
    · rw [widen_succ_neg hc]; exact h

theorem widen_add : ∀ (a b : ℕ) (w : Win ℝ),
    widen f 0 Tn TH (a + b) w = widen f 0 Tn TH b (widen f 0 Tn TH a w)
  | 0, b, w => by simp
  | a + 1, b, w => by
    by_cases hc : Cond TH w
    · rw [show a + 1 + b = (a + b) + 1 by omega, widen_succ_pos hc, widen_succ_pos hc]
      exact widen_add a b _
    · rw [show a + 1 + b = (a + b) + 1 by omega, widen_succ_neg hc, widen_succ_neg hc,
        widen_of_not_cond hc]

theorem steps_le_widen : ∀ (fuel : ℕ) (w : Win ℝ), w.steps ≤ (widen f 0 Tn TH fuel w).steps
  | 0, _ => le_rfl
  | n + 1, w => by
    by_cases hc : Cond TH w
    · rw [widen_succ_pos hc]
      exact le_trans (Nat.le_succ _) (steps_le_widen n (step f Tn TH w))
    · rw [widen_succ_neg hc]

theorem widen_steps_le : ∀ (fuel : ℕ) (w : Win ℝ), (widen f 0 Tn TH fuel w).steps ≤ w.steps + fuel
  | 0, _ => le_rfl
  | n + 1, w => by
    by_cases hc : Cond TH w
    · rw [widen_succ_pos hc]
      have := widen_steps_le n (step f Tn TH w)
      simp only [step] at this ⊢; omega
    · rw [widen_succ_neg hc]; omega

/-- if the loop used fewer steps than the fuel allows, it stopped because its condition became false -/
theorem widen_stop : ∀ (fuel : ℕ) (w : Win ℝ),
    (widen f 0 Tn TH fuel w).steps < w.steps + fuel → ¬ Cond TH (widen f 0 Tn TH fuel w)
  | 0, w, h => by simp at h
  | n + 1, w, h => by
    by_cases hc : Cond TH w
    · rw [widen_succ_pos hc] at h ⊢
      apply widen_stop n
      simp only [step] at h ⊢; omega
    · rw [widen_succ_neg hc]; exact hc

/-! ### the temperatures that can be visited -/

/-- first upper end `min(max(2*Tn, TMaxLowT), TMaxHydro)` (line 130) -/
def tmax0 (Tn TL TH : ℝ) : ℝ := min (max (2 * Tn) TL) TH

/-- `visit 0 = Tn`, `visit (k+1) = min(tmax0 + k*Tn, TMaxHydro)` -/
def visit (Tn TL TH : ℝ) : ℕ → ℝ
  | 0 => Tn
  | k + 1 => min (tmax0 Tn TL TH + k * Tn) TH

@[simp] theorem visit_zero : visit Tn TL TH 0 = Tn := rfl
theorem visit_succ (k : ℕ) : visit Tn TL TH (k + 1) = min (tmax0 Tn TL TH + k * Tn) TH := rfl
theorem visit_one : visit Tn TL TH 1 = tmax0 Tn TL TH := by
  simp [visit_succ, tmax0]

theorem tmax0_le : tmax0 Tn TL TH ≤ TH := min_le_right _ _

theorem visit_succ_le (k : ℕ) : visit Tn TL TH (k + 1) ≤ TH := min_le_right _ _

theorem visit_succ_lt_iff (k : ℕ) : visit Tn TL TH (k + 1) < TH ↔ tmax0 Tn TL TH + k * Tn < TH := by
  simp [visit_succ]

theorem visit_succ_eq_of_lt {k : ℕ} (h : visit Tn TL TH (k + 1) < TH) :
    visit Tn TL TH (k + 1) = tmax0 Tn TL TH + k * Tn := by
  rw [visit_succ] at h ⊢
  exact min_eq_left (le_of_lt ((min_lt_iff.mp h).resolve_right (lt_irrefl _)))

theorem tn_lt_tmax0_iff (hTn : 0 < Tn) : Tn < tmax0 Tn TL TH ↔ Tn < TH := by
  unfold tmax0
  rw [lt_min_iff]
  constructor
  · exact fun h => h.2
  · exact fun h => ⟨lt_of_lt_of_le (by linarith) (le_max_left _ _), h⟩

/-! ### initial and final window; `search` unfolded -/

/-- window before the loop (lines 129-132) -/
def init (f : ℝ → ℝ) (Tn TL TH : ℝ) : Win ℝ :=
  { tmin := Tn, tmax := tmax0 Tn TL TH, b1 := f Tn, b2 := f (tmax0 Tn TL TH), steps := 0 }

/-- window after the loop -/
noncomputable def final (f : ℝ → ℝ) (Tn TL TH : ℝ) (fuel : ℕ) : Win ℝ := widen f 0 Tn TH fuel (init f Tn TL TH)

theorem search_fst (fuel : ℕ) : (search f 0 2 Tn TL TH fuel).1 = final f Tn TL TH fuel := by
  simp only [search, final, init, tmax0, min2_eq, max2_eq]

theorem search_snd (fuel : ℕ) : (search f 0 2 Tn TL TH fuel).2 =
    if (final f Tn TL TH fuel).b1 * (final f Tn TL TH fuel).b2 ≤ 0
    then Call.brentq Tn (final f Tn TL TH fuel).tmax else Call.secant Tn (final f Tn TL TH fuel).tmax := by
  simp only [search, final, init, tmax0, min2_eq, max2_eq]
  congr

theorem search_eq (fuel : ℕ) : search f 0 2 Tn TL TH fuel =
    (final f Tn TL TH fuel,
      if (final f Tn TL TH fuel).b1 * (final f Tn TL TH fuel).b2 ≤ 0
      then Call.brentq Tn (final f Tn TL TH fuel).tmax else Call.secant Tn (final f Tn TL TH fuel).tmax) := by
  exact Prod.ext (search_fst fuel) (search_snd fuel)

theorem call_brentq_iff (fuel : ℕ) (a b : ℝ) : (search f 0 2 Tn TL TH fuel).2 = .brentq a b ↔
    (final f Tn TL TH fuel).b1 * (final f Tn TL TH fuel).b2 ≤ 0 ∧ a = Tn ∧ b = (final f Tn TL TH fuel).tmax := by
  rw [search_snd]
  split_ifs with hP
  · simp only [Call.brentq.injEq, hP, true_and]
    exact ⟨fun h => ⟨h.1.symm, h.2.symm⟩, fun h => ⟨h.1.symm, h.2.symm⟩⟩
  · simp only [hP, false_and]

theorem call_secant_iff (fuel : ℕ) (a b : ℝ) : (search f 0 2 Tn TL TH fuel).2 = .secant a b ↔
    0 < (final f Tn TL TH fuel).b1 * (final f Tn TL TH fuel).b2 ∧ a = Tn ∧ b = (final f Tn TL TH fuel).tmax := by
  rw [search_snd]
  split_ifs with hP
  · simp only [not_lt.mpr hP, false_and]
  · simp only [Call.secant.injEq, not_le.mp hP, true_and]
    exact ⟨fun h => ⟨h.1.symm, h.2.symm⟩, fun h => ⟨h.1.symm, h.2.symm⟩⟩

/-! ### the loop invariant -/

/-- Loop invariant: stored residuals belong to the window ends; the window is `[visit n, visit (n+1)]` with
`n = steps`; every earlier window had residuals of equal strict sign and an upper end strictly below the ceiling. -/
structure Inv (f : ℝ → ℝ) (Tn TL TH : ℝ) (w : Win ℝ) : Prop where
  b1 : w.b1 = f w.tmin
  b2 : w.b2 = f w.tmax
  tmin : w.tmin = visit Tn TL TH w.steps
  tmax : w.tmax = visit Tn TL TH (w.steps + 1)
  prev : ∀ k < w.steps, 0 < f (visit Tn TL TH k) * f (visit Tn TL TH (k + 1)) ∧ visit Tn TL TH (k + 1) < TH

theorem inv_init : Inv f Tn TL TH (init f Tn TL TH) where
  b1 := rfl
  b2 := rfl
  tmin := rfl
  tmax := by simp [init, visit_one]
  prev := by intro k hk; simp [init] at hk

theorem inv_step (h : Inv f Tn TL TH w) (hc : Cond TH w) : Inv f Tn TL TH (step f Tn TH w) where
  b1 := rfl
  b2 := rfl
  tmin := by simp only [step]; exact h.tmax
  tmax := by
    have hlt : visit Tn TL TH (w.steps + 1) < TH := h.tmax ▸ hc.2
    simp only [step]
    rw [h.tmax, visit_succ_eq_of_lt hlt, visit_succ (w.steps + 1)]
    push_cast; ring_nf
  prev := by
    intro k hk
    simp only [step] at hk
    rcases Nat.lt_succ_iff_lt_or_eq.mp hk with hk | rfl
    · exact h.prev k hk
    · refine ⟨?_, h.tmax ▸ hc.2⟩
      rw [← h.tmin, ← h.tmax, ← h.b1, ← h.b2]; exact hc.1

theorem inv_final (fuel : ℕ) : Inv f Tn TL TH (final f Tn TL TH fuel) :=
  widen_inv (Inv f Tn TL TH) (fun _ h hc => inv_step h hc) fuel _ inv_init

/-- all visited temperatures up to the lower end of the final window carry the strict sign of `f Tn` -/
theorem Inv.same_sign (h : Inv f Tn TL TH w) :
    ∀ k, 1 ≤ k → k ≤ w.steps → 0 < f Tn * f (visit Tn TL TH k)
  | 0, h0, _ => by omega
  | 1, _, h1 => (h.prev 0 (by omega)).1
  | k + 2, _, hk => mul_pos_trans (h.same_sign (k + 1) (by omega) (by omega)) (h.prev (k + 1) (by omega)).1

theorem Inv.fTn_ne_zero (h : Inv f Tn TL TH w) (hs : 0 < w.steps) : f Tn ≠ 0 := by
  have := (h.prev 0 hs).1
  intro h0; simp [h0] at this

theorem Inv.same_sign' (h : Inv f Tn TL TH w) (hs : 0 < w.steps) (k : ℕ) (hk : k ≤ w.steps) :
    0 < f Tn * f (visit Tn TL TH k) := by
  rcases Nat.eq_zero_or_pos k with rfl | hk0
  · exact mul_self_pos.mpr (h.fTn_ne_zero hs)
  · exact h.same_sign k hk0 hk

theorem Inv.start_or_sign (h : Inv f Tn TL TH w) : (w.steps = 0 ∧ w.tmin = Tn) ∨ 0 < f Tn * w.b1 := by
  rcases Nat.eq_zero_or_pos w.steps with h0 | hpos
  · left; exact ⟨h0, by rw [h.tmin, h0]; rfl⟩
  · right; rw [h.b1, h.tmin]; exact h.same_sign _ hpos le_rfl

theorem Inv.tmax_le (h : Inv f Tn TL TH w) : w.tmax ≤ TH := h.tmax ▸ visit_succ_le _

/-- if the last window shows no strict common sign, `[Tn, tmax]` is a valid bracket -/
theorem Inv.bracket (h : Inv f Tn TL TH w) (hb : w.b1 * w.b2 ≤ 0) : f Tn * f w.tmax ≤ 0 := by
  rcases h.start_or_sign with ⟨_, ht⟩ | hs
  · rw [← ht, ← h.b1, ← h.b2]; exact hb
  · rw [← h.b2]; exact mul_nonpos_trans hs hb

theorem Inv.tmin_eq_of_pos (h : Inv f Tn TL TH w) (hs : 0 < w.steps) :
    w.tmin = tmax0 Tn TL TH + (w.steps - 1 : ℕ) * Tn ∧ w.tmin < TH := by
  obtain ⟨m, hm⟩ : ∃ m, w.steps = m + 1 := ⟨w.steps - 1, by omega⟩
  have hlt := (h.prev m (by omega)).2
  rw [h.tmin, hm]
  exact ⟨by rw [visit_succ_eq_of_lt hlt]; simp, hlt⟩

theorem Inv.two_tn_le (h : Inv f Tn TL TH w) (hs : 0 < w.steps) :
    2 * Tn ≤ tmax0 Tn TL TH ∧ tmax0 Tn TL TH < TH := by
  have h0 := (h.prev 0 hs).2
  rw [visit_one] at h0
  refine ⟨?_, h0⟩
  unfold tmax0 at h0 ⊢
  rw [min_eq_left (le_of_lt ((min_lt_iff.mp h0).resolve_right (lt_irrefl _)))]
  exact le_max_left _ _

theorem Inv.tn_le_tmin (h : Inv f Tn TL TH w) (hTn : 0 ≤ Tn) : Tn ≤ w.tmin := by
  rcases Nat.eq_zero_or_pos w.steps with h0 | hpos
  · rw [h.tmin, h0]; rfl
  · have h2 := (h.two_tn_le hpos).1
    rw [(h.tmin_eq_of_pos hpos).1]
    have : (0 : ℝ) ≤ ((w.steps - 1 : ℕ) : ℝ) * Tn := mul_nonneg (Nat.cast_nonneg _) hTn
    linarith

theorem Inv.tmin_lt_tmax_of_pos (h : Inv f Tn TL TH w) (hTn : 0 < Tn) (hs : 0 < w.steps) : w.tmin < w.tmax := by
  obtain ⟨m, hm⟩ : ∃ m, w.steps = m + 1 := ⟨w.steps - 1, by omega⟩
  have hlt := (h.prev m (by omega)).2
  rw [h.tmin, h.tmax, hm, visit_succ (m + 1), lt_min_iff]
  refine ⟨?_, hlt⟩
  rw [visit_succ_eq_of_lt hlt]; push_cast; linarith

/-- step count: strict bound, needs `0 < Tn` only for `steps = 0` -/
theorem Inv.steps_bound (h : Inv f Tn TL TH w) (hTn : 0 < Tn) :
    (w.steps : ℝ) * Tn < (TH - tmax0 Tn TL TH) + Tn := by
  rcases Nat.eq_zero_or_pos w.steps with h0 | hpos
  · rw [h0]; have := tmax0_le (Tn := Tn) (TL := TL) (TH := TH); simp; linarith
  · obtain ⟨m, hm⟩ : ∃ m, w.steps = m + 1 := ⟨w.steps - 1, by omega⟩
    have hlt := (visit_succ_lt_iff m).mp (h.prev m (by omega)).2
    rw [hm]; push_cast; linarith

theorem Inv.steps_le_ceil (h : Inv f Tn TL TH w) (hTn : 0 < Tn) :
    w.steps ≤ ⌈(TH - tmax0 Tn TL TH) / Tn⌉₊ := by
  rcases Nat.eq_zero_or_pos w.steps with h0 | hpos
  · omega
  · obtain ⟨m, hm⟩ : ∃ m, w.steps = m + 1 := ⟨w.steps - 1, by omega⟩
    have hlt := (visit_succ_lt_iff m).mp (h.prev m (by omega)).2
    rw [hm, Nat.succ_le_iff, Nat.lt_ceil, lt_div_iff₀ hTn]
    linarith

/-! ### enough fuel -/

theorem final_not_cond (hTn : 0 < Tn) {fuel : ℕ} (hf : ⌈(TH - tmax0 Tn TL TH) / Tn⌉₊ + 1 ≤ fuel) :
    ¬ Cond TH (final f Tn TL TH fuel) := by
  apply widen_stop
  have := (inv_final (f := f) (Tn := Tn) (TL := TL) (TH := TH) fuel).steps_le_ceil hTn
  simp only [final, init] at this ⊢
  omega

theorem final_fuel_indep (hTn : 0 < Tn) {fuel : ℕ} (hf : ⌈(TH - tmax0 Tn TL TH) / Tn⌉₊ + 1 ≤ fuel) :
    final f Tn TL TH fuel = final f Tn TL TH (⌈(TH - tmax0 Tn TL TH) / Tn⌉₊ + 1) := by
  obtain ⟨m, rfl⟩ := Nat.exists_eq_add_of_le hf
  unfold final
  rw [widen_add]
  exact widen_of_not_cond (final_not_cond hTn le_rfl) m

/-! ### dependence on `f` only through the visited temperatures -/

theorem widen_congr : ∀ (fuel : ℕ) (w : Win ℝ), w.tmax = visit Tn TL TH (w.steps + 1) →
    (∀ k, w.steps + 1 ≤ k → k ≤ (widen f 0 Tn TH fuel w).steps + 1 →
      f (visit Tn TL TH k) = g (visit Tn TL TH k)) →
    widen g 0 Tn TH fuel w = widen f 0 Tn TH fuel w
  | 0, _, _, _ => rfl
  | n + 1, w, ht, hfg => by
    by_cases hc : Cond TH w
    · rw [widen_succ_pos hc] at hfg ⊢
      rw [widen_succ_pos hc]
      have hmono := steps_le_widen (f := f) (Tn := Tn) (TH := TH) n (step f Tn TH w)
      have hs : (step f Tn TH w).steps = w.steps + 1 := rfl
      have ht' : (step f Tn TH w).tmax = visit Tn TL TH ((step f Tn TH w).steps + 1) := by
        have hlt : visit Tn TL TH (w.steps + 1) < TH := ht ▸ hc.2
        simp only [step]
        rw [ht, visit_succ_eq_of_lt hlt, visit_succ (w.steps + 1)]
        push_cast; ring_nf
      have e1 : g w.tmax = f w.tmax := by
        rw [ht]; exact (hfg _ le_rfl (by omega)).symm
      have e2 : g (min (w.tmax + Tn) TH) = f (min (w.tmax + Tn) TH) := by
        have : min (w.tmax + Tn) TH = visit Tn TL TH (w.steps + 1 + 1) := ht'
        rw [this]; exact (hfg _ (by omega) (by omega)).symm
      have hstep : step g Tn TH w = step f Tn TH w := by
        simp only [step, e1, e2]
      rw [hstep]
      exact widen_congr n _ ht' (fun k hk1 hk2 => hfg k (by omega) hk2)
    · rw [widen_succ_neg hc, widen_succ_neg hc]

theorem final_congr (fuel : ℕ)
    (hfg : ∀ k, k ≤ (final f Tn TL TH fuel).steps + 1 → f (visit Tn TL TH k) = g (visit Tn TL TH k)) :
    final g Tn TL TH fuel = final f Tn TL TH fuel := by
  have h0 : g Tn = f Tn := (hfg 0 (by omega)).symm
  have h1 : g (tmax0 Tn TL TH) = f (tmax0 Tn TL TH) := by
    have := hfg 1 (by omega); rw [visit_one] at this; exact this.symm
  have hinit : init g Tn TL TH = init f Tn TL TH := by simp only [init, h0, h1]
  unfold final at hfg ⊢
  rw [hinit]
  exact widen_congr fuel _ (by simp [init, visit_one]) (fun k _ hk => hfg k hk)

/-! ### concrete functions for the examples in `Props/C06J.lean` -/

/-- one root at `5/2` -/
noncomputable def lin (x : ℝ) : ℝ := x - 5 / 2

/-- no root, positive everywhere -/
def one (_ : ℝ) : ℝ := 1

/-- roots at `5/4`, `7/4` (both inside the first window `[1, 2]`, whose ends have equal signs) and `5/2` -/
noncomputable def cubic3 (x : ℝ) : ℝ := (x - 5 / 4) * (x - 7 / 4) * (x - 5 / 2)

theorem continuous_lin : Continuous lin := by unfold lin; fun_prop

theorem cubic3_eq_zero_iff (x : ℝ) : cubic3 x = 0 ↔ x = 5 / 4 ∨ x = 7 / 4 ∨ x = 5 / 2 := by
  simp [cubic3, mul_eq_zero, sub_eq_zero, or_assoc]

/-- first loop step from the initial window, as a rewriting rule for concrete evaluation with symbolic fuel -/
theorem final_succ_pos {n : ℕ} (h : Cond TH (init f Tn TL TH)) :
    final f Tn TL TH (n + 1) = widen f 0 Tn TH n (step f Tn TH (init f Tn TL TH)) :=
  widen_succ_pos h

end Lemmas.Jouguet
