/-
Helper lemmas for property C16 (cardinal / Lagrange part): bridges from the list-based model
`Model.Poly` (instantiated at `ℝ`) to `Finset` sums/products and to Mathlib's `Lagrange.basis`,
`Lagrange.interpolate`.
-/
import Mathlib.LinearAlgebra.Lagrange
import Mathlib.Tactic
import Mathlib.Data.List.GetD
import Mathlib.Analysis.SpecialFunctions.Trigonometric.Basic
import WallGoVerif.Model.Poly

namespace Lemmas.PolyCardinal

open Model.Poly Polynomial Finset

noncomputable section

/-! ## folds -/

theorem sum_eq (l : List ℝ) : Model.Poly.sum (0 : ℝ) l = l.sum := by
  unfold Model.Poly.sum
  rw [List.sum_eq_foldl]

theorem prod_eq (l : List ℝ) : Model.Poly.prod (1 : ℝ) l = l.prod := by
  unfold Model.Poly.prod
  rw [List.prod_eq_foldl]

/-- node function: `k ↦ xs[k]` (0 beyond the end), exactly the model's `xs.getD k zero`. -/
abbrev node (xs : List ℝ) : ℕ → ℝ := fun k => xs.getD k 0

theorem sum_map_eq_sum_range (xs : List ℝ) (f : ℝ → ℝ) :
    (xs.map f).sum = ∑ k ∈ range xs.length, f (xs.getD k 0) := by
  induction xs with
  | nil => simp
  | cons a t ih =>
    rw [List.length_cons, Finset.sum_range_succ', List.map_cons, List.sum_cons, ih, add_comm]
    simp

theorem prod_map_eq_prod_range (xs : List ℝ) (f : ℝ → ℝ) :
    (xs.map f).prod = ∏ k ∈ range xs.length, f (xs.getD k 0) := by
  induction xs with
  | nil => simp
  | cons a t ih =>
    rw [List.length_cons, Finset.prod_range_succ', List.map_cons, List.prod_cons, ih, mul_comm]
    simp

theorem node_injOn {xs : List ℝ} (h : xs.Nodup) :
    Set.InjOn (node xs) (range xs.length : Finset ℕ) := by
  intro i hi j hj hij
  simp only [coe_range, Set.mem_Iio] at hi hj
  simp only [node, List.getD_eq_getElem _ _ hi, List.getD_eq_getElem _ _ hj] at hij
  exact (List.Nodup.getElem_inj_iff h).mp hij

theorem node_eq_iff {xs : List ℝ} (h : xs.Nodup) {i j : ℕ} (hi : i < xs.length)
    (hj : j < xs.length) : node xs i = node xs j ↔ i = j :=
  (node_injOn h).eq_iff (by simpa using hi) (by simpa using hj)

/-! ## `cardinal` -/

theorem cardinal_eq_prod (xs : List ℝ) (j : ℕ) (x : ℝ) :
    cardinal (0 : ℝ) 1 xs j x =
      ∏ k ∈ range xs.length,
        if node xs j = node xs k then 1 else (x - node xs k) / (node xs j - node xs k) := by
  unfold cardinal
  simp only [prod_eq]
  rw [prod_map_eq_prod_range]
  refine Finset.prod_congr rfl fun k _ => ?_
  simp only [beq_iff_eq, sub_eq_zero, node]

/-- the Lagrange basis polynomial on the node list `xs` (index set `range xs.length`). -/
abbrev basisPoly (xs : List ℝ) (j : ℕ) : ℝ[X] := Lagrange.basis (range xs.length) (node xs) j

theorem eval_basisDivisor (a b x : ℝ) :
    (Lagrange.basisDivisor a b).eval x = (x - b) / (a - b) := by
  simp [Lagrange.basisDivisor, div_eq_inv_mul]

theorem cardinal_eq_lagrange {xs : List ℝ} (h : xs.Nodup) {j : ℕ} (hj : j < xs.length) (x : ℝ) :
    cardinal (0 : ℝ) 1 xs j x = (basisPoly xs j).eval x := by
  rw [cardinal_eq_prod, basisPoly, Lagrange.basis, eval_prod,
    ← Finset.mul_prod_erase _ _ (mem_range.mpr hj), if_pos rfl, one_mul]
  refine Finset.prod_congr rfl fun k hk => ?_
  rw [mem_erase, mem_range] at hk
  rw [if_neg, eval_basisDivisor]
  rw [node_eq_iff h hj hk.2]
  exact fun e => hk.1 e.symm

theorem cardinal_at_node {xs : List ℝ} (h : xs.Nodup) {i j : ℕ} (hi : i < xs.length)
    (hj : j < xs.length) : cardinal (0 : ℝ) 1 xs j (node xs i) = if i = j then 1 else 0 := by
  rw [cardinal_eq_lagrange h hj]
  split_ifs with e
  · subst e
    exact Lagrange.eval_basis_self (node_injOn h) (mem_range.mpr hi)
  · exact Lagrange.eval_basis_of_ne (fun e' => e e'.symm) (mem_range.mpr hi)

/-! ## list sums as `Finset` sums -/

theorem zipIdx_map_sum_aux (c : List ℝ) (f : ℝ → ℕ → ℝ) (s : ℕ) :
    ((c.zipIdx s).map (fun q => f q.1 q.2)).sum = ∑ j ∈ range c.length, f (c.getD j 0) (s + j) := by
  induction c generalizing s with
  | nil => simp
  | cons a t ih =>
    rw [List.zipIdx_cons, List.map_cons, List.sum_cons, ih, List.length_cons,
      Finset.sum_range_succ', add_comm]
    congr 1
    · refine Finset.sum_congr rfl fun j _ => ?_
      simp [add_assoc, add_comm 1 j]

theorem zipIdx_map_sum (c : List ℝ) (f : ℝ → ℕ → ℝ) :
    ((c.zipIdx).map (fun q => f q.1 q.2)).sum = ∑ j ∈ range c.length, f (c.getD j 0) j := by
  simpa using zipIdx_map_sum_aux c f 0

theorem zipWith_mul_sum (r c : List ℝ) :
    (List.zipWith (· * ·) r c).sum =
      ∑ j ∈ range (min r.length c.length), r.getD j 0 * c.getD j 0 := by
  induction r generalizing c with
  | nil => simp
  | cons a t ih =>
    cases c with
    | nil => simp
    | cons b u =>
      rw [List.zipWith_cons_cons, List.sum_cons, ih, List.length_cons, List.length_cons,
        Nat.succ_min_succ, Finset.sum_range_succ', add_comm]
      simp

/-! ## kept rows -/

theorem keptRange_snd_le (d : Dir) (e : Bool) (n : ℕ) : (keptRange d e n).2 ≤ n := by
  unfold keptRange
  cases e <;> cases d <;> simp

theorem kept_length (d : Dir) (e : Bool) (xs : List ℝ) :
    (kept d e xs).length = (keptRange d e xs.length).2 - (keptRange d e xs.length).1 := by
  have := keptRange_snd_le d e xs.length
  simp only [kept, List.length_take, List.length_drop]
  omega

theorem kept_getD (d : Dir) (e : Bool) (xs : List ℝ) {j : ℕ}
    (hj : j < (keptRange d e xs.length).2 - (keptRange d e xs.length).1) :
    (kept d e xs).getD j 0 = node xs ((keptRange d e xs.length).1 + j) := by
  have := keptRange_snd_le d e xs.length
  simp only [kept, node, List.getD_eq_getElem?_getD]
  rw [List.getElem?_take_of_lt hj, List.getElem?_drop]

theorem kept_map_getD (d : Dir) (e : Bool) (xs : List ℝ) (f : ℝ → ℝ) {j : ℕ}
    (hj : j < (keptRange d e xs.length).2 - (keptRange d e xs.length).1) :
    ((kept d e xs).map f).getD j 0 = f (node xs ((keptRange d e xs.length).1 + j)) := by
  rw [← kept_getD d e xs hj, List.getD_eq_getElem?_getD, List.getD_eq_getElem?_getD,
    List.getElem?_map]
  have : j < (kept d e xs).length := by rw [kept_length]; exact hj
  simp [List.getElem?_eq_getElem this]

/-- the hypothesis "the sampled function vanishes at the dropped nodes". -/
def VanishesOffKept (d : Dir) (e : Bool) (xs : List ℝ) (g : ℝ → ℝ) : Prop :=
  ∀ k < xs.length, (k < (keptRange d e xs.length).1 ∨ (keptRange d e xs.length).2 ≤ k) →
    g (node xs k) = 0

theorem vanishes_endpoints (d : Dir) (xs : List ℝ) (g : ℝ → ℝ) : VanishesOffKept d true xs g := by
  intro k hk hk'
  simp only [keptRange, if_true] at hk'
  omega

theorem vanishes_interior {d : Dir} (hd : d ≠ Dir.pp) (xs : List ℝ) (g : ℝ → ℝ)
    (h0 : g (xs.getD 0 0) = 0) (h1 : g (xs.getD (xs.length - 1) 0) = 0) :
    VanishesOffKept d false xs g := by
  intro k hk hk'
  have hr : keptRange d false xs.length = (1, xs.length - 1) := by
    cases d <;> simp_all [keptRange]
  rw [hr] at hk'
  rcases hk' with hk' | hk'
  · have : k = 0 := by omega
    subst this; exact h0
  · have : k = xs.length - 1 := by omega
    subst this; exact h1

theorem vanishes_pp (xs : List ℝ) (g : ℝ → ℝ) (h1 : g (xs.getD (xs.length - 1) 0) = 0) :
    VanishesOffKept Dir.pp false xs g := by
  intro k hk hk'
  simp only [keptRange, Bool.false_eq_true, if_false] at hk'
  have : k = xs.length - 1 := by omega
  subst this; exact h1

theorem kept_endpoints (d : Dir) (xs : List ℝ) : kept d true xs = xs := by
  simp [kept, keptRange]

theorem kept_sum (d : Dir) (e : Bool) (xs : List ℝ) (g : ℝ → ℝ) (G : ℕ → ℝ)
    (hv : VanishesOffKept d e xs g) :
    ∑ j ∈ range ((kept d e xs).map g).length,
        ((kept d e xs).map g).getD j 0 * G ((keptRange d e xs.length).1 + j) =
      ∑ k ∈ range xs.length, g (node xs k) * G k := by
  have hle := keptRange_snd_le d e xs.length
  rw [List.length_map, kept_length]
  set lo := (keptRange d e xs.length).1
  set hi := (keptRange d e xs.length).2
  have h1 : ∑ j ∈ range (hi - lo), ((kept d e xs).map g).getD j 0 * G (lo + j) =
      ∑ j ∈ range (hi - lo), g (node xs (lo + j)) * G (lo + j) :=
    Finset.sum_congr rfl fun j hj => by rw [kept_map_getD d e xs g (mem_range.mp hj)]
  rw [h1, ← Finset.sum_Ico_eq_sum_range (fun k => g (node xs k) * G k)]
  refine Finset.sum_subset ?_ ?_
  · intro k hk
    rw [mem_Ico] at hk
    exact mem_range.mpr (by omega)
  · intro k hk hk'
    rw [mem_range] at hk
    rw [mem_Ico] at hk'
    rw [hv k hk (by omega), zero_mul]

/-! ## interpolation -/

theorem degree_lt_of_natDegree_lt {p : ℝ[X]} {n : ℕ} (hp : p.natDegree < n) :
    p.degree < ((range n).card : WithBot ℕ) := by
  rw [card_range]
  exact lt_of_le_of_lt degree_le_natDegree (by exact_mod_cast hp)

theorem eq_sum_basis {xs : List ℝ} (h : xs.Nodup) {p : ℝ[X]} (hp : p.natDegree < xs.length) :
    p = ∑ k ∈ range xs.length, C (p.eval (node xs k)) * basisPoly xs k := by
  have := Lagrange.eq_interpolate (node_injOn h) (degree_lt_of_natDegree_lt hp)
  rwa [Lagrange.interpolate_apply] at this

theorem eval_eq_sum_basis {xs : List ℝ} (h : xs.Nodup) {p : ℝ[X]} (hp : p.natDegree < xs.length)
    (x : ℝ) : p.eval x = ∑ k ∈ range xs.length, p.eval (node xs k) * (basisPoly xs k).eval x := by
  conv_lhs => rw [eq_sum_basis h hp]
  simp [eval_finsetSum]

theorem eval_derivative_eq_sum_basis {xs : List ℝ} (h : xs.Nodup) {p : ℝ[X]}
    (hp : p.natDegree < xs.length) (x : ℝ) :
    (derivative p).eval x =
      ∑ k ∈ range xs.length, p.eval (node xs k) * (derivative (basisPoly xs k)).eval x := by
  conv_lhs => rw [eq_sum_basis h hp]
  simp [eval_finsetSum]

/-! ## `evalCardinal` -/

theorem evalCardinal_eq_sum (d : Dir) (e : Bool) (xs c : List ℝ) (x : ℝ) :
    evalCardinal (0 : ℝ) 1 d e xs c x =
      ∑ j ∈ range c.length, c.getD j 0 * cardinal (0 : ℝ) 1 xs ((keptRange d e xs.length).1 + j) x := by
  unfold evalCardinal
  simp only [sum_eq]
  exact zipIdx_map_sum c (fun cj j => cj * cardinal (0 : ℝ) 1 xs ((keptRange d e xs.length).1 + j) x)

theorem evalCardinal_exact {xs : List ℝ} (h : xs.Nodup) (d : Dir) (e : Bool) {p : ℝ[X]}
    (hp : p.natDegree < xs.length) (hv : VanishesOffKept d e xs (fun t => p.eval t)) (x : ℝ) :
    evalCardinal (0 : ℝ) 1 d e xs ((kept d e xs).map (fun t => p.eval t)) x = p.eval x := by
  rw [evalCardinal_eq_sum, eval_eq_sum_basis h hp,
    ← kept_sum d e xs (fun t => p.eval t) (fun k => (basisPoly xs k).eval x) hv]
  refine Finset.sum_congr rfl fun j hj => ?_
  rw [cardinal_eq_lagrange h]
  have := keptRange_snd_le d e xs.length
  rw [mem_range, List.length_map, kept_length] at hj
  omega

/-- `_cardinalMatrix` is the identity: the expansion with coefficients `c` takes the value `c[i]`
at the `i`-th kept node. -/
theorem evalCardinal_at_kept_node {xs : List ℝ} (h : xs.Nodup) (d : Dir) (e : Bool) {c : List ℝ}
    (hc : c.length = (keptRange d e xs.length).2 - (keptRange d e xs.length).1) {i : ℕ}
    (hi : i < c.length) :
    evalCardinal (0 : ℝ) 1 d e xs c (node xs ((keptRange d e xs.length).1 + i)) = c.getD i 0 := by
  have hle := keptRange_snd_le d e xs.length
  rw [evalCardinal_eq_sum, Finset.sum_eq_single_of_mem i (mem_range.mpr hi)]
  · rw [cardinal_at_node h (by omega) (by omega), if_pos rfl, mul_one]
  · intro j hj hji
    rw [mem_range] at hj
    rw [cardinal_at_node h (by omega) (by omega), if_neg (by omega), mul_zero]

/-- the `Fin`-indexed Lagrange basis on the nodes `xs[i]` is the `range`-indexed one. -/
theorem basis_fin_eq (xs : List ℝ) {j : ℕ} (hj : j < xs.length) :
    Lagrange.basis (Finset.univ : Finset (Fin xs.length)) (fun i => xs[i]) ⟨j, hj⟩ =
      basisPoly xs j := by
  unfold basisPoly Lagrange.basis
  have : (range xs.length).erase j =
      ((Finset.univ : Finset (Fin xs.length)).erase ⟨j, hj⟩).map Fin.valEmbedding := by
    ext k
    simp only [mem_erase, mem_range, mem_map, mem_univ, and_true, Fin.valEmbedding_apply]
    constructor
    · rintro ⟨h1, h2⟩
      exact ⟨⟨k, h2⟩, fun e => h1 (congrArg Fin.val e), rfl⟩
    · rintro ⟨q, hq, rfl⟩
      exact ⟨fun e => hq (Fin.ext e), q.2⟩
  rw [this, Finset.prod_map]
  refine Finset.prod_congr rfl fun k _ => ?_
  simp only [node, Fin.valEmbedding_apply, Fin.getElem_fin, List.getD_eq_getElem _ _ hj,
    List.getD_eq_getElem _ _ k.2]

/-! ## derivative of the Lagrange basis at the nodes -/

theorem derivative_basisDivisor (a b : ℝ) :
    derivative (Lagrange.basisDivisor a b) = C (a - b)⁻¹ := by
  simp [Lagrange.basisDivisor]

section
variable {ι : Type*} [DecidableEq ι] {s : Finset ι} {v : ι → ℝ} {i j : ι}

theorem eval_derivative_basis_self (hv : Set.InjOn v s) (hi : i ∈ s) :
    (derivative (Lagrange.basis s v i)).eval (v i) = ∑ k ∈ s.erase i, (v i - v k)⁻¹ := by
  rw [Lagrange.basis, derivative_prod_finset, eval_finsetSum]
  refine Finset.sum_congr rfl fun k hk => ?_
  rw [eval_mul, derivative_basisDivisor, eval_C, eval_prod, Finset.prod_eq_one, one_mul]
  intro l hl
  have hl' := mem_erase.mp (mem_of_mem_erase hl)
  exact Lagrange.eval_basisDivisor_left_of_ne (fun e => hl'.1 (hv hl'.2 hi e.symm))

theorem eval_derivative_basis_of_ne (hij : i ≠ j) (hj : j ∈ s) :
    (derivative (Lagrange.basis s v i)).eval (v j) =
      (∏ l ∈ (s.erase i).erase j, (v j - v l) / (v i - v l)) * (v i - v j)⁻¹ := by
  rw [Lagrange.basis, derivative_prod_finset, eval_finsetSum]
  have hj' : j ∈ s.erase i := mem_erase.mpr ⟨hij.symm, hj⟩
  rw [Finset.sum_eq_single_of_mem j hj']
  · rw [eval_mul, derivative_basisDivisor, eval_C, eval_prod]
    congr 1
    exact Finset.prod_congr rfl fun l _ => eval_basisDivisor _ _ _
  · intro k hk hkj
    rw [eval_mul, eval_prod, Finset.prod_eq_zero (i := j), zero_mul]
    · exact mem_erase.mpr ⟨hkj.symm, hj'⟩
    · exact Lagrange.eval_basisDivisor_right

end

/-! ## `cardinalDerivEntry` -/

theorem cardinalDerivEntry_eq {xs : List ℝ} (h : xs.Nodup) {i j : ℕ} (hi : i < xs.length)
    (hj : j < xs.length) :
    cardinalDerivEntry (0 : ℝ) 1 xs i j = (derivative (basisPoly xs i)).eval (node xs j) := by
  unfold cardinalDerivEntry
  simp only [sum_eq, prod_eq, beq_iff_eq, sub_eq_zero]
  have hi' := mem_range.mpr hi
  have hj' := mem_range.mpr hj
  change (if node xs i = node xs j then _ else _) = _
  split_ifs with e
  · rw [node_eq_iff h hi hj] at e
    subst e
    rw [basisPoly, eval_derivative_basis_self (node_injOn h) hi',
      sum_map_eq_sum_range xs (fun xk => if xs.getD i 0 = xk then 0 else 1 / (xs.getD i 0 - xk)),
      ← Finset.add_sum_erase _ _ hi', if_pos rfl, zero_add]
    refine Finset.sum_congr rfl fun k hk => ?_
    rw [mem_erase, mem_range] at hk
    rw [if_neg, one_div]
    change ¬ (node xs i = node xs k)
    rw [node_eq_iff h hi hk.2]
    exact fun e => hk.1 e.symm
  · have hij : i ≠ j := fun e' => e (e' ▸ rfl)
    rw [basisPoly, eval_derivative_basis_of_ne hij hj', div_eq_mul_inv]
    congr 1
    rw [prod_map_eq_prod_range xs (fun xk =>
        if (xs.getD i 0 - xk) * (xs.getD j 0 - xk) = 0 then 1 else (xs.getD j 0 - xk) / (xs.getD i 0 - xk)),
      ← Finset.mul_prod_erase _ _ hi', if_pos (by simp), one_mul,
      ← Finset.mul_prod_erase _ _ (mem_erase.mpr ⟨hij.symm, hj'⟩), if_pos (by simp), one_mul]
    refine Finset.prod_congr rfl fun k hk => ?_
    rw [mem_erase, mem_erase, mem_range] at hk
    rw [if_neg]
    rw [mul_eq_zero, sub_eq_zero, sub_eq_zero]
    change ¬ (node xs i = node xs k ∨ node xs j = node xs k)
    rw [node_eq_iff h hi hk.2.2, node_eq_iff h hj hk.2.2]
    rintro (e | e)
    · exact hk.2.1 e.symm
    · exact hk.1 e.symm

/-! ## `cardinalDeriv` and `mulVec` -/

theorem range_map_getD (m : ℕ) (f : ℕ → ℝ) {j : ℕ} (hj : j < m) :
    ((List.range m).map f).getD j 0 = f j := by
  rw [List.getD_eq_getElem _ _ (by simpa using hj)]
  simp

theorem mulVec_length (D : List (List ℝ)) (c : List ℝ) : (mulVec (0 : ℝ) D c).length = D.length := by
  simp [mulVec]

theorem cardinalDeriv_length (d : Dir) (e : Bool) (xs : List ℝ) :
    (cardinalDeriv (0 : ℝ) 1 d e xs).length = xs.length := by
  simp [cardinalDeriv]

/-- row `a` of `cardinalDeriv · c` as a `Finset` sum. -/
theorem mulVec_cardinalDeriv_getElem (d : Dir) (e : Bool) (xs c : List ℝ)
    (hc : c.length = (keptRange d e xs.length).2 - (keptRange d e xs.length).1) {a : ℕ}
    (ha : a < (mulVec (0 : ℝ) (cardinalDeriv (0 : ℝ) 1 d e xs) c).length) :
    (mulVec (0 : ℝ) (cardinalDeriv (0 : ℝ) 1 d e xs) c)[a] =
      ∑ j ∈ range c.length,
        c.getD j 0 * cardinalDerivEntry (0 : ℝ) 1 xs ((keptRange d e xs.length).1 + j) a := by
  simp only [mulVec, cardinalDeriv, List.getElem_map, List.getElem_range, sum_eq]
  rw [zipWith_mul_sum, List.length_map, List.length_range, ← hc, min_self]
  refine Finset.sum_congr rfl fun j hj => ?_
  rw [range_map_getD _ _ (mem_range.mp hj), mul_comm]

theorem cardinalDeriv_exact {xs : List ℝ} (h : xs.Nodup) (d : Dir) (e : Bool) {p : ℝ[X]}
    (hp : p.natDegree < xs.length) (hv : VanishesOffKept d e xs (fun t => p.eval t)) :
    mulVec (0 : ℝ) (cardinalDeriv (0 : ℝ) 1 d e xs) ((kept d e xs).map (fun t => p.eval t)) =
      xs.map (fun t => (derivative p).eval t) := by
  have hle := keptRange_snd_le d e xs.length
  refine List.ext_getElem (by rw [mulVec_length, cardinalDeriv_length, List.length_map]) ?_
  intro a ha _
  have ha' : a < xs.length := by rwa [mulVec_length, cardinalDeriv_length] at ha
  rw [mulVec_cardinalDeriv_getElem d e xs _ (by rw [List.length_map, kept_length]), List.getElem_map,
    eval_derivative_eq_sum_basis h hp,
    ← kept_sum d e xs (fun t => p.eval t)
      (fun k => (derivative (basisPoly xs k)).eval xs[a]) hv]
  refine Finset.sum_congr rfl fun j hj => ?_
  rw [mem_range, List.length_map, kept_length] at hj
  rw [cardinalDerivEntry_eq h (by omega) ha', node, List.getD_eq_getElem _ _ ha']

/-! ## linearity -/

theorem zipWith_getD (f : ℝ → ℝ → ℝ) {c₁ c₂ : List ℝ} (hlen : c₁.length = c₂.length) {j : ℕ}
    (hj : j < c₁.length) :
    (List.zipWith f c₁ c₂).getD j 0 = f (c₁.getD j 0) (c₂.getD j 0) := by
  rw [List.getD_eq_getElem _ _ (by simpa [← hlen] using hj), List.getD_eq_getElem _ _ hj,
    List.getD_eq_getElem _ _ (hlen ▸ hj), List.getElem_zipWith]

theorem evalCardinal_axpy (d : Dir) (e : Bool) (xs : List ℝ) (a : ℝ) {c₁ c₂ : List ℝ}
    (hlen : c₁.length = c₂.length) (x : ℝ) :
    evalCardinal (0 : ℝ) 1 d e xs (List.zipWith (fun u w => u + a * w) c₁ c₂) x =
      evalCardinal (0 : ℝ) 1 d e xs c₁ x + a * evalCardinal (0 : ℝ) 1 d e xs c₂ x := by
  simp only [evalCardinal_eq_sum, List.length_zipWith, ← hlen, min_self]
  rw [Finset.mul_sum, ← Finset.sum_add_distrib]
  refine Finset.sum_congr rfl fun j hj => ?_
  rw [zipWith_getD _ hlen (mem_range.mp hj)]
  ring

theorem evalCardinal_smul (d : Dir) (e : Bool) (xs : List ℝ) (a : ℝ) (c : List ℝ) (x : ℝ) :
    evalCardinal (0 : ℝ) 1 d e xs (c.map (fun u => a * u)) x =
      a * evalCardinal (0 : ℝ) 1 d e xs c x := by
  simp only [evalCardinal_eq_sum, List.length_map]
  rw [Finset.mul_sum]
  refine Finset.sum_congr rfl fun j hj => ?_
  have : (c.map (fun u => a * u)).getD j 0 = a * c.getD j 0 := by
    have := List.getD_map c (0 : ℝ) (n := j) (fun u => a * u)
    simpa using this
  rw [this]
  ring

theorem row_axpy (row : List ℝ) (a : ℝ) {c₁ c₂ : List ℝ} (hlen : c₁.length = c₂.length) :
    (List.zipWith (· * ·) row (List.zipWith (fun u w => u + a * w) c₁ c₂)).sum =
      (List.zipWith (· * ·) row c₁).sum + a * (List.zipWith (· * ·) row c₂).sum := by
  simp only [zipWith_mul_sum, List.length_zipWith, ← hlen, min_self]
  rw [Finset.mul_sum, ← Finset.sum_add_distrib]
  refine Finset.sum_congr rfl fun j hj => ?_
  rw [zipWith_getD _ hlen (lt_of_lt_of_le (mem_range.mp hj) (min_le_right _ _))]
  ring

theorem mulVec_axpy (D : List (List ℝ)) (a : ℝ) {c₁ c₂ : List ℝ} (hlen : c₁.length = c₂.length) :
    mulVec (0 : ℝ) D (List.zipWith (fun u w => u + a * w) c₁ c₂) =
      List.zipWith (fun u w => u + a * w) (mulVec (0 : ℝ) D c₁) (mulVec (0 : ℝ) D c₂) := by
  refine List.ext_getElem (by simp [mulVec]) ?_
  intro i h1 h2
  simp only [mulVec, List.getElem_map, List.getElem_zipWith, sum_eq]
  exact row_axpy _ a hlen

theorem mulVec_smul (D : List (List ℝ)) (a : ℝ) (c : List ℝ) :
    mulVec (0 : ℝ) D (c.map (fun u => a * u)) = (mulVec (0 : ℝ) D c).map (fun u => a * u) := by
  refine List.ext_getElem (by simp [mulVec]) ?_
  intro i h1 h2
  simp only [mulVec, List.getElem_map, sum_eq, zipWith_mul_sum, List.length_map]
  rw [Finset.mul_sum]
  refine Finset.sum_congr rfl fun j hj => ?_
  have : (c.map (fun u => a * u)).getD j 0 = a * c.getD j 0 := by
    have := List.getD_map c (0 : ℝ) (n := j) (fun u => a * u)
    simpa using this
  rw [this]
  ring

/-! ## axis-wise application on a rank-2 row-major tensor -/

theorem flatMap_range_map_length (m n : ℕ) (f : ℕ → ℕ → ℝ) :
    ((List.range m).flatMap (fun i => (List.range n).map (f i))).length = m * n := by
  induction m with
  | zero => simp
  | succ m ih =>
    rw [List.range_succ, List.flatMap_append, List.length_append, ih]
    simp [Nat.succ_mul]

theorem flatMap_range_map_getD (m n : ℕ) (f : ℕ → ℕ → ℝ) {i k : ℕ} (hi : i < m) (hk : k < n) :
    ((List.range m).flatMap (fun i => (List.range n).map (f i))).getD (i * n + k) 0 = f i k := by
  induction m with
  | zero => omega
  | succ m ih =>
    rw [List.range_succ, List.flatMap_append]
    by_cases him : i < m
    · have : i * n + k < m * n := by
        calc i * n + k < i * n + n := by omega
          _ = (i + 1) * n := by ring
          _ ≤ m * n := Nat.mul_le_mul_right _ him
      rw [List.getD_append _ _ _ _ (by rw [flatMap_range_map_length]; exact this)]
      exact ih him
    · have him' : i = m := by omega
      subst him'
      rw [List.getD_append_right _ _ _ _ (by rw [flatMap_range_map_length]; omega),
        flatMap_range_map_length]
      simp only [List.flatMap_cons, List.flatMap_nil, List.append_nil]
      rw [show i * n + k - i * n = k by omega]
      exact range_map_getD n (f i) hk

theorem range_map_sum (a : ℕ) (g : ℕ → ℝ) : ((List.range a).map g).sum = ∑ j ∈ range a, g j := by
  induction a with
  | zero => simp
  | succ a ih => rw [List.range_succ, List.map_append, List.sum_append, ih, Finset.sum_range_succ]; simp

theorem applyAxis_axis0 (A : List (List ℝ)) (a b : ℕ) (t : List ℝ) :
    applyAxis (0 : ℝ) A [a, b] 0 t =
      (List.range A.length).flatMap (fun i => (List.range b).map (fun k =>
        ∑ j ∈ range a, (A.getD i []).getD j 0 * t.getD (j * b + k) 0)) := by
  simp only [applyAxis, sum_eq, range_map_sum]
  simp only [List.take_zero, List.foldl_nil, List.range_one, List.flatMap_cons, List.flatMap_nil,
    List.append_nil, List.getD_cons_zero, zero_add, List.drop_succ_cons, List.drop_zero,
    List.foldl_cons, one_mul, zero_mul]

theorem applyAxis_axis1 (B : List (List ℝ)) (a b : ℕ) (t : List ℝ) :
    applyAxis (0 : ℝ) B [a, b] 1 t =
      (List.range a).flatMap (fun o => (List.range B.length).map (fun i =>
        ∑ j ∈ range b, (B.getD i []).getD j 0 * t.getD (o * b + j) 0)) := by
  simp only [applyAxis, sum_eq, range_map_sum]
  simp only [List.take_succ_cons, List.take_zero, List.foldl_cons, List.foldl_nil, one_mul,
    List.getD_cons_succ, List.getD_cons_zero, List.drop_succ_cons, List.drop_zero, List.range_one,
    List.map_cons, List.map_nil, mul_one, add_zero]
  simp only [← List.map_eq_flatMap]

theorem applyAxis_axis0_length (A : List (List ℝ)) (a b : ℕ) (t : List ℝ) :
    (applyAxis (0 : ℝ) A [a, b] 0 t).length = A.length * b := by
  rw [applyAxis_axis0, flatMap_range_map_length]

theorem applyAxis_axis1_length (B : List (List ℝ)) (a b : ℕ) (t : List ℝ) :
    (applyAxis (0 : ℝ) B [a, b] 1 t).length = a * B.length := by
  rw [applyAxis_axis1, flatMap_range_map_length]

/-- entry `(i, k)` of `A` applied along axis 0 of the row-major `a × b` tensor `t`:
`∑ⱼ A[i][j] · t[j][k]`. -/
theorem applyAxis_axis0_getD (A : List (List ℝ)) (a b : ℕ) (t : List ℝ) {i k : ℕ}
    (hi : i < A.length) (hk : k < b) :
    (applyAxis (0 : ℝ) A [a, b] 0 t).getD (i * b + k) 0 =
      ∑ j ∈ range a, (A.getD i []).getD j 0 * t.getD (j * b + k) 0 := by
  rw [applyAxis_axis0]
  exact flatMap_range_map_getD A.length b
    (fun i k => ∑ j ∈ range a, (A.getD i []).getD j 0 * t.getD (j * b + k) 0) hi hk

/-- entry `(o, i)` of `B` applied along axis 1 of the row-major `a × b` tensor `t`:
`∑ⱼ B[i][j] · t[o][j]`. -/
theorem applyAxis_axis1_getD (B : List (List ℝ)) (a b : ℕ) (t : List ℝ) {o i : ℕ}
    (ho : o < a) (hi : i < B.length) :
    (applyAxis (0 : ℝ) B [a, b] 1 t).getD (o * B.length + i) 0 =
      ∑ j ∈ range b, (B.getD i []).getD j 0 * t.getD (o * b + j) 0 := by
  rw [applyAxis_axis1]
  exact flatMap_range_map_getD a B.length
    (fun o i => ∑ j ∈ range b, (B.getD i []).getD j 0 * t.getD (o * b + j) 0) ho hi

/-- applying `A` along axis 0 and `B` along axis 1 of a rank-2 row-major tensor commute. -/
theorem applyAxis_comm (A B : List (List ℝ)) (a b : ℕ) (t : List ℝ) :
    applyAxis (0 : ℝ) B [A.length, b] 1 (applyAxis (0 : ℝ) A [a, b] 0 t) =
      applyAxis (0 : ℝ) A [a, B.length] 0 (applyAxis (0 : ℝ) B [a, b] 1 t) := by
  refine List.ext_getElem (by rw [applyAxis_axis1_length, applyAxis_axis0_length]) ?_
  intro idx h1 h2
  rw [applyAxis_axis1_length] at h1
  have hB : 0 < B.length := by
    rcases Nat.eq_zero_or_pos B.length with h0 | h0
    · rw [h0] at h1; omega
    · exact h0
  have hi : idx / B.length < A.length := by
    rw [Nat.div_lt_iff_lt_mul hB]; exact h1
  have hk : idx % B.length < B.length := Nat.mod_lt _ hB
  have hidx : idx = idx / B.length * B.length + idx % B.length := by
    rw [mul_comm]; exact (Nat.div_add_mod idx B.length).symm
  rw [← List.getD_eq_getElem _ 0, ← List.getD_eq_getElem _ 0]
  generalize idx / B.length = i at hi hidx
  generalize idx % B.length = k at hk hidx
  subst hidx
  rw [applyAxis_axis1_getD _ _ _ _ hi hk, applyAxis_axis0_getD _ _ _ _ hi hk]
  have e1 : ∀ l ∈ range b, (B.getD k []).getD l 0 * (applyAxis (0 : ℝ) A [a, b] 0 t).getD (i * b + l) 0 =
      ∑ j ∈ range a, (B.getD k []).getD l 0 * ((A.getD i []).getD j 0 * t.getD (j * b + l) 0) := by
    intro l hl
    rw [applyAxis_axis0_getD _ _ _ _ hi (mem_range.mp hl), Finset.mul_sum]
  have e2 : ∀ j ∈ range a, (A.getD i []).getD j 0 * (applyAxis (0 : ℝ) B [a, b] 1 t).getD (j * B.length + k) 0 =
      ∑ l ∈ range b, (B.getD k []).getD l 0 * ((A.getD i []).getD j 0 * t.getD (j * b + l) 0) := by
    intro j hj
    rw [applyAxis_axis1_getD _ _ _ _ (mem_range.mp hj) hk, Finset.mul_sum]
    exact Finset.sum_congr rfl fun l _ => by ring
  rw [Finset.sum_congr rfl e1, Finset.sum_congr rfl e2, Finset.sum_comm]

/-! ## the Gauss–Lobatto nodes are distinct -/

/-- the Chebyshev–Gauss–Lobatto nodes `-cos(jπ/n)`, `j = 0..n`, are strictly increasing. -/
theorem lobatto_pairwise_lt {n : ℕ} (hn : 1 ≤ n) :
    ((List.range (n + 1)).map (fun j : ℕ => -Real.cos (j * Real.pi / n))).Pairwise (· < ·) := by
  rw [List.pairwise_map]
  refine List.Pairwise.imp_of_mem ?_ (List.pairwise_lt_range (n := n + 1))
  intro j k hj hk hjk
  rw [List.mem_range] at hj hk
  rw [neg_lt_neg_iff]
  have hn' : (0 : ℝ) < n := by exact_mod_cast hn
  have hpi := Real.pi_pos
  have key : ∀ m : ℕ, m < n + 1 → (m * Real.pi / n) ∈ Set.Icc 0 Real.pi := by
    intro m hm
    have hm' : (m : ℝ) ≤ n := by exact_mod_cast Nat.lt_succ_iff.mp hm
    constructor
    · positivity
    · rw [div_le_iff₀ hn']
      nlinarith
  refine Real.strictAntiOn_cos (key j hj) (key k hk) ?_
  have : (j : ℝ) < k := by exact_mod_cast hjk
  gcongr

theorem lobatto_nodup {n : ℕ} (hn : 1 ≤ n) :
    ((List.range (n + 1)).map (fun j : ℕ => -Real.cos (j * Real.pi / n))).Nodup :=
  (lobatto_pairwise_lt hn).imp ne_of_lt

/-! ## example data for the non-vacuity examples of `Props/C16.lean` -/

/-- example node list (4 distinct nodes, end points `±1`). -/
noncomputable def xs0 : List ℝ := [-1, -1/2, 1/3, 1]

/-- example polynomial `X³ - X`, degree 3 < 4, zero at both end points. -/
noncomputable def p0 : ℝ[X] := X ^ 3 - X

theorem xs0_nodup : xs0.Nodup := by
  norm_num [xs0]

theorem p0_natDegree : p0.natDegree < xs0.length := by
  have : p0.natDegree ≤ 3 := by unfold p0; compute_degree
  simp only [xs0, List.length_cons, List.length_nil]; omega

theorem p0_first : p0.eval (xs0.getD 0 0) = 0 := by norm_num [p0, xs0]

theorem p0_last : p0.eval (xs0.getD (xs0.length - 1) 0) = 0 := by norm_num [p0, xs0]

/-- the interior grid values of `p0` on `xs0` are `[3/8, -8/27]`. -/
theorem kept_values : (kept Dir.z false xs0).map (fun t => p0.eval t) = [3/8, -8/27] := by
  norm_num [kept, keptRange, xs0, p0]

/-- the derivative `3x² - 1` of `p0` on `xs0` is `[2, -1/4, -2/3, 2]`. -/
theorem deriv_values : xs0.map (fun t => (derivative p0).eval t) = [2, -1/4, -2/3, 2] := by
  norm_num [xs0, p0]

end

end Lemmas.PolyCardinal
