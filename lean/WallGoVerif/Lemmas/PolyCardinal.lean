/-
Helper lemmas for property C16 (cardinal / Lagrange part): bridges from the list-based model
`Model.Poly` (instantiated at `ℝ`) to `Finset` sums/products and to Mathlib's `Lagrange.basis`,
`Lagrange.interpolate`.
-/
import Mathlib.LinearAlgebra.Lagrange
import Mathlib.Tactic
import WallGoVerif.Model.Poly

namespace Lemmas.PolyCardinal

open Model.Poly Polynomial Finset

noncomputable section

/-! ## folds -/

theorem sum_eq (l : List ℝ) : Model.Poly.sum (0 : ℝ) l = l.sum := by
  unfold Model.Poly.sum
  rw [List.sum_eq_foldl]

theorem prod_eq (l : List ℝ) : Model.Poly.prod (1 : ℝ) l = l.prod := by
  unfold Model.Poly.prod
  rw [List.prod_eq_foldl]

/-- node function: `k ↦ xs[k]` (0 beyond the end), exactly the model's `xs.getD k zero`. -/
abbrev node (xs : List ℝ) : ℕ → ℝ := fun k => xs.getD k 0

theorem sum_map_eq_sum_range (xs : List ℝ) (f : ℝ → ℝ) :
    (xs.map f).sum = ∑ k ∈ range xs.length, f (xs.getD k 0) := by
  induction xs with
  | nil => simp
  | cons a t ih =>
    rw [List.length_cons, Finset.sum_range_succ', List.map_cons, List.sum_cons, ih, add_comm]
    simp

theorem prod_map_eq_prod_range (xs : List ℝ) (f : ℝ → ℝ) :
    (xs.map f).prod = ∏ k ∈ range xs.length, f (xs.getD k 0) := by
  induction xs with
  | nil => simp
  | cons a t ih =>
    rw [List.length_cons, Finset.prod_range_succ', List.map_cons, List.prod_cons, ih, mul_comm]
    simp

theorem node_injOn {xs : List ℝ} (h : xs.Nodup) :
    Set.InjOn (node xs) (range xs.length : Finset ℕ) := by
  intro i hi j hj hij
  simp only [coe_range, Set.mem_Iio] at hi hj
  simp only [node, List.getD_eq_getElem _ _ hi, List.getD_eq_getElem _ _ hj] at hij
  exact (List.Nodup.getElem_inj_iff h).mp hij

theorem node_eq_iff {xs : List ℝ} (h : xs.Nodup) {i j : ℕ} (hi : i < xs.length)
    (hj : j < xs.length) : node xs i = node xs j ↔ i = j :=
  (node_injOn h).eq_iff (by simpa using hi) (by simpa using hj)

end

end Lemmas.PolyCardinal
