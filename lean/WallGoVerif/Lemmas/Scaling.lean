/-
Helper lemmas for property C07 (dimensional analysis / scale covariance).

Natural-unit weights: temperatures, fields, momenta 1; lengths −1; pressures, energy densities,
enthalpies, potential values 4; velocities, sound speeds, offsets, exponents 0.  Throughout `l > 0`
is the common factor.  For every regenerated formula (`Gen/R/*`) and every closed-form piece of the
hand models (`Model/EOM`, `Model/Deriv`) we prove: inputs scaled by `l^{w_i}` ⇒ output scaled by
`l^{w_out}`.

Organisation
* `mul_rpow_of_pos`, `rpow_w0/1/2`         : real-power bookkeeping.
* (a) `scaleThermo`, `pHighT_scale` …       : `Thermodynamics` (all three temperature regions), `alpha`,
                                              `setExtrapolate` commutes with the rescaling.
* (b) `scaleHydro`, `vpvmAndvpovm_scale` …  : `Hydrodynamics`; `hydroOfThermo_scale` links (a) and (b).
* (c) `scaleTempl` …                        : template model.
* (a') `extrapolated_scale`                 : `Lemmas.Thermo.Extrapolated` is preserved by the rescaling.
* (c') `isTemplateOf_scale`                 : template `__init__` commutes with the rescaling.
* (d) `scaleGrid`, `scaleGrid3` …           : the two compactifications.
* (e) `deltaIntegrand_scale`, `sourceTerm_scale` : Boltzmann pieces.
* (f) `fieldProfile_scale` … `kinetic_scale` : equation-of-motion model.
* T07.2 `applyStencil_scale`, `rowOf_scale`, `derivative_scale` : finite differences.
* T07.3 `errTol_scale_iff`, `abs_sub_lt_scale`, `lt_scale_iff`  : decision predicates.
-/
import WallGoVerif.Gen.R.Thermo
import WallGoVerif.Gen.R.Template
import WallGoVerif.Gen.R.Grid
import WallGoVerif.Gen.R.Grid3
import WallGoVerif.Gen.R.Boltz
import WallGoVerif.Lemmas.Hydro
import WallGoVerif.Lemmas.EOM
import WallGoVerif.Lemmas.Stencil
import WallGoVerif.Lemmas.Thermo
import WallGoVerif.Lemmas.Template
import Mathlib.Tactic

namespace Lemmas.Scaling

variable {l : ℝ}

/-! ## Real powers -/

/-- `(l*T)^y = l^y * T^y` for `l > 0` and *every* real `T` (Mathlib's `Real.mul_rpow` needs `0 ≤ T`). -/
theorem mul_rpow_of_pos {l : ℝ} (hl : 0 < l) (T y : ℝ) : (l * T) ^ y = l ^ y * T ^ y := by
  rcases le_or_gt 0 T with hT | hT
  · exact Real.mul_rpow hl.le hT
  · have hlT : l * T < 0 := mul_neg_of_pos_of_neg hl hT
    rw [Real.rpow_def_of_neg hlT, Real.rpow_def_of_neg hT, Real.rpow_def_of_pos hl,
      Real.log_mul hl.ne' hT.ne, add_mul, Real.exp_add]
    ring

theorem rpow_w0 {l : ℝ} (hl : 0 < l) (T mu : ℝ) :
    l ^ (4 - mu) * (l * T) ^ mu = l ^ 4 * T ^ mu := by
  rw [mul_rpow_of_pos hl, ← mul_assoc, ← Real.rpow_add hl]
  have : (4 - mu + mu : ℝ) = ((4 : ℕ) : ℝ) := by push_cast; ring
  rw [this, Real.rpow_natCast]

theorem rpow_w1 {l : ℝ} (hl : 0 < l) (T mu : ℝ) :
    l ^ (4 - mu) * (l * T) ^ (mu - 1) = l ^ 3 * T ^ (mu - 1) := by
  rw [mul_rpow_of_pos hl, ← mul_assoc, ← Real.rpow_add hl]
  have : (4 - mu + (mu - 1) : ℝ) = ((3 : ℕ) : ℝ) := by push_cast; ring
  rw [this, Real.rpow_natCast]

theorem rpow_w2 {l : ℝ} (hl : 0 < l) (T mu : ℝ) :
    l ^ (4 - mu) * (l * T) ^ (mu - 2) = l ^ 2 * T ^ (mu - 2) := by
  rw [mul_rpow_of_pos hl, ← mul_assoc, ← Real.rpow_add hl]
  have : (4 - mu + (mu - 2) : ℝ) = ((2 : ℕ) : ℝ) := by push_cast; ring
  rw [this, Real.rpow_natCast]

/-! ## (a) Thermodynamics -/
section thermo
open Gen.R.Thermo

/-- the common rescaling of every dimensionful entry of the `Thermodynamics` state by `l`. -/
noncomputable def scaleThermo (l : ℝ) (s : ThermoP) : ThermoP where
  TMinHighT := l * s.TMinHighT
  muMinHighT := s.muMinHighT
  aMinHighT := s.aMinHighT * l ^ (4 - s.muMinHighT)
  epsilonMinHighT := l ^ 4 * s.epsilonMinHighT
  TMaxHighT := l * s.TMaxHighT
  muMaxHighT := s.muMaxHighT
  aMaxHighT := s.aMaxHighT * l ^ (4 - s.muMaxHighT)
  epsilonMaxHighT := l ^ 4 * s.epsilonMaxHighT
  TMinLowT := l * s.TMinLowT
  muMinLowT := s.muMinLowT
  aMinLowT := s.aMinLowT * l ^ (4 - s.muMinLowT)
  epsilonMinLowT := l ^ 4 * s.epsilonMinLowT
  TMaxLowT := l * s.TMaxLowT
  muMaxLowT := s.muMaxLowT
  aMaxLowT := s.aMaxLowT * l ^ (4 - s.muMaxLowT)
  epsilonMaxLowT := l ^ 4 * s.epsilonMaxLowT
  FHigh := fun T => l ^ 4 * s.FHigh (T / l)
  dFHigh := fun T => l ^ 3 * s.dFHigh (T / l)
  ddFHigh := fun T => l ^ 2 * s.ddFHigh (T / l)
  FLow := fun T => l ^ 4 * s.FLow (T / l)
  dFLow := fun T => l ^ 3 * s.dFLow (T / l)
  ddFLow := fun T => l ^ 2 * s.ddFLow (T / l)


theorem pHighT_scale (hl : 0 < l) (s : ThermoP) (T : ℝ) :
    pHighT (scaleThermo l s) (l * T) = l ^ 4 * pHighT s T := by
  unfold pHighT
  simp only [scaleThermo, mul_lt_mul_iff_right₀ hl, gt_iff_lt, WG.R.rpow, Real.rpow_eq_pow,
    mul_div_cancel_left₀ _ hl.ne']
  split_ifs
  · rw [mul_assoc, mul_assoc, rpow_w0 hl]; ring
  · rw [mul_assoc, mul_assoc, rpow_w0 hl]; ring
  · ring

theorem dpHighT_scale (hl : 0 < l) (s : ThermoP) (T : ℝ) :
    dpHighT (scaleThermo l s) (l * T) = l ^ 3 * dpHighT s T := by
  unfold dpHighT
  simp only [scaleThermo, mul_lt_mul_iff_right₀ hl, gt_iff_lt, WG.R.rpow, Real.rpow_eq_pow,
    mul_div_cancel_left₀ _ hl.ne']
  split_ifs
  · rw [mul_assoc, mul_assoc, mul_assoc, rpow_w1 hl]; ring
  · rw [mul_assoc, mul_assoc, mul_assoc, rpow_w1 hl]; ring
  · ring

theorem ddpHighT_scale (hl : 0 < l) (s : ThermoP) (T : ℝ) :
    ddpHighT (scaleThermo l s) (l * T) = l ^ 2 * ddpHighT s T := by
  unfold ddpHighT
  simp only [scaleThermo, mul_lt_mul_iff_right₀ hl, gt_iff_lt, WG.R.rpow, Real.rpow_eq_pow,
    mul_div_cancel_left₀ _ hl.ne']
  split_ifs
  · rw [mul_assoc, mul_assoc, mul_assoc, mul_assoc, rpow_w2 hl]; ring
  · rw [mul_assoc, mul_assoc, mul_assoc, mul_assoc, rpow_w2 hl]; ring
  · ring

theorem pLowT_scale (hl : 0 < l) (s : ThermoP) (T : ℝ) :
    pLowT (scaleThermo l s) (l * T) = l ^ 4 * pLowT s T := by
  unfold pLowT
  simp only [scaleThermo, mul_lt_mul_iff_right₀ hl, gt_iff_lt, WG.R.rpow, Real.rpow_eq_pow,
    mul_div_cancel_left₀ _ hl.ne']
  split_ifs
  · rw [mul_assoc, mul_assoc, rpow_w0 hl]; ring
  · rw [mul_assoc, mul_assoc, rpow_w0 hl]; ring
  · ring

theorem dpLowT_scale (hl : 0 < l) (s : ThermoP) (T : ℝ) :
    dpLowT (scaleThermo l s) (l * T) = l ^ 3 * dpLowT s T := by
  unfold dpLowT
  simp only [scaleThermo, mul_lt_mul_iff_right₀ hl, gt_iff_lt, WG.R.rpow, Real.rpow_eq_pow,
    mul_div_cancel_left₀ _ hl.ne']
  split_ifs
  · rw [mul_assoc, mul_assoc, mul_assoc, rpow_w1 hl]; ring
  · rw [mul_assoc, mul_assoc, mul_assoc, rpow_w1 hl]; ring
  · ring

theorem ddpLowT_scale (hl : 0 < l) (s : ThermoP) (T : ℝ) :
    ddpLowT (scaleThermo l s) (l * T) = l ^ 2 * ddpLowT s T := by
  unfold ddpLowT
  simp only [scaleThermo, mul_lt_mul_iff_right₀ hl, gt_iff_lt, WG.R.rpow, Real.rpow_eq_pow,
    mul_div_cancel_left₀ _ hl.ne']
  split_ifs
  · rw [mul_assoc, mul_assoc, mul_assoc, mul_assoc, rpow_w2 hl]; ring
  · rw [mul_assoc, mul_assoc, mul_assoc, mul_assoc, rpow_w2 hl]; ring
  · ring


theorem eHighT_scale (hl : 0 < l) (s : ThermoP) (T : ℝ) :
    eHighT (scaleThermo l s) (l * T) = l ^ 4 * eHighT s T := by
  unfold eHighT; rw [pHighT_scale hl, dpHighT_scale hl]; ring

theorem deHighT_scale (hl : 0 < l) (s : ThermoP) (T : ℝ) :
    deHighT (scaleThermo l s) (l * T) = l ^ 3 * deHighT s T := by
  unfold deHighT; rw [ddpHighT_scale hl]; ring

theorem wHighT_scale (hl : 0 < l) (s : ThermoP) (T : ℝ) :
    wHighT (scaleThermo l s) (l * T) = l ^ 4 * wHighT s T := by
  unfold wHighT; rw [dpHighT_scale hl]; ring

theorem csqHighT_scale (hl : 0 < l) (s : ThermoP) (T : ℝ) :
    csqHighT (scaleThermo l s) (l * T) = csqHighT s T := by
  have hl3 : l ^ 3 ≠ 0 := pow_ne_zero _ hl.ne'
  have key : ∀ x, dpHighT (scaleThermo l s) (l * x) / deHighT (scaleThermo l s) (l * x)
      = dpHighT s x / deHighT s x := fun x => by
    rw [dpHighT_scale hl, deHighT_scale hl, mul_div_mul_left _ _ hl3]
  unfold csqHighT
  have h1 : (scaleThermo l s).TMinHighT = l * s.TMinHighT := rfl
  have h2 : (scaleThermo l s).TMaxHighT = l * s.TMaxHighT := rfl
  simp only [h1, h2, key, mul_lt_mul_iff_right₀ hl, gt_iff_lt]

theorem eLowT_scale (hl : 0 < l) (s : ThermoP) (T : ℝ) :
    eLowT (scaleThermo l s) (l * T) = l ^ 4 * eLowT s T := by
  unfold eLowT; rw [pLowT_scale hl, dpLowT_scale hl]; ring

theorem deLowT_scale (hl : 0 < l) (s : ThermoP) (T : ℝ) :
    deLowT (scaleThermo l s) (l * T) = l ^ 3 * deLowT s T := by
  unfold deLowT; rw [ddpLowT_scale hl]; ring

theorem wLowT_scale (hl : 0 < l) (s : ThermoP) (T : ℝ) :
    wLowT (scaleThermo l s) (l * T) = l ^ 4 * wLowT s T := by
  unfold wLowT; rw [dpLowT_scale hl]; ring

theorem csqLowT_scale (hl : 0 < l) (s : ThermoP) (T : ℝ) :
    csqLowT (scaleThermo l s) (l * T) = csqLowT s T := by
  have hl3 : l ^ 3 ≠ 0 := pow_ne_zero _ hl.ne'
  have key : ∀ x, dpLowT (scaleThermo l s) (l * x) / deLowT (scaleThermo l s) (l * x)
      = dpLowT s x / deLowT s x := fun x => by
    rw [dpLowT_scale hl, deLowT_scale hl, mul_div_mul_left _ _ hl3]
  unfold csqLowT
  have h1 : (scaleThermo l s).TMinLowT = l * s.TMinLowT := rfl
  have h2 : (scaleThermo l s).TMaxLowT = l * s.TMaxLowT := rfl
  simp only [h1, h2, key, mul_lt_mul_iff_right₀ hl, gt_iff_lt]

theorem alpha_scale (hl : 0 < l) (s : ThermoP) (T : ℝ) :
    alpha (scaleThermo l s) (l * T) = alpha s T := by
  have hl4 : l ^ 4 ≠ 0 := pow_ne_zero _ hl.ne'
  unfold alpha
  rw [eHighT_scale hl, eLowT_scale hl, pHighT_scale hl, pLowT_scale hl, csqLowT_scale hl,
    wHighT_scale hl, ← mul_sub, ← mul_sub, mul_div_assoc, ← mul_sub, mul_div_assoc,
    mul_div_mul_left _ _ hl4]

/-! ### `setExtrapolate` commutes with the rescaling -/

theorem muMinHighT_set_scale (hl : 0 < l) (s : ThermoP) :
    muMinHighT_set (scaleThermo l s) = muMinHighT_set s := by
  unfold muMinHighT_set
  have h1 : (scaleThermo l s).TMinHighT = l * s.TMinHighT := rfl
  simp only [h1, csqHighT_scale hl]

theorem aMinHighT_set_scale (hl : 0 < l) (s : ThermoP) :
    aMinHighT_set (scaleThermo l s) = aMinHighT_set s * l ^ (4 - s.muMinHighT) := by
  unfold aMinHighT_set
  have h1 : (scaleThermo l s).TMinHighT = l * s.TMinHighT := rfl
  have h2 : (scaleThermo l s).muMinHighT = s.muMinHighT := rfl
  have hm : l ^ s.muMinHighT ≠ 0 := (Real.rpow_pos_of_pos hl _).ne'
  have h4 : l ^ (4 - s.muMinHighT) = l ^ 4 / l ^ s.muMinHighT := by
    rw [Real.rpow_sub hl, show (4 : ℝ) = ((4 : ℕ) : ℝ) by norm_num, Real.rpow_natCast]
  simp only [h1, h2, wHighT_scale hl, WG.R.rpow, Real.rpow_eq_pow, mul_rpow_of_pos hl, h4]
  by_cases hd : s.muMinHighT * s.TMinHighT ^ s.muMinHighT = 0
  · rw [show s.muMinHighT * (l ^ s.muMinHighT * s.TMinHighT ^ s.muMinHighT)
        = l ^ s.muMinHighT * (s.muMinHighT * s.TMinHighT ^ s.muMinHighT) by ring, hd]
    simp
  · field_simp

theorem epsilonMinHighT_set_scale (hl : 0 < l) (s : ThermoP) :
    epsilonMinHighT_set (scaleThermo l s) = l ^ 4 * epsilonMinHighT_set s := by
  unfold epsilonMinHighT_set
  have h1 : (scaleThermo l s).TMinHighT = l * s.TMinHighT := rfl
  have h2 : (scaleThermo l s).muMinHighT = s.muMinHighT := rfl
  have h3 : (scaleThermo l s).aMinHighT = s.aMinHighT * l ^ (4 - s.muMinHighT) := rfl
  simp only [h1, h2, h3, pHighT_scale hl, WG.R.rpow, Real.rpow_eq_pow]
  rw [← mul_assoc (1 / 3 : ℝ), mul_assoc _ (l ^ (4 - s.muMinHighT)), rpow_w0 hl]; ring

theorem muMaxHighT_set_scale (hl : 0 < l) (s : ThermoP) :
    muMaxHighT_set (scaleThermo l s) = muMaxHighT_set s := by
  unfold muMaxHighT_set
  have h1 : (scaleThermo l s).TMaxHighT = l * s.TMaxHighT := rfl
  simp only [h1, csqHighT_scale hl]

theorem aMaxHighT_set_scale (hl : 0 < l) (s : ThermoP) :
    aMaxHighT_set (scaleThermo l s) = aMaxHighT_set s * l ^ (4 - s.muMaxHighT) := by
  unfold aMaxHighT_set
  have h1 : (scaleThermo l s).TMaxHighT = l * s.TMaxHighT := rfl
  have h2 : (scaleThermo l s).muMaxHighT = s.muMaxHighT := rfl
  have hm : l ^ s.muMaxHighT ≠ 0 := (Real.rpow_pos_of_pos hl _).ne'
  have h4 : l ^ (4 - s.muMaxHighT) = l ^ 4 / l ^ s.muMaxHighT := by
    rw [Real.rpow_sub hl, show (4 : ℝ) = ((4 : ℕ) : ℝ) by norm_num, Real.rpow_natCast]
  simp only [h1, h2, wHighT_scale hl, WG.R.rpow, Real.rpow_eq_pow, mul_rpow_of_pos hl, h4]
  by_cases hd : s.muMaxHighT * s.TMaxHighT ^ s.muMaxHighT = 0
  · rw [show s.muMaxHighT * (l ^ s.muMaxHighT * s.TMaxHighT ^ s.muMaxHighT)
        = l ^ s.muMaxHighT * (s.muMaxHighT * s.TMaxHighT ^ s.muMaxHighT) by ring, hd]
    simp
  · field_simp

theorem epsilonMaxHighT_set_scale (hl : 0 < l) (s : ThermoP) :
    epsilonMaxHighT_set (scaleThermo l s) = l ^ 4 * epsilonMaxHighT_set s := by
  unfold epsilonMaxHighT_set
  have h1 : (scaleThermo l s).TMaxHighT = l * s.TMaxHighT := rfl
  have h2 : (scaleThermo l s).muMaxHighT = s.muMaxHighT := rfl
  have h3 : (scaleThermo l s).aMaxHighT = s.aMaxHighT * l ^ (4 - s.muMaxHighT) := rfl
  simp only [h1, h2, h3, pHighT_scale hl, WG.R.rpow, Real.rpow_eq_pow]
  rw [← mul_assoc (1 / 3 : ℝ), mul_assoc _ (l ^ (4 - s.muMaxHighT)), rpow_w0 hl]; ring

theorem muMinLowT_set_scale (hl : 0 < l) (s : ThermoP) :
    muMinLowT_set (scaleThermo l s) = muMinLowT_set s := by
  unfold muMinLowT_set
  have h1 : (scaleThermo l s).TMinLowT = l * s.TMinLowT := rfl
  simp only [h1, csqLowT_scale hl]

theorem aMinLowT_set_scale (hl : 0 < l) (s : ThermoP) :
    aMinLowT_set (scaleThermo l s) = aMinLowT_set s * l ^ (4 - s.muMinLowT) := by
  unfold aMinLowT_set
  have h1 : (scaleThermo l s).TMinLowT = l * s.TMinLowT := rfl
  have h2 : (scaleThermo l s).muMinLowT = s.muMinLowT := rfl
  have hm : l ^ s.muMinLowT ≠ 0 := (Real.rpow_pos_of_pos hl _).ne'
  have h4 : l ^ (4 - s.muMinLowT) = l ^ 4 / l ^ s.muMinLowT := by
    rw [Real.rpow_sub hl, show (4 : ℝ) = ((4 : ℕ) : ℝ) by norm_num, Real.rpow_natCast]
  simp only [h1, h2, wLowT_scale hl, WG.R.rpow, Real.rpow_eq_pow, mul_rpow_of_pos hl, h4]
  by_cases hd : s.muMinLowT * s.TMinLowT ^ s.muMinLowT = 0
  · rw [show s.muMinLowT * (l ^ s.muMinLowT * s.TMinLowT ^ s.muMinLowT)
        = l ^ s.muMinLowT * (s.muMinLowT * s.TMinLowT ^ s.muMinLowT) by ring, hd]
    simp
  · field_simp

theorem epsilonMinLowT_set_scale (hl : 0 < l) (s : ThermoP) :
    epsilonMinLowT_set (scaleThermo l s) = l ^ 4 * epsilonMinLowT_set s := by
  unfold epsilonMinLowT_set
  have h1 : (scaleThermo l s).TMinLowT = l * s.TMinLowT := rfl
  have h2 : (scaleThermo l s).muMinLowT = s.muMinLowT := rfl
  have h3 : (scaleThermo l s).aMinLowT = s.aMinLowT * l ^ (4 - s.muMinLowT) := rfl
  simp only [h1, h2, h3, pLowT_scale hl, WG.R.rpow, Real.rpow_eq_pow]
  rw [← mul_assoc (1 / 3 : ℝ), mul_assoc _ (l ^ (4 - s.muMinLowT)), rpow_w0 hl]; ring

theorem muMaxLowT_set_scale (hl : 0 < l) (s : ThermoP) :
    muMaxLowT_set (scaleThermo l s) = muMaxLowT_set s := by
  unfold muMaxLowT_set
  have h1 : (scaleThermo l s).TMaxLowT = l * s.TMaxLowT := rfl
  simp only [h1, csqLowT_scale hl]

theorem aMaxLowT_set_scale (hl : 0 < l) (s : ThermoP) :
    aMaxLowT_set (scaleThermo l s) = aMaxLowT_set s * l ^ (4 - s.muMaxLowT) := by
  unfold aMaxLowT_set
  have h1 : (scaleThermo l s).TMaxLowT = l * s.TMaxLowT := rfl
  have h2 : (scaleThermo l s).muMaxLowT = s.muMaxLowT := rfl
  have hm : l ^ s.muMaxLowT ≠ 0 := (Real.rpow_pos_of_pos hl _).ne'
  have h4 : l ^ (4 - s.muMaxLowT) = l ^ 4 / l ^ s.muMaxLowT := by
    rw [Real.rpow_sub hl, show (4 : ℝ) = ((4 : ℕ) : ℝ) by norm_num, Real.rpow_natCast]
  simp only [h1, h2, wLowT_scale hl, WG.R.rpow, Real.rpow_eq_pow, mul_rpow_of_pos hl, h4]
  by_cases hd : s.muMaxLowT * s.TMaxLowT ^ s.muMaxLowT = 0
  · rw [show s.muMaxLowT * (l ^ s.muMaxLowT * s.TMaxLowT ^ s.muMaxLowT)
        = l ^ s.muMaxLowT * (s.muMaxLowT * s.TMaxLowT ^ s.muMaxLowT) by ring, hd]
    simp
  · field_simp

theorem epsilonMaxLowT_set_scale (hl : 0 < l) (s : ThermoP) :
    epsilonMaxLowT_set (scaleThermo l s) = l ^ 4 * epsilonMaxLowT_set s := by
  unfold epsilonMaxLowT_set
  have h1 : (scaleThermo l s).TMaxLowT = l * s.TMaxLowT := rfl
  have h2 : (scaleThermo l s).muMaxLowT = s.muMaxLowT := rfl
  have h3 : (scaleThermo l s).aMaxLowT = s.aMaxLowT * l ^ (4 - s.muMaxLowT) := rfl
  simp only [h1, h2, h3, pLowT_scale hl, WG.R.rpow, Real.rpow_eq_pow]
  rw [← mul_assoc (1 / 3 : ℝ), mul_assoc _ (l ^ (4 - s.muMaxLowT)), rpow_w0 hl]; ring


end thermo

/-! ## (b) Hydrodynamics -/
section hydro
open Gen.R.Hydro Gen.R.Helpers Lemmas.Hydro

/-- the common rescaling by `l` of every dimensionful entry of the `Hydrodynamics` state. -/
noncomputable def scaleHydro (l : ℝ) (s : HydroP) : HydroP where
  Tnucl := l * s.Tnucl
  TMaxHydro := l * s.TMaxHydro
  TMinHydro := l * s.TMinHydro
  pHighT := fun T => l ^ 4 * s.pHighT (T / l)
  pLowT := fun T => l ^ 4 * s.pLowT (T / l)
  eHighT := fun T => l ^ 4 * s.eHighT (T / l)
  eLowT := fun T => l ^ 4 * s.eLowT (T / l)
  wHighT := fun T => l ^ 4 * s.wHighT (T / l)
  wLowT := fun T => l ^ 4 * s.wLowT (T / l)
  dpLowT := fun T => l ^ 3 * s.dpLowT (T / l)
  deLowT := fun T => l ^ 3 * s.deLowT (T / l)
  csqHighT := fun T => s.csqHighT (T / l)
  csqLowT := fun T => s.csqLowT (T / l)

section fields
variable (hl : 0 < l) (s : HydroP) (x : ℝ)
include hl
theorem sh_pHighT : (scaleHydro l s).pHighT (l * x) = l ^ 4 * s.pHighT x := by
  simp [scaleHydro, mul_div_cancel_left₀ _ hl.ne']
theorem sh_pLowT : (scaleHydro l s).pLowT (l * x) = l ^ 4 * s.pLowT x := by
  simp [scaleHydro, mul_div_cancel_left₀ _ hl.ne']
theorem sh_eHighT : (scaleHydro l s).eHighT (l * x) = l ^ 4 * s.eHighT x := by
  simp [scaleHydro, mul_div_cancel_left₀ _ hl.ne']
theorem sh_eLowT : (scaleHydro l s).eLowT (l * x) = l ^ 4 * s.eLowT x := by
  simp [scaleHydro, mul_div_cancel_left₀ _ hl.ne']
theorem sh_wHighT : (scaleHydro l s).wHighT (l * x) = l ^ 4 * s.wHighT x := by
  simp [scaleHydro, mul_div_cancel_left₀ _ hl.ne']
theorem sh_wLowT : (scaleHydro l s).wLowT (l * x) = l ^ 4 * s.wLowT x := by
  simp [scaleHydro, mul_div_cancel_left₀ _ hl.ne']
theorem sh_dpLowT : (scaleHydro l s).dpLowT (l * x) = l ^ 3 * s.dpLowT x := by
  simp [scaleHydro, mul_div_cancel_left₀ _ hl.ne']
theorem sh_deLowT : (scaleHydro l s).deLowT (l * x) = l ^ 3 * s.deLowT x := by
  simp [scaleHydro, mul_div_cancel_left₀ _ hl.ne']
theorem sh_csqHighT : (scaleHydro l s).csqHighT (l * x) = s.csqHighT x := by
  simp [scaleHydro, mul_div_cancel_left₀ _ hl.ne']
theorem sh_csqLowT : (scaleHydro l s).csqLowT (l * x) = s.csqLowT x := by
  simp [scaleHydro, mul_div_cancel_left₀ _ hl.ne']
end fields

/-- the scaled EOS still satisfies `w = e + p`. -/
theorem EOSOK_scale (s : HydroP) (hs : EOSOK s) : EOSOK (scaleHydro l s) where
  w_high T := by simp [scaleHydro, hs.w_high]; ring
  w_low T := by simp [scaleHydro, hs.w_low]; ring

/-- `vpvmAndvpovm`, regular branch: both `v₊v₋` and `v₊/v₋` are scale invariant. -/
theorem vpvmAndvpovm_scale (hl : 0 < l) (s : HydroP) (Tp Tm : ℝ)
    (h : s.eHighT Tp ≠ s.eLowT Tm) :
    vpvmAndvpovm (scaleHydro l s) (l * Tp) (l * Tm) = vpvmAndvpovm s Tp Tm := by
  have hl4 : l ^ 4 ≠ 0 := pow_ne_zero _ hl.ne'
  have h' : l ^ 4 * s.eHighT Tp ≠ l ^ 4 * s.eLowT Tm := fun e => h (mul_left_cancel₀ hl4 e)
  unfold vpvmAndvpovm
  simp only [sh_pHighT hl, sh_pLowT hl, sh_eHighT hl, sh_eLowT hl, ne_eq, h, h', not_false_eq_true,
    if_true, ← mul_sub, ← mul_add, mul_div_mul_left _ _ hl4]

/-- `vpvmAndvpovm`, the ratio `v₊/v₋` is always invariant. -/
theorem vpvmAndvpovm_snd_scale (hl : 0 < l) (s : HydroP) (Tp Tm : ℝ) :
    (vpvmAndvpovm (scaleHydro l s) (l * Tp) (l * Tm)).2 = (vpvmAndvpovm s Tp Tm).2 := by
  have hl4 : l ^ 4 ≠ 0 := pow_ne_zero _ hl.ne'
  rw [vpvmAndvpovm_snd, vpvmAndvpovm_snd]
  simp only [sh_pHighT hl, sh_pLowT hl, sh_eHighT hl, sh_eLowT hl, ← mul_add,
    mul_div_mul_left _ _ hl4]

/-- `vpvmAndvpovm`, degenerate branch `e₊ = e₋`: the fallback value `(p₊ − p₋)·1e50` carries weight 4;
it is NOT scale invariant. -/
theorem vpvmAndvpovm_fst_scale_degenerate (hl : 0 < l) (s : HydroP) (Tp Tm : ℝ)
    (h : s.eHighT Tp = s.eLowT Tm) :
    (vpvmAndvpovm (scaleHydro l s) (l * Tp) (l * Tm)).1 = l ^ 4 * (vpvmAndvpovm s Tp Tm).1 := by
  rw [vpvmAndvpovm_fst_degenerate _ _ _ (by rw [sh_eHighT hl, sh_eLowT hl, h]),
    vpvmAndvpovm_fst_degenerate _ _ _ h, sh_pHighT hl, sh_pLowT hl]
  ring

/-- … hence in the degenerate branch invariance of `v₊v₋` fails as soon as `p₊ ≠ p₋` and `l ≠ 1`. -/
theorem vpvmAndvpovm_fst_not_invariant (hl : 0 < l) (hl1 : l ≠ 1) (s : HydroP) (Tp Tm : ℝ)
    (h : s.eHighT Tp = s.eLowT Tm) (hp : s.pHighT Tp ≠ s.pLowT Tm) :
    (vpvmAndvpovm (scaleHydro l s) (l * Tp) (l * Tm)).1 ≠ (vpvmAndvpovm s Tp Tm).1 := by
  rw [vpvmAndvpovm_fst_scale_degenerate hl s Tp Tm h, vpvmAndvpovm_fst_degenerate _ _ _ h]
  intro e
  have hne : (s.pHighT Tp - s.pLowT Tm) * 1e50 ≠ 0 :=
    mul_ne_zero (sub_ne_zero.mpr hp) (by norm_num)
  have h4 : l ^ 4 = 1 := by
    have := mul_right_cancel₀ hne (e.trans (one_mul _).symm)
    exact this
  have : l = 1 := by
    have h2 : (l ^ 2 - 1) * (l ^ 2 + 1) = 0 := by ring_nf; linarith
    have h3 : l ^ 2 + 1 ≠ 0 := by positivity
    have h5 : (l - 1) * (l + 1) = 0 := by
      have := (mul_eq_zero.mp h2).resolve_right h3; ring_nf; linarith
    have h6 : l + 1 ≠ 0 := by linarith
    have := (mul_eq_zero.mp h5).resolve_right h6; linarith
  exact hl1 this

/-- `_mappingT`: the solver variables are dimensionless. -/
theorem mappingT_scale (hl : 0 < l) (s : HydroP) (Tp Tm : ℝ) :
    mappingT (scaleHydro l s) (l * Tp, l * Tm) = mappingT s (Tp, Tm) := by
  have key : ∀ a b t : ℝ, Real.pi / (l * a - l * b) * (l * t - (l * a + l * b) / 2)
      = Real.pi / (a - b) * (t - (a + b) / 2) := fun a b t => by
    by_cases hd : a - b = 0
    · rw [← mul_sub, hd]; simp
    · have hl' := hl.ne'
      have : l * a - l * b ≠ 0 := by rw [← mul_sub]; exact mul_ne_zero hl' hd
      field_simp
  unfold mappingT
  simp only [scaleHydro, key]

/-- `_inverseMappingT`: temperatures come back multiplied by `l`. -/
theorem inverseMappingT_scale (s : HydroP) (m : ℝ × ℝ) :
    inverseMappingT (scaleHydro l s) m
      = (l * (inverseMappingT s m).1, l * (inverseMappingT s m).2) := by
  unfold inverseMappingT
  simp only [scaleHydro]
  ext <;> simp <;> ring

theorem inverseMappingT_scale_smul (s : HydroP) (m : ℝ × ℝ) :
    inverseMappingT (scaleHydro l s) m = l • inverseMappingT s m := by
  rw [inverseMappingT_scale]; rfl

theorem scaleC_scale (hl : 0 < l) (T T0 : ℝ × ℝ) :
    scaleC (l * T.1, l * T.2) (l * T0.1, l * T0.2) = scaleC T T0 := by
  unfold scaleC
  simp only [mul_div_mul_left _ _ hl.ne']

theorem vpsqLTE_scale (hl : 0 < l) (Tp Tm v : ℝ) :
    vpsqLTE (l * Tp) (l * Tm) v = vpsqLTE Tp Tm v := by
  unfold vpsqLTE
  have hl2 : l ^ 2 ≠ 0 := pow_ne_zero _ hl.ne'
  rw [mul_pow, mul_pow, mul_assoc, ← mul_sub, mul_div_mul_left _ _ hl2]

/-- residual of `matchDeflagOrHyb` with `v₊` prescribed: invariant when the reference pair `Tpm0`
is rescaled too (regular branch of `vpvmAndvpovm`). -/
theorem matchingVp_scale (hl : 0 < l) (s : HydroP) (m : ℝ × ℝ) (vw vp : ℝ) (Tpm0 : ℝ × ℝ)
    (h : s.eHighT (inverseMappingT s m).1 ≠ s.eLowT (inverseMappingT s m).2) :
    matchingVp (scaleHydro l s) m vw vp (l * Tpm0.1, l * Tpm0.2) = matchingVp s m vw vp Tpm0 := by
  rw [matchingVp_eq, matchingVp_eq, inverseMappingT_scale]
  simp only [vpvmAndvpovm_scale hl s _ _ h, sh_csqLowT hl, scaleC_scale hl]

/-- residual of `matchDeflagOrHyb` with `vp=None` (entropy conservation): invariant. -/
theorem matchingLTE_scale (hl : 0 < l) (s : HydroP) (m : ℝ × ℝ) (vw : ℝ) (Tpm0 : ℝ × ℝ)
    (h : s.eHighT (inverseMappingT s m).1 ≠ s.eLowT (inverseMappingT s m).2) :
    matchingLTE (scaleHydro l s) m vw (l * Tpm0.1, l * Tpm0.2) = matchingLTE s m vw Tpm0 := by
  rw [matchingLTE_eq, matchingLTE_eq, inverseMappingT_scale]
  simp only [vpvmAndvpovm_scale hl s _ _ h, sh_csqLowT hl, scaleC_scale hl, vpsqLTE_scale hl]

/-- `matchDeton.tmFromvpsq` has weight 4. -/
theorem tmFromvpsq_scale (hl : 0 < l) (s : HydroP) (vp pH eH tm : ℝ) :
    tmFromvpsq (scaleHydro l s) vp (l ^ 4 * pH) (l ^ 4 * eH) (l * tm)
      = l ^ 4 * tmFromvpsq s vp pH eH tm := by
  have hl4 : l ^ 4 ≠ 0 := pow_ne_zero _ hl.ne'
  rw [tmFromvpsq_eq, tmFromvpsq_eq, sh_wLowT hl, sh_pLowT hl]
  simp only [← mul_sub, ← mul_add]
  rw [mul_assoc (l ^ 4), mul_div_mul_left _ _ hl4]; ring

theorem matchDetonPost_scale (hl : 0 < l) (s : HydroP) (vp Tp Tm : ℝ)
    (h : s.eHighT Tp ≠ s.eLowT Tm) :
    matchDetonPost (scaleHydro l s) vp (l * Tp) (l * Tm)
      = ((matchDetonPost s vp Tp Tm).1, (matchDetonPost s vp Tp Tm).2.1,
          l * (matchDetonPost s vp Tp Tm).2.2.1, l * (matchDetonPost s vp Tp Tm).2.2.2) := by
  rw [matchDetonPost_eq, matchDetonPost_eq, vpvmAndvpovm_scale hl s _ _ h]

theorem deflagPostVp_scale (hl : 0 < l) (s : HydroP) (vw vp Tp Tm : ℝ) :
    deflagPostVp (scaleHydro l s) vw vp (l * Tp) (l * Tm)
      = ((deflagPostVp s vw vp Tp Tm).1, (deflagPostVp s vw vp Tp Tm).2.1,
          l * (deflagPostVp s vw vp Tp Tm).2.2.1, l * (deflagPostVp s vw vp Tp Tm).2.2.2) := by
  rw [deflagPostVp_eq, deflagPostVp_eq, sh_csqLowT hl]

theorem deflagPostLTE_scale (hl : 0 < l) (s : HydroP) (vw Tp Tm : ℝ) :
    deflagPostLTE (scaleHydro l s) vw (l * Tp) (l * Tm)
      = ((deflagPostLTE s vw Tp Tm).1, (deflagPostLTE s vw Tp Tm).2.1,
          l * (deflagPostLTE s vw Tp Tm).2.2.1, l * (deflagPostLTE s vw Tp Tm).2.2.2) := by
  rw [deflagPostLTE_eq, deflagPostLTE_eq, sh_csqLowT hl]
  have : (l * Tm) ^ 2 - (l * Tp) ^ 2 * (1 - deflagVm vw (s.csqLowT Tm) ^ 2)
      = l ^ 2 * (Tm ^ 2 - Tp ^ 2 * (1 - deflagVm vw (s.csqLowT Tm) ^ 2)) := by ring
  rw [this, Real.sqrt_mul (sq_nonneg l), Real.sqrt_sq hl.le, mul_div_mul_left _ _ hl.ne']

/-- `findHydroBoundaries`: `c1, c2` have weight 4, temperatures weight 1, `velocityMid` weight 0. -/
theorem hydroBoundaries_scale (hl : 0 < l) (s : HydroP) (vp vm Tp Tm : ℝ) :
    hydroBoundaries (scaleHydro l s) vp vm (l * Tp) (l * Tm)
      = (l ^ 4 * (hydroBoundaries s vp vm Tp Tm).1, l ^ 4 * (hydroBoundaries s vp vm Tp Tm).2.1,
          l * Tp, l * Tm, (hydroBoundaries s vp vm Tp Tm).2.2.2.2) := by
  rw [hydroBoundaries_eq, hydroBoundaries_eq, sh_wHighT hl, sh_pHighT hl]
  ext <;> simp <;> ring

theorem shockDE_scale (hl : 0 < l) (s : HydroP) (v xi T : ℝ) (sw : Bool) :
    shockDE (scaleHydro l s) v (xi, l * T) sw
      = ((shockDE s v (xi, T) sw).1, l * (shockDE s v (xi, T) sw).2) := by
  unfold shockDE
  simp only [sh_csqHighT hl, sh_csqLowT hl]
  ext <;> simp; ring

theorem shockEvent_scale (hl : 0 < l) (s : HydroP) (v xi T : ℝ) :
    shockEvent (scaleHydro l s) v (xi, l * T) = shockEvent s v (xi, T) := by
  unfold shockEvent
  simp only [sh_csqHighT hl]

theorem TiiShock_scale (hl : 0 < l) (s : HydroP) (xiS vmS TmS tn : ℝ) :
    TiiShock (scaleHydro l s) xiS vmS (l * TmS) (l * tn) = l ^ 4 * TiiShock s xiS vmS TmS tn := by
  unfold TiiShock
  simp only [sh_wHighT hl]
  ring

/-- `findJouguetVelocity.vpDerivNum`: weight `3 + 4 + 4 + 4 = 15`. -/
theorem vpDerivNum_scale (hl : 0 < l) (s : HydroP) (pH eH tm : ℝ) :
    vpDerivNum (scaleHydro l s) (l ^ 4 * pH) (l ^ 4 * eH) (l * tm)
      = l ^ 15 * vpDerivNum s pH eH tm := by
  rw [vpDerivNum_eq, vpDerivNum_eq, sh_pLowT hl, sh_eLowT hl, sh_dpLowT hl, sh_deLowT hl]
  ring

theorem quad_ratio {k : ℝ} (hk : k ≠ 0) (a b c d : ℝ) :
    k * a * (k * b) / (k * c) / (k * d) = a * b / c / d := by
  rw [show k * a * (k * b) = k * (k * (a * b)) by ring, mul_div_mul_left _ _ hk, mul_div_assoc,
    mul_div_mul_left _ _ hk]

theorem jouguetVp_scale (hl : 0 < l) (s : HydroP) (pH eH tm : ℝ) :
    jouguetVp (scaleHydro l s) (l ^ 4 * pH) (l ^ 4 * eH) (l * tm) = jouguetVp s pH eH tm := by
  have hl4 : l ^ 4 ≠ 0 := pow_ne_zero _ hl.ne'
  unfold jouguetVp
  simp only [sh_pLowT hl, sh_eLowT hl, ← mul_sub, ← mul_add, quad_ratio hl4]


/-! ### link between (a) and (b): the `HydroP` read off a `ThermoP` -/

/-- the abstract EOS record used by `Hydrodynamics`, filled from a `Thermodynamics` state
(`hydrodynamics.py` calls `self.thermodynamics.pHighT` etc.). -/
noncomputable def hydroOfThermo (s : Gen.R.Thermo.ThermoP) (Tn TMax TMin : ℝ) : HydroP where
  Tnucl := Tn
  TMaxHydro := TMax
  TMinHydro := TMin
  pHighT := Gen.R.Thermo.pHighT s
  pLowT := Gen.R.Thermo.pLowT s
  eHighT := Gen.R.Thermo.eHighT s
  eLowT := Gen.R.Thermo.eLowT s
  wHighT := Gen.R.Thermo.wHighT s
  wLowT := Gen.R.Thermo.wLowT s
  dpLowT := Gen.R.Thermo.dpLowT s
  deLowT := Gen.R.Thermo.deLowT s
  csqHighT := Gen.R.Thermo.csqHighT s
  csqLowT := Gen.R.Thermo.csqLowT s

/-- Rescaling the `Thermodynamics` state induces exactly `scaleHydro` on the derived `HydroP`: the
hypotheses of part (b) are what part (a) delivers. -/
theorem hydroOfThermo_scale (hl : 0 < l) (s : Gen.R.Thermo.ThermoP) (Tn TMax TMin : ℝ) :
    hydroOfThermo (scaleThermo l s) (l * Tn) (l * TMax) (l * TMin)
      = scaleHydro l (hydroOfThermo s Tn TMax TMin) := by
  have e : ∀ T : ℝ, l * (T / l) = T := fun T => mul_div_cancel₀ T hl.ne'
  unfold hydroOfThermo scaleHydro
  congr <;> funext T
  · show Gen.R.Thermo.pHighT (scaleThermo l s) T = _
    rw [← e T, pHighT_scale hl s (T / l), e T]
  · show Gen.R.Thermo.pLowT (scaleThermo l s) T = _
    rw [← e T, pLowT_scale hl s (T / l), e T]
  · show Gen.R.Thermo.eHighT (scaleThermo l s) T = _
    rw [← e T, eHighT_scale hl s (T / l), e T]
  · show Gen.R.Thermo.eLowT (scaleThermo l s) T = _
    rw [← e T, eLowT_scale hl s (T / l), e T]
  · show Gen.R.Thermo.wHighT (scaleThermo l s) T = _
    rw [← e T, wHighT_scale hl s (T / l), e T]
  · show Gen.R.Thermo.wLowT (scaleThermo l s) T = _
    rw [← e T, wLowT_scale hl s (T / l), e T]
  · show Gen.R.Thermo.dpLowT (scaleThermo l s) T = _
    rw [← e T, dpLowT_scale hl s (T / l), e T]
  · show Gen.R.Thermo.deLowT (scaleThermo l s) T = _
    rw [← e T, deLowT_scale hl s (T / l), e T]
  · show Gen.R.Thermo.csqHighT (scaleThermo l s) T = _
    rw [← e T, csqHighT_scale hl s (T / l), e T]
  · show Gen.R.Thermo.csqLowT (scaleThermo l s) T = _
    rw [← e T, csqLowT_scale hl s (T / l), e T]

end hydro

/-! ## (c) Template model -/
section template
open Gen.R.Template Gen.R.Helpers

/-- rescaling of the template-model state: only `wN, pN, epsilon` (weight 4) and `Tnucl` (weight 1)
are dimensionful. -/
def scaleTempl (l : ℝ) (s : TemplP) : TemplP :=
  { s with wN := l ^ 4 * s.wN, pN := l ^ 4 * s.pN, epsilon := l ^ 4 * s.epsilon, Tnucl := l * s.Tnucl }

theorem findJouguetVelocity_scale (s : TemplP) (alN : ℝ) :
    findJouguetVelocity (scaleTempl l s) alN = findJouguetVelocity s alN := rfl

theorem getVp_scale (s : TemplP) (vm al br : ℝ) :
    getVp (scaleTempl l s) vm al br = getVp s vm al br := rfl

theorem wFromAlpha_scale (s : TemplP) (al : ℝ) :
    wFromAlpha (scaleTempl l s) al = wFromAlpha s al := rfl

theorem eqWall_scale (s : TemplP) (al vm br : ℝ) :
    eqWall (scaleTempl l s) al vm br = eqWall s al vm br := rfl

theorem shootAlpha_scale (s : TemplP) (vw vp : ℝ) :
    shootAlpha (scaleTempl l s) vw vp = shootAlpha s vw vp := rfl

theorem maxAlMatching_scale (s : TemplP) (vm alN : ℝ) :
    maxAlMatching (scaleTempl l s) vm alN = maxAlMatching s vm alN := rfl

/-- `_dxiAndWdv`: independent of the dimensionful state, and homogeneous of degree one in the
enthalpy variable `w` (whatever its unit). -/
theorem dxiAndWdv_scale (k : ℝ) (s : TemplP) (v xi w : ℝ) (sw : Bool) :
    dxiAndWdv (scaleTempl l s) v (xi, k * w) sw
      = ((dxiAndWdv s v (xi, w) sw).1, k * (dxiAndWdv s v (xi, w) sw).2) := by
  unfold dxiAndWdv
  ext
  · rfl
  · simp only [scaleTempl]; ring

/-- `_findTm`: `T₋` has weight 1 (needs `nu ≠ 0`). -/
theorem findTm_scale (hl : 0 < l) (s : TemplP) (hnu : s.nu ≠ 0) (vm vp Tp : ℝ) :
    findTm (scaleTempl l s) vm vp (l * Tp) = l * findTm s vm vp Tp := by
  unfold findTm
  simp only [scaleTempl, WG.R.rpow, Real.rpow_eq_pow, mul_rpow_of_pos hl]
  have hL : l ^ s.mu ≠ 0 := (Real.rpow_pos_of_pos hl _).ne'
  have hN : 0 < l ^ s.nu := Real.rpow_pos_of_pos hl _
  set X := s.Tnucl ^ s.mu
  set Y := s.Tnucl ^ s.nu
  set P := Tp ^ s.mu
  have e1 : 3 / (s.mu * (l ^ s.mu * X)) = 3 / (s.mu * X) / l ^ s.mu := by
    rw [div_div]; congr 1; ring
  have e2 : 3 * s.psiN / (s.nu * (l ^ s.nu * Y)) = 3 * s.psiN / (s.nu * Y) / l ^ s.nu := by
    rw [div_div]; congr 1; ring
  rw [e1, e2]
  have e3 : 3 / (s.mu * X) / l ^ s.mu * vp * s.mu * (1 - vm ^ 2) * (l ^ s.mu * P)
      = 3 / (s.mu * X) * vp * s.mu * (1 - vm ^ 2) * P := by
    field_simp
  have e4 : 3 * s.psiN / (s.nu * Y) / l ^ s.nu * vm * s.nu * (1 - vp ^ 2)
      = 3 * s.psiN / (s.nu * Y) * vm * s.nu * (1 - vp ^ 2) / l ^ s.nu := by ring
  rw [e3, e4, div_div_eq_mul_div, mul_comm _ (l ^ s.nu), mul_div_assoc, mul_rpow_of_pos hN,
    ← Real.rpow_mul hl.le, mul_one_div_cancel hnu, Real.rpow_one]

/-- `detonationVAndT`: velocities invariant, temperatures weight 1. -/
theorem detonationVAndT_scale (hl : 0 < l) (s : TemplP) (hnu : s.nu ≠ 0) (vw : ℝ) :
    detonationVAndT (scaleTempl l s) vw
      = ((detonationVAndT s vw).1, (detonationVAndT s vw).2.1,
          l * (detonationVAndT s vw).2.2.1, l * (detonationVAndT s vw).2.2.2) := by
  unfold detonationVAndT
  have h1 : (scaleTempl l s).Tnucl = l * s.Tnucl := rfl
  have h2 : (scaleTempl l s).cb2 = s.cb2 := rfl
  have h3 : (scaleTempl l s).alN = s.alN := rfl
  simp only [h1, h2, h3, findTm_scale hl s hnu]

/-- `findMatching` post-processing (`deflagTpTm`): velocities invariant, temperatures weight 1. -/
theorem deflagTpTm_scale (hl : 0 < l) (s : TemplP) (hnu : s.nu ≠ 0) (vm vp : ℝ) :
    deflagTpTm (scaleTempl l s) vm vp
      = ((deflagTpTm s vm vp).1, (deflagTpTm s vm vp).2.1,
          l * (deflagTpTm s vm vp).2.2.1, l * (deflagTpTm s vm vp).2.2.2) := by
  unfold deflagTpTm
  have h1 : (scaleTempl l s).Tnucl = l * s.Tnucl := rfl
  have h2 : (scaleTempl l s).cb2 = s.cb2 := rfl
  have h3 : (scaleTempl l s).mu = s.mu := rfl
  simp only [h1, h2, h3, wFromAlpha_scale, mul_assoc, findTm_scale hl s hnu]

/-- template `findHydroBoundaries`: `c1, c2` weight 4, temperatures weight 1, `velocityMid` weight 0. -/
theorem tmplBoundaries_scale (hl : 0 < l) (s : TemplP) (vp vm Tp Tm : ℝ) :
    tmplBoundaries (scaleTempl l s) vp vm (l * Tp) (l * Tm)
      = (l ^ 4 * (tmplBoundaries s vp vm Tp Tm).1, l ^ 4 * (tmplBoundaries s vp vm Tp Tm).2.1,
          l * Tp, l * Tm, (tmplBoundaries s vp vm Tp Tm).2.2.2.2) := by
  unfold tmplBoundaries
  simp only [scaleTempl, mul_div_mul_left _ _ hl.ne']
  ext <;> simp <;> ring

theorem alN_set_scale (hl : 0 < l) (eH eL pH pL wH cb2 : ℝ) :
    alN_set (l ^ 4 * eH) (l ^ 4 * eL) (l ^ 4 * pH) (l ^ 4 * pL) (l ^ 4 * wH) cb2
      = alN_set eH eL pH pL wH cb2 := by
  have hl4 : l ^ 4 ≠ 0 := pow_ne_zero _ hl.ne'
  unfold alN_set
  simp only [← mul_sub, mul_div_assoc]
  rw [mul_left_comm 3, ← mul_div_assoc, mul_div_mul_left _ _ hl4]

theorem psiN_set_scale (hl : 0 < l) (wL wH : ℝ) : psiN_set (l ^ 4 * wL) (l ^ 4 * wH) = psiN_set wL wH := by
  unfold psiN_set; exact mul_div_mul_left _ _ (pow_ne_zero _ hl.ne')

theorem epsilon_set_scale (wN mu nu alN : ℝ) :
    epsilon_set (l ^ 4 * wN) mu nu alN = l ^ 4 * epsilon_set wN mu nu alN := by
  unfold epsilon_set; ring

end template

/-! ## (d) Grids -/
section grid
open Gen.R.Grid

/-- lengths ÷ l, momenta × l -/
noncomputable def scaleGrid (l : ℝ) (s : GridP) : GridP :=
  { positionFalloff := s.positionFalloff / l, momentumFalloffT := l * s.momentumFalloffT }

theorem decompactify_scale (s : GridP) (χ ρz ρp : ℝ) :
    decompactify (scaleGrid l s) χ ρz ρp
      = ((decompactify s χ ρz ρp).1 / l, l * (decompactify s χ ρz ρp).2.1,
          l * (decompactify s χ ρz ρp).2.2) := by
  unfold decompactify
  simp only [scaleGrid]
  ext <;> simp <;> ring

theorem compactificationDerivatives_scale (s : GridP) (χ ρz ρp : ℝ) :
    compactificationDerivatives (scaleGrid l s) χ ρz ρp
      = ((compactificationDerivatives s χ ρz ρp).1 / l, l * (compactificationDerivatives s χ ρz ρp).2.1,
          l * (compactificationDerivatives s χ ρz ρp).2.2) := by
  unfold compactificationDerivatives
  simp only [scaleGrid]
  ext <;> simp <;> ring

theorem compactify_scale (hl : 0 < l) (s : GridP) (z pz pp : ℝ) :
    compactify (scaleGrid l s) (z / l) (l * pz) (l * pp) = compactify s z pz pp := by
  unfold compactify
  simp only [scaleGrid]
  have h1 : (s.positionFalloff / l) ^ 2 + (z / l) ^ 2 = (s.positionFalloff ^ 2 + z ^ 2) / l ^ 2 := by
    ring
  have h2 : l * pz / 2 / (l * s.momentumFalloffT) = pz / 2 / s.momentumFalloffT := by
    rw [mul_div_assoc, mul_div_mul_left _ _ hl.ne']
  have h3 : -(l * pp) / (l * s.momentumFalloffT) = -pp / s.momentumFalloffT := by
    rw [← mul_neg, mul_div_mul_left _ _ hl.ne']
  rw [h1, h2, h3, Real.sqrt_div' _ (sq_nonneg l), Real.sqrt_sq hl.le,
    div_div_div_cancel_right₀ hl.ne']

end grid

section grid3
open Gen.R.Grid3

/-- three-scale grid: tail lengths, wall thickness, wall centre ÷ l; momentum falloff × l; `aIn, aOut`,
`ratioPointsWall`, `smoothing` dimensionless. -/
noncomputable def scaleGrid3 (l : ℝ) (s : Grid3P) : Grid3P :=
  { s with tailLengthInside := s.tailLengthInside / l, tailLengthOutside := s.tailLengthOutside / l,
           wallThickness := s.wallThickness / l, wallCenter := s.wallCenter / l,
           momentumFalloffT := l * s.momentumFalloffT }

theorem decompactify3_scale (s : Grid3P) (χ ρz ρp : ℝ) :
    decompactify (scaleGrid3 l s) χ ρz ρp
      = ((decompactify s χ ρz ρp).1 / l, l * (decompactify s χ ρz ρp).2.1,
          l * (decompactify s χ ρz ρp).2.2) := by
  unfold decompactify
  simp only [scaleGrid3]
  ext <;> simp <;> ring

theorem compactificationDerivatives3_scale (s : Grid3P) (χ ρz ρp : ℝ) :
    compactificationDerivatives (scaleGrid3 l s) χ ρz ρp
      = ((compactificationDerivatives s χ ρz ρp).1 / l,
          l * (compactificationDerivatives s χ ρz ρp).2.1,
          l * (compactificationDerivatives s χ ρz ρp).2.2) := by
  unfold compactificationDerivatives
  simp only [scaleGrid3]
  ext <;> simp <;> ring

theorem a_set_aux (hl : 0 < l) (sm L r t : ℝ) :
    Real.sqrt (4 * sm * (L / l) * r ^ 2 * (2 * r * (t / l) - L / l * (1 + sm)))
        / |2 * r * (t / l) - L / l * (1 + 2 * sm)|
      = Real.sqrt (4 * sm * L * r ^ 2 * (2 * r * t - L * (1 + sm))) / |2 * r * t - L * (1 + 2 * sm)| := by
  have h1 : 4 * sm * (L / l) * r ^ 2 * (2 * r * (t / l) - L / l * (1 + sm))
      = (4 * sm * L * r ^ 2 * (2 * r * t - L * (1 + sm))) / l ^ 2 := by ring
  have h2 : 2 * r * (t / l) - L / l * (1 + 2 * sm) = (2 * r * t - L * (1 + 2 * sm)) / l := by ring
  rw [h1, h2, Real.sqrt_div' _ (sq_nonneg l), Real.sqrt_sq hl.le, abs_div, abs_of_pos hl,
    div_div_div_cancel_right₀ hl.ne']

theorem aIn_set_scale (hl : 0 < l) (tIn tOut L r sm c : ℝ) :
    aIn_set (tIn / l) (tOut / l) (L / l) r sm (c / l) = aIn_set tIn tOut L r sm c := by
  unfold aIn_set; exact a_set_aux hl sm L r tIn

theorem aOut_set_scale (hl : 0 < l) (tIn tOut L r sm c : ℝ) :
    aOut_set (tIn / l) (tOut / l) (L / l) r sm (c / l) = aOut_set tIn tOut L r sm c := by
  unfold aOut_set; exact a_set_aux hl sm L r tOut

end grid3

/-! ## (e) Boltzmann -/
section boltz
open Gen.R.Boltz

/-- `getDeltas` common factor: energy weight 1, `d³p/E` measure weight 2. -/
theorem deltaIntegrand_scale (hl : 0 < l) (msq pz pp dxi dpz dpp : ℝ) :
    deltaIntegrand (l ^ 2 * msq) (l * pz) (l * pp) dxi (l * dpz) (l * dpp)
      = (l * (deltaIntegrand msq pz pp dxi dpz dpp).1,
          l ^ 2 * (deltaIntegrand msq pz pp dxi dpz dpp).2) := by
  unfold deltaIntegrand
  have h1 : l ^ 2 * msq + (l * pz) ^ 2 + (l * pp) ^ 2 = l ^ 2 * (msq + pz ^ 2 + pp ^ 2) := by ring
  simp only [h1, Real.sqrt_mul (sq_nonneg l), Real.sqrt_sq hl.le]
  ext
  · rfl
  · simp only
    rw [show l * dpz * (l * dpp) * (l * pp) = l * (l ^ 2 * (dpz * dpp * pp)) by ring,
      show 4 * Real.pi ^ 2 * (l * Real.sqrt (msq + pz ^ 2 + pp ^ 2))
        = l * (4 * Real.pi ^ 2 * Real.sqrt (msq + pz ^ 2 + pp ^ 2)) by ring,
      mul_div_mul_left _ _ hl.ne', mul_div_assoc]

theorem weightDelta00_scale (pz E I : ℝ) :
    weightDelta00 (l * pz) (l * E) (l ^ 2 * I) = l ^ 2 * weightDelta00 pz E I := rfl
theorem weightDelta02_scale (pz E I : ℝ) :
    weightDelta02 (l * pz) (l * E) (l ^ 2 * I) = l ^ 4 * weightDelta02 pz E I := by
  unfold weightDelta02; ring
theorem weightDelta20_scale (pz E I : ℝ) :
    weightDelta20 (l * pz) (l * E) (l ^ 2 * I) = l ^ 4 * weightDelta20 pz E I := by
  unfold weightDelta20; ring
theorem weightDelta11_scale (pz E I : ℝ) :
    weightDelta11 (l * pz) (l * E) (l ^ 2 * I) = l ^ 4 * weightDelta11 pz E I := by
  unfold weightDelta11; ring

/-- `buildLinearEquations` source term: weight 2; `momentumWall` weight 1, `gammaWall` weight 0,
`dχ/dξ` weight 1, `dρz/dpz` weight −1. -/
theorem sourceTerm_scale (hl : 0 < l) (vw pz E v T dv dT dM st dxi dpz dpp : ℝ) :
    sourceTerm vw (l * pz) (l * E) v (l * T) dv (l * dT) (l ^ 2 * dM) st (dxi / l) (l * dpz) (l * dpp)
      = (l ^ 2 * (sourceTerm vw pz E v T dv dT dM st dxi dpz dpp).1,
          l * (sourceTerm vw pz E v T dv dT dM st dxi dpz dpp).2.1,
          (sourceTerm vw pz E v T dv dT dM st dxi dpz dpp).2.2.1,
          l * (sourceTerm vw pz E v T dv dT dM st dxi dpz dpp).2.2.2.1,
          (sourceTerm vw pz E v T dv dT dM st dxi dpz dpp).2.2.2.2 / l) := by
  unfold sourceTerm
  have hl' := hl.ne'
  have hE : ∀ g : ℝ, g * (l * E - v * (l * pz)) / (l * T) = g * (E - v * pz) / T := fun g => by
    rw [show g * (l * E - v * (l * pz)) = l * (g * (E - v * pz)) by ring, mul_div_mul_left _ _ hl']
  simp only [hE]
  ext
  · simp only
    generalize dfeq _ st = F
    by_cases hT : T = 0
    · subst hT; simp
    by_cases hx : dxi = 0
    · subst hx; simp
    field_simp
  · simp only; ring
  · rfl
  · simp only [one_div, inv_div]; rw [div_eq_mul_inv]
  · simp only [mul_inv, div_eq_mul_inv]; ring

end boltz


/-! ## (f) Equation-of-motion model -/
section eom
open Model.EOM Lemmas.EOM

theorem fieldProfile_scale (hl : 0 < l) (z lo hi L δ : ℝ) :
    fieldProfile Real.tanh (1 / 2) 1 (z / l) (l * lo) (l * hi) (L / l) δ
      = l * fieldProfile Real.tanh (1 / 2) 1 z lo hi L δ := by
  unfold fieldProfile; rw [div_div_div_cancel_right₀ hl.ne']; ring

theorem fieldGradient_scale (hl : 0 < l) (z lo hi L δ : ℝ) :
    fieldGradient Real.cosh (1 / 2) (z / l) (l * lo) (l * hi) (L / l) δ
      = l ^ 2 * fieldGradient Real.cosh (1 / 2) z lo hi L δ := by
  unfold fieldGradient
  rw [div_div_div_cancel_right₀ hl.ne']
  generalize Real.cosh (z / L + δ) * Real.cosh (z / L + δ) = C
  rw [show L / l * C = L * C / l by ring, div_div_eq_mul_div]; ring

theorem getD_map_lt {F : ℝ → ℝ} (xs : List ℝ) {i : ℕ} (hi : i < xs.length) (d : ℝ) :
    (xs.map F).getD i d = F (xs.getD i d) := by
  simp [List.getD_eq_getElem?_getD, hi]

/-- `wallProfile` for all fields at once: fields × l, gradients × l². -/
theorem wallProfile_scale (hl : 0 < l) (z : ℝ) (lo hi w o : List ℝ)
    (hhi : hi.length = lo.length) (hw : w.length = lo.length) :
    wallProfile Real.tanh Real.cosh (1 / 2) 1 (z / l) (lo.map (l * ·)) (hi.map (l * ·))
        (w.map (· / l)) o
      = ((wallProfile Real.tanh Real.cosh (1 / 2) 1 z lo hi w o).1.map (l * ·),
         (wallProfile Real.tanh Real.cosh (1 / 2) 1 z lo hi w o).2.map (l ^ 2 * ·)) := by
  refine Prod.ext ?_ ?_
  · rw [wallProfile_fst, wallProfile_fst]
    simp only [List.length_map, List.map_map]
    refine List.map_congr_left fun i hi' => ?_
    have hi'' : i < lo.length := List.mem_range.mp hi'
    simp only [Function.comp]
    rw [getD_map_lt _ hi'', getD_map_lt _ (hhi ▸ hi''), getD_map_lt _ (hw ▸ hi''),
      fieldProfile_scale hl]
  · rw [wallProfile_snd, wallProfile_snd]
    simp only [List.length_map, List.map_map]
    refine List.map_congr_left fun i hi' => ?_
    have hi'' : i < lo.length := List.mem_range.mp hi'
    simp only [Function.comp]
    rw [getD_map_lt _ hi'', getD_map_lt _ (hhi ▸ hi''), getD_map_lt _ (hw ▸ hi''),
      fieldGradient_scale hl]

theorem disc_scale (hl : 0 < l) (w s1 : ℝ) : disc (l ^ 4 * w) (l ^ 4 * s1) = l ^ 4 * disc w s1 := by
  unfold disc
  rw [show 4 * (l ^ 4 * s1 * (l ^ 4 * s1)) + l ^ 4 * w * (l ^ 4 * w)
      = (l ^ 4) ^ 2 * (4 * (s1 * s1) + w * w) by ring,
    Real.sqrt_mul (sq_nonneg _), Real.sqrt_sq (by positivity)]

theorem plasmaVelocity_scale (hl : 0 < l) (w s1 : ℝ) :
    plasmaVelocity Real.sqrt 2 4 (l ^ 4 * w) (l ^ 4 * s1) = plasmaVelocity Real.sqrt 2 4 w s1 := by
  have hl4 : l ^ 4 ≠ 0 := pow_ne_zero _ hl.ne'
  rw [plasmaVelocity_eq, plasmaVelocity_eq, disc_scale hl, ← mul_neg, ← mul_add, mul_left_comm 2,
    mul_div_mul_left _ _ hl4]

theorem tempEqLHS_scale (hl : 0 < l) (d : List ℝ) (veff w s1 s2 : ℝ) :
    tempEqLHS Real.sqrt 0 (1 / 2) 4 (d.map (l ^ 2 * ·)) (l ^ 4 * veff) (l ^ 4 * w) (l ^ 4 * s1)
        (l ^ 4 * s2)
      = l ^ 4 * tempEqLHS Real.sqrt 0 (1 / 2) 4 d veff w s1 s2 := by
  rw [tempEqLHS_eq, tempEqLHS_eq, disc_scale hl, List.map_map]
  have : ((fun x : ℝ => x * x) ∘ fun x => l ^ 2 * x) = fun x => l ^ 4 * (x * x) := by
    funext x; simp only [Function.comp]; ring
  rw [this, List.sum_map_mul_left]; ring

/-- rescaling of the per-particle moments: `msq`, `Δ00` weight 2; `Δ02, Δ20, Δ11` weight 4. -/
def scalePDelta (l : ℝ) (p : PDelta ℝ) : PDelta ℝ :=
  { dofs := p.dofs, msq := l ^ 2 * p.msq, d00 := l ^ 2 * p.d00, d02 := l ^ 4 * p.d02,
    d20 := l ^ 4 * p.d20, d11 := l ^ 4 * p.d11 }

theorem deltaToTmunu_scale (v : ℝ) (ps : List (PDelta ℝ)) :
    deltaToTmunu Real.sqrt 0 1 2 3 4 v (ps.map (scalePDelta l))
      = (l ^ 4 * (deltaToTmunu Real.sqrt 0 1 2 3 4 v ps).1,
         l ^ 4 * (deltaToTmunu Real.sqrt 0 1 2 3 4 v ps).2) := by
  rw [deltaToTmunu_eq, deltaToTmunu_eq, List.map_map, List.map_map]
  have h30 : (t30One v ∘ scalePDelta l) = fun p => l ^ 4 * t30One v p := by
    funext p; simp only [Function.comp, t30One, scalePDelta]; ring
  have h33 : (t33One v ∘ scalePDelta l) = fun p => l ^ 4 * t33One v p := by
    funext p; simp only [Function.comp, t33One, scalePDelta]; ring
  rw [h30, h33, List.sum_map_mul_left, List.sum_map_mul_left]

theorem foldl_max_map {g : ℝ → ℝ} (hg : StrictMono g) (xs : List ℝ) (a : ℝ) :
    (xs.map g).foldl (fun a b => if a < b then b else a) (g a)
      = g (xs.foldl (fun a b => if a < b then b else a) a) := by
  induction xs generalizing a with
  | nil => rfl
  | cons x xs ih =>
    simp only [List.map_cons, List.foldl_cons, hg.lt_iff_lt]
    rw [← ih]; split_ifs <;> rfl

theorem foldl_min_map {g : ℝ → ℝ} (hg : StrictMono g) (xs : List ℝ) (a : ℝ) :
    (xs.map g).foldl (fun a b => if b < a then b else a) (g a)
      = g (xs.foldl (fun a b => if b < a then b else a) a) := by
  induction xs generalizing a with
  | nil => rfl
  | cons x xs ih =>
    simp only [List.map_cons, List.foldl_cons, hg.lt_iff_lt]
    rw [← ih]; split_ifs <;> rfl

theorem strictMono_div (hl : 0 < l) : StrictMono (fun x : ℝ => x / l) :=
  fun _ _ h => div_lt_div_of_pos_right h hl

theorem maxL_div (hl : 0 < l) (xs : List ℝ) : maxL (xs.map (· / l)) 0 = maxL xs 0 / l := by
  unfold maxL
  have : (xs.map (· / l)).headD 0 = (xs.headD 0) / l := by cases xs <;> simp
  rw [this]; exact foldl_max_map (strictMono_div hl) xs _

theorem minL_div (hl : 0 < l) (xs : List ℝ) : minL (xs.map (· / l)) 0 = minL xs 0 / l := by
  unfold minL
  have : (xs.map (· / l)).headD 0 = (xs.headD 0) / l := by cases xs <;> simp
  rw [this]; exact foldl_min_map (strictMono_div hl) xs _

theorem max2_div (hl : 0 < l) (a b : ℝ) : max2 (a / l) (b / l) = max2 a b / l := by
  rw [max2_eq, max2_eq, max_div_div_right hl.le]

/-- `_updateGrid`: all four lengths (tails, thickness, centre) have weight −1 when the wall widths
and the mean free path have weight −1; the constants `log 2`, `1.05`, `smoothing`, `ratio` are dimensionless. -/
theorem updateGrid_scale (hl : 0 < l) (log2 c105 : ℝ) (widths offsets : List ℝ) (vmid mfp : ℝ)
    (inc : Bool) (sm ratio : ℝ) :
    updateGrid Real.sqrt 1 2 (1 / 2) log2 c105 (widths.map (· / l)) offsets vmid (mfp / l) inc sm
        ratio 0
      = ((updateGrid Real.sqrt 1 2 (1 / 2) log2 c105 widths offsets vmid mfp inc sm ratio 0).1 / l,
         (updateGrid Real.sqrt 1 2 (1 / 2) log2 c105 widths offsets vmid mfp inc sm ratio 0).2.1 / l,
         (updateGrid Real.sqrt 1 2 (1 / 2) log2 c105 widths offsets vmid mfp inc sm ratio 0).2.2.1 / l,
         (updateGrid Real.sqrt 1 2 (1 / 2) log2 c105 widths offsets vmid mfp inc sm ratio 0).2.2.2 / l) := by
  unfold updateGrid
  have hH : List.zipWith (fun o w => (1 - o) * w) offsets (widths.map (· / l))
      = (List.zipWith (fun o w => (1 - o) * w) offsets widths).map (· / l) := by
    rw [List.zipWith_map_right, List.map_zipWith]; congr; funext o w; ring
  have hL : List.zipWith (fun o w => (-1 - o) * w) offsets (widths.map (· / l))
      = (List.zipWith (fun o w => (-1 - o) * w) offsets widths).map (· / l) := by
    rw [List.zipWith_map_right, List.map_zipWith]; congr; funext o w; ring
  simp only [hH, hL, maxL_div hl, minL_div hl]
  set M := maxL (List.zipWith (fun o w => (1 - o) * w) offsets widths) 0
  set m := minL (List.zipWith (fun o w => (-1 - o) * w) offsets widths) 0
  set γ := 1 / Real.sqrt (1 - vmid * vmid)
  set off : ℝ := if inc = true then 1 else 0
  have e1 : (M / l - m / l) / 2 = (M - m) / 2 / l := by ring
  have e2 : (M - m) / 2 / l * (1 / 2 + c105 * sm) / ratio
      = (M - m) / 2 * (1 / 2 + c105 * sm) / ratio / l := by ring
  have e3 : mfp / l * γ * off = mfp * γ * off / l := by ring
  have e4 : mfp / l / γ * off = mfp / γ * off / l := by ring
  rw [e1, e2, e3, e4, max2_div hl, max2_div hl]
  refine Prod.ext rfl (Prod.ext rfl (Prod.ext rfl ?_))
  simp only; ring

theorem kinetic_scale (lo hi widths : List ℝ) :
    kinetic 0 6 (lo.map (l * ·)) (hi.map (l * ·)) (widths.map (· / l))
      = l ^ 3 * kinetic 0 6 lo hi widths := by
  unfold kinetic
  have h1 : List.zipWith (fun h l => h - l) (hi.map (l * ·)) (lo.map (l * ·))
      = (List.zipWith (fun h l => h - l) hi lo).map (l * ·) := by
    rw [List.zipWith_map, List.map_zipWith]; congr; funext a b; ring
  have h2 : (fun d L : ℝ => (l * d) * (l * d) / (6 * (L / l)))
      = fun d L => l ^ 3 * (d * d / (6 * L)) := by
    funext d L
    rw [show 6 * (L / l) = 6 * L / l by ring, div_div_eq_mul_div]; ring
  rw [sum_eq, sum_eq, h1, List.zipWith_map, h2, Lemmas.Stencil.zipWith_sum_mul_left]

end eom

/-! ## T07.2  finite-difference stencils -/
section stencil
open Model.Deriv Lemmas.Stencil

/-- A stencil applied to the rescaled function `y ↦ k·f(y/l)` at the rescaled point with the rescaled
step is `k / lⁿ` times the stencil applied to `f`. -/
theorem applyStencil_scale (hl : 0 < l) (pos coef : List ℚ) (f : ℝ → ℝ) (k : ℝ) (n : ℕ) (x h : ℝ) :
    applyStencil cR pos coef (fun y => k * f (y / l)) n (l * x) (l * h)
      = k / l ^ n * applyStencil cR pos coef f n x h := by
  rw [applyStencil_eq_sum, applyStencil_eq_sum, ← zipWith_sum_mul_left]
  congr 2
  funext p q
  have e : (l * x + (p : ℝ) * (l * h)) / l = x + (p : ℝ) * h := by
    rw [show l * x + (p : ℝ) * (l * h) = l * (x + (p : ℝ) * h) by ring, mul_div_cancel_left₀ _ hl.ne']
  rw [e, mul_pow]
  have : l ^ n ≠ 0 := pow_ne_zero _ hl.ne'
  rw [← div_div]; ring

/-- integer-weight form: if `f` has weight `d` then its `n`-th difference quotient has weight `d − n`. -/
theorem applyStencil_scale_zpow (hl : 0 < l) (pos coef : List ℚ) (f : ℝ → ℝ) (d : ℤ) (n : ℕ)
    (x h : ℝ) :
    applyStencil cR pos coef (fun y => l ^ d * f (y / l)) n (l * x) (l * h)
      = l ^ (d - n) * applyStencil cR pos coef f n x h := by
  rw [applyStencil_scale hl, zpow_sub₀ hl.ne', zpow_natCast]

/-- bounds rescaled by `l`. -/
def scaleBounds (l : ℝ) (b : Bounds ℝ) : Bounds ℝ := ⟨b.lo.map (l * ·), b.hi.map (l * ·)⟩

theorem aboveHi_scale (hl : 0 < l) (b : Bounds ℝ) (y : ℝ) :
    aboveHi (scaleBounds l b) (l * y) = aboveHi b y := by
  unfold aboveHi scaleBounds
  cases b.hi <;> simp [mul_lt_mul_iff_right₀ hl]

theorem belowLo_scale (hl : 0 < l) (b : Bounds ℝ) (y : ℝ) :
    belowLo (scaleBounds l b) (l * y) = belowLo b y := by
  unfold belowLo scaleBounds
  cases b.lo <;> simp [mul_lt_mul_iff_right₀ hl]

theorem offset_scale (hl : 0 < l) (order : ℕ) (x dx : ℝ) (b : Bounds ℝ) :
    offset cR order (l * x) (l * dx) (scaleBounds l b) = offset cR order x dx b := by
  unfold offset
  have e1 : l * x + l * dx = l * (x + dx) := by ring
  have e2 : l * x - l * dx = l * (x - dx) := by ring
  have e3 : l * x + cR 2 * (l * dx) = l * (x + cR 2 * dx) := by ring
  have e4 : l * x - cR 2 * (l * dx) = l * (x - cR 2 * dx) := by ring
  simp only [e1, e2, e3, e4, aboveHi_scale hl, belowLo_scale hl]

/-- the row (central / one-sided) chosen by `derivative` is scale invariant. -/
theorem rowOf_scale (hl : 0 < l) (n order : ℕ) (x dx : ℝ) (b : Bounds ℝ) :
    rowOf cR n order (l * x) (l * dx) (scaleBounds l b) = rowOf cR n order x dx b := by
  unfold rowOf; rw [offset_scale hl]

/-- `helpers.derivative` is covariant: the `n`-th derivative of a weight-`d` function of a weight-1
variable has weight `d − n`, provided the step `dx` and the bounds are rescaled with the variable. -/
theorem derivative_scale (hl : 0 < l) (f : ℝ → ℝ) (k : ℝ) (n order : ℕ) (x dx : ℝ) (b : Bounds ℝ) :
    derivative cR (fun y => k * f (y / l)) n order (l * x) (l * dx) (scaleBounds l b)
      = k / l ^ n * derivative cR f n order x dx b := by
  unfold derivative
  simp only [rowOf_scale hl, applyStencil_scale hl]

theorem derivative_scale_zpow (hl : 0 < l) (f : ℝ → ℝ) (d : ℤ) (n order : ℕ) (x dx : ℝ)
    (b : Bounds ℝ) :
    derivative cR (fun y => l ^ d * f (y / l)) n order (l * x) (l * dx) (scaleBounds l b)
      = l ^ (d - n) * derivative cR f n order x dx b := by
  rw [derivative_scale hl, zpow_sub₀ hl.ne', zpow_natCast]

/-- the step rule `dx = scale · ε^{1/(n+order)}` is homogeneous in the user-supplied `scale`. -/
theorem step_scale (scale eps e : ℝ) : (l * scale) * eps ^ e = l * (scale * eps ^ e) := by ring

end stencil

/-! ## T07.3  decision predicates containing absolute constants -/
section predicates

theorem max_eq_max_iff (A a b : ℝ) : max A a = max A b ↔ a = b ∨ (a ≤ A ∧ b ≤ A) := by
  constructor
  · intro h
    by_cases ha : a ≤ A
    · by_cases hb : b ≤ A
      · exact Or.inr ⟨ha, hb⟩
      · rw [max_eq_left ha, max_eq_right (le_of_not_ge hb)] at h
        exact absurd (h ▸ le_rfl) hb
    · rw [max_eq_right (le_of_not_ge ha)] at h
      by_cases hb : b ≤ A
      · rw [max_eq_left hb] at h; exact absurd (h ▸ le_rfl) ha
      · rw [max_eq_right (le_of_not_ge hb)] at h; exact Or.inl h
  · rintro (rfl | ⟨ha, hb⟩)
    · rfl
    · rw [max_eq_left ha, max_eq_left hb]

/-- `wallPressure`'s tolerance `errTol = max(rtol·|p|, atol)`: it has the weight 4 of the pressure iff
the relative branch is active before and after rescaling (for `atol ≠ 0`, `l⁴ ≠ 1`). -/
theorem errTol_scale_iff (hl : 0 < l) (hl1 : l ^ 4 ≠ 1) (rtol atol p : ℝ) (ha : atol ≠ 0) :
    max (rtol * |l ^ 4 * p|) atol = l ^ 4 * max (rtol * |p|) atol
      ↔ atol ≤ rtol * |p| ∧ atol ≤ rtol * |l ^ 4 * p| := by
  have hl4 : 0 < l ^ 4 := by positivity
  have e : rtol * |l ^ 4 * p| = l ^ 4 * (rtol * |p|) := by
    rw [abs_mul, abs_of_pos hl4]; ring
  rw [mul_max_of_nonneg _ _ hl4.le, ← e, max_eq_max_iff]
  constructor
  · rintro (h | ⟨h1, h2⟩)
    · exfalso; apply hl1
      have := mul_right_cancel₀ ha ((one_mul atol).trans h)
      exact this.symm
    · refine ⟨?_, h1⟩
      rw [e] at h2; exact le_of_mul_le_mul_left h2 hl4
  · rintro ⟨h1, h2⟩
    refine Or.inr ⟨h2, ?_⟩
    rw [e]; exact mul_le_mul_of_nonneg_left h1 hl4.le

/-- the absolute threshold of `|Tn − T₊| < ε` is equivalent, after rescaling, to the threshold `ε/l`. -/
theorem abs_sub_lt_scale (hl : 0 < l) (Tn Tp eps : ℝ) :
    |l * Tn - l * Tp| < eps ↔ |Tn - Tp| < eps / l := by
  rw [← mul_sub, abs_mul, abs_of_pos hl, lt_div_iff₀ hl, mul_comm]

/-- comparisons between two quantities of the same weight are invariant. -/
theorem lt_scale_iff (hl : 0 < l) (k : ℕ) (a b : ℝ) : l ^ k * a < l ^ k * b ↔ a < b :=
  mul_lt_mul_iff_right₀ (pow_pos hl k)

end predicates
/-! ## (c') template `__init__` commutes with the rescaling -/
section templInit
open Gen.R.Template Gen.R.Hydro Lemmas.Template

/-- `HydrodynamicsTemplateModel.__init__` commutes with the rescaling: if `t` is the template state
built from the thermodynamics `s`, then `scaleTempl l t` is the one built from `scaleHydro l s`.
In particular `alN_set, psiN_set, nu_set, mu_set` (and `cb2, cs2, cb, cs, vJ`) are invariant and
`wN, pN, epsilon_set` have weight 4, `Tnucl` weight 1. -/
theorem isTemplateOf_scale (hl : 0 < l) {t : TemplP} {s : HydroP} (h : IsTemplateOf t s) :
    IsTemplateOf (scaleTempl l t) (scaleHydro l s) := by
  have hT : (scaleHydro l s).Tnucl = l * s.Tnucl := rfl
  constructor
  · show t.cb2 = _
    rw [hT, sh_csqLowT hl]; exact h.cb2
  · show t.cs2 = _
    rw [hT, sh_csqHighT hl]; exact h.cs2
  · show t.alN = alN_set _ _ _ _ _ t.cb2
    rw [hT, sh_wHighT hl, sh_pHighT hl, sh_wLowT hl, sh_pLowT hl, ← mul_sub, ← mul_sub,
      alN_set_scale hl]
    exact h.alN
  · show t.psiN = _
    rw [hT, sh_wHighT hl, sh_wLowT hl, psiN_set_scale hl]; exact h.psiN
  · exact h.cb
  · exact h.cs
  · show l ^ 4 * t.wN = _
    rw [hT, sh_wHighT hl, h.wN]
  · show l ^ 4 * t.pN = _
    rw [hT, sh_pHighT hl, h.pN]
  · show l * t.Tnucl = _
    rw [hT, h.Tnucl]
  · exact h.nu
  · exact h.mu
  · exact h.vJ
  · show l ^ 4 * t.epsilon = epsilon_set (l ^ 4 * t.wN) t.mu t.nu t.alN
    rw [epsilon_set_scale, h.epsilon]

end templInit

/-! ## (a') `Extrapolated` is preserved -/
section extrap
open Gen.R.Thermo Lemmas.Thermo

/-- `setExtrapolate` commutes with the rescaling, in fixed-point form: if `s` is a state left by
`setExtrapolate` then so is `scaleThermo l s`.  No well-formedness side condition is needed. -/
theorem extrapolated_scale (hl : 0 < l) {s : ThermoP} (h : Extrapolated s) :
    Extrapolated (scaleThermo l s) := by
  obtain ⟨h1, h2, h3, h4, h5, h6, h7, h8, h9, h10, h11, h12⟩ := h
  refine ⟨?_, ?_, ?_, ?_, ?_, ?_, ?_, ?_, ?_, ?_, ?_, ?_⟩
  · rw [muMinHighT_set_scale hl]; exact h1
  · rw [aMinHighT_set_scale hl, ← h2]; rfl
  · rw [epsilonMinHighT_set_scale hl, ← h3]; rfl
  · rw [muMaxHighT_set_scale hl]; exact h4
  · rw [aMaxHighT_set_scale hl, ← h5]; rfl
  · rw [epsilonMaxHighT_set_scale hl, ← h6]; rfl
  · rw [muMinLowT_set_scale hl]; exact h7
  · rw [aMinLowT_set_scale hl, ← h8]; rfl
  · rw [epsilonMinLowT_set_scale hl, ← h9]; rfl
  · rw [muMaxLowT_set_scale hl]; exact h10
  · rw [aMaxLowT_set_scale hl, ← h11]; rfl
  · rw [epsilonMaxLowT_set_scale hl, ← h12]; rfl

end extrap

end Lemmas.Scaling
