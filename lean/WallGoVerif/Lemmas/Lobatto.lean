/-
Gauss–Chebyshev–Lobatto quadrature: exactness for polynomials of degree `≤ 2M-1` (pure Mathlib part,
namespace `Lob`), and its connection to the weights/nodes used by polynomial.py `integrate`
(`Model.Poly.gclWeights`, nodes `-cos(jπ/M)` of grid.py).
-/
import WallGoVerif.Lemmas.ChebyshevModel
import Mathlib.Analysis.SpecialFunctions.Trigonometric.Chebyshev.ChebyshevGauss
import Mathlib.Tactic

open Real Polynomial Finset Polynomial.Chebyshev
open Complex (exp I)

namespace Lob

/-- trapezoid form of the Lobatto sum -/
noncomputable def sumLob (n : ℕ) (P : ℝ[X]) : ℝ :=
  (π / n) * ∑ i ∈ range n, (P.eval (cos (i * π / n)) + P.eval (cos ((i + 1 : ℕ) * π / n))) / 2

private lemma exp_ne_one {n : ℕ} {k : ℤ} (hn : n ≠ 0) (hk : ¬ (2 * n : ℤ) ∣ k) :
    exp (k / n * π * I) ≠ 1 := by
  contrapose hk
  obtain ⟨m, hx⟩ := Complex.exp_eq_one_iff.mp hk
  have h : k = 2 * n * m := by
    apply (@Int.cast_inj ℂ _ _).mp
    linear_combination (norm := (push_cast; field [show (n : ℂ) ≠ 0 by aesop])) hx * (n / π / I)
  use m

/-- geometric sum of the `2n`-th roots of unity powers (first `n` terms) -/
theorem sum_exp {n : ℕ} {k : ℤ} (hn : n ≠ 0) (hk : ¬ (2 * n : ℤ) ∣ k) :
    ∑ i ∈ range n, exp ((k * (i * π / n)) * I) =
      ((-1) ^ k - 1) / (exp (k / n * π * I) - 1) := by
  have hne : exp (k / n * π * I) - 1 ≠ 0 := sub_ne_zero.mpr (exp_ne_one hn hk)
  rw [eq_div_iff hne]
  convert! geom_sum_mul (exp (k / n * π * I)) n using 1
  · congr 1
    apply Finset.sum_congr rfl
    intro i _
    rw [← Complex.exp_nat_mul]
    congr 1
    field_simp
  · rw [← Complex.exp_nat_mul,
      show (n * (k / n * π * I)) = k * (π * I) by field [show (n : ℂ) ≠ 0 by aesop],
      Complex.exp_int_mul, Complex.exp_pi_mul_I]

open Complex in
/-- the Lobatto (trapezoid) node sum of `T_k` vanishes unless `2n ∣ k` -/
theorem sumLob_T_of_not_dvd {n : ℕ} {k : ℤ} (hn : n ≠ 0) (hk : ¬ (2 * n : ℤ) ∣ k) :
    sumLob n (T ℝ k) = 0 := by
  have hk' : ¬ (2 * n : ℤ) ∣ (-k) := by simpa using hk
  suffices h : ∑ i ∈ range n, (2 * Real.cos (k * (i * π / n)) + 2 * Real.cos (k * ((i + 1 : ℕ) * π / n))) = 0 by
    rw [sumLob]
    simp only [T_real_cos]
    have : ∑ i ∈ range n, (Real.cos (k * (i * π / n)) + Real.cos (k * ((i + 1 : ℕ) * π / n))) / 2
        = (1/4) * ∑ i ∈ range n, (2 * Real.cos (k * (i * π / n)) + 2 * Real.cos (k * ((i + 1 : ℕ) * π / n))) := by
      rw [mul_sum]; apply sum_congr rfl; intro i _; ring
    rw [this, h]; ring
  suffices h : ((∑ i ∈ range n, (2 * Real.cos (k * (i * π / n)) + 2 * Real.cos (k * ((i + 1 : ℕ) * π / n))) : ℝ) : ℂ) = 0 by
    exact_mod_cast h
  push_cast
  simp_rw [Complex.two_cos, ← neg_mul, ← Int.cast_neg]
  have e1 : ∀ i : ℕ, exp (↑k * ((↑i + 1) * ↑π / ↑n) * I) = exp (k / n * π * I) * exp ((k * (i * π / n)) * I) := by
    intro i; rw [← Complex.exp_add]; congr 1; field_simp; ring
  have e2 : ∀ i : ℕ, exp (↑(-k) * ((↑i + 1) * ↑π / ↑n) * I) = exp ((-k : ℤ) / n * π * I) * exp (((-k : ℤ) * (i * π / n)) * I) := by
    intro i; rw [← Complex.exp_add]; congr 1; field_simp; ring
  simp_rw [e1, e2]
  rw [sum_add_distrib, sum_add_distrib, sum_add_distrib, ← mul_sum, ← mul_sum,
    sum_exp hn hk, sum_exp hn hk']
  have hs : (-1 : ℂ) ^ (-k) = (-1) ^ k := by rw [← Int.cast_negOnePow, ← Int.cast_negOnePow]; simp
  rw [hs]
  set z := exp (k / n * π * I) with hz
  have hz0 : z ≠ 0 := Complex.exp_ne_zero _
  have hz1 : z - 1 ≠ 0 := sub_ne_zero.mpr (exp_ne_one hn hk)
  have hw : exp ((-k : ℤ) / n * π * I) = z⁻¹ := by
    rw [hz, ← Complex.exp_neg]; congr 1; push_cast; ring
  rw [hw]
  have hz1' : z⁻¹ - 1 ≠ 0 := by
    intro h; apply hz1; have : z⁻¹ = 1 := by linear_combination h
    rw [inv_eq_one] at this; rw [this]; ring
  have h1z : 1 - z ≠ 0 := by intro h; apply hz1; linear_combination -h
  field_simp
  ring

/-- `sumLob` is additive -/
theorem sumLob_sum (n : ℕ) {ι : Type*} (s : Finset ι) (P : ι → ℝ[X]) :
    sumLob n (∑ i ∈ s, P i) = ∑ i ∈ s, sumLob n (P i) := by
  simp_rw [sumLob, eval_finsetSum, ← sum_add_distrib, ← sum_div]
  rw [sum_comm, sum_div, mul_sum]

/-- `sumLob` is homogeneous -/
theorem sumLob_smul (n : ℕ) (c : ℝ) (P : ℝ[X]) :
    sumLob n (c • P) = c * sumLob n P := by
  simp_rw [sumLob, eval_smul, smul_eq_mul, mul_sum]
  apply sum_congr rfl; intro i _; ring

/-- the Lobatto sum of the constant `T_0 = 1` is `π` -/
theorem sumLob_T_zero {n : ℕ} (hn : n ≠ 0) : sumLob n (T ℝ 0) = π := by
  have : (n : ℝ) ≠ 0 := by exact_mod_cast hn
  simp [sumLob]
  field_simp

/-- **Gauss–Chebyshev–Lobatto exactness, measure form.**  For `deg P < 2n` the integral of `P` against
the Chebyshev weight `1/√(1-x²)` on `[-1,1]` equals the Lobatto node sum (same proof as Mathlib's
`integral_eq_sumZeroes` for the Gauss rule). -/
theorem integral_eq_sumLob {n : ℕ} {P : ℝ[X]} (hn : n ≠ 0) (hP : P.degree < 2 * n) :
    ∫ x, P.eval x ∂measureT = sumLob n P := by
  have hmem : P ∈ degreeLT ℝ (2 * n) := by rwa [mem_degreeLT]
  rw [← Sequence.span_degreeLT (chebyshevTsequence ℝ) (by simp),
    show Set.Iio (2 * n) = Finset.range (2 * n) by simp,
    Submodule.mem_span_image_finset_iff_exists_fun'] at hmem
  obtain ⟨c, rfl⟩ := hmem
  simp_rw [eval_finsetSum, eval_smul]
  rw [MeasureTheory.integral_finsetSum, sumLob_sum]
  · simp_rw [sumLob_smul, smul_eq_mul, MeasureTheory.integral_const_mul]
    congr! with i hrange
    simp_rw [chebyshevTsequence]
    by_cases i = 0
    case pos hi => rw [hi, Nat.cast_zero, integral_eval_T_real_measureT_zero, sumLob_T_zero hn]
    case neg hi =>
      have : ¬ (2 * n : ℤ) ∣ i := by
        refine (Int.not_dvd_iff_lt_mul_succ _ (by grind)).mpr ⟨0, ⟨by grind, ?_⟩⟩
        rw_mod_cast [zero_add, mul_one]
        exact mem_range.mp hrange
      rw [integral_eval_T_real_measureT_of_ne_zero (by grind), sumLob_T_of_not_dvd hn this]
  · simp_rw [← eval_smul]
    exact fun i hi => integrable_measureT (by fun_prop)

/-- Lobatto end-point halving factor: `1/2` for `j = 0` and `j = n`, `1` otherwise. -/
noncomputable def lobW (n j : ℕ) : ℝ := if j = 0 ∨ j = n then 1 / 2 else 1

theorem lobW_reflect {n j : ℕ} (hj : j ≤ n) : lobW n (n - j) = lobW n j := by
  unfold lobW
  have : (n - j = 0 ∨ n - j = n) ↔ (j = 0 ∨ j = n) := by omega
  simp [this]

/-- trapezoid sum = sum with halved end terms -/
theorem trapezoid_eq_weighted {n : ℕ} (hn : n ≠ 0) (f : ℕ → ℝ) :
    ∑ i ∈ range n, (f i + f (i + 1)) / 2 = ∑ j ∈ range (n + 1), lobW n j * f j := by
  have hw : ∀ j, lobW n j * f j
      = f j - (if j = 0 then f j / 2 else 0) - (if j = n then f j / 2 else 0) := by
    intro j
    unfold lobW
    by_cases h0 : j = 0
    · subst h0
      simp [Ne.symm hn]; ring
    · by_cases h1 : j = n
      · subst h1
        simp [h0]; ring
      · simp [h0, h1]
  simp_rw [hw, sum_sub_distrib, sum_ite_eq', mem_range]
  simp only [Nat.lt_add_one, if_true, show 0 < n + 1 by omega]
  simp_rw [add_div, sum_add_distrib]
  have h1 := sum_range_succ (fun i => f i) n
  have h2 := sum_range_succ' (fun i => f i) n
  rw [← sum_div, ← sum_div, h1]
  rw [h1] at h2
  linarith

/-- Lobatto sum of a function at the nodes `cos(jπ/n)`, end terms halved. -/
noncomputable def lobSum (n : ℕ) (g : ℝ → ℝ) : ℝ :=
  (π / n) * ∑ j ∈ range (n + 1), lobW n j * g (cos (j * π / n))

theorem sumLob_eq_lobSum {n : ℕ} (hn : n ≠ 0) (P : ℝ[X]) :
    sumLob n P = lobSum n (fun x => P.eval x) := by
  rw [sumLob, lobSum, ← trapezoid_eq_weighted hn (fun j => P.eval (cos (j * π / n)))]

theorem degree_lt_of_natDegree_le {M : ℕ} (hM : M ≠ 0) {g : ℝ[X]} (hg : g.natDegree ≤ 2 * M - 1) :
    g.degree < 2 * M := by
  refine lt_of_le_of_lt degree_le_natDegree ?_
  have : g.natDegree < 2 * M := by omega
  exact_mod_cast this

/-- `∫ f dμ_T = ∫_{-1}^{1} f(x)/√(1-x²) dx`. -/
theorem integral_measureT_div (f : ℝ → ℝ) :
    ∫ x, f x ∂measureT = ∫ x in (-1 : ℝ)..1, f x / √(1 - x ^ 2) := by
  rw [integral_measureT]
  congr 1; ext x
  rw [Real.sqrt_inv, div_eq_mul_inv]

/-- **Gauss–Chebyshev–Lobatto exactness.**  For `M ≥ 1` and `natDegree g ≤ 2M-1`:
`(π/M)·Σ″_{j=0..M} g(cos(jπ/M)) = ∫_{-1}^{1} g(x)/√(1-x²) dx` (`Σ″`: first and last term halved). -/
theorem gauss_lobatto_exact {M : ℕ} (hM : M ≠ 0) (g : ℝ[X]) (hg : g.natDegree ≤ 2 * M - 1) :
    (π / M) * ∑ j ∈ range (M + 1), lobW M j * g.eval (cos (j * π / M))
      = ∫ x in (-1 : ℝ)..1, g.eval x / √(1 - x ^ 2) := by
  rw [← integral_measureT_div, integral_eq_sumLob hM (degree_lt_of_natDegree_le hM hg),
    sumLob_eq_lobSum hM, lobSum]

theorem neg_cos_node {M : ℕ} (hM : M ≠ 0) {j : ℕ} (hj : j ≤ M) :
    -cos (j * π / M) = cos ((M - j : ℕ) * π / M) := by
  have hM' : (M : ℝ) ≠ 0 := by exact_mod_cast hM
  rw [Nat.cast_sub hj, ← Real.cos_pi_sub]
  congr 1
  field_simp

/-- the same at the code's nodes `x_j = -cos(jπ/M)` (grid.py) -/
theorem gauss_lobatto_exact_neg {M : ℕ} (hM : M ≠ 0) (g : ℝ[X]) (hg : g.natDegree ≤ 2 * M - 1) :
    (π / M) * ∑ j ∈ range (M + 1), lobW M j * g.eval (-cos (j * π / M))
      = ∫ x in (-1 : ℝ)..1, g.eval x / √(1 - x ^ 2) := by
  rw [← gauss_lobatto_exact hM g hg]
  congr 1
  rw [← sum_range_reflect]
  apply sum_congr rfl
  intro j hj
  have hj' : j ≤ M := by have := mem_range.mp hj; omega
  rw [show M + 1 - 1 - j = M - j by omega, lobW_reflect hj', neg_cos_node hM (j := M - j) (by omega)]
  rw [show M - (M - j) = j by omega]

/-- the code's node `x_j = -cos(jπ/M)` -/
noncomputable def node (M j : ℕ) : ℝ := -cos (j * π / M)

theorem node_zero (M : ℕ) : node M 0 = -1 := by simp [node]

theorem node_last {M : ℕ} (hM : M ≠ 0) : node M M = 1 := by
  have hM' : (M : ℝ) ≠ 0 := by exact_mod_cast hM
  simp [node, mul_div_cancel_left₀ _ hM']

theorem node_mem_Ioo {M j : ℕ} (h0 : 0 < j) (hj : j < M) : node M j ∈ Set.Ioo (-1 : ℝ) 1 := by
  have hM' : (0 : ℝ) < M := by exact_mod_cast (by omega : 0 < M)
  have hj0 : (0 : ℝ) < j := by exact_mod_cast h0
  have hjM : (j : ℝ) < M := by exact_mod_cast hj
  have h1 : 0 < (j : ℝ) * π / M := by positivity
  have h2 : (j : ℝ) * π / M < π := by
    rw [div_lt_iff₀ hM']; nlinarith [pi_pos]
  have hc1 : cos (j * π / M) < 1 := by
    have := Real.cos_lt_cos_of_nonneg_of_le_pi le_rfl h2.le h1
    simpa using this
  have hc2 : -1 < cos (j * π / M) := by
    have := Real.cos_lt_cos_of_nonneg_of_le_pi h1.le le_rfl h2
    simpa using this
  constructor <;> simp only [node] <;> linarith

theorem sqrt_node_zero (M : ℕ) : √(1 - node M 0 ^ 2) = 0 := by simp [node_zero]

theorem sqrt_node_last {M : ℕ} (hM : M ≠ 0) : √(1 - node M M ^ 2) = 0 := by simp [node_last hM]

/-- `∫ g/√(1-x²) = ∫ φ` when `φ·√(1-x²) = g` on the open interval. -/
theorem integral_div_sqrt_eq {φ g : ℝ → ℝ}
    (hφ : ∀ x ∈ Set.Ioo (-1 : ℝ) 1, φ x * √(1 - x ^ 2) = g x) :
    ∫ x in (-1 : ℝ)..1, g x / √(1 - x ^ 2) = ∫ x in (-1 : ℝ)..1, φ x := by
  rw [intervalIntegral.integral_of_le (by norm_num), intervalIntegral.integral_of_le (by norm_num),
    MeasureTheory.integral_Ioc_eq_integral_Ioo, MeasureTheory.integral_Ioc_eq_integral_Ioo]
  apply MeasureTheory.setIntegral_congr_fun measurableSet_Ioo
  intro x hx
  have hpos : 0 < √(1 - x ^ 2) := by
    apply Real.sqrt_pos.mpr
    have := hx.1; have := hx.2
    nlinarith
  simp only
  rw [← hφ x hx]
  field_simp


/-- **The sum computed by `integrate` is exact.**  `s` is any index set containing the interior
indices, `wt` any weights equal to `π/M` at the interior indices: end-point terms drop out because of
the `√(1-x²)` factor. -/
theorem code_quadrature_exact {M : ℕ} (hM : M ≠ 0) (s : Finset ℕ) (hs1 : s ⊆ range (M + 1))
    (hs2 : ∀ j, 0 < j → j < M → j ∈ s) (wt : ℕ → ℝ)
    (hwt : ∀ j, 0 < j → j < M → wt j = π / M) (φ : ℝ → ℝ) (g : ℝ[X])
    (hg : g.natDegree ≤ 2 * M - 1)
    (hφ : ∀ x ∈ Set.Ioo (-1 : ℝ) 1, φ x * √(1 - x ^ 2) = g.eval x)
    (hends : g.eval 1 + g.eval (-1) = 0) :
    ∑ j ∈ s, φ (node M j) * √(1 - node M j ^ 2) * wt j = ∫ x in (-1 : ℝ)..1, φ x := by
  rw [← integral_div_sqrt_eq (g := fun x => g.eval x) hφ, ← gauss_lobatto_exact_neg hM g hg]
  have hout : ∀ j ∈ range (M + 1), j ∉ s → φ (node M j) * √(1 - node M j ^ 2) * wt j = 0 := by
    intro j hj hjs
    have hj' : j ≤ M := by have := mem_range.mp hj; omega
    have : j = 0 ∨ j = M := by
      by_contra hcon
      exact hjs (hs2 j (by omega) (by omega))
    rcases this with rfl | rfl
    · simp [node_zero]
    · simp [node_last hM]
  rw [sum_subset hs1 hout]
  have hterm : ∀ j ∈ range (M + 1),
      φ (node M j) * √(1 - node M j ^ 2) * wt j
        = π / M * (lobW M j * g.eval (node M j))
          - (if j = 0 then π / M * (g.eval (-1) / 2) else 0)
          - (if j = M then π / M * (g.eval 1 / 2) else 0) := by
    intro j hj
    have hj' : j ≤ M := by have := mem_range.mp hj; omega
    by_cases h0 : j = 0
    · subst h0
      simp [lobW, Ne.symm hM, node_zero]; ring
    · by_cases h1 : j = M
      · subst h1
        simp [lobW, h0, node_last hM]; ring
      · have hmem := node_mem_Ioo (M := M) (j := j) (by omega) (by omega)
        rw [hφ _ hmem, hwt j (by omega) (by omega)]
        simp [lobW, h0, h1]; ring
  rw [sum_congr rfl hterm, sum_sub_distrib, sum_sub_distrib, sum_ite_eq', sum_ite_eq', ← mul_sum]
  simp only [mem_range, Nat.lt_add_one, if_true, show 0 < M + 1 by omega]
  simp only [node]
  linear_combination (-(π / M) / 2) * hends

end Lob

namespace Lemmas.Lobatto
open Model.Poly Lob

/-- complete Gauss–Lobatto grid of a direction as built by grid.py: `[-cos(jπ/M) : j = 0..M]`
(`M` = grid.M for `z`, grid.N for `pz`, grid.N − 1 for `pp`). -/
noncomputable def lobNodes (M : ℕ) : List ℝ := (List.range (M + 1)).map (node M)

@[simp] theorem lobNodes_length (M : ℕ) : (lobNodes M).length = M + 1 := by simp [lobNodes]

theorem node_lt_node {M : ℕ} {i j : ℕ} (hij : i < j) (hj : j ≤ M) : node M i < node M j := by
  have hM' : (0 : ℝ) < M := by exact_mod_cast (by omega : 0 < M)
  have h1 : (0 : ℝ) ≤ i * π / M := by positivity
  have h2 : (j : ℝ) * π / M ≤ π := by
    rw [div_le_iff₀ hM']
    have : (j : ℝ) ≤ M := by exact_mod_cast hj
    nlinarith [pi_pos]
  have h3 : (i : ℝ) * π / M < j * π / M := by
    have : (i : ℝ) < j := by exact_mod_cast hij
    gcongr
  have := Real.cos_lt_cos_of_nonneg_of_le_pi h1 h2 h3
  simp only [node]; linarith

theorem lobNodes_nodup (M : ℕ) : (lobNodes M).Nodup := by
  apply List.Nodup.map_on _ List.nodup_range
  intro i hi j hj hij
  rw [List.mem_range] at hi hj
  by_contra hne
  rcases Nat.lt_or_gt_of_ne hne with h | h
  · exact absurd hij (ne_of_lt (node_lt_node h (by omega)))
  · exact absurd hij.symm (ne_of_lt (node_lt_node h (by omega)))

theorem lobNodes_head? (M : ℕ) : (lobNodes M).head? = some (-1) := by
  simp [lobNodes, List.range_succ_eq_map, node_zero]

theorem lobNodes_getLast? {M : ℕ} (hM : M ≠ 0) : (lobNodes M).getLast? = some 1 := by
  simp [lobNodes, List.range_succ, node_last hM]


/-- the number formed by `integrate` along one axis from nodal values `φ(x_j)`:
`Σ_j φ(x_j)·√(1-x_j²)·weight_j` over the kept nodes (polynomial.py:538-566). -/
noncomputable def codeQuad (φ : ℝ → ℝ) (d : Dir) (e : Bool) (xs : List ℝ) (piOverN : ℝ) : ℝ :=
  Model.Poly.sum 0 (List.zipWith (fun x w => φ x * √(1 - x ^ 2) * w) (kept d e xs)
    (gclWeights piOverN (1 / 2) d e xs.length))

/-- weight attached by `gclWeights` to the node with index `idx` of the complete grid -/
noncomputable def weightAt (p : ℝ) (d : Dir) (e : Bool) (len idx : ℕ) : ℝ :=
  let b := idx - (keptRange d e len).1
  let w := p
  let w := if d = .pp ∧ !e ∧ b = 0 then w * (1 / 2) else w
  let w := if e ∧ (idx = 0 ∨ idx = len - 1) then w * (1 / 2) else w
  w

theorem gclWeights_eq (p : ℝ) (d : Dir) (e : Bool) (len : ℕ) :
    gclWeights p (1 / 2) d e len
      = (List.range ((keptRange d e len).2 - (keptRange d e len).1)).map
          (fun b => weightAt p d e len ((keptRange d e len).1 + b)) := by
  simp only [gclWeights, weightAt, Nat.add_sub_cancel_left]

theorem drop_take_map_range (f : ℕ → ℝ) (n lo hi : ℕ) (h : hi ≤ n) :
    (((List.range n).map f).drop lo).take (hi - lo)
      = (List.range (hi - lo)).map (fun b => f (lo + b)) := by
  apply List.ext_getElem
  · simp; omega
  · intro i h1 h2
    simp

theorem keptRange_le (d : Dir) (e : Bool) (len : ℕ) : (keptRange d e len).2 ≤ len := by
  cases d <;> cases e <;> simp [keptRange]

theorem kept_lobNodes (d : Dir) (e : Bool) (M : ℕ) :
    kept d e (lobNodes M)
      = (List.range ((keptRange d e (M + 1)).2 - (keptRange d e (M + 1)).1)).map
          (fun b => node M ((keptRange d e (M + 1)).1 + b)) := by
  simp only [kept, lobNodes_length]
  exact drop_take_map_range (node M) (M + 1) _ _ (keptRange_le d e (M + 1))

/-- `codeQuad` on the Lobatto grid as a `Finset` sum over the kept index range -/
theorem codeQuad_eq_sum (φ : ℝ → ℝ) (d : Dir) (e : Bool) (M : ℕ) (p : ℝ) :
    codeQuad φ d e (lobNodes M) p
      = ∑ j ∈ Finset.Ico (keptRange d e (M + 1)).1 (keptRange d e (M + 1)).2,
          φ (node M j) * √(1 - node M j ^ 2) * weightAt p d e (M + 1) j := by
  rw [codeQuad, Lemmas.ChebyshevModel.sum_eq_list_sum, kept_lobNodes, lobNodes_length, gclWeights_eq,
    List.zipWith_map, List.zipWith_self, Lemmas.ChebyshevModel.list_sum_map_range,
    Finset.sum_Ico_eq_sum_range]


theorem weightAt_interior (p : ℝ) (d : Dir) (e : Bool) (M j : ℕ) (h0 : 0 < j) (hj : j < M) :
    weightAt p d e (M + 1) j = p := by
  have hj0 : j ≠ 0 := by omega
  have hjM : j ≠ M := by omega
  cases d <;> cases e <;> simp [weightAt, keptRange, hj0, hjM]

theorem keptRange_fst_le_one (d : Dir) (e : Bool) (len : ℕ) : (keptRange d e len).1 ≤ 1 := by
  cases d <;> cases e <;> simp [keptRange]

theorem keptRange_snd_ge (d : Dir) (e : Bool) (M : ℕ) : M ≤ (keptRange d e (M + 1)).2 := by
  cases d <;> cases e <;> simp [keptRange]

/-- **End points and their special weights are immaterial.**  Whatever the direction and the
`endpoints` flag, the number formed by `integrate` on the Lobatto grid is `π/M` (here `p`) times the
sum over the *interior* nodes: the end-point terms carry the factor `√(1-x²) = 0`. -/
theorem codeQuad_eq_interior {M : ℕ} (hM : M ≠ 0) (φ : ℝ → ℝ) (d : Dir) (e : Bool) (p : ℝ) :
    codeQuad φ d e (lobNodes M) p
      = p * ∑ j ∈ Finset.Ico 1 M, φ (node M j) * √(1 - node M j ^ 2) := by
  rw [codeQuad_eq_sum, Finset.mul_sum]
  have h1 := keptRange_fst_le_one d e (M + 1)
  have h2 := keptRange_snd_ge d e M
  have h3 := Lemmas.Lobatto.keptRange_le d e (M + 1)
  have hsub : Finset.Ico 1 M ⊆ Finset.Ico (keptRange d e (M + 1)).1 (keptRange d e (M + 1)).2 := by
    intro j hj
    rw [Finset.mem_Ico] at hj ⊢
    omega
  rw [← Finset.sum_subset hsub]
  · apply Finset.sum_congr rfl
    intro j hj
    rw [Finset.mem_Ico] at hj
    rw [weightAt_interior p d e M j (by omega) (by omega)]
    ring
  · intro j hj hnj
    rw [Finset.mem_Ico] at hj hnj
    have : j = 0 ∨ j = M := by omega
    rcases this with rfl | rfl
    · simp [node_zero]
    · simp [node_last hM]

/-- dropping the end points (`endpoints = False`, including the halved first weight of the half-open
`pp` grid) gives the same number as the full Lobatto sum (`endpoints = True`) -/
theorem codeQuad_endpoints_immaterial {M : ℕ} (hM : M ≠ 0) (φ : ℝ → ℝ) (d : Dir) (p : ℝ) :
    codeQuad φ d false (lobNodes M) p = codeQuad φ d true (lobNodes M) p := by
  rw [codeQuad_eq_interior hM, codeQuad_eq_interior hM]

/-- the weights of `integrate` with end points are the Gauss–Chebyshev–Lobatto weights
`π/M · (1/2 at j ∈ {0, M}, 1 otherwise)` -/
theorem gclWeights_endpoints (p : ℝ) (d : Dir) (M : ℕ) :
    gclWeights p (1 / 2) d true (M + 1) = (List.range (M + 1)).map (fun j => p * lobW M j) := by
  rw [gclWeights_eq]
  have : keptRange d true (M + 1) = (0, M + 1) := by simp [keptRange]
  rw [this]
  simp only [Nat.sub_zero, Nat.zero_add]
  apply List.map_congr_left
  intro j _
  by_cases h : j = 0 ∨ j = M <;> simp [weightAt, lobW, h]

/-- without end points in `z`/`pz`: all weights are `π/M` -/
theorem gclWeights_full (p : ℝ) (d : Dir) (hd : d ≠ .pp) (len : ℕ) :
    gclWeights p (1 / 2) d false len = List.replicate (len - 1 - 1) p := by
  cases d <;> simp_all [gclWeights, keptRange]

/-- without end points in `pp`: `π/M`, the first one (at `x = -1`) halved -/
theorem gclWeights_pp (p : ℝ) (len : ℕ) :
    gclWeights p (1 / 2) .pp false len
      = (List.range (len - 1)).map (fun b => if b = 0 then p * (1 / 2) else p) := by
  simp [gclWeights, keptRange]

/-- **Exactness of `integrate` along one axis.** -/
theorem codeQuad_exact {M : ℕ} (hM : M ≠ 0) (d : Dir) (e : Bool) (φ : ℝ → ℝ) (g : ℝ[X])
    (hg : g.natDegree ≤ 2 * M - 1)
    (hφ : ∀ x ∈ Set.Ioo (-1 : ℝ) 1, φ x * √(1 - x ^ 2) = g.eval x)
    (hends : g.eval 1 + g.eval (-1) = 0) :
    codeQuad φ d e (lobNodes M) (π / M) = ∫ x in (-1 : ℝ)..1, φ x := by
  rw [codeQuad_eq_interior hM, Finset.mul_sum,
    ← code_quadrature_exact hM (Finset.Ico 1 M) ?_ ?_ (fun _ => π / M) (fun _ _ _ => rfl) φ g hg hφ hends]
  · apply Finset.sum_congr rfl
    intro j _; ring
  · intro j hj
    rw [Finset.mem_Ico] at hj
    exact Finset.mem_range.mpr (by omega)
  · intro j h0 hj
    exact Finset.mem_Ico.mpr ⟨h0, hj⟩

end Lemmas.Lobatto
