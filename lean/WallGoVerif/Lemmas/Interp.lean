/-
Helper lemmas about `Model.Interp` (the InterpolatableFunction state model) for `Props/C18.lean`.
-/
import Mathlib.Tactic
import WallGoVerif.Model.Interp

namespace Lemmas.Interp
open Model.Interp

/-! ### strictly increasing lists -/

abbrev Inc (l : List Rat) : Prop := l.Pairwise (· < ·)

theorem sortedB_iff (l : List Rat) : sortedB l = true ↔ Inc l := by
  induction l with
  | nil => simp [sortedB, Inc]
  | cons a t ih =>
    cases t with
    | nil => simp [sortedB, Inc]
    | cons b t =>
      simp only [sortedB, Bool.and_eq_true, decide_eq_true_eq, ih, Inc]
      constructor
      · rintro ⟨hab, hbt⟩
        refine List.pairwise_cons.2 ⟨?_, hbt⟩
        intro y hy
        rcases List.mem_cons.1 hy with rfl | hy
        · exact hab
        · exact lt_trans hab ((List.pairwise_cons.1 hbt).1 y hy)
      · intro h
        have h' := List.pairwise_cons.1 h
        exact ⟨h'.1 b (List.mem_cons_self), h'.2⟩

theorem head_le_of_inc {l : List Rat} (h : Inc l) {x : Rat} (hx : x ∈ l) : l.head?.getD 0 ≤ x := by
  cases l with
  | nil => cases hx
  | cons a t =>
    simp only [List.head?_cons, Option.getD_some]
    rcases List.mem_cons.1 hx with rfl | hx
    · exact le_refl _
    · exact le_of_lt ((List.pairwise_cons.1 h).1 x hx)

theorem le_getLast_of_inc {l : List Rat} (h : Inc l) {x : Rat} (hx : x ∈ l) : x ≤ l.getLast?.getD 0 := by
  induction l generalizing x with
  | nil => cases hx
  | cons a t ih =>
    cases t with
    | nil =>
      rcases List.mem_cons.1 hx with rfl | hx
      · simp
      · cases hx
    | cons b t =>
      have h' := List.pairwise_cons.1 h
      have hl : (a :: b :: t).getLast?.getD 0 = (b :: t).getLast?.getD 0 := by
        simp [List.getLast?_cons_cons]
      rw [hl]
      rcases List.mem_cons.1 hx with rfl | hx
      · exact le_trans (le_of_lt (h'.1 b (List.mem_cons_self))) (ih h'.2 (List.mem_cons_self))
      · exact ih h'.2 hx

theorem head_mem {l : List Rat} (h : l ≠ []) : l.head?.getD 0 ∈ l := by
  cases l with
  | nil => exact absurd rfl h
  | cons a t => simp

theorem getLast_mem {l : List Rat} (h : l ≠ []) : l.getLast?.getD 0 ∈ l := by
  rw [List.getLast?_eq_getLast_of_ne_nil h]
  simp

/-- a strictly increasing list with ≥ 2 elements has first < last -/
theorem head_lt_getLast {l : List Rat} (h : Inc l) (h2 : 2 ≤ l.length) :
    l.head?.getD 0 < l.getLast?.getD 0 := by
  match l, h, h2 with
  | a :: b :: t, h, _ =>
    have h' := List.pairwise_cons.1 h
    have hb : b ≤ (a :: b :: t).getLast?.getD 0 := le_getLast_of_inc h (by simp)
    have hab : a < b := h'.1 b (List.mem_cons_self)
    simpa using lt_of_lt_of_le hab hb

/-! ### uniq = np.unique -/

theorem mem_insertU {x y : Rat} {l : List Rat} : y ∈ insertU x l ↔ y = x ∨ y ∈ l := by
  induction l with
  | nil => simp [insertU]
  | cons a t ih =>
    unfold insertU
    split_ifs with h1 h2
    · simp
    · subst h2; simp
    · simp only [List.mem_cons, ih]; tauto

theorem mem_uniq {y : Rat} {l : List Rat} : y ∈ uniq l ↔ y ∈ l := by
  induction l with
  | nil => simp [uniq]
  | cons a t ih =>
    have : uniq (a :: t) = insertU a (uniq t) := rfl
    rw [this, mem_insertU, ih]; simp

theorem inc_insertU {x : Rat} {l : List Rat} (h : Inc l) : Inc (insertU x l) := by
  induction l with
  | nil => simp [insertU, Inc]
  | cons a t ih =>
    have h' := List.pairwise_cons.1 h
    unfold insertU
    split_ifs with h1 h2
    · refine List.pairwise_cons.2 ⟨?_, h⟩
      intro y hy
      rcases List.mem_cons.1 hy with rfl | hy
      · exact h1
      · exact lt_trans h1 (h'.1 y hy)
    · exact h
    · refine List.pairwise_cons.2 ⟨?_, ih h'.2⟩
      intro y hy
      rcases mem_insertU.1 hy with rfl | hy
      · exact lt_of_le_of_ne (not_lt.1 h1) (fun h => h2 h.symm)
      · exact h'.1 y hy

theorem inc_uniq (l : List Rat) : Inc (uniq l) := by
  induction l with
  | nil => simp [uniq, Inc]
  | cons a t ih => exact inc_insertU ih

theorem uniq_eq_nil {l : List Rat} : uniq l = [] ↔ l = [] := by
  constructor
  · intro h
    cases l with
    | nil => rfl
    | cons a t =>
      have : a ∈ uniq (a :: t) := mem_uniq.2 (by simp)
      rw [h] at this; cases this
  · rintro rfl; rfl

end Lemmas.Interp
