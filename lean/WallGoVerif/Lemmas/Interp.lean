/-
Helper lemmas about `Model.Interp` (the InterpolatableFunction state model) for `Props/C18.lean`.
-/
import Mathlib.Tactic
import WallGoVerif.Model.Interp

namespace Lemmas.Interp
open Model.Interp

/-! ### strictly increasing lists -/

abbrev Inc (l : List Rat) : Prop := l.Pairwise (· < ·)

theorem sortedB_iff (l : List Rat) : sortedB l = true ↔ Inc l := by
  induction l with
  | nil => simp [sortedB, Inc]
  | cons a t ih =>
    cases t with
    | nil => simp [sortedB, Inc]
    | cons b t =>
      simp only [sortedB, Bool.and_eq_true, decide_eq_true_eq, ih, Inc]
      constructor
      · rintro ⟨hab, hbt⟩
        refine List.pairwise_cons.2 ⟨?_, hbt⟩
        intro y hy
        rcases List.mem_cons.1 hy with rfl | hy
        · exact hab
        · exact lt_trans hab ((List.pairwise_cons.1 hbt).1 y hy)
      · intro h
        have h' := List.pairwise_cons.1 h
        exact ⟨h'.1 b (List.mem_cons_self), h'.2⟩

theorem head_le_of_inc {l : List Rat} (h : Inc l) {x : Rat} (hx : x ∈ l) : l.head?.getD 0 ≤ x := by
  cases l with
  | nil => cases hx
  | cons a t =>
    simp only [List.head?_cons, Option.getD_some]
    rcases List.mem_cons.1 hx with rfl | hx
    · exact le_refl _
    · exact le_of_lt ((List.pairwise_cons.1 h).1 x hx)

theorem le_getLast_of_inc {l : List Rat} (h : Inc l) {x : Rat} (hx : x ∈ l) : x ≤ l.getLast?.getD 0 := by
  induction l generalizing x with
  | nil => cases hx
  | cons a t ih =>
    cases t with
    | nil =>
      rcases List.mem_cons.1 hx with rfl | hx
      · simp
      · cases hx
    | cons b t =>
      have h' := List.pairwise_cons.1 h
      have hl : (a :: b :: t).getLast?.getD 0 = (b :: t).getLast?.getD 0 := by
        simp [List.getLast?_cons_cons]
      rw [hl]
      rcases List.mem_cons.1 hx with rfl | hx
      · exact le_trans (le_of_lt (h'.1 b (List.mem_cons_self))) (ih h'.2 (List.mem_cons_self))
      · exact ih h'.2 hx

theorem head_mem {l : List Rat} (h : l ≠ []) : l.head?.getD 0 ∈ l := by
  cases l with
  | nil => exact absurd rfl h
  | cons a t => simp

theorem getLast_mem {l : List Rat} (h : l ≠ []) : l.getLast?.getD 0 ∈ l := by
  rw [List.getLast?_eq_getLast_of_ne_nil h]
  simp

/-- a strictly increasing list with ≥ 2 elements has first < last -/
theorem head_lt_getLast {l : List Rat} (h : Inc l) (h2 : 2 ≤ l.length) :
    l.head?.getD 0 < l.getLast?.getD 0 := by
  match l, h, h2 with
  | a :: b :: t, h, _ =>
    have h' := List.pairwise_cons.1 h
    have hb : b ≤ (a :: b :: t).getLast?.getD 0 := le_getLast_of_inc h (by simp)
    have hab : a < b := h'.1 b (List.mem_cons_self)
    simpa using lt_of_lt_of_le hab hb

/-! ### uniq = np.unique -/

theorem mem_insertU {x y : Rat} {l : List Rat} : y ∈ insertU x l ↔ y = x ∨ y ∈ l := by
  induction l with
  | nil => simp [insertU]
  | cons a t ih =>
    unfold insertU
    split_ifs with h1 h2
    · simp
    · subst h2; simp
    · simp only [List.mem_cons, ih]; tauto

theorem mem_uniq {y : Rat} {l : List Rat} : y ∈ uniq l ↔ y ∈ l := by
  induction l with
  | nil => simp [uniq]
  | cons a t ih =>
    have : uniq (a :: t) = insertU a (uniq t) := rfl
    rw [this, mem_insertU, ih]; simp

theorem inc_insertU {x : Rat} {l : List Rat} (h : Inc l) : Inc (insertU x l) := by
  induction l with
  | nil => simp [insertU, Inc]
  | cons a t ih =>
    have h' := List.pairwise_cons.1 h
    unfold insertU
    split_ifs with h1 h2
    · refine List.pairwise_cons.2 ⟨?_, h⟩
      intro y hy
      rcases List.mem_cons.1 hy with rfl | hy
      · exact h1
      · exact lt_trans h1 (h'.1 y hy)
    · exact h
    · refine List.pairwise_cons.2 ⟨?_, ih h'.2⟩
      intro y hy
      rcases mem_insertU.1 hy with rfl | hy
      · exact lt_of_le_of_ne (not_lt.1 h1) (fun h => h2 h.symm)
      · exact h'.1 y hy

theorem inc_uniq (l : List Rat) : Inc (uniq l) := by
  induction l with
  | nil => simp [uniq, Inc]
  | cons a t ih => exact inc_insertU ih

theorem uniq_eq_nil {l : List Rat} : uniq l = [] ↔ l = [] := by
  constructor
  · intro h
    cases l with
    | nil => rfl
    | cons a t =>
      have : a ∈ uniq (a :: t) := mem_uniq.2 (by simp)
      rw [h] at this; cases this
  · rintro rfl; rfl

/-! ### the abscissa blocks of `extendInterpolationTable` -/

theorem mem_keep {s : State} {xs : List Rat} {x : Rat} : x ∈ keep s xs ↔ x ∈ xs ∧ x ∉ s.bad := by
  simp [keep, List.mem_filter]

theorem inc_keep {s : State} {xs : List Rat} (h : Inc xs) : Inc (keep s xs) :=
  List.Pairwise.filter _ h

theorem inc_map_range (n : Nat) (a d : Rat) (hd : 0 < d) :
    Inc ((List.range n).map (fun (i : Nat) => a + (i : Rat) * d)) := by
  refine (List.pairwise_lt_range (n := n)).map _ ?_
  intro i j hij
  have : (i : Rat) < (j : Rat) := by exact_mod_cast hij
  nlinarith

theorem inc_belowBlock (a r : Rat) (p : Nat) : Inc (belowBlock a r p) := by
  unfold belowBlock
  split_ifs with h
  · have hp : (0 : Rat) < (p : Rat) := by exact_mod_cast h.2
    exact inc_map_range p a _ (div_pos (by linarith [h.1]) hp)
  · exact List.Pairwise.nil

theorem belowBlock_lt {a r : Rat} {p : Nat} {y : Rat} (hy : y ∈ belowBlock a r p) : y < r := by
  unfold belowBlock at hy
  split_ifs at hy with h
  · obtain ⟨i, hi, rfl⟩ := List.mem_map.1 hy
    have hi' : (i : Rat) < (p : Rat) := by exact_mod_cast List.mem_range.1 hi
    have hp : (0 : Rat) < (p : Rat) := by exact_mod_cast h.2
    have hs : 0 < (r - a) / (p : Rat) := div_pos (by linarith [h.1]) hp
    have hps : (p : Rat) * ((r - a) / (p : Rat)) = r - a := by field_simp
    nlinarith
  · cases hy

theorem inc_aboveBlock (b r : Rat) (p : Nat) : Inc (aboveBlock b r p) := by
  unfold aboveBlock
  split_ifs with h
  · have hp : (0 : Rat) < (p : Rat) := by exact_mod_cast h.2
    exact inc_map_range p _ _ (div_pos (by linarith [h.1]) hp)
  · exact List.Pairwise.nil

theorem lt_aboveBlock {b r : Rat} {p : Nat} {y : Rat} (hy : y ∈ aboveBlock b r p) : r < y := by
  unfold aboveBlock at hy
  split_ifs at hy with h
  · obtain ⟨i, _, rfl⟩ := List.mem_map.1 hy
    have hi' : (0 : Rat) ≤ (i : Rat) := by exact_mod_cast Nat.zero_le i
    have hp : (0 : Rat) < (p : Rat) := by exact_mod_cast h.2
    have hs : 0 < (b - r) / (p : Rat) := div_pos (by linarith [h.1]) hp
    nlinarith
  · cases hy

/-- the last appended abscissa is exactly `newMax` (exact arithmetic) -/
theorem aboveBlock_le {b r : Rat} {p : Nat} {y : Rat} (hy : y ∈ aboveBlock b r p) : y ≤ b := by
  unfold aboveBlock at hy
  split_ifs at hy with h
  · obtain ⟨i, hi, rfl⟩ := List.mem_map.1 hy
    have hi' : (i : Rat) + 1 ≤ (p : Rat) := by exact_mod_cast List.mem_range.1 hi
    have hp : (0 : Rat) < (p : Rat) := by exact_mod_cast h.2
    have hs : 0 < (b - r) / (p : Rat) := div_pos (by linarith [h.1]) hp
    have hps : (p : Rat) * ((b - r) / (p : Rat)) = b - r := by field_simp
    nlinarith
  · cases hy

theorem le_belowBlock {a r : Rat} {p : Nat} {y : Rat} (hy : y ∈ belowBlock a r p) : a ≤ y := by
  unfold belowBlock at hy
  split_ifs at hy with h
  · obtain ⟨i, _, rfl⟩ := List.mem_map.1 hy
    have hi' : (0 : Rat) ≤ (i : Rat) := by exact_mod_cast Nat.zero_le i
    have hp : (0 : Rat) < (p : Rat) := by exact_mod_cast h.2
    have hs : 0 < (r - a) / (p : Rat) := div_pos (by linarith [h.1]) hp
    nlinarith
  · cases hy

/-! ### invariants -/

/-- a table, if present, has ≥ 2 strictly increasing abscissae -/
def TableOK (s : State) : Prop := s.hasTable = true → Inc s.pts ∧ 2 ≤ s.pts.length

/-- structural invariant of the object state (holds after ANY op history) -/
structure Inv (s : State) : Prop where
  table : TableOK s
  count_lt : s.adaptive = true → s.count < s.threshold ∨ s.threshold = 0
  count_eq : s.count = s.pending.length

/-- no abscissa of the table or of the pending list is a point where `f` is non-finite -/
def InvBad (s : State) : Prop := ∀ x, x ∈ s.pts ∨ x ∈ s.pending → x ∉ s.bad

/-- `Inv`, and (if `B`) also `InvBad`; lets one proof serve both invariants -/
def InvG (B : Prop) (s : State) : Prop := Inv s ∧ (B → InvBad s)

/-- fields that internal transitions never change / only increase -/
structure Evolves (s s' : State) : Prop where
  k : s'.k = s.k
  lo : s'.lo = s.lo
  hi : s'.hi = s.hi
  adaptive : s'.adaptive = s.adaptive
  threshold : s'.threshold = s.threshold
  initialCount : s'.initialCount = s.initialCount
  bad : s'.bad = s.bad
  hasTable : s.hasTable = true → s'.hasTable = true
  epoch : s.epoch ≤ s'.epoch

theorem Evolves.refl (s : State) : Evolves s s := ⟨rfl, rfl, rfl, rfl, rfl, rfl, rfl, id, le_refl _⟩

theorem Evolves.trans {a b c : State} (h1 : Evolves a b) (h2 : Evolves b c) : Evolves a c :=
  ⟨h2.k.trans h1.k, h2.lo.trans h1.lo, h2.hi.trans h1.hi, h2.adaptive.trans h1.adaptive,
   h2.threshold.trans h1.threshold, h2.initialCount.trans h1.initialCount, h2.bad.trans h1.bad,
   fun h => h2.hasTable (h1.hasTable h), le_trans h1.epoch h2.epoch⟩

theorem interpolate_some {s s' : State} {xs : List Rat} (h : interpolate s xs = some s') :
    s' = { s with hasTable := true, pts := xs, epoch := s.epoch + 1 } ∧ 2 ≤ xs.length ∧ Inc xs := by
  unfold interpolate at h
  split_ifs at h with hc
  cases h
  exact ⟨rfl, hc.1, (sortedB_iff _).1 hc.2⟩

theorem interpolate_of_inc (s : State) {xs : List Rat} (h2 : 2 ≤ xs.length) (hi : Inc xs) :
    interpolate s xs = some { s with hasTable := true, pts := xs, epoch := s.epoch + 1 } := by
  unfold interpolate
  rw [if_pos ⟨h2, (sortedB_iff _).2 hi⟩]

theorem interpolate_evolves {s s' : State} {xs : List Rat} (h : interpolate s xs = some s') :
    Evolves s s' := by
  obtain ⟨rfl, -, -⟩ := interpolate_some h
  exact ⟨rfl, rfl, rfl, rfl, rfl, rfl, rfl, fun _ => rfl, Nat.le_succ _⟩

theorem InvG.interp {B : Prop} {s s' : State} {xs : List Rat} (h : InvG B s)
    (hi : interpolate s xs = some s') (hb : B → ∀ x ∈ xs, x ∉ s.bad) : InvG B s' := by
  obtain ⟨rfl, h2, hinc⟩ := interpolate_some hi
  refine ⟨⟨fun _ => ⟨hinc, h2⟩, h.1.count_lt, h.1.count_eq⟩, fun hB x hx => ?_⟩
  rcases hx with hx | hx
  · exact hb hB x hx
  · exact h.2 hB x (Or.inr hx)

theorem InvG.reset {B : Prop} {s : State} (ht : TableOK s) (hb : B → InvBad s) :
    InvG B { s with count := 0, pending := [] } := by
  refine ⟨⟨ht, fun _ => ?_, rfl⟩, fun hB x hx => ?_⟩
  · show 0 < s.threshold ∨ s.threshold = 0
    omega
  · rcases hx with hx | hx
    · exact hb hB x (Or.inl hx)
    · cases hx

theorem rangeMin_le {s : State} (h : Inc s.pts) {x : Rat} (hx : x ∈ s.pts) : rangeMin s ≤ x :=
  head_le_of_inc h hx
theorem le_rangeMax {s : State} (h : Inc s.pts) {x : Rat} (hx : x ∈ s.pts) : x ≤ rangeMax s :=
  le_getLast_of_inc h hx

/-- with a valid table the abscissae handed to the spline by an extension are again valid -/
theorem extendKept_ok {s : State} (hinc : Inc s.pts) (h2 : 2 ≤ s.pts.length) (a b : Rat) (p q : Nat) :
    Inc (extendKept s a b p q) ∧ 2 ≤ (extendKept s a b p q).length := by
  unfold extendKept
  constructor
  · show List.Pairwise _ _
    rw [List.pairwise_append, List.pairwise_append]
    refine ⟨⟨inc_keep (inc_belowBlock _ _ _), hinc, ?_⟩, inc_keep (inc_aboveBlock _ _ _), ?_⟩
    · intro x hx y hy
      exact lt_of_lt_of_le (belowBlock_lt (mem_keep.1 hx).1) (rangeMin_le hinc hy)
    · intro x hx y hy
      have hy' := lt_aboveBlock (mem_keep.1 hy).1
      rcases List.mem_append.1 hx with hx | hx
      · have hne : s.pts ≠ [] := by intro h; rw [h] at h2; simp at h2
        have := belowBlock_lt (mem_keep.1 hx).1
        have h3 : rangeMin s ≤ rangeMax s := rangeMin_le hinc (getLast_mem hne)
        linarith
      · exact lt_of_le_of_lt (le_rangeMax hinc hx) hy'
  · simp only [List.length_append]; omega

/-! ### internal transitions preserve the invariants -/

theorem extendTable_inv {B : Prop} {s : State} (h : InvG B s) (a b : Rat) (p q : Nat) :
    InvG B (extendTable s a b p q).1 := by
  unfold extendTable
  split_ifs with ht
  · split
    · next s' hs' => exact h.interp hs' (fun _ x hx => (mem_keep.1 hx).2)
    · exact h
  · split
    · exact h
    · next s' hs' =>
      have h' : InvG B s' := h.interp hs' (fun hB x hx => by
        unfold extendKept at hx
        rcases List.mem_append.1 hx with hx | hx
        · rcases List.mem_append.1 hx with hx | hx
          · exact (mem_keep.1 hx).2
          · exact h.2 hB x (Or.inl hx)
        · exact (mem_keep.1 hx).2)
      dsimp only
      split_ifs
      · exact InvG.reset h'.1.table h'.2
      · exact h'

theorem extendTable_evolves (s : State) (a b : Rat) (p q : Nat) :
    Evolves s (extendTable s a b p q).1 := by
  unfold extendTable
  split_ifs with ht
  · split
    · next s' hs' => exact interpolate_evolves hs'
    · exact Evolves.refl s
  · split
    · exact Evolves.refl s
    · next s' hs' =>
      have h' := interpolate_evolves hs'
      dsimp only
      split_ifs
      · exact ⟨h'.k, h'.lo, h'.hi, h'.adaptive, h'.threshold, h'.initialCount, h'.bad, h'.hasTable, h'.epoch⟩
      · exact h'

theorem adaptiveUpdate_inv {B : Prop} {s : State} (ht : TableOK s) (hb : B → InvBad s) :
    InvG B (adaptiveUpdate s).1 := by
  unfold adaptiveUpdate
  exact extendTable_inv (InvG.reset ht hb) _ _ _ _

theorem adaptiveUpdate_evolves (s : State) : Evolves s (adaptiveUpdate s).1 := by
  unfold adaptiveUpdate
  have h := extendTable_evolves { s with count := 0, pending := [] } (minOf s.pending) (maxOf s.pending)
    (if s.hasTable = true then s.initialCount / 5 else s.initialCount / 2)
    (if s.hasTable = true then s.initialCount / 5 else s.initialCount / 2)
  exact ⟨h.k, h.lo, h.hi, h.adaptive, h.threshold, h.initialCount, h.bad, h.hasTable, h.epoch⟩

theorem schedule_inv {B : Prop} {s : State} (h : InvG B s) (xs : List Rat) :
    InvG B (schedule s xs).1 := by
  unfold schedule
  have hbad : B → InvBad { s with count := s.count + (uniq (keep s xs)).length,
                                   pending := s.pending ++ uniq (keep s xs) } := by
    intro hB x hx
    rcases hx with hx | hx
    · exact h.2 hB x (Or.inl hx)
    · rcases List.mem_append.1 hx with hx | hx
      · exact h.2 hB x (Or.inr hx)
      · exact (mem_keep.1 (mem_uniq.1 hx)).2
  split_ifs with h1 h2 h3
  · exact h
  · exact h
  · exact adaptiveUpdate_inv h.1.table hbad
  · refine ⟨⟨h.1.table, fun _ => Or.inl (not_le.1 h3), ?_⟩, hbad⟩
    show s.count + _ = (s.pending ++ _).length
    rw [List.length_append, h.1.count_eq]

theorem schedule_evolves (s : State) (xs : List Rat) : Evolves s (schedule s xs).1 := by
  unfold schedule
  split_ifs
  · exact Evolves.refl s
  · exact Evolves.refl s
  · refine Evolves.trans (b := _) ?_ (adaptiveUpdate_evolves _)
    exact ⟨rfl, rfl, rfl, rfl, rfl, rfl, rfl, id, le_refl _⟩
  · exact ⟨rfl, rfl, rfl, rfl, rfl, rfl, rfl, id, le_refl _⟩

/-- without adaptive interpolation `_evaluateDirectly` has no side effect -/
theorem schedule_not_adaptive {s : State} (h : s.adaptive = false) (xs : List Rat) :
    schedule s xs = (s, none) := by
  unfold schedule; rw [if_pos h]

theorem sideLower_inv {B : Prop} {s : State} (h : InvG B s) (xs : List Rat) :
    InvG B (sideLower s xs).1 := by
  unfold sideLower
  split_ifs
  · exact h
  · split
    · exact h
    · exact schedule_inv h xs
    · exact h

theorem sideLower_evolves (s : State) (xs : List Rat) : Evolves s (sideLower s xs).1 := by
  unfold sideLower
  split_ifs
  · exact Evolves.refl s
  · split
    · exact Evolves.refl s
    · exact schedule_evolves s xs
    · exact Evolves.refl s

theorem sideUpper_inv {B : Prop} {s : State} (h : InvG B s) (xs : List Rat) :
    InvG B (sideUpper s xs).1 := by
  unfold sideUpper
  split_ifs
  · exact h
  · split
    · exact h
    · exact schedule_inv h xs
    · exact h

theorem sideUpper_evolves (s : State) (xs : List Rat) : Evolves s (sideUpper s xs).1 := by
  unfold sideUpper
  split_ifs
  · exact Evolves.refl s
  · split
    · exact Evolves.refl s
    · exact schedule_evolves s xs
    · exact Evolves.refl s

theorem evalRun_inv {B : Prop} {s : State} (h : InvG B s) (u : Bool) (xs : List Rat) :
    InvG B (evalRun s u xs).st := by
  unfold evalRun
  split_ifs
  · exact schedule_inv h xs
  · exact h
  · exact h
  · exact schedule_inv h _
  · split
    · exact sideLower_inv h _
    · exact sideUpper_inv (sideLower_inv h _) _

theorem evalRun_evolves (s : State) (u : Bool) (xs : List Rat) : Evolves s (evalRun s u xs).st := by
  unfold evalRun
  split_ifs
  · exact schedule_evolves s xs
  · exact Evolves.refl s
  · exact Evolves.refl s
  · exact schedule_evolves s _
  · split
    · exact sideLower_evolves s _
    · exact (sideLower_evolves s _).trans (sideUpper_evolves _ _)

theorem fst_of_eq {α β : Type} {p : α × β} {a : α} {b : β} (h : p = (a, b)) : a = p.1 := by rw [h]

theorem derivDirect_inv {B : Prop} {s : State} (h : InvG B s) (order : Nat) (xd : List (Rat × Rat)) :
    InvG B (derivDirect s order xd).1 := by
  unfold derivDirect
  split_ifs
  · exact h
  · split
    · next s1 e he => rw [fst_of_eq he]; exact schedule_inv h _
    · next s1 he => rw [fst_of_eq he]; exact schedule_inv h _
  · split
    · next s1 e he => rw [fst_of_eq he]; exact schedule_inv h _
    · next s1 he =>
      have h1 : InvG B s1 := by rw [fst_of_eq he]; exact schedule_inv h _
      split
      · next s2 e he2 => rw [fst_of_eq he2]; exact schedule_inv h1 _
      · next s2 he2 => rw [fst_of_eq he2]; exact schedule_inv h1 _

theorem derivDirect_evolves (s : State) (order : Nat) (xd : List (Rat × Rat)) :
    Evolves s (derivDirect s order xd).1 := by
  unfold derivDirect
  split_ifs
  · exact Evolves.refl s
  · split
    · next s1 e he => rw [fst_of_eq he]; exact schedule_evolves s _
    · next s1 he => rw [fst_of_eq he]; exact schedule_evolves s _
  · split
    · next s1 e he => rw [fst_of_eq he]; exact schedule_evolves s _
    · next s1 he =>
      have h1 : Evolves s s1 := by rw [fst_of_eq he]; exact schedule_evolves s _
      split
      · next s2 e he2 => rw [fst_of_eq he2]; exact h1.trans (schedule_evolves s1 _)
      · next s2 he2 => rw [fst_of_eq he2]; exact h1.trans (schedule_evolves s1 _)

theorem derivRun_inv {B : Prop} {s : State} (h : InvG B s) (u : Bool) (order : Nat)
    (xd : List (Rat × Rat)) : InvG B (derivRun s u order xd).1 := by
  unfold derivRun
  split_ifs
  · exact derivDirect_inv h order xd
  · exact h
  · split
    · exact evalRun_inv h _ _
    · exact evalRun_inv h _ _
  · split
    · exact evalRun_inv h _ _
    · split
      · exact evalRun_inv (evalRun_inv h _ _) _ _
      · exact evalRun_inv (evalRun_inv h _ _) _ _

theorem derivRun_evolves (s : State) (u : Bool) (order : Nat) (xd : List (Rat × Rat)) :
    Evolves s (derivRun s u order xd).1 := by
  unfold derivRun
  split_ifs
  · exact derivDirect_evolves s order xd
  · exact Evolves.refl s
  · split
    · exact evalRun_evolves s _ _
    · exact evalRun_evolves s _ _
  · split
    · exact evalRun_evolves s _ _
    · split
      · exact (evalRun_evolves s _ _).trans (evalRun_evolves _ _ _)
      · exact (evalRun_evolves s _ _).trans (evalRun_evolves _ _ _)

/-! ### provenance of the entries returned by `evaluate` -/

theorem inside_iff {a b x : Rat} : inside a b x = true ↔ a ≤ x ∧ x ≤ b := by
  simp [inside, and_comm]

theorem mem_outPts {s : State} {xs : List Rat} {x : Rat} :
    x ∈ outPts s xs ↔ x ∈ xs ∧ ¬ (rangeMin s ≤ x ∧ x ≤ rangeMax s) := by
  unfold outPts
  rw [List.mem_filter, ← inside_iff]
  simp

theorem extendTable_err (s : State) (a b : Rat) (p q : Nat) :
    (extendTable s a b p q).2 = none ∨ (extendTable s a b p q).2 = some .valueError := by
  unfold extendTable
  split_ifs <;> split <;> simp

theorem schedule_err (s : State) (xs : List Rat) :
    (schedule s xs).2 = none ∨ (schedule s xs).2 = some .valueError := by
  unfold schedule
  split_ifs
  · exact Or.inl rfl
  · exact Or.inl rfl
  · unfold adaptiveUpdate; exact extendTable_err _ _ _ _ _
  · exact Or.inl rfl

theorem sideLower_err (s : State) (xs : List Rat) :
    (sideLower s xs).2 = none ∨ (sideLower s xs).2 = some .valueError := by
  unfold sideLower
  split_ifs
  · exact Or.inl rfl
  · split
    · exact Or.inr rfl
    · exact schedule_err s xs
    · exact Or.inl rfl

theorem sideUpper_err (s : State) (xs : List Rat) :
    (sideUpper s xs).2 = none ∨ (sideUpper s xs).2 = some .valueError := by
  unfold sideUpper
  split_ifs
  · exact Or.inl rfl
  · split
    · exact Or.inr rfl
    · exact schedule_err s xs
    · exact Or.inl rfl

/-- every exception `evaluate` can raise is a ValueError -/
theorem evalRun_err (s : State) (u : Bool) (xs : List Rat) :
    (evalRun s u xs).err = none ∨ (evalRun s u xs).err = some .valueError := by
  unfold evalRun
  split_ifs
  · exact schedule_err s xs
  · exact Or.inl rfl
  · exact Or.inr rfl
  · exact schedule_err s _
  · split
    · next e he =>
      rcases sideLower_err s (lowPts s xs) with h | h
      · rw [h] at he; cases he
      · rw [h] at he; cases he; exact Or.inr rfl
    · exact sideUpper_err _ _

theorem sideLower_same {s : State} (h : s.adaptive = false ∨ s.lo ≠ .none) (xs : List Rat) :
    (sideLower s xs).1 = s := by
  unfold sideLower
  split_ifs
  · rfl
  · split
    · rfl
    · next hlo =>
      rcases h with h | h
      · rw [schedule_not_adaptive h]
      · exact absurd hlo h
    · rfl

theorem sideLower_error {s : State} (hlo : s.lo = .error) {xs : List Rat} (hne : xs ≠ []) :
    sideLower s xs = (s, some .valueError) := by
  unfold sideLower
  rw [if_neg (by simpa using hne), hlo]

theorem sideUpper_error {s : State} (hhi : s.hi = .error) {xs : List Rat} (hne : xs ≠ []) :
    sideUpper s xs = (s, some .valueError) := by
  unfold sideUpper
  rw [if_neg (by simpa using hne), hhi]

theorem oobTag_up {lo hi : Mode} {rmin rmax : Rat} {e0 e1 : Nat} {x : Rat} (h : rmax ≤ x) :
    oobTag lo hi rmin rmax e0 e1 x =
      match hi with
      | .none => .direct x | .constant => .constHi e1 | .function => .extrap e1 x | .error => .uninit := by
  unfold oobTag; rw [if_pos h]; cases hi <;> rfl

theorem oobTag_low {lo hi : Mode} {rmin rmax : Rat} {e0 e1 : Nat} {x : Rat} (h1 : ¬ rmax ≤ x)
    (h2 : x ≤ rmin) :
    oobTag lo hi rmin rmax e0 e1 x =
      match lo with
      | .none => .direct x | .constant => .constLo e0 | .function => .extrap e0 x | .error => .uninit := by
  unfold oobTag; rw [if_neg h1, if_pos h2]; cases lo <;> rfl

/-- what the property demands of the entry `t` returned for abscissa `x` by a state `s`
(`e1` = version of the table the upper-side value was taken from). -/
def TagSpec (s : State) (e1 : Nat) (t : Tag) (x : Rat) : Prop :=
  (rangeMin s ≤ x ∧ x ≤ rangeMax s → t = .spline s.epoch x) ∧
  (x < rangeMin s →
      (s.lo = .none → t = .direct x) ∧ (s.lo = .constant → t = .constLo s.epoch) ∧
      (s.lo = .function → t = .extrap s.epoch x) ∧ s.lo ≠ .error) ∧
  (rangeMax s < x →
      (s.hi = .none → t = .direct x) ∧ (s.hi = .constant → t = .constHi e1) ∧
      (s.hi = .function → t = .extrap e1 x) ∧ s.hi ≠ .error)

theorem range_lt {s : State} (hs : Inv s) (ht : s.hasTable = true) : rangeMin s < rangeMax s :=
  head_lt_getLast (hs.table ht).1 (hs.table ht).2

theorem evalRun_spec {s : State} (hs : Inv s) (ht : s.hasTable = true) (xs : List Rat) :
    (evalRun s true xs).err = none →
    ∃ e1, s.epoch ≤ e1 ∧ e1 ≤ (evalRun s true xs).st.epoch ∧
      ((s.adaptive = false ∨ s.lo ≠ .none) → e1 = s.epoch) ∧
      ∀ x ∈ xs, TagSpec s e1 ((evalRun s true xs).tag x) x := by
  have hlt := range_lt hs ht
  unfold evalRun
  rw [if_neg (by simp [ht])]
  split_ifs with h1 h2 h3
  · -- nothing outside
    intro _
    refine ⟨s.epoch, le_refl _, le_refl _, fun _ => rfl, fun x hx => ?_⟩
    have hin : rangeMin s ≤ x ∧ x ≤ rangeMax s := by
      by_contra hc
      have : x ∈ outPts s xs := mem_outPts.2 ⟨hx, hc⟩
      rw [List.isEmpty_iff.1 h1] at this; cases this
    exact ⟨fun _ => rfl, fun h => absurd hin.1 (not_le.2 h), fun h => absurd hin.2 (not_le.2 h)⟩
  · intro h; cases h
  · -- NONE / NONE
    intro _
    refine ⟨s.epoch, le_refl _, (schedule_evolves s _).epoch, fun _ => rfl, fun x _ => ?_⟩
    dsimp only
    refine ⟨fun hin => by rw [if_pos (inside_iff.2 hin)], fun hx => ?_, fun hx => ?_⟩
    · have : ¬ inside (rangeMin s) (rangeMax s) x = true := by
        rw [inside_iff]; intro h; exact absurd h.1 (not_le.2 hx)
      rw [if_neg this]
      refine ⟨fun _ => rfl, fun h => ?_, fun h => ?_, fun h => ?_⟩ <;> rw [h3.1] at h <;> cases h
    · have : ¬ inside (rangeMin s) (rangeMax s) x = true := by
        rw [inside_iff]; intro h; exact absurd h.2 (not_le.2 hx)
      rw [if_neg this]
      refine ⟨fun _ => rfl, fun h => ?_, fun h => ?_, fun h => ?_⟩ <;> rw [h3.2] at h <;> cases h
  · -- mixed modes
    split
    · intro h; cases h
    · next hlow =>
      intro hup
      dsimp only at hup ⊢
      have hev := sideLower_evolves s (lowPts s xs)
      refine ⟨(sideLower s (lowPts s xs)).1.epoch, hev.epoch, (sideUpper_evolves _ _).epoch,
        fun h => by rw [sideLower_same h], fun x hx => ?_⟩
      unfold tagWith
      refine ⟨fun hin => by rw [if_pos (inside_iff.2 hin)], fun hxl => ?_, fun hxu => ?_⟩
      · have hni : ¬ inside (rangeMin s) (rangeMax s) x = true := by
          rw [inside_iff]; intro h; exact absurd h.1 (not_le.2 hxl)
        have hmem : x ∈ lowPts s xs := by
          unfold lowPts
          rw [List.mem_filter]
          exact ⟨mem_outPts.2 ⟨hx, fun h => absurd h.1 (not_le.2 hxl)⟩, by simpa using le_of_lt hxl⟩
        rw [if_neg hni, oobTag_low (by intro h; linarith) (le_of_lt hxl)]
        refine ⟨fun h => by rw [h], fun h => by rw [h], fun h => by rw [h], fun h => ?_⟩
        rw [sideLower_error h (List.ne_nil_of_mem hmem)] at hlow
        cases hlow
      · have hni : ¬ inside (rangeMin s) (rangeMax s) x = true := by
          rw [inside_iff]; intro h; exact absurd h.2 (not_le.2 hxu)
        have hmem : x ∈ upPts s xs := by
          unfold upPts
          rw [List.mem_filter]
          exact ⟨mem_outPts.2 ⟨hx, fun h => absurd h.2 (not_le.2 hxu)⟩, by simpa using le_of_lt hxu⟩
        rw [if_neg hni, oobTag_up (le_of_lt hxu)]
        refine ⟨fun h => by rw [h], fun h => by rw [h], fun h => by rw [h], fun h => ?_⟩
        rw [sideUpper_error (hev.hi.trans h) (List.ne_nil_of_mem hmem)] at hup
        cases hup

/-- without a table, or with `bUseInterpolatedValues=False`, every entry is a direct evaluation -/
theorem evalRun_direct {s : State} {u : Bool} (h : u = false ∨ s.hasTable = false) (xs : List Rat) :
    (evalRun s u xs).tag = Tag.direct := by
  unfold evalRun; rw [if_pos h]

/-- lower side ERROR: the call raises ValueError before any side effect -/
theorem evalRun_error_lo {s : State} (hs : Inv s) (ht : s.hasTable = true) {xs : List Rat} {x : Rat}
    (hx : x ∈ xs) (hxl : x < rangeMin s) (hlo : s.lo = .error) :
    (evalRun s true xs).err = some .valueError ∧ (evalRun s true xs).st = s := by
  have hlt := range_lt hs ht
  have hout : x ∈ outPts s xs := mem_outPts.2 ⟨hx, fun h => absurd h.1 (not_le.2 hxl)⟩
  have hmem : x ∈ lowPts s xs := by
    unfold lowPts; rw [List.mem_filter]; exact ⟨hout, by simpa using le_of_lt hxl⟩
  unfold evalRun
  rw [if_neg (by simp [ht]), if_neg (by
    intro h; rw [List.isEmpty_iff.1 h] at hout; cases hout)]
  split_ifs with h2 h3
  · exact ⟨rfl, rfl⟩
  · rw [hlo] at h3; cases h3.1
  · rw [sideLower_error hlo (List.ne_nil_of_mem hmem)]
    exact ⟨rfl, rfl⟩

/-- upper side ERROR: the call raises ValueError (possibly after lower-side scheduling) -/
theorem evalRun_error_hi {s : State} (hs : Inv s) (ht : s.hasTable = true) {xs : List Rat} {x : Rat}
    (hx : x ∈ xs) (hxu : rangeMax s < x) (hhi : s.hi = .error) :
    (evalRun s true xs).err = some .valueError := by
  rcases evalRun_err s true xs with h | h
  · obtain ⟨e1, -, -, -, hspec⟩ := evalRun_spec hs ht xs h
    exact absurd hhi ((hspec x hx).2.2 hxu).2.2.2
  · exact h

/-! ### `derivative` -/

theorem mem_posArray {order : Nat} {xd : List (Rat × Rat)} {e : Rat × Rat} {y : Rat}
    (he : e ∈ xd) (hy : y ∈ stencilPos order e.1 e.2) : y ∈ posArray order xd := by
  unfold stencilPos at hy
  obtain ⟨p, hp, rfl⟩ := List.mem_map.1 hy
  unfold posArray
  exact List.mem_flatMap.2 ⟨p, hp, List.mem_map.2 ⟨e, he, rfl⟩⟩

theorem sideUpper_same {s : State} (h : s.adaptive = false ∨ s.hi ≠ .none) (xs : List Rat) :
    (sideUpper s xs).1 = s := by
  unfold sideUpper
  split_ifs
  · rfl
  · split
    · rfl
    · next hhi =>
      rcases h with h | h
      · rw [schedule_not_adaptive h]
      · exact absurd hhi h
    · rfl

/-- with adaptive interpolation switched off, `evaluate` never changes the object -/
theorem evalRun_not_adaptive {s : State} (h : s.adaptive = false) (u : Bool) (xs : List Rat) :
    (evalRun s u xs).st = s := by
  unfold evalRun
  split_ifs
  · rw [schedule_not_adaptive h]
  · rfl
  · rfl
  · rw [schedule_not_adaptive h]
  · split
    · exact sideLower_same (Or.inl h) _
    · dsimp only
      rw [sideLower_same (Or.inl h), sideUpper_same (Or.inl h)]

/-- the entries of a successful interpolated `derivative` call (order 1 or 2): `s1` is the object
state after the FIRST of the two `evaluate(pos)` calls made by `helpers.derivative`. -/
theorem derivRun_spec {s : State} (hs : Inv s) (ht : s.hasTable = true) {order : Nat}
    (ho : order = 1 ∨ order = 2) (xd : List (Rat × Rat)) {s' : State} {ds : List DTag}
    (h : derivRun s true order xd = (s', .dtags ds)) :
    ∃ s1 : State, Evolves s s1 ∧ Inv s1 ∧ (s.adaptive = false → s1 = s) ∧
      (derivOut s xd ≠ [] → (evalRun s1 true (posArray order (derivOut s xd))).err = none ∧
          s' = (evalRun s1 true (posArray order (derivOut s xd))).st) ∧
      (derivOut s xd = [] → s' = s) ∧
      ds = xd.map (fun e =>
        if insideE s e = true then .splineDeriv s.epoch order e.1
        else .fd ((stencilPos order e.1 e.2).map
              (evalRun s1 true (posArray order (derivOut s xd))).tag)) := by
  have hidx : derivIdx order = order := by
    unfold derivIdx; rcases ho with rfl | rfl <;> rfl
  have ho0 : ¬ order = 0 := by rcases ho with rfl | rfl <;> decide
  unfold derivRun at h
  rw [if_neg (by rcases ho with rfl | rfl <;> simp [ht])] at h
  split_ifs at h with h1
  · -- no entry outside
    have hnil : derivOut s xd = [] := List.isEmpty_iff.1 h1
    injection h with hs' hds
    injection hds with hds
    refine ⟨s, Evolves.refl s, hs, fun _ => rfl, fun hne => absurd hnil hne, fun _ => hs'.symm, ?_⟩
    rw [← hds, hidx]
    refine List.map_congr_left (fun e he => ?_)
    have : insideE s e = true := by
      by_contra hc
      have : e ∈ derivOut s xd := by
        unfold derivOut; rw [List.mem_filter]; exact ⟨he, by simpa using hc⟩
      rw [hnil] at this; cases this
    rw [if_pos this]
  · have hne : derivOut s xd ≠ [] := fun hc => h1 (List.isEmpty_iff.2 hc)
    split at h
    · injection h with _ hds; cases hds
    · next herr1 =>
      split at h
      · injection h with _ hds; cases hds
      · next herr2 =>
        injection h with hs' hds
        injection hds with hds
        refine ⟨(evalRun s true (posArray order (derivOut s xd))).st, evalRun_evolves _ _ _,
          (evalRun_inv (B := False) ⟨hs, fun hf => hf.elim⟩ _ _).1,
          fun ha => evalRun_not_adaptive ha _ _, fun _ => ⟨herr2, hs'.symm⟩,
          fun hc => absurd hc hne, ?_⟩
        rw [← hds, hidx]

/-- `derivative` without table / with `bUseInterpolation=False` (order 1 or 2): every stencil value
is a direct evaluation -/
theorem derivDirect_spec {s : State} {order : Nat} (ho : order = 1 ∨ order = 2)
    (xd : List (Rat × Rat)) {s' : State} {ds : List DTag}
    (h : derivDirect s order xd = (s', .dtags ds)) :
    ds = xd.map (fun e => .fd ((stencilPos order e.1 e.2).map .direct)) := by
  unfold derivDirect at h
  rw [if_neg (by rcases ho with rfl | rfl <;> decide),
      if_neg (by rcases ho with rfl | rfl <;> decide)] at h
  split at h
  · injection h with _ hds; cases hds
  · split at h
    · injection h with _ hds; cases hds
    · injection h with _ hds
      injection hds with hds
      exact hds.symm

/-! ### the step function -/

/-- side condition for `InvBad`: `setBad` (which models replacing the function `f`) must not
declare an abscissa non-finite that is already stored in the table or in the pending list. -/
def Respects (s : State) : Op → Prop
  | .setBad xs => ∀ x, x ∈ s.pts ∨ x ∈ s.pending → x ∉ xs
  | _ => True

def RespectsAll : State → List Op → Prop
  | _, [] => True
  | s, op :: ops => Respects s op ∧ RespectsAll (step s op).1 ops

theorem ofInterp_inv {B : Prop} {s : State} {xs : List Rat} (h : InvG B s)
    (hb : B → ∀ x ∈ xs, x ∉ s.bad) : InvG B (ofInterp s (interpolate s xs)).1 := by
  cases hi : interpolate s xs with
  | none => exact h
  | some s' => exact h.interp hi hb

theorem step_invG {B : Prop} {s : State} (h : InvG B s) (op : Op) (hr : B → Respects s op) :
    InvG B (step s op).1 := by
  cases op with
  | new k a t n =>
    dsimp only [step]
    split_ifs
    · exact h
    · refine ⟨⟨fun hf => (by cases hf), fun _ => ?_, rfl⟩, fun _ x hx => ?_⟩
      · show 0 < t ∨ t = 0
        omega
      · rcases hx with hx | hx <;> cases hx
  | setBad xs =>
    exact ⟨⟨h.1.table, h.1.count_lt, h.1.count_eq⟩, fun hB x hx => hr hB x hx⟩
  | table a b n => exact ofInterp_inv h (fun _ x hx => (mem_keep.1 hx).2)
  | tablevals xs => exact ofInterp_inv h (fun _ x hx => (mem_keep.1 hx).2)
  | modes lo hi =>
    have h' : InvG B { s with lo := lo, hi := hi } :=
      ⟨⟨h.1.table, h.1.count_lt, h.1.count_eq⟩, h.2⟩
    dsimp only [step]
    split_ifs
    · exact ofInterp_inv h' (fun hB x hx => h.2 hB x (Or.inl hx))
    · exact h'
  | setAdaptive b =>
    dsimp only [step]
    split_ifs
    · refine ⟨⟨h.1.table, fun _ => ?_, rfl⟩, fun hB x hx => ?_⟩
      · show 0 < s.threshold ∨ s.threshold = 0
        omega
      · rcases hx with hx | hx
        · exact h.2 hB x (Or.inl hx)
        · cases hx
    · exact ⟨⟨h.1.table, fun hf => (by cases hf), h.1.count_eq⟩, h.2⟩
  | eval u xs =>
    dsimp only [step]
    split
    · exact evalRun_inv h u xs
    · exact evalRun_inv h u xs
  | deriv u order xd => exact derivRun_inv h u order xd
  | extend a b p q =>
    dsimp only [step]
    split
    · next s' e he => rw [fst_of_eq he]; exact extendTable_inv h a b p q
    · next s' he => rw [fst_of_eq he]; exact extendTable_inv h a b p q
  | reread =>
    dsimp only [step]
    split_ifs
    · exact h
    · exact ofInterp_inv h (fun hB x hx => h.2 hB x (Or.inl hx))
  | get => exact h

theorem invG_init (B : Prop) : InvG B init :=
  ⟨⟨fun hf => (by cases hf), fun _ => Or.inl (by decide), rfl⟩,
   fun _ x hx => by rcases hx with hx | hx <;> cases hx⟩

/-! ### the declared number of return values is irrelevant -/

/-- the same object but declared with `k` return values -/
def setK (k : Nat) (s : State) : State := { s with k := k }

@[simp] theorem keep_setK (k : Nat) (s : State) (xs : List Rat) : keep (setK k s) xs = keep s xs := rfl
@[simp] theorem rangeMin_setK (k : Nat) (s : State) : rangeMin (setK k s) = rangeMin s := rfl
@[simp] theorem rangeMax_setK (k : Nat) (s : State) : rangeMax (setK k s) = rangeMax s := rfl
@[simp] theorem extendKept_setK (k : Nat) (s : State) (a b : Rat) (p q : Nat) :
    extendKept (setK k s) a b p q = extendKept s a b p q := rfl

theorem interpolate_setK (k : Nat) (s : State) (xs : List Rat) :
    interpolate (setK k s) xs = (interpolate s xs).map (setK k) := by
  unfold interpolate; split_ifs <;> rfl

theorem extendTable_setK (k : Nat) (s : State) (a b : Rat) (p q : Nat) :
    extendTable (setK k s) a b p q = (setK k (extendTable s a b p q).1, (extendTable s a b p q).2) := by
  unfold extendTable
  simp only [interpolate_setK, keep_setK, extendKept_setK]
  have h1 : (setK k s).hasTable = s.hasTable := rfl
  rw [h1]
  split_ifs with ht
  · cases interpolate s (keep s (linspace a b (p + q))) <;> rfl
  · cases hi : interpolate s (extendKept s a b p q) with
    | none => rfl
    | some s' =>
      simp only [Option.map_some]
      have : (setK k s').adaptive = s'.adaptive := rfl
      rw [this]
      split_ifs <;> rfl

theorem adaptiveUpdate_setK (k : Nat) (s : State) :
    adaptiveUpdate (setK k s) = (setK k (adaptiveUpdate s).1, (adaptiveUpdate s).2) := by
  unfold adaptiveUpdate
  exact extendTable_setK k { s with count := 0, pending := [] } _ _ _ _

theorem schedule_setK (k : Nat) (s : State) (xs : List Rat) :
    schedule (setK k s) xs = (setK k (schedule s xs).1, (schedule s xs).2) := by
  unfold schedule
  rw [keep_setK]
  generalize uniq (keep s xs) = u
  by_cases h1 : s.adaptive = false
  · rw [if_pos (show (setK k s).adaptive = false from h1), if_pos h1]
  · rw [if_neg (show ¬ (setK k s).adaptive = false from h1), if_neg h1]
    by_cases h2 : u.isEmpty = true
    · rw [if_pos h2, if_pos h2]
    · rw [if_neg h2, if_neg h2]
      by_cases h3 : s.threshold ≤ s.count + u.length
      · rw [if_pos (show (setK k s).threshold ≤ (setK k s).count + u.length from h3), if_pos h3]
        exact adaptiveUpdate_setK k { s with count := s.count + u.length, pending := s.pending ++ u }
      · rw [if_neg (show ¬ (setK k s).threshold ≤ (setK k s).count + u.length from h3), if_neg h3]
        rfl

theorem sideLower_setK (k : Nat) (s : State) (xs : List Rat) :
    sideLower (setK k s) xs = (setK k (sideLower s xs).1, (sideLower s xs).2) := by
  unfold sideLower
  have h1 : (setK k s).lo = s.lo := rfl
  rw [h1]
  split_ifs
  · rfl
  · cases s.lo
    · exact schedule_setK k s xs
    · rfl
    · rfl
    · rfl

theorem sideUpper_setK (k : Nat) (s : State) (xs : List Rat) :
    sideUpper (setK k s) xs = (setK k (sideUpper s xs).1, (sideUpper s xs).2) := by
  unfold sideUpper
  have h1 : (setK k s).hi = s.hi := rfl
  rw [h1]
  split_ifs
  · rfl
  · cases s.hi
    · exact schedule_setK k s xs
    · rfl
    · rfl
    · rfl

theorem evalRun_setK (k : Nat) (s : State) (u : Bool) (xs : List Rat) :
    evalRun (setK k s) u xs =
      ⟨setK k (evalRun s u xs).st, (evalRun s u xs).err, (evalRun s u xs).tag⟩ := by
  unfold evalRun
  have e1 : outPts (setK k s) xs = outPts s xs := rfl
  have e2 : lowPts (setK k s) xs = lowPts s xs := rfl
  have e3 : upPts (setK k s) xs = upPts s xs := rfl
  rw [e1, e2, e3]
  by_cases h0 : u = false ∨ s.hasTable = false
  · rw [if_pos (show u = false ∨ (setK k s).hasTable = false from h0), if_pos h0, schedule_setK]
  · rw [if_neg (show ¬ (u = false ∨ (setK k s).hasTable = false) from h0), if_neg h0]
    by_cases h1 : (outPts s xs).isEmpty = true
    · rw [if_pos h1, if_pos h1]; rfl
    · rw [if_neg h1, if_neg h1]
      by_cases h2 : s.lo = .error ∧ s.hi = .error
      · rw [if_pos (show (setK k s).lo = .error ∧ (setK k s).hi = .error from h2), if_pos h2]
      · rw [if_neg (show ¬ ((setK k s).lo = .error ∧ (setK k s).hi = .error) from h2), if_neg h2]
        by_cases h3 : s.lo = .none ∧ s.hi = .none
        · rw [if_pos (show (setK k s).lo = .none ∧ (setK k s).hi = .none from h3), if_pos h3,
            schedule_setK]
          rfl
        · rw [if_neg (show ¬ ((setK k s).lo = .none ∧ (setK k s).hi = .none) from h3), if_neg h3,
            sideLower_setK]
          dsimp only
          cases hl : (sideLower s (lowPts s xs)).2 with
          | some e => rfl
          | none =>
            dsimp only
            rw [sideUpper_setK]
            rfl

theorem derivDirect_setK (k : Nat) (s : State) (order : Nat) (xd : List (Rat × Rat)) :
    derivDirect (setK k s) order xd = (setK k (derivDirect s order xd).1, (derivDirect s order xd).2) := by
  unfold derivDirect
  by_cases h1 : 2 < order
  · rw [if_pos h1, if_pos h1]
  · rw [if_neg h1, if_neg h1]
    by_cases h2 : order = 0
    · rw [if_pos h2, if_pos h2, schedule_setK]
      generalize schedule s (List.map _ xd) = r
      rcases r with ⟨s1, _ | e⟩ <;> rfl
    · rw [if_neg h2, if_neg h2, schedule_setK]
      generalize schedule s (posArray order xd) = r
      rcases r with ⟨s1, _ | e⟩
      · dsimp only
        rw [schedule_setK]
        generalize schedule s1 (posArray order xd) = r2
        rcases r2 with ⟨s2, _ | e⟩ <;> rfl
      · rfl

theorem derivRun_setK (k : Nat) (s : State) (u : Bool) (order : Nat) (xd : List (Rat × Rat)) :
    derivRun (setK k s) u order xd = (setK k (derivRun s u order xd).1, (derivRun s u order xd).2) := by
  unfold derivRun
  have e1 : derivOut (setK k s) xd = derivOut s xd := rfl
  rw [e1]
  by_cases h0 : u = false ∨ s.hasTable = false ∨ 2 < order
  · rw [if_pos (show u = false ∨ (setK k s).hasTable = false ∨ 2 < order from h0), if_pos h0]
    exact derivDirect_setK k s order xd
  · rw [if_neg (show ¬ (u = false ∨ (setK k s).hasTable = false ∨ 2 < order) from h0), if_neg h0]
    by_cases h1 : (derivOut s xd).isEmpty = true
    · rw [if_pos h1, if_pos h1]; rfl
    · rw [if_neg h1, if_neg h1]
      by_cases h2 : order = 0
      · rw [if_pos h2, if_pos h2]
        simp only [evalRun_setK]
        cases (evalRun s true (List.map (fun x => x.1) (derivOut s xd))).err <;> rfl
      · rw [if_neg h2, if_neg h2]
        simp only [evalRun_setK]
        cases (evalRun s true (posArray order (derivOut s xd))).err with
        | some e => rfl
        | none =>
          dsimp only
          cases (evalRun (evalRun s true (posArray order (derivOut s xd))).st true
              (posArray order (derivOut s xd))).err <;> rfl

/-- the declared number of return values `k` is never read by any operation: running an op on the
same object declared with another `k` gives the same output and the same new state (up to `k`). -/
theorem step_setK (k : Nat) (s : State) (op : Op) (hop : ∀ k' a t n, op ≠ .new k' a t n) :
    step (setK k s) op = (setK k (step s op).1, (step s op).2) := by
  cases op with
  | new k' a t n => exact absurd rfl (hop k' a t n)
  | setBad xs => rfl
  | table a b n =>
    show ofInterp (setK k s) (interpolate (setK k s) (keep s (linspace a b n))) = _
    rw [interpolate_setK]
    show _ = (setK k (ofInterp s (interpolate s (keep s (linspace a b n)))).1,
              (ofInterp s (interpolate s (keep s (linspace a b n)))).2)
    cases interpolate s (keep s (linspace a b n)) <;> rfl
  | tablevals xs =>
    show ofInterp (setK k s) (interpolate (setK k s) (keep s xs)) = _
    rw [interpolate_setK]
    show _ = (setK k (ofInterp s (interpolate s (keep s xs))).1,
              (ofInterp s (interpolate s (keep s xs))).2)
    cases interpolate s (keep s xs) <;> rfl
  | modes lo hi =>
    cases ht : s.hasTable with
    | false =>
      simp only [step]
      rw [if_neg (show ¬ (setK k s).hasTable = true by rw [show (setK k s).hasTable = s.hasTable from rfl, ht]; decide),
          if_neg (by rw [ht]; decide)]
      rfl
    | true =>
      simp only [step]
      rw [if_pos (show (setK k s).hasTable = true from ht), if_pos ht]
      show ofInterp (setK k { s with lo := lo, hi := hi })
          (interpolate (setK k { s with lo := lo, hi := hi }) s.pts) = _
      rw [interpolate_setK]
      cases interpolate { s with lo := lo, hi := hi } s.pts <;> rfl
  | setAdaptive b => cases b <;> rfl
  | eval u xs =>
    simp only [step, evalRun_setK]
    cases (evalRun s u xs).err <;> rfl
  | deriv u order xd => exact derivRun_setK k s u order xd
  | extend a b p q =>
    simp only [step]
    rw [extendTable_setK]
    generalize extendTable s a b p q = r
    rcases r with ⟨s1, _ | e⟩ <;> rfl
  | reread =>
    cases ht : s.hasTable with
    | false =>
      simp only [step]
      rw [if_pos (show (setK k s).hasTable = false from ht), if_pos ht]
    | true =>
      simp only [step]
      rw [if_neg (show ¬ (setK k s).hasTable = false by rw [show (setK k s).hasTable = s.hasTable from rfl, ht]; decide),
          if_neg (by rw [ht]; decide)]
      show ofInterp (setK k s) (interpolate (setK k s) s.pts) = _
      rw [interpolate_setK]
      cases interpolate s s.pts <;> rfl
  | get => rfl

end Lemmas.Interp
