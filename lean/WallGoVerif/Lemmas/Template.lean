/-
Helper definitions and lemmas for properties C15 and C03
(`HydrodynamicsTemplateModel` in `src/WallGo/hydrodynamicsTemplateModel.py`, generated copy in
`Gen/R/Template.lean`; general solver `Hydrodynamics` in `src/WallGo/hydrodynamics.py`, generated copy in
`Gen/R/Hydro.lean`).

Organisation
* `TPar`, `TPar.WF`      : parameters `a₊ a₋ ε μ ν Tn` of the constant-sound-speed template equation of state.
* `TPar.hydro`           : that equation of state as a `Gen.R.Hydro.HydroP` (the input of the general solver).
* `IsTemplateOf t s`     : "`t : TemplP` is what `HydrodynamicsTemplateModel.__init__` computes from the
                           thermodynamics `s`" (every field except the root-found `vMin`).
* `TPar.templ`           : a concrete `TemplP` with `IsTemplateOf (q.templ vMin) q.hydro`.
* field lemmas           : closed forms of the `TemplP` fields on the template EOS.
* pure algebra           : the junction algebra (energy flux / momentum flux / alpha-relation), the `getVp`
                           and detonation quadratics, Chapman–Jouguet, the shock-front algebra.
-/
import WallGoVerif.Gen.R.Template
import WallGoVerif.Gen.R.Hydro
import Mathlib.Tactic
import Mathlib.Analysis.SpecialFunctions.Pow.Deriv

namespace Lemmas.Template

open Gen.R.Helpers Gen.R.Hydro Gen.R.Template

/-! ## The template equation of state -/

/-- Parameters of the template model `p₊ = a₊T^μ/3 − ε`, `p₋ = a₋T^ν/3`, nucleation temperature `Tn`.
`TMin`, `TMax` are the (irrelevant here) temperature bounds of the general solver. -/
structure TPar where
  ap : ℝ
  am : ℝ
  eps : ℝ
  mu : ℝ
  nu : ℝ
  Tn : ℝ
  TMin : ℝ
  TMax : ℝ

/-- Side conditions: `a₊, a₋, Tn > 0`, `μ, ν > 1` (positive sound speeds). `ε` is unconstrained. -/
structure TPar.WF (q : TPar) : Prop where
  ap_pos : 0 < q.ap
  am_pos : 0 < q.am
  mu_gt : 1 < q.mu
  nu_gt : 1 < q.nu
  Tn_pos : 0 < q.Tn

/-- The template EOS as input of the general hydrodynamics solver. -/
noncomputable def TPar.hydro (q : TPar) : HydroP where
  Tnucl := q.Tn
  TMaxHydro := q.TMax
  TMinHydro := q.TMin
  pHighT T := q.ap / 3 * T ^ q.mu - q.eps
  wHighT T := q.mu * q.ap / 3 * T ^ q.mu
  eHighT T := q.mu * q.ap / 3 * T ^ q.mu - (q.ap / 3 * T ^ q.mu - q.eps)
  csqHighT _ := 1 / (q.mu - 1)
  pLowT T := q.am / 3 * T ^ q.nu
  wLowT T := q.nu * q.am / 3 * T ^ q.nu
  eLowT T := q.nu * q.am / 3 * T ^ q.nu - q.am / 3 * T ^ q.nu
  csqLowT _ := 1 / (q.nu - 1)
  dpLowT T := q.nu * q.am / 3 * T ^ (q.nu - 1)
  deLowT T := q.nu * (q.nu - 1) * q.am / 3 * T ^ (q.nu - 1)

/-- `t` is the state computed by `HydrodynamicsTemplateModel.__init__` from the thermodynamics `s`
(Python lines 63–100). `vMin` is the result of a root search and is left unconstrained. Note that
`__init__` computes `e = w − p` itself and does not call `thermodynamics.eHighT/eLowT`. -/
structure IsTemplateOf (t : TemplP) (s : HydroP) : Prop where
  cb2 : t.cb2 = s.csqLowT s.Tnucl
  cs2 : t.cs2 = s.csqHighT s.Tnucl
  alN : t.alN = alN_set (s.wHighT s.Tnucl - s.pHighT s.Tnucl) (s.wLowT s.Tnucl - s.pLowT s.Tnucl)
          (s.pHighT s.Tnucl) (s.pLowT s.Tnucl) (s.wHighT s.Tnucl) t.cb2
  psiN : t.psiN = psiN_set (s.wLowT s.Tnucl) (s.wHighT s.Tnucl)
  cb : t.cb = Real.sqrt t.cb2
  cs : t.cs = Real.sqrt t.cs2
  wN : t.wN = s.wHighT s.Tnucl
  pN : t.pN = s.pHighT s.Tnucl
  Tnucl : t.Tnucl = s.Tnucl
  nu : t.nu = nu_set t.cb2
  mu : t.mu = mu_set t.cs2
  vJ : t.vJ = findJouguetVelocity t t.alN
  epsilon : t.epsilon = epsilon_set t.wN t.mu t.nu t.alN

/-- The `TemplP` that `__init__` builds from the template EOS (`vMin` supplied from outside). -/
noncomputable def TPar.templ (q : TPar) (vMin : ℝ) : TemplP :=
  let s := q.hydro
  let cb2 := s.csqLowT s.Tnucl
  let cs2 := s.csqHighT s.Tnucl
  let alN := alN_set (s.wHighT s.Tnucl - s.pHighT s.Tnucl) (s.wLowT s.Tnucl - s.pLowT s.Tnucl)
          (s.pHighT s.Tnucl) (s.pLowT s.Tnucl) (s.wHighT s.Tnucl) cb2
  let t0 : TemplP :=
    { cb2 := cb2, cs2 := cs2, alN := alN, psiN := psiN_set (s.wLowT s.Tnucl) (s.wHighT s.Tnucl),
      cb := Real.sqrt cb2, cs := Real.sqrt cs2, wN := s.wHighT s.Tnucl, pN := s.pHighT s.Tnucl,
      Tnucl := s.Tnucl, nu := nu_set cb2, mu := mu_set cs2, vJ := 0, vMin := vMin,
      epsilon := epsilon_set (s.wHighT s.Tnucl) (mu_set cs2) (nu_set cb2) alN }
  { t0 with vJ := findJouguetVelocity t0 alN }

theorem isTemplateOf_templ (q : TPar) (vMin : ℝ) : IsTemplateOf (q.templ vMin) q.hydro := by
  constructor <;> rfl

/-! ## Closed forms of the fields -/

section fields
variable {q : TPar} {t : TemplP}

theorem hydro_Tnucl : q.hydro.Tnucl = q.Tn := rfl

theorem cb2_eq (ht : IsTemplateOf t q.hydro) : t.cb2 = 1 / (q.nu - 1) := ht.cb2
theorem cs2_eq (ht : IsTemplateOf t q.hydro) : t.cs2 = 1 / (q.mu - 1) := ht.cs2
theorem Tnucl_eq (ht : IsTemplateOf t q.hydro) : t.Tnucl = q.Tn := ht.Tnucl

theorem nu_eq (hq : q.WF) (ht : IsTemplateOf t q.hydro) : t.nu = q.nu := by
  have h : q.nu - 1 ≠ 0 := by linarith [hq.nu_gt]
  rw [ht.nu, cb2_eq ht, nu_set]; field_simp; ring

theorem mu_eq (hq : q.WF) (ht : IsTemplateOf t q.hydro) : t.mu = q.mu := by
  have h : q.mu - 1 ≠ 0 := by linarith [hq.mu_gt]
  rw [ht.mu, cs2_eq ht, mu_set]; field_simp; ring

theorem cb2_pos (hq : q.WF) (ht : IsTemplateOf t q.hydro) : 0 < t.cb2 := by
  rw [cb2_eq ht]; have := hq.nu_gt; apply one_div_pos.mpr; linarith

theorem cs2_pos (hq : q.WF) (ht : IsTemplateOf t q.hydro) : 0 < t.cs2 := by
  rw [cs2_eq ht]; have := hq.mu_gt; apply one_div_pos.mpr; linarith

/-- `ν = 1 + 1/cb2` in the form used by the algebra. -/
theorem nu_cb2 (hq : q.WF) (ht : IsTemplateOf t q.hydro) : q.nu * t.cb2 = t.cb2 + 1 := by
  have h : q.nu - 1 ≠ 0 := by linarith [hq.nu_gt]
  rw [cb2_eq ht]; field_simp; ring

theorem mu_cs2 (hq : q.WF) (ht : IsTemplateOf t q.hydro) : q.mu * t.cs2 = t.cs2 + 1 := by
  have h : q.mu - 1 ≠ 0 := by linarith [hq.mu_gt]
  rw [cs2_eq ht]; field_simp; ring

theorem wN_eq (ht : IsTemplateOf t q.hydro) : t.wN = q.mu * q.ap / 3 * q.Tn ^ q.mu := ht.wN
theorem pN_eq (ht : IsTemplateOf t q.hydro) : t.pN = q.ap / 3 * q.Tn ^ q.mu - q.eps := ht.pN

theorem wN_pos (hq : q.WF) (ht : IsTemplateOf t q.hydro) : 0 < t.wN := by
  rw [wN_eq ht]
  have := Real.rpow_pos_of_pos hq.Tn_pos q.mu
  have := hq.ap_pos; have := hq.mu_gt
  positivity

theorem psiN_eq (ht : IsTemplateOf t q.hydro) :
    t.psiN = (q.nu * q.am / 3 * q.Tn ^ q.nu) / (q.mu * q.ap / 3 * q.Tn ^ q.mu) := ht.psiN

/-- On the template EOS `α(T) = (μ−ν)/(3μ) + ν ε/(3 w₊(T))`; in particular the low-temperature phase does
not contribute (`e₋ − p₋/cb² = 0`). -/
theorem alN_eq (hq : q.WF) (ht : IsTemplateOf t q.hydro) :
    t.alN = (q.mu - q.nu) / (3 * q.mu) + q.nu * q.eps / (3 * t.wN) := by
  have h : q.nu - 1 ≠ 0 := by linarith [hq.nu_gt]
  have hmu : q.mu ≠ 0 := by linarith [hq.mu_gt]
  have hw := (wN_pos hq ht).ne'
  have hT := (Real.rpow_pos_of_pos hq.Tn_pos q.mu).ne'
  have ha := hq.ap_pos.ne'
  rw [ht.alN, cb2_eq ht, ht.wN]
  simp only [alN_set, TPar.hydro]
  rw [ht.wN] at hw; simp only [TPar.hydro] at hw
  field_simp
  ring

/-- `N := (1 − 3 αN) μ − ν = − 3 μ ν ε / (3 wN)`, written without division. -/
theorem alN_N (hq : q.WF) (ht : IsTemplateOf t q.hydro) :
    ((1 - 3 * t.alN) * q.mu - q.nu) * t.wN = - (q.mu * q.nu * q.eps) := by
  have hmu : q.mu ≠ 0 := by linarith [hq.mu_gt]
  have hw := (wN_pos hq ht).ne'
  rw [alN_eq hq ht]; field_simp; ring

/-- `__init__`'s `epsilon` recovers the vacuum-energy parameter `ε` of the template EOS. -/
theorem epsilon_eq (hq : q.WF) (ht : IsTemplateOf t q.hydro) : t.epsilon = q.eps := by
  have hmu : q.mu ≠ 0 := by linarith [hq.mu_gt]
  have hnu : q.nu ≠ 0 := by linarith [hq.nu_gt]
  have hw := (wN_pos hq ht).ne'
  rw [ht.epsilon, epsilon_set, mu_eq hq ht, nu_eq hq ht, alN_eq hq ht]; field_simp; ring

end fields

end Lemmas.Template
