/-
Helper definitions and lemmas for properties C15 and C03
(`HydrodynamicsTemplateModel` in `src/WallGo/hydrodynamicsTemplateModel.py`, generated copy in
`Gen/R/Template.lean`; general solver `Hydrodynamics` in `src/WallGo/hydrodynamics.py`, generated copy in
`Gen/R/Hydro.lean`).

Organisation
* `TPar`, `TPar.WF`      : parameters `a₊ a₋ ε μ ν Tn` of the constant-sound-speed template equation of state.
* `TPar.hydro`           : that equation of state as a `Gen.R.Hydro.HydroP` (the input of the general solver).
* `IsTemplateOf t s`     : "`t : TemplP` is what `HydrodynamicsTemplateModel.__init__` computes from the
                           thermodynamics `s`" (every field except the root-found `vMin`).
* `TPar.templ`           : a concrete `TemplP` with `IsTemplateOf (q.templ vMin) q.hydro`.
* field lemmas           : closed forms of the `TemplP` fields on the template EOS.
* pure algebra           : the junction algebra (energy flux / momentum flux / alpha-relation), the `getVp`
                           and detonation quadratics, Chapman–Jouguet, the shock-front algebra.
-/
import WallGoVerif.Gen.R.Template
import WallGoVerif.Gen.R.Hydro
import Mathlib.Tactic
import Mathlib.Analysis.SpecialFunctions.Pow.Deriv

namespace Lemmas.Template

open Gen.R.Helpers Gen.R.Hydro Gen.R.Template

/-! ## The template equation of state -/

/-- Parameters of the template model `p₊ = a₊T^μ/3 − ε`, `p₋ = a₋T^ν/3`, nucleation temperature `Tn`.
`TMin`, `TMax` are the (irrelevant here) temperature bounds of the general solver. -/
structure TPar where
  ap : ℝ
  am : ℝ
  eps : ℝ
  mu : ℝ
  nu : ℝ
  Tn : ℝ
  TMin : ℝ
  TMax : ℝ

/-- Side conditions: `a₊, a₋, Tn > 0`, `μ, ν > 1` (positive sound speeds). `ε` is unconstrained. -/
structure TPar.WF (q : TPar) : Prop where
  ap_pos : 0 < q.ap
  am_pos : 0 < q.am
  mu_gt : 1 < q.mu
  nu_gt : 1 < q.nu
  Tn_pos : 0 < q.Tn

/-- The template EOS as input of the general hydrodynamics solver. -/
noncomputable def TPar.hydro (q : TPar) : HydroP where
  Tnucl := q.Tn
  TMaxHydro := q.TMax
  TMinHydro := q.TMin
  pHighT T := q.ap / 3 * T ^ q.mu - q.eps
  wHighT T := q.mu * q.ap / 3 * T ^ q.mu
  eHighT T := q.mu * q.ap / 3 * T ^ q.mu - (q.ap / 3 * T ^ q.mu - q.eps)
  csqHighT _ := 1 / (q.mu - 1)
  pLowT T := q.am / 3 * T ^ q.nu
  wLowT T := q.nu * q.am / 3 * T ^ q.nu
  eLowT T := q.nu * q.am / 3 * T ^ q.nu - q.am / 3 * T ^ q.nu
  csqLowT _ := 1 / (q.nu - 1)
  dpLowT T := q.nu * q.am / 3 * T ^ (q.nu - 1)
  deLowT T := q.nu * (q.nu - 1) * q.am / 3 * T ^ (q.nu - 1)

/-- `t` is the state computed by `HydrodynamicsTemplateModel.__init__` from the thermodynamics `s`
(Python lines 63–100). `vMin` is the result of a root search and is left unconstrained. Note that
`__init__` computes `e = w − p` itself and does not call `thermodynamics.eHighT/eLowT`. -/
structure IsTemplateOf (t : TemplP) (s : HydroP) : Prop where
  cb2 : t.cb2 = s.csqLowT s.Tnucl
  cs2 : t.cs2 = s.csqHighT s.Tnucl
  alN : t.alN = alN_set (s.wHighT s.Tnucl - s.pHighT s.Tnucl) (s.wLowT s.Tnucl - s.pLowT s.Tnucl)
          (s.pHighT s.Tnucl) (s.pLowT s.Tnucl) (s.wHighT s.Tnucl) t.cb2
  psiN : t.psiN = psiN_set (s.wLowT s.Tnucl) (s.wHighT s.Tnucl)
  cb : t.cb = Real.sqrt t.cb2
  cs : t.cs = Real.sqrt t.cs2
  wN : t.wN = s.wHighT s.Tnucl
  pN : t.pN = s.pHighT s.Tnucl
  Tnucl : t.Tnucl = s.Tnucl
  nu : t.nu = nu_set t.cb2
  mu : t.mu = mu_set t.cs2
  vJ : t.vJ = findJouguetVelocity t t.alN
  epsilon : t.epsilon = epsilon_set t.wN t.mu t.nu t.alN

/-- The `TemplP` that `__init__` builds from the template EOS (`vMin` supplied from outside). -/
noncomputable def TPar.templ (q : TPar) (vMin : ℝ) : TemplP :=
  let s := q.hydro
  let cb2 := s.csqLowT s.Tnucl
  let cs2 := s.csqHighT s.Tnucl
  let alN := alN_set (s.wHighT s.Tnucl - s.pHighT s.Tnucl) (s.wLowT s.Tnucl - s.pLowT s.Tnucl)
          (s.pHighT s.Tnucl) (s.pLowT s.Tnucl) (s.wHighT s.Tnucl) cb2
  let t0 : TemplP :=
    { cb2 := cb2, cs2 := cs2, alN := alN, psiN := psiN_set (s.wLowT s.Tnucl) (s.wHighT s.Tnucl),
      cb := Real.sqrt cb2, cs := Real.sqrt cs2, wN := s.wHighT s.Tnucl, pN := s.pHighT s.Tnucl,
      Tnucl := s.Tnucl, nu := nu_set cb2, mu := mu_set cs2, vJ := 0, vMin := vMin,
      epsilon := epsilon_set (s.wHighT s.Tnucl) (mu_set cs2) (nu_set cb2) alN }
  { t0 with vJ := findJouguetVelocity t0 alN }

theorem isTemplateOf_templ (q : TPar) (vMin : ℝ) : IsTemplateOf (q.templ vMin) q.hydro := by
  constructor <;> rfl

/-! ## Closed forms of the fields -/

section fields
variable {q : TPar} {t : TemplP}

theorem hydro_Tnucl : q.hydro.Tnucl = q.Tn := rfl

theorem cb2_eq (ht : IsTemplateOf t q.hydro) : t.cb2 = 1 / (q.nu - 1) := ht.cb2
theorem cs2_eq (ht : IsTemplateOf t q.hydro) : t.cs2 = 1 / (q.mu - 1) := ht.cs2
theorem Tnucl_eq (ht : IsTemplateOf t q.hydro) : t.Tnucl = q.Tn := ht.Tnucl

theorem nu_eq (hq : q.WF) (ht : IsTemplateOf t q.hydro) : t.nu = q.nu := by
  have h : q.nu - 1 ≠ 0 := by linarith [hq.nu_gt]
  rw [ht.nu, cb2_eq ht, nu_set]; field_simp; ring

theorem mu_eq (hq : q.WF) (ht : IsTemplateOf t q.hydro) : t.mu = q.mu := by
  have h : q.mu - 1 ≠ 0 := by linarith [hq.mu_gt]
  rw [ht.mu, cs2_eq ht, mu_set]; field_simp; ring

theorem cb2_pos (hq : q.WF) (ht : IsTemplateOf t q.hydro) : 0 < t.cb2 := by
  rw [cb2_eq ht]; have := hq.nu_gt; apply one_div_pos.mpr; linarith

theorem cs2_pos (hq : q.WF) (ht : IsTemplateOf t q.hydro) : 0 < t.cs2 := by
  rw [cs2_eq ht]; have := hq.mu_gt; apply one_div_pos.mpr; linarith

/-- `ν = 1 + 1/cb2` in the form used by the algebra. -/
theorem nu_cb2 (hq : q.WF) (ht : IsTemplateOf t q.hydro) : q.nu * t.cb2 = t.cb2 + 1 := by
  have h : q.nu - 1 ≠ 0 := by linarith [hq.nu_gt]
  rw [cb2_eq ht]; field_simp; ring

theorem mu_cs2 (hq : q.WF) (ht : IsTemplateOf t q.hydro) : q.mu * t.cs2 = t.cs2 + 1 := by
  have h : q.mu - 1 ≠ 0 := by linarith [hq.mu_gt]
  rw [cs2_eq ht]; field_simp; ring

theorem wN_eq (ht : IsTemplateOf t q.hydro) : t.wN = q.mu * q.ap / 3 * q.Tn ^ q.mu := ht.wN
theorem pN_eq (ht : IsTemplateOf t q.hydro) : t.pN = q.ap / 3 * q.Tn ^ q.mu - q.eps := ht.pN

theorem wN_pos (hq : q.WF) (ht : IsTemplateOf t q.hydro) : 0 < t.wN := by
  rw [wN_eq ht]
  have := Real.rpow_pos_of_pos hq.Tn_pos q.mu
  have := hq.ap_pos; have := hq.mu_gt
  positivity

theorem psiN_eq (ht : IsTemplateOf t q.hydro) :
    t.psiN = (q.nu * q.am / 3 * q.Tn ^ q.nu) / (q.mu * q.ap / 3 * q.Tn ^ q.mu) := ht.psiN

/-- On the template EOS `α(T) = (μ−ν)/(3μ) + ν ε/(3 w₊(T))`; in particular the low-temperature phase does
not contribute (`e₋ − p₋/cb² = 0`). -/
theorem alN_eq (hq : q.WF) (ht : IsTemplateOf t q.hydro) :
    t.alN = (q.mu - q.nu) / (3 * q.mu) + q.nu * q.eps / (3 * t.wN) := by
  have h : q.nu - 1 ≠ 0 := by linarith [hq.nu_gt]
  have hmu : q.mu ≠ 0 := by linarith [hq.mu_gt]
  have hw := (wN_pos hq ht).ne'
  have hT := (Real.rpow_pos_of_pos hq.Tn_pos q.mu).ne'
  have ha := hq.ap_pos.ne'
  rw [ht.alN, cb2_eq ht, ht.wN]
  simp only [alN_set, TPar.hydro]
  rw [ht.wN] at hw; simp only [TPar.hydro] at hw
  field_simp
  ring

/-- `N := (1 − 3 αN) μ − ν = − 3 μ ν ε / (3 wN)`, written without division. -/
theorem alN_N (hq : q.WF) (ht : IsTemplateOf t q.hydro) :
    ((1 - 3 * t.alN) * q.mu - q.nu) * t.wN = - (q.mu * q.nu * q.eps) := by
  have hmu : q.mu ≠ 0 := by linarith [hq.mu_gt]
  have hw := (wN_pos hq ht).ne'
  rw [alN_eq hq ht]; field_simp; ring

/-- `__init__`'s `epsilon` recovers the vacuum-energy parameter `ε` of the template EOS. -/
theorem epsilon_eq (hq : q.WF) (ht : IsTemplateOf t q.hydro) : t.epsilon = q.eps := by
  have hmu : q.mu ≠ 0 := by linarith [hq.mu_gt]
  have hnu : q.nu ≠ 0 := by linarith [hq.nu_gt]
  have hw := (wN_pos hq ht).ne'
  rw [ht.epsilon, epsilon_set, mu_eq hq ht, nu_eq hq ht, alN_eq hq ht]; field_simp; ring

end fields

/-! ## Junction algebra at the wall -/

/-- The code's expression for `α₊` from `(v₊, v₋)` (eq. 20a of arXiv:2303.10171 solved for `α₊`),
exactly as it appears in `_shooting` / `findMatching`. -/
noncomputable def alphaCode (vp vm cb2 : ℝ) : ℝ :=
  (((((vp / vm) - (1 : ℝ)) * (((vp * vm) / cb2) - (1 : ℝ))) / ((1 : ℝ) - (vp ^ 2))) / (3 : ℝ))

theorem junction_defect {wp pp wm vp vm cb2 nu : ℝ}
    (hvm : vm ≠ 0) (hvm1 : 1 - vm ^ 2 ≠ 0) (hvp1 : 1 - vp ^ 2 ≠ 0) (hcb : cb2 ≠ 0) (hnu0 : nu ≠ 0)
    (hnu : nu * cb2 = cb2 + 1)
    (E : wp * gammaSq vp * vp = wm * gammaSq vm * vm) :
    (wp * gammaSq vp * vp ^ 2 + pp) - (wm * gammaSq vm * vm ^ 2 + wm / nu)
      = pp - wp / nu * (1 - 3 * alphaCode vp vm cb2) := by
  have hvm1' : 1 - vm * vm ≠ 0 := by rwa [← pow_two]
  have hvp1' : 1 - vp * vp ≠ 0 := by rwa [← pow_two]
  have hc1 : cb2 + 1 ≠ 0 := by rw [← hnu]; exact mul_ne_zero hnu0 hcb
  have hnu' : nu = (cb2 + 1) / cb2 := by field_simp; linarith
  have hwm : wm = wp * gammaSq vp * vp * (1 - vm * vm) / vm := by
    unfold gammaSq at E ⊢; field_simp at E ⊢; linarith
  rw [hwm, hnu']; unfold gammaSq alphaCode
  field_simp
  ring

/-! ## The template EOS inside the template solver's formulas -/

section eos
variable {q : TPar} {t : TemplP}

theorem wH_pos (hq : q.WF) {T : ℝ} (hT : 0 < T) : 0 < q.hydro.wHighT T := by
  have := Real.rpow_pos_of_pos hT q.mu
  have := hq.ap_pos; have := hq.mu_gt
  simp only [TPar.hydro]; positivity

/-- `findHydroBoundaries` (template): `wN·(Tp/Tn)^μ` is the template EOS enthalpy at `Tp`. -/
theorem wH_scale (hq : q.WF) (ht : IsTemplateOf t q.hydro) {Tp : ℝ} (hTp : 0 ≤ Tp) :
    t.wN * WG.R.rpow (Tp / t.Tnucl) t.mu = q.hydro.wHighT Tp := by
  have hT := (Real.rpow_pos_of_pos hq.Tn_pos q.mu).ne'
  rw [wN_eq ht, Tnucl_eq ht, mu_eq hq ht]
  simp only [WG.R.rpow, Real.rpow_eq_pow, TPar.hydro]
  rw [Real.div_rpow hTp hq.Tn_pos.le]
  field_simp

/-- `findHydroBoundaries` (template): `pN + ((Tp/Tn)^μ − 1)·wN/μ` is the template EOS pressure at `Tp`. -/
theorem pH_scale (hq : q.WF) (ht : IsTemplateOf t q.hydro) {Tp : ℝ} (hTp : 0 ≤ Tp) :
    t.pN + ((WG.R.rpow (Tp / t.Tnucl) t.mu - 1) * t.wN) / t.mu = q.hydro.pHighT Tp := by
  have hT := (Real.rpow_pos_of_pos hq.Tn_pos q.mu).ne'
  have hmu : q.mu ≠ 0 := by linarith [hq.mu_gt]
  rw [wN_eq ht, pN_eq ht, Tnucl_eq ht, mu_eq hq ht]
  simp only [WG.R.rpow, Real.rpow_eq_pow, TPar.hydro]
  rw [Real.div_rpow hTp hq.Tn_pos.le]
  field_simp
  ring

/-- `_findTm` encodes energy-flux conservation `w₊γ₊²v₊ = w₋γ₋²v₋` on the template EOS. -/
theorem findTm_energyFlux (hq : q.WF) (ht : IsTemplateOf t q.hydro) {vp vm Tp : ℝ}
    (hvp : 0 < vp) (hvp1 : vp < 1) (hvm : 0 < vm) (hvm1 : vm < 1) (hTp : 0 ≤ Tp) :
    q.hydro.wHighT Tp * gammaSq vp * vp = q.hydro.wLowT (findTm t vm vp Tp) * gammaSq vm * vm := by
  have hA := Real.rpow_pos_of_pos hq.Tn_pos q.mu
  have hB := Real.rpow_pos_of_pos hq.Tn_pos q.nu
  have hP := Real.rpow_nonneg hTp q.mu
  have hmu : 0 < q.mu := by linarith [hq.mu_gt]
  have hnu : 0 < q.nu := by linarith [hq.nu_gt]
  have hap := hq.ap_pos; have ham := hq.am_pos
  have h1 : 0 < 1 - vp ^ 2 := by nlinarith
  have h2 : 0 < 1 - vm ^ 2 := by nlinarith
  have h1' : 0 < 1 - vp * vp := by nlinarith
  have h2' : 0 < 1 - vm * vm := by nlinarith
  simp only [findTm, WG.R.rpow, Real.rpow_eq_pow]
  rw [psiN_eq ht, Tnucl_eq ht, mu_eq hq ht, nu_eq hq ht]
  simp only [TPar.hydro]
  generalize q.Tn ^ q.mu = A at *
  generalize q.Tn ^ q.nu = B at *
  generalize Tp ^ q.mu = P at *
  set X := 3 / (q.mu * A) * vp * q.mu * (1 - vm ^ 2) * P /
    (3 * (q.nu * q.am / 3 * B / (q.mu * q.ap / 3 * A)) / (q.nu * B) * vm * q.nu * (1 - vp ^ 2)) with hX
  have hX0 : 0 ≤ X := by rw [hX]; positivity
  rw [← Real.rpow_mul hX0, one_div_mul_cancel hnu.ne', Real.rpow_one, hX]
  unfold gammaSq
  field_simp
end eos

/-! ## The transition strength `α(T)` and momentum-flux conservation -/

section alpha
variable {q : TPar} {t : TemplP}

/-- The transition strength `α(T)` of [ALvdV23], computed exactly like `__init__` computes `alN` but at an
arbitrary temperature `T` (both phases at the same temperature). -/
noncomputable def TPar.alphaAt (q : TPar) (T : ℝ) : ℝ :=
  alN_set (q.hydro.wHighT T - q.hydro.pHighT T) (q.hydro.wLowT T - q.hydro.pLowT T)
    (q.hydro.pHighT T) (q.hydro.pLowT T) (q.hydro.wHighT T) (q.hydro.csqLowT q.hydro.Tnucl)

theorem alphaAt_Tn (ht : IsTemplateOf t q.hydro) : q.alphaAt q.Tn = t.alN := by
  rw [ht.alN, ht.cb2]; rfl

/-- `p₊(T) = w₊(T) (1 − 3 α(T)) / ν` on the template EOS. -/
theorem pH_alphaAt (hq : q.WF) {T : ℝ} (hT : 0 < T) :
    q.hydro.pHighT T = q.hydro.wHighT T / q.nu * (1 - 3 * q.alphaAt T) := by
  have h : q.nu - 1 ≠ 0 := by linarith [hq.nu_gt]
  have hnu : q.nu ≠ 0 := by linarith [hq.nu_gt]
  have hmu : q.mu ≠ 0 := by linarith [hq.mu_gt]
  have hP := (Real.rpow_pos_of_pos hT q.mu).ne'
  have ha := hq.ap_pos.ne'
  simp only [TPar.alphaAt, alN_set, TPar.hydro]
  field_simp
  ring

/-- closed form `α(T) = (μ−ν)/(3μ) + ν ε /(3 w₊(T))`. -/
theorem alphaAt_eq (hq : q.WF) {T : ℝ} (hT : 0 < T) :
    q.alphaAt T = (q.mu - q.nu) / (3 * q.mu) + q.nu * q.eps / (3 * q.hydro.wHighT T) := by
  have h : q.nu - 1 ≠ 0 := by linarith [hq.nu_gt]
  have hnu : q.nu ≠ 0 := by linarith [hq.nu_gt]
  have hmu : q.mu ≠ 0 := by linarith [hq.mu_gt]
  have hP := (Real.rpow_pos_of_pos hT q.mu).ne'
  have ha := hq.ap_pos.ne'
  simp only [TPar.alphaAt, alN_set, TPar.hydro]
  field_simp
  ring

/-- Momentum-flux defect across the wall on the template EOS, given energy-flux conservation:
it is `3 w₊/ν · (α_code(v₊,v₋) − α(T₊))`. -/
theorem momentum_defect_alpha (hq : q.WF) (ht : IsTemplateOf t q.hydro) {vp vm Tp Tm : ℝ}
    (hvp1 : 1 - vp ^ 2 ≠ 0) (hvm : vm ≠ 0) (hvm1 : 1 - vm ^ 2 ≠ 0) (hTp : 0 < Tp)
    (E : q.hydro.wHighT Tp * gammaSq vp * vp = q.hydro.wLowT Tm * gammaSq vm * vm) :
    (q.hydro.wHighT Tp * gammaSq vp * vp ^ 2 + q.hydro.pHighT Tp)
      - (q.hydro.wLowT Tm * gammaSq vm * vm ^ 2 + q.hydro.pLowT Tm)
      = 3 * q.hydro.wHighT Tp / q.nu * (alphaCode vp vm t.cb2 - q.alphaAt Tp) := by
  have hnu : q.nu ≠ 0 := by linarith [hq.nu_gt]
  have hpm : q.hydro.pLowT Tm = q.hydro.wLowT Tm / q.nu := by
    simp only [TPar.hydro]; field_simp
  rw [hpm, junction_defect hvm hvm1 hvp1 (cb2_pos hq ht).ne' hnu (nu_cb2 hq ht) E, pH_alphaAt hq hTp]
  ring

/-- Given energy-flux conservation, momentum-flux conservation across the wall is *equivalent* to the
template matching relation `α(T₊) = (v₊/v₋ − 1)(v₊v₋/cb² − 1)/(3(1 − v₊²))`. -/
theorem momentum_iff_alpha (hq : q.WF) (ht : IsTemplateOf t q.hydro) {vp vm Tp Tm : ℝ}
    (hvp1 : 1 - vp ^ 2 ≠ 0) (hvm : vm ≠ 0) (hvm1 : 1 - vm ^ 2 ≠ 0) (hTp : 0 < Tp)
    (E : q.hydro.wHighT Tp * gammaSq vp * vp = q.hydro.wLowT Tm * gammaSq vm * vm) :
    (q.hydro.wHighT Tp * gammaSq vp * vp ^ 2 + q.hydro.pHighT Tp
      = q.hydro.wLowT Tm * gammaSq vm * vm ^ 2 + q.hydro.pLowT Tm)
      ↔ q.alphaAt Tp = alphaCode vp vm t.cb2 := by
  have hnu : q.nu ≠ 0 := by linarith [hq.nu_gt]
  have hw := (wH_pos hq hTp).ne'
  rw [← sub_eq_zero, momentum_defect_alpha hq ht hvp1 hvm hvm1 hTp E]
  have : 3 * q.hydro.wHighT Tp / q.nu ≠ 0 := by positivity
  rw [mul_eq_zero, or_iff_right this, sub_eq_zero, eq_comm]

end alpha

/-! ## `wFromAlpha` and its `1e-100` regulators -/

/-- the regulator `1e-100` -/
noncomputable def reg : ℝ := (1 / 10000000000000000000000000000000000000000000000000000000000000000000000000000000000000000000000000000 : ℝ)

theorem reg_pos : 0 < reg := by unfold reg; positivity
theorem reg_eq : reg = 1 / 10 ^ 100 := by unfold reg; norm_num

/-- numerator `N = (1 − 3αN) μ − ν` of the exact enthalpy ratio -/
def wNum (t : TemplP) : ℝ := (1 - 3 * t.alN) * t.mu - t.nu
/-- denominator `D = (1 − 3α₊) μ − ν` of the exact enthalpy ratio -/
def wDen (t : TemplP) (al : ℝ) : ℝ := (1 - 3 * al) * t.mu - t.nu

/-- When `N·D ≥ 0` (same sign, or one of them zero) the code returns `(|N| + 1e-100)/(|D| + 1e-100)`.
(Since WallGo commit 108cf41 the sign factor is `-1 if N·D < 0 else 1`; the old `np.sign(N)·np.sign(D)`
returned `0` whenever `N = 0` or `D = 0`.) -/
theorem wFromAlpha_of_nonneg {t : TemplP} {al : ℝ} (h : 0 ≤ wNum t * wDen t al) :
    wFromAlpha t al = (|wNum t| + reg) / (|wDen t al| + reg) := by
  have hs : ¬ (((1 - 3 * t.alN) * t.mu - t.nu) * ((1 - 3 * al) * t.mu - t.nu) < 0) := not_lt.mpr h
  simp only [wFromAlpha, hs, if_false, one_mul]; rfl

/-- When `N·D < 0` the code returns `−(|N| + 1e-100)/(|D| + 1e-100)`. -/
theorem wFromAlpha_of_neg {t : TemplP} {al : ℝ} (h : wNum t * wDen t al < 0) :
    wFromAlpha t al = -((|wNum t| + reg) / (|wDen t al| + reg)) := by
  have hs : ((1 - 3 * t.alN) * t.mu - t.nu) * ((1 - 3 * al) * t.mu - t.nu) < 0 := h
  simp only [wFromAlpha, hs, if_true]
  rw [neg_one_mul, neg_div]; rfl

theorem wFromAlpha_of_pos {t : TemplP} {al : ℝ} (h : 0 < wNum t * wDen t al) :
    wFromAlpha t al = (|wNum t| + reg) / (|wDen t al| + reg) := wFromAlpha_of_nonneg h.le

/-- `wFromAlpha` is positive as soon as `N·D ≥ 0` (including `N = 0` or `D = 0`). -/
theorem wFromAlpha_pos {t : TemplP} {al : ℝ} (h : 0 ≤ wNum t * wDen t al) : 0 < wFromAlpha t al := by
  rw [wFromAlpha_of_nonneg h]
  have := reg_pos
  positivity

/-- the sign of `wFromAlpha` is exactly the sign of `N·D` (with `+` at `0`). -/
theorem wFromAlpha_pos_iff {t : TemplP} {al : ℝ} : 0 < wFromAlpha t al ↔ 0 ≤ wNum t * wDen t al := by
  constructor
  · intro h
    by_contra hc
    rw [wFromAlpha_of_neg (not_le.mp hc)] at h
    have := reg_pos
    have : 0 < (|wNum t| + reg) / (|wDen t al| + reg) := by positivity
    linarith
  · exact wFromAlpha_pos

/-- Exact deviation of the regularised ratio from `N/D` (in the division-free form `D·w − N`). -/
theorem wFromAlpha_defect {t : TemplP} {al : ℝ} (h : 0 ≤ wNum t * wDen t al) :
    |wDen t al * wFromAlpha t al - wNum t| = reg * |(|wDen t al| - |wNum t|)| / (|wDen t al| + reg) := by
  have hr := reg_pos
  rw [wFromAlpha_of_nonneg h]
  have hpos : 0 < |wDen t al| + reg := by positivity
  rcases mul_nonneg_iff.mp h with ⟨hN, hD⟩ | ⟨hN, hD⟩
  · rw [abs_of_nonneg hN, abs_of_nonneg hD] at *
    have : wDen t al * ((wNum t + reg) / (wDen t al + reg)) - wNum t
        = reg * (wDen t al - wNum t) / (wDen t al + reg) := by field_simp; ring
    rw [this, abs_div, abs_mul, abs_of_pos hr, abs_of_pos hpos]
  · rw [abs_of_nonpos hN, abs_of_nonpos hD] at *
    have : wDen t al * ((-wNum t + reg) / (-wDen t al + reg)) - wNum t
        = - (reg * (-wDen t al - -wNum t) / (-wDen t al + reg)) := by field_simp; ring
    rw [this, abs_neg, abs_div, abs_mul, abs_of_pos hr, abs_of_pos hpos]

theorem wFromAlpha_defect_le {t : TemplP} {al : ℝ} (h : 0 ≤ wNum t * wDen t al)
    (hD : wDen t al ≠ 0) :
    |wDen t al * wFromAlpha t al - wNum t| ≤ reg * (1 + |wNum t / wDen t al|) := by
  have hr := reg_pos
  have hD' : 0 < |wDen t al| := abs_pos.mpr hD
  rw [wFromAlpha_defect h, mul_div_assoc]
  apply mul_le_mul_of_nonneg_left _ hr.le
  rw [abs_div, div_le_iff₀ (by positivity)]
  have h1 : |(|wDen t al| - |wNum t|)| ≤ |wDen t al| + |wNum t| := by
    rw [abs_le]; constructor <;> linarith [abs_nonneg (wDen t al), abs_nonneg (wNum t)]
  have h2 : (1 + |wNum t| / |wDen t al|) * (|wDen t al| + reg)
      = |wDen t al| + |wNum t| + reg * (1 + |wNum t| / |wDen t al|) := by field_simp
  rw [h2]
  have : 0 ≤ reg * (1 + |wNum t| / |wDen t al|) := by positivity
  linarith


/-! ## `findMatching`, deflagration / hybrid branch: `T₊ = Tn·w₊^{1/μ}` -/

section deflag
variable {q : TPar} {t : TemplP}

theorem deflagTpTm_eq (t : TemplP) (vm vp : ℝ) :
    deflagTpTm t vm vp =
      (vp, vm, t.Tnucl * WG.R.rpow (wFromAlpha t (alphaCode vp vm t.cb2)) (1 / t.mu),
        findTm t vm vp (t.Tnucl * WG.R.rpow (wFromAlpha t (alphaCode vp vm t.cb2)) (1 / t.mu))) := rfl

/-- `T₊ = Tn · w₊^{1/μ}` has enthalpy `w₊(T₊) = wN · w₊` (for `w₊ > 0`). -/
theorem wH_TpOfW (hq : q.WF) (ht : IsTemplateOf t q.hydro) {wp : ℝ} (hwp : 0 < wp) :
    q.hydro.wHighT (t.Tnucl * WG.R.rpow wp (1 / t.mu)) = t.wN * wp := by
  have hmu : q.mu ≠ 0 := by linarith [hq.mu_gt]
  rw [wN_eq ht, Tnucl_eq ht, mu_eq hq ht]
  simp only [WG.R.rpow, Real.rpow_eq_pow, TPar.hydro]
  rw [Real.mul_rpow hq.Tn_pos.le (Real.rpow_nonneg hwp.le _), ← Real.rpow_mul hwp.le,
    one_div_mul_cancel hmu, Real.rpow_one]
  ring

theorem TpOfW_pos (hq : q.WF) (ht : IsTemplateOf t q.hydro) {wp : ℝ} (hwp : 0 < wp) :
    0 < t.Tnucl * WG.R.rpow wp (1 / t.mu) := by
  rw [Tnucl_eq ht]
  exact mul_pos hq.Tn_pos (Real.rpow_pos_of_pos hwp _)

/-- Momentum-flux defect of the template's `(v₊, v₋, T₊, T₋)` in the *general* junction condition:
`−wN/(μν) · (D·w₊ − N)` where `w₊` is whatever enthalpy ratio was used for `T₊ = Tn w₊^{1/μ}` and
`N/D` is the exact ratio. -/
theorem momentum_defect_TpOfW (hq : q.WF) (ht : IsTemplateOf t q.hydro) {vp vm wp Tm : ℝ}
    (hvp1 : 1 - vp ^ 2 ≠ 0) (hvm : vm ≠ 0) (hvm1 : 1 - vm ^ 2 ≠ 0) (hwp : 0 < wp)
    (E : q.hydro.wHighT (t.Tnucl * WG.R.rpow wp (1 / t.mu)) * gammaSq vp * vp
          = q.hydro.wLowT Tm * gammaSq vm * vm) :
    (q.hydro.wHighT (t.Tnucl * WG.R.rpow wp (1 / t.mu)) * gammaSq vp * vp ^ 2
        + q.hydro.pHighT (t.Tnucl * WG.R.rpow wp (1 / t.mu)))
      - (q.hydro.wLowT Tm * gammaSq vm * vm ^ 2 + q.hydro.pLowT Tm)
      = - (t.wN / (q.mu * q.nu)) * (wDen t (alphaCode vp vm t.cb2) * wp - wNum t) := by
  have hnu : q.nu ≠ 0 := by linarith [hq.nu_gt]
  have hmu : q.mu ≠ 0 := by linarith [hq.mu_gt]
  have hw := (wN_pos hq ht).ne'
  have hTp := TpOfW_pos hq ht hwp
  rw [momentum_defect_alpha hq ht hvp1 hvm hvm1 hTp E, alphaAt_eq hq hTp, wH_TpOfW hq ht hwp]
  have hN := alN_N hq ht
  unfold wNum wDen
  rw [mu_eq hq ht, nu_eq hq ht]
  have hε : q.eps = - (((1 - 3 * t.alN) * q.mu - q.nu) * t.wN) / (q.mu * q.nu) := by
    rw [hN]; field_simp
  generalize alphaCode vp vm t.cb2 = al
  rw [hε]
  field_simp
  ring

end deflag

/-! ## `getVp`: the quadratic it solves -/

/-- discriminant used by `getVp` (before clipping at 0) -/
def vpDisc (cb2 vm al : ℝ) : ℝ :=
  (((vm ^ 4) - ((((2 : ℝ) * cb2) * (vm ^ 2)) * ((1 : ℝ) - ((6 : ℝ) * al)))) +
    ((cb2 ^ 2) * ((1 : ℝ) - ((((12 : ℝ) * (vm ^ 2)) * al) * ((1 : ℝ) - ((3 : ℝ) * al))))))

/-- the quadratic in `v₊` whose roots are `getVp (·) (·) (±1)`:
`v₋(1+3cb²α)·v₊² − (cb² + v₋²)·v₊ + cb² v₋ (1 − 3α)` -/
def vpQuad (cb2 vm al vp : ℝ) : ℝ :=
  (vm + 3 * cb2 * vm * al) * vp ^ 2 - (cb2 + vm ^ 2) * vp + cb2 * vm * (1 - 3 * al)

theorem vpDisc_eq (cb2 vm al : ℝ) :
    vpDisc cb2 vm al = (cb2 + vm ^ 2) ^ 2 - 4 * (vm + 3 * cb2 * vm * al) * (cb2 * vm * (1 - 3 * al)) := by
  unfold vpDisc; ring

theorem getVp_eq {t : TemplP} {vm al b : ℝ} (hd : 0 ≤ vpDisc t.cb2 vm al) :
    getVp t vm al b = (1 / 2 : ℝ) * (t.cb2 + vm ^ 2 + b * Real.sqrt (vpDisc t.cb2 vm al))
        / (vm + 3 * t.cb2 * vm * al) := by
  have : WG.R.pmax 0 (vpDisc t.cb2 vm al) = vpDisc t.cb2 vm al := by
    rw [WG.R.pmax_eq_max]; exact max_eq_right hd
  unfold vpDisc at this
  simp only [getVp, this]; rfl

/-- `getVp` returns a root of `vpQuad` (either branch) when the discriminant is non-negative. -/
theorem getVp_root {t : TemplP} {vm al b : ℝ} (hA : vm + 3 * t.cb2 * vm * al ≠ 0)
    (hd : 0 ≤ vpDisc t.cb2 vm al) (hb : b ^ 2 = 1) :
    vpQuad t.cb2 vm al (getVp t vm al b) = 0 := by
  have hs : Real.sqrt (vpDisc t.cb2 vm al) ^ 2 = vpDisc t.cb2 vm al := Real.sq_sqrt hd
  rw [getVp_eq hd]
  set S := Real.sqrt (vpDisc t.cb2 vm al)
  rw [vpDisc_eq] at hs
  have hvm : vm ≠ 0 := by rintro rfl; simp at hA
  have hK : 1 + 3 * t.cb2 * al ≠ 0 := by
    intro h0; apply hA; linear_combination vm * h0
  unfold vpQuad
  field_simp
  linear_combination S ^ 2 * hb + hs

/-- The quadratic is the matching relation `α = (v₊/v₋ − 1)(v₊v₋/cb² − 1)/(3(1 − v₊²))`. -/
theorem vpQuad_iff_alpha {cb2 vm al vp : ℝ} (hvm : vm ≠ 0) (hcb : cb2 ≠ 0) (hvp : 1 - vp ^ 2 ≠ 0) :
    vpQuad cb2 vm al vp = 0 ↔ al = alphaCode vp vm cb2 := by
  unfold vpQuad alphaCode
  constructor
  · intro h; field_simp; linear_combination (-1) * h
  · intro h; rw [h]; field_simp; ring

/-! ## Detonations -/

/-- `part` of `detonationVAndT` -/
def detPart (t : TemplP) (vp : ℝ) : ℝ :=
  ((vp ^ 2) + (t.cb2 * ((1 : ℝ) - (((3 : ℝ) * ((1 : ℝ) - (vp ^ 2))) * t.alN))))

/-- `v₋` of `detonationVAndT` -/
noncomputable def detVm (t : TemplP) (vp : ℝ) : ℝ :=
  (detPart t vp + Real.sqrt (detPart t vp ^ 2 - 4 * t.cb2 * vp ^ 2)) / (2 * vp)

theorem detonationVAndT_eq (t : TemplP) (vw : ℝ) :
    detonationVAndT t vw = (vw, detVm t vw, t.Tnucl, findTm t (detVm t vw) vw t.Tnucl) := rfl

/-- `v₋` of a detonation is a root of `v₊ v₋² − part·v₋ + cb² v₊`. -/
theorem detVm_root {t : TemplP} {vp : ℝ} (hvp : vp ≠ 0)
    (hd : 0 ≤ detPart t vp ^ 2 - 4 * t.cb2 * vp ^ 2) :
    vp * detVm t vp ^ 2 - detPart t vp * detVm t vp + t.cb2 * vp = 0 := by
  have hs := Real.sq_sqrt hd
  unfold detVm
  set S := Real.sqrt (detPart t vp ^ 2 - 4 * t.cb2 * vp ^ 2)
  field_simp
  linear_combination hs

/-- that quadratic is the matching relation with `α₊ = αN`. -/
theorem detQuad_iff_alpha {t : TemplP} {vp vm : ℝ} (hvm : vm ≠ 0) (hcb : t.cb2 ≠ 0)
    (hvp : 1 - vp ^ 2 ≠ 0) :
    vp * vm ^ 2 - detPart t vp * vm + t.cb2 * vp = 0 ↔ t.alN = alphaCode vp vm t.cb2 := by
  unfold detPart alphaCode
  constructor
  · intro h; field_simp; linear_combination h
  · intro h; rw [h]; field_simp; ring


/-! ## Chapman–Jouguet -/

/-- radicand of `findJouguetVelocity` -/
def jRad (t : TemplP) : ℝ := ((3 : ℝ) * t.alN) * (((1 : ℝ) - t.cb2) + (((3 : ℝ) * t.cb2) * t.alN))

theorem findJouguetVelocity_eq (t : TemplP) :
    findJouguetVelocity t t.alN = t.cb * (1 + Real.sqrt (jRad t)) / (1 + 3 * t.cb2 * t.alN) := rfl

/-- `part − 2 cb v` is a quadratic in `v` whose larger root is the Jouguet velocity. -/
theorem detPart_sub {t : TemplP} (hcb : t.cb ^ 2 = t.cb2) (hK : 1 + 3 * t.cb2 * t.alN ≠ 0)
    (hrad : 0 ≤ jRad t) (v : ℝ) :
    detPart t v - 2 * t.cb * v
      = (1 + 3 * t.cb2 * t.alN) * (v - findJouguetVelocity t t.alN) ^ 2
        + 2 * t.cb * Real.sqrt (jRad t) * (v - findJouguetVelocity t t.alN) := by
  have hs := Real.sq_sqrt hrad
  rw [findJouguetVelocity_eq]
  set S := Real.sqrt (jRad t)
  unfold jRad at hs
  unfold detPart
  have hJ : (1 + 3 * t.cb2 * t.alN) * (t.cb * (1 + S) / (1 + 3 * t.cb2 * t.alN)) = t.cb * (1 + S) := by
    field_simp
  generalize t.cb * (1 + S) / (1 + 3 * t.cb2 * t.alN) = J at hJ ⊢
  rw [← sub_eq_zero]
  apply (mul_eq_zero.mp _).resolve_left hK
  rw [← hcb] at hs hJ ⊢
  linear_combination (-(1 + 3 * t.cb ^ 2 * t.alN) * J - t.cb * (1 + S) + 2 * t.cb * S
      + 2 * v * (1 + 3 * t.cb ^ 2 * t.alN)) * hJ + t.cb ^ 2 * hs

theorem findJouguetVelocity_ne_zero {t : TemplP} (hcb0 : t.cb ≠ 0) (hK : 1 + 3 * t.cb2 * t.alN ≠ 0) :
    findJouguetVelocity t t.alN ≠ 0 := by
  rw [findJouguetVelocity_eq]
  have : 0 < 1 + Real.sqrt (jRad t) := by positivity
  exact div_ne_zero (mul_ne_zero hcb0 this.ne') hK

/-- At the Jouguet velocity `part = 2 cb v`. -/
theorem detPart_at_vJ {t : TemplP} (hcb : t.cb ^ 2 = t.cb2) (hK : 1 + 3 * t.cb2 * t.alN ≠ 0)
    (hrad : 0 ≤ jRad t) :
    detPart t (findJouguetVelocity t t.alN) = 2 * t.cb * findJouguetVelocity t t.alN := by
  have := detPart_sub hcb hK hrad (findJouguetVelocity t t.alN)
  rw [sub_self] at this
  linear_combination this

/-- At the Jouguet velocity the discriminant of the detonation branch vanishes. -/
theorem detDisc_at_vJ {t : TemplP} (hcb : t.cb ^ 2 = t.cb2) (hK : 1 + 3 * t.cb2 * t.alN ≠ 0)
    (hrad : 0 ≤ jRad t) :
    detPart t (findJouguetVelocity t t.alN) ^ 2 - 4 * t.cb2 * findJouguetVelocity t t.alN ^ 2 = 0 := by
  rw [detPart_at_vJ hcb hK hrad, ← hcb]; ring

/-- Chapman–Jouguet: at `vw = vJ` the template detonation has `v₋ = cb`. -/
theorem detVm_at_vJ {t : TemplP} (hcb : t.cb ^ 2 = t.cb2) (hcb0 : t.cb ≠ 0)
    (hK : 1 + 3 * t.cb2 * t.alN ≠ 0) (hrad : 0 ≤ jRad t) :
    detVm t (findJouguetVelocity t t.alN) = t.cb := by
  have hv := findJouguetVelocity_ne_zero hcb0 hK
  unfold detVm
  rw [detDisc_at_vJ hcb hK hrad, Real.sqrt_zero, detPart_at_vJ hcb hK hrad, add_zero]
  field_simp

/-- For `vw ≥ vJ` one has `part ≥ 2 cb vw`. -/
theorem detPart_ge {t : TemplP} (hcb : t.cb ^ 2 = t.cb2) (hcb0 : 0 ≤ t.cb)
    (hK : 0 < 1 + 3 * t.cb2 * t.alN) (hrad : 0 ≤ jRad t) {v : ℝ}
    (hv : findJouguetVelocity t t.alN ≤ v) : 2 * t.cb * v ≤ detPart t v := by
  have h := detPart_sub hcb hK.ne' hrad v
  have h1 : 0 ≤ v - findJouguetVelocity t t.alN := sub_nonneg.mpr hv
  have h2 : 0 ≤ Real.sqrt (jRad t) := Real.sqrt_nonneg _
  have : 0 ≤ (1 + 3 * t.cb2 * t.alN) * (v - findJouguetVelocity t t.alN) ^ 2
        + 2 * t.cb * Real.sqrt (jRad t) * (v - findJouguetVelocity t t.alN) := by positivity
  linarith

/-- For `vw ≥ vJ` the square root in `detonationVAndT` is real. -/
theorem detDisc_nonneg {t : TemplP} (hcb : t.cb ^ 2 = t.cb2) (hcb0 : 0 ≤ t.cb)
    (hK : 0 < 1 + 3 * t.cb2 * t.alN) (hrad : 0 ≤ jRad t) {v : ℝ} (hv0 : 0 ≤ v)
    (hv : findJouguetVelocity t t.alN ≤ v) : 0 ≤ detPart t v ^ 2 - 4 * t.cb2 * v ^ 2 := by
  have h := detPart_ge hcb hcb0 hK hrad hv
  have : detPart t v ^ 2 - 4 * t.cb2 * v ^ 2
      = (detPart t v - 2 * t.cb * v) * (detPart t v - 2 * t.cb * v + 4 * (t.cb * v)) := by
    rw [← hcb]; ring
  rw [this]
  have : 0 ≤ t.cb * v := mul_nonneg hcb0 hv0
  apply mul_nonneg <;> linarith

/-- `cb ≤ v₋` for a detonation with `part ≥ 2 cb vw` (in particular `v₋ > 0`). -/
theorem detVm_ge_cb {t : TemplP} {v : ℝ} (hv0 : 0 < v) (h : 2 * t.cb * v ≤ detPart t v) :
    t.cb ≤ detVm t v := by
  unfold detVm
  rw [le_div_iff₀ (by positivity)]
  have := Real.sqrt_nonneg (detPart t v ^ 2 - 4 * t.cb2 * v ^ 2)
  linarith

/-- `v₋ < 1` for a detonation with `0 < cb² < vw < 1`, `αN ≥ 0`. -/
theorem detVm_lt_one {t : TemplP} {v : ℝ} (hc0 : 0 < t.cb2) (hal : 0 ≤ t.alN)
    (hv : t.cb2 < v) (hv1 : v < 1) : detVm t v < 1 := by
  have hv0 : 0 < v := hc0.trans hv
  have hp : detPart t v < v * (1 + t.cb2) := by
    unfold detPart
    have h1 : 0 < (1 - v) * (v - t.cb2) := mul_pos (by linarith) (by linarith)
    have h2 : 0 ≤ t.cb2 * (1 - v ^ 2) * t.alN := by
      have : 0 ≤ 1 - v ^ 2 := by nlinarith
      positivity
    nlinarith
  unfold detVm
  rw [div_lt_one (by positivity)]
  have h2 : 0 < 2 * v - detPart t v := by nlinarith
  have : Real.sqrt (detPart t v ^ 2 - 4 * t.cb2 * v ^ 2) < 2 * v - detPart t v := by
    rw [Real.sqrt_lt' h2]
    nlinarith
  linarith


/-! ## Fluid equations -/

/-- sound speed squared used by `shockDE`: `csqHighT` in the shock wave, `csqLowT` in the rarefaction wave -/
noncomputable abbrev csqOf (s : HydroP) (T : ℝ) (b : Bool) : ℝ := if b then s.csqHighT T else s.csqLowT T

/-- `shockDE` in closed form. -/
theorem shockDE_eq (s : HydroP) (v xi T : ℝ) (b : Bool) :
    shockDE s v (xi, T) b =
      (gammaSq v * (1 - v * xi) * (boostVelocity xi v ^ 2 / (if b then s.csqHighT T else s.csqLowT T) - 1)
          * xi / 2 / v,
       T * gammaSq v * boostVelocity xi v) := by
  cases b <;> simp [shockDE]

/-- The `ξ`-equation of the template solver is the `ξ`-equation of the general solver
(same sound speed, `v ≠ 0`). -/
theorem dxiAndWdv_fst_eq {t : TemplP} {s : HydroP} {v xi w T : ℝ} (hv : v ≠ 0) (b : Bool)
    (hcs : t.cs2 = s.csqHighT T) (hcb : t.cb2 = s.csqLowT T) :
    (dxiAndWdv t v (xi, w) b).1 = (shockDE s v (xi, T) b).1 := by
  cases b <;> simp [dxiAndWdv, shockDE, hv, gammaSq, boostVelocity, hcs, hcb] <;>
    simp only [div_eq_mul_inv, mul_inv_rev, pow_two] <;> ring

/-- The enthalpy equation of the template solver is `(1 + 1/c²)·w/T` times the temperature equation of the
general solver. -/
theorem dxiAndWdv_snd_eq {t : TemplP} {s : HydroP} {v xi w T : ℝ} (hT : T ≠ 0) (b : Bool)
    (hcs : t.cs2 = s.csqHighT T) (hcb : t.cb2 = s.csqLowT T) :
    (dxiAndWdv t v (xi, w) b).2
      = (1 + 1 / (if b then s.csqHighT T else s.csqLowT T)) * w / T * (shockDE s v (xi, T) b).2 := by
  cases b <;> simp [dxiAndWdv, shockDE, gammaSq, boostVelocity, hcs, hcb] <;> field_simp

theorem hasDerivAt_wH (q : TPar) {T : ℝ} (hT : 0 < T) :
    HasDerivAt q.hydro.wHighT (q.mu * q.hydro.wHighT T / T) T := by
  have h := (Real.hasDerivAt_rpow_const (x := T) (p := q.mu) (Or.inl hT.ne')).const_mul (q.mu * q.ap / 3)
  have e : q.mu * q.ap / 3 * (q.mu * T ^ (q.mu - 1)) = q.mu * q.hydro.wHighT T / T := by
    simp only [TPar.hydro]; rw [Real.rpow_sub_one hT.ne']; field_simp
  rw [e] at h; exact h

theorem hasDerivAt_wL (q : TPar) {T : ℝ} (hT : 0 < T) :
    HasDerivAt q.hydro.wLowT (q.nu * q.hydro.wLowT T / T) T := by
  have h := (Real.hasDerivAt_rpow_const (x := T) (p := q.nu) (Or.inl hT.ne')).const_mul (q.nu * q.am / 3)
  have e : q.nu * q.am / 3 * (q.nu * T ^ (q.nu - 1)) = q.nu * q.hydro.wLowT T / T := by
    simp only [TPar.hydro]; rw [Real.rpow_sub_one hT.ne']; field_simp
  rw [e] at h; exact h

/-! ## Shock-front algebra (single phase, constant sound speed `p = w/μ − ε`) -/

/-- Momentum-flux defect across the shock front given energy-flux continuity. -/
theorem front_momentum_defect {w1 w2 xi u mu eps : ℝ} (hxi : xi ≠ 0) (hu : u ≠ 0)
    (hxi1 : 1 - xi ^ 2 ≠ 0) (hu1 : 1 - u ^ 2 ≠ 0) (hmu : mu ≠ 0)
    (E : w1 * gammaSq xi * xi = w2 * gammaSq u * u) :
    (w1 * gammaSq xi * xi ^ 2 + (w1 / mu - eps)) - (w2 * gammaSq u * u ^ 2 + (w2 / mu - eps))
      = w1 * gammaSq xi * xi * ((xi - u) * ((mu - 1) * xi * u - 1)) / (mu * xi * u) := by
  have hxi1' : 1 - xi * xi ≠ 0 := by rwa [← pow_two]
  have hu1' : 1 - u * u ≠ 0 := by rwa [← pow_two]
  have hw2 : w2 = w1 * gammaSq xi * xi * (1 - u * u) / u := by
    unfold gammaSq at E ⊢; field_simp at E ⊢; linarith
  rw [hw2]; unfold gammaSq
  field_simp
  ring

/-- the residual returned by `HydrodynamicsTemplateModel._shooting` (last line), hand-transcribed:
`vpSW / vmSW - ((self.mu - 1) * wmSW + 1) / ((self.mu - 1) + wmSW)` -/
noncomputable def shootResidual (t : TemplP) (vpSW vmSW wmSW : ℝ) : ℝ :=
  vpSW / vmSW - ((t.mu - 1) * wmSW + 1) / ((t.mu - 1) + wmSW)

/-- Given energy-flux continuity, the `_shooting` residual vanishes iff `(ξ − u)((μ−1)ξu − 1) = 0`. -/
theorem residual_iff_factor {w1 w2 xi u mu : ℝ} (hxi : 0 < xi) (hu : 0 < u)
    (hxi1 : xi < 1) (hu1 : u < 1) (hw1 : w1 ≠ 0) (hden : (mu - 1) + w2 / w1 ≠ 0)
    (E : w1 * gammaSq xi * xi = w2 * gammaSq u * u) :
    xi / u - ((mu - 1) * (w2 / w1) + 1) / ((mu - 1) + w2 / w1) = 0
      ↔ (xi - u) * ((mu - 1) * xi * u - 1) = 0 := by
  have hxi1' : 1 - xi * xi ≠ 0 := by nlinarith
  have hu1' : 1 - u * u ≠ 0 := by nlinarith
  have hxi2 : 1 - xi ^ 2 ≠ 0 := by nlinarith
  have hu2 : 1 - u ^ 2 ≠ 0 := by nlinarith
  have hw2 : w2 / w1 = xi * (1 - u * u) / (u * (1 - xi * xi)) := by
    unfold gammaSq at E; field_simp at E ⊢; linarith
  rw [hw2] at hden ⊢
  have hsum : xi + u ≠ 0 := by positivity
  have key : xi * ((mu - 1) + xi * (1 - u * u) / (u * (1 - xi * xi)))
        - ((mu - 1) * (xi * (1 - u * u) / (u * (1 - xi * xi))) + 1) * u
      = - ((xi + u) * ((xi - u) * ((mu - 1) * xi * u - 1))) / (u * (1 - xi * xi)) := by
    field_simp
    ring
  rw [sub_eq_zero, div_eq_div_iff hu.ne' hden, ← sub_eq_zero, key, div_eq_zero_iff, neg_eq_zero,
    mul_eq_zero]
  have hd : u * (1 - xi * xi) ≠ 0 := mul_ne_zero hu.ne' hxi1'
  simp [hsum, hd]

/-- Given energy-flux continuity with non-zero flux, momentum-flux continuity holds iff
`(ξ − u)((μ−1)ξu − 1) = 0`. -/
theorem momentum_iff_factor {w1 w2 xi u mu eps : ℝ} (hxi : xi ≠ 0) (hu : u ≠ 0)
    (hxi1 : 1 - xi ^ 2 ≠ 0) (hu1 : 1 - u ^ 2 ≠ 0) (hmu : mu ≠ 0) (hw1 : w1 ≠ 0)
    (E : w1 * gammaSq xi * xi = w2 * gammaSq u * u) :
    w1 * gammaSq xi * xi ^ 2 + (w1 / mu - eps) = w2 * gammaSq u * u ^ 2 + (w2 / mu - eps)
      ↔ (xi - u) * ((mu - 1) * xi * u - 1) = 0 := by
  rw [← sub_eq_zero, front_momentum_defect hxi hu hxi1 hu1 hmu E, div_eq_zero_iff]
  have hg : gammaSq xi ≠ 0 := by
    unfold gammaSq; rw [← pow_two]; exact one_div_ne_zero hxi1
  have h1 : w1 * gammaSq xi * xi ≠ 0 := by positivity
  have h2 : mu * xi * u ≠ 0 := by positivity
  simp [h1, h2]

/-- At the shock front (`(μ−1) ξ u = 1`, i.e. `ξ u = cs²`) the `_shooting` residual vanishes iff the
energy flux is continuous. -/
theorem residual_iff_energy {w1 w2 xi u mu : ℝ} (hxi : 0 < xi) (hu : 0 < u)
    (hxi1 : xi < 1) (hu1 : u < 1) (hw1 : w1 ≠ 0) (hden : (mu - 1) + w2 / w1 ≠ 0)
    (hfront : (mu - 1) * xi * u = 1) :
    xi / u - ((mu - 1) * (w2 / w1) + 1) / ((mu - 1) + w2 / w1) = 0
      ↔ w1 * gammaSq xi * xi = w2 * gammaSq u * u := by
  have hxi1' : 1 - xi * xi ≠ 0 := by nlinarith
  have hu1' : 1 - u * u ≠ 0 := by nlinarith
  have hxi2 : 1 - xi ^ 2 ≠ 0 := by nlinarith
  have hu2 : 1 - u ^ 2 ≠ 0 := by nlinarith
  have hm : mu - 1 = 1 / (xi * u) := by field_simp; linarith
  rw [hm] at hden ⊢
  unfold gammaSq
  rw [sub_eq_zero, div_eq_div_iff hu.ne' hden]
  constructor
  · intro h; field_simp at h ⊢; linear_combination h
  · intro h; field_simp at h ⊢; linear_combination h


/-! ## From flux conservation to the general solver's `v₊v₋`, `v₊/v₋` form -/

/-- Energy- and momentum-flux conservation solved for the four combinations used by the general solver
(`F = w₊γ₊²v₊` is the energy flux, `e = w − p`). -/
theorem flux_solved {wH pH wL pL vp vm : ℝ} (hvp : vp ≠ 0) (hvm : vm ≠ 0)
    (hvp1 : 1 - vp ^ 2 ≠ 0) (hvm1 : 1 - vm ^ 2 ≠ 0)
    (E : wH * gammaSq vp * vp = wL * gammaSq vm * vm)
    (M : wH * gammaSq vp * vp ^ 2 + pH = wL * gammaSq vm * vm ^ 2 + pL) :
    pH - pL = wH * gammaSq vp * vp * (vm - vp) ∧
    (wH - pH) - (wL - pL) = wH * gammaSq vp * vp * (vm - vp) / (vp * vm) ∧
    (wL - pL) + pH = wH * gammaSq vp * vp * (1 - vp * vm) / vm ∧
    (wH - pH) + pL = wH * gammaSq vp * vp * (1 - vp * vm) / vp := by
  have hvm1' : 1 - vm * vm ≠ 0 := by rwa [← pow_two]
  have hvp1' : 1 - vp * vp ≠ 0 := by rwa [← pow_two]
  have hwL : wL = wH * gammaSq vp * vp * (1 - vm * vm) / vm := by
    unfold gammaSq at E ⊢; field_simp at E ⊢; linarith
  have hpL : pL = pH + wH * gammaSq vp * vp * vp - wH * gammaSq vp * vp * vm := by
    have : wL * gammaSq vm * vm ^ 2 = (wL * gammaSq vm * vm) * vm := by ring
    rw [this, ← E] at M; linarith
  rw [hpL, hwL]; unfold gammaSq
  refine ⟨?_, ?_, ?_, ?_⟩ <;> field_simp <;> ring

/-- If `(v₊, v₋, T₊, T₋)` conserve energy and momentum flux for an EOS with `e = w − p`, the general
solver's `vpvmAndvpovm` returns `(v₊v₋, v₊/v₋)`. -/
theorem vpvmAndvpovm_of_flux {s : HydroP} {vp vm Tp Tm : ℝ}
    (heH : s.eHighT Tp = s.wHighT Tp - s.pHighT Tp) (heL : s.eLowT Tm = s.wLowT Tm - s.pLowT Tm)
    (hvp : vp ≠ 0) (hvm : vm ≠ 0) (hvp1 : 1 - vp ^ 2 ≠ 0) (hvm1 : 1 - vm ^ 2 ≠ 0)
    (hne : vp ≠ vm) (hpm : 1 - vp * vm ≠ 0) (hw : s.wHighT Tp ≠ 0)
    (E : s.wHighT Tp * gammaSq vp * vp = s.wLowT Tm * gammaSq vm * vm)
    (M : s.wHighT Tp * gammaSq vp * vp ^ 2 + s.pHighT Tp
          = s.wLowT Tm * gammaSq vm * vm ^ 2 + s.pLowT Tm) :
    vpvmAndvpovm s Tp Tm = (vp * vm, vp / vm) := by
  obtain ⟨h1, h2, h3, h4⟩ := flux_solved hvp hvm hvp1 hvm1 E M
  have hg : gammaSq vp ≠ 0 := by unfold gammaSq; rw [← pow_two]; exact one_div_ne_zero hvp1
  have hF : s.wHighT Tp * gammaSq vp * vp ≠ 0 := by positivity
  have hd : vm - vp ≠ 0 := sub_ne_zero.mpr (Ne.symm hne)
  have hne' : s.eHighT Tp ≠ s.eLowT Tm := by
    rw [heH, heL, ← sub_ne_zero, h2]; positivity
  simp only [vpvmAndvpovm, ne_eq, hne', not_false_eq_true, if_true]
  rw [heH, heL, h1, h2, h3, h4]
  generalize s.wHighT Tp * gammaSq vp * vp = F at hF
  congr 1 <;> field_simp

/-- The numerator of `d(v₊²)/dT₋` used by the general `findJouguetVelocity`, evaluated on a state that
conserves both fluxes: it is proportional to `e₋' v₋² − p₋'`, i.e. it vanishes iff `v₋² = dp₋/de₋`. -/
theorem vpDerivNum_of_flux {s : HydroP} {vp vm Tp Tm : ℝ}
    (heL : s.eLowT Tm = s.wLowT Tm - s.pLowT Tm)
    (hvp : vp ≠ 0) (hvm : vm ≠ 0) (hvp1 : 1 - vp ^ 2 ≠ 0) (hvm1 : 1 - vm ^ 2 ≠ 0)
    (E : s.wHighT Tp * gammaSq vp * vp = s.wLowT Tm * gammaSq vm * vm)
    (M : s.wHighT Tp * gammaSq vp * vp ^ 2 + s.pHighT Tp
          = s.wLowT Tm * gammaSq vm * vm ^ 2 + s.pLowT Tm) :
    vpDerivNum s (s.pHighT Tp) (s.wHighT Tp - s.pHighT Tp) Tm
      = (s.wHighT Tp * gammaSq vp * vp) ^ 3 * (vm - vp) * (1 - vp * vm) * (1 - vp ^ 2) / (vp ^ 2 * vm ^ 2)
        * (s.deLowT Tm * vm ^ 2 - s.dpLowT Tm) := by
  obtain ⟨h1, h2, h3, h4⟩ := flux_solved hvp hvm hvp1 hvm1 E M
  simp only [vpDerivNum]
  rw [heL, h1, h2, h4, add_comm (s.pHighT Tp), h3]
  generalize s.wHighT Tp * gammaSq vp * vp = F
  field_simp
  ring


/-! ## A concrete instance (for non-vacuity examples): `μ = ν = 4`, `a₊ = 3`, `a₋ = 2`, `ε = 1/10`, `Tn = 1` -/

/-- bag-like instance: `cs² = cb² = 1/3`, `αN = 1/30` -/
noncomputable def q0 : TPar := ⟨3, 2, 1 / 10, 4, 4, 1, 1 / 2, 2⟩

theorem q0_WF : q0.WF := by constructor <;> norm_num [q0]

/-- the template model `__init__` builds from `q0` -/
noncomputable def t0 : TemplP := q0.templ 0

theorem t0_isTemplate : IsTemplateOf t0 q0.hydro := isTemplateOf_templ _ _

theorem t0_cb2 : t0.cb2 = 1 / 3 := by rw [cb2_eq t0_isTemplate]; norm_num [q0]
theorem t0_cs2 : t0.cs2 = 1 / 3 := by rw [cs2_eq t0_isTemplate]; norm_num [q0]
theorem t0_mu : t0.mu = 4 := by rw [mu_eq q0_WF t0_isTemplate]; rfl
theorem t0_nu : t0.nu = 4 := by rw [nu_eq q0_WF t0_isTemplate]; rfl
theorem t0_Tnucl : t0.Tnucl = 1 := Tnucl_eq t0_isTemplate
theorem t0_wN : t0.wN = 4 := by rw [wN_eq t0_isTemplate]; norm_num [q0]
theorem t0_alN : t0.alN = 1 / 30 := by
  rw [alN_eq q0_WF t0_isTemplate, t0_wN]; norm_num [q0]
theorem t0_cb_sq : t0.cb ^ 2 = t0.cb2 := by
  rw [t0_isTemplate.cb, Real.sq_sqrt]; rw [t0_cb2]; norm_num
theorem t0_cb_pos : 0 < t0.cb := by
  rw [t0_isTemplate.cb]; apply Real.sqrt_pos.mpr; rw [t0_cb2]; norm_num
theorem q0_wH_one : q0.hydro.wHighT 1 = 4 := by norm_num [TPar.hydro, q0]
theorem t0_wNum : wNum t0 = -(2 / 5) := by unfold wNum; rw [t0_alN, t0_mu, t0_nu]; norm_num
theorem t0_wDen (al : ℝ) : wDen t0 al = -(12 * al) := by unfold wDen; rw [t0_mu, t0_nu]; ring
theorem t0_jRad : jRad t0 = 7 / 100 := by unfold jRad; rw [t0_alN, t0_cb2]; norm_num


/-! ## More on the Jouguet velocity -/

/-- `cb ≤ vJ` (for `0 ≤ cb`, `cb² = cb2 ≤ 1`, `αN ≥ 0`). -/
theorem vJ_ge_cb {t : TemplP} (hcb0 : 0 ≤ t.cb) (hc1 : t.cb2 ≤ 1) (hc0 : 0 ≤ t.cb2) (hal : 0 ≤ t.alN) :
    t.cb ≤ findJouguetVelocity t t.alN := by
  rw [findJouguetVelocity_eq]
  have hK : 0 < 1 + 3 * t.cb2 * t.alN := by positivity
  rw [le_div_iff₀ hK]
  have hS : 3 * t.cb2 * t.alN ≤ Real.sqrt (jRad t) := by
    apply Real.le_sqrt_of_sq_le
    unfold jRad
    have h1 : 0 ≤ t.alN * (1 - t.cb2) := mul_nonneg hal (by linarith)
    have h2 : 0 ≤ t.alN * (1 - t.cb2) * (t.cb2 * t.alN) := by positivity
    nlinarith
  nlinarith

/-- `vJ < 1` (for `0 ≤ cb < 1`, `cb² = cb2`, `αN ≥ 0`). -/
theorem vJ_lt_one {t : TemplP} (hcb : t.cb ^ 2 = t.cb2) (hcb0 : 0 ≤ t.cb) (hcb1 : t.cb < 1)
    (hal : 0 ≤ t.alN) : findJouguetVelocity t t.alN < 1 := by
  have hc0 : 0 ≤ t.cb2 := by rw [← hcb]; positivity
  have hc1 : t.cb2 < 1 := by rw [← hcb]; nlinarith
  have hK : 0 < 1 + 3 * t.cb2 * t.alN := by positivity
  have hrad : 0 ≤ jRad t := by
    unfold jRad
    have : 0 ≤ 1 - t.cb2 := by linarith
    positivity
  rw [findJouguetVelocity_eq, div_lt_one hK]
  have hs := Real.sq_sqrt hrad
  have hS0 := Real.sqrt_nonneg (jRad t)
  set S := Real.sqrt (jRad t)
  have hKcb : 0 < 1 + 3 * t.cb2 * t.alN - t.cb := by
    have : 0 ≤ 3 * t.cb2 * t.alN := by positivity
    linarith
  have hsq : (t.cb * S) ^ 2 < (1 + 3 * t.cb2 * t.alN - t.cb) ^ 2 := by
    have e : (1 + 3 * t.cb2 * t.alN - t.cb) ^ 2 - (t.cb * S) ^ 2
        = (1 + 3 * t.cb2 * t.alN) * (1 - t.cb) ^ 2 := by
      rw [mul_pow, hs]; unfold jRad; rw [← hcb]; ring
    have : 0 < (1 + 3 * t.cb2 * t.alN) * (1 - t.cb) ^ 2 := by
      have : 0 < 1 - t.cb := by linarith
      positivity
    linarith
  have := abs_lt_of_sq_lt_sq hsq hKcb.le
  rw [abs_of_nonneg (mul_nonneg hcb0 hS0)] at this
  linarith

/-- For `αN ≠ 0` the detonation root is not `vw` itself. -/
theorem detVm_ne {t : TemplP} {v : ℝ} (hv : v ≠ 0) (hv1 : 1 - v ^ 2 ≠ 0) (hc : t.cb2 ≠ 0)
    (hal : t.alN ≠ 0) (hd : 0 ≤ detPart t v ^ 2 - 4 * t.cb2 * v ^ 2) : v ≠ detVm t v := by
  intro h
  have hr := detVm_root hv hd
  rw [← h] at hr
  unfold detPart at hr
  have : v * (3 * t.cb2 * (1 - v ^ 2) * t.alN) = 0 := by linear_combination hr
  have : v * (3 * t.cb2 * (1 - v ^ 2) * t.alN) ≠ 0 := by positivity
  contradiction

/-! ## `wFromAlpha` at `N = 0` and at `D = 0` -/

/-- If `N = (1−3αN)μ − ν = 0` (on the template EOS: `ε = 0`), `wFromAlpha` returns the positive number
`1e-100/(|D| + 1e-100)` (in particular `1` when also `D = 0`, the intended `0/0 → 1`).
(Before WallGo commit 108cf41 the `np.sign` product made it return `0` for every `α₊`.) -/
theorem wFromAlpha_of_N_zero {t : TemplP} (h : wNum t = 0) (al : ℝ) :
    wFromAlpha t al = reg / (|wDen t al| + reg) := by
  rw [wFromAlpha_of_nonneg (by rw [h, zero_mul]), h, abs_zero, zero_add]

/-- If `D = (1−3α₊)μ − ν = 0`, `wFromAlpha` returns the very large positive number `(|N| + 1e-100)/1e-100`
(the correct sign of the limit `N/D → ±∞` is not determined at `D = 0`; `+` is the relevant one for the
bracket end `v₊ → vw⁻`). (Before WallGo commit 108cf41 it returned `0`.) -/
theorem wFromAlpha_of_D_zero {t : TemplP} {al : ℝ} (h : wDen t al = 0) :
    wFromAlpha t al = (|wNum t| + reg) / reg := by
  rw [wFromAlpha_of_nonneg (by rw [h, mul_zero]), h, abs_zero, zero_add]

/-- … and that number is `≥ 1`, `> 1` as soon as `N ≠ 0`. -/
theorem one_lt_wFromAlpha_of_D_zero {t : TemplP} {al : ℝ} (h : wDen t al = 0) (hN : wNum t ≠ 0) :
    1 < wFromAlpha t al := by
  rw [wFromAlpha_of_D_zero h, lt_div_iff₀ reg_pos]
  have := abs_pos.mpr hN
  linarith

/-! ## Constant sound speed in the high-temperature phase -/

/-- `p₊ = w₊/μ − ε` and `cs² = 1/(μ−1)` for all temperatures. -/
def ConstSoundHigh (s : HydroP) (mu eps : ℝ) : Prop :=
  ∀ T, s.pHighT T = s.wHighT T / mu - eps ∧ s.csqHighT T = 1 / (mu - 1)

theorem constSoundHigh_hydro {q : TPar} (hq : q.WF) : ConstSoundHigh q.hydro q.mu q.eps := by
  have hmu : q.mu ≠ 0 := by linarith [hq.mu_gt]
  intro T
  refine ⟨?_, rfl⟩
  simp only [TPar.hydro]; field_simp

/-! ## Efficiency-factor integrand -/

/-- the integrand `ξ² v² γ² w` of `efficiencyFactor` (both solvers) -/
noncomputable def kappaIntegrand (xi v w : ℝ) : ℝ := xi ^ 2 * v ^ 2 * gammaSq v * w


/-! ## Sound speed behind the wall, bundled facts (`ν > 2` ⇔ `cb² < 1`) -/

theorem template_cb_facts {q : TPar} {t : TemplP} (hq : q.WF) (ht : IsTemplateOf t q.hydro)
    (hnu : 2 < q.nu) :
    t.cb ^ 2 = t.cb2 ∧ 0 < t.cb ∧ t.cb < 1 ∧ 0 < t.cb2 ∧ t.cb2 < 1 ∧ t.cb2 < t.cb := by
  have h0 := cb2_pos hq ht
  have h1 : t.cb2 < 1 := by
    rw [cb2_eq ht, div_lt_one (by linarith)]; linarith
  have hsq : t.cb ^ 2 = t.cb2 := by rw [ht.cb, Real.sq_sqrt h0.le]
  have hpos : 0 < t.cb := by rw [ht.cb]; exact Real.sqrt_pos.mpr h0
  have hlt : t.cb < 1 := by nlinarith
  refine ⟨hsq, hpos, hlt, h0, h1, ?_⟩
  nlinarith

theorem jRad_nonneg {t : TemplP} (hc0 : 0 ≤ t.cb2) (hc1 : t.cb2 ≤ 1) (hal : 0 ≤ t.alN) : 0 ≤ jRad t := by
  unfold jRad
  have : 0 ≤ 1 - t.cb2 := by linarith
  positivity

/-- The template detonation for `vJ ≤ vw < 1`: all side conditions of the junction algebra hold. -/
theorem det_side_conditions {q : TPar} {t : TemplP} (hq : q.WF) (ht : IsTemplateOf t q.hydro)
    (hnu : 2 < q.nu) (hal : 0 ≤ t.alN) {vw : ℝ} (hJ : t.vJ ≤ vw) (hvw1 : vw < 1) :
    0 < vw ∧ 0 ≤ detPart t vw ^ 2 - 4 * t.cb2 * vw ^ 2 ∧ t.cb ≤ detVm t vw ∧ detVm t vw < 1 := by
  obtain ⟨hsq, hpos, hlt, h0, h1, hlt2⟩ := template_cb_facts hq ht hnu
  have hK : 0 < 1 + 3 * t.cb2 * t.alN := by positivity
  have hrad := jRad_nonneg h0.le h1.le hal
  rw [ht.vJ] at hJ
  have hcJ := vJ_ge_cb hpos.le h1.le h0.le hal
  have hvw0 : 0 < vw := by linarith
  have hpart := detPart_ge hsq hpos.le hK hrad hJ
  refine ⟨hvw0, detDisc_nonneg hsq hpos.le hK hrad hvw0.le hJ, detVm_ge_cb hvw0 hpart,
    detVm_lt_one h0 hal (by linarith) hvw1⟩

theorem q0_alphaAt_one : q0.alphaAt 1 = 1 / 30 := by
  have := alphaAt_Tn t0_isTemplate
  rw [t0_alN] at this; exact this

theorem t0_vJ_lt_one : t0.vJ < 1 := by
  rw [t0_isTemplate.vJ]
  obtain ⟨hsq, hpos, hlt, -⟩ := template_cb_facts q0_WF t0_isTemplate (by norm_num [q0])
  exact vJ_lt_one hsq hpos.le hlt (by rw [t0_alN]; norm_num)


/-! ## A concrete shock front on `q0` (for non-vacuity examples): `ξ = 2/3`, `v = 1/4`, `u = 1/2`,
`w(T)/w(Tn) = 9/5` -/

/-- temperature behind the example front: `T⁴ = 9/5` -/
noncomputable def T0x : ℝ := (9 / 5 : ℝ) ^ ((1 : ℝ) / 4)

theorem T0x_pos : 0 < T0x := Real.rpow_pos_of_pos (by norm_num) _

theorem T0x_pow : T0x ^ (4 : ℝ) = 9 / 5 := by
  unfold T0x
  rw [← Real.rpow_mul (by norm_num)]; norm_num

theorem q0_wH_T0x : q0.hydro.wHighT T0x = 36 / 5 := by
  simp only [TPar.hydro, q0, T0x_pow]; norm_num

theorem q0_pH_T0x : q0.hydro.pHighT T0x = 17 / 10 := by
  simp only [TPar.hydro, q0, T0x_pow]; norm_num

theorem q0_pH_one : q0.hydro.pHighT 1 = 9 / 10 := by norm_num [TPar.hydro, q0]

theorem boost_example : boostVelocity (2 / 3) (1 / 4) = 1 / 2 := by norm_num [boostVelocity]

theorem front_example_event : shockEvent q0.hydro (1 / 4) (2 / 3, T0x) = 0 := by
  simp only [shockEvent, boost_example]; norm_num [TPar.hydro, q0]

theorem front_example_energy : TiiShock q0.hydro (2 / 3) (1 / 4) T0x q0.hydro.Tnucl = 0 := by
  simp only [TiiShock, boost_example, q0_wH_T0x, hydro_Tnucl]
  rw [show q0.Tn = 1 from rfl, q0_wH_one]; norm_num [gammaSq]

theorem front_example_momentum :
    q0.hydro.wHighT q0.Tn * gammaSq (2 / 3) * (2 / 3) ^ 2 + q0.hydro.pHighT q0.Tn
      = q0.hydro.wHighT T0x * gammaSq (boostVelocity (2 / 3) (1 / 4)) * boostVelocity (2 / 3) (1 / 4) ^ 2
        + q0.hydro.pHighT T0x := by
  rw [boost_example, q0_wH_T0x, q0_pH_T0x, show q0.Tn = 1 from rfl, q0_wH_one, q0_pH_one]
  norm_num [gammaSq]


/-! ## The bracket end `v₊ = vw` of `findMatching` when `μ = ν` (former `np.sign(0) = 0` defect)

For `μ = ν` (e.g. the bag EOS, `cs² = cb² = 1/3`) and a subsonic wall (`vw ≤ cb`, `vpMax = vw`) the upper
bracket end of `findMatching` is `v₊ = vw`, where `α₊ = 0` and `D = (1−3α₊)μ − ν = 0`. The exact enthalpy
ratio `N/D` diverges to `+∞` as `v₊ → vw⁻`, where the `_shooting` residual tends to `1 − (μ−1) < 0`.
The OLD code returned `w₊ = sign(N)·sign(0)·… = 0` there, for which the residual is `1 − 1/(μ−1) > 0` (same
sign as at `v₊ = 0`), so `root_scalar` raised and `findMatching` returned `None` for every such `vw`
(reproduced on the then-unchanged Python code; fixed in WallGo commit 108cf41:
`sign = np.where(N*D < 0, -1.0, 1.0)`). The lemmas below state what holds NOW: `w₊` is the large positive
number `(|N| + 1e-100)/1e-100` and the residual at that bracket end is negative for `μ > 2`, `N ≠ 0`. -/

/-- At `v₊ = vw ≤ cb` with `μ = ν`: `_shooting` computes `v₋ = vw`, `α₊ = 0`, `w₊ = (|N| + 1e-100)/1e-100`. -/
theorem shootAlpha_endpoint_of_mu_eq_nu {t : TemplP} (hmn : t.mu = t.nu) {vw : ℝ} (hvw : vw ≠ 0)
    (hle : vw ≤ t.cb) : shootAlpha t vw vw = (vw, 0, (|wNum t| + reg) / reg) := by
  have hm : WG.R.pmin t.cb vw = vw := by rw [WG.R.pmin_eq_min]; exact min_eq_right hle
  have hal : (((((vw / vw) - (1 : ℝ)) * (((vw * vw) / t.cb2) - (1 : ℝ))) / ((1 : ℝ) - (vw ^ 2))) / (3 : ℝ))
      = 0 := by
    rw [div_self hvw]; simp
  have hD : wDen t 0 = 0 := by unfold wDen; rw [hmn]; ring
  simp only [shootAlpha, hm, hal, wFromAlpha_of_D_zero hD]

/-- The `_shooting` residual in the branch `vw == vp` (`vpSW = vmSW = cs`) as a function of `wmSW = w`:
`(μ−2)(1−w)/((μ−1)+w)`. -/
theorem shootResidual_cs {t : TemplP} (hcs : t.cs ≠ 0) {w : ℝ} (hden : (t.mu - 1) + w ≠ 0) :
    shootResidual t t.cs t.cs w = (t.mu - 2) * (1 - w) / ((t.mu - 1) + w) := by
  unfold shootResidual; rw [div_self hcs]; field_simp; ring

/-- It is negative for `μ > 2` and `w > 1` … -/
theorem shootResidual_cs_neg {t : TemplP} (hcs : t.cs ≠ 0) (hmu : 2 < t.mu) {w : ℝ} (hw : 1 < w) :
    shootResidual t t.cs t.cs w < 0 := by
  have hden : 0 < (t.mu - 1) + w := by linarith
  rw [shootResidual_cs hcs hden.ne']
  apply div_neg_of_neg_of_pos _ hden
  nlinarith

/-- … in particular at the bracket end `v₊ = vw` when `μ = ν > 2`, `N ≠ 0` (on the template EOS: `ε ≠ 0`):
the residual `_shooting(vw, vw)` (with `w₊` taken from `shootAlpha`) is negative, so together with a positive
value at `v₊ = 0` the bracket of `findMatching` now has a sign change. (The old code had
`shootResidual t cs cs 0 = 1 − 1/(μ−1) > 0` here.) -/
theorem shootResidual_endpoint_neg {t : TemplP} (hmn : t.mu = t.nu) (hmu : 2 < t.mu) (hcs : t.cs ≠ 0)
    (hN : wNum t ≠ 0) {vw : ℝ} (hvw : vw ≠ 0) (hle : vw ≤ t.cb) :
    shootResidual t t.cs t.cs (shootAlpha t vw vw).2.2 < 0 := by
  rw [shootAlpha_endpoint_of_mu_eq_nu hmn hvw hle]
  have hD : wDen t 0 = 0 := by unfold wDen; rw [hmn]; ring
  have := one_lt_wFromAlpha_of_D_zero hD hN
  rw [wFromAlpha_of_D_zero hD] at this
  exact shootResidual_cs_neg hcs hmu this

/-- non-vacuity of `shootResidual_endpoint_neg`: the bag-like instance `t0` (`μ = ν = 4`, `N = −2/5`),
`vw = 1/2 ≤ cb = 1/√3`. -/
example : t0.mu = t0.nu ∧ 2 < t0.mu ∧ t0.cs ≠ 0 ∧ wNum t0 ≠ 0 ∧ (1 / 2 : ℝ) ≠ 0 ∧ (1 / 2 : ℝ) ≤ t0.cb := by
  refine ⟨by rw [t0_mu, t0_nu], by rw [t0_mu]; norm_num, ?_, by rw [t0_wNum]; norm_num, by norm_num, ?_⟩
  · rw [t0_isTemplate.cs, t0_cs2]; exact (Real.sqrt_pos.mpr (by norm_num)).ne'
  · rw [t0_isTemplate.cb, t0_cb2]; apply Real.le_sqrt_of_sq_le; norm_num

/-- value the OLD code produced at that bracket end (`w₊ = 0`): `1 − 1/(μ−1)`, positive for `μ > 2`. -/
theorem shootResidual_endpoint_old {t : TemplP} (hcs : t.cs ≠ 0) :
    shootResidual t t.cs t.cs 0 = 1 - 1 / (t.mu - 1) := by
  unfold shootResidual; rw [div_self hcs]; simp

end Lemmas.Template
