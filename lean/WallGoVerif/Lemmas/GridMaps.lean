/-
Helper lemmas for property C17 (coordinate maps of `Grid` and `Grid3Scales`).
Everything here is about the GENERATED definitions in `Gen/R/Grid.lean` and `Gen/R/Grid3.lean`
(or about clean top-level copies that are proved `rfl`-equal to them).
-/
import WallGoVerif.Gen.R.Grid
import WallGoVerif.Gen.R.Grid3
import Mathlib.Analysis.SpecialFunctions.Log.Deriv
import Mathlib.Analysis.SpecialFunctions.Sqrt
import Mathlib.Analysis.SpecialFunctions.Pow.Deriv
import Mathlib.Analysis.SpecialFunctions.Artanh
import Mathlib.Analysis.Calculus.Deriv.MeanValue
import Mathlib.Analysis.Calculus.Deriv.Slope
import Mathlib.Topology.Perfect
import Mathlib.Tactic

namespace WG.GridMaps

open Real Set

/-! ## One-variable calculus facts -/

/-- Derivative of numpy's `arctanh(y+0j).real = ½ log|(1+y)/(1-y)|` away from `y = ±1`
(valid also for `|y| > 1`). -/
theorem hasDerivAt_rartanh {y : ℝ} (h : 1 - y ^ 2 ≠ 0) :
    HasDerivAt WG.R.rartanh (1 / (1 - y ^ 2)) y := by
  have e : 1 - y ^ 2 = (1 - y) * (1 + y) := by ring
  have h2 : 1 - y ≠ 0 := fun h0 => h (by rw [e, h0, zero_mul])
  have h1 : 1 + y ≠ 0 := fun h0 => h (by rw [e, h0, mul_zero])
  unfold WG.R.rartanh
  have hq : HasDerivAt (fun y : ℝ => (1 + y) / (1 - y))
      ((1 * (1 - y) - (1 + y) * (-1)) / (1 - y) ^ 2) y := by
    apply HasDerivAt.div
    · simpa using (hasDerivAt_id y).const_add 1
    · simpa using (hasDerivAt_id y).const_sub 1
    · exact h2
  have hne : (1 + y) / (1 - y) ≠ 0 := div_ne_zero h1 h2
  have := (hq.log hne).div_const 2
  refine this.congr_deriv ?_
  rw [e]; field_simp; ring

/-- On `[-1,1]` Mathlib's `Real.artanh` (= `np.arctanh` on reals) agrees with `rartanh`. -/
theorem artanh_eq_rartanh {y : ℝ} (hy : y ∈ Icc (-1 : ℝ) 1) : WG.R.artanh y = WG.R.rartanh y := by
  unfold WG.R.artanh WG.R.rartanh
  rw [Real.artanh_eq_half_log hy]; ring

/-- `d/dy artanh y = 1/(1-y²)` on `(-1,1)`. -/
theorem hasDerivAt_artanh {y : ℝ} (h1 : -1 < y) (h2 : y < 1) :
    HasDerivAt WG.R.artanh (1 / (1 - y ^ 2)) y := by
  have h : 1 - y ^ 2 ≠ 0 := by nlinarith
  refine (hasDerivAt_rartanh h).congr_of_eventuallyEq ?_
  filter_upwards [Ioo_mem_nhds h1 h2] with t ht
  exact artanh_eq_rartanh ⟨ht.1.le, ht.2.le⟩

theorem artanh_zero : WG.R.artanh 0 = 0 := Real.artanh_zero

/-- `(1-χ²)^{3/2} = (1-χ²)·√(1-χ²)` for positive base. -/
theorem rpow_three_halves {w : ℝ} (hw : 0 < w) : WG.R.rpow w (3 / 2 : ℝ) = w * √w := by
  show w ^ (3 / 2 : ℝ) = w * √w
  rw [show (3 / 2 : ℝ) = 1 + 1 / 2 by norm_num, Real.rpow_add hw, Real.rpow_one,
    Real.sqrt_eq_rpow]

theorem one_sub_sq_pos {χ : ℝ} (h : |χ| < 1) : 0 < 1 - χ ^ 2 := by
  have := abs_lt.mp h; nlinarith

/-- Position map of the simple grid: `d/dχ (Lχ/√(1-χ²)) = L/(1-χ²)^{3/2}` for `|χ|<1`. -/
theorem hasDerivAt_zmap (L : ℝ) {χ : ℝ} (h : |χ| < 1) :
    HasDerivAt (fun χ : ℝ => L * χ / √(1 - χ ^ 2)) (L / WG.R.rpow (1 - χ ^ 2) (3 / 2 : ℝ)) χ := by
  have hw := one_sub_sq_pos h
  have hs : 0 < √(1 - χ ^ 2) := Real.sqrt_pos.mpr hw
  have hs2 : √(1 - χ ^ 2) ^ 2 = 1 - χ ^ 2 := Real.sq_sqrt hw.le
  have h0 : HasDerivAt (fun χ : ℝ => 1 - χ ^ 2) (-(2 * χ)) χ := by
    simpa using ((hasDerivAt_id χ).pow 2).const_sub 1
  have h1 := h0.sqrt hw.ne'
  have h2 : HasDerivAt (fun χ : ℝ => L * χ) L χ := by
    simpa using (hasDerivAt_id χ).const_mul L
  have h3 := h2.div h1 hs.ne'
  refine h3.congr_deriv ?_
  rw [rpow_three_halves hw]
  field_simp
  rw [hs2]; ring

/-- Parallel-momentum map: `d/dρ (-T log((1-ρ)/2)) = T/(1-ρ)` for `ρ ≠ 1`. -/
theorem hasDerivAt_ppmap (T : ℝ) {ρ : ℝ} (h : ρ ≠ 1) :
    HasDerivAt (fun ρ : ℝ => -T * Real.log ((1 - ρ) / 2)) (T / (1 - ρ)) ρ := by
  have h1 : 1 - ρ ≠ 0 := sub_ne_zero.mpr (Ne.symm h)
  have h0 : HasDerivAt (fun ρ : ℝ => (1 - ρ) / 2) (-1 / 2) ρ := by
    simpa using ((hasDerivAt_id ρ).const_sub 1).div_const 2
  have h2 := (h0.log (div_ne_zero h1 two_ne_zero)).const_mul (-T)
  refine h2.congr_deriv ?_
  field_simp

/-- Longitudinal-momentum map: `d/dρ (2T artanh ρ) = 2T/(1-ρ²)` for `|ρ|<1`. -/
theorem hasDerivAt_pzmap (T : ℝ) {ρ : ℝ} (h : |ρ| < 1) :
    HasDerivAt (fun ρ : ℝ => 2 * T * WG.R.artanh ρ) (2 * T / (1 - ρ ^ 2)) ρ := by
  have := abs_lt.mp h
  refine ((hasDerivAt_artanh this.1 this.2).const_mul (2 * T)).congr_deriv ?_
  ring

/-! ## Inverse relations of the simple grid -/

/-- `|z/√(L²+z²)| < 1` : the compact position always lies in the open interval. -/
theorem zcompact_abs_lt_one {L : ℝ} (hL : L ≠ 0) (z : ℝ) : |z / √(L ^ 2 + z ^ 2)| < 1 := by
  have hpos : 0 < L ^ 2 + z ^ 2 := by positivity
  have hs : 0 < √(L ^ 2 + z ^ 2) := Real.sqrt_pos.mpr hpos
  rw [abs_div, abs_of_pos hs, div_lt_one hs]
  apply Real.lt_sqrt_of_sq_lt
  rw [sq_abs]
  have : 0 < L ^ 2 := by positivity
  linarith

/-- compactify ∘ decompactify = id on the position component (`L > 0`, `|χ| < 1`). -/
theorem zcompact_zmap {L χ : ℝ} (hL : 0 < L) (h : |χ| < 1) :
    (L * χ / √(1 - χ ^ 2)) / √(L ^ 2 + (L * χ / √(1 - χ ^ 2)) ^ 2) = χ := by
  have hw := one_sub_sq_pos h
  have hs : 0 < √(1 - χ ^ 2) := Real.sqrt_pos.mpr hw
  have hs2 : √(1 - χ ^ 2) ^ 2 = 1 - χ ^ 2 := Real.sq_sqrt hw.le
  have e : L ^ 2 + (L * χ / √(1 - χ ^ 2)) ^ 2 = (L / √(1 - χ ^ 2)) ^ 2 := by
    field_simp; rw [hs2]; ring
  rw [e, Real.sqrt_sq (by positivity)]
  field_simp

/-- decompactify ∘ compactify = id on the position component (`L > 0`, any real `z`). -/
theorem zmap_zcompact {L : ℝ} (hL : 0 < L) (z : ℝ) :
    L * (z / √(L ^ 2 + z ^ 2)) / √(1 - (z / √(L ^ 2 + z ^ 2)) ^ 2) = z := by
  have hpos : 0 < L ^ 2 + z ^ 2 := by positivity
  have hs : 0 < √(L ^ 2 + z ^ 2) := Real.sqrt_pos.mpr hpos
  have hs2 : √(L ^ 2 + z ^ 2) ^ 2 = L ^ 2 + z ^ 2 := Real.sq_sqrt hpos.le
  have e : 1 - (z / √(L ^ 2 + z ^ 2)) ^ 2 = (L / √(L ^ 2 + z ^ 2)) ^ 2 := by
    field_simp; rw [hs2]; ring
  rw [e, Real.sqrt_sq (by positivity)]
  field_simp

theorem pzcompact_pzmap {T ρ : ℝ} (hT : T ≠ 0) (h : |ρ| < 1) :
    Real.tanh (2 * T * WG.R.artanh ρ / 2 / T) = ρ := by
  have e : 2 * T * WG.R.artanh ρ / 2 / T = Real.artanh ρ := by
    unfold WG.R.artanh; field_simp
  have := abs_lt.mp h
  rw [e, Real.tanh_artanh ⟨this.1, this.2⟩]

theorem pzmap_pzcompact {T : ℝ} (hT : T ≠ 0) (pz : ℝ) :
    2 * T * WG.R.artanh (Real.tanh (pz / 2 / T)) = pz := by
  unfold WG.R.artanh
  rw [Real.artanh_tanh]; field_simp

theorem ppcompact_ppmap {T ρ : ℝ} (hT : T ≠ 0) (h : ρ < 1) :
    1 - 2 * Real.exp (-(-T * Real.log ((1 - ρ) / 2)) / T) = ρ := by
  have e : -(-T * Real.log ((1 - ρ) / 2)) / T = Real.log ((1 - ρ) / 2) := by field_simp
  have hpos : 0 < (1 - ρ) / 2 := by linarith
  rw [e, Real.exp_log hpos]; ring

theorem ppmap_ppcompact {T : ℝ} (hT : T ≠ 0) (pp : ℝ) :
    -T * Real.log ((1 - (1 - 2 * Real.exp (-pp / T))) / 2) = pp := by
  have e : (1 - (1 - 2 * Real.exp (-pp / T))) / 2 = Real.exp (-pp / T) := by ring
  rw [e, Real.log_exp]; field_simp

/-- physical `pp ≥ 0` lands in `[-1,1)`. -/
theorem ppcompact_mem {T pp : ℝ} (hT : 0 < T) (hpp : 0 ≤ pp) :
    -1 ≤ 1 - 2 * Real.exp (-pp / T) ∧ 1 - 2 * Real.exp (-pp / T) < 1 := by
  have h1 : Real.exp (-pp / T) ≤ 1 := by
    rw [Real.exp_le_one_iff]
    exact div_nonpos_of_nonpos_of_nonneg (by linarith) hT.le
  have h2 := Real.exp_pos (-pp / T)
  constructor <;> linarith

/-! ## The smoothed step `t ↦ t/√(a²+t²)` -/

theorem step_abs_lt_one {a : ℝ} (ha : a ≠ 0) (t : ℝ) : |t / √(a ^ 2 + t ^ 2)| < 1 :=
  zcompact_abs_lt_one ha t

theorem step_mono {a t1 t2 : ℝ} (ha : a ≠ 0) (h : t1 ≤ t2) :
    t1 / √(a ^ 2 + t1 ^ 2) ≤ t2 / √(a ^ 2 + t2 ^ 2) := by
  have hp1 : 0 < a ^ 2 + t1 ^ 2 := by positivity
  have hp2 : 0 < a ^ 2 + t2 ^ 2 := by positivity
  have hs1 : 0 < √(a ^ 2 + t1 ^ 2) := Real.sqrt_pos.mpr hp1
  have hs2 : 0 < √(a ^ 2 + t2 ^ 2) := Real.sqrt_pos.mpr hp2
  have e1 : √(a ^ 2 + t1 ^ 2) ^ 2 = a ^ 2 + t1 ^ 2 := Real.sq_sqrt hp1.le
  have e2 : √(a ^ 2 + t2 ^ 2) ^ 2 = a ^ 2 + t2 ^ 2 := Real.sq_sqrt hp2.le
  have ha2 : 0 < a ^ 2 := by positivity
  rw [div_le_div_iff₀ hs1 hs2]
  rcases le_total 0 t1 with h1 | h1
  · -- 0 ≤ t1 ≤ t2
    have hsq : t1 ^ 2 ≤ t2 ^ 2 := by nlinarith
    apply le_of_pow_le_pow_left₀ two_ne_zero (mul_nonneg (h1.trans h) hs1.le)
    · rw [mul_pow, mul_pow, e1, e2]; nlinarith [mul_le_mul_of_nonneg_left hsq ha2.le]
  · rcases le_total 0 t2 with h2 | h2
    · have : t1 * √(a ^ 2 + t2 ^ 2) ≤ 0 := mul_nonpos_of_nonpos_of_nonneg h1 hs2.le
      have : 0 ≤ t2 * √(a ^ 2 + t1 ^ 2) := mul_nonneg h2 hs1.le
      linarith
    · -- t1 ≤ t2 ≤ 0
      have hsq : t2 ^ 2 ≤ t1 ^ 2 := by nlinarith
      have hh : (-t2) * √(a ^ 2 + t1 ^ 2) ≤ (-t1) * √(a ^ 2 + t2 ^ 2) := by
        apply le_of_pow_le_pow_left₀ two_ne_zero (mul_nonneg (by linarith) hs2.le)
        · rw [mul_pow, mul_pow, e1, e2]; nlinarith [mul_le_mul_of_nonneg_left hsq ha2.le]
      linarith

/-! ## Three-scale grid: clean copies of the nested `let`-functions -/

section Grid3
open Gen.R.Grid3

/-- `term1` of `Grid3Scales.decompactify` (same expression as in the generated `let`). -/
noncomputable def term1 (s : Grid3P) (x : ℝ) : ℝ :=
  ((((((1 : ℝ) - s.ratioPointsWall) * ((((2 : ℝ) * s.ratioPointsWall) * s.tailLengthOutside) - s.wallThickness)) * (WG.R.rartanh ((((1 : ℝ) - x) + (Real.sqrt ((s.aOut ^ 2) + ((x - s.ratioPointsWall) ^ 2)))) / (Real.sqrt ((s.aOut ^ 2) + (((1 : ℝ) - s.ratioPointsWall) ^ 2)))))) / (Real.sqrt ((s.aOut ^ 2) + (((1 : ℝ) - s.ratioPointsWall) ^ 2)))) / s.ratioPointsWall)

noncomputable def term2 (s : Grid3P) (x : ℝ) : ℝ :=
  (((((-((1 : ℝ) + s.ratioPointsWall)) * ((((2 : ℝ) * s.ratioPointsWall) * s.tailLengthOutside) - s.wallThickness)) * (WG.R.rartanh ((((1 : ℝ) + x) - (Real.sqrt ((s.aOut ^ 2) + ((x - s.ratioPointsWall) ^ 2)))) / (Real.sqrt ((s.aOut ^ 2) + (((1 : ℝ) + s.ratioPointsWall) ^ 2)))))) / (Real.sqrt ((s.aOut ^ 2) + (((1 : ℝ) + s.ratioPointsWall) ^ 2)))) / s.ratioPointsWall)

noncomputable def term3 (s : Grid3P) (x : ℝ) : ℝ :=
  ((((((1 : ℝ) - s.ratioPointsWall) * ((((2 : ℝ) * s.ratioPointsWall) * s.tailLengthInside) - s.wallThickness)) * (WG.R.rartanh ((((1 : ℝ) + x) - (Real.sqrt ((s.aIn ^ 2) + ((x + s.ratioPointsWall) ^ 2)))) / (Real.sqrt ((s.aIn ^ 2) + (((1 : ℝ) - s.ratioPointsWall) ^ 2)))))) / (Real.sqrt ((s.aIn ^ 2) + (((1 : ℝ) - s.ratioPointsWall) ^ 2)))) / s.ratioPointsWall)

noncomputable def term4 (s : Grid3P) (x : ℝ) : ℝ :=
  (((((-((1 : ℝ) + s.ratioPointsWall)) * ((((2 : ℝ) * s.ratioPointsWall) * s.tailLengthInside) - s.wallThickness)) * (WG.R.rartanh ((((1 : ℝ) - x) + (Real.sqrt ((s.aIn ^ 2) + ((x + s.ratioPointsWall) ^ 2)))) / (Real.sqrt ((s.aIn ^ 2) + (((1 : ℝ) + s.ratioPointsWall) ^ 2)))))) / (Real.sqrt ((s.aIn ^ 2) + (((1 : ℝ) + s.ratioPointsWall) ^ 2)))) / s.ratioPointsWall)

noncomputable def term5 (s : Grid3P) (x : ℝ) : ℝ :=
  (((((2 : ℝ) * s.tailLengthInside) + ((2 : ℝ) * s.tailLengthOutside)) - ((((4 : ℝ) * s.smoothing) * s.wallThickness) / s.ratioPointsWall)) * (WG.R.artanh x))

noncomputable def totalMapping (s : Grid3P) (x : ℝ) : ℝ :=
  ((((((term1 s x) + (term2 s x)) + (term3 s x)) + (term4 s x)) + (term5 s x)) / (2 : ℝ))

/-- The generated position map is `totalMapping χ − totalMapping 0 + wallCenter`. -/
theorem decompactify_fst_eq (s : Grid3P) (χ a b : ℝ) :
    (decompactify s χ a b).1 = totalMapping s χ - totalMapping s 0 + s.wallCenter := rfl

theorem decompactify_snd_eq (s : Grid3P) (a ρ b : ℝ) :
    (decompactify s a ρ b).2.1 = 2 * s.momentumFalloffT * WG.R.artanh ρ := rfl

theorem decompactify_trd_eq (s : Grid3P) (a b ρ : ℝ) :
    (decompactify s a b ρ).2.2 = -s.momentumFalloffT * Real.log ((1 - ρ) / 2) := rfl

/-- The numerator `f(χ)` of the reported position Jacobian `f(χ)/(1-χ²)`. -/
noncomputable def fstep (s : Grid3P) (x : ℝ) : ℝ :=
  ((((((2 : ℝ) * s.tailLengthInside) - (s.wallThickness / s.ratioPointsWall)) * ((1 : ℝ) - ((x + s.ratioPointsWall) / (Real.sqrt ((s.aIn ^ 2) + ((x + s.ratioPointsWall) ^ 2)))))) / (2 : ℝ))
    + (((((2 : ℝ) * s.tailLengthOutside) - (s.wallThickness / s.ratioPointsWall)) * ((1 : ℝ) + ((x - s.ratioPointsWall) / (Real.sqrt ((s.aOut ^ 2) + ((x - s.ratioPointsWall) ^ 2)))))) / (2 : ℝ)))
    + ((((1 : ℝ) - ((2 : ℝ) * s.smoothing)) * s.wallThickness) / s.ratioPointsWall)

theorem compactificationDerivatives_fst_eq (s : Grid3P) (χ a b : ℝ) :
    (compactificationDerivatives s χ a b).1 = fstep s χ / (1 - χ ^ 2) := rfl

theorem compactificationDerivatives_snd_eq (s : Grid3P) (a ρ b : ℝ) :
    (compactificationDerivatives s a ρ b).2.1 = 2 * s.momentumFalloffT / (1 - ρ ^ 2) := rfl

theorem compactificationDerivatives_trd_eq (s : Grid3P) (a b ρ : ℝ) :
    (compactificationDerivatives s a b ρ).2.2 = s.momentumFalloffT / (1 - ρ) := rfl

/-! ### Derivatives of the four `arctanh` factors -/

/-- Type "P" factor (term1, term4): argument `(1 - x + √(a²+(x-c)²))/√(a²+(1-c)²)`.
Needs only `a ≠ 0` and `x ≠ 1`. -/
theorem hasDerivAt_factorP {a c x : ℝ} (ha : a ≠ 0) (hx : x ≠ 1) :
    HasDerivAt (fun x => WG.R.rartanh ((1 - x + √(a ^ 2 + (x - c) ^ 2)) / √(a ^ 2 + (1 - c) ^ 2)))
      (√(a ^ 2 + (1 - c) ^ 2) / (2 * √(a ^ 2 + (x - c) ^ 2) * (1 - x))) x := by
  set A := √(a ^ 2 + (1 - c) ^ 2) with hA
  set s := √(a ^ 2 + (x - c) ^ 2) with hs
  have hpos : 0 < a ^ 2 + (x - c) ^ 2 := by positivity
  have hposA : 0 < a ^ 2 + (1 - c) ^ 2 := by positivity
  have hs0 : 0 < s := Real.sqrt_pos.mpr hpos
  have hA0 : 0 < A := Real.sqrt_pos.mpr hposA
  have hs2 : s ^ 2 = a ^ 2 + (x - c) ^ 2 := Real.sq_sqrt hpos.le
  have hA2 : A ^ 2 = a ^ 2 + (1 - c) ^ 2 := Real.sq_sqrt hposA.le
  have ha2 : 0 < a ^ 2 := by positivity
  have hsgt : |x - c| < s := by
    rw [hs]; apply Real.lt_sqrt_of_sq_lt; rw [sq_abs]; linarith
  have hxrs : x - c - s < 0 := by have := le_abs_self (x - c); linarith
  have hsq : HasDerivAt (fun x => √(a ^ 2 + (x - c) ^ 2)) ((2 * (x - c)) / (2 * s)) x := by
    have h0 : HasDerivAt (fun x : ℝ => a ^ 2 + (x - c) ^ 2) (2 * (x - c)) x := by
      have := ((hasDerivAt_id x).sub_const c).pow 2
      simpa using this.const_add (a ^ 2)
    exact h0.sqrt hpos.ne'
  have hu : HasDerivAt (fun x => (1 - x + √(a ^ 2 + (x - c) ^ 2)) / A)
      ((-1 + (2 * (x - c)) / (2 * s)) / A) x := by
    apply HasDerivAt.div_const
    exact ((hasDerivAt_id x).const_sub 1).add hsq
  have key : A ^ 2 - (1 - x + s) ^ 2 = 2 * (1 - x) * (x - c - s) := by
    rw [hA2]; nlinarith [hs2]
  have h1x : 1 - x ≠ 0 := sub_ne_zero.mpr (Ne.symm hx)
  have hkne : A ^ 2 - (1 - x + s) ^ 2 ≠ 0 := by
    rw [key]; exact mul_ne_zero (mul_ne_zero two_ne_zero h1x) hxrs.ne
  have hu2 : 1 - ((1 - x + s) / A) ^ 2 = (A ^ 2 - (1 - x + s) ^ 2) / A ^ 2 := by field_simp
  have hne : 1 - ((1 - x + s) / A) ^ 2 ≠ 0 := by
    rw [hu2]; exact div_ne_zero hkne (by positivity)
  have := (hasDerivAt_rartanh hne).comp x hu
  refine HasDerivAt.congr_deriv
    (f := fun x => WG.R.rartanh ((1 - x + √(a ^ 2 + (x - c) ^ 2)) / A)) this ?_
  have hA' : A ≠ 0 := hA0.ne'
  have hs' : s ≠ 0 := hs0.ne'
  rw [hu2, key]
  have hne2 : x - c - s ≠ 0 := hxrs.ne
  field_simp
  ring

/-- Type "M" factor (term2, term3): argument `(1 + x - √(a²+(x-c)²))/√(a²+(1+c)²)`.
Needs only `a ≠ 0` and `x ≠ -1`. -/
theorem hasDerivAt_factorM {a c x : ℝ} (ha : a ≠ 0) (hx : x ≠ -1) :
    HasDerivAt (fun x => WG.R.rartanh ((1 + x - √(a ^ 2 + (x - c) ^ 2)) / √(a ^ 2 + (1 + c) ^ 2)))
      (√(a ^ 2 + (1 + c) ^ 2) / (2 * √(a ^ 2 + (x - c) ^ 2) * (1 + x))) x := by
  set A := √(a ^ 2 + (1 + c) ^ 2) with hA
  set s := √(a ^ 2 + (x - c) ^ 2) with hs
  have hpos : 0 < a ^ 2 + (x - c) ^ 2 := by positivity
  have hposA : 0 < a ^ 2 + (1 + c) ^ 2 := by positivity
  have hs0 : 0 < s := Real.sqrt_pos.mpr hpos
  have hA0 : 0 < A := Real.sqrt_pos.mpr hposA
  have hs2 : s ^ 2 = a ^ 2 + (x - c) ^ 2 := Real.sq_sqrt hpos.le
  have hA2 : A ^ 2 = a ^ 2 + (1 + c) ^ 2 := Real.sq_sqrt hposA.le
  have ha2 : 0 < a ^ 2 := by positivity
  have hsgt : |x - c| < s := by
    rw [hs]; apply Real.lt_sqrt_of_sq_lt; rw [sq_abs]; linarith
  have hxrs : 0 < s - (x - c) := by have := le_abs_self (x - c); linarith
  have hsq : HasDerivAt (fun x => √(a ^ 2 + (x - c) ^ 2)) ((2 * (x - c)) / (2 * s)) x := by
    have h0 : HasDerivAt (fun x : ℝ => a ^ 2 + (x - c) ^ 2) (2 * (x - c)) x := by
      have := ((hasDerivAt_id x).sub_const c).pow 2
      simpa using this.const_add (a ^ 2)
    exact h0.sqrt hpos.ne'
  have hu : HasDerivAt (fun x => (1 + x - √(a ^ 2 + (x - c) ^ 2)) / A)
      ((1 - (2 * (x - c)) / (2 * s)) / A) x := by
    apply HasDerivAt.div_const
    exact ((hasDerivAt_id x).const_add 1).sub hsq
  have key : A ^ 2 - (1 + x - s) ^ 2 = 2 * (1 + x) * (s - (x - c)) := by
    rw [hA2]; nlinarith [hs2]
  have h1x : 1 + x ≠ 0 := fun h => hx (by linarith)
  have hkne : A ^ 2 - (1 + x - s) ^ 2 ≠ 0 := by
    rw [key]; exact mul_ne_zero (mul_ne_zero two_ne_zero h1x) hxrs.ne'
  have hu2 : 1 - ((1 + x - s) / A) ^ 2 = (A ^ 2 - (1 + x - s) ^ 2) / A ^ 2 := by field_simp
  have hne : 1 - ((1 + x - s) / A) ^ 2 ≠ 0 := by
    rw [hu2]; exact div_ne_zero hkne (by positivity)
  have := (hasDerivAt_rartanh hne).comp x hu
  refine HasDerivAt.congr_deriv
    (f := fun x => WG.R.rartanh ((1 + x - √(a ^ 2 + (x - c) ^ 2)) / A)) this ?_
  have hA' : A ≠ 0 := hA0.ne'
  have hs' : s ≠ 0 := hs0.ne'
  rw [hu2, key]
  have hne2 : s - (x - c) ≠ 0 := hxrs.ne'
  field_simp

/-! ### Derivatives of `term1 … term5` and of the total map -/

theorem hasDerivAt_term1 {s : Grid3P} {x : ℝ} (ha : s.aOut ≠ 0) (hr : s.ratioPointsWall ≠ 0)
    (hx : x ≠ 1) :
    HasDerivAt (term1 s)
      ((1 - s.ratioPointsWall) * (2 * s.ratioPointsWall * s.tailLengthOutside - s.wallThickness)
        / (2 * s.ratioPointsWall * √(s.aOut ^ 2 + (x - s.ratioPointsWall) ^ 2) * (1 - x))) x := by
  have hA : 0 < √(s.aOut ^ 2 + (1 - s.ratioPointsWall) ^ 2) := Real.sqrt_pos.mpr (by positivity)
  have hS : 0 < √(s.aOut ^ 2 + (x - s.ratioPointsWall) ^ 2) := Real.sqrt_pos.mpr (by positivity)
  have h1x : 1 - x ≠ 0 := sub_ne_zero.mpr (Ne.symm hx)
  have h := (((hasDerivAt_factorP (c := s.ratioPointsWall) ha hx).const_mul
    ((1 - s.ratioPointsWall) * (2 * s.ratioPointsWall * s.tailLengthOutside - s.wallThickness))).div_const
      (√(s.aOut ^ 2 + (1 - s.ratioPointsWall) ^ 2))).div_const s.ratioPointsWall
  refine HasDerivAt.congr_deriv (f := term1 s) h ?_
  field_simp

theorem hasDerivAt_term2 {s : Grid3P} {x : ℝ} (ha : s.aOut ≠ 0) (hr : s.ratioPointsWall ≠ 0)
    (hx : x ≠ -1) :
    HasDerivAt (term2 s)
      (-(1 + s.ratioPointsWall) * (2 * s.ratioPointsWall * s.tailLengthOutside - s.wallThickness)
        / (2 * s.ratioPointsWall * √(s.aOut ^ 2 + (x - s.ratioPointsWall) ^ 2) * (1 + x))) x := by
  have hA : 0 < √(s.aOut ^ 2 + (1 + s.ratioPointsWall) ^ 2) := Real.sqrt_pos.mpr (by positivity)
  have hS : 0 < √(s.aOut ^ 2 + (x - s.ratioPointsWall) ^ 2) := Real.sqrt_pos.mpr (by positivity)
  have h1x : 1 + x ≠ 0 := fun h => hx (by linarith)
  have h := (((hasDerivAt_factorM (c := s.ratioPointsWall) ha hx).const_mul
    (-(1 + s.ratioPointsWall) * (2 * s.ratioPointsWall * s.tailLengthOutside - s.wallThickness))).div_const
      (√(s.aOut ^ 2 + (1 + s.ratioPointsWall) ^ 2))).div_const s.ratioPointsWall
  refine HasDerivAt.congr_deriv (f := term2 s) h ?_
  field_simp

theorem hasDerivAt_term3 {s : Grid3P} {x : ℝ} (ha : s.aIn ≠ 0) (hr : s.ratioPointsWall ≠ 0)
    (hx : x ≠ -1) :
    HasDerivAt (term3 s)
      ((1 - s.ratioPointsWall) * (2 * s.ratioPointsWall * s.tailLengthInside - s.wallThickness)
        / (2 * s.ratioPointsWall * √(s.aIn ^ 2 + (x + s.ratioPointsWall) ^ 2) * (1 + x))) x := by
  have hA : 0 < √(s.aIn ^ 2 + (1 - s.ratioPointsWall) ^ 2) := Real.sqrt_pos.mpr (by positivity)
  have hS : 0 < √(s.aIn ^ 2 + (x + s.ratioPointsWall) ^ 2) := Real.sqrt_pos.mpr (by positivity)
  have h1x : 1 + x ≠ 0 := fun h => hx (by linarith)
  have h0 := hasDerivAt_factorM (c := -s.ratioPointsWall) ha hx
  simp only [sub_neg_eq_add, ← sub_eq_add_neg] at h0
  have h := ((h0.const_mul
    ((1 - s.ratioPointsWall) * (2 * s.ratioPointsWall * s.tailLengthInside - s.wallThickness))).div_const
      (√(s.aIn ^ 2 + (1 - s.ratioPointsWall) ^ 2))).div_const s.ratioPointsWall
  refine HasDerivAt.congr_deriv (f := term3 s) h ?_
  field_simp

theorem hasDerivAt_term4 {s : Grid3P} {x : ℝ} (ha : s.aIn ≠ 0) (hr : s.ratioPointsWall ≠ 0)
    (hx : x ≠ 1) :
    HasDerivAt (term4 s)
      (-(1 + s.ratioPointsWall) * (2 * s.ratioPointsWall * s.tailLengthInside - s.wallThickness)
        / (2 * s.ratioPointsWall * √(s.aIn ^ 2 + (x + s.ratioPointsWall) ^ 2) * (1 - x))) x := by
  have hA : 0 < √(s.aIn ^ 2 + (1 + s.ratioPointsWall) ^ 2) := Real.sqrt_pos.mpr (by positivity)
  have hS : 0 < √(s.aIn ^ 2 + (x + s.ratioPointsWall) ^ 2) := Real.sqrt_pos.mpr (by positivity)
  have h1x : 1 - x ≠ 0 := sub_ne_zero.mpr (Ne.symm hx)
  have h0 := hasDerivAt_factorP (c := -s.ratioPointsWall) ha hx
  simp only [sub_neg_eq_add] at h0
  have h := ((h0.const_mul
    (-(1 + s.ratioPointsWall) * (2 * s.ratioPointsWall * s.tailLengthInside - s.wallThickness))).div_const
      (√(s.aIn ^ 2 + (1 + s.ratioPointsWall) ^ 2))).div_const s.ratioPointsWall
  refine HasDerivAt.congr_deriv (f := term4 s) h ?_
  field_simp

theorem hasDerivAt_term5 {s : Grid3P} {x : ℝ} (hx : |x| < 1) :
    HasDerivAt (term5 s)
      ((2 * s.tailLengthInside + 2 * s.tailLengthOutside
          - 4 * s.smoothing * s.wallThickness / s.ratioPointsWall) * (1 / (1 - x ^ 2))) x := by
  have := abs_lt.mp hx
  exact (hasDerivAt_artanh this.1 this.2).const_mul _

/-- **Jacobian identity for the three-scale position map** (before subtracting the constant):
needs only `aIn ≠ 0`, `aOut ≠ 0`, `r ≠ 0`, `|x| < 1`. -/
theorem hasDerivAt_totalMapping {s : Grid3P} {x : ℝ} (haIn : s.aIn ≠ 0) (haOut : s.aOut ≠ 0)
    (hr : s.ratioPointsWall ≠ 0) (hx : |x| < 1) :
    HasDerivAt (totalMapping s) (fstep s x / (1 - x ^ 2)) x := by
  have hx' := abs_lt.mp hx
  have hx1 : x ≠ 1 := hx'.2.ne
  have hxm1 : x ≠ -1 := hx'.1.ne'
  have h := (((((hasDerivAt_term1 haOut hr hx1).add (hasDerivAt_term2 haOut hr hxm1)).add
    (hasDerivAt_term3 haIn hr hxm1)).add (hasDerivAt_term4 haIn hr hx1)).add
    (hasDerivAt_term5 (s := s) hx)).div_const 2
  refine HasDerivAt.congr_deriv (f := totalMapping s) h ?_
  unfold fstep
  have hSi : 0 < √(s.aIn ^ 2 + (x + s.ratioPointsWall) ^ 2) := Real.sqrt_pos.mpr (by positivity)
  have hSo : 0 < √(s.aOut ^ 2 + (x - s.ratioPointsWall) ^ 2) := Real.sqrt_pos.mpr (by positivity)
  generalize √(s.aIn ^ 2 + (x + s.ratioPointsWall) ^ 2) = si at *
  generalize √(s.aOut ^ 2 + (x - s.ratioPointsWall) ^ 2) = so at *
  have h1 : 1 - x ≠ 0 := sub_ne_zero.mpr (Ne.symm hx1)
  have h2 : 1 + x ≠ 0 := fun h => hxm1 (by linarith)
  have h3 : 1 - x ^ 2 ≠ 0 := (one_sub_sq_pos hx).ne'
  have e : 1 - x ^ 2 = (1 - x) * (1 + x) := by ring
  rw [e]
  field_simp
  ring

/-- Jacobian identity for the generated position map of the three-scale grid. -/
theorem hasDerivAt_decompactify3_fst {s : Grid3P} {χ : ℝ} (a b : ℝ) (haIn : s.aIn ≠ 0)
    (haOut : s.aOut ≠ 0) (hr : s.ratioPointsWall ≠ 0) (hχ : |χ| < 1) :
    HasDerivAt (fun χ => (decompactify s χ a b).1) (compactificationDerivatives s χ a b).1 χ := by
  rw [compactificationDerivatives_fst_eq]
  exact ((hasDerivAt_totalMapping haIn haOut hr hχ).sub_const (totalMapping s 0)).add_const
    s.wallCenter

/-! ### Well-formedness: what `_updateParameters` asserts and stores -/

/-- The state `Grid3Scales._updateParameters` leaves behind: its five `assert`s hold and
`aIn`, `aOut` are the values it assigns. -/
structure Grid3WF (s : Grid3P) : Prop where
  wallThickness_pos : 0 < s.wallThickness
  smoothing_pos : 0 < s.smoothing
  tailIn_gt : s.tailLengthInside > s.wallThickness * (1 / 2 + s.smoothing) / s.ratioPointsWall
  tailOut_gt : s.tailLengthOutside > s.wallThickness * (1 / 2 + s.smoothing) / s.ratioPointsWall
  ratio_pos : 0 < s.ratioPointsWall
  ratio_lt_one : s.ratioPointsWall < 1
  aIn_eq : s.aIn = aIn_set s.tailLengthInside s.tailLengthOutside s.wallThickness
    s.ratioPointsWall s.smoothing s.wallCenter
  aOut_eq : s.aOut = aOut_set s.tailLengthInside s.tailLengthOutside s.wallThickness
    s.ratioPointsWall s.smoothing s.wallCenter

/-- The algebra behind the choice of `aIn`/`aOut`: with `a` as assigned by the constructor, the
smoothed step `(2t − L/r)(1 − r/√(a²+r²))/2` takes the value `σ L / r` at the origin. -/
theorem stepParam {t L r σ a : ℝ} (hL : 0 < L) (hr : 0 < r) (hσ : 0 < σ)
    (ht : t > L * (1 / 2 + σ) / r)
    (ha : a = √(4 * σ * L * r ^ 2 * (2 * r * t - L * (1 + σ))) / |2 * r * t - L * (1 + 2 * σ)|) :
    0 < a ∧ 0 < 2 * t - L / r ∧ (2 * t - L / r) * (1 - r / √(a ^ 2 + r ^ 2)) / 2 = σ * L / r := by
  have ht' : L * (1 / 2 + σ) < t * r := (div_lt_iff₀ hr).mp ht
  have hσL : 0 < σ * L := mul_pos hσ hL
  obtain ⟨N, eN⟩ : ∃ N, N = 2 * r * t - L := ⟨_, rfl⟩
  obtain ⟨D, eD⟩ : ∃ D, D = N - 2 * σ * L := ⟨_, rfl⟩
  have hD : 0 < D := by rw [eD, eN]; nlinarith
  have hN : 0 < N := by nlinarith
  have h1 : 0 < N - σ * L := by nlinarith
  have e1 : 2 * r * t - L * (1 + σ) = N - σ * L := by rw [eN]; ring
  have e2 : 2 * r * t - L * (1 + 2 * σ) = D := by rw [eD, eN]; ring
  rw [e1, e2, abs_of_pos hD] at ha
  have hX : 0 < 4 * σ * L * r ^ 2 * (N - σ * L) := by positivity
  have ha0 : 0 < a := by rw [ha]; exact div_pos (Real.sqrt_pos.mpr hX) hD
  have ha2 : a ^ 2 = 4 * σ * L * r ^ 2 * (N - σ * L) / D ^ 2 := by
    rw [ha, div_pow, Real.sq_sqrt hX.le]
  have hr' := hr.ne'
  have hD' := hD.ne'
  have hN' := hN.ne'
  have e : a ^ 2 + r ^ 2 = (r * N / D) ^ 2 := by
    rw [ha2]; field_simp; rw [eD]; ring
  have hPe : 2 * t - L / r = N / r := by rw [eN]; field_simp
  refine ⟨ha0, by rw [hPe]; exact div_pos hN hr, ?_⟩
  rw [e, Real.sqrt_sq (by positivity), hPe]
  field_simp
  rw [eD]; ring

namespace Grid3WF

variable {s : Grid3P} (h : Grid3WF s)
include h

theorem paramIn : 0 < s.aIn ∧ 0 < 2 * s.tailLengthInside - s.wallThickness / s.ratioPointsWall ∧
    (2 * s.tailLengthInside - s.wallThickness / s.ratioPointsWall)
      * (1 - s.ratioPointsWall / √(s.aIn ^ 2 + s.ratioPointsWall ^ 2)) / 2
      = s.smoothing * s.wallThickness / s.ratioPointsWall :=
  stepParam h.wallThickness_pos h.ratio_pos h.smoothing_pos h.tailIn_gt h.aIn_eq

theorem paramOut : 0 < s.aOut ∧ 0 < 2 * s.tailLengthOutside - s.wallThickness / s.ratioPointsWall ∧
    (2 * s.tailLengthOutside - s.wallThickness / s.ratioPointsWall)
      * (1 - s.ratioPointsWall / √(s.aOut ^ 2 + s.ratioPointsWall ^ 2)) / 2
      = s.smoothing * s.wallThickness / s.ratioPointsWall :=
  stepParam h.wallThickness_pos h.ratio_pos h.smoothing_pos h.tailOut_gt h.aOut_eq

theorem aIn_pos : 0 < s.aIn := h.paramIn.1
theorem aOut_pos : 0 < s.aOut := h.paramOut.1

/-- `f(0) = L/r`. -/
theorem fstep_zero : fstep s 0 = s.wallThickness / s.ratioPointsWall := by
  unfold fstep
  simp only [zero_add, zero_sub, neg_sq]
  linear_combination h.paramIn.2.2 + h.paramOut.2.2

/-- `f(χ) ≥ (1-σ) L / r` for every real `χ`. -/
theorem fstep_ge (x : ℝ) :
    (1 - s.smoothing) * s.wallThickness / s.ratioPointsWall ≤ fstep s x := by
  obtain ⟨haI, hPI, hI⟩ := h.paramIn
  obtain ⟨haO, hPO, hO⟩ := h.paramOut
  have hr := h.ratio_pos
  have gi := abs_lt.mp (step_abs_lt_one haI.ne' (x + s.ratioPointsWall))
  have go := abs_lt.mp (step_abs_lt_one haO.ne' (x - s.ratioPointsWall))
  unfold fstep
  rcases le_total 0 x with hx | hx
  · -- outside step is above its value at the origin, inside step is nonnegative
    have hm := step_mono haO.ne' (show -s.ratioPointsWall ≤ x - s.ratioPointsWall by linarith)
    rw [neg_sq, neg_div] at hm
    have e1 := mul_le_mul_of_nonneg_left hm hPO.le
    have e2 := mul_nonneg hPI.le (show (0 : ℝ) ≤ 1 - (x + s.ratioPointsWall)
      / √(s.aIn ^ 2 + (x + s.ratioPointsWall) ^ 2) by linarith [gi.2])
    linear_combination e1 / 2 + e2 / 2 - hO
  · have hm := step_mono haI.ne' (show x + s.ratioPointsWall ≤ s.ratioPointsWall by linarith)
    have e1 := mul_le_mul_of_nonneg_left hm hPI.le
    have e2 := mul_nonneg hPO.le (show (0 : ℝ) ≤ 1 + (x - s.ratioPointsWall)
      / √(s.aOut ^ 2 + (x - s.ratioPointsWall) ^ 2) by linarith [go.1])
    linear_combination e1 / 2 + e2 / 2 - hI

end Grid3WF

/-! ### Generic monotonicity helpers -/

theorem strictMonoOn_of_hasDerivAt_pos {f f' : ℝ → ℝ} {D : Set ℝ} (hD : Convex ℝ D)
    (hf : ∀ x ∈ D, HasDerivAt f (f' x) x) (hpos : ∀ x ∈ D, 0 < f' x) : StrictMonoOn f D :=
  strictMonoOn_of_deriv_pos hD (fun x hx => (hf x hx).continuousAt.continuousWithinAt)
    (fun x hx => by rw [(hf x (interior_subset hx)).deriv]; exact hpos _ (interior_subset hx))

/-- A function that is monotone on an open interval has nonnegative derivative there. -/
theorem deriv_nonneg_of_monotoneOn_Ioo {f : ℝ → ℝ} {u v x d : ℝ} (hx : x ∈ Ioo u v)
    (hf : MonotoneOn f (Ioo u v)) (hd : HasDerivAt f d x) : 0 ≤ d := by
  have hp : Preperfect (Ioo u v) := isOpen_Ioo.preperfect
  exact hd.hasDerivWithinAt.nonneg_of_monotoneOn (hp x hx) hf

/-! ### Concrete parameter records -/

/-- A typical admissible three-scale grid (the defaults `r = 1/2`, `σ = 1/10`). -/
noncomputable def goodGrid : Grid3P where
  tailLengthInside := 5
  tailLengthOutside := 5
  wallThickness := 1
  ratioPointsWall := 1 / 2
  smoothing := 1 / 10
  wallCenter := 2
  aIn := aIn_set 5 5 1 (1 / 2) (1 / 10) 2
  aOut := aOut_set 5 5 1 (1 / 2) (1 / 10) 2
  momentumFalloffT := 1

theorem goodGrid_wf : Grid3WF goodGrid where
  wallThickness_pos := by norm_num [goodGrid]
  smoothing_pos := by norm_num [goodGrid]
  tailIn_gt := by norm_num [goodGrid]
  tailOut_gt := by norm_num [goodGrid]
  ratio_pos := by norm_num [goodGrid]
  ratio_lt_one := by norm_num [goodGrid]
  aIn_eq := rfl
  aOut_eq := rfl

/-- A record accepted by every `assert` of `_updateParameters` but with `smoothing = 3 ≥ 1`. -/
noncomputable def badGrid : Grid3P where
  tailLengthInside := 107
  tailLengthOutside := 8
  wallThickness := 1
  ratioPointsWall := 1 / 2
  smoothing := 3
  wallCenter := 0
  aIn := aIn_set 107 8 1 (1 / 2) 3 0
  aOut := aOut_set 107 8 1 (1 / 2) 3 0
  momentumFalloffT := 1

theorem badGrid_wf : Grid3WF badGrid where
  wallThickness_pos := by norm_num [badGrid]
  smoothing_pos := by norm_num [badGrid]
  tailIn_gt := by norm_num [badGrid]
  tailOut_gt := by norm_num [badGrid]
  ratio_pos := by norm_num [badGrid]
  ratio_lt_one := by norm_num [badGrid]
  aIn_eq := rfl
  aOut_eq := rfl

theorem badGrid_aIn_sq : badGrid.aIn ^ 2 = 309 / 10000 := by
  show (aIn_set 107 8 1 (1 / 2) 3 0) ^ 2 = _
  unfold aIn_set
  simp only []
  rw [div_pow, Real.sq_sqrt (by norm_num), sq_abs]
  norm_num

/-- For `badGrid` the numerator of the Jacobian is negative at `χ = 1/2`. -/
theorem badGrid_fstep_neg : fstep badGrid (1 / 2) < 0 := by
  have hs : √(309 / 10000 + 1 : ℝ) ≤ 102 / 100 := by
    rw [show (102 / 100 : ℝ) = √((102 / 100) ^ 2) from (Real.sqrt_sq (by norm_num)).symm]
    exact Real.sqrt_le_sqrt (by norm_num)
  have hs0 : 0 < √(309 / 10000 + 1 : ℝ) := Real.sqrt_pos.mpr (by norm_num)
  have hinv : (100 / 102 : ℝ) ≤ 1 / √(309 / 10000 + 1 : ℝ) := by
    rw [show (100 / 102 : ℝ) = 1 / (102 / 100) by norm_num]
    exact one_div_le_one_div_of_le hs0 hs
  have e : fstep badGrid (1 / 2) = 106 * (1 - 1 / √(309 / 10000 + 1 : ℝ)) + 7 - 10 := by
    unfold fstep
    rw [badGrid_aIn_sq]
    simp only [badGrid]
    norm_num
    ring
  rw [e]
  linarith

/-! ### The compactification a `Grid3Scales` object actually offers -/

/-- `Grid3Scales` does not override `compactify`; it inherits `Grid.compactify`, which uses the
fields set by `super().__init__(M, N, wallThickness, momentumFalloffT, spacing)`. -/
def baseGrid (s : Grid3P) : Gen.R.Grid.GridP := ⟨s.wallThickness, s.momentumFalloffT⟩

/-- `d/dz (z/√(L²+z²)) = 1/L` at `z = 0`. -/
theorem hasDerivAt_zcompact_zero {L : ℝ} (hL : 0 < L) :
    HasDerivAt (fun z : ℝ => z / √(L ^ 2 + z ^ 2)) (1 / L) 0 := by
  have hpos : (0 : ℝ) < L ^ 2 + 0 ^ 2 := by positivity
  have h0 : HasDerivAt (fun z : ℝ => L ^ 2 + z ^ 2) (2 * 0) (0 : ℝ) := by
    simpa using ((hasDerivAt_id (0 : ℝ)).pow 2).const_add (L ^ 2)
  have h1 := h0.sqrt hpos.ne'
  have h2 := (hasDerivAt_id (0 : ℝ)).div h1 (Real.sqrt_pos.mpr hpos).ne'
  refine h2.congr_deriv ?_
  have : √(L ^ 2 + 0 ^ 2) = L := by rw [show L ^ 2 + 0 ^ 2 = L ^ 2 by ring, Real.sqrt_sq hL.le]
  rw [this]; simp only [id]; field_simp; ring

/-- The inherited `compactify` is **not** a left inverse of the three-scale position map on
`(-1,1)`: at `χ = 0` it returns `c/√(L²+c²)` (`c = wallCenter`), and when `c = 0` the composite
has slope `1/r ≠ 1` at the origin. -/
theorem inherited_compactify_not_inverse {s : Grid3P} (h : Grid3WF s) (a b a' b' : ℝ) :
    ¬ ∀ χ ∈ Ioo (-1 : ℝ) 1,
      (Gen.R.Grid.compactify (baseGrid s) (decompactify s χ a b).1 a' b').1 = χ := by
  intro H
  have hL := h.wallThickness_pos
  have hr := h.ratio_pos
  have hmem : (0 : ℝ) ∈ Ioo (-1 : ℝ) 1 := by constructor <;> norm_num
  have hZ0 : (decompactify s 0 a b).1 = s.wallCenter := by
    rw [decompactify_fst_eq]; ring
  have hc : s.wallCenter = 0 := by
    have H0 := H 0 hmem
    rw [hZ0] at H0
    have H0' : s.wallCenter / √(s.wallThickness ^ 2 + s.wallCenter ^ 2) = 0 := H0
    rcases div_eq_zero_iff.mp H0' with h1 | h1
    · exact h1
    · exfalso
      have : 0 < √(s.wallThickness ^ 2 + s.wallCenter ^ 2) := Real.sqrt_pos.mpr (by positivity)
      exact this.ne' h1
  have hZ : HasDerivAt (fun χ => (decompactify s χ a b).1)
      (s.wallThickness / s.ratioPointsWall) 0 := by
    have := hasDerivAt_decompactify3_fst (s := s) (χ := 0) a b h.aIn_pos.ne' h.aOut_pos.ne' hr.ne'
      (by simp)
    rw [compactificationDerivatives_fst_eq, h.fstep_zero] at this
    simpa using this
  have hg : HasDerivAt (fun z : ℝ => z / √(s.wallThickness ^ 2 + z ^ 2)) (1 / s.wallThickness)
      ((fun χ => (decompactify s χ a b).1) 0) := by
    show HasDerivAt _ _ (decompactify s 0 a b).1
    rw [hZ0, hc]; exact hasDerivAt_zcompact_zero hL
  have hcomp := hg.comp 0 hZ
  have hid : HasDerivAt ((fun z : ℝ => z / √(s.wallThickness ^ 2 + z ^ 2)) ∘
      (fun χ => (decompactify s χ a b).1)) 1 0 := by
    refine (hasDerivAt_id (0 : ℝ)).congr_of_eventuallyEq ?_
    filter_upwards [Ioo_mem_nhds hmem.1 hmem.2] with χ hχ
    exact H χ hχ
  have e := hcomp.unique hid
  have hr1 := h.ratio_lt_one
  have : (1 : ℝ) / s.wallThickness * (s.wallThickness / s.ratioPointsWall)
      = 1 / s.ratioPointsWall := by field_simp
  rw [this, div_eq_one_iff_eq hr.ne'] at e
  linarith

end Grid3

end WG.GridMaps
