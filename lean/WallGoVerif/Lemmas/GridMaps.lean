/-
Helper lemmas for property C17 (coordinate maps of `Grid` and `Grid3Scales`).
Everything here is about the GENERATED definitions in `Gen/R/Grid.lean` and `Gen/R/Grid3.lean`
(or about clean top-level copies that are proved `rfl`-equal to them).
-/
import WallGoVerif.Gen.R.Grid
import WallGoVerif.Gen.R.Grid3
import Mathlib.Analysis.SpecialFunctions.Log.Deriv
import Mathlib.Analysis.SpecialFunctions.Sqrt
import Mathlib.Analysis.SpecialFunctions.Pow.Deriv
import Mathlib.Analysis.SpecialFunctions.Artanh
import Mathlib.Analysis.Calculus.Deriv.MeanValue
import Mathlib.Analysis.Calculus.Deriv.Slope
import Mathlib.Topology.Perfect
import Mathlib.Tactic

namespace WG.GridMaps

open Real Set

/-! ## One-variable calculus facts -/

/-- Derivative of numpy's `arctanh(y+0j).real = ½ log|(1+y)/(1-y)|` away from `y = ±1`
(valid also for `|y| > 1`). -/
theorem hasDerivAt_rartanh {y : ℝ} (h : 1 - y ^ 2 ≠ 0) :
    HasDerivAt WG.R.rartanh (1 / (1 - y ^ 2)) y := by
  have e : 1 - y ^ 2 = (1 - y) * (1 + y) := by ring
  have h2 : 1 - y ≠ 0 := fun h0 => h (by rw [e, h0, zero_mul])
  have h1 : 1 + y ≠ 0 := fun h0 => h (by rw [e, h0, mul_zero])
  unfold WG.R.rartanh
  have hq : HasDerivAt (fun y : ℝ => (1 + y) / (1 - y))
      ((1 * (1 - y) - (1 + y) * (-1)) / (1 - y) ^ 2) y := by
    apply HasDerivAt.div
    · simpa using (hasDerivAt_id y).const_add 1
    · simpa using (hasDerivAt_id y).const_sub 1
    · exact h2
  have hne : (1 + y) / (1 - y) ≠ 0 := div_ne_zero h1 h2
  have := (hq.log hne).div_const 2
  refine this.congr_deriv ?_
  rw [e]; field_simp; ring

/-- On `[-1,1]` Mathlib's `Real.artanh` (= `np.arctanh` on reals) agrees with `rartanh`. -/
theorem artanh_eq_rartanh {y : ℝ} (hy : y ∈ Icc (-1 : ℝ) 1) : WG.R.artanh y = WG.R.rartanh y := by
  unfold WG.R.artanh WG.R.rartanh
  rw [Real.artanh_eq_half_log hy]; ring

/-- `d/dy artanh y = 1/(1-y²)` on `(-1,1)`. -/
theorem hasDerivAt_artanh {y : ℝ} (h1 : -1 < y) (h2 : y < 1) :
    HasDerivAt WG.R.artanh (1 / (1 - y ^ 2)) y := by
  have h : 1 - y ^ 2 ≠ 0 := by nlinarith
  refine (hasDerivAt_rartanh h).congr_of_eventuallyEq ?_
  filter_upwards [Ioo_mem_nhds h1 h2] with t ht
  exact artanh_eq_rartanh ⟨ht.1.le, ht.2.le⟩

theorem artanh_zero : WG.R.artanh 0 = 0 := Real.artanh_zero

/-- `(1-χ²)^{3/2} = (1-χ²)·√(1-χ²)` for positive base. -/
theorem rpow_three_halves {w : ℝ} (hw : 0 < w) : WG.R.rpow w (3 / 2 : ℝ) = w * √w := by
  show w ^ (3 / 2 : ℝ) = w * √w
  rw [show (3 / 2 : ℝ) = 1 + 1 / 2 by norm_num, Real.rpow_add hw, Real.rpow_one,
    Real.sqrt_eq_rpow]

theorem one_sub_sq_pos {χ : ℝ} (h : |χ| < 1) : 0 < 1 - χ ^ 2 := by
  have := abs_lt.mp h; nlinarith

/-- Position map of the simple grid: `d/dχ (Lχ/√(1-χ²)) = L/(1-χ²)^{3/2}` for `|χ|<1`. -/
theorem hasDerivAt_zmap (L : ℝ) {χ : ℝ} (h : |χ| < 1) :
    HasDerivAt (fun χ : ℝ => L * χ / √(1 - χ ^ 2)) (L / WG.R.rpow (1 - χ ^ 2) (3 / 2 : ℝ)) χ := by
  have hw := one_sub_sq_pos h
  have hs : 0 < √(1 - χ ^ 2) := Real.sqrt_pos.mpr hw
  have hs2 : √(1 - χ ^ 2) ^ 2 = 1 - χ ^ 2 := Real.sq_sqrt hw.le
  have h0 : HasDerivAt (fun χ : ℝ => 1 - χ ^ 2) (-(2 * χ)) χ := by
    simpa using ((hasDerivAt_id χ).pow 2).const_sub 1
  have h1 := h0.sqrt hw.ne'
  have h2 : HasDerivAt (fun χ : ℝ => L * χ) L χ := by
    simpa using (hasDerivAt_id χ).const_mul L
  have h3 := h2.div h1 hs.ne'
  refine h3.congr_deriv ?_
  rw [rpow_three_halves hw]
  field_simp
  rw [hs2]; ring

/-- Parallel-momentum map: `d/dρ (-T log((1-ρ)/2)) = T/(1-ρ)` for `ρ ≠ 1`. -/
theorem hasDerivAt_ppmap (T : ℝ) {ρ : ℝ} (h : ρ ≠ 1) :
    HasDerivAt (fun ρ : ℝ => -T * Real.log ((1 - ρ) / 2)) (T / (1 - ρ)) ρ := by
  have h1 : 1 - ρ ≠ 0 := sub_ne_zero.mpr (Ne.symm h)
  have h0 : HasDerivAt (fun ρ : ℝ => (1 - ρ) / 2) (-1 / 2) ρ := by
    simpa using ((hasDerivAt_id ρ).const_sub 1).div_const 2
  have h2 := (h0.log (div_ne_zero h1 two_ne_zero)).const_mul (-T)
  refine h2.congr_deriv ?_
  field_simp

/-- Longitudinal-momentum map: `d/dρ (2T artanh ρ) = 2T/(1-ρ²)` for `|ρ|<1`. -/
theorem hasDerivAt_pzmap (T : ℝ) {ρ : ℝ} (h : |ρ| < 1) :
    HasDerivAt (fun ρ : ℝ => 2 * T * WG.R.artanh ρ) (2 * T / (1 - ρ ^ 2)) ρ := by
  have := abs_lt.mp h
  refine ((hasDerivAt_artanh this.1 this.2).const_mul (2 * T)).congr_deriv ?_
  ring

end WG.GridMaps
