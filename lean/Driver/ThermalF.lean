/-
Line-protocol driver for Model.Thermal at α = Float with the test integrals Jb(x) = a0 + a1*x, Jf(x) = b0 + b1*x.
in : `thermal <T> <a0> <a1> <b0> <b1> <nB> <nF> (msq n)*nB (msq n)*nF`   floats as UInt64 bit patterns, nB/nF plain naturals
out: bits
-/
import WallGoVerif.Model.Thermal
open Model.Thermal

def fl (t : String) : Float := Float.ofBits (t.toNat!).toUInt64

def pairs : List Float → List (Float × Float)
  | a :: b :: rest => (a, b) :: pairs rest
  | _ => []

def step (toks : List String) : String :=
  match toks with
  | "thermal" :: t :: a0 :: a1 :: b0 :: b1 :: nB :: _nF :: rest =>
    let nB := nB.toNat!
    let v := rest.map fl
    let bos := pairs (v.take (2 * nB))
    let fer := pairs (v.drop (2 * nB))
    let r := oneLoopThermal (0.0 : Float) 2.0 3.141592653589793 1e-100 (fun x => fl a0 + fl a1 * x) (fun x => fl b0 + fl b1 * x) (fl t) bos fer
    toString r.toBits.toNat
  | _ => "bad-op"

partial def loop (h : IO.FS.Stream) (o : IO.FS.Stream) : IO Unit := do
  let line ← h.getLine
  if line.isEmpty then return ()
  let toks := (line.trimAscii.toString.splitOn " ").filter (fun t => t ≠ "")
  o.putStrLn (step toks)
  loop h o

def main : IO Unit := do loop (← IO.getStdin) (← IO.getStdout)
