/-
Line-protocol driver for Model.Deriv at K = Rat (exact).
in : `deriv <n> <order> <x> <dx> <lo|none> <hi|none> <c0> <c1> ...`   polynomial Σ c_k y^k, rationals as `p/q` or `p`
     `grad <order> <dx> <c0> ...`            g(t) = Σ c_k t^k  (one component, central stencil at 0)
     `hess <order> <dxi> <dxj> <a> <b>`      g(s,t) = s^a t^b
     `hessdiag <order> <dx> <c0> ...`        g(s,t) = P(s+t)
     `axis <d> <i>`                          normAxis
out: deriv -> `<row> | <positions...> | <result>` ; others -> `<result>`
-/
import WallGoVerif.Model.Deriv
open Model.Deriv

def parseInt (s : String) : Int :=
  if s.startsWith "-" then - (Int.ofNat (s.drop 1).toString.toNat!) else Int.ofNat s.toNat!

def parseRat (s : String) : Rat :=
  match s.splitOn "/" with
  | [p] => (parseInt p : Rat)
  | [p, q] => (parseInt p : Rat) / (parseInt q : Rat)
  | _ => 0

def parseBound (s : String) : Option Rat := if s = "none" then none else some (parseRat s)

def showRat (q : Rat) : String := if q.den = 1 then toString q.num else s!"{q.num}/{q.den}"

def polyEval (cs : List Rat) (y : Rat) : Rat := cs.foldr (fun c acc => c + y * acc) 0

def rpow (x : Rat) : Nat → Rat
  | 0 => 1
  | k + 1 => rpow x k * x

def step (toks : List String) : String :=
  match toks with
  | "deriv" :: n :: order :: x :: dx :: lo :: hi :: cs =>
    let n := n.toNat!; let order := order.toNat!
    let x := parseRat x; let dx := parseRat dx
    let b : Bounds Rat := ⟨parseBound lo, parseBound hi⟩
    let cs := cs.map parseRat
    let f := polyEval cs
    let row := rowOf (K := Rat) id n order x dx b
    let pos := positions (K := Rat) id n order x dx b
    let res := derivative (K := Rat) id f n order x dx b
    s!"{row} | {" ".intercalate (pos.map showRat)} | {showRat res}"
  | "grad" :: order :: dx :: cs =>
    showRat (gradComp (K := Rat) id order.toNat! (polyEval (cs.map parseRat)) (parseRat dx))
  | ["hess", order, dxi, dxj, a, b] =>
    showRat (hessEntry (K := Rat) id order.toNat! (fun s t => rpow s a.toNat! * rpow t b.toNat!) (parseRat dxi) (parseRat dxj))
  | "hessdiag" :: order :: dx :: cs =>
    showRat (hessEntry (K := Rat) id order.toNat! (fun s t => polyEval (cs.map parseRat) (s + t)) (parseRat dx) (parseRat dx))
  | ["axis", d, i] =>
    match normAxis d.toNat! (parseInt i) with
    | some j => toString j
    | none => "error"
  | _ => "bad-op"

partial def loop (h : IO.FS.Stream) (o : IO.FS.Stream) : IO Unit := do
  let line ← h.getLine
  if line.isEmpty then return ()
  let toks := (line.trimAscii.toString.splitOn " ").filter (fun t => t ≠ "")
  o.putStrLn (step toks)
  loop h o

def main : IO Unit := do loop (← IO.getStdin) (← IO.getStdout)
