/-
Line-protocol driver for Model.Interp (InterpolatableFunction), one op per line, one output line per op.
Rationals are `p/q` or `p`.

in : `new <k> <0|1> <threshold> <initialCount>` | `bad <x>…` | `table <xmin> <xmax> <n>` |
     `tablevals <x>…` | `modes <lo> <hi>` (none|error|constant|function) | `adaptive <0|1>` |
     `eval <0|1> <x>…` | `deriv <order> <dx> <x>…` (bUseInterpolation=True, same dx for all entries) |
     `derivx <0|1> <order> <x> <dx> <x> <dx> …` (explicit bUseInterpolation, one dx per entry) |
     `extend <newMin> <newMax> <pMin> <pMax>` | `reread` | `get`
out: `ok` | `error:<ValueError|AssertionError|IndexError>` | `bad-op`
     eval  -> tags `S:<x>` `D:<x>` `CL` `CH` `X:<x>` `U`, separated by blanks; a spline-based tag gets the
              suffix `@<e>` iff its table version differs from the version current after the op
     deriv -> per entry `S'<d>:<x>` (d = index+1 of the derivative spline used) or `FD[<tag>,…]`
     get   -> `pts=<x>,… range=<min>,<max> has=<0|1> modes=<lo>,<hi> adaptive=<0|1> count=<n> pending=<x>,… k=<k> epoch=<e>`
              (`range=,` when there is no table)
-/
import WallGoVerif.Model.Interp
open Model.Interp

def parseInt (s : String) : Int :=
  if s.startsWith "-" then - (Int.ofNat (s.drop 1).toString.toNat!) else Int.ofNat s.toNat!
def parseRat (s : String) : Rat :=
  match s.splitOn "/" with
  | [p] => (parseInt p : Rat)
  | [p, q] => (parseInt p : Rat) / (parseInt q : Rat)
  | _ => 0
def showRat (q : Rat) : String := if q.den = 1 then toString q.num else s!"{q.num}/{q.den}"

def parseMode : String → Option Mode
  | "none" => some .none | "error" => some .error | "constant" => some .constant
  | "function" => some .function | _ => none
def showMode : Mode → String
  | .none => "none" | .error => "error" | .constant => "constant" | .function => "function"
def showErr : Err → String
  | .valueError => "error:ValueError" | .assertionError => "error:AssertionError"
  | .indexError => "error:IndexError"
def parseBool : String → Option Bool | "0" => some false | "1" => some true | _ => none

def ep (cur e : Nat) : String := if e = cur then "" else s!"@{e}"
def showTag (cur : Nat) : Tag → String
  | .spline e x => s!"S:{showRat x}{ep cur e}"
  | .direct x => s!"D:{showRat x}"
  | .constLo e => s!"CL{ep cur e}"
  | .constHi e => s!"CH{ep cur e}"
  | .extrap e x => s!"X:{showRat x}{ep cur e}"
  | .uninit => "U"
def showDTag (cur : Nat) : DTag → String
  | .splineDeriv e d x => s!"S'{d}:{showRat x}{ep cur e}"
  | .fd ts => "FD[" ++ ",".intercalate (ts.map (showTag cur)) ++ "]"

def showOut (s : State) : Out → String
  | .ok => "ok"
  | .error e => showErr e
  | .tags ts => " ".intercalate (ts.map (showTag s.epoch))
  | .dtags ds => " ".intercalate (ds.map (showDTag s.epoch))

def showState (s : State) : String :=
  let rats (l : List Rat) := ",".intercalate (l.map showRat)
  let b (x : Bool) := if x then "1" else "0"
  let rng := if s.hasTable then s!"{showRat (rangeMin s)},{showRat (rangeMax s)}" else ","
  s!"pts={rats s.pts} range={rng} has={b s.hasTable} modes={showMode s.lo},{showMode s.hi} " ++
  s!"adaptive={b s.adaptive} count={s.count} pending={rats s.pending} k={s.k} epoch={s.epoch}"

def pairs : List String → Option (List (Rat × Rat))
  | [] => some []
  | x :: d :: t => (pairs t).map (fun l => (parseRat x, parseRat d) :: l)
  | _ => none

def parseOp (toks : List String) : Option Op :=
  match toks with
  | ["new", k, a, t, n] => (parseBool a).map (fun a => .new k.toNat! a t.toNat! n.toNat!)
  | "bad" :: xs => some (.setBad (xs.map parseRat))
  | ["table", a, b, n] => some (.table (parseRat a) (parseRat b) n.toNat!)
  | "tablevals" :: xs => some (.tablevals (xs.map parseRat))
  | ["modes", lo, hi] => do some (.modes (← parseMode lo) (← parseMode hi))
  | ["adaptive", b] => (parseBool b).map .setAdaptive
  | "eval" :: u :: xs => (parseBool u).map (fun u => .eval u (xs.map parseRat))
  | "deriv" :: order :: dx :: xs => some (.deriv true order.toNat! (xs.map (fun x => (parseRat x, parseRat dx))))
  | "derivx" :: u :: order :: rest => do
      let u ← parseBool u
      let l ← pairs rest
      some (.deriv u order.toNat! l)
  | ["extend", a, b, p, q] => some (.extend (parseRat a) (parseRat b) p.toNat! q.toNat!)
  | ["reread"] => some .reread
  | ["get"] => some .get
  | _ => none

def stepLine (s : State) (toks : List String) : State × String :=
  match parseOp toks with
  | none => (s, "bad-op")
  | some .get => (s, showState s)
  | some op => let r := step s op; (r.1, showOut r.1 r.2)

partial def loop (h : IO.FS.Stream) (o : IO.FS.Stream) (s : State) : IO Unit := do
  let line ← h.getLine
  if line.isEmpty then return ()
  let toks := (line.trimAscii.toString.splitOn " ").filter (fun t => t ≠ "")
  let (s', out) := stepLine s toks
  o.putStrLn out
  loop h o s'

def main : IO Unit := do loop (← IO.getStdin) (← IO.getStdout) init
