/-
Line-protocol driver for Model.LTE at Float.
physics: vp(vw) = p0 + p1*vw, Tp(vw) = t0 + t1*vw, ok(vw) = not (fa < vw), shockTn(vw,vp,Tp) = s0*Tp + s1*vw + s2*vp, csqHigh(T) = q0 + q1*T;
root finders: 50 bisection steps (the same floating-point operations as the harness stub), `rootS` raises (none) when f(a)·f(b) > 0.
in : `lte <Tn> <vMin> <vJ> <sqrtCs> <p0> <p1> <t0> <t1> <fa> <s0> <s1> <s2> <q0> <q1>`     (floats as UInt64 bit patterns)
out: `runaway` | `static` | `root <a> <b> <v>`
-/
import WallGoVerif.Model.LTE
open Model.LTE

def fl (t : String) : Float := Float.ofBits (t.toNat!).toUInt64
def sb (x : Float) : String := toString x.toBits.toNat

def bisect (f : Float → Float) (a b : Float) : Float := Id.run do
  let mut lo := a
  let mut hi := b
  let mut flo := f lo
  for _ in [0:50] do
    let mid := lo + 0.5 * (hi - lo)
    let fm := f mid
    if flo * fm ≤ 0.0 then
      hi := mid
    else
      lo := mid
      flo := fm
  return lo + 0.5 * (hi - lo)

def step (toks : List String) : String :=
  match toks with
  | ["lte", tn, vmin, vj, sq, p0, p1, t0, t1, fa, s0, s1, s2, q0, q1] =>
    let P : Phys Float := {
      mtch := fun vw => (fl p0 + fl p1 * vw, fl t0 + fl t1 * vw, !(fl fa < vw)),
      shockTn := fun vw vp Tp => fl s0 * Tp + fl s1 * vw + fl s2 * vp,
      csqHigh := fun T => fl q0 + fl q1 * T }
    let O : Oracles Float := {
      rootS := fun a b => if 0.0 < shock P a * shock P b then none else some (bisect (shock P) a b),
      rootD := fun a b => bisect (diff P (fl tn)) a b }
    match findvwLTE P O 0.0 1e-10 1e-6 (fl tn) (fl vmin) (fl vj) (fl sq) with
    | .runaway => "runaway"
    | .static => "static"
    | .root a b v => s!"root {sb a} {sb b} {sb v}"
  | _ => "bad-op"

partial def loop (h : IO.FS.Stream) (o : IO.FS.Stream) : IO Unit := do
  let line ← h.getLine
  if line.isEmpty then return ()
  let toks := (line.trimAscii.toString.splitOn " ").filter (fun t => t ≠ "")
  o.putStrLn (step toks)
  loop h o

def main : IO Unit := do loop (← IO.getStdin) (← IO.getStdout)
