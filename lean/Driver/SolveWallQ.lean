/-
Line-protocol driver for Model.SolveWall (Rat).
in : `solve <vMin> <vMax> <vJ> <root> <conv 0/1> <succTemp><succPress><tMinusIn><tPlusIn><saturates> <v>:<p> <v>:<p> …`
       (pressure table: the values wallPressure returned at the velocities it was asked for)
out: `<success 0/1> <deflagration|detonation|runaway|error> <velocity|none> branch=<n> vmin=<v>`
in : `loop <rtol> <atol> <maxIter> <improve 0/1> <p0> <p1>:<e1> <p2>:<e2> …`
out: `converged <p>` | `gaveup <p>` | `running i=<i> mult=<m> improve=<0/1>`
-/
import WallGoVerif.Model.SolveWall
open Model.SolveWall

def parseInt (s : String) : Int :=
  if s.startsWith "-" then - (Int.ofNat (s.drop 1).toString.toNat!) else Int.ofNat s.toNat!
def parseRat (s : String) : Rat :=
  match s.splitOn "/" with
  | [p] => (parseInt p : Rat)
  | [p, q] => (parseInt p : Rat) / (parseInt q : Rat)
  | _ => 0
def showRat (q : Rat) : String := if q.den = 1 then toString q.num else s!"{q.num}/{q.den}"
def showTyp : SolType → String
  | .deflagration => "deflagration" | .detonation => "detonation" | .runaway => "runaway" | .error => "error"

def step (toks : List String) : String :=
  match toks with
  | "solve" :: vmin :: vmax :: vj :: root :: conv :: fl :: tab =>
    let tb := tab.map (fun p => match p.splitOn ":" with | [v, q] => (parseRat v, parseRat q) | _ => (0, 0))
    let press : Rat → Rat := fun v => match tb.find? (fun (q : Rat × Rat) => q.1 == v) with | some (_, p) => p | none => 0
    let b := fl.toList.map (· == '1')
    let f : Flags := { succTemp := b.getD 0 false, succPress := b.getD 1 false, tMinusIn := b.getD 2 false, tPlusIn := b.getD 3 false,
                       saturates := b.getD 4 false }
    let o := solveWall press (parseRat vmin) (parseRat vmax) (parseRat vj) (fun _ _ => (parseRat root, conv = "1")) (fun _ => f) 64
    let vel := match o.velocity with | some v => showRat v | none => "none"
    s!"{if o.success then 1 else 0} {showTyp o.typ} {vel} branch={o.branch} vmin={showRat o.vMinFinal}"
  | "loop" :: rtol :: atol :: maxIter :: imp :: p0 :: obs =>
    let os := obs.map (fun p => match p.splitOn ":" with | [a, e] => (parseRat a, parseRat e) | _ => (0, 0))
    match runLoop (parseRat rtol) (parseRat atol) maxIter.toNat! { i := 0, multiplier := 1, improve := imp = "1", pressures := [parseRat p0] } os with
    | .converged p => s!"converged {showRat p}"
    | .gaveUp p => s!"gaveup {showRat p}"
    | .running s => s!"running i={s.i} mult={showRat s.multiplier} improve={if s.improve then 1 else 0}"
  | _ => "bad-op"

partial def loop (h : IO.FS.Stream) (o : IO.FS.Stream) : IO Unit := do
  let line ← h.getLine
  if line.isEmpty then return ()
  let toks := (line.trimAscii.toString.splitOn " ").filter (fun t => t ≠ "")
  o.putStrLn (step toks)
  loop h o

def main : IO Unit := do loop (← IO.getStdin) (← IO.getStdout)
