/-
Line-protocol driver for Model.Boltz at α = Float.
  flat nM nN a i j k                                  -> index
  liou same dchidxi pWall drzdpz gammaWall dMsq dChi tRz tRp tChi dRz -> entry
  coll mult T tChi c                                   -> entry
  moment nj nk  f(nj*nk) w(nj*nk) sz(nj) sp(nk)        -> value
floats as decimal UInt64 bit patterns; flat takes plain naturals.
-/
import WallGoVerif.Model.Boltz
open Model.Boltz

def fl (t : String) : Float := Float.ofBits (t.toNat!).toUInt64
def outF (x : Float) : String := toString x.toBits.toNat

def chunk (l : List Float) (n : Nat) : List (List Float) :=
  if n = 0 then [] else (List.range (l.length / n)).map (fun r => (l.drop (r * n)).take n)

def step (toks : List String) : String :=
  match toks with
  | ["flat", nM, nN, a, i, j, k] => toString (flatIndex nM.toNat! nN.toNat! a.toNat! i.toNat! j.toNat! k.toNat!)
  | "liou" :: same :: rest =>
    let a := (rest.map fl).toArray
    outF (liouvilleEntry (0.0 : Float) 2.0 (same = "1") a[0]! a[1]! a[2]! a[3]! a[4]! a[5]! a[6]! a[7]! a[8]! a[9]!)
  | ["coll", m, t, c, x] => outF (collisionEntry (fl m) (fl t) (fl c) (fl x))
  | "moment" :: nj :: nk :: rest =>
    let nj := nj.toNat!; let nk := nk.toNat!
    let a := rest.map fl
    let f := chunk (a.take (nj * nk)) nk
    let w := chunk ((a.drop (nj * nk)).take (nj * nk)) nk
    let sz := (a.drop (2 * nj * nk)).take nj
    let sp := (a.drop (2 * nj * nk + nj)).take nk
    outF (moment (0.0 : Float) f w sz sp)
  | _ => "bad-op"

partial def loop (h : IO.FS.Stream) (o : IO.FS.Stream) : IO Unit := do
  let line ← h.getLine
  if line.isEmpty then return ()
  let toks := (line.trimAscii.toString.splitOn " ").filter (fun t => t ≠ "")
  o.putStrLn (step toks)
  loop h o

def main : IO Unit := do loop (← IO.getStdin) (← IO.getStdout)
