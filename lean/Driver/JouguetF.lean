/-
Line-protocol driver for Model.Jouguet at Float.  f is given as a table of the values the REAL vpDerivNum took
(captured from outside at the temperatures the loop can visit); lookup by exact bit pattern.
in : `jouguet <Tn> <TMaxLow> <TMaxHydro> T:f T:f …`   (floats as UInt64 bit patterns)
out: `<brentq|secant> <a bits> <b bits> steps=<n> tmin=<bits>`
-/
import WallGoVerif.Model.Jouguet
open Model.Jouguet

def fl (t : String) : Float := Float.ofBits (t.toNat!).toUInt64
def sb (x : Float) : String := toString x.toBits.toNat

def step (toks : List String) : String :=
  match toks with
  | "jouguet" :: rest =>
    match rest with
    | tn :: tmaxLow :: tmaxHydro :: tab =>
      let tn := fl tn
      let tmaxLow := fl tmaxLow
      let tmaxHydro := fl tmaxHydro
      let tb := tab.map (fun p => match p.splitOn ":" with | [a, b] => (a.toNat!, fl b) | _ => (0, 0.0))
      let f := fun (T : Float) => match tb.find? (fun q => q.1 == T.toBits.toNat) with | some (_, v) => v | none => 0.0
      let (w, c) := search f 0.0 2.0 tn tmaxLow tmaxHydro 100000
      match c with
      | .brentq a b => s!"brentq {sb a} {sb b} steps={w.steps} tmin={sb w.tmin}"
      | .secant a b => s!"secant {sb a} {sb b} steps={w.steps} tmin={sb w.tmin}"
    | _ => "bad-op"
  | _ => "bad-op"

partial def loop (h : IO.FS.Stream) (o : IO.FS.Stream) : IO Unit := do
  let line ← h.getLine
  if line.isEmpty then return ()
  let toks := (line.trimAscii.toString.splitOn " ").filter (fun t => t ≠ "")
  o.putStrLn (step toks)
  loop h o

def main : IO Unit := do loop (← IO.getStdin) (← IO.getStdout)
