/-
Line-protocol driver for Model.ProfileLoop at Float.
in : `loop <T1> <v1> <T2> <v2> …`       (floats as UInt64 bit patterns)
out: `<success 0/1> <T1>:<v1> <T2>:<v2> …`
-/
import WallGoVerif.Model.ProfileLoop
open Model.ProfileLoop

def fl (t : String) : Float := Float.ofBits (t.toNat!).toUInt64
def sb (x : Float) : String := toString x.toBits.toNat

def pairs : List String → List (Float × Float)
  | a :: b :: rest => (fl a, fl b) :: pairs rest
  | _ => []

def step (toks : List String) : String :=
  match toks with
  | "loop" :: rest =>
    let r := findPlasmaProfile 0.0 (pairs rest)
    s!"{if r.2 then 1 else 0} " ++ " ".intercalate (r.1.map (fun p => s!"{sb p.1}:{sb p.2}"))
  | _ => "bad-op"

partial def loop (h : IO.FS.Stream) (o : IO.FS.Stream) : IO Unit := do
  let line ← h.getLine
  if line.isEmpty then return ()
  let toks := (line.trimAscii.toString.splitOn " ").filter (fun t => t ≠ "")
  o.putStrLn (step toks)
  loop h o

def main : IO Unit := do loop (← IO.getStdin) (← IO.getStdout)
