/-
Line-protocol driver for Model.ProfilePoint at Float.  lhs(T) = c0 + c1*T + c2*(T*T).
in : `point <Tn> <Tplus> <Tminus> <tmin> <c0> <c1> <c2>`          (floats as UInt64 bit patterns)
out: `minimum <T bits>` | `nosolution` | `root <a bits> <b bits>`
-/
import WallGoVerif.Model.ProfilePoint
open Model.ProfilePoint

def fl (t : String) : Float := Float.ofBits (t.toNat!).toUInt64
def sb (x : Float) : String := toString x.toBits.toNat

def step (toks : List String) : String :=
  match toks with
  | ["point", tn, tp, tm, tmin, c0, c1, c2] =>
    let lhs := fun (T : Float) => fl c0 + fl c1 * T + fl c2 * (T * T)
    match profilePoint lhs 0.0 1e-10 1.2 0.8 (fl tn) (fl tp) (fl tm) (fl tmin) with
    | .minimum T => s!"minimum {sb T}"
    | .noSolution => "nosolution"
    | .root a b => s!"root {sb a} {sb b}"
  | _ => "bad-op"

partial def loop (h : IO.FS.Stream) (o : IO.FS.Stream) : IO Unit := do
  let line ← h.getLine
  if line.isEmpty then return ()
  let toks := (line.trimAscii.toString.splitOn " ").filter (fun t => t ≠ "")
  o.putStrLn (step toks)
  loop h o

def main : IO Unit := do loop (← IO.getStdin) (← IO.getStdout)
