/-
Line-protocol driver for Model.Poly at α = Float.
in : `<cmd> <dir:z|pz|pp> <endpoints:0|1> <k> <a_1..a_k bits> <xs bits...>`   (floats as decimal UInt64 bit patterns)
  chebmat   d e 0 xs..            -> chebyshevMatrix rows (flattened)
  cardderiv d e 0 xs..            -> cardinalDeriv (as returned by the code, flattened)
  chebderiv d e 0 xs..            -> chebyshevDeriv
  weights   d e 1 piOverN xs..    -> gclWeights
  evalcard  d e k x c_1..c_{k-1} xs..   -> evalCardinal at x
  evalcheb  d e k x c_1..c_{k-1} xs..   -> evalChebyshev at x
  cardinal  d e 2 n x xs..        -> cardinal xs n x
out: bits...
-/
import WallGoVerif.Model.Poly
open Model.Poly

def parseDir (s : String) : Dir := if s = "z" then .z else if s = "pz" then .pz else .pp
def fl (t : String) : Float := Float.ofBits (t.toNat!).toUInt64
def out (l : List Float) : String := " ".intercalate (l.map (fun x => toString x.toBits.toNat))

def step (toks : List String) : String :=
  match toks with
  | cmd :: d :: e :: k :: rest =>
    let d := parseDir d
    let e := e = "1"
    let k := k.toNat!
    let a := (rest.take k).map fl
    let xs := (rest.drop k).map fl
    match cmd with
    | "chebmat" => out (chebyshevMatrix (1.0 : Float) 2.0 d e xs).flatten
    | "cardderiv" => out (cardinalDeriv (0.0 : Float) 1.0 d e xs).flatten
    | "chebderiv" => out (chebyshevDeriv (0.0 : Float) 1.0 2.0 (fun n => n.toFloat) d e xs).flatten
    | "weights" => out (gclWeights (a.getD 0 0.0) (0.5 : Float) d e xs.length)
    | "evalcard" => out [evalCardinal (0.0 : Float) 1.0 d e xs (a.drop 1) (a.getD 0 0.0)]
    | "evalcheb" => out [evalChebyshev (0.0 : Float) 1.0 2.0 d e xs.length (a.drop 1) (a.getD 0 0.0)]
    | "cardinal" => out [cardinal (0.0 : Float) 1.0 xs (a.getD 0 0.0).toUInt64.toNat (a.getD 1 0.0)]
    | _ => "bad-op"
  | _ => "bad-op"

partial def loop (h : IO.FS.Stream) (o : IO.FS.Stream) : IO Unit := do
  let line ← h.getLine
  if line.isEmpty then return ()
  let toks := (line.trimAscii.toString.splitOn " ").filter (fun t => t ≠ "")
  o.putStrLn (step toks)
  loop h o

def main : IO Unit := do loop (← IO.getStdin) (← IO.getStdout)
