/-
Line-protocol driver for Model.Window at Float.  tp(v) = p0 + p1*v + p2*v*v, tm(v) = m0 + m1*v + m2*v*v; root f a b = 50 bisection steps on f (the same floating-point operations as the harness stub), so that the two cuts differ.
in : `deflag <vJ> <vMin> <vLow> <TMaxLow> <TMaxHigh> <p0> <p1> <p2> <m0> <m1> <m2> <fr> <endLow 0/1> <endHigh 0/1>`
     `deton  <vJ> <TMaxLow> <m0> <m1> <m2> <fr>`                          (floats as UInt64 bit patterns, flags plain)
out: `<vmax bits> high=<-|0|1> low=<-|0|1>`  |  `<v bits>`
-/
import WallGoVerif.Model.Window
open Model.Window

def fl (t : String) : Float := Float.ofBits (t.toNat!).toUInt64
def sb (x : Float) : String := toString x.toBits.toNat
def so : Option Bool → String
  | none => "-" | some true => "1" | some false => "0"

/-- bisection with a fixed number of steps; identical operation sequence in the Python stub -/
def bisect (f : Float → Float) (a b : Float) : Float := Id.run do
  let mut lo := a
  let mut hi := b
  let mut flo := f lo
  for _ in [0:50] do
    let mid := lo + 0.5 * (hi - lo)
    let fm := f mid
    if flo * fm ≤ 0.0 then
      hi := mid
    else
      lo := mid
      flo := fm
  return lo + 0.5 * (hi - lo)

def step (toks : List String) : String :=
  match toks with
  | ["deflag", vJ, vMin, vLow, tml, tmh, p0, p1, p2, m0, m1, m2, _fr, el, eh] =>
    let tp := fun (v : Float) => fl p0 + fl p1 * v + fl p2 * (v * v)
    let tm := fun (v : Float) => fl m0 + fl m1 * v + fl m2 * (v * v)
    let r := fastestDeflag 0.0 tp tm (fun f a b => bisect f a b) (fl vJ) (fl vMin) (fl vLow) (fl tml) (fl tmh) (el == "1") (eh == "1")
    s!"{sb r.vmax} high={so r.setHigh} low={so r.setLow}"
  | ["deton", vJ, tml, m0, m1, m2, _fr] =>
    let tm := fun (v : Float) => fl m0 + fl m1 * v + fl m2 * (v * v)
    sb (slowestDeton 0.0 1.0 1e-4 0.01 tm (fun f a b => bisect f a b) (fl vJ) (fl tml))
  | _ => "bad-op"

partial def loop (h : IO.FS.Stream) (o : IO.FS.Stream) : IO Unit := do
  let line ← h.getLine
  if line.isEmpty then return ()
  let toks := (line.trimAscii.toString.splitOn " ").filter (fun t => t ≠ "")
  o.putStrLn (step toks)
  loop h o

def main : IO Unit := do loop (← IO.getStdin) (← IO.getStdout)
