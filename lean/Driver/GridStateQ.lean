/-
Line-protocol driver for Model.GridState at K = Rat.
in : `init tIn tOut L r s c T` | `pos tIn tOut L c` | `mom T` | `get`
out: `ok` for mutating ops; `get` -> `tIn tOut L r s c T positionFalloff`
-/
import WallGoVerif.Model.GridState
open Model.GridState

def parseInt (s : String) : Int :=
  if s.startsWith "-" then - (Int.ofNat (s.drop 1).toString.toNat!) else Int.ofNat s.toNat!
def parseRat (s : String) : Rat :=
  match s.splitOn "/" with
  | [p] => (parseInt p : Rat)
  | [p, q] => (parseInt p : Rat) / (parseInt q : Rat)
  | _ => 0
def showRat (q : Rat) : String := if q.den = 1 then toString q.num else s!"{q.num}/{q.den}"

def stepLine (s : State Rat) (toks : List String) : State Rat × String :=
  match toks with
  | ["init", a, b, c, d, e, f, g] =>
    (fresh ⟨parseRat a, parseRat b, parseRat c, parseRat d, parseRat e, parseRat f, parseRat g⟩, "ok")
  | ["pos", a, b, c, d] => (step s (.changePosition (parseRat a) (parseRat b) (parseRat c) (parseRat d)), "ok")
  | ["mom", t] => (step s (.changeMomentum (parseRat t)), "ok")
  | ["get"] =>
    let p := s.p
    (s, " ".intercalate ([p.tailIn, p.tailOut, p.thickness, p.ratio, p.smoothing, p.center, p.momentumT, s.positionFalloff].map showRat))
  | _ => (s, "bad-op")

partial def loop (h : IO.FS.Stream) (o : IO.FS.Stream) (s : State Rat) : IO Unit := do
  let line ← h.getLine
  if line.isEmpty then return ()
  let toks := (line.trimAscii.toString.splitOn " ").filter (fun t => t ≠ "")
  let (s', out) := stepLine s toks
  o.putStrLn out
  loop h o s'

def main : IO Unit := do loop (← IO.getStdin) (← IO.getStdout) (fresh ⟨0, 0, 0, 0, 0, 0, 0⟩)
