/-
Line-protocol driver for Model.DetonScan (Rat).
pressure stub: p(v) = a_j, j = floor((v - vmin)/(vmax - vmin) * K) clipped to [0, K]  (K+1 values given)
proposal stub: propose i … vw2 … posMax = vw2 + f_i * (posMax - vw2)
in : `scan <vmin> <vmax> <nMin> <nMax> <only 0/1> <K> a_0 … a_K | f_0 f_1 …`      (rationals p/q)
out: `<label> | a:b a:b … | v:p v:p …`
-/
import WallGoVerif.Model.DetonScan
open Model.DetonScan

def parseInt (s : String) : Int :=
  if s.startsWith "-" then - (Int.ofNat (s.drop 1).toString.toNat!) else Int.ofNat s.toNat!
def parseRat (s : String) : Rat :=
  match s.splitOn "/" with
  | [p] => (parseInt p : Rat)
  | [p, q] => (parseInt p : Rat) / (parseInt q : Rat)
  | _ => 0
def showRat (q : Rat) : String := if q.den = 1 then toString q.num else s!"{q.num}/{q.den}"
def showLabel : Label → String
  | .roots => "roots" | .deflagrationOrRunaway => "deflagrationOrRunaway" | .deflagration => "deflagration" | .runaway => "runaway"

def step' (toks : List String) : String :=
  match toks with
  | "scan" :: vmin :: vmax :: nMin :: nMax :: only :: k :: rest =>
    let K := k.toNat!
    let as := (rest.take (K + 1)).map parseRat
    let fs := ((rest.drop (K + 1)).filter (· ≠ "|")).map parseRat
    let vmin := parseRat vmin
    let vmax := parseRat vmax
    let press : Rat → Rat := fun v =>
      let j := ((v - vmin) / (vmax - vmin) * (K : Rat)).floor
      let j := if j < 0 then 0 else if j > (K : Int) then K else j.toNat
      as.getD j 0
    let propose : Nat → Rat → Rat → Rat → Rat → Rat → Rat := fun i _ vw2 _ _ posMax => vw2 + fs.getD i (1 / 2) * (posMax - vw2)
    let o := scan press propose vmin vmax nMin.toNat! nMax.toNat! (only = "1") 200
    showLabel o.label ++ " | " ++ " ".intercalate (o.brackets.map (fun b => s!"{showRat b.1}:{showRat b.2}"))
      ++ " | " ++ " ".intercalate (o.probes.map (fun b => s!"{showRat b.1}:{showRat b.2}"))
  | _ => "bad-op"

partial def loop' (h : IO.FS.Stream) (o : IO.FS.Stream) : IO Unit := do
  let line ← h.getLine
  if line.isEmpty then return ()
  let toks := (line.trimAscii.toString.splitOn " ").filter (fun t => t ≠ "")
  o.putStrLn (step' toks)
  loop' h o

def main : IO Unit := do loop' (← IO.getStdin) (← IO.getStdout)
