/-
Line-protocol driver for the executable Float copy of the generated formulas.
in : `<Module.name> <bits> <bits> ...`   (IEEE-754 bit patterns as decimal UInt64)
out: `<bits> <bits> ...` | `none` (unknown name / wrong arity)
Run: lake env lean --run Driver/GenF.lean
-/
import WallGoVerif.Gen.F.Dispatch

partial def loop (h : IO.FS.Stream) (out : IO.FS.Stream) : IO Unit := do
  let line ← h.getLine
  if line.isEmpty then return ()
  let toks := (line.trimAscii.toString.splitOn " ").filter (fun t => t ≠ "")
  match toks with
  | [] => out.putStrLn "none"
  | name :: rest =>
    let args : Array Float := (rest.map (fun t => Float.ofBits (t.toNat!).toUInt64)).toArray
    match Gen.F.dispatch name args with
    | none => out.putStrLn "none"
    | some r => out.putStrLn (" ".intercalate (r.toList.map (fun x => toString x.toBits.toNat)))
  loop h out

def main : IO Unit := do
  let i ← IO.getStdin
  let o ← IO.getStdout
  loop i o
