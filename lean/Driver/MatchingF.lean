/-
Line-protocol driver for Model.Matching at α = Float.
Physics stubs (the same closed forms the harness installs on the real Hydrodynamics object):
  tp(vp) = t0 + t1*vp ;  shock(vp,T) = Tn + s0 + s1*vp + s2*vp^2 + s3*(T - tp(vp)) ;  csqHigh(T) = c0 + c1*T
Oracles: rootS/rootD return a + fr*(b-a) ; minim returns x = a + fm*(b-a), fun = sigma*D(x).
in : `match <vw> <vJ> <vJt> <vLow> <Tn> <t0> <t1> <s0> <s1> <s2> <s3> <c0> <c1> <frS> <frD> <fm>`  (floats as UInt64 bit patterns)
out: `<detonation|root|template> <value bits|-> | ev ev …`  with ev = `rootS:a:b`, `rootD:a:b`, `min:sigma:a:b` (bits)
-/
import WallGoVerif.Model.Matching
open Model.Matching

def fl (t : String) : Float := Float.ofBits (t.toNat!).toUInt64
def sb (x : Float) : String := toString x.toBits.toNat

def showEv : Event Float → String
  | .rootS a b => s!"rootS:{sb a}:{sb b}"
  | .rootD a b => s!"rootD:{sb a}:{sb b}"
  | .minim s a b => s!"min:{sb s}:{sb a}:{sb b}"

def step (toks : List String) : String :=
  match toks with
  | "match" :: rest =>
   match rest.map fl with
   | [vw, vJ, vJt, vLow, tn, t0, t1, s0, s1, s2, s3, c0, c1, frS, frD, fm] =>
    let tp := fun (vp : Float) => t0 + t1 * vp
    let p : Phys Float := { tp := tp, shock := fun vp T => tn + s0 + s1 * vp + s2 * (vp * vp) + s3 * (T - tp vp),
                            csqHigh := fun T => c0 + c1 * T, Tn := tn, csqHighTn := c0 + c1 * tn }
    let o : Oracles Float := { rootS := fun a b => a + frS * (b - a), rootD := fun a b => a + frD * (b - a),
                               minim := fun s a b => let x := a + fm * (b - a); (x, s * D p x) }
    let (out, ev) := findMatching p o 0.0 1.0 1e-6 vw vJ vJt vLow
    let head := match out with
      | .detonation => "detonation -"
      | .root v => s!"root {sb v}"
      | .template v => s!"template {sb v}"
    head ++ " | " ++ " ".intercalate (ev.map showEv)
   | _ => "bad-op"
  | _ => "bad-op"

partial def loop (h : IO.FS.Stream) (o : IO.FS.Stream) : IO Unit := do
  let line ← h.getLine
  if line.isEmpty then return ()
  let toks := (line.trimAscii.toString.splitOn " ").filter (fun t => t ≠ "")
  o.putStrLn (step toks)
  loop h o

def main : IO Unit := do loop (← IO.getStdin) (← IO.getStdout)
