/-
Line-protocol driver for Model.Tracer (Rat).
in : `trace <T0> <TMin> <TMax> <dT> | <t>:<eigPos 0/1>:<tiny 0/1> ... | <t>:<e>:<y> ...`   (up records | down records)
out: `ok table=<t>,<t>,… min=<x> minflag=<0|1> max=<x> maxflag=<0|1>` | `error:RuntimeError` | `error:AssertionError`
in : `bracket <TMin> <TMax> <dT> <T_1>:<sign> <T_2>:<sign> …`  (signs of ΔF at TMax, TMax-dT, … as the real loop saw them)
out: `<lo> <hi>` | `none`
-/
import WallGoVerif.Model.Tracer
open Model.Tracer

def parseInt (s : String) : Int :=
  if s.startsWith "-" then - (Int.ofNat (s.drop 1).toString.toNat!) else Int.ofNat s.toNat!
def parseRat (s : String) : Rat :=
  match s.splitOn "/" with
  | [p] => (parseInt p : Rat)
  | [p, q] => (parseInt p : Rat) / (parseInt q : Rat)
  | _ => 0
def showRat (q : Rat) : String := if q.den = 1 then toString q.num else s!"{q.num}/{q.den}"

def parseStep (s : String) : Step :=
  match s.splitOn ":" with
  | [t, e, y] => { t := parseRat t, eigPos := e = "1", tiny := y = "1" }
  | _ => { t := 0, eigPos := false, tiny := false }

def splitBar (l : List String) : List (List String) :=
  l.foldr (fun x acc => if x = "|" then [] :: acc else match acc with | [] => [[x]] | h :: t => (x :: h) :: t) [[]]

def step (toks : List String) : String :=
  match toks with
  | "trace" :: t0 :: tmin :: tmax :: dt :: rest =>
    match splitBar rest with
    | [_, up, down] =>
      match tracePhase (parseRat t0) (parseRat tmin) (parseRat tmax) (parseRat dt) (up.map parseStep) (down.map parseStep) with
      | .error .failedToTrace => "error:RuntimeError"
      | .error .negativeRange => "error:AssertionError"
      | .ok r => s!"ok table={",".intercalate (r.table.map showRat)} min={showRat r.minPossible} minflag={if r.minFlag then 1 else 0} max={showRat r.maxPossible} maxflag={if r.maxFlag then 1 else 0}"
    | _ => "bad-op"
  | "bracket" :: tmin :: tmax :: dt :: pts =>
    let tab := pts.map (fun p => match p.splitOn ":" with | [t, s] => (parseRat t, parseInt s) | _ => (0, 0))
    let dF : Rat → Rat := fun T => match tab.find? (fun (q : Rat × Int) => q.1 == T) with | some (_, s) => (s : Rat) | none => 0
    match criticalBracket dF (parseRat tmin) (parseRat tmax) (parseRat dt) (tab.length + 2) with
    | some (a, b) => s!"{showRat a} {showRat b}"
    | none => "none"
  | _ => "bad-op"

partial def loop (h : IO.FS.Stream) (o : IO.FS.Stream) : IO Unit := do
  let line ← h.getLine
  if line.isEmpty then return ()
  let toks := (line.trimAscii.toString.splitOn " ").filter (fun t => t ≠ "")
  o.putStrLn (step toks)
  loop h o

def main : IO Unit := do loop (← IO.getStdin) (← IO.getStdout)
