/-
Line-protocol driver for Model.EOM at α = Float (floats as decimal UInt64 bit patterns).
  profile z n lo.. hi.. widths.. offsets..            -> fields.. gradients..
  vplasma enthalpy s1                                 -> v
  lhs n dPhidz.. veff enthalpy s1 s2                  -> value
  tmunu vmid np (dofs msq d00 d02 d20 d11)*           -> T30 T33
  updategrid n widths.. offsets.. vmid mfp includeOffEq smoothing ratio -> tailIn tailOut thick center
  kinetic n lo.. hi.. widths..                        -> K
-/
import WallGoVerif.Model.EOM
open Model.EOM

def fl (t : String) : Float := Float.ofBits (t.toNat!).toUInt64
def out (l : List Float) : String := " ".intercalate (l.map (fun x => toString x.toBits.toNat))

def step (toks : List String) : String :=
  match toks with
  | "profile" :: z :: n :: rest =>
    let n := n.toNat!; let a := rest.map fl
    let (f, g) := wallProfile Float.tanh Float.cosh (0.5 : Float) 1.0 (fl z) (a.take n) ((a.drop n).take n) ((a.drop (2*n)).take n) ((a.drop (3*n)).take n)
    out (f ++ g)
  | ["vplasma", w, s1] => out [plasmaVelocity Float.sqrt (2.0 : Float) 4.0 (fl w) (fl s1)]
  | "lhs" :: n :: rest =>
    let n := n.toNat!; let a := rest.map fl
    out [tempEqLHS Float.sqrt (0.0 : Float) 0.5 4.0 (a.take n) (a.getD n 0) (a.getD (n+1) 0) (a.getD (n+2) 0) (a.getD (n+3) 0)]
  | "tmunu" :: vmid :: np :: rest =>
    let np := np.toNat!; let a := (rest.map fl).toArray
    let ps := (List.range np).map (fun i => ({ dofs := a[6*i]!, msq := a[6*i+1]!, d00 := a[6*i+2]!, d02 := a[6*i+3]!, d20 := a[6*i+4]!, d11 := a[6*i+5]! } : PDelta Float))
    let (t30, t33) := deltaToTmunu Float.sqrt (0.0 : Float) 1.0 2.0 3.0 4.0 (fl vmid) ps
    out [t30, t33]
  | "updategrid" :: n :: rest =>
    let n := n.toNat!; let a := rest.map fl
    let w := a.take n; let o := (a.drop n).take n; let r := a.drop (2*n)
    let (ti, to', th, c) := updateGrid Float.sqrt (1.0 : Float) 2.0 0.5 (Float.log 2.0) 1.05 w o (r.getD 0 0) (r.getD 1 0) (r.getD 2 0 != 0) (r.getD 3 0) (r.getD 4 0) 0.0
    out [ti, to', th, c]
  | "kinetic" :: n :: rest =>
    let n := n.toNat!; let a := rest.map fl
    out [kinetic (0.0 : Float) 6.0 (a.take n) ((a.drop n).take n) ((a.drop (2*n)).take n)]
  | _ => "bad-op"

partial def loop (h : IO.FS.Stream) (o : IO.FS.Stream) : IO Unit := do
  let line ← h.getLine
  if line.isEmpty then return ()
  let toks := (line.trimAscii.toString.splitOn " ").filter (fun t => t ≠ "")
  o.putStrLn (step toks)
  loop h o

def main : IO Unit := do loop (← IO.getStdin) (← IO.getStdout)
