/-
Line-protocol driver for Model.Collision (payload = block id : Nat).
in : `load <gridN> <n> <f_00> <f_01> … <f_{n-1,n-1}>`   row-major over ordered pairs; f = `-` (missing) or `<size>:<card|cheb|other>:<id>`
out: `ok size=<s> basis=<b> interp=<0|1> blocks=<i>,<j>:<id>;…` | `error:CollisionLoadError`
-/
import WallGoVerif.Model.Collision
open Model.Collision

def parseFile (s : String) : Option (FileInfo Nat) :=
  match s.splitOn ":" with
  | [sz, b, id] =>
    some { size := sz.toNat!, basis := (if b = "card" then .cardinal else if b = "cheb" then .chebyshev else .other), block := id.toNat! }
  | _ => none

def showBasis : Basis → String
  | .cardinal => "card" | .chebyshev => "cheb" | .other => "other"

def step (toks : List String) : String :=
  match toks with
  | "load" :: gridN :: n :: files =>
    let n := n.toNat!
    let arr := files.toArray
    let dir : Dir Nat := fun i j => if i < n ∧ j < n then (arr[i * n + j]?).bind parseFile else none
    match newFromDirectory dir gridN.toNat! n with
    | .error _ => "error:CollisionLoadError"
    | .ok l =>
      let bl := ";".intercalate (l.blocks.map (fun ((i, j), id) => s!"{i},{j}:{id}"))
      s!"ok size={l.size} basis={showBasis l.basis} interp={if l.interpolated then 1 else 0} blocks={bl}"
  | _ => "bad-op"

partial def loop (h : IO.FS.Stream) (o : IO.FS.Stream) : IO Unit := do
  let line ← h.getLine
  if line.isEmpty then return ()
  let toks := (line.trimAscii.toString.splitOn " ").filter (fun t => t ≠ "")
  o.putStrLn (step toks)
  loop h o

def main : IO Unit := do loop (← IO.getStdin) (← IO.getStdout)
