#!/usr/bin/env python3
"""Write /verif/MANIFEST.json from the table below (kept in one place so it stays valid)."""
import json
from pathlib import Path

VERIF = Path(__file__).resolve().parent.parent
ALL = [f"C{i:02d}" for i in range(1, 21)]

CLAIMED = {
    "C10": dict(
        text="Lean 4 theorems (Props.C10, 51 theorems) about the formulas of thermodynamics.py regenerated on every run by the "
             "py2lean translator: e=T dp-p, w=T dp=e+p, de=T ddp, csq=dp/de in all three regions, HasDerivAt p dp / dp ddp for every T>0 "
             "incl. the range boundaries, continuity of p,dp,ddp,csq across the boundaries given the parameters setExtrapolate assigns. "
             "The translator is validated each run (Float copy vs the repository's own fragment), and the property is evaluated on real "
             "Thermodynamics objects built from closed-form potentials.",
        note="CubicSpline(+derivative) is an oracle with contract HasDerivAt (monitored); real arithmetic stands for doubles; T>0, TMin<TMax, "
             "dp and dp+de nonzero at the boundaries are explicit hypotheses checked on every object used.",
        technique="Lean 4 proof over regenerated model + translator validation + real-code property monitor", ref="4/C10"),
    "C17": dict(
        text="Lean 4 theorems (Props.C17, Props.C17H) about grid.py/grid3Scales.py formulas regenerated each run: for all three "
             "directions of both grids HasDerivAt(map) = reported Jacobian on the open domain; Jacobians > 0 hence StrictMonoOn; "
             "three-scale position map: Jacobian >= (1-smoothing) L/(r(1-chi^2)) > 0 for smoothing<1, centre slope = L/r, "
             "origin -> wallCenter; simple grid: compactify/decompactify mutually inverse; rescale history = fresh grid "
             "(parameter-state model, exact correspondence with real Grid3Scales objects). Float translator validation and "
             "evaluation of the property on real grids every run.",
        note="Inherited Grid3Scales.compactify is provably NOT the inverse (known finding C17-E, Lean theorem "
             "grid3_inherited_compactify_not_inverse); smoothing>=1 fixed in /repo (4a3f383). Float noise of the three-scale map near "
             "chi=+-1 is outside the real-number model.",
        technique="Lean 4 proof over regenerated model + translator validation + exact state-model correspondence", ref="4/C17"),
    "C19": dict(
        text="Lean 4 theorems (Props.C19, 35 theorems): moment conditions of every row of the eight stencil tables (regenerated from "
             "helpers.py each run) by decide +kernel; generic binomial-theorem lemma => derivative/gradient/hessian exact on all "
             "polynomials up to (#points-1) (central rows one more; mixed Hessian: total degree <= order+1, with proved tightness "
             "witnesses); evaluation points stay within bounds for half-lines and for two-sided bounds of width >= #points*h (sharp); "
             "central row chosen whenever it fits; linearity; shape functions. Exact (Rat) correspondence of the row-selection model "
             "with helpers.derivative on dyadic inputs and exactness/in-bounds/shape search on the real helpers each run.",
        note="narrow two-sided bounds escape: known finding C19-F1 (Lean: narrow_bounds_escape, width_hypothesis_sharp); h>0 needed; "
             "the (x+dx)-x trick and float rounding are outside the model.",
        technique="Lean 4 proof (decide +kernel over regenerated tables + generic lemma) + exact model correspondence", ref="4/C19"),
    "C16": dict(
        text="Lean 4 theorems (Props.C16, Props.C16Cheb; 49 theorems) about a polymorphic hand model of polynomial.py: the coded masked "
             "product IS the Lagrange basis; evaluation exact for every representable polynomial (with and without end points); the coded "
             "derivative matrix gives the exact derivative at ALL nodes; Chebyshev recurrences = Mathlib T/U; restricted families vanish at "
             "the dropped ends, are linearly independent and span; basis-change matrix nonsingular (round trips are the identity); "
             "Gauss-Chebyshev-Lobatto rule exact for degree <= 2M-1 (new proof) and equal to what integrate computes; end weights "
             "immaterial; linearity; axis-wise application commutes. The model is compared entry-wise with the real Polynomial class "
             "for all grid sizes/directions/endpoint flags on every run, and exactness is searched on the real class.",
        note="hand model tied by correspondence (rel 1e-11 on every matrix entry); np.linalg.inv is an oracle whose precondition "
             "(nonsingularity) is proved; float conditioning of large M is outside the model.",
        technique="Lean 4 proof over hand model + line-protocol correspondence", ref="4/C16"),
    "C02": dict(
        text="Lean 4 theorems (Props.C02) about the regenerated hydrodynamics formulas: the junction relations the code solves are "
             "equivalent to equality of energy flux and momentum flux across the wall for ANY equation of state with w=e+p; the residual's "
             "zero set is independent of the positive scale factor; a zero of the detonation residual plus the post-processing yields a "
             "conserving state; c1 = -energy flux and c2 = momentum flux on both sides, velocityMid = -(v+ + v-)/2. Every real matching "
             "(bag, template, traced potentials; three branches) is monitored by backward error against the exact conservation laws, with "
             "call-site attribution (hybr convergence, template fallback) obtained by wrapping module names from outside. Decision logic of "
             "findMatching (which bracket goes to which root finder, when the upper bound on v+ is re-evaluated, when the template approximation "
             "is used) as an executable model (Model.Matching) with theorems (Props.C02M: fallback only without a sign change at the refined "
             "bound and with a positive bounded minimum; refined bound only moves up; a root outcome solves the shock condition; final bracket "
             "always valid), compared exactly with the REAL findMatching on scripted physics/solver stubs.",
        note="numerical solvers are oracles monitored by backward error <= 50(rtol+atol/T); hypotheses e+ != e-, e+ + p- != 0, vpovm>0 are "
             "checked on each real matching (the sign-blind residual is reported in DESIGN.md).",
        technique="Lean 4 proof over regenerated model + translator validation + backward-error monitor", ref="4/C02"),
    "C05": dict(
        text="Lean 4 theorems (Props.C05): the LTE post-processing returns (T+ gamma+)^2 = (T- gamma-)^2 and the 2x2 LTE residual has the "
             "entropy-flux identity built in and vanishes exactly on conserving states; decision model of findvwLTE proved exhaustively "
             "(interior value => final bracketed branch; 1 => one of three named conditions; 0 => mismatch negative at vMin). Real "
             "findvwLTE runs on every EOS family are judged on the real matching (entropy, conservation, Tn boundary condition).",
        note="'one sign over the whole window' is only sampled on a velocity grid (the code tests the end point) -- partial; solvers are oracles.",
        technique="Lean 4 proof over regenerated model + decision-model proof + real-run monitor", ref="4/C05"),
    "C06": dict(
        text="Lean 4 theorems (Props.C06): returned v-^2 = max(min(vw^2, cs-^2(T-)),0) hence deflagration v-=vw<=cs-, hybrid v-=cs-; "
             "detonation passes v+=vw, T+=Tn through; vpDerivNum is the numerator of d(v+^2)/dT- (quotient rule) and vanishes iff "
             "cs-^2 = v-^2 (the Jouguet velocity is the Chapman-Jouguet point); orderings v+<v- etc. are equivalent to EOS inequalities. "
             "Admissibility, classification, CJ point and fastestDeflag/slowestDeton under artificially tight phase ranges are monitored "
             "on real matchings every run, incl. a bisection-located scan of the deflagration/hybrid transition vw = cs-(T-). Bracket search of "
             "findJouguetVelocity as a model (Model.Jouguet) with theorems (Props.C06J: the bracket handed to brentq always has a sign change, "
             "secant only when all samples have one sign, termination) and exact correspondence with the real method on stub equations of state; "
             "fastestDeflag/slowestDeton as a model (Model.Window, Props.C06W: vmax <= vJ, a cut is where T-+ reaches the table end, exact flag "
             "semantics, vJ <= slowestDeton <= 1) with exact correspondence on stub matchings.",
        note="truth of the EOS inequalities and monotonicity of T+-(vw) below fastestDeflag are physics of the sampled EOS (monitored, not proved).",
        technique="Lean 4 proof over regenerated model + translator validation + real-run monitor", ref="4/C06"),
    "C15": dict(
        text="Lean 4 theorems (Props.C15, 31 theorems): on an EOS of template form the closed forms of the template solver satisfy the "
             "equations of the GENERAL solver -- __init__ quantities, boundary constants (tmplBoundaries = hydroBoundaries), findTm = "
             "energy-flux conservation, getVp quadratic <=> alpha relation <=> momentum-flux conservation, deflagration step conserves "
             "both fluxes up to an explicit 1e-100 regulator defect, detonation root solves tmFromvpsq and equals matchDetonPost, the "
             "closed-form vJ is the general Chapman-Jouguet point, the two fluid ODEs and kappa integrands coincide. Both real solvers are "
             "run over the parameter box every run and compared (vJ, vMin, matching, c1/c2, LTE velocity, kappa).",
        note="equality of numerical roots is a tolerance statement (2e-4; kappa 3e-3); vMin and LTE velocity are root searches (oracles). "
             "Defect found by the proof effort (np.sign(0) in wFromAlpha, bag EOS) fixed in /repo 108cf41.",
        technique="Lean 4 proof over regenerated model + translator validation + two-solver differential monitor", ref="4/C15"),
    "C03": dict(
        text="Lean 4 theorems (Props.C03, 15 theorems): shockDE's components are the self-similar flow equations written in v (T-form "
             "consistent with the enthalpy form for any EOS); TiiShock = 0 <=> energy-flux continuity across the front with plasma at rest "
             "ahead; front event <=> mu*xi = cs^2; for constant sound speed these imply momentum-flux continuity; the template shooting "
             "residual is equivalent to the same two conditions; detonation passes vw, Tn through; kappa integrand = xi^2 w gamma^2 v^2. "
             "An independent integrator in the similarity variable (harness-owned) re-derives Tn and kappa from every real matching.",
        note="the ODE solution is an oracle: partial on integration accuracy (Tn 2e-4, kappa 1e-2). Defect fixed in /repo 4720217 "
             "(efficiencyFactor: Simpson on the coarse adaptive RK45 steps, hybrids off by 5-20 %).",
        technique="Lean 4 proof over regenerated model + translator validation + independent-integrator monitor", ref="4/C03"),
    "C14": dict(
        text="Lean 4 theorems (Props.C14, 29 theorems): model of newFromDirectory/loadCollisions -- on success block (i,j) is exactly the dataset "
             "of file (i,j) for every ordered pair, all files agree in size/basis, gridN <= size; the load fails (CollisionLoadError) IFF a "
             "file is missing / oversized / unknown basis / disagrees with the first file; a failed load leaves the installed array in place. "
             "Matrix theorems: basis change with the inverse-transpose convention preserves the operator's action on every distribution (the "
             "code's collocation matrix is proved invertible); interpolated operator = E*C*P acts as evaluate-after-apply on every low-order "
             "distribution, blockwise independent of other particles; the correct axis rearrangement (and that the old reshape was wrong). "
             "Real HDF5 directories (1-3 particles, sizes, bases, fault patterns) are loaded and compared with the model; real basis change/"
             "interpolation compared with E*C*T*P built from Model.Poly's matrices.",
        note="present files are assumed well-formed HDF5; two defects fixed in /repo (cdd2d71 multi-particle interpolation, ece627b AssertionError).",
        technique="Lean 4 proof over hand model + line-protocol correspondence with real HDF5 loads", ref="4/C14"),
    "C18": dict(
        text="Lean 4 theorems (Props.C18): executable model of InterpolatableFunction (table, modes, adaptive scheduling, extension, "
             "derivative stencils, file round trip) with an invariant proved for EVERY operation history including raising operations "
             "(>= 2 strictly increasing abscissae, counter below threshold, non-finite points dropped individually, state unchanged by a "
             "failing construction); evaluate/derivative return one entry per input entry with exactly the provenance the per-side mode "
             "prescribes; reread is the identity; scalar- and vector-valued alike. The model is run against the REAL class on random "
             "histories (state after every op, provenance of every entry via an outside instrumentation), and the contract is searched on "
             "the real class with cubic test functions (values, shapes, derivatives, round trip, adaptive histories).",
        note="CubicSpline accuracy is an oracle (exact on cubics); dyadic abscissae make the Rat model bit-comparable. Four defects fixed in "
             "/repo (6a2cab0, 904d8fb, 11851cf, 7229b95); known finding C18-M (table rebuilt in the middle of a call).",
        technique="Lean 4 invariant proof over executable state-machine model + line-protocol correspondence", ref="4/C18"),
    "C04": dict(
        text="Lean 4 theorems (Props.C04, 24 theorems) about a hand model of the EOM formulas: plasmaVelocity is the unique subluminal root "
             "of w v/(1-v^2) = s1 with the sign of s1; temperatureProfileEqLHS = T33 - s2 identically; a returned point reproduces both "
             "conserved components including the out-of-equilibrium part; (T+,-v+) and (T-,-v-) solve the equations with the hydrodynamic "
             "boundary constants (uses C02); deltaToTmunu = components 30/33 of the boosted plasma-frame tensor (full 4x4 boost); bracket "
             "direction and success-flag logic. Model compared with the real EOM methods (Float, 1e-11); T30/T33 recomputed from every point "
             "of real findPlasmaProfile runs on all branches; asymptotics checked.",
        note="which root the heuristic bracket reaches is potential dependent (monitored); residual tolerance = the solver's rtol (errTol/10 in T). "
             "The no-root branch keeps the success flag (observation, below tolerance on all sampled runs).",
        technique="Lean 4 proof over hand model + Float correspondence + real-run recomputation", ref="4/C04"),
    "C09": dict(
        text="Lean 4 theorems (Props.C09): the coded field gradient is the exact z-derivative of the tanh profile; for every C^1 potential "
             "-int dV/dphi.dphi/dz dz = V(phi_low)-V(phi_high) for all widths and offsets (single and n fields, integrability PROVED from "
             "cosh^-2 decay); change of variables to the compact coordinate with the reported Jacobian (improper integral, instantiated on "
             "the regenerated simple grid); T-independent field part. Real _intermediatePressureResults runs in a uniform plasma over wall "
             "shapes inside the property's box and grid sizes from 40 up (equal and UNEQUAL grid tails), requiring the error to be small and to "
             "fall spectrally with M.",
        note="discretisation error itself is not a theorem (C16 gives exactness on the quadrature class): partial; Nelder-Mead is an oracle "
             "whose result must not matter.",
        technique="Lean 4 proof (analysis in Mathlib) + real-run convergence monitor", ref="4/C09"),
    "C08": dict(
        text="Lean 4 theorems (Props.C08, 13 theorems): tanh profile/gradient equivariant under translation, reflection and any re-indexing of "
             "the fields; kinetic term, T33 residual and the grid envelope invariant under permutations; exact re-pinning law for the offsets "
             "when another field comes first. Metamorphic end-to-end runs of the real solver on a coupled two-field model under reflection, "
             "translation and permutation, plus action-covariance on equivalent configurations.",
        note="iterative solvers are oracles (compared at 2*errTol). Known finding C08-P: swapping the field order changes the wall velocity "
             "(0.6264 vs 0.6190) although every proved piece is covariant.",
        technique="Lean 4 proof over hand model + metamorphic end-to-end monitor", ref="4/C08"),
    "C13": dict(
        text="Lean 4 theorems (Props.C13): the regenerated integrand and the four weights are exactly (1, pz^2, E^2, E pz) * p_par/(4 pi^2 E) * "
             "(dpz/drho_z)(dp_par/drho_par); d^3p/((2pi)^3 E) in cylindrical coordinates (Mathlib polar coordinates) and the change of "
             "variables to the compact grid coordinates with the Jacobians of C17 (improper integrals, no integrability hypothesis); the "
             "returned moment is the double Gauss-Chebyshev-Lobatto sum and equals the double integral for every deviation whose integrand "
             "times the two square-root factors is a polynomial of degrees <= 2N-1, <= 2N-3; chained: returned moment = momentum-space "
             "integral; linearity. Real getDeltas compared with the model and with closed-form integrals on the exactness family (weights from the analytic "
             "momentum maps, grids also reached through changeMomentumFalloffScale histories).",
        note="exactness class is a condition on the integrand (delta f times weight), as the property states; T30/T33 assembly is proved in C04.",
        technique="Lean 4 proof over regenerated formulas + hand model + correspondence + exactness search", ref="4/C13"),
    "C12": dict(
        text="Lean 4 theorems (Props.C12): regenerated source term vanishes when the three profile derivatives vanish; the spectral derivative "
             "matrix annihilates constant profiles (and any zero-row-sum FD matrix does); non-singular operator => zero deviation; the "
             "operator in any basis pair = cardinal operator composed with the Kronecker product of the collocation matrices (no hypothesis), "
             "with Chebyshev derivative matrix = cardinal derivative matrix times collocation matrix proved from C16 => the represented "
             "function and all moments are basis independent; C-order reshape is a bijection. Entry-wise correspondence of the operator data "
             "flow with the real buildLinearEquations (4 basis pairs, 1-2 particles), residual/homogeneity/basis-independence monitors and "
             "finite-difference -> spectral convergence for T, v and field variations separately.",
        note="np.linalg.solve is an oracle (residual monitored); the FD convergence RATE is not proved (monitor requires decrease with M): partial. "
             "Defect fixed in /repo edf9260 (FD branch used dT/dchi for dv/dchi).",
        technique="Lean 4 proof over regenerated formulas + data-flow model + correspondence + monitors", ref="4/C12"),
    "C11": dict(
        text="Lean 4 theorems (Props.C11) about a model of tracePhase's bookkeeping: a step enters the table only while the smallest Hessian "
             "eigenvalue is positive and before any break (exact prefix characterisation); table strictly increasing; possible range = "
             "[min+2dT, max-2dT]; flags <=> table ends short of the requested end; reaching the bound => unflagged; stopping at a spinodal "
             "=> flagged and nothing tabulated beyond; exact error conditions; critical-temperature loop: the bracket handed to brentq has a "
             "sign change and, if the high-T phase is favoured at TMax, the low-T phase is favoured below it. The model is driven with the "
             "step records logged from the REAL tracer (RK45 subclass substituted from outside) and must reproduce table, range and flags "
             "exactly; every tabulated point is judged with closed-form gradient/Hessian/branch, interpolation accuracy, coverage, Tc.",
        note="'same continuous branch' and accuracy are numerical (closed-form comparison): partial. Known finding C11-H (direction of the Tc "
             "crossing unchecked). Quirk proved: a single accepted downward step is discarded.",
        technique="Lean 4 proof over bookkeeping model + exact correspondence on logged step records + closed-form judgement", ref="4/C11"),
    "C01": dict(
        text="Lean 4 theorems (Props.C01) about a model of solveWall's decision logic and wallPressure's convergence loop: success with a "
             "velocity => final bracket has pMin<=0<=pMax with vMin*2^k<=v<=vMax, v is brentq's converged answer, all five failure flags of "
             "the call AT v are good, type = detonation iff v>vJ; runaway <=> pMax<0 (no velocity); failure <=> ERROR; result is a function "
             "of the observations only; loop: converged => last step met the tolerance, multiplier antitone, iteration count NOT bounded by "
             "maxIterations (finding). The model is compared with the REAL solveWall and the REAL wallPressure loop on scripted pressure "
             "functions/streams (stubs injected from outside, final flags poisoned beforehand); real LTE end-to-end runs check the pressure "
             "sign change within 3*errTol, the window, that returned fields are those of a fresh evaluation at v, and bitwise repeatability "
             "after interleaved LTE/matching/pressure calls and poisoned mutable state; WallGoManager level: solveWall on one manager through "
             "sequences of configuration changes, LTE calls, detonation searches and other benchmark points equals a fresh manager and leaves the configuration untouched. Scanning loop of "
             "findWallVelocityDetonation as a model (Model.DetonScan) with theorems (Props.C01D: brackets are sign changes of consecutive probes, "
             "step sizes, termination, completeness, runaway => p(vmax) < 0 was evaluated) and exact correspondence on scripted pressures.",
        note="brentq and the inner pressure iteration are oracles (convergence not proved): partial; out-of-equilibrium runs need collision "
             "files and are covered at the Boltzmann level (C12-C14), end-to-end runs are LTE.",
        technique="Lean 4 proof over decision model + scripted-stub correspondence + end-to-end history monitor", ref="4/C01"),
    "C07": dict(
        text="Lean 4 weight theorems (Props.C07, Lemmas.Scaling): every regenerated formula family is homogeneous of the stated weight under "
             "T, fields, masses -> u*(.), V -> u^4 V: equation of state incl. the extrapolation parameters assigned by setExtrapolate, junction "
             "relations and boundary constants, shock equations, template closed forms, both grid maps and their Jacobians, Boltzmann "
             "integrand/source, the EOM hand model, the finite-difference stencils with steps proportional to the variation scales; which "
             "tolerance predicates are scale invariant and which are not. Metamorphic end-to-end runs of the REAL pipeline (phase tracing, "
             "thermodynamics, hydrodynamics, LTE wall solve) under unit factors 1e-2..1e2 with default and tightened tolerances: dimensionless "
             "outputs within solver tolerance, dimensionful ones by the proved weights.",
        note="iterative solvers are oracles (dimensionless outputs compared at 2*errTol / 1e-5); absolute constants inside scipy defaults are "
             "exercised by the metamorphic runs, not modelled: partial on the solver internals.",
        technique="Lean 4 proof over regenerated model + translator validation + metamorphic end-to-end monitor", ref="4/C07"),
    "C20": dict(
        text="Lean 4 theorems (Props.C20, 38 theorems): the six regenerated integrands ARE the real/imaginary parts of the defining complex "
             "integrand with principal sqrt and log (log|2 sin|, arctan(cot), log|2 cos|, arctan(tan) identities for EVERY angle), exact "
             "regulator error bounds, the wrapper splits where the radicand changes sign; thermal sum: Stefan-Boltzmann value, additivity, "
             "homogeneity, continuity in masses and temperature, Boltzmann suppression (from stated hypotheses on J); the abscissae of both "
             "shipped tables, regenerated into Lean each run, are linspace(-20,1000,10000) to 6e-13, strictly increasing, identical for Jb/Jf "
             "(decide +kernel over all 10000 rows). Real code: direct integrals vs an independent principal-log quadrature and the Bessel "
             "series (also beyond both table ends), EVERY row of both tables vs that reference, interpolated values and first derivatives off "
             "the nodes, J(0), decay, Stefan-Boltzmann / heavy / generic / continuity of the real one-loop potential, thermal-sum model vs "
             "potentialOneLoopThermal with stub integrals.",
        note="J(0), continuity and decay of J are hypotheses of the thermal-sum theorems (monitored numerically); quad/CubicSpline are oracles. "
             "Defect fixed in /repo bc9edb8 (quadrature across singularities, 99 corrupted Jf table rows); known finding C20-Z (tables cannot "
             "resolve the branch points x=0, -pi^2: 1e-3 / 9 % instead of 1e-6 / 1e-4).",
        technique="Lean 4 proof over regenerated integrands and table abscissae + translator validation + independent-reference monitor", ref="4/C20"),

}

NOT_YET = "check not built yet in this round (design in DESIGN.md section 4); listed here until its Lean module and harness are committed"


def main():
    checks = []
    for pid, c in CLAIMED.items():
        checks.append({
            "property_id": pid,
            "quick_cmd": f"./check {pid} --tier quick",
            "thorough_cmd": f"./check {pid} --tier thorough",
            "evidence_file": f"evidence/{pid}.json",
            "replay_cmd_template": f"./check {pid} --replay {{path}}",
            "engine": "lean4-proof",
            "level_claimed": {"category": "proof", "text": c["text"], "design_ref": c["ref"]},
            "level_note": c["note"],
            "technique": c["technique"],
        })
    m = {
        "version": 1,
        "setup_cmd": "./setup.sh",
        "hooks": {"guard": "WALLGO_VERIF", "enable": "no source hooks are needed: the harness wraps module-level names from outside",
                  "baseline_off_cmd": "cd /repo && /venv/bin/python -m pytest -ra -q -p no:cacheprovider --timeout=900 --continue-on-collection-errors",
                  "source_commits": [], "add_only": True},
        "engines": [{"name": "lean4-proof", "path": "lean/", "serves_properties": list(CLAIMED),
                     "kind_free_text": "Lean 4.33 + Mathlib theorems about a model regenerated from /repo by harness/py2lean (plus hand models tied by "
                                       "line-protocol correspondence), audited with #print axioms; real-code monitors and failing-input search in harness/props"}],
        "checks": checks,
        "not_applicable": [{"property_id": p, "reason": NOT_YET} for p in ALL if p not in CLAIMED],
        "notes": "All checks: ./check <Cxx> --tier quick|thorough ; exit 0 held / 1 violation / 2 infrastructure. See DESIGN.md.",
    }
    (VERIF / "MANIFEST.json").write_text(json.dumps(m, indent=1))


if __name__ == "__main__":
    main()
