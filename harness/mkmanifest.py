#!/usr/bin/env python3
"""Write /verif/MANIFEST.json from the table below (kept in one place so it stays valid)."""
import json
from pathlib import Path

VERIF = Path(__file__).resolve().parent.parent
ALL = [f"C{i:02d}" for i in range(1, 21)]

CLAIMED = {
    "C10": dict(
        text="Lean 4 theorems (Props.C10, 51 theorems) about the formulas of thermodynamics.py regenerated on every run by the "
             "py2lean translator: e=T dp-p, w=T dp=e+p, de=T ddp, csq=dp/de in all three regions, HasDerivAt p dp / dp ddp for every T>0 "
             "incl. the range boundaries, continuity of p,dp,ddp,csq across the boundaries given the parameters setExtrapolate assigns. "
             "The translator is validated each run (Float copy vs the repository's own fragment), and the property is evaluated on real "
             "Thermodynamics objects built from closed-form potentials.",
        note="CubicSpline(+derivative) is an oracle with contract HasDerivAt (monitored); real arithmetic stands for doubles; T>0, TMin<TMax, "
             "dp and dp+de nonzero at the boundaries are explicit hypotheses checked on every object used.",
        technique="Lean 4 proof over regenerated model + translator validation + real-code property monitor", ref="4/C10"),
    "C17": dict(
        text="Lean 4 theorems (Props.C17, Props.C17H) about grid.py/grid3Scales.py formulas regenerated each run: for all three "
             "directions of both grids HasDerivAt(map) = reported Jacobian on the open domain; Jacobians > 0 hence StrictMonoOn; "
             "three-scale position map: Jacobian >= (1-smoothing) L/(r(1-chi^2)) > 0 for smoothing<1, centre slope = L/r, "
             "origin -> wallCenter; simple grid: compactify/decompactify mutually inverse; rescale history = fresh grid "
             "(parameter-state model, exact correspondence with real Grid3Scales objects). Float translator validation and "
             "evaluation of the property on real grids every run.",
        note="Inherited Grid3Scales.compactify is provably NOT the inverse (known finding C17-E, Lean theorem "
             "grid3_inherited_compactify_not_inverse); smoothing>=1 fixed in /repo (4a3f383). Float noise of the three-scale map near "
             "chi=+-1 is outside the real-number model.",
        technique="Lean 4 proof over regenerated model + translator validation + exact state-model correspondence", ref="4/C17"),
    "C19": dict(
        text="Lean 4 theorems (Props.C19, 35 theorems): moment conditions of every row of the eight stencil tables (regenerated from "
             "helpers.py each run) by decide +kernel; generic binomial-theorem lemma => derivative/gradient/hessian exact on all "
             "polynomials up to (#points-1) (central rows one more; mixed Hessian: total degree <= order+1, with proved tightness "
             "witnesses); evaluation points stay within bounds for half-lines and for two-sided bounds of width >= #points*h (sharp); "
             "central row chosen whenever it fits; linearity; shape functions. Exact (Rat) correspondence of the row-selection model "
             "with helpers.derivative on dyadic inputs and exactness/in-bounds/shape search on the real helpers each run.",
        note="narrow two-sided bounds escape: known finding C19-F1 (Lean: narrow_bounds_escape, width_hypothesis_sharp); h>0 needed; "
             "the (x+dx)-x trick and float rounding are outside the model.",
        technique="Lean 4 proof (decide +kernel over regenerated tables + generic lemma) + exact model correspondence", ref="4/C19"),
}

NOT_YET = "check not built yet in this round (design in DESIGN.md section 4); listed here until its Lean module and harness are committed"


def main():
    checks = []
    for pid, c in CLAIMED.items():
        checks.append({
            "property_id": pid,
            "quick_cmd": f"./check {pid} --tier quick",
            "thorough_cmd": f"./check {pid} --tier thorough",
            "evidence_file": f"evidence/{pid}.json",
            "replay_cmd_template": f"./check {pid} --replay {{path}}",
            "engine": "lean4-proof",
            "level_claimed": {"category": "proof", "text": c["text"], "design_ref": c["ref"]},
            "level_note": c["note"],
            "technique": c["technique"],
        })
    m = {
        "version": 1,
        "setup_cmd": "./setup.sh",
        "hooks": {"guard": "WALLGO_VERIF", "enable": "no source hooks are needed: the harness wraps module-level names from outside",
                  "baseline_off_cmd": "cd /repo && /venv/bin/python -m pytest -ra -q -p no:cacheprovider --timeout=900 --continue-on-collection-errors",
                  "source_commits": [], "add_only": True},
        "engines": [{"name": "lean4-proof", "path": "lean/", "serves_properties": list(CLAIMED),
                     "kind_free_text": "Lean 4.33 + Mathlib theorems about a model regenerated from /repo by harness/py2lean (plus hand models tied by "
                                       "line-protocol correspondence), audited with #print axioms; real-code monitors and failing-input search in harness/props"}],
        "checks": checks,
        "not_applicable": [{"property_id": p, "reason": NOT_YET} for p in ALL if p not in CLAIMED],
        "notes": "All checks: ./check <Cxx> --tier quick|thorough ; exit 0 held / 1 violation / 2 infrastructure. See DESIGN.md.",
    }
    (VERIF / "MANIFEST.json").write_text(json.dumps(m, indent=1))


if __name__ == "__main__":
    main()
