#!/usr/bin/env python3
"""Writes the prompt given to an independent seeding sub-agent (property text + its own scratch worktree, nothing from /verif).
usage: seedprompt.py <Cxx> <worktree> [--avoid "<summary of an earlier seed>"]"""
import json
import sys

pid, wt = sys.argv[1], sys.argv[2]
avoid = sys.argv[4] if len(sys.argv) > 4 and sys.argv[3] == "--avoid" else None
prop = next(json.loads(l) for l in open("/verif/properties.jsonl") if json.loads(l)["id"] == pid)
files = ", ".join(prop["anchors"]["files"])
extra = ""
if avoid:
    extra = (f"\n\nAn earlier engineer already seeded the following change for this property; yours must be of a DIFFERENT kind, in a different "
             f"function or mechanism, needing a different condition to manifest: {avoid}\n")
print(f"""You are a test engineer doing mutation seeding on a Python physics code base (WallGo: bubble-wall velocity solver). Work ONLY inside your own git worktree of the repository: {wt} (it is a checkout of the code; the package source is {wt}/src/WallGo, the tests are in {wt}/tests). Do not read or write anything under /verif, and do not touch /repo. Python to use: /venv/bin/python (numpy, scipy, h5py, pytest are installed; no network). To import YOUR copy of the package in scripts, put `import sys; sys.path.insert(0, "{wt}/src")` first (the installed package otherwise points at /repo).

The property under study (id {pid}): "{prop['title']}"
Statement: {prop['statement']}
It must hold: {prop['quantifier']['text']}
Relevant source files: {files}{extra}

Your task: craft ONE realistic source change (a plausible bug: a few lines at most, the kind a maintainer could introduce in a refactoring or an "optimisation") to {wt}/src/WallGo that BREAKS this property, while the code still imports/compiles and the existing test suite still passes. Prefer a change that needs something specific to manifest — an unusual but admissible input, a particular branch, a multi-step sequence of operations, a particular parameter regime, or two cooperating sites that each look fine alone — NOT one that ordinary use or the existing tests expose at once. Avoid trivial breakage such as raising exceptions everywhere or changing a printed message.

Steps:
1. Read the relevant source and the existing tests ({wt}/tests) to see what they cover.
2. Make the change. Run the existing suite as `cd {wt} && PYTHONPATH={wt}/src /venv/bin/python -m pytest -q -p no:cacheprovider --timeout=900 2>&1 | tail -8` and confirm in a scratch script that `import WallGo; print(WallGo.__file__)` with PYTHONPATH set points into {wt}. The baseline has exactly 5 known failures/errors that need network-unavailable data (tests/test_Boltzmann.py 4 tests and tests/Benchmarks/SingletSM_Z2/test_EOM.py); all other 152 tests must still pass with your change.
3. Write a demonstration `{wt}/seed_out/demo.py`: a small self-contained script (it may take the source root as argv[1], default {wt}/src) that exercises the property on the real code and exits 0 if the property holds and 1 (printing what failed) if it is violated. It must FAIL (exit 1) with your change and PASS (exit 0) on the unchanged code. Verify both: run it against {wt}/src (changed) and against /repo/src (unchanged, read-only use is fine).
4. Save the change as `{wt}/seed_out/patch.diff` (`cd {wt} && git diff -- src > seed_out/patch.diff`) and write `{wt}/seed_out/meta.json` with keys: property, summary (what was changed), needs (what specific input/branch/sequence is needed for it to manifest), why_tests_pass, demo_cmd, files_touched.
5. Leave the worktree with the change applied.

Report: the diff, what it needs to manifest, and the output of the demo on changed and unchanged code, and the tail of the test-suite run.""")
