"""C18 reference driver: the real InterpolatableFunction behind the same line protocol as Driver/InterpQ.lean.
Instrumented from OUTSIDE (subclass + wrapped helpers.derivative, no source hooks) so that every returned entry reveals its
provenance (which spline version / boundary value / extrapolation / direct call produced it)."""
import sys, random, logging, warnings, subprocess, re, os
from fractions import Fraction as Fr
import numpy as np
warnings.filterwarnings("ignore")
logging.disable(logging.CRITICAL)
import WallGo.interpolatableFunction as M
from WallGo.interpolatableFunction import InterpolatableFunction, EExtrapolationType as E

REAL_DERIV = M.helpers.derivative
REG = []          # stencil value lists
DXLOG = []

def fake_derivative(f, x, n=1, order=4, bounds=None, epsilon=1e-16, scale=1.0, dx=None, args=None):
    calls = []
    def g(p, *a):
        r = f(p, *a)
        calls.append(np.array(r, dtype=float))
        return r
    res = REAL_DERIV(g, x, n=n, order=order, bounds=bounds, epsilon=epsilon, scale=scale, dx=dx, args=args)
    res = np.asarray(res)
    last = calls[-1]
    x = np.asarray(x)
    out = np.empty(res.shape)
    if n == 0:
        flat = last.reshape((1, x.size) + last.shape[x.ndim:])
    else:
        flat = last.reshape((last.shape[0], x.size) + last.shape[1 + x.ndim:])
    outf = out.reshape((x.size,) + out.shape[x.ndim:])
    for i in range(x.size):
        REG.append(flat[:, i])
        outf[i] = 5e7 + len(REG) - 1
    return outf.reshape(res.shape)

M.helpers.derivative = fake_derivative

class F(InterpolatableFunction):
    def __init__(self, adaptive, n, k):
        self.epoch = 0
        self.bad = []
        super().__init__(adaptive, n, k)
    def _functionImplementation(self, x):
        x = np.asanyarray(x, dtype=float)
        r = np.where(np.isin(x, self.bad), np.nan, 1000.0 + x)
        if self._RETURN_VALUE_COUNT > 1:
            return np.stack([r] * self._RETURN_VALUE_COUNT, axis=-1)
        return r
    def _vec(self, r):
        if self._RETURN_VALUE_COUNT > 1:
            return np.stack([r] * self._RETURN_VALUE_COUNT, axis=-1)
        return r
    def evaluateInterpolation(self, x):
        caller = sys._getframe(1).f_code.co_name
        x = np.asanyarray(x, dtype=float)
        real = np.asarray(self._interpolatedFunction(x))   # exercise the real spline (shape / nan check)
        assert np.all(np.isfinite(real)), "spline returned non-finite"
        base = 100000.0 * self.epoch
        if caller == "_evaluateOutOfBounds":
            if x.ndim == 0:
                if x == self._rangeMin: r = np.float64(base + 20000)
                else:
                    assert x == self._rangeMax
                    r = np.float64(base + 30000)
            else:
                r = base + 40000 + x
        else:
            r = base + x
        r = self._vec(np.asarray(r))
        assert r.shape == real.shape, (r.shape, real.shape)
        return r
    def _interpolate(self, x, fx):
        super()._interpolate(x, fx)
        self.epoch += 1
        e = self.epoch
        self._interpolatedDerivatives = [
            (lambda xx, e=e: self._vec(100000.0 * e + 3000 + np.asarray(xx, dtype=float))),
            (lambda xx, e=e: self._vec(100000.0 * e + 6000 + np.asarray(xx, dtype=float))),
        ]

def fr(x): return Fr(float(x))
def sr(q):
    q = Fr(q)
    return str(q.numerator) if q.denominator == 1 else f"{q.numerator}/{q.denominator}"

MODES = {"none": E.NONE, "error": E.ERROR, "constant": E.CONSTANT, "function": E.FUNCTION}
RMODES = {v: k for k, v in MODES.items()}

def decode(v, x, cur):
    v = float(v)
    if v != v:
        return f"D:{sr(fr(x))}"
    if v >= 4e7:
        return None
    e = int(round(v / 100000.0)); r = v - 100000.0 * e
    suf = "" if e == cur else f"@{e}"
    if e == 0:
        assert r == 1000.0 + x, (v, x)
        return f"D:{sr(fr(x))}"
    if 19000 < r < 21000: return "CL" + suf
    if 29000 < r < 31000: return "CH" + suf
    if r > 39000:
        assert r - 40000 == x, (v, x); return f"X:{sr(fr(x))}{suf}"
    if r > 5500:
        assert r - 6000 == x; return f"S'2:{sr(fr(x))}{suf}"
    if r > 2500:
        assert r - 3000 == x; return f"S'1:{sr(fr(x))}{suf}"
    assert r == x, (v, x)
    return f"S:{sr(fr(x))}{suf}"

class Ref:
    def __init__(self):
        self.f = F(True, 1000, 1); self.f._evaluationsUntilAdaptiveUpdate = 500
    def scal(self, res, shape):
        res = np.asarray(res, dtype=float)
        k = self.f._RETURN_VALUE_COUNT
        if k > 1:
            assert res.shape == tuple(shape) + (k,), (res.shape, shape)
            for j in range(1, k):
                assert np.array_equal(res[..., j], res[..., 0], equal_nan=True)
            res = res[..., 0]
        assert res.shape == tuple(shape), (res.shape, shape)
        return res.ravel()
    def do(self, line, shape=None):
        """returns (output string, possibly rewritten line for the lean driver)"""
        t = line.split()
        f = self.f
        try:
            if t[0] == "new":
                g = F(t[2] == "1", int(t[4]), int(t[1])); g._evaluationsUntilAdaptiveUpdate = int(t[3])
                self.f = g; return "ok"
            if t[0] == "bad":
                f.bad = [float(Fr(x)) for x in t[1:]]; return "ok"
            if t[0] == "table":
                f.newInterpolationTable(float(Fr(t[1])), float(Fr(t[2])), int(t[3])); return "ok"
            if t[0] == "tablevals":
                x = np.array([float(Fr(x)) for x in t[1:]])
                f.newInterpolationTableFromValues(x, f._functionImplementation(x)); return "ok"
            if t[0] == "modes":
                f.setExtrapolationType(MODES[t[1]], MODES[t[2]]); return "ok"
            if t[0] == "adaptive":
                (f.enableAdaptiveInterpolation if t[1] == "1" else f.disableAdaptiveInterpolation)(); return "ok"
            if t[0] == "eval":
                xs = np.array([float(Fr(x)) for x in t[2:]])
                x = xs.reshape(shape) if shape is not None else xs
                res = f.evaluate(x, t[1] == "1")
                res = self.scal(res, np.shape(x))
                return " ".join(decode(v, xv, f.epoch) for v, xv in zip(res, xs))
            if t[0] == "derivx":
                u = t[1] == "1"; order = int(t[2])
                xs = np.array([float(Fr(x)) for x in t[3::2]])
                x = xs.reshape(shape) if shape is not None else xs
                sc = getattr(self, "scale", 1.0)
                res = f.derivative(x, order, u, epsilon=1.0, scale=sc)
                res = self.scal(res, np.shape(x))
                out = []
                for v, xv in zip(res, xs):
                    d = decode(v, xv, f.epoch)
                    if d is None:
                        st = REG[int(round(v - 5e7))]
                        st = st.reshape(st.shape[0], -1)[:, 0]
                        dx = Fr(t[3 + 2 * list(xs).index(xv) + 1])
                        ps = [-2, -1, 1, 2] if order == 1 else ([0] if order == 0 else [-2, -1, 0, 1, 2])
                        out.append("FD[" + ",".join(decode(sv, float(fr(xv) + p * dx), f.epoch) for sv, p in zip(st, ps)) + "]")
                    else:
                        out.append(d)
                return " ".join(out)
            if t[0] == "extend":
                f.extendInterpolationTable(float(Fr(t[1])), float(Fr(t[2])), int(t[3]), int(t[4])); return "ok"
            if t[0] == "reread":
                import tempfile
                fn = os.path.join(tempfile.gettempdir(), f"wgverif_tab_{os.getpid()}.txt")
                f.writeInterpolationTable(fn); f.readInterpolationTable(fn); return "ok"
            if t[0] == "get":
                has = f.hasInterpolation()
                pts = ",".join(sr(fr(x)) for x in f._interpolationPoints)
                rng = f"{sr(fr(f._rangeMin))},{sr(fr(f._rangeMax))}" if has else ","
                pend = ",".join(sr(fr(x)) for x in f._directlyEvaluatedAt)
                return (f"pts={pts} range={rng} has={int(has)} modes={RMODES[f.extrapolationTypeLower]},{RMODES[f.extrapolationTypeUpper]} "
                        f"adaptive={int(f._bUseAdaptiveInterpolation)} count={f._directEvaluateCount} pending={pend} "
                        f"k={f._RETURN_VALUE_COUNT} epoch={f.epoch}")
            return "bad-op"
        except (ValueError, AssertionError, IndexError) as e:
            if isinstance(e, AssertionError) and str(e) and "Derivative error" not in str(e):
                raise
            return "error:" + type(e).__name__

    def dxs(self, xs, order, u, scale):
        """per-entry dx exactly as helpers.derivative computes it"""
        f = self.f
        direct = (not u) or (not f.hasInterpolation()) or order > 2
        n = order
        # the direct path forwards epsilon and scale like the table path (fix 4dacbfc; before it the direct path used the defaults of
        # helpers.derivative, 1e-16 ** (1 / (n + 4)), whatever was passed)
        dx0 = scale * 1.0 ** (1 / (n + 4))
        x = np.array(xs, dtype=float)
        return list((x + dx0) - x)

def gen(rng, nops):
    G = Fr(9, 8)
    def X(lo=-8, hi=8): return G * rng.randint(lo, hi)
    ops = []
    ops.append(("new %d %d %d %d" % (rng.choice([1, 1, 2, 3]), rng.random() < 0.8, rng.choice([0, 1, 2, 3, 4, 6, 9]), rng.choice([3, 4, 5, 10, 10])), None))
    for _ in range(nops):
        r = rng.random()
        if r < 0.06:
            ops.append(("bad " + " ".join(sr(X()) for _ in range(rng.randint(0, 4))), None))
        elif r < 0.16:
            a, b = X(), X()
            if rng.random() < 0.8 and a > b: a, b = b, a
            ops.append((f"table {sr(a)} {sr(b)} {rng.choice([0,1,2,3,3,5,5,9])}", None))
        elif r < 0.22:
            l = sorted({X() for _ in range(rng.randint(0, 5))})
            if rng.random() < 0.15: rng.shuffle(l)
            if rng.random() < 0.1 and l: l.append(l[0])
            ops.append(("tablevals " + " ".join(map(sr, l)), None))
        elif r < 0.34:
            ms = list(MODES)
            ops.append((f"modes {rng.choice(ms)} {rng.choice(ms)}", None))
        elif r < 0.38:
            ops.append((f"adaptive {rng.randint(0,1)}", None))
        elif r < 0.68:
            n = rng.choice([0, 1, 1, 2, 3, 4, 6])
            shape = None
            if n == 1 and rng.random() < 0.5: shape = ()
            if n in (4, 6) and rng.random() < 0.5: shape = (2, n // 2)
            ops.append((f"eval {int(rng.random()<0.85)} " + " ".join(sr(X(-10, 10)) for _ in range(n)), shape))
        elif r < 0.86:
            n = rng.choice([1, 1, 2, 3, 4])
            shape = None
            if n == 1 and rng.random() < 0.5: shape = ()
            if n == 4 and rng.random() < 0.5: shape = (2, 2)
            xs = []
            while len(xs) < n:
                x = X(-10, 10)
                if x not in xs: xs.append(x)
            ops.append(("DERIV", (int(rng.random() < 0.85), rng.choice([0, 1, 1, 2, 2, 3]), rng.choice([Fr(1, 8), Fr(9, 16), Fr(9, 8), Fr(9, 4)]), xs, shape)))
        elif r < 0.96:
            a, b = X(-12, 12), X(-12, 12)
            ops.append((f"extend {sr(a)} {sr(b)} {rng.choice([0,1,2,4])} {rng.choice([0,1,2,4])}", None))
        else:
            ops.append(("reread", None))
    return ops

NUM = re.compile(r"-?\d+(?:/\d+)?")
def same(a, b):
    if a == b: return True
    if NUM.sub("#", a) != NUM.sub("#", b): return False
    for x, y in zip(NUM.findall(a), NUM.findall(b)):
        if abs(float(Fr(x)) - float(Fr(y))) > 1e-9 * max(1, abs(float(Fr(x)))): return False
    return True

