"""
Translator validation: evaluate the generated Float copy (Lean) and the repository's own
Python fragment on the same random arguments and compare.
"""
from __future__ import annotations

import ast
import math
import sys

import numpy as np
from pathlib import Path

HERE = Path(__file__).resolve().parent
sys.path.insert(0, str(HERE))
sys.path.insert(0, str(HERE / "py2lean"))

import common as C          # noqa: E402

DEFAULT_DOM = (0.3, 2.5)
RTOL = 1e-8


def sample_args(sp, S, r):
    """Returns (flat list for Lean, values dict, funcoef dict, python positional args)."""
    flat, values, funcoef, pyargs = [], {}, {}, []
    if sp.struct:
        st = S.STRUCTS[sp.struct]
        for n, t in st.fields:
            if t == "R":
                lo, hi = st.dom.get(n, DEFAULT_DOM)
                v = r.uniform(lo, hi)
                values[n] = v
                flat.append(v)
            else:
                c = [r.uniform(0.2, 2.0) for _ in range(4)]
                funcoef[n] = c
                flat += c
    for n, t in sp.params:
        lo, hi = sp.dom.get(n, DEFAULT_DOM)
        if t == "R":
            v = r.uniform(lo, hi)
            pyargs.append(np.array([v]) if getattr(sp, "pointwise", False) else v)
            flat.append(v)
        elif t == "Bool":
            v = r.random() < 0.5
            pyargs.append(v)
            flat.append(1.0 if v else 0.0)
        elif t == "R->R":
            c = [r.uniform(0.2, 2.0) for _ in range(4)]
            flat += c
            pyargs.append(lambda x, c=c: c[0] + c[1] * x + c[2] * x * x + c[3] / (1 + x * x))
        elif t.startswith("tup") or "x" in t:
            k = int(t[3:]) if t.startswith("tup") else t.count("x") + 1
            v = [r.uniform(lo, hi) for _ in range(k)]
            pyargs.append(list(v))
            flat += v
        else:
            raise RuntimeError(t)
    return flat, values, funcoef, pyargs


def close(a: float, b: float) -> bool:
    if math.isnan(a) or math.isnan(b):
        return math.isnan(a) and math.isnan(b)
    if math.isinf(a) or math.isinf(b):
        return a == b
    return abs(a - b) <= RTOL * max(abs(a), abs(b)) + 1e-300


def validate(modules: list[str], n: int, rep: C.Report, only: set | None = None) -> list[dict]:
    """Returns list of disagreements [{spec, args, python, lean}]. Registers one obligation
    per function in `rep`."""
    C.use_repo_on_path()
    import specs as S
    import translate as T
    import pyeval as P
    import warnings
    import numpy as np
    warnings.simplefilter("ignore")
    np.seterr(all="ignore")
    jobs = []      # (spec, module, flat, pyresult|exc)
    trees = {}
    for mod in modules:
        for sp in S.MODULES[mod]["specs"]:
            if only and sp.lean not in only:
                continue
            if sp.file not in trees:
                trees[sp.file] = ast.parse((C.SRC / "WallGo" / sp.file).read_text())
            try:
                T.translate(sp, S.STRUCTS, trees[sp.file])
                f = P.make_callable(sp, trees[sp.file])
            except Exception as ex:  # noqa: BLE001
                rep.obligation(f"translate {mod}.{sp.lean}", "translation", False, f"{type(ex).__name__}: {ex}")
                continue
            cls = None
            if sp.struct:
                pm = P.load_module(sp.file)
                cls = getattr(pm, sp.path.split(".")[0])
            r = C.rng(f"validate:{mod}.{sp.lean}")
            for i in range(n):
                flat, values, funcoef, pyargs = sample_args(sp, S, r)
                mock = P.build_mock(cls, S.STRUCTS[sp.struct], sp.env, values, funcoef) if sp.struct else None
                try:
                    res = P.flatten(f(mock, *pyargs))
                except (ZeroDivisionError, OverflowError, ValueError, FloatingPointError, TypeError, IndexError) as ex:
                    res = ("exc", type(ex).__name__ + ": " + str(ex)[:80])
                jobs.append((sp, mod, flat, res))
    lines = [f"{mod}.{sp.lean} " + " ".join(str(C.f2b(x)) for x in flat) for sp, mod, flat, _ in jobs]
    outs = C.lean_run("GenF", lines) if lines else []
    bad = []
    per = {}
    for (sp, mod, flat, res), out in zip(jobs, outs):
        key = f"{mod}.{sp.lean}"
        st = per.setdefault(key, {"n": 0, "bad": 0, "exc": 0, "nonfinite": 0})
        st["n"] += 1
        if isinstance(res, tuple) and res and res[0] == "exc":
            st["exc"] += 1
            continue
        if out.strip() == "none":
            st["bad"] += 1
            bad.append({"spec": key, "args": flat, "python": res, "lean": "none"})
            continue
        lv = [C.b2f(int(t)) for t in out.split()]
        if any(not math.isfinite(x) for x in res):
            st["nonfinite"] += 1
        if len(lv) != len(res) or not all(close(a, b) for a, b in zip(res, lv)):
            st["bad"] += 1
            bad.append({"spec": key, "args": flat, "python": res, "lean": lv})
        rep.case(key=(key, tuple(round(x, 6) for x in flat[:6])) if st["n"] <= 50 else None,
                 sample={"fn": key, "args": flat[:8], "python": res, "lean": lv} if st["n"] == 1 else None)
    for key, st in per.items():
        rep.obligation(f"validate {key}", "translator-validation", st["bad"] == 0 and st["exc"] <= 0.5 * st["n"],
                       f"{st['n']} points, {st['bad']} disagreements, {st['exc']} python exceptions, "
                       f"{st['nonfinite']} non-finite")
        rep.count("validation points", st["n"])
    return bad


if __name__ == "__main__":
    rep = C.Report("TV", "quick")
    mods = sys.argv[1:] or None
    sys.path.insert(0, str(HERE / "py2lean"))
    import specs as S
    bad = validate(mods or list(S.MODULES), 50, rep)
    for o in rep.obligations:
        print(("ok  " if o["ok"] else "FAIL"), o["name"], o["detail"])
    for b in bad[:10]:
        print(b)
