"""Real EOM objects on the toy models (LTE only: no out-of-equilibrium particles)."""
from __future__ import annotations

import warnings

import numpy as np

_cache: dict = {}


def make_eom(kind="toy1", params=None, TnFrac=0.6, M=40, N=5, errTol=1e-3, maxIterations=10, pressRelErrTol=0.3679, key=None,
             includeOffEq=False, rTol=1e-6):
    """Returns dict(eom, thermo, hydro, grid, model, info)."""
    import models
    ck = key or (kind, tuple(sorted((k, str(v)) for k, v in (params or {}).items())), TnFrac, M, N, errTol, maxIterations, pressRelErrTol, rTol)
    if ck in _cache:
        return _cache[ck]
    from WallGo.grid3Scales import Grid3Scales
    from WallGo.boltzmann import BoltzmannSolver
    from WallGo.hydrodynamics import Hydrodynamics
    from WallGo.equationOfMotion import EOM
    warnings.simplefilter("ignore")
    th, model, info = models.make_thermo(kind, params, TnFrac=TnFrac, tminFrac=0.5, tmaxFrac=1.12, rTol=rTol)
    hydro = Hydrodynamics(th, 10.0, 0.01, 1e-6, 1e-10)
    Tn = th.Tnucl
    L = 5.0 / Tn
    grid = Grid3Scales(M, N, 3 * L, 3 * L, L, Tn, 0.5, 0.1, 0.0)
    bs = BoltzmannSolver(grid, "Cardinal", "Chebyshev")
    bs.updateParticleList([])
    nf = 1 if kind == "toy1" else 2
    if "wallOffsetBounds" in (params or {}):
        pass
    eom = EOM(bs, th, hydro, grid, nf, meanFreePathScale=50.0 / Tn, wallThicknessBounds=(0.1, 100.0), wallOffsetBounds=(-10.0, 10.0),
              includeOffEq=includeOffEq, forceEnergyConservation=True, forceImproveConvergence=False, errTol=errTol,
              maxIterations=maxIterations, pressRelErrTol=pressRelErrTol)
    out = dict(eom=eom, thermo=th, hydro=hydro, grid=grid, model=model, info=info)
    _cache[ck] = out
    return out


def vevs(o, Tplus, Tminus):
    th = o["thermo"]
    return th.freeEnergyLow(Tminus).fieldsAtMinimum, th.freeEnergyHigh(Tplus).fieldsAtMinimum


# ---------------------------------------------------------------- detonation scan decision logic (Model.DetonScan)

def scripted_detonation_scan(vmin, vmax, nMin, nMax, only, a, fs):
    """Runs the REAL EOM.findWallVelocityDetonation on an object whose wallPressure / solveWall / nextStepDeton are scripted stubs
    (installed from outside); all numbers dyadic so that float arithmetic is exact.  Returns the line Driver/DetonScanQ prints."""
    from fractions import Fraction
    from types import SimpleNamespace
    import math
    import WallGo.equationOfMotion as EM
    from WallGo.results import ESolutionType
    eom = EM.EOM.__new__(EM.EOM)
    eom.nbrFields = 1
    eom.thermo = SimpleNamespace(Tnucl=1.0)
    eom.hydrodynamics = SimpleNamespace(vJ=float(vmin) / 2, template=SimpleNamespace(epsilon=0.25))
    K = len(a) - 1
    probes, brackets = [], []

    def press(v):
        j = math.floor((v - vmin) / (vmax - vmin) * K)
        return float(a[min(max(j, 0), K)])

    def wallPressure(vw, wallParams, *args, **kw):
        p = press(vw)
        probes.append((vw, p))
        return (p, wallParams, None, None, None)

    def solveWall(v1, v2, wallParams, r1=None, r2=None):
        brackets.append((v1, v2))
        return SimpleNamespace(solutionType="root")
    eom.wallPressure, eom.solveWall = wallPressure, solveWall
    it = iter(fs)

    def nextStep(pos1, pos2, p1, p2, mean, std, tol, posMax, prob=0.05):
        return pos2 + float(next(it, Fraction(1, 2))) * (posMax - pos2)
    saved = EM.nextStepDeton
    EM.nextStepDeton = nextStep
    try:
        res = EM.EOM.findWallVelocityDetonation(eom, float(vmin), float(vmax), None, nMin, nMax, 0.05, 0.01, bool(only))
    finally:
        EM.nextStepDeton = saved
    if brackets:
        label = "roots"
    else:
        t = res[0].solutionType
        label = {ESolutionType.DEFLAGRATION_OR_RUNAWAY: "deflagrationOrRunaway", ESolutionType.DEFLAGRATION: "deflagration",
                 ESolutionType.RUNAWAY: "runaway"}.get(t, str(t))
        if res[0].wallVelocity is not None:
            label += "+velocity"

    def q(x):
        f = Fraction(x)
        return str(f.numerator) if f.denominator == 1 else f"{f.numerator}/{f.denominator}"
    return label + " | " + " ".join(f"{q(x)}:{q(y)}" for x, y in brackets) + " | " + " ".join(f"{q(x)}:{q(y)}" for x, y in probes)


def detonation_scan_params(r):
    from fractions import Fraction
    nMin = r.choice((3, 5, 9))
    nMax = r.choice((9, 17, 33))
    # vmax - vmin a power of two (and nMin-1, nMax-1, K too): every float operation of the real loop is then exact
    vmin = Fraction(r.randint(40, 46), 64)
    vmax = vmin + Fraction(r.choice((4, 8, 16)), 64)
    only = r.choice((0, 1))
    K = r.choice((4, 8, 16))
    style = r.choice(("random", "neg-then-pos", "pos-then-neg", "all-pos", "all-neg", "with-zeros"))
    vals = [Fraction(-2), Fraction(-1), Fraction(-1, 2), Fraction(1, 2), Fraction(1), Fraction(2)]
    if style == "random":
        a = [r.choice(vals) for _ in range(K + 1)]
    elif style == "neg-then-pos":
        k = r.randint(1, K)
        a = [-r.choice(vals[3:]) for _ in range(k)] + [r.choice(vals[3:]) for _ in range(K + 1 - k)]
    elif style == "pos-then-neg":
        k = r.randint(1, K)
        a = [r.choice(vals[3:]) for _ in range(k)] + [-r.choice(vals[3:]) for _ in range(K + 1 - k)]
    elif style == "all-pos":
        a = [r.choice(vals[3:]) for _ in range(K + 1)]
    elif style == "all-neg":
        a = [-r.choice(vals[3:]) for _ in range(K + 1)]
    else:
        a = [r.choice(vals + [Fraction(0), Fraction(0)]) for _ in range(K + 1)]
    fs = [Fraction(r.randint(0, 8), 8) for _ in range(40)]
    return style, (vmin, vmax, nMin, nMax, only, a, fs)


# ---------------------------------------------------------------- findPlasmaProfilePoint branch logic (Model.ProfilePoint)

def scripted_profile_point(Tn, Tplus, Tminus, tmin, c0, c1, c2):
    """Runs the REAL EOM.findPlasmaProfilePoint on an object whose temperatureProfileEqLHS is the scripted parabola c0 + c1 T + c2 T^2,
    with minimize_scalar returning the scripted `tmin` and root_scalar capturing its bracket (stubs installed from outside).
    Returns the line Driver/ProfilePointF prints."""
    from types import SimpleNamespace
    import WallGo.equationOfMotion as EM
    import common as C
    eom = EM.EOM.__new__(EM.EOM)
    eom.hydrodynamics = SimpleNamespace(Tnucl=Tn)
    eom.errTol = 1e-3
    eom.deltaToTmunu = lambda index, fields, vmid, deltas: (0.0, 0.0)
    eom.temperatureProfileEqLHS = lambda fields, dPhidz, T, s1, s2: c0 + c1 * T + c2 * (T * T)
    eom.plasmaVelocity = lambda fields, T, s1: -0.5
    seen = {}
    opt = EM.scipy.optimize
    saved = (opt.minimize_scalar, opt.root_scalar)

    def minimize_scalar(f, method=None, bounds=None, **kw):
        seen["bounds"] = tuple(bounds)
        return SimpleNamespace(x=tmin)

    def root_scalar(f, bracket=None, **kw):
        seen["bracket"] = tuple(bracket)
        seen["kw"] = kw
        return SimpleNamespace(root=0.5 * (bracket[0] + bracket[1]))
    opt.minimize_scalar, opt.root_scalar = minimize_scalar, root_scalar
    try:
        T, v = EM.EOM.findPlasmaProfilePoint(eom, 0, -1.0, 1.0, -0.5, None, None, None, Tplus, Tminus)
    finally:
        opt.minimize_scalar, opt.root_scalar = saved
    if "bracket" in seen:
        a, b = seen["bracket"]
        return f"root {C.f2b(float(a))} {C.f2b(float(b))}"
    if T == 0 and v == 0:
        return "nosolution"
    return f"minimum {C.f2b(float(T))}"


def profile_point_params(r):
    """(kind, (Tn, Tplus, Tminus, tmin, c0, c1, c2)): parabolas k (T-T1)(T-T2) with the scripted minimum between, outside or without roots."""
    Tn = 10 ** r.uniform(-2, 2)
    branch = r.choice(("detonation", "detonation-rounding", "deflagration", "deflagration"))
    if branch == "detonation":
        Tplus = Tn
    elif branch == "detonation-rounding":
        Tplus = Tn + r.choice((-1, 1)) * r.choice((3e-11, 9.9e-11, 1.01e-10, 5e-10))       # either side of the 1e-10 test (absolute!)
    else:
        Tplus = Tn * r.uniform(1.0001, 1.4)
    tmin = Tn * r.uniform(0.7, 1.6)
    Tminus = tmin * r.choice((r.uniform(0.3, 0.99), r.uniform(1.01, 1.5), r.uniform(0.79, 0.81)))
    shape = r.choice(("two-roots", "two-roots-far", "no-root", "touching", "never-positive", "roots-one-side"))
    k = 10 ** r.uniform(-2, 2)
    if shape == "two-roots":
        T1, T2 = tmin * r.uniform(0.5, 0.95), tmin * r.uniform(1.05, 2.5)
    elif shape == "two-roots-far":
        T1, T2 = tmin * 10 ** r.uniform(-6, -1), tmin * 10 ** r.uniform(1, 6)
    elif shape == "roots-one-side":
        T1, T2 = tmin * r.uniform(1.1, 1.3), tmin * r.uniform(1.4, 3.0)          # the scripted "minimum" is not between the roots
    elif shape == "touching":
        T1 = T2 = tmin
    else:
        T1 = T2 = None
    if shape == "no-root":
        c2, c1, c0 = k, -2 * k * tmin, k * tmin * tmin + k * r.uniform(0.0, 1.0)
    elif shape == "never-positive":
        c2, c1, c0 = 0.0, 0.0, -k
    else:
        c2, c1, c0 = k, -k * (T1 + T2), k * T1 * T2
    return f"{branch}/{shape}", (Tn, Tplus, Tminus, tmin, c0, c1, c2)


# ---------------------------------------------------------------- findPlasmaProfile loop and success flag (Model.ProfileLoop)

def scripted_profile_loop(pts):
    """Runs the REAL EOM.findPlasmaProfile on an object whose findPlasmaProfilePoint returns the scripted (T, v) pairs in order.
    Returns the line Driver/ProfileLoopF prints."""
    from types import SimpleNamespace
    import numpy as np
    import WallGo.equationOfMotion as EM
    import common as C
    eom = EM.EOM.__new__(EM.EOM)
    eom.grid = SimpleNamespace(xiValues=np.zeros(len(pts)))
    eom.successTemperatureProfile = None
    eom.findPlasmaProfilePoint = lambda index, *a, **k: pts[index]
    stubFields = SimpleNamespace(getFieldPoint=lambda i: None)
    Tprof, vprof = EM.EOM.findPlasmaProfile(eom, -1.0, 1.0, -0.5, stubFields, stubFields, None, 1.0, 1.0)
    return f"{1 if eom.successTemperatureProfile else 0} " + " ".join(f"{C.f2b(float(a))}:{C.f2b(float(b))}" for a, b in zip(Tprof, vprof))


def profile_loop_params(r):
    n = r.randint(1, 12)
    style = r.choice(("all-ok", "all-ok", "one-failure", "first-fails", "several", "negative-T"))
    pts = [(r.uniform(0.5, 2.0), -r.uniform(0.1, 0.9)) for _ in range(n)]
    if style == "one-failure":
        pts[r.randint(0, n - 1)] = (0, 0)
    elif style == "first-fails":
        pts[0] = (0, 0)
    elif style == "several":
        for _ in range(r.randint(2, 4)):
            pts[r.randint(0, n - 1)] = (0, 0)
    elif style == "negative-T":
        pts[r.randint(0, n - 1)] = (-r.uniform(0.1, 1.0), -0.3)
    return style, pts
