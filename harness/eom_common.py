"""Real EOM objects on the toy models (LTE only: no out-of-equilibrium particles)."""
from __future__ import annotations

import warnings

import numpy as np

_cache: dict = {}


def make_eom(kind="toy1", params=None, TnFrac=0.6, M=40, N=5, errTol=1e-3, maxIterations=10, pressRelErrTol=0.3679, key=None,
             includeOffEq=False, rTol=1e-6):
    """Returns dict(eom, thermo, hydro, grid, model, info)."""
    import models
    ck = key or (kind, tuple(sorted((k, str(v)) for k, v in (params or {}).items())), TnFrac, M, N, errTol, maxIterations, pressRelErrTol, rTol)
    if ck in _cache:
        return _cache[ck]
    from WallGo.grid3Scales import Grid3Scales
    from WallGo.boltzmann import BoltzmannSolver
    from WallGo.hydrodynamics import Hydrodynamics
    from WallGo.equationOfMotion import EOM
    warnings.simplefilter("ignore")
    th, model, info = models.make_thermo(kind, params, TnFrac=TnFrac, tminFrac=0.5, tmaxFrac=1.12, rTol=rTol)
    hydro = Hydrodynamics(th, 10.0, 0.01, 1e-6, 1e-10)
    Tn = th.Tnucl
    L = 5.0 / Tn
    grid = Grid3Scales(M, N, 3 * L, 3 * L, L, Tn, 0.5, 0.1, 0.0)
    bs = BoltzmannSolver(grid, "Cardinal", "Chebyshev")
    bs.updateParticleList([])
    nf = 1 if kind == "toy1" else 2
    if "wallOffsetBounds" in (params or {}):
        pass
    eom = EOM(bs, th, hydro, grid, nf, meanFreePathScale=50.0 / Tn, wallThicknessBounds=(0.1, 100.0), wallOffsetBounds=(-10.0, 10.0),
              includeOffEq=includeOffEq, forceEnergyConservation=True, forceImproveConvergence=False, errTol=errTol,
              maxIterations=maxIterations, pressRelErrTol=pressRelErrTol)
    out = dict(eom=eom, thermo=th, hydro=hydro, grid=grid, model=model, info=info)
    _cache[ck] = out
    return out


def vevs(o, Tplus, Tminus):
    th = o["thermo"]
    return th.freeEnergyLow(Tminus).fieldsAtMinimum, th.freeEnergyHigh(Tplus).fieldsAtMinimum
