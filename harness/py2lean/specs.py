"""
Table of anchored WallGo fragments that are regenerated into Lean on every run.
"""
from translate import Spec, StructSpec

R = "R"
FN = "R->R"

STRUCTS = {}
MODULES = {}      # module -> {'imports': [...], 'structs': [...], 'specs': [...]}


def module(name, imports=(), structs=()):
    MODULES[name] = {"imports": list(imports), "structs": list(structs), "specs": []}
    for s in structs:
        STRUCTS[s.name] = s


def add(spec: Spec):
    import translate
    translate.GEN_RET[spec.lean] = spec.ret
    MODULES[spec.module]["specs"].append(spec)
    return spec


# ----------------------------------------------------------------------- Helpers
module("Helpers")
add(Spec("gammaSq", "Helpers", "helpers.py", "gammaSq", [("v", R)]))
add(Spec("boostVelocity", "Helpers", "helpers.py", "boostVelocity", [("xi", R), ("v", R)]))

HELPERS_ENV = {"gammaSq(_)": ("gen", "gammaSq"), "boostVelocity(_,_)": ("gen", "boostVelocity")}

# ------------------------------------------------------------------------ Thermo
thermoFields = []
for ph in ("HighT", "LowT"):
    for end in ("Min", "Max"):
        thermoFields.append((f"T{end}{ph}", R))
        for q in ("mu", "a", "epsilon"):
            thermoFields.append((f"{q}{end}{ph}", R))
thermoFields += [("FHigh", FN), ("dFHigh", FN), ("ddFHigh", FN), ("FLow", FN), ("dFLow", FN), ("ddFLow", FN)]
module("Thermo", structs=[StructSpec("ThermoP", thermoFields)])

THERMO_ENV = {}
for n, t in thermoFields:
    if t == R:
        THERMO_ENV[f"self.{n}"] = ("field", n)
for ph, obj in (("High", "freeEnergyHigh"), ("Low", "freeEnergyLow")):
    THERMO_ENV[f"self.{obj}(_).veffValue"] = ("fun", f"F{ph}")
    THERMO_ENV[f"self.{obj}.derivative(_,order=1).veffValue"] = ("fun", f"dF{ph}")
    THERMO_ENV[f"self.{obj}.derivative(_,order=2).veffValue"] = ("fun", f"ddF{ph}")
THERMO_METHODS = []
for ph in ("HighT", "LowT"):
    for q in ("p", "dp", "ddp", "e", "de", "w", "csq"):
        THERMO_METHODS.append(q + ph)
for m in THERMO_METHODS:
    THERMO_ENV[f"self.{m}(_)"] = ("genself", m)

# order matters: definitions must precede their uses
for ph in ("HighT", "LowT"):
    for q in ("p", "dp", "ddp", "e", "de", "w", "csq"):
        add(Spec(q + ph, "Thermo", "thermodynamics.py", f"Thermodynamics.{q}{ph}",
                 [("temperature", R)], struct="ThermoP", env=THERMO_ENV))
add(Spec("alpha", "Thermo", "thermodynamics.py", "Thermodynamics.alpha", [("T", R)],
         struct="ThermoP", env=THERMO_ENV))
for ph in ("HighT", "LowT"):
    for end in ("Min", "Max"):
        for q in ("mu", "a", "epsilon"):
            nm = f"{q}{end}{ph}"
            add(Spec(nm + "_set", "Thermo", "thermodynamics.py", "Thermodynamics.setExtrapolate", [],
                     struct="ThermoP", env=THERMO_ENV, first=f"self.{nm}", last=f"self.{nm}",
                     outputs=[f"self_{nm}"],
                     doc=f"value assigned to `self.{nm}` by `setExtrapolate`"))

# -------------------------------------------------------------------------- Grid
module("Grid", structs=[StructSpec("GridP", [("positionFalloff", R), ("momentumFalloffT", R)])])
CDOM = {"zCompact": (-0.98, 0.98), "pzCompact": (-0.98, 0.98), "ppCompact": (-0.98, 0.98)}
GRID_ENV = {"self.positionFalloff": ("field", "positionFalloff"),
            "self.momentumFalloffT": ("field", "momentumFalloffT")}
for m in ("compactify", "decompactify", "compactificationDerivatives"):
    args = ["z", "pz", "pp"] if m == "compactify" else ["zCompact", "pzCompact", "ppCompact"]
    add(Spec(m, "Grid", "grid.py", f"Grid.{m}", [(a, R) for a in args], ret="RxRxR",
             struct="GridP", env=GRID_ENV, dom=CDOM))

# ------------------------------------------------------------------------- Grid3
g3Fields = [("tailLengthInside", R), ("tailLengthOutside", R), ("wallThickness", R),
            ("ratioPointsWall", R), ("smoothing", R), ("wallCenter", R), ("aIn", R), ("aOut", R),
            ("momentumFalloffT", R)]
G3DOM = {"tailLengthInside": (30.0, 300.0), "tailLengthOutside": (30.0, 300.0), "wallThickness": (0.1, 2.0),
         "ratioPointsWall": (0.1, 0.9), "smoothing": (0.05, 0.9), "wallCenter": (-3.0, 3.0), "aIn": (0.01, 0.5), "aOut": (0.01, 0.5)}
module("Grid3", structs=[StructSpec("Grid3P", g3Fields, dom=G3DOM)])
G3_ENV = {f"self.{n}": ("field", n) for n, _ in g3Fields}
for m in ("decompactify", "compactificationDerivatives"):
    add(Spec(m, "Grid3", "grid3Scales.py", f"Grid3Scales.{m}",
             [(a, R) for a in ("zCompact", "pzCompact", "ppCompact")], ret="RxRxR",
             struct="Grid3P", env=G3_ENV, dom=CDOM))
for a in ("aIn", "aOut"):
    add(Spec(a + "_set", "Grid3", "grid3Scales.py", "Grid3Scales._updateParameters",
             [(p, R) for p in ("tailLengthInside", "tailLengthOutside", "wallThickness",
                               "ratioPointsWall", "smoothing", "wallCenter")],
             first=f"self.{a}", last=f"self.{a}", outputs=[f"self_{a}"], dom=G3DOM,
             doc=f"value assigned to `self.{a}` by `_updateParameters`"))

# ------------------------------------------------------------------------- Hydro
EOS = ["pHighT", "pLowT", "eHighT", "eLowT", "wHighT", "wLowT", "dpLowT", "deLowT", "csqHighT", "csqLowT"]
hydroFields = [("Tnucl", R), ("TMaxHydro", R), ("TMinHydro", R)] + [(f, FN) for f in EOS]
module("Hydro", imports=["Helpers"],
       structs=[StructSpec("HydroP", hydroFields, dom={"Tnucl": (0.8, 1.2), "TMaxHydro": (8.0, 12.0), "TMinHydro": (0.01, 0.1)})])
HYDRO_ENV = dict(HELPERS_ENV)
for n in ("Tnucl", "TMaxHydro", "TMinHydro"):
    HYDRO_ENV[f"self.{n}"] = ("field", n)
for f in EOS:
    HYDRO_ENV[f"self.thermodynamics.{f}(_)"] = ("fun", f)
HYDRO_ENV["self.vpvmAndvpovm(_,_)"] = ("genself", "vpvmAndvpovm")
HYDRO_ENV["self._inverseMappingT(_)"] = ("genself", "inverseMappingT")
HYDRO_ENV["self._mappingT(_)"] = ("genself", "mappingT")

H = lambda *a, **k: add(Spec(*a, module="Hydro", file="hydrodynamics.py", struct="HydroP", env=HYDRO_ENV, **k))  # noqa: E731
H("vpvmAndvpovm", path="Hydrodynamics.vpvmAndvpovm", params=[("Tp", R), ("Tm", R)], ret="RxR")
H("mappingT", path="Hydrodynamics._mappingT", params=[("TpTm", "tup2")], ret="RxR", dom={"TpTm": (0.5, 5.0)})
H("inverseMappingT", path="Hydrodynamics._inverseMappingT", params=[("mappedTpTm", "tup2")], ret="RxR",
  dom={"mappedTpTm": (-3.0, 3.0)})
H("tmFromvpsq", path="Hydrodynamics.matchDeton.tmFromvpsq",
  params=[("vp", R), ("pHighT", R), ("eHighT", R), ("tm", R)], dom={"vp": (0.05, 0.95)},
  doc="residual solved for T- in the detonation matching (closure variables made explicit)")
H("matchDetonPost", path="Hydrodynamics.matchDeton", params=[("vp", R), ("Tp", R), ("Tm", R)], ret="RxRxRxR",
  first="vpvm", last="vm", outputs=["vp", "vm", "Tp", "Tm"], dom={"vp": (0.05, 0.95)},
  doc="what matchDeton returns once the root Tm is known")
H("matchingLTE", path="Hydrodynamics.matchDeflagOrHyb.matching",
  params=[("mappedTpTm", "tup2"), ("vw", R), ("Tpm0", "tup2")], ret="RxR", assume={"vp": "None"},
  dom={"vw": (0.05, 0.95), "mappedTpTm": (-3.0, 3.0)},
  doc="2x2 residual of matchDeflagOrHyb with vp=None (entropy conservation fixes v+)")
H("matchingVp", path="Hydrodynamics.matchDeflagOrHyb.matching",
  params=[("mappedTpTm", "tup2"), ("vw", R), ("vp", R), ("Tpm0", "tup2")], ret="RxR", assume={"vp": "NotNone"},
  dom={"vw": (0.05, 0.95), "vp": (0.05, 0.95), "mappedTpTm": (-3.0, 3.0)},
  doc="2x2 residual of matchDeflagOrHyb with v+ prescribed")
H("deflagPostLTE", path="Hydrodynamics.matchDeflagOrHyb", params=[("vw", R), ("Tp", R), ("Tm", R)], ret="RxRxRxR",
  first="vmsq", last="vp", outputs=["vp", "vm", "Tp", "Tm"], assume={"vp": "None"}, dom={"vw": (0.05, 0.95)},
  doc="post-processing of matchDeflagOrHyb (vp=None) once (Tp,Tm) is known")
H("deflagPostVp", path="Hydrodynamics.matchDeflagOrHyb", params=[("vw", R), ("vp", R), ("Tp", R), ("Tm", R)],
  ret="RxRxRxR", first="vmsq", last="vm", outputs=["vp", "vm", "Tp", "Tm"], assume={"vp": "NotNone"},
  dom={"vw": (0.05, 0.95), "vp": (0.05, 0.95)},
  doc="post-processing of matchDeflagOrHyb (vp given) once (Tp,Tm) is known")
H("shockDE", path="Hydrodynamics.shockDE", params=[("v", R), ("xiAndT", "tup2"), ("shockWave", "Bool")], ret="RxR",
  dom={"v": (0.05, 0.9), "xiAndT": (0.2, 0.9)})
H("shockEvent", path="Hydrodynamics.solveHydroShock.shock", params=[("v", R), ("xiAndT", "tup2")],
  dom={"v": (0.05, 0.9), "xiAndT": (0.2, 0.9)})
H("TiiShock", path="Hydrodynamics.solveHydroShock.TiiShock",
  params=[("xiShock", R), ("vmShock", R), ("TmShock", R), ("tn", R)], dom={"xiShock": (0.3, 0.9), "vmShock": (0.01, 0.25)})
H("vpDerivNum", path="Hydrodynamics.findJouguetVelocity.vpDerivNum", params=[("pHighT", R), ("eHighT", R), ("tm", R)])
H("jouguetVp", path="Hydrodynamics.findJouguetVelocity", params=[("pHighT", R), ("eHighT", R), ("tmSol", R)],
  first="vp", last="vp", outputs=["vp"])
H("hydroBoundaries", path="Hydrodynamics.findHydroBoundaries", params=[("vp", R), ("vm", R), ("Tp", R), ("Tm", R)],
  ret="RxRxRxRxR", first="wHighT", last="velocityMid", outputs=["c1", "c2", "Tp", "Tm", "velocityMid"],
  dom={"vp": (0.05, 0.95), "vm": (0.05, 0.95)})

# ---------------------------------------------------------------------- Template
tmplFields = [(n, R) for n in ("cb2", "cs2", "alN", "psiN", "cb", "cs", "wN", "pN", "Tnucl", "nu", "mu", "vJ", "vMin", "epsilon")]
module("Template", imports=["Helpers"],
       structs=[StructSpec("TemplP", tmplFields, dom={"cb2": (0.2, 0.34), "cs2": (0.2, 0.34), "alN": (0.005, 0.3),
                                                     "psiN": (0.5, 1.0), "cb": (0.45, 0.58), "cs": (0.45, 0.58),
                                                     "nu": (3.9, 6.0), "mu": (3.9, 6.0), "Tnucl": (0.5, 2.0)})])
TMPL_ENV = dict(HELPERS_ENV)
for n, _ in tmplFields:
    TMPL_ENV[f"self.{n}"] = ("field", n)
TMPL_ENV["self.getVp(_,_,_)"] = ("genself", "getVp")
TMPL_ENV["self.wFromAlpha(_)"] = ("genself", "wFromAlpha")
TMPL_ENV["self._findTm(_,_,_)"] = ("genself", "findTm")
TMPL_ENV["self.findJouguetVelocity(_)"] = ("genself", "findJouguetVelocity")
TP = lambda *a, **k: add(Spec(*a, module="Template", file="hydrodynamicsTemplateModel.py", struct="TemplP", env=TMPL_ENV, **k))  # noqa: E731
VDOM = {"vm": (0.05, 0.95), "vp": (0.05, 0.95), "vw": (0.05, 0.95), "al": (0.005, 0.3), "alN": (0.005, 0.3), "v": (0.05, 0.9)}
TP("findJouguetVelocity", path="HydrodynamicsTemplateModel.findJouguetVelocity", params=[("alN", R)],
   assume={"alN": "NotNone"}, dom=VDOM)
TP("getVp", path="HydrodynamicsTemplateModel.getVp", params=[("vm", R), ("al", R), ("branch", R)], dom={**VDOM, "branch": (-1.0, 1.0)})
TP("wFromAlpha", path="HydrodynamicsTemplateModel.wFromAlpha", params=[("al", R)], dom=VDOM)
TP("findTm", path="HydrodynamicsTemplateModel._findTm", params=[("vm", R), ("vp", R), ("Tp", R)], dom=VDOM)
TP("eqWall", path="HydrodynamicsTemplateModel._eqWall", params=[("al", R), ("vm", R), ("branch", R)], dom={**VDOM, "branch": (-1.0, 1.0)})
TP("dxiAndWdv", path="HydrodynamicsTemplateModel._dxiAndWdv", params=[("v", R), ("xiAndW", "tup2"), ("shockWave", "Bool")],
   ret="RxR", dom={**VDOM, "xiAndW": (0.2, 0.9)})
TP("detonationVAndT", path="HydrodynamicsTemplateModel.detonationVAndT", params=[("vw", R)], ret="RxRxRxR", dom=VDOM)
TP("tmplBoundaries", path="HydrodynamicsTemplateModel.findHydroBoundaries",
   params=[("vp", R), ("vm", R), ("Tp", R), ("Tm", R)], ret="RxRxRxRxR", first="wHighT", last="velocityMid",
   outputs=["c1", "c2", "Tp", "Tm", "velocityMid"], dom=VDOM)
TP("shootAlpha", path="HydrodynamicsTemplateModel._shooting", params=[("vw", R), ("vp", R)], ret="RxRxR",
   first="vm", last="wp", outputs=["vm", "al", "wp"], dom=VDOM)
TP("maxAlMatching", path="HydrodynamicsTemplateModel.maxAl.matching", params=[("vm", R), ("alN", R)], dom=VDOM)
TP("deflagTpTm", path="HydrodynamicsTemplateModel.findMatching", params=[("vm", R), ("vp", R)], ret="RxRxRxR",
   first="alp", last="Tm", outputs=["vp", "vm", "Tp", "Tm"], dom=VDOM)
TP("alMinBracket", path="HydrodynamicsTemplateModel.solveAlpha", params=[("vw", R), ("constraint", "Bool")], first="vm", last="alMin",
   outputs=["alMin"], dom=VDOM)
TINIT_ENV = {"self.cb2": ("var", "cb2"), "self.cs2": ("var", "cs2"), "self.wN": ("var", "wN"), "self.mu": ("var", "mu"),
             "self.nu": ("var", "nu"), "self.alN": ("var", "alN")}
TI = lambda *a, **k: add(Spec(*a, module="Template", file="hydrodynamicsTemplateModel.py", env=TINIT_ENV,  # noqa: E731
                              path="HydrodynamicsTemplateModel.__init__", **k))
TI("alN_set", params=[("eHighT", R), ("eLowT", R), ("pHighT", R), ("pLowT", R), ("wHighT", R), ("cb2", R)],
   first="self.alN", last="self.alN", outputs=["self_alN"], dom={"cb2": (0.2, 0.34)})
TI("psiN_set", params=[("wLowT", R), ("wHighT", R)], first="self.psiN", last="self.psiN", outputs=["self_psiN"])
TI("nu_set", params=[("cb2", R)], first="self.nu", last="self.nu", outputs=["self_nu"], dom={"cb2": (0.2, 0.34)})
TI("mu_set", params=[("cs2", R)], first="self.mu", last="self.mu", outputs=["self_mu"], dom={"cs2": (0.2, 0.34)})
TI("epsilon_set", params=[("wN", R), ("mu", R), ("nu", R), ("alN", R)], first="self.epsilon", last="self.epsilon",
   outputs=["self_epsilon"], dom={"mu": (3.9, 6.0), "nu": (3.9, 6.0)})

# ------------------------------------------------------------------------- Boltz
module("Boltz")
BOLTZ_ENV = {"BoltzmannSolver.MAX_EXPONENT": ("const", "709.782712893384"),
             "BoltzmannSolver._dfeq(_,_)": ("gen", "dfeq"), "BoltzmannSolver._feq(_,_)": ("gen", "feq"),
             "self.grid.getCompactificationDerivatives()": ("tuplevars", ["dxidchiIn", "dpzdrzIn", "dppdrpIn"])}
BZ = lambda *a, **k: add(Spec(*a, module="Boltz", file="boltzmann.py", env=BOLTZ_ENV, pointwise=True, **k))  # noqa: E731
BDOM = {"x": (-3.0, 30.0), "statistics": (-1.0, 1.0), "msq": (0.0, 2.0), "pz": (-3.0, 3.0), "pp": (0.05, 4.0), "energy": (0.5, 4.0),
        "v": (-0.8, 0.3), "velocityWall": (0.1, 0.8), "temperature": (0.5, 2.0)}
BZ("feq", path="BoltzmannSolver._feq", params=[("x", R), ("statistics", R)], dom=BDOM)
BZ("dfeq", path="BoltzmannSolver._dfeq", params=[("x", R), ("statistics", R)], dom=BDOM)
BZ("deltaIntegrand", path="BoltzmannSolver.getDeltas",
   params=[("msq", R), ("pz", R), ("pp", R), ("dxidchiIn", R), ("dpzdrzIn", R), ("dppdrpIn", R)], ret="RxR",
   first="energy", last="integrand", outputs=["energy", "integrand"], dom=BDOM,
   doc="common factor of the four moment integrands: dpz/drz * dpp/drp * pp / (4 pi^2 E)")
for nm in ("Delta00", "Delta02", "Delta20", "Delta11"):
    BZ("weight" + nm, path="BoltzmannSolver.getDeltas", params=[("pz", R), ("energy", R), ("integrand", R)],
       arg_of=(nm, 1), dom=BDOM, doc=f"integration weight handed to integrate() for {nm}")
BZ("sourceTerm", path="BoltzmannSolver.buildLinearEquations",
   params=[("velocityWall", R), ("pz", R), ("energy", R), ("v", R), ("temperature", R), ("dvdChi", R), ("dTemperaturedChi", R),
           ("dMsqdChi", R), ("statistics", R), ("dxidchiIn", R), ("dpzdrzIn", R), ("dppdrpIn", R)],
   ret="RxRxRxRxR", first="gammaWall", last="source#0", outputs=["source", "momentumWall", "gammaWall", "dchidxi", "drzdpz"], dom=BDOM,
   doc="pointwise source term of the linearised Boltzmann equation and the factors entering the Liouville operator")

# --------------------------------------------------------------------- Integrals
module("Integrals")
INT_ENV = {"cls.SMALL_NUMBER": ("const", "1e-100")}
IDOM_POS = {"x": (0.0, 30.0), "y": (0.01, 6.0)}
IDOM_NEG = {"x": (-20.0, -6.0), "y": (0.01, 2.3)}
for cls_, tag in (("JbIntegral", "Jb"), ("JfIntegral", "Jf")):
    add(Spec(f"{tag}PositiveReal", "Integrals", "PotentialTools/integrals.py", f"{cls_}._integrandPositiveReal",
             [("x", R), ("y", R)], env=INT_ENV, dom=IDOM_POS))
    add(Spec(f"{tag}NegativeReal", "Integrals", "PotentialTools/integrals.py", f"{cls_}._integrandNegativeReal",
             [("x", R), ("y", R)], env=INT_ENV, dom=IDOM_NEG))
    add(Spec(f"{tag}NegativeImaginary", "Integrals", "PotentialTools/integrals.py", f"{cls_}._integrandNegativeImaginary",
             [("x", R), ("y", R)], env=INT_ENV, dom=IDOM_NEG))
