"""
Constant tables of WallGo -> Lean `Rat` literals (core Lean only, no Mathlib).
"""
from __future__ import annotations

import ast
from fractions import Fraction
from pathlib import Path

TABLES = ["FIRST_DERIV_COEFF", "SECOND_DERIV_COEFF", "FIRST_DERIV_POS", "SECOND_DERIV_POS",
          "HESSIAN_POS", "HESSIAN_COEFF"]


class TableError(Exception):
    pass


def lit(node) -> Fraction:
    if isinstance(node, ast.Constant) and isinstance(node.value, (int, float)) and not isinstance(node.value, bool):
        return Fraction(repr(node.value)) if isinstance(node.value, float) else Fraction(node.value)
    if isinstance(node, ast.UnaryOp) and isinstance(node.op, ast.USub):
        return -lit(node.operand)
    raise TableError(f"non-literal table entry {ast.unparse(node)}")


def nested(node):
    if isinstance(node, (ast.List, ast.Tuple)):
        return [nested(e) for e in node.elts]
    return lit(node)


def scale(x, f: Fraction):
    if isinstance(x, list):
        return [scale(y, f) for y in x]
    return x * f


def array_value(node):
    """np.array(<nested list>, dtype=float) [/ k]"""
    if isinstance(node, ast.BinOp) and isinstance(node.op, ast.Div):
        return scale(array_value(node.left), 1 / lit(node.right))
    if isinstance(node, ast.BinOp) and isinstance(node.op, ast.Mult):
        return scale(array_value(node.left), lit(node.right))
    if isinstance(node, ast.Call) and ast.unparse(node.func) in ("np.array", "np.asarray"):
        for kw in node.keywords:
            if kw.arg != "dtype":
                raise TableError("unexpected keyword in np.array")
        return nested(node.args[0])
    raise TableError(f"unsupported table expression {ast.unparse(node)[:60]}")


def rat(fr: Fraction) -> str:
    if fr.denominator == 1:
        return f"({fr.numerator} : Rat)" if fr.numerator < 0 else f"{fr.numerator}"
    return f"(({fr.numerator} : Rat) / {fr.denominator})"


def lean_list(x) -> str:
    if isinstance(x, list):
        return "[" + ", ".join(lean_list(y) for y in x) + "]"
    return rat(x)


def generate(src: Path) -> dict:
    tree = ast.parse((src / "helpers.py").read_text())
    found = {}
    for st in tree.body:
        if isinstance(st, ast.Assign) and len(st.targets) == 1 and isinstance(st.targets[0], ast.Name) \
                and st.targets[0].id in TABLES:
            name = st.targets[0].id
            if not isinstance(st.value, ast.Dict):
                raise TableError(f"{name} is not a dict literal")
            for k, v in zip(st.value.keys, st.value.values):
                if not (isinstance(k, ast.Constant) and k.value in ("2", "4")):
                    raise TableError(f"{name}: unexpected key")
                found[(name, k.value)] = (array_value(v), st.lineno)
    out = ["/- GENERATED from src/WallGo/helpers.py (stencil tables). Do not edit. -/", "",
           "namespace Gen.Q.Tables", ""]
    for name in TABLES:
        for order in ("2", "4"):
            if (name, order) not in found:
                raise TableError(f"missing table {name}[{order!r}]")
            val, line = found[(name, order)]
            depth2 = isinstance(val[0], list)
            t = "List (List Rat)" if depth2 else "List Rat"
            out.append(f"/-- helpers.py `{name}[\"{order}\"]` -/")
            out.append(f"def {name}_{order} : {t} := {lean_list(val)}")
            out.append("")
    out.append("end Gen.Q.Tables\n")
    res = {"Tables": "\n".join(out)}
    res.update(jtables(src))
    return res


CHUNK = 100


def jtables(src: Path) -> dict:
    """Abscissae of the shipped thermal-integral tables, in overlapping chunks of CHUNK+1 entries
    (chunk i = rows i*CHUNK .. (i+1)*CHUNK inclusive), so that `decide +kernel` can check each chunk and a
    generic lemma lifts the chunk facts to the whole table.  Values are parsed too: a non-finite or
    non-numeric entry is a generation failure."""
    out = ["/- GENERATED from src/WallGo/PotentialTools/Data/InterpolationTable_J{b,f}.txt. Do not edit. -/", "",
           "namespace Gen.Q.JTables", ""]
    for tag in ("Jb", "Jf"):
        path = src / "PotentialTools" / "Data" / f"InterpolationTable_{tag}.txt"
        xs = []
        for ln, line in enumerate(path.read_text().splitlines(), 1):
            if not line.strip():
                continue
            cols = line.split()
            if len(cols) != 3:
                raise TableError(f"{path.name}:{ln}: expected 3 columns")
            try:
                vals = [Fraction(c) for c in cols]       # rejects nan/inf/garbage
            except (ValueError, ZeroDivisionError) as ex:
                raise TableError(f"{path.name}:{ln}: non-finite or non-numeric entry ({ex})") from ex
            xs.append(vals[0])
        n = len(xs)
        nch = (n - 1 + CHUNK - 1) // CHUNK
        names = []
        for i in range(nch):
            ch = xs[i * CHUNK: min((i + 1) * CHUNK, n - 1) + 1]
            names.append(f"{tag}X_{i}")
            out.append(f"def {tag}X_{i} : List Rat := {lean_list(ch)}")
        out.append(f"/-- rows of InterpolationTable_{tag}.txt -/")
        out.append(f"def {tag}Rows : Nat := {n}")
        out.append(f"def {tag}Chunks : List (List Rat) := [{', '.join(names)}]")
        out.append("")
    out.append("end Gen.Q.JTables\n")
    return {"JTables": "\n".join(out)}
