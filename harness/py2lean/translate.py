"""
py2lean -- translate anchored fragments of WallGo's Python source into Lean 4.

One IR, two textual copies:
  R : noncomputable, over Mathlib's real numbers  (what the theorems are about)
  F : executable, over Float                      (used to validate this translator)

The accepted Python fragment is deliberately small (see DESIGN.md 2.1).  Anything
outside it raises TranslationError: a translation failure is a *broken obligation*,
never silently skipped.
"""
from __future__ import annotations

import ast
import hashlib
from dataclasses import dataclass, field
from fractions import Fraction
from typing import Any


class TranslationError(Exception):
    pass


# --------------------------------------------------------------------------- IR

@dataclass
class Num:
    text: str          # literal as written in the Python source
    frac: Fraction     # exact decimal value of the literal


@dataclass
class Var:
    name: str


@dataclass
class Bin:
    op: str            # + - * /
    a: Any
    b: Any


@dataclass
class Neg:
    a: Any


@dataclass
class PowN:
    a: Any
    n: int


@dataclass
class Prim:
    name: str          # sqrt exp log tanh cosh sinh tan arctan sin cos abs pmin pmax
    args: list         # rartanh artanh rpow sign pi


@dataclass
class CallG:
    name: str          # generated (translated) function, qualified inside Gen namespace
    args: list


@dataclass
class App:
    fn: Any            # function-valued variable / field
    args: list


@dataclass
class Field:
    struct: str        # variable holding the structure
    name: str


@dataclass
class IfE:
    c: Any
    a: Any
    b: Any


@dataclass
class Tup:
    items: list


@dataclass
class Proj:
    a: Any
    i: int
    n: int             # arity of the tuple


@dataclass
class Let:
    pat: Any           # str or list[str]
    val: Any
    body: Any


@dataclass
class Lam:
    params: list
    body: Any


@dataclass
class Cmp:
    op: str            # < <= > >= == !=
    a: Any
    b: Any


@dataclass
class BoolOp:
    op: str            # and or
    items: list


@dataclass
class Not:
    a: Any


@dataclass
class BoolLit:
    v: bool


# ------------------------------------------------------------------ specification

@dataclass
class StructSpec:
    name: str
    fields: list       # [(name, type)]  type in {'R','R->R','R->R->R'}
    dom: dict = field(default_factory=dict)   # field -> (lo, hi) sampling range for validation


@dataclass
class Spec:
    lean: str                      # Lean name of the generated definition
    module: str                    # Gen module (file) it goes to
    file: str                      # path below src/WallGo
    path: str                      # dotted path: Class.method[.nested]
    params: list                   # [(pyname, type)]; 'self' handled via `struct`
    ret: str = "R"                 # 'R', 'RxR', 'RxRxR', ...
    struct: str | None = None      # structure type that stands for `self`
    env: dict = field(default_factory=dict)   # access-path key -> ('field',n)|('fun',n)|('gen',n)|('genself',n)
    first: str | None = None       # slice: first statement = first assignment to this name
    last: str | None = None        # slice: last statement  = last assignment to this name
    outputs: list | None = None    # slice: variables returned (tuple)
    assume: dict = field(default_factory=dict)  # var -> 'None' | 'NotNone'
    pointwise: bool = False        # drop numpy broadcast subscripts made only of None/':'
    drop_raise: bool = True        # `if c: raise ...` is dropped (guard recorded)
    tuple_vars: dict = field(default_factory=dict)   # var -> arity, for list/tuple valued params
    doc: str = ""
    guards: list = field(default_factory=list)       # filled in: source text of dropped raise-guards
    nested_as_call: bool = True    # for a nested def: definition = the nested function itself
    dom: dict = field(default_factory=dict)   # param -> (lo, hi) sampling range for validation
    arg_of: tuple | None = None    # (target, k): the definition is the k-th positional argument of the call assigned to target


PRIMS1 = {
    "np.sqrt": "sqrt", "np.exp": "exp", "np.log": "log", "np.tanh": "tanh",
    "np.cosh": "cosh", "np.sinh": "sinh", "np.tan": "tan", "np.arctan": "arctan",
    "np.sin": "sin", "np.cos": "cos", "np.abs": "abs", "abs": "abs",
    "np.arctanh": "artanh", "np.sign": "sign", "math.sqrt": "sqrt",
}
IDENT = {"float", "np.array", "np.asarray", "np.real", "np.squeeze"}


def dotted(node) -> str | None:
    if isinstance(node, ast.Name):
        return node.id
    if isinstance(node, ast.Attribute):
        b = dotted(node.value)
        return None if b is None else b + "." + node.attr
    return None


def access_key(node):
    """Render an attribute/call chain as a key such as
    `self.freeEnergyHigh.derivative(_,order=1).veffValue` and collect positional args."""
    if isinstance(node, ast.Name):
        return node.id, []
    if isinstance(node, ast.Attribute):
        k, a = access_key(node.value)
        if k is None:
            return None, []
        return k + "." + node.attr, a
    if isinstance(node, ast.Call):
        k, a = access_key(node.func)
        if k is None:
            return None, []
        parts = ["_"] * len(node.args)
        for kw in node.keywords:
            if not isinstance(kw.value, ast.Constant):
                return None, []
            parts.append(f"{kw.arg}={kw.value.value!r}")
        return k + "(" + ",".join(parts) + ")", a + list(node.args)
    return None, []


def find_def(tree: ast.AST, path: str) -> ast.AST:
    node = tree
    for part in path.split("."):
        found = None
        for ch in ast.walk(node) if isinstance(node, ast.Module) else ast.iter_child_nodes(node):
            if isinstance(ch, (ast.FunctionDef, ast.ClassDef)) and ch.name == part:
                found = ch
                break
        if found is None:
            # nested defs may sit inside if/try blocks of the parent
            for ch in ast.walk(node):
                if ch is not node and isinstance(ch, (ast.FunctionDef, ast.ClassDef)) and ch.name == part:
                    found = ch
                    break
        if found is None:
            raise TranslationError(f"cannot find {part!r} of {path!r}")
        node = found
    return node


def assigned_names(stmt) -> set:
    out = set()
    if isinstance(stmt, ast.Assign):
        for t in stmt.targets:
            if isinstance(t, ast.Attribute) and dotted(t) and dotted(t).startswith("self."):
                out.add(dotted(t))
                continue
            for n in ast.walk(t):
                if isinstance(n, ast.Name):
                    out.add(n.id)
    elif isinstance(stmt, (ast.AugAssign, ast.AnnAssign)):
        for n in ast.walk(stmt.target):
            if isinstance(n, ast.Name):
                out.add(n.id)
    elif isinstance(stmt, ast.If):
        for b in stmt.body + stmt.orelse:
            out |= assigned_names(b)
    return out


def slice_body(body: list, first: str | None, last: str | None) -> list:
    if first is None and last is None:
        return body
    def sel(name):
        if "#" in name:
            n, k = name.split("#")
            return n, int(k)
        return name, None
    i0 = 0
    if first is not None:
        fn, fk = sel(first)
        idx = [i for i, s in enumerate(body) if fn in assigned_names(s)]
        if not idx or (fk is not None and fk >= len(idx)):
            raise TranslationError(f"slice start: no assignment to {first!r}")
        i0 = idx[fk or 0]
    i1 = len(body) - 1
    if last is not None:
        ln, lk = sel(last)
        idx = [i for i, s in enumerate(body) if ln in assigned_names(s)]
        if lk is not None:
            if lk >= len(idx):
                raise TranslationError(f"slice end: no assignment to {last!r}")
            i1 = idx[lk]
        else:
            idx = [i for i in idx if i >= i0]
            if not idx:
                raise TranslationError(f"slice end: no assignment to {last!r}")
            i1 = idx[-1]
    if i1 < i0:
        raise TranslationError("slice end before start")
    return body[i0:i1 + 1]


def normalised_digest(nodes) -> str:
    if not isinstance(nodes, list):
        nodes = [nodes]
    txt = "\n".join(ast.dump(n, annotate_fields=False, include_attributes=False) for n in nodes)
    return hashlib.sha256(txt.encode()).hexdigest()[:16]


# ------------------------------------------------------------------- translation

class Translator:
    def __init__(self, spec: Spec, structs: dict):
        self.spec = spec
        self.structs = structs
        self.locals: dict[str, str] = {}     # name -> kind: 'R' | 'tupN' | 'fun'
        self.self_assigned: dict[str, str] = {}
        for n, t in spec.params:
            self.locals[n] = t
        for n, k in spec.tuple_vars.items():
            self.locals[n] = f"tup{k}"

    # ---- expressions
    def num(self, node: ast.Constant):
        v = node.value
        if isinstance(v, bool):
            return BoolLit(v)
        if isinstance(v, int):
            return Num(str(v), Fraction(v))
        if isinstance(v, float):
            src = repr(v)
            return Num(src, Fraction(src))
        raise TranslationError(f"unsupported constant {v!r}")

    def expr(self, node) -> Any:
        sp = self.spec
        if isinstance(node, ast.Constant):
            return self.num(node)
        if isinstance(node, ast.Name):
            if node.id in self.locals:
                return Var(node.id)
            if node.id in sp.env:
                return self.env_ref(node.id, [])
            raise TranslationError(f"unknown name {node.id!r} in {sp.path}")
        if isinstance(node, ast.UnaryOp):
            if isinstance(node.op, ast.USub):
                return Neg(self.expr(node.operand))
            if isinstance(node.op, ast.UAdd):
                return self.expr(node.operand)
            if isinstance(node.op, ast.Not):
                return Not(self.cond(node.operand))
            raise TranslationError("unary op")
        if isinstance(node, ast.BinOp):
            if isinstance(node.op, ast.Pow):
                return self.power(node.left, node.right)
            ops = {ast.Add: "+", ast.Sub: "-", ast.Mult: "*", ast.Div: "/"}
            for k, v in ops.items():
                if isinstance(node.op, k):
                    # `x + 0j` is how the code forces complex arctanh; handled by the caller
                    return Bin(v, self.expr(node.left), self.expr(node.right))
            raise TranslationError(f"binary op {ast.dump(node.op)}")
        if isinstance(node, ast.IfExp):
            return IfE(self.cond(node.test), self.expr(node.body), self.expr(node.orelse))
        if isinstance(node, (ast.Tuple, ast.List)):
            return Tup([self.expr(e) for e in node.elts])
        if isinstance(node, ast.Subscript):
            return self.subscript(node)
        if isinstance(node, ast.Lambda):
            params = [a.arg for a in node.args.args]
            saved = dict(self.locals)
            for p in params:
                self.locals[p] = "R"
            body = self.expr(node.body)
            self.locals = saved
            return Lam(params, body)
        if isinstance(node, ast.Attribute):
            # np.arctanh(E + 0j).real
            if node.attr == "real" and isinstance(node.value, ast.Call) and dotted(node.value.func) == "np.arctanh":
                arg = node.value.args[0]
                if (isinstance(arg, ast.BinOp) and isinstance(arg.op, ast.Add)
                        and isinstance(arg.right, ast.Constant) and isinstance(arg.right.value, complex)
                        and arg.right.value == 0j):
                    return Prim("rartanh", [self.expr(arg.left)])
                raise TranslationError("np.arctanh(...).real without the `+ 0j` idiom")
            d = dotted(node)
            if d == "np.pi":
                return Prim("pi", [])
            key, args = access_key(node)
            if key in self.self_assigned:
                return Var(self.self_assigned[key])
            if key in sp.env:
                return self.env_ref(key, args)
            raise TranslationError(f"unmapped attribute access {key!r} in {sp.path}")
        if isinstance(node, ast.Call):
            return self.call(node)
        if isinstance(node, ast.Compare) or isinstance(node, ast.BoolOp):
            return self.cond(node)
        raise TranslationError(f"unsupported expression {type(node).__name__} in {sp.path}")

    def power(self, base, expo):
        if isinstance(expo, ast.Constant) and isinstance(expo.value, int) and expo.value >= 0:
            return PowN(self.expr(base), expo.value)
        if isinstance(expo, ast.Constant) and expo.value == 0.5:
            return Prim("sqrt", [self.expr(base)])
        if isinstance(expo, ast.Constant) and isinstance(expo.value, float) and expo.value == int(expo.value) and expo.value >= 0:
            return PowN(self.expr(base), int(expo.value))
        return Prim("rpow", [self.expr(base), self.expr(expo)])

    def subscript(self, node: ast.Subscript):
        sl = node.slice
        # pointwise mode: x[None, :, None] -> x
        if self.spec.pointwise:
            items = sl.elts if isinstance(sl, ast.Tuple) else [sl]
            if all((isinstance(i, ast.Constant) and i.value is None) or
                   (isinstance(i, ast.Slice) and i.lower is None and i.upper is None and i.step is None) or
                   (isinstance(i, ast.Constant) and i.value is Ellipsis)
                   for i in items):
                return self.expr(node.value)
        if isinstance(sl, ast.Constant) and isinstance(sl.value, int) and isinstance(node.value, ast.Name):
            kind = self.locals.get(node.value.id, "")
            if kind.startswith("tup"):
                n = int(kind[3:])
                i = sl.value if sl.value >= 0 else n + sl.value
                return Proj(Var(node.value.id), i, n)
        raise TranslationError(f"unsupported subscript in {self.spec.path}: {ast.unparse(node)}")

    def env_ref(self, key, args):
        kind, name = self.spec.env[key]
        targs = [self.expr(a) for a in args]
        if kind == "field":
            if args:
                raise TranslationError(f"field {key} used with arguments")
            return Field("s", name)
        if kind == "fun":          # function-valued structure field
            return App(Field("s", name), targs)
        if kind == "funvar":       # function-valued parameter
            return App(Var(name), targs)
        if kind == "var":          # plain renaming to a parameter
            return Var(name)
        if kind == "gen":          # other generated function, no self
            return CallG(name, targs)
        if kind == "genself":      # other generated method on the same structure
            return CallG(name, [Var("s")] + targs)
        if kind == "const":
            return Num(name, Fraction(name))
        if kind == "tuplevars":    # call returning a tuple of (renamed) parameters
            return Tup([Var(n) for n in name])
        raise TranslationError(f"bad env kind {kind}")

    def call(self, node: ast.Call):
        d = dotted(node.func)
        sp = self.spec
        key, args = access_key(node)
        if key in sp.env:
            return self.env_ref(key, args)
        if d in IDENT and len(node.args) == 1 and not node.keywords:
            return self.expr(node.args[0])
        if d in PRIMS1 and len(node.args) == 1:
            return Prim(PRIMS1[d], [self.expr(node.args[0])])
        if d in ("min", "max") and len(node.args) >= 2 and not node.keywords:
            out = self.expr(node.args[0])
            for a in node.args[1:]:
                out = Prim("pmin" if d == "min" else "pmax", [out, self.expr(a)])
            return out
        if d == "pow" and len(node.args) == 2:
            return self.power(node.args[0], node.args[1])
        if d == "np.where" and len(node.args) == 3 and not node.keywords:
            return IfE(self.cond(node.args[0]), self.expr(node.args[1]), self.expr(node.args[2]))
        if d is not None and d in self.locals and self.locals[d].startswith("fun"):
            return App(Var(d), [self.expr(a) for a in node.args])
        raise TranslationError(f"unmapped call {key or ast.unparse(node.func)!r} in {sp.path}")

    def cond(self, node):
        if isinstance(node, ast.BoolOp):
            op = "and" if isinstance(node.op, ast.And) else "or"
            return BoolOp(op, [self.cond(v) for v in node.values])
        if isinstance(node, ast.UnaryOp) and isinstance(node.op, ast.Not):
            return Not(self.cond(node.operand))
        if isinstance(node, ast.Constant) and isinstance(node.value, bool):
            return BoolLit(node.value)
        if isinstance(node, ast.Compare):
            # `x is None` / `x is not None` are decided from the spec's assumptions
            if len(node.ops) == 1 and isinstance(node.ops[0], (ast.Is, ast.IsNot)):
                if isinstance(node.comparators[0], ast.Constant) and node.comparators[0].value is None \
                        and isinstance(node.left, ast.Name) and node.left.id in self.spec.assume:
                    isnone = self.spec.assume[node.left.id] == "None"
                    return BoolLit(isnone if isinstance(node.ops[0], ast.Is) else not isnone)
                raise TranslationError(f"`is` test without assumption: {ast.unparse(node)}")
            ops = {ast.Lt: "<", ast.LtE: "<=", ast.Gt: ">", ast.GtE: ">=", ast.Eq: "==", ast.NotEq: "!="}
            items = []
            left = node.left
            for op, right in zip(node.ops, node.comparators):
                o = None
                for k, v in ops.items():
                    if isinstance(op, k):
                        o = v
                if o is None:
                    raise TranslationError("comparison op")
                items.append(Cmp(o, self.expr(left), self.expr(right)))
                left = right
            return items[0] if len(items) == 1 else BoolOp("and", items)
        if isinstance(node, ast.Name) and self.locals.get(node.id) == "Bool":
            return Var(node.id)
        raise TranslationError(f"unsupported condition {ast.unparse(node)} in {self.spec.path}")

    # ---- statements (continuation style: `rest` is the IR of what follows)
    def block(self, stmts: list, k):
        """Translate stmts; k() builds the IR of the continuation (called lazily so that
        it sees the variable bindings made by stmts)."""
        if not stmts:
            return k()
        s, rest = stmts[0], stmts[1:]
        sp = self.spec
        if isinstance(s, ast.Expr) and isinstance(s.value, ast.Constant):
            return self.block(rest, k)           # docstring
        if isinstance(s, ast.Assert):
            sp.guards.append("assert " + ast.unparse(s.test))
            return self.block(rest, k)
        if isinstance(s, ast.Return):
            if s.value is None:
                raise TranslationError("bare return")
            return self.expr(s.value)
        if isinstance(s, ast.AnnAssign):
            if s.value is None:
                return self.block(rest, k)
            s = ast.Assign(targets=[s.target], value=s.value)
        if isinstance(s, ast.Assign):
            if len(s.targets) != 1:
                raise TranslationError("chained assignment")
            t = s.targets[0]
            val = self.expr(s.value)
            if isinstance(t, ast.Name):
                self.locals[t.id] = self.kind_of(val)
                return Let(t.id, val, self.block(rest, k))
            if isinstance(t, ast.Attribute) and dotted(t) and dotted(t).startswith("self."):
                nm = dotted(t).replace(".", "_")
                self.locals[nm] = self.kind_of(val)
                self.self_assigned[dotted(t)] = nm
                return Let(nm, val, self.block(rest, k))
            if isinstance(t, (ast.Tuple, ast.List)) and all(isinstance(e, ast.Name) for e in t.elts):
                names = [e.id for e in t.elts]
                for n in names:
                    self.locals[n] = "R"
                return Let(names, val, self.block(rest, k))
            raise TranslationError(f"unsupported assignment target {ast.unparse(t)}")
        if isinstance(s, ast.AugAssign):
            if not isinstance(s.target, ast.Name):
                raise TranslationError("augassign target")
            ops = {ast.Add: "+", ast.Sub: "-", ast.Mult: "*", ast.Div: "/"}
            o = None
            for kk, v in ops.items():
                if isinstance(s.op, kk):
                    o = v
            if o is None:
                raise TranslationError("augassign op")
            val = Bin(o, Var(s.target.id), self.expr(s.value))
            return Let(s.target.id, val, self.block(rest, k))
        if isinstance(s, ast.FunctionDef):
            params = [a.arg for a in s.args.args]
            saved = dict(self.locals)
            for p in params:
                self.locals[p] = "R"
            body = self.block(s.body, lambda: (_ for _ in ()).throw(TranslationError("nested def falls off")))
            self.locals = saved
            self.locals[s.name] = "fun"
            return Let(s.name, Lam(params, body), self.block(rest, k))
        if isinstance(s, ast.If):
            # `if c: raise` -> guard
            if len(s.body) == 1 and isinstance(s.body[0], ast.Raise) and not s.orelse:
                if sp.drop_raise:
                    sp.guards.append("not (" + ast.unparse(s.test) + ")")
                    return self.block(rest, k)
                raise TranslationError("raise")
            c = self.cond(s.test)
            if isinstance(c, BoolLit):
                return self.block((s.body if c.v else s.orelse) + rest, k)
            body_returns = self.always_returns(s.body)
            else_returns = self.always_returns(s.orelse) if s.orelse else False
            if body_returns:
                saved = dict(self.locals)
                a = self.block(s.body, k)
                self.locals = dict(saved)
                b = self.block(s.orelse + rest, k)
                return IfE(c, a, b)
            if (not body_returns) and (not else_returns):
                # both branches only (re)bind variables: merge them through a tuple
                ab, ao = self.assigned_in(s.body), self.assigned_in(s.orelse)
                mod = sorted(ab | ao)
                for m in mod:
                    if m not in self.locals and not (m in ab and m in ao):
                        raise TranslationError(f"variable {m!r} bound only inside one branch")
                if not mod:
                    return self.block(rest, k)
                saved = dict(self.locals)
                tupv = (lambda: Tup([Var(m) for m in mod]) if len(mod) > 1 else Var(mod[0]))
                a = self.block(s.body, tupv)
                self.locals = dict(saved)
                b = self.block(s.orelse, tupv)
                self.locals = dict(saved)
                for m in mod:
                    self.locals[m] = "R"
                pat = mod if len(mod) > 1 else mod[0]
                return Let(pat, IfE(c, a, b), self.block(rest, k))
            if (not body_returns) and else_returns:
                saved = dict(self.locals)
                b = self.block(s.orelse, k)
                self.locals = dict(saved)
                a = self.block(s.body + rest, k)
                return IfE(c, a, b)
            raise TranslationError("if-shape")
        if isinstance(s, ast.Pass):
            return self.block(rest, k)
        if isinstance(s, ast.Expr) and isinstance(s.value, ast.Call) and (dotted(s.value.func) or "").split(".")[0] in ("warnings", "logging", "print"):
            return self.block(rest, k)
        if isinstance(s, ast.Try) and not s.finalbody and not s.orelse and s.handlers and all(
                isinstance(h.type, ast.Name) and h.type.id == "OverflowError" for h in s.handlers):
            # floating-point overflow is a runtime behaviour the real-number model cannot exhibit
            sp.guards.append("no OverflowError in: " + ast.unparse(s.body[0])[:60])
            return self.block(list(s.body) + rest, k)
        raise TranslationError(f"unsupported statement {type(s).__name__} in {sp.path}: {ast.unparse(s)[:80]}")

    def kind_of(self, val) -> str:
        if isinstance(val, Tup):
            return f"tup{len(val.items)}"
        if isinstance(val, Lam):
            return "fun"
        if isinstance(val, CallG):
            r = GEN_RET.get(val.name, "R")
            if "x" in r:
                return f"tup{r.count('x') + 1}"
        return "R"

    @staticmethod
    def always_returns(stmts) -> bool:
        for s in stmts:
            if isinstance(s, (ast.Return, ast.Raise)):
                return True
            if isinstance(s, ast.If) and s.orelse and Translator.always_returns(s.body) \
                    and Translator.always_returns(s.orelse):
                return True
        return False

    @staticmethod
    def assigned_in(stmts) -> set:
        out = set()
        for s in stmts:
            out |= assigned_names(s)
        return out


GEN_RET: dict[str, str] = {}


def translate(spec: Spec, structs: dict, tree: ast.Module):
    """Returns (IR, digest, (lineno, end_lineno), fragment statements)."""
    spec.guards = []
    node = find_def(tree, spec.path)
    tr = Translator(spec, structs)
    own = [a.arg for a in node.args.args if a.arg not in ("self", "cls")]
    declared = [n for n, _ in spec.params]
    for p in own:
        if p not in declared and p not in spec.assume and (spec.first is None) and spec.arg_of is None:
            raise TranslationError(f"{spec.path}: python parameter {p!r} is not declared in the spec")
    if spec.arg_of is not None:
        tgt, kk = spec.arg_of
        cand = [st for st in node.body if tgt in assigned_names(st)]
        if not cand or not isinstance(cand[0], ast.Assign) or not isinstance(cand[0].value, ast.Call) \
                or len(cand[0].value.args) <= kk:
            raise TranslationError(f"{spec.path}: no call argument {kk} in the assignment of {tgt!r}")
        argnode = cand[0].value.args[kk]
        ir = tr.expr(argnode)
        return ir, normalised_digest(argnode), (cand[0].lineno, cand[0].end_lineno), [ast.Return(value=argnode)], node
    stmts = slice_body(node.body, spec.first, spec.last)
    if spec.outputs is not None:
        outs = spec.outputs

        def k():
            return Tup([Var(o) for o in outs]) if len(outs) > 1 else Var(outs[0])
    else:
        def k():
            raise TranslationError(f"{spec.path}: control reaches the end without a return")
    ir = tr.block(stmts, k)
    digest = normalised_digest(stmts if (spec.first or spec.last) else node)
    span = (stmts[0].lineno, stmts[-1].end_lineno) if (spec.first or spec.last) else (node.lineno, node.end_lineno)
    return ir, digest, span, stmts, node


# ----------------------------------------------------------------------- emission

TYPES = {
    "R": {"R": "ℝ", "F": "Float"},
}


def ty(t: str, tgt: str) -> str:
    base = "ℝ" if tgt == "R" else "Float"
    if t == "R":
        return base
    if t == "Bool":
        return "Bool"
    if t == "R->R":
        return f"{base} → {base}"
    if t == "R->R->R":
        return f"{base} → {base} → {base}"
    if "x" in t:
        n = t.count("x") + 1
        return " × ".join([base] * n)
    if t.startswith("tup"):
        return " × ".join([base] * int(t[3:]))
    raise TranslationError(f"type {t}")


class Emitter:
    def __init__(self, tgt: str):
        self.tgt = tgt

    def num(self, n: Num) -> str:
        if self.tgt == "F":
            t = n.text
            if "." not in t and "e" not in t and "E" not in t:
                t += ".0"
            if t.startswith("-"):
                return f"({t})"
            return t
        f = n.frac
        if f.denominator == 1:
            return f"({f.numerator} : ℝ)" if f.numerator >= 0 else f"(-{-f.numerator} : ℝ)"
        s = f"({abs(f.numerator)} / {f.denominator} : ℝ)"
        return s if f.numerator >= 0 else f"(-{s})"

    def e(self, x) -> str:
        R = self.tgt == "R"
        if isinstance(x, Num):
            return self.num(x)
        if isinstance(x, BoolLit):
            return "true" if x.v else "false"
        if isinstance(x, Var):
            return san(x.name)
        if isinstance(x, Field):
            return f"{x.struct}.{san(x.name)}"
        if isinstance(x, Bin):
            return f"({self.e(x.a)} {x.op} {self.e(x.b)})"
        if isinstance(x, Neg):
            return f"(-{self.e(x.a)})"
        if isinstance(x, PowN):
            if R:
                return f"({self.e(x.a)} ^ {x.n})"
            return f"(WG.F.npow {self.e(x.a)} {x.n})"
        if isinstance(x, Prim):
            a = [self.e(y) for y in x.args]
            if R:
                table = {"sqrt": "Real.sqrt", "exp": "Real.exp", "log": "Real.log", "tanh": "Real.tanh",
                         "cosh": "Real.cosh", "sinh": "Real.sinh", "tan": "Real.tan", "arctan": "Real.arctan",
                         "sin": "Real.sin", "cos": "Real.cos", "rartanh": "WG.R.rartanh", "artanh": "WG.R.artanh",
                         "rpow": "WG.R.rpow", "pmin": "WG.R.pmin", "pmax": "WG.R.pmax", "sign": "WG.R.sign"}
                if x.name == "pi":
                    return "Real.pi"
                if x.name == "abs":
                    return f"|{a[0]}|"
                return "(" + table[x.name] + " " + " ".join(a) + ")"
            table = {"sqrt": "Float.sqrt", "exp": "Float.exp", "log": "Float.log", "tanh": "Float.tanh",
                     "cosh": "Float.cosh", "sinh": "Float.sinh", "tan": "Float.tan", "arctan": "Float.atan",
                     "sin": "Float.sin", "cos": "Float.cos", "rartanh": "WG.F.rartanh", "artanh": "WG.F.artanh",
                     "rpow": "WG.F.rpow", "pmin": "WG.F.pmin", "pmax": "WG.F.pmax", "sign": "WG.F.sign",
                     "abs": "Float.abs"}
            if x.name == "pi":
                return "WG.F.pi"
            return "(" + table[x.name] + " " + " ".join(a) + ")"
        if isinstance(x, CallG):
            return "(" + x.name + " " + " ".join(self.e(y) for y in x.args) + ")"
        if isinstance(x, App):
            return "(" + self.e(x.fn) + " " + " ".join(self.e(y) for y in x.args) + ")"
        if isinstance(x, IfE):
            return f"(if {self.c(x.c)} then {self.e(x.a)} else {self.e(x.b)})"
        if isinstance(x, Tup):
            return "(" + ", ".join(self.e(y) for y in x.items) + ")"
        if isinstance(x, Proj):
            # right-nested pairs
            s = self.e(x.a)
            for _ in range(x.i):
                s = f"{s}.2"
            if x.i < x.n - 1:
                s = f"{s}.1"
            return s
        if isinstance(x, Let):
            if isinstance(x.pat, list):
                # destructure right-nested pairs explicitly (keeps `simp`/`unfold` friendly)
                tmp = "t_" + "_".join(san(p) for p in x.pat)
                out = f"let {tmp} := {self.e(x.val)}; "
                n = len(x.pat)
                for i, p in enumerate(x.pat):
                    out += f"let {san(p)} := {self.e(Proj(Var(tmp), i, n))}; "
                return "(" + out + self.e(x.body) + ")"
            return f"(let {san(x.pat)} := {self.e(x.val)}; {self.e(x.body)})"
        if isinstance(x, Lam):
            base = "ℝ" if R else "Float"
            ps = " ".join(f"({san(p)} : {base})" for p in x.params)
            return f"(fun {ps} => {self.e(x.body)})"
        if isinstance(x, (Cmp, BoolOp, Not)):
            return self.c(x)
        raise TranslationError(f"emit {type(x).__name__}")

    def c(self, x) -> str:
        R = self.tgt == "R"
        if isinstance(x, BoolLit):
            return "True" if x.v else "False"
        if isinstance(x, Var):
            return f"{san(x.name)} = true"
        if isinstance(x, Cmp):
            op = {"<": "<", "<=": "≤", ">": ">", ">=": "≥"}.get(x.op)
            if op:
                return f"({self.e(x.a)} {op} {self.e(x.b)})"
            if x.op == "==":
                return f"({self.e(x.a)} = {self.e(x.b)})" if R else f"(({self.e(x.a)} == {self.e(x.b)}) = true)"
            return f"({self.e(x.a)} ≠ {self.e(x.b)})" if R else f"(({self.e(x.a)} != {self.e(x.b)}) = true)"
        if isinstance(x, BoolOp):
            j = " ∧ " if x.op == "and" else " ∨ "
            return "(" + j.join(self.c(i) for i in x.items) + ")"
        if isinstance(x, Not):
            return f"(¬ {self.c(x.a)})"
        raise TranslationError(f"emit cond {type(x).__name__}")


LEAN_KW = {"fun", "let", "in", "if", "then", "else", "at", "end", "from", "have", "show", "do", "open",
           "local", "where", "with", "match", "by", "deriving", "structure", "class", "instance", "def",
           "theorem", "namespace", "section", "variable", "universe", "Type", "Prop", "Sort", "return"}


def san(name: str) -> str:
    if name in LEAN_KW:
        return name + "'"
    return name


def emit_def(spec: Spec, ir, tgt: str, digest: str, span) -> str:
    em = Emitter(tgt)
    ps = []
    if spec.struct:
        ps.append(f"(s : {spec.struct})")
    for n, t in spec.params:
        ps.append(f"({san(n)} : {ty(t, tgt)})")
    head = "noncomputable def" if tgt == "R" else "def"
    doc = (f"/-- GENERATED from src/WallGo/{spec.file}  `{spec.path}`"
           f"  ast={digest}" + (f"\n{spec.doc}" if spec.doc else "") +
           ("\nguards dropped: " + "; ".join(spec.guards) if spec.guards else "") + " -/")
    return f"{doc}\n{head} {spec.lean} {' '.join(ps)} : {ty(spec.ret, tgt)} :=\n  {em.e(ir)}\n"


def emit_struct(st: StructSpec, tgt: str) -> str:
    lines = [f"structure {st.name} where"]
    for n, t in st.fields:
        lines.append(f"  {san(n)} : {ty(t, tgt)}")
    return "\n".join(lines) + "\n"
