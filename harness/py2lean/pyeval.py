"""
Evaluate the *real* Python fragment that a Spec points at, on a mock `self`.

The fragment's AST is taken from the working tree ($WALLGO_REPO); methods and plain
functions are called as they are, nested functions and statement slices are wrapped in a
synthetic function and executed with the defining module's globals, so what runs is the
repository's own source text.
"""
from __future__ import annotations

import ast
import importlib
import math
import sys
from pathlib import Path
from types import SimpleNamespace

HERE = Path(__file__).resolve().parent
sys.path.insert(0, str(HERE))
import translate as T      # noqa: E402


def fam(c, x):
    return c[0] + c[1] * x + c[2] * x * x + c[3] / (1 + x * x)


class PathNode:
    """Mock for access chains such as self.freeEnergyHigh.derivative(T, order=1).veffValue."""

    def __init__(self):
        self._attrs = {}
        self._calls = {}
        self._leaf = None
        self._args = ()

    def _bound(self, args):
        if self._leaf is not None and not self._attrs and not self._calls:
            return self._leaf(*args)
        n = PathNode()
        n._attrs, n._calls, n._leaf, n._args = self._attrs, self._calls, self._leaf, args
        return n

    def __getattr__(self, name):
        if name.startswith("_"):
            raise AttributeError(name)
        if name not in self._attrs:
            raise AttributeError(f"mock has no attribute path .{name}")
        return self._attrs[name]._bound(self._args)

    def __call__(self, *a, **kw):
        sig = "(" + ",".join(["_"] * len(a) + [f"{k}={v!r}" for k, v in kw.items()]) + ")"
        if sig not in self._calls:
            raise AttributeError(f"mock has no call path {sig}")
        return self._calls[sig]._bound(self._args + tuple(a))


TOKEN = None


def tokens(key: str):
    """'self.a.b(_,order=1).c' -> ['a','b','(_,order=1)','c'] (after the leading 'self')"""
    out = []
    i = 0
    s = key
    assert s.startswith("self")
    s = s[4:]
    while i < len(s):
        if s[i] == ".":
            j = i + 1
            while j < len(s) and s[j] not in ".(":
                j += 1
            out.append(s[i + 1:j])
            i = j
        elif s[i] == "(":
            j = s.index(")", i)
            out.append(s[i:j + 1])
            i = j + 1
        else:
            raise ValueError(key)
    return out


def build_mock(cls, struct, env, values, funcoef):
    """values: field -> float ; funcoef: field -> 4 coefficients"""
    Mock = type("Mock" + cls.__name__, (cls,), {})
    m = object.__new__(Mock)
    roots = {}
    for key, (kind, name) in env.items():
        if not key.startswith("self"):
            continue
        toks = tokens(key)
        if kind == "field":
            if len(toks) == 1:
                setattr(m, toks[0], values[name])
            else:
                node = roots.setdefault(toks[0], PathNode())
                for t in toks[1:]:
                    node = (node._calls if t.startswith("(") else node._attrs).setdefault(t, PathNode())
                v = values[name]
                node._leaf = (lambda v=v: v)
        elif kind == "fun":
            node = roots.setdefault(toks[0], PathNode())
            for t in toks[1:]:
                node = (node._calls if t.startswith("(") else node._attrs).setdefault(t, PathNode())
            c = funcoef[name]
            node._leaf = (lambda *a, c=c: fam(c, *a))
        # 'genself' / 'gen' : the real method / function is used
    for k, node in roots.items():
        setattr(m, k, node)
    return m


def load_module(file: str):
    name = "WallGo." + file[:-3].replace("/", ".")
    return importlib.import_module(name)


def make_callable(spec: T.Spec, tree: ast.Module):
    """Returns f(selfmock, *args) running the repository's own code for this spec."""
    mod = load_module(spec.file)
    parts = spec.path.split(".")
    node = T.find_def(tree, spec.path)
    is_slice = bool(spec.first or spec.last) or spec.arg_of is not None
    # plain function or method: call the real object
    if not is_slice:
        obj = mod
        ok = True
        for p in parts:
            if hasattr(obj, p):
                obj = getattr(obj, p)
            else:
                ok = False
                break
        if ok and callable(obj):
            if spec.struct:
                return lambda s, *a: obj(s, *a)
            return lambda s, *a: obj(*a)
    needs_self = bool(spec.struct) or is_slice
    argnames = (["self"] if needs_self else []) + [n for n, _ in spec.params]
    if spec.arg_of is not None:
        tgt, kk = spec.arg_of
        cand = [st for st in node.body if tgt in T.assigned_names(st)]
        body = [ast.Return(value=cand[0].value.args[kk])]
    elif is_slice:
        stmts = T.slice_body(node.body, spec.first, spec.last)
        outs = []
        for o in spec.outputs:
            if o.startswith("self_"):
                outs.append(ast.Attribute(value=ast.Name(id="self", ctx=ast.Load()), attr=o[5:], ctx=ast.Load()))
            else:
                outs.append(ast.Name(id=o, ctx=ast.Load()))
        ret = ast.Return(value=outs[0] if len(outs) == 1 else ast.Tuple(elts=outs, ctx=ast.Load()))
        body = list(stmts) + [ret]
    else:
        own = [a.arg for a in node.args.args]
        call = ast.Call(func=ast.Name(id=node.name, ctx=ast.Load()),
                        args=[ast.Name(id=a, ctx=ast.Load()) for a in own], keywords=[])
        body = [node, ast.Return(value=call)]
    pre = [ast.Assign(targets=[ast.Name(id=v, ctx=ast.Store())], value=ast.Constant(value=None))
           for v, a in spec.assume.items() if a == "None" and v not in argnames]
    body = pre + body
    fn = ast.FunctionDef(name="__frag", args=ast.arguments(posonlyargs=[], args=[ast.arg(arg=a) for a in argnames],
                                                           kwonlyargs=[], kw_defaults=[], defaults=[]),
                         body=body, decorator_list=[], returns=None, type_params=[])
    m = ast.Module(body=[fn], type_ignores=[])
    ast.fix_missing_locations(m)
    g = dict(mod.__dict__)
    exec(compile(m, f"<fragment {spec.path}>", "exec"), g)   # noqa: S102
    frag = g["__frag"]
    if spec.struct:
        return lambda s, *a: frag(s, *a)
    if needs_self:
        names = [n for n, _ in spec.params]
        varmap = {k[5:]: v[1] for k, v in spec.env.items() if k.startswith("self.") and v[0] == "var" and "(" not in k}

        tv = {k: v[1] for k, v in spec.env.items() if k.startswith("self.") and v[0] == "tuplevars"}

        def call(s, *a):
            ns = SimpleNamespace(**{attr: a[names.index(pn)] for attr, pn in varmap.items() if pn in names})
            for key, pnames in tv.items():
                toks = tokens(key)
                root = getattr(ns, toks[0], None)
                if not isinstance(root, PathNode):
                    root = PathNode()
                    setattr(ns, toks[0], root)
                nd = root
                for t in toks[1:]:
                    nd = (nd._calls if t.startswith("(") else nd._attrs).setdefault(t, PathNode())
                vals = tuple(a[names.index(pn)] if pn in names else 0.0 for pn in pnames)
                nd._leaf = (lambda *x, vals=vals: vals)
            return frag(ns, *a)
        return call
    return lambda s, *a: frag(*a)


def flatten(x):
    import numpy as np
    if isinstance(x, (tuple, list)):
        out = []
        for y in x:
            out += flatten(y)
        return out
    if x is None:
        return [math.nan]
    a = np.asarray(x)
    if a.ndim == 0:
        v = a.item()
        if isinstance(v, complex):
            v = v.real
        return [float(v)]
    return [float(v) for v in a.ravel()]
