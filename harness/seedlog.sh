#!/bin/bash
# usage: harness/seedlog.sh <seeded dir name> [tier]  -- like one campaign job, but prints the check's log (private Lean copy and output dir)
cd "$(dirname "$0")/.."
n=$1; P=${n%%-*}; TIER=${2:-quick}
W=$(mktemp -d /tmp/wgcamp_XXXX); mkdir -p $W/out
rsync -a --exclude .git /repo/src "$W"/
(cd "$W" && patch -p1 -s < /verif/seeded/$n/patch.diff) || exit 3
rsync -a lean/ $W/lean/
WALLGO_REPO="$W" VERIF_LEAN=$W/lean VERIF_OUT=$W/out ./check "$P" --tier "$TIER" 2>&1 | cut -c1-400 | grep -v "^$" | tail -${LINES_OUT:-12}
[ -n "$KEEP" ] && cp -r $W/out /tmp/seedlog_out_$n
rm -rf $W
