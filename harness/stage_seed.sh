#!/bin/bash
# usage: harness/stage_seed.sh <Cxx> <short-name> <seed_out dir> <batch label>  -- copies a sub-agent's seed into seeded/<Cxx>-<short-name>/
cd "$(dirname "$0")/.."
d=seeded/$1-$2; mkdir -p $d; cp $3/patch.diff $3/demo.py $d/
/venv/bin/python - "$3/meta.json" "$d/meta.json" "$4" <<'PY'
import json,sys
m=json.load(open(sys.argv[1])); m["origin"]="independent sub-agent given only the property text, a scratch worktree and the summary of an earlier seed to avoid ("+sys.argv[3]+")"
json.dump(m,open(sys.argv[2],'w'),indent=1)
PY
echo $d
