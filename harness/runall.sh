#!/bin/bash
# usage: harness/runall.sh [tier] [jobs]   -- every claimed check on the tree selected by WALLGO_REPO (default /repo); summary on stdout
cd "$(dirname "$0")/.."
export TIER=${1:-quick}; J=${2:-4}
export LOGD=$(mktemp -d /tmp/runall_XXXX)
run() { p=$1; ./check $p --tier $TIER > $LOGD/$p.log 2>&1; echo "$p exit=$? $(grep -c '^VIOLATION' $LOGD/$p.log) violation(s) $(grep -c '^KNOWN-FINDING' $LOGD/$p.log) known | $(tail -1 $LOGD/$p.log | cut -c1-110)"; }
export -f run
./setup.sh > $LOGD/setup.log 2>&1 || { echo "setup failed"; tail -5 $LOGD/setup.log; exit 2; }
for i in $(seq -w 1 20); do echo C$i; done | xargs -P $J -I{} bash -c "run {}" | sort
grep -h "^VIOLATION" $LOGD/*.log
rm -rf $LOGD
