"""
Shared plumbing: paths, seeded PRNG, lake runner, Lean line-protocol driver, evidence
writer, known-findings filter, VIOLATION reporting.
"""
from __future__ import annotations

import fcntl
import hashlib
import json
import os
import random
import re
import struct
import subprocess
import sys
import time
from pathlib import Path

VERIF = Path(__file__).resolve().parent.parent
# VERIF_LEAN / VERIF_OUT: a private copy of the Lean project and a private output directory (evidence, replays) for seeded-change
# campaigns, so that they neither disturb the generated files nor the evidence of the tree under /repo
LEAN = Path(os.environ.get("VERIF_LEAN", VERIF / "lean"))
OUT = Path(os.environ.get("VERIF_OUT", VERIF))
REPO = Path(os.environ.get("WALLGO_REPO", "/repo"))
SRC = REPO / "src"
PY = os.environ.get("WALLGO_PYTHON", "/venv/bin/python")
SEED = int(os.environ.get("VERIF_SEED", "0") or 0)

STD_AXIOMS = {"propext", "Classical.choice", "Quot.sound"}
FORBIDDEN = re.compile(r"\b(sorry|admit|native_decide|bv_decide|implemented_by|unsafe)\b|^axiom\s|maxHeartbeats\s+0\b")


def use_repo_on_path():
    """Make `import WallGo` resolve to $WALLGO_REPO/src (the working tree under test)."""
    import warnings
    import logging
    warnings.filterwarnings("ignore")
    logging.disable(logging.WARNING)
    p = str(SRC)
    if p in sys.path:
        sys.path.remove(p)
    sys.path.insert(0, p)
    for m in [k for k in sys.modules if k == "WallGo" or k.startswith("WallGo.")]:
        del sys.modules[m]


def rng(tag: str = "") -> random.Random:
    h = hashlib.sha256(f"{SEED}:{tag}".encode()).digest()
    return random.Random(int.from_bytes(h[:8], "little"))


def f2b(x: float) -> int:
    return struct.unpack("<Q", struct.pack("<d", float(x)))[0]


def b2f(b: int) -> float:
    return struct.unpack("<d", struct.pack("<Q", int(b)))[0]


class LakeLock:
    def __enter__(self):
        (LEAN / ".lake").mkdir(exist_ok=True)
        self.f = open(LEAN / ".lake" / "verif.lock", "w")
        fcntl.flock(self.f, fcntl.LOCK_EX)
        return self

    def __exit__(self, *a):
        fcntl.flock(self.f, fcntl.LOCK_UN)
        self.f.close()


def run(cmd, cwd=None, timeout=None, input=None, env=None):
    e = dict(os.environ)
    if env:
        e.update(env)
    return subprocess.run(cmd, cwd=cwd, timeout=timeout, input=input, env=e,
                          stdout=subprocess.PIPE, stderr=subprocess.STDOUT, text=True)


def regenerate() -> dict:
    """Run py2lean; returns its JSON report."""
    r = run([sys.executable, str(VERIF / "harness" / "py2lean" / "gen.py")],
            env={"WALLGO_REPO": str(REPO)})
    try:
        return json.loads(r.stdout.strip().splitlines()[-1])
    except Exception:  # noqa: BLE001
        return {"failures": [{"module": "*", "lean": "*", "path": "*", "file": "*",
                              "error": "generator crashed: " + r.stdout[-2000:]}],
                "modules": {}, "digests": {}, "changed": []}


ERR_RE = re.compile(r"^error: (?:\./)?([^:\s]+\.lean):(\d+):(\d+): (.*)$")


def lake_build(targets: list[str], timeout=3000) -> tuple[bool, str, list[dict]]:
    """Builds targets; returns (ok, log, errors[{file,line,msg,decl}])."""
    with LakeLock():
        r = run(["lake", "build", *targets], cwd=LEAN, timeout=timeout)
    errs = []
    for line in r.stdout.splitlines():
        m = ERR_RE.match(line.strip())
        if m:
            f, ln, _c, msg = m.group(1), int(m.group(2)), m.group(3), m.group(4)
            errs.append({"file": f, "line": ln, "msg": msg, "decl": enclosing_decl(LEAN / f, ln)})
    ok = r.returncode == 0
    if not ok and not errs:
        errs.append({"file": "?", "line": 0, "msg": r.stdout[-1500:], "decl": "?"})
    return ok, r.stdout, errs


DECL_RE = re.compile(r"^\s*(?:private\s+|protected\s+|noncomputable\s+)*(theorem|lemma|def|example|instance|abbrev)\s+([^\s:({\[]+)?")


def enclosing_decl(path: Path, line: int) -> str:
    try:
        lines = path.read_text().splitlines()
    except OSError:
        return "?"
    for i in range(min(line, len(lines)) - 1, -1, -1):
        m = DECL_RE.match(lines[i])
        if m:
            return f"{m.group(1)} {m.group(2) or ''}".strip()
    return "?"


def lean_run(driver: str, lines: list[str], timeout=600) -> list[str]:
    """Pipe lines through `lake env lean --run Driver/<driver>.lean`."""
    r = subprocess.run(["lake", "env", "lean", "--run", f"Driver/{driver}.lean"], cwd=LEAN,
                       input="\n".join(lines) + "\n", stdout=subprocess.PIPE, stderr=subprocess.PIPE,
                       text=True, timeout=timeout)
    if r.returncode != 0:
        raise RuntimeError(f"lean driver {driver} failed: {r.stderr[-2000:]} {r.stdout[-500:]}")
    return r.stdout.splitlines()


def theorem_names(path: Path) -> list[str]:
    out = []
    ns = []
    for ln in path.read_text().splitlines():
        m = re.match(r"^namespace\s+(\S+)", ln)
        if m:
            ns.append(m.group(1))
            continue
        m = re.match(r"^end\s+(\S+)", ln)
        if m and ns and ns[-1] == m.group(1):
            ns.pop()
            continue
        m = re.match(r"^\s*(?:private\s+|protected\s+)?theorem\s+([^\s:({\[]+)", ln)
        if m:
            out.append(".".join(ns + [m.group(1)]))
    return out


def strip_comments(src: str) -> str:
    src = re.sub(r"/-.*?-/", "", src, flags=re.S)
    src = re.sub(r"--.*", "", src)
    return src


def forbidden_tokens(paths: list[Path]) -> list[str]:
    hits = []
    for p in paths:
        txt = strip_comments(p.read_text())
        for i, ln in enumerate(txt.splitlines(), 1):
            if FORBIDDEN.search(ln):
                hits.append(f"{p.name}:{i}: {ln.strip()[:100]}")
    return hits


def audit_axioms(module: str, theorems: list[str], timeout=1200) -> dict:
    """`#print axioms` for every theorem; returns {theorem: [axioms]} (or {'!error': log})."""
    src = f"import {module}\n" + "\n".join(f"#print axioms {t}" for t in theorems) + "\n"
    tmp = LEAN / ".lake" / f"audit_{module.replace('.', '_')}_{os.getpid()}.lean"
    tmp.write_text(src)
    try:
        r = run(["lake", "env", "lean", str(tmp)], cwd=LEAN, timeout=timeout)
    finally:
        tmp.unlink(missing_ok=True)
    out = {}
    cur = None
    txt = r.stdout
    # messages look like: 'X' depends on axioms: [a, b]  /  'X' does not depend on any axioms
    for m in re.finditer(r"'(\S+)' (does not depend on any axioms|depends on axioms: \[([^\]]*)\])", txt, flags=re.S):
        name = m.group(1)
        axs = [] if m.group(3) is None else [a.strip() for a in m.group(3).replace("\n", " ").split(",") if a.strip()]
        out[name] = axs
    if r.returncode != 0 or len(out) < len(theorems):
        out["!error"] = txt[-3000:]
    return out


# ------------------------------------------------------------------ known findings

def known_findings(prop: str) -> list[dict]:
    p = VERIF / "known_findings.json"
    if not p.exists():
        return []
    return [k for k in json.loads(p.read_text()).get("findings", [])
            if k["property"] == prop and k.get("status") == "known"]


class Report:
    """Collects what a check run did, prints VIOLATION / KNOWN-FINDING lines, writes evidence."""

    def __init__(self, prop: str, tier: str):
        self.prop, self.tier = prop, tier
        self.t0 = time.time()
        self.obligations: list[dict] = []      # {name, kind, ok, detail}
        self.samples: list = []
        self.evaluations = 0
        self.nontrivial: set = set()
        self.violations: list[dict] = []
        self.known_hit: list[str] = []
        self.notes: list[str] = []
        self.dist: dict = {}
        self.trusted: list[str] = []
        self.assumptions: list[str] = []
        self.extra: dict = {}
        self._seen_keys: set = set()
        self._dup = 0

    def obligation(self, name, kind, ok, detail=""):
        self.obligations.append({"name": name, "kind": kind, "ok": bool(ok), "detail": detail[:400]})

    def count(self, key, n=1):
        self.dist[key] = self.dist.get(key, 0) + n

    def case(self, key=None, sample=None):
        self.evaluations += 1
        if key is not None:
            self.nontrivial.add(key)
        if sample is not None and len(self.samples) < 12:
            self.samples.append(sample)

    def broken(self) -> list[dict]:
        return [o for o in self.obligations if not o["ok"]]

    def violation(self, what: str, replay: dict, finding_key: str | None = None, found_input=True):
        """Register a violation unless it matches a listed known finding."""
        for k in known_findings(self.prop):
            if finding_key is not None and finding_key == k["match"]:
                if k["id"] not in self.known_hit:
                    self.known_hit.append(k["id"])
                    print(f"KNOWN-FINDING: property={self.prop} {k['what']}")
                return False
        if finding_key is not None:
            if finding_key in self._seen_keys:
                self._dup += 1
                return False
            self._seen_keys.add(finding_key)
        replay = dict(replay)
        replay.update({"property": self.prop, "what": what, "seed": SEED, "tier": self.tier,
                       "found_failing_input": found_input,
                       "rerun": f"VERIF_SEED={SEED} ./check {self.prop} --tier {self.tier}"})
        h = hashlib.sha256(json.dumps(replay, sort_keys=True, default=str).encode()).hexdigest()[:10]
        path = OUT / "replays" / f"{self.prop}-{h}.json"
        path.parent.mkdir(parents=True, exist_ok=True)
        path.write_text(json.dumps(replay, indent=1, default=str))
        self.violations.append({"what": what, "replay": str(path), "found": found_input})
        tail = "" if found_input else " no-failing-input-found"
        print(f"VIOLATION property={self.prop} replay={path.relative_to(OUT) if OUT == VERIF else path}{tail}")
        return True

    def finish(self, checker_cmd: str, rule: str) -> int:
        ev = {
            "property_id": self.prop, "tier": self.tier, "seed": SEED, "level": "proof",
            "coverage": {
                "obligations": len(self.obligations),
                "discharged": sum(1 for o in self.obligations if o["ok"]),
                "checker_cmd": checker_cmd,
                "trusted_base": self.trusted,
                "evaluations": self.evaluations,
                "distinct_nontrivial": len(self.nontrivial),
                "rule": rule,
                "samples": self.samples[:12] or [o["name"] for o in self.obligations[:5]],
                "obligation_list": self.obligations,
                "distribution": self.dist,
                "known_findings_hit": self.known_hit,
                "notes": self.notes,
                **self.extra,
            },
            "assumptions": self.assumptions,
            "wall_s": round(time.time() - self.t0, 2),
            "violations": len(self.violations),
        }
        (OUT / "evidence").mkdir(parents=True, exist_ok=True)
        (OUT / "evidence" / f"{self.prop}.json").write_text(json.dumps(ev, indent=1, default=str))
        return 1 if self.violations else 0
