"""
Harness-owned reference for the one-loop thermal integrals (C20), independent of the piecewise real
formulas in src/WallGo/PotentialTools/integrals.py:

    J_b(x) =  int_0^inf y^2 log(1 - exp(-sqrt(y^2 + x))) dy ,   J_f(x) = -int_0^inf y^2 log(1 + exp(-sqrt(y^2 + x))) dy

evaluated with the PRINCIPAL complex square root and logarithm (cmath), the quadrature split at every
singular point of the integrand; and, for x > 0, the Bessel series  J = -sum_k (+-1)^(k+1) x K_2(k sqrt x) / k^2.
(mpmath at 30 digits agrees with ref_J to 1e-12; checked when this file was written.)
"""
from __future__ import annotations

import cmath
import math

import numpy as np
import scipy.integrate as si
from scipy.special import kv


def singular_points(x: float, boson: bool):
    if x >= 0:
        return []
    s0 = math.sqrt(-x)
    out, k = [], 1
    while True:
        s = 2 * math.pi * k if boson else (2 * k - 1) * math.pi
        if s >= s0:
            return sorted(out)
        out.append(math.sqrt(-x - s * s))
        k += 1


def ref_J(x: float, boson: bool, imag: bool = False) -> float:
    sgn = -1.0 if boson else 1.0
    pre = 1.0 if boson else -1.0

    def f(y):
        a = 1 + sgn * cmath.exp(-cmath.sqrt(complex(y * y + x)))
        if a == 0:
            return 0.0
        v = pre * y * y * cmath.log(a)
        return v.imag if imag else v.real
    kw = dict(limit=400, epsabs=1e-13, epsrel=1e-12)
    if x < 0:
        s0 = math.sqrt(-x)
        edges = [0.0] + singular_points(x, boson) + [s0]
        tot = sum(si.quad(f, a, b, **kw)[0] for a, b in zip(edges[:-1], edges[1:]))
        if not imag:
            tot += si.quad(f, s0, s0 + 50, **kw)[0] + si.quad(f, s0 + 50, np.inf, **kw)[0]
        return float(tot)
    if imag:
        return 0.0
    return float(si.quad(f, 0, 50, **kw)[0] + si.quad(f, 50, np.inf, **kw)[0])


def series_J(x, boson: bool, K: int = 400):
    """x > 0 (array): Bessel series; converges like exp(-K sqrt x)/K^2.5, use for x >= 0.5."""
    x = np.atleast_1d(np.asarray(x, float))[None, :]
    k = np.arange(1, K + 1)[:, None]
    s = np.ones_like(k, float) if boson else (-1.0) ** (k + 1)
    return -np.sum(s / k ** 2 * x * kv(2, k * np.sqrt(x)), axis=0)


def series_dJ(x, boson: bool, K: int = 400):
    x = np.atleast_1d(np.asarray(x, float))[None, :]
    k = np.arange(1, K + 1)[:, None]
    s = np.ones_like(k, float) if boson else (-1.0) ** (k + 1)
    return np.sum(s / k * np.sqrt(x) / 2 * kv(1, k * np.sqrt(x)), axis=0)


def ref_dJ(x: float, boson: bool, imag: bool = False, h: float = 1e-5) -> float:
    return (ref_J(x + h, boson, imag) - ref_J(x - h, boson, imag)) / (2 * h)


JB0 = -math.pi ** 4 / 45
JF0 = -7 * math.pi ** 4 / 360

# branch points of J in x inside/near the tabulated interval: a cubic spline with spacing 0.102 cannot resolve them
def near_branch_point(x: float, boson: bool) -> bool:
    return abs(x) < 1.5 or ((not boson) and abs(x + math.pi ** 2) < 0.9)
