"""Real WallGoManager on the one-field toy potential (LTE only), for the manager-level parts of C01/C07."""
from __future__ import annotations

import logging
import warnings

import numpy as np


def toy_model(D=0.1, E=0.06, lam=0.1, T0=1.0, a=3.0, u=1.0):
    import WallGo

    class ToyPotential(WallGo.EffectivePotential):
        fieldCount = 1
        effectivePotentialError = 1e-12

        def evaluate(self, fields, temperature):
            phi = fields.getField(0)
            T = np.asarray(temperature)
            return D * (T ** 2 - (T0 * u) ** 2) * phi ** 2 - E * T * phi ** 3 + lam / 4 * phi ** 4 - a * T ** 4

    class ToyModel(WallGo.GenericModel):
        fieldCount = 1

        def __init__(self):
            self.potential = ToyPotential()

        def getEffectivePotential(self):
            return self.potential
    return ToyModel()


def new_manager(gridM=20, errTol=1e-2, Tn=1.15, u=1.0, model_kwargs=None, momentumGridSize=None):
    import WallGo
    from WallGo import Fields
    warnings.simplefilter("ignore")
    m = WallGo.WallGoManager()
    m.setVerbosity(logging.ERROR)
    m.config.configGrid.spatialGridSize = gridM
    if momentumGridSize:
        m.config.configGrid.momentumGridSize = momentumGridSize
    m.config.configEOM.errTol = errTol
    m.config.configThermodynamics.tmin = 0.9
    m.registerModel(toy_model(u=u, **(model_kwargs or {})))
    setup(m, Tn, u)
    return m


def setup(m, Tn, u=1.0):
    import WallGo
    from WallGo import Fields
    m.setupThermodynamicsHydrodynamics(
        WallGo.PhaseInfo(temperature=Tn * u, phaseLocation1=Fields([0.0]), phaseLocation2=Fields([2.0 * u])),
        WallGo.VeffDerivativeSettings(temperatureVariationScale=0.1 * u, fieldValueVariationScale=[0.5 * u]))


def settings(thick=5.0):
    import WallGo
    return WallGo.WallSolverSettings(bIncludeOffEquilibrium=False, meanFreePathScale=50.0, wallThicknessGuess=thick)
