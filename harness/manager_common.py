"""Real WallGoManager on the one-field toy potential (LTE only), for the manager-level parts of C01/C07."""
from __future__ import annotations

import logging
import math
import warnings

import numpy as np


def toy_model(D=0.1, E=0.06, lam=0.1, T0=1.0, a=3.0, u=1.0, hsq=0.0):
    """hsq: field-independent + hsq (T0 u)^2 T^2 in the free energy (heavy species in the bath): the symmetric phase is then not conformal (cs^2 != 1/3)"""
    import WallGo

    class ToyPotential(WallGo.EffectivePotential):
        fieldCount = 1
        effectivePotentialError = 1e-12
        unit = u                       # may be changed in place (model parameters updated, then the setup is re-run)

        def evaluate(self, fields, temperature):
            phi = fields.getField(0)
            T = np.asarray(temperature)
            return (D * (T ** 2 - (T0 * self.unit) ** 2) * phi ** 2 - E * T * phi ** 3 + lam / 4 * phi ** 4 - a * T ** 4
                    + hsq * (T0 * self.unit) ** 2 * T ** 2)

    class ToyModel(WallGo.GenericModel):
        fieldCount = 1

        def __init__(self):
            self.potential = ToyPotential()

        def getEffectivePotential(self):
            return self.potential
    return ToyModel()


def new_manager(gridM=20, errTol=1e-2, Tn=1.15, u=1.0, model_kwargs=None, momentumGridSize=None, scalar_scale=False, first_step=None):
    import WallGo
    from WallGo import Fields
    warnings.simplefilter("ignore")
    m = WallGo.WallGoManager()
    m.setVerbosity(logging.ERROR)
    m.config.configGrid.spatialGridSize = gridM
    if momentumGridSize:
        m.config.configGrid.momentumGridSize = momentumGridSize
    m.config.configEOM.errTol = errTol
    m.config.configThermodynamics.tmin = 0.9
    if first_step is not None:
        m.config.configThermodynamics.phaseTracerFirstStep = first_step      # documented: "in units of the maximum step size dT"
    m.registerModel(toy_model(u=u, **(model_kwargs or {})))
    setup(m, Tn, u, scalar_scale)
    return m


def setup(m, Tn, u=1.0, scalar_scale=False):
    """scalar_scale: hand the field variation scale over as ONE number (the documented alternative to a list with one entry per field)"""
    import WallGo
    from WallGo import Fields
    m.setupThermodynamicsHydrodynamics(
        WallGo.PhaseInfo(temperature=Tn * u, phaseLocation1=Fields([0.0]), phaseLocation2=Fields([2.0 * u])),
        WallGo.VeffDerivativeSettings(temperatureVariationScale=0.1 * u, fieldValueVariationScale=(0.5 * u if scalar_scale else [0.5 * u])))


def settings(thick=5.0):
    import WallGo
    return WallGo.WallSolverSettings(bIncludeOffEquilibrium=False, meanFreePathScale=50.0, wallThicknessGuess=thick)


# ---------------------------------------------------------------- two-field xSM-like model (GeV-like numbers: Tn = 100 u)

def xsm_model(u=1.0, perm=(0, 1), signs=(1.0, 1.0), shift=(0.0, 0.0)):
    """Tree-level Z2 singlet extension with O(T^2) thermal masses (high-T expansion): V(h, s, T), every dimensionful
    parameter multiplied by the unit factor u.  User fields y_j = signs_j * x_perm[j] + shift_j*u with x = (h, s)."""
    import WallGo
    from WallGo import Fields
    v0, mh1, mh2 = 246.0, 125.0, 120.0
    MW, MZ, Mt = 80.379, 91.1876, 173.0
    lHS, lSS = 0.9, 1.0
    lHH = 0.5 * mh1 ** 2 / v0 ** 2
    muHsq = -0.5 * mh1 ** 2 * u ** 2
    muSsq = (mh2 ** 2 - 0.5 * lHS * v0 ** 2) * u ** 2
    g2 = 2 * MW / v0
    g1 = g2 * math.sqrt((MZ / MW) ** 2 - 1)
    yt = math.sqrt(2) * Mt / v0
    cH = (3 * g2 ** 2 + g1 ** 2 + 4 * yt ** 2 + 8 * lHH) / 16 + lHS / 24
    cS = lHS / 6 + lSS / 4
    perm_, signs_, shift_ = list(perm), np.asarray(signs, float), np.asarray(shift, float) * u

    class XsmPotential(WallGo.EffectivePotential):
        fieldCount = 2
        effectivePotentialError = 1e-15

        def evaluate(self, fields, temperature):
            y = np.atleast_2d(np.asarray(Fields(fields), float))
            x = np.empty_like(y)
            x[:, perm_] = (y - shift_) / signs_
            h, s = x[:, 0], x[:, 1]
            T = np.asarray(temperature)
            return (0.5 * (muHsq + cH * T ** 2) * h ** 2 + 0.25 * lHH * h ** 4 + 0.5 * (muSsq + cS * T ** 2) * s ** 2
                    + 0.25 * lSS * s ** 4 + 0.25 * lHS * h ** 2 * s ** 2 - 107.75 * math.pi ** 2 / 90 * T ** 4)

    class XsmModel(WallGo.GenericModel):
        fieldCount = 2

        def __init__(self):
            self.potential = XsmPotential()

        def getEffectivePotential(self):
            return self.potential

    def to_user(x):
        x = np.asarray(x, float)
        return (signs_ * x[perm_] + shift_).tolist()
    def from_user(y):
        y = np.asarray(y, float)
        x = np.empty_like(y)
        x[perm_] = (y - shift_) / signs_
        return x.tolist()
    m = XsmModel()
    m.to_user = to_user
    m.from_user = from_user
    return m


def new_xsm_manager(u=1.0, gridM=20, errTol=1e-3, TnOverU=100.0, int_guess=False, **relabel):
    import WallGo
    from WallGo import Fields
    warnings.simplefilter("ignore")
    m = WallGo.WallGoManager()
    m.setVerbosity(logging.ERROR)
    m.config.configGrid.spatialGridSize = gridM
    m.config.configEOM.errTol = errTol
    model = xsm_model(u=u, **relabel)
    m.registerModel(model)
    setup_xsm(m, model, u, TnOverU, int_guess)
    return m, model


def setup_xsm(m, model, u, TnOverU=100.0, int_guess=False):
    """int_guess: the (approximate) phase locations are handed over as INTEGER-typed Fields where they are whole numbers in the user's frame"""
    import WallGo
    from WallGo import Fields
    sc = np.abs(np.asarray(model.to_user([50.0 * u, 50.0 * u])) - np.asarray(model.to_user([0.0, 0.0])))

    def guess(x):
        y = model.to_user(x)
        if int_guess and all(float(v).is_integer() for v in y):
            return Fields([int(v) for v in y])
        return Fields(y)
    m.setupThermodynamicsHydrodynamics(
        WallGo.PhaseInfo(temperature=TnOverU * u, phaseLocation1=guess([0.0, 105.0 * u]),
                         phaseLocation2=guess([195.0 * u, 0.0])),
        WallGo.VeffDerivativeSettings(temperatureVariationScale=10.0 * u, fieldValueVariationScale=sc.tolist()))
