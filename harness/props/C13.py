"""C13 -- out-of-equilibrium moments are the momentum integrals they are defined to be."""
from __future__ import annotations

import itertools
import math

import numpy as np

import common as C
import boltz_common as B

LEAN_MODULES = ["WallGoVerif.Props.C13", "WallGoVerif.Props.C13T"]
LEMMA_MODULES = ["WallGoVerif.Lemmas.Boltz", "WallGoVerif.Model.Boltz", "WallGoVerif.Lemmas.EOM", "WallGoVerif.Model.EOM"]
GEN_MODULES = ["Boltz"]
VALIDATE_ONLY = {"deltaIntegrand", "weightDelta00", "weightDelta02", "weightDelta20", "weightDelta11"}
VALIDATION_POINTS = (200, 4000)
RULE = ("obligations = Lean theorems of Props.C13 (generated integrand/weights = d^3p/((2pi)^3 E) in cylindrical coordinates pulled "
        "back by the grid maps; moment = double Gauss-Chebyshev-Lobatto sum, exact on the exactness family; linearity) + translator "
        "validation + Float correspondence of Model.Boltz.moment with the real getDeltas + exactness search on the real solver with "
        "deviations drawn from the exactness family + Props.C13T (Model.EOM.deltaToTmunu = boosted plasma-frame momentum integral summed over "
        "species, species do not mix) with Float correspondence of that model against the real EOM.deltaToTmunu for 1-3 species and a direct "
        "boosted quadrature of p^mu p^nu on the real solver; distinct = (N, momentum scale, mass, moment, polynomial degrees) or (species, velocity)")
ASSUMPTIONS = ["deviations are supplied on the grid in the Cardinal basis; exact integrals from closed-form moments of sqrt(1-x^2)"]


def _sqrtm(k):
    if k % 2:
        return 0.0
    m = k // 2
    return math.pi * math.factorial(2 * m) / (2 ** (2 * m + 1) * math.factorial(m) * math.factorial(m + 1))


def _weights(solver, grid, parts):
    """the four weight arrays W[a,i,j,k] of the defining integrals in compact coordinates."""
    field = solver.background.fieldProfiles.takeSlice(1, -1, axis=solver.background.fieldProfiles.overFieldPoints)
    # momenta and Jacobians from the ANALYTIC momentum maps at the grid's declared scale (not from the grid's cached arrays)
    Tm = grid.momentumFalloffT
    rz, rp = np.asarray(grid.rzValues), np.asarray(grid.rpValues)
    pz = (2 * Tm * np.arctanh(rz))[None, None, :, None]
    pp = (-Tm * np.log((1 - rp) / 2))[None, None, None, :]
    msq = np.array([p.msqVacuum(field) for p in parts])[:, :, None, None]
    E = np.sqrt(msq + pz ** 2 + pp ** 2)
    dpz, dpp = 2 * Tm / (1 - rz ** 2), Tm / (1 - rp)
    I = dpz[None, None, :, None] * dpp[None, None, None, :] * pp / (4 * np.pi ** 2 * E)
    return {"Delta00": I, "Delta02": pz ** 2 * I, "Delta20": E ** 2 * I, "Delta11": E * pz * I}


def corr(rep: C.Report, tier: str):
    r = C.rng("C13corr")
    lines, expect = [], []
    for N in ((3, 5, 7) if tier == "quick" else (3, 5, 7, 9, 11)):
        solver, grid, parts, clean = B.make_solver(M=4, N=N, basisM="Cardinal", basisN="Cardinal", Tscale=r.choice((1.0, 0.3, 20.0)))
        try:
            solver.setBackground(B.background(grid, dphi=1.0, phi0=0.2))
            n = N - 1
            dF = np.array([r.uniform(-1, 1) for _ in range(3 * n * n)]).reshape(1, 3, n, n)
            res = solver.getDeltas(dF)
            W = _weights(solver, grid, parts)
            rz, rp = grid.rzValues, grid.rpValues
            sz = np.sqrt(1 - rz ** 2) * math.pi / N
            wp = np.full(n, math.pi / (N - 1))
            wp[0] /= 2
            sp = np.sqrt(1 - rp ** 2) * wp
            for nm in ("Delta00", "Delta02", "Delta20", "Delta11"):
                for i in range(3):
                    f = dF[0, i]
                    w = np.broadcast_to(W[nm], (1, 3, n, n))[0, i]
                    lines.append(f"moment {n} {n} " + " ".join(str(C.f2b(x)) for x in list(f.ravel()) + list(w.ravel()) + list(sz) + list(sp)))
                    expect.append(float(getattr(res.Deltas, nm).coefficients[0, i]))
                    rep.case(key=("corr", N, nm, i))
        finally:
            clean()
    outs = C.lean_run("BoltzF", lines)
    bad = [(e, C.b2f(int(o))) for e, o in zip(expect, outs) if abs(C.b2f(int(o)) - e) > 1e-11 * (abs(e) + 1e-300)]
    rep.obligation("correspondence Model.Boltz.moment (with Model.Poly weights) = BoltzmannSolver.getDeltas", "correspondence",
                   not bad, f"{len(lines)} moments; {bad[:2]}")
    # EOM.deltaToTmunu (real method, mock particles and harness-chosen moments) against Model.EOM.deltaToTmunu, 1..3 species
    import eom_common as EC
    from types import SimpleNamespace
    o = EC.make_eom("toy1", M=20)
    eom, grid = o["eom"], o["grid"]
    lines, expect, inputs = [], [], []
    for npart in (1, 2, 3, 2, 3, 1) if tier == "quick" else (1, 2, 3) * 20:
        parts = [SimpleNamespace(totalDOFs=r.choice((1, 6, 12)), msqVacuum=(lambda f, y=r.uniform(0, 2): y * 1.0)) for _ in range(npart)]
        msqs = [p.msqVacuum(None) for p in parts]
        D = {n_: np.array([[r.uniform(-1, 1) for _ in range(grid.M - 1)] for _ in range(npart)]) for n_ in ("Delta00", "Delta02", "Delta20", "Delta11")}
        deltas = SimpleNamespace(**{n_: SimpleNamespace(coefficients=v) for n_, v in D.items()})
        saved = eom.particles
        eom.particles = parts
        try:
            idx = r.randint(0, grid.M - 2)
            vmid = -r.uniform(0.05, 0.8)
            t30, t33 = eom.deltaToTmunu(idx, None, vmid, deltas)
        finally:
            eom.particles = saved
        flat = []
        for i, p in enumerate(parts):
            flat += [p.totalDOFs, msqs[i], D["Delta00"][i, idx], D["Delta02"][i, idx], D["Delta20"][i, idx], D["Delta11"][i, idx]]
        lines.append(f"tmunu {C.f2b(vmid)} {npart} " + " ".join(str(C.f2b(float(x))) for x in flat))
        expect.append([float(t30), float(t33)])
        inputs.append({"velocityMid": vmid, "species(dofs, msq, Delta00, Delta02, Delta20, Delta11)": [flat[6 * i:6 * i + 6] for i in range(npart)]})
        rep.case(key=("corr", "tmunu", npart, len(lines)))
        rep.count(f"deltaToTmunu {npart} species")
    outs = C.lean_run("EOMF", lines)
    bad = []
    for ex, out, inp in zip(expect, outs, inputs):
        got = [C.b2f(int(t)) for t in out.split()] if out.strip() != "bad-op" else []
        if len(got) != 2 or any(abs(a - b_) > 1e-11 * (abs(b_) + 1e-300) + 1e-300 for a, b_ in zip(got, ex)):
            bad.append(dict(inp, real_T30_T33=ex, boosted_momentum_integral_T30_T33=got))
    rep.obligation("correspondence Model.EOM.deltaToTmunu(Float) = real EOM.deltaToTmunu (1-3 species)", "correspondence", not bad,
                   f"{len(lines)} calls; {str(bad[:1])[:300]}")
    if bad:
        # Props.C13T proves that the model value IS the boosted momentum integral: a disagreement is a concrete failing input
        rep.violation("EOM.deltaToTmunu differs from the boosted plasma-frame momentum integral assembled from the same moments (Props.C13T)",
                      bad[0], finding_key="C13:tmunu")


def search(rep: C.Report, tier: str, broken):
    r = C.rng("C13search")
    Ns = (5, 7, 9) if tier == "quick" else (5, 7, 9, 11, 13, 15)
    from WallGo.polynomial import Polynomial
    bases = [("Cardinal", "Cardinal"), ("Cardinal", "Chebyshev"), ("Chebyshev", "Cardinal"), ("Chebyshev", "Chebyshev")]
    for N in Ns:
        for Tscale, y2 in (((1.0, 0.3), (0.05, 2.0)) if tier == "quick" else ((1.0, 0.3), (0.05, 2.0), (30.0, 0.0), (1.0, 5.0))):
            bM, bN = bases[(N + int(y2 * 10)) % 4] if tier == "quick" else r.choice(bases)
            solver, grid, parts, clean = B.make_solver(M=4, N=N, basisM=bM, basisN=bN, Tscale=Tscale, y2=(y2,))
            rescaled = (N + int(10 * y2)) % 2 == 1
            if rescaled:
                # the same grid reached through a rescaling history: moments must be those of the new scale
                grid.changeMomentumFalloffScale(Tscale * 7.3)
                grid.changeMomentumFalloffScale(Tscale * r.choice((0.4, 2.5)))
                rep.count("grids rescaled with changeMomentumFalloffScale")

            # a scalar whose vacuum mass squared changes sign across the wall (mildly negative near the symmetric side: E^2 stays
            # positive at every node, |m^2| < p_min^2 with p_min = 2 T atanh(sin(pi/2N))): the defining integral uses E = sqrt(m^2 + p^2)
            # (p_min is that of the FINAL momentum scale: the bound is evaluated after any rescaling of the grid; a NaN from E^2 < 0 made
            # eight comparisons of this family pass vacuously until batch 10)
            signchange = (N in (5, 7)) and y2 >= 2.0
            if signchange:
                pmin2 = (2 * float(grid.momentumFalloffT) * math.atanh(math.sin(math.pi / (2 * N)))) ** 2
                mu2, lam_ = 0.6 * pmin2, 0.9
                parts[0].msqVacuum = lambda f, mu2=mu2, lam_=lam_: -mu2 + lam_ * f.getField(0) ** 2
                parts[0].msqDerivative = lambda f, lam_=lam_: np.transpose([2 * lam_ * f.getField(0)])
                rep.count("particles with sign-changing vacuum mass squared")

            def to_solver_basis(dFcard, solver=solver, grid=grid):
                """the deviation is specified by its grid values; the solver takes coefficients in ITS basis"""
                pl = Polynomial(np.array(dFcard, dtype=float), grid, ("Array", "Cardinal", "Cardinal", "Cardinal"), ("Array", "z", "pz", "pp"), False)
                pl.changeBasis(("Array", solver.basisM, solver.basisN, solver.basisN))
                return pl.coefficients
            try:
                solver.setBackground(B.background(grid, dphi=1.0 * Tscale, phi0=0.2 * Tscale, T0=Tscale))
                W = _weights(solver, grid, parts)
                rz, rp = grid.rzValues, grid.rpValues
                n = N - 1
                for nm in ("Delta00", "Delta02", "Delta20", "Delta11"):
                    da = r.randint(0, 2 * N - 3)
                    db = r.randint(0, max(2 * (N - 1) - 3, 0))
                    ca = [r.uniform(-1, 1) for _ in range(da + 1)]
                    cb = [r.uniform(-1, 1) for _ in range(db + 1)]
                    qa = np.polynomial.Polynomial(ca)
                    qb = np.polynomial.Polynomial(cb)
                    phi = (qa(rz) * np.sqrt(1 - rz ** 2))[:, None] * (qb(rp) * np.sqrt(1 - rp ** 2))[None, :]
                    Wm = np.broadcast_to(W[nm], (1, 3, n, n))
                    with np.errstate(divide="ignore", invalid="ignore"):
                        dF = np.where(Wm != 0, phi[None, None] / Wm, 0.0)
                    res = solver.getDeltas(to_solver_basis(dF))
                    got = getattr(res.Deltas, nm).coefficients[0]
                    want = sum(c * _sqrtm(k) for k, c in enumerate(ca)) * sum(c * _sqrtm(k) for k, c in enumerate(cb))
                    sc = sum(abs(c) for c in ca) * sum(abs(c) for c in cb)
                    rep.count(f"basis {bM}/{bN}")
                    rep.case(key=(N, Tscale, y2, nm, da, db, bM, bN),
                             sample={"N": N, "moment": nm, "deg": [da, db], "got": got.tolist(), "exact": want} if len(rep.samples) < 3 else None)
                    rep.count(f"search {nm}")
                    if not np.max(np.abs(got - want)) <= 1e-9 * sc:      # (written so that a NaN fails)
                        rep.violation(f"{nm} is not the exact momentum integral on the exactness family",
                                      {"N": N, "momentumFalloffT": grid.momentumFalloffT, "constructed_with": Tscale, "rescaled_by_changeMomentumFalloffScale": rescaled, "y2": y2, "sign_changing_msq": signchange, "moment": nm, "basisM": bM, "basisN": bN, "poly_rz": ca, "poly_rp": cb,
                                       "got": got.tolist(), "exact": want}, finding_key=f"C13:{nm}")
                    # linearity
                    dF2 = np.array([r.uniform(-1, 1) for _ in range(3 * n * n)]).reshape(1, 3, n, n)
                    a1 = getattr(solver.getDeltas(to_solver_basis(dF + 2.5 * dF2)).Deltas, nm).coefficients
                    a2 = got[None] + 2.5 * getattr(solver.getDeltas(to_solver_basis(dF2)).Deltas, nm).coefficients
                    if not np.max(np.abs(a1 - a2)) <= 1e-10 * (np.max(np.abs(a1)) + sc):
                        rep.violation(f"{nm} is not linear in the deviation", {"N": N, "moment": nm}, finding_key=f"C13:linear:{nm}")
            finally:
                clean()
    # ---- T30/T33 of several species: the real getDeltas + EOM.deltaToTmunu against a DIRECT quadrature of the boosted p^mu p^nu
    # (p'^3 = gamma (pz + v E), p'^0 = gamma (E + v pz)) with the analytic momentum maps, summed over the species
    import eom_common as EC
    eom = EC.make_eom("toy1", M=20)["eom"]
    for N in ((5, 7) if tier == "quick" else (5, 7, 9, 11)):
        for npart, Tscale in ((2, 1.0), (3, 0.3)) if tier == "quick" else ((1, 1.0), (2, 1.0), (3, 0.3), (2, 20.0), (3, 4.0)):
            solver, grid, parts, clean = B.make_solver(M=4, N=N, basisM="Cardinal", basisN="Cardinal", nparticles=npart, stats=("Fermion", "Boson"),
                                                       y2=(0.3, 0.9, 0.05), dofs=(12, 6, 2), Tscale=Tscale)
            try:
                solver.setBackground(B.background(grid, dphi=1.0 * Tscale, phi0=0.2 * Tscale, T0=Tscale))
                W = _weights(solver, grid, parts)
                n = N - 1
                rz, rp = grid.rzValues, grid.rpValues
                sz = np.sqrt(1 - rz ** 2) * math.pi / N
                wp = np.full(n, math.pi / (N - 1))
                wp[0] /= 2
                sp = np.sqrt(1 - rp ** 2) * wp
                q = sz[:, None] * sp[None, :]
                dF = np.array([r.uniform(-1, 1) for _ in range(npart * 3 * n * n)]).reshape(npart, 3, n, n)
                res = solver.getDeltas(dF)
                field = solver.background.fieldProfiles.takeSlice(1, -1, axis=solver.background.fieldProfiles.overFieldPoints)
                I00 = np.broadcast_to(W["Delta00"], (npart, 3, n, n))
                Tm = grid.momentumFalloffT
                pz = np.broadcast_to((2 * Tm * np.arctanh(rz))[None, None, :, None], (npart, 3, n, n))
                pp_ = (-Tm * np.log((1 - rp) / 2))[None, None, None, :]
                msq_ = np.array([p_.msqVacuum(field) for p_ in parts])[:, :, None, None]
                E = np.broadcast_to(np.sqrt(msq_ + pz ** 2 + pp_ ** 2), (npart, 3, n, n))
                saved = eom.particles
                eom.particles = parts
                try:
                    for idx in range(3):
                        vmid = -r.uniform(0.1, 0.85)
                        g2 = 1.0 / (1.0 - vmid * vmid)
                        dofs_ = np.array([p_.totalDOFs for p_ in parts], float)[:, None, None]
                        d30 = float(np.sum(dofs_ * I00[:, idx] * g2 * (pz[:, idx] + vmid * E[:, idx]) * (E[:, idx] + vmid * pz[:, idx]) * dF[:, idx] * q[None]))
                        d33 = float(np.sum(dofs_ * I00[:, idx] * g2 * (pz[:, idx] + vmid * E[:, idx]) ** 2 * dF[:, idx] * q[None]))
                        t30, t33 = eom.deltaToTmunu(idx, field.getFieldPoint(idx), vmid, res.Deltas)
                        rep.case(key=("tmunu-direct", N, npart, Tscale, idx))
                        rep.count(f"direct T30/T33 quadrature, {npart} species")
                        sc = float(np.sum(dofs_ * np.abs(I00[:, idx] * E[:, idx] ** 2 * dF[:, idx]) * q[None])) * g2
                        if not (abs(t30 - d30) <= 1e-9 * sc and abs(t33 - d33) <= 1e-9 * sc):
                            rep.violation("T30/T33 assembled from the moments differ from the direct momentum integral of the boosted p^mu p^nu times the deviation",
                                          {"N": N, "species": npart, "momentumFalloffT": Tm, "velocityMid": vmid, "grid_index": idx, "T30": float(t30), "T33": float(t33),
                                           "direct_T30": d30, "direct_T33": d33,
                                           "how": "boltz_common.make_solver(nparticles=...).getDeltas(random deviation) -> EOM.deltaToTmunu vs quadrature"},
                                          finding_key="C13:tmunu-direct")
                finally:
                    eom.particles = saved
            finally:
                clean()
    # ---- every admissible basis pair fed DIRECTLY (no basis change on the harness side, deviations with negative spectral coefficients):
    # the deviation is given by random grid values, turned into the solver's coefficients with restricted Chebyshev matrices written here
    # (T_n - 1 for even n / pp, T_n - x for odd n), and all four moments must equal the Gauss-Chebyshev-Lobatto momentum quadrature
    # of those grid values; moments are odd in the deviation and the caller's array is an input, not scratch space
    rb = C.rng("C13allbases")

    def rcheb(x, ns, partial):
        t = np.cos(ns[None, :] * np.arccos(x[:, None]))
        return t - 1.0 if partial else t - np.where(ns[None, :] % 2 == 0, 1.0, x[:, None])
    for N, Tscale in (((5, 1.0), (7, 0.3)) if tier == "quick" else ((5, 1.0), (7, 0.3), (9, 1.0), (5, 20.0), (11, 0.3))):
        for bM, bN in bases:
            solver, grid, parts, clean = B.make_solver(M=4, N=N, basisM=bM, basisN=bN, Tscale=Tscale, y2=(0.7,))
            try:
                solver.setBackground(B.background(grid, dphi=1.0 * Tscale, phi0=0.2 * Tscale, T0=Tscale))
                W = _weights(solver, grid, parts)
                n = N - 1
                chi, rz, rp = np.asarray(grid.chiValues), np.asarray(grid.rzValues), np.asarray(grid.rpValues)
                wp = np.full(n, math.pi / (N - 1))
                wp[0] /= 2
                q = (np.sqrt(1 - rz ** 2) * math.pi / N)[:, None] * (np.sqrt(1 - rp ** 2) * wp)[None, :]
                vals = np.array([rb.uniform(-1, 1) for _ in range(3 * n * n)]).reshape(1, 3, n, n)
                coef = vals
                if bM == "Chebyshev":
                    coef = np.einsum("ia,sajk->sijk", np.linalg.inv(rcheb(chi, np.arange(2, grid.M + 1), False)), coef)
                if bN == "Chebyshev":
                    coef = np.einsum("jb,sibk->sijk", np.linalg.inv(rcheb(rz, np.arange(2, N + 1), False)), coef)
                    coef = np.einsum("kc,sijc->sijk", np.linalg.inv(rcheb(rp, np.arange(1, N), True)), coef)
                coef = np.ascontiguousarray(coef, dtype=float)
                keep = coef.copy()
                res = solver.getDeltas(coef)
                untouched = np.array_equal(coef, keep)
                neg = solver.getDeltas(-keep)
                info = {"N": N, "M": 4, "momentumFalloffT": grid.momentumFalloffT, "basisM": bM, "basisN": bN, "y2": 0.7, "deltaF_coefficients_in_solver_basis": keep.tolist(),
                        "how": "boltz_common.make_solver(M=4, N, basisM, basisN, Tscale, y2=(0.7,)); setBackground(boltz_common.background(grid, dphi=Tscale, phi0=0.2*Tscale, T0=Tscale)); getDeltas(np.array(coefficients))"}
                rep.count(f"direct-coefficient basis {bM}/{bN}")
                if not untouched:
                    rep.violation("getDeltas overwrote the caller's deltaF array (the moments are then those of a different deviation)",
                                  dict(info, deltaF_after_call=coef.tolist()), finding_key="C13:allbases:inplace")
                for nm in ("Delta00", "Delta02", "Delta20", "Delta11"):
                    Wm = np.broadcast_to(W[nm], (1, 3, n, n))
                    want = np.sum(Wm * vals * q[None, None], axis=(2, 3))
                    sc = np.sum(np.abs(Wm * vals) * q[None, None], axis=(2, 3))
                    got = getattr(res.Deltas, nm).coefficients
                    gneg = getattr(neg.Deltas, nm).coefficients
                    rep.case(key=("allbases", N, Tscale, bM, bN, nm))
                    if not np.all(np.abs(got - want) <= 1e-9 * sc):
                        rep.violation(f"{nm} differs from the direct momentum quadrature of the deviation's grid values",
                                      dict(info, moment=nm, got=got.tolist(), direct_quadrature=want.tolist()), finding_key="C13:allbases")
                    if not np.all(np.abs(gneg + got) <= 1e-10 * sc):
                        rep.violation(f"{nm} of -deltaF is not minus {nm} of deltaF", dict(info, moment=nm, got=got.tolist(), got_for_minus_deltaF=gneg.tolist()),
                                      finding_key="C13:allbases:odd")
            finally:
                clean()
