"""C20 -- thermal integrals, their shipped tables and the ideal-gas limit agree."""
from __future__ import annotations

import math
import os

import numpy as np

import common as C
import thermal_ref as R

LEAN_MODULE = "WallGoVerif.Props.C20"
LEMMA_MODULES = ["WallGoVerif.Lemmas.Thermal", "WallGoVerif.Lemmas.JTable"]
GEN_MODULES = ["Integrals"]
USES_TABLES = True
VALIDATION_POINTS = (300, 4000)
RULE = ("obligations = Lean theorems of Props.C20 (the six regenerated integrands ARE Re/Im of the defining complex integrand with "
        "principal sqrt/log, up to the 1e-100 regulator; the wrapper's split point is where the radicand changes sign; thermal "
        "sum: Stefan-Boltzmann, additivity, continuity, Boltzmann suppression from hypotheses on J; the regenerated table abscissae "
        "are linspace(-20,1000,10000), strictly increasing, identical for Jb and Jf: decide +kernel over all 10000 rows) + axiom audit "
        "+ translator validation of the integrands + Model.Thermal vs the real potentialOneLoopThermal with stub integrals + on the "
        "real code: direct integrals vs an independent principal-log quadrature and the Bessel series, EVERY row of both shipped "
        "tables vs that reference, interpolated values/derivatives off the nodes, J(0), decay, Stefan-Boltzmann/heavy/continuity "
        "of the real one-loop potential; distinct = (integral, region of x, rounded x) or (potential case)")
ASSUMPTIONS = [
    "scipy.integrate.quad (in the code and in the harness reference) and scipy CubicSpline are numerical oracles; agreement judged "
    "at 1e-6 absolute for values (the code's own _validateInterpolationTable tolerance) and 1e-4 relative + 1e-7 for first "
    "derivatives (the tolerance of tests/testsPotentialTools)",
    "J_b(0) = -pi^4/45, J_f(0) = -7 pi^4/360, continuity of J and the decay |J(x)| <= C exp(-sqrt x) are HYPOTHESES of the Lean "
    "theorems about the thermal sum (no Bose/Fermi integral identities in Mathlib); they are monitored on the real integrals here",
]
TRUSTED = ["harness/thermal_ref.py (principal complex log quadrature split at the singular points; Bessel series), cross-checked "
           "against mpmath at 30 digits when written"]

KEY_RES = "C20:table-resolution-at-branch-point"


def _tables():
    import WallGo.PotentialTools as PT
    d = os.path.join(os.path.dirname(PT.__file__), "Data")
    return (np.loadtxt(os.path.join(d, "InterpolationTable_Jb.txt")), np.loadtxt(os.path.join(d, "InterpolationTable_Jf.txt")))


def _region(x):
    if x < -4 * math.pi ** 2:
        return "x<-4pi^2"
    if x < -math.pi ** 2:
        return "-4pi^2..-pi^2"
    if x < -1.5:
        return "-pi^2..-1.5"
    if x < 0:
        return "-1.5..0"
    if x <= 1.5:
        return "0..1.5"
    if x <= 30:
        return "1.5..30"
    if x <= 1000:
        return "30..1000"
    return ">1000"


def _potential(integrals=None, default=False, option=None):
    from WallGo.PotentialTools import EffectivePotentialNoResum, EImaginaryOption

    class V(EffectivePotentialNoResum):
        fieldCount = 1

        def evaluate(self, fields, temperature):  # not used
            return 0.0

        def bosonInformation(self, fields, temperature):
            raise NotImplementedError

        def fermionInformation(self, fields, temperature):
            raise NotImplementedError
    opt = option or EImaginaryOption.PRINCIPAL_PART
    try:
        return V(integrals=integrals, useDefaultInterpolation=default, imaginaryOption=opt)
    except TypeError:
        v = V.__new__(V)
        EffectivePotentialNoResum.__init__(v, integrals=integrals, useDefaultInterpolation=default, imaginaryOption=opt)
        return v


class _Lin:
    """stub thermal integral a0 + a1*x with the (.., 2) return layout of the real ones"""

    def __init__(self, a0, a1):
        self.a0, self.a1 = a0, a1

    def __call__(self, x):
        x = np.asarray(x, float)
        return np.stack([self.a0 + self.a1 * x, np.zeros_like(x)], axis=-1)


def corr(rep: C.Report, tier: str):
    """Model.Thermal.oneLoopThermal (Float) vs the real potentialOneLoopThermal, stub integrals."""
    from types import SimpleNamespace
    r = C.rng("C20corr")
    lines, expect = [], []
    n = 150 if tier == "quick" else 1500
    for _ in range(n):
        nB, nF = r.randint(0, 6), r.randint(0, 6)
        T = 10 ** r.uniform(-2, 3)
        a0, a1, b0, b1 = (r.uniform(-3, 3) for _ in range(4))
        bos = [(r.uniform(-20, 400) * T * T, float(r.randint(1, 24))) for _ in range(nB)]
        fer = [(r.uniform(0, 400) * T * T, float(r.randint(1, 12))) for _ in range(nF)]
        pot = _potential(integrals=SimpleNamespace(Jb=_Lin(a0, a1), Jf=_Lin(b0, b1)))
        bt = (np.array([m for m, _ in bos]), np.array([d for _, d in bos]), 0, 0)
        ft = (np.array([m for m, _ in fer]), np.array([d for _, d in fer]), 0, 0)
        val = float(pot.potentialOneLoopThermal(bt, ft, T))
        vals = [T, a0, a1, b0, b1]
        flat = [x for p in bos + fer for x in p]
        lines.append("thermal " + " ".join(str(C.f2b(x)) for x in vals) + f" {nB} {nF} " + " ".join(str(C.f2b(x)) for x in flat))
        expect.append(val)
        rep.case(key=("thermal-model", nB, nF, round(math.log10(T), 1)))
    out = C.lean_run("ThermalF", lines)
    bad = []
    for ln, o, e in zip(lines, out, expect):
        rep.count("thermal model vs code")
        m = C.b2f(int(o))
        if not abs(m - e) <= 1e-13 * max(abs(m), abs(e)) + 1e-300:
            bad.append((ln, m, e))
    rep.obligation("correspondence Model.Thermal.oneLoopThermal == EffectivePotentialNoResum.potentialOneLoopThermal (stub integrals)",
                   "correspondence", not bad and len(out) == len(lines), f"{len(lines)} spectra" if not bad else str(bad[:2]))
    return not bad


def search(rep: C.Report, tier: str, broken):
    import warnings
    warnings.simplefilter("ignore")
    from WallGo.PotentialTools import defaultIntegrals as DI
    from WallGo.PotentialTools.integrals import JbIntegral, JfIntegral
    from WallGo.PotentialTools import EImaginaryOption
    from WallGo import EExtrapolationType
    r = C.rng("C20")
    quick = tier == "quick"
    direct = {True: JbIntegral(bUseAdaptiveInterpolation=False), False: JfIntegral(bUseAdaptiveInterpolation=False)}
    interp = {True: DI.Jb, False: DI.Jf}
    names = {True: "Jb", False: "Jf"}

    # ---- 1. direct integrals vs the independent reference, all regions incl. beyond both ends of the table
    xs = [0.0, 1e-9, -1e-9, 1e-3, -1e-3, 1.0, -1.0, -math.pi ** 2 + 1e-3, -math.pi ** 2 - 1e-3, -20.0, -20.5, -4 * math.pi ** 2 - 1e-2,
          -4 * math.pi ** 2 + 1e-2, -9 * math.pi ** 2 - 0.05, 30.0, 400.0, 1000.0, 1200.0]
    nrand = 25 if quick else 250
    xs += [r.uniform(-20, 0) for _ in range(nrand)] + [r.uniform(-400 if not quick else -120, -20) for _ in range(nrand)]
    xs += [10 ** r.uniform(-4, 3.1) for _ in range(nrand)]
    for boson in (True, False):
        nm = names[boson]
        for x in xs:
            got = np.ravel(direct[boson]._functionImplementation(float(x)))  # pylint: disable=protected-access
            wre, wim = R.ref_J(x, boson), R.ref_J(x, boson, True)
            rep.case(key=("direct", nm, _region(x), round(x, 2)))
            rep.count(f"direct {nm} {_region(x)}")
            if x >= 0.5:
                s = float(R.series_J(x, boson)[0])
                if abs(s - wre) > 1e-9:
                    rep.obligation("reference self-consistency (quadrature vs Bessel series)", "oracle-monitor", False, f"{nm} x={x}: {wre} vs {s}")
            if not (abs(got[0] - wre) <= 1e-6 and abs(got[1] - wim) <= 1e-6):
                rep.violation(f"{nm}Integral direct evaluation differs from the defining integral at x={x}",
                              {"integral": nm, "x": float(x), "code": got.tolist(), "reference": [wre, wim],
                               "how": f"WallGo.PotentialTools.integrals.{nm}Integral()._functionImplementation(x) vs harness/thermal_ref.ref_J"},
                              finding_key=f"C20:direct:{nm}:{_region(x)}")
            # sign / decay at large argument: |J| <= 1.05 x K2(sqrt x), J < 0
            if x >= 25:
                from scipy.special import kv
                bound = 1.05 * x * float(kv(2, math.sqrt(x)))
                if not (-bound - 2e-8 <= got[0] <= 0.0 and got[1] == 0.0):
                    rep.violation(f"{nm}Integral does not decay like x K2(sqrt x) at large argument",
                                  {"integral": nm, "x": float(x), "code": got.tolist(), "bound": bound}, finding_key=f"C20:decay:{nm}")
    rep.obligation("reference self-consistency (quadrature vs Bessel series)", "oracle-monitor", True, "x >= 0.5 sample")

    # ---- 2. known values at zero
    for boson, exact in ((True, R.JB0), (False, R.JF0)):
        got = np.ravel(direct[boson]._functionImplementation(0.0))  # pylint: disable=protected-access
        rep.case(key=("zero", names[boson]))
        if not (abs(got[0] - exact) <= 1e-7 and got[1] == 0.0):
            rep.violation(f"{names[boson]}(0) is not the known value", {"integral": names[boson], "code": got.tolist(), "exact": exact},
                          finding_key=f"C20:zero:{names[boson]}")

    # ---- 3. every row of the shipped tables vs the reference
    tb, tf = _tables()
    for tab, boson in ((tb, True), (tf, False)):
        nm = names[boson]
        x = tab[:, 0]
        ok_shape = tab.shape == (10000, 3) and x[0] == -20.0 and x[-1] == 1000.0
        rep.obligation(f"shipped {nm} table has the shape proved about in Lean (10000 rows, -20..1000)", "correspondence", ok_shape, str(tab.shape))
        ref_re = np.empty(len(x))
        ref_im = np.zeros(len(x))
        big = x >= 0.5
        ref_re[big] = R.series_J(x[big], boson)
        for i in np.where(~big)[0]:
            ref_re[i] = R.ref_J(x[i], boson)
            ref_im[i] = R.ref_J(x[i], boson, True)
        # spot-check the series rows with the quadrature too
        for i in r.sample(list(np.where(big)[0]), 20 if quick else 400):
            q = R.ref_J(x[i], boson)
            if abs(q - ref_re[i]) > 1e-9:
                rep.obligation("reference self-consistency on table rows", "oracle-monitor", False, f"{nm} row {i}")
        err = np.maximum(np.abs(tab[:, 1] - ref_re), np.abs(tab[:, 2] - ref_im))
        rep.count(f"table rows {nm}", len(x))
        for i in range(len(x)):
            rep.case(key=("row", nm, i))
        bad = np.where(err > 1e-7)[0]
        if len(bad):
            i = int(bad[np.argmax(err[bad])])
            rep.violation(f"{len(bad)} row(s) of the shipped {nm} table differ from the integral (worst: row {i}, x={x[i]})",
                          {"table": nm, "rows": bad[:50].tolist(), "worst_row": i, "x": float(x[i]), "table_values": tab[i, 1:].tolist(),
                           "reference": [float(ref_re[i]), float(ref_im[i])], "max_abs_diff": float(err[i]),
                           "how": "np.loadtxt(src/WallGo/PotentialTools/Data/InterpolationTable_*.txt) vs harness/thermal_ref"},
                          finding_key=f"C20:table-rows:{nm}:{_region(x[i])}")
        # the loaded spline really goes through the file's rows
        ev = np.asarray(interp[boson](x[::97]))
        if not np.allclose(ev, tab[::97, 1:], rtol=0, atol=1e-12):
            rep.violation(f"defaultIntegrals.{nm} does not reproduce the rows of its own table file", {"table": nm}, finding_key=f"C20:loaded:{nm}")

    # ---- 4. interpolated values and first derivative off the nodes, whole range
    nper = 12 if quick else 120
    edges = [-20, -15, -11, -math.pi ** 2 - 0.9, -math.pi ** 2 + 0.9, -6, -3, -1.5, 0, 1.5, 3, 6, 10, 30, 100, 1000]
    for boson in (True, False):
        nm = names[boson]
        f = interp[boson]
        worst = {}
        for lo, hi in zip(edges[:-1], edges[1:]):
            pts = np.array([r.uniform(lo, hi) for _ in range(nper)])
            v = np.asarray(f(pts))
            dv = np.asarray(f.derivative(pts, order=1))
            for j, xx in enumerate(pts):
                rep.case(key=("interp", nm, _region(xx), round(xx, 2)))
                rep.count(f"interpolated {nm} {_region(xx)}")
                wre, wim = R.ref_J(xx, boson), R.ref_J(xx, boson, True)
                dre = float(R.series_dJ(xx, boson)[0]) if xx >= 0.5 else R.ref_dJ(xx, boson)
                e_val = max(abs(v[j, 0] - wre), abs(v[j, 1] - wim))
                e_der = abs(dv[j, 0] - dre)
                bad_val, bad_der = e_val > 1e-6, e_der > 1e-4 * abs(dre) + 1e-7
                if not (bad_val or bad_der):
                    continue
                nearbp = R.near_branch_point(xx, boson) and e_val <= 5e-3 and e_der <= 0.12 * abs(dre) + 1e-3
                info = {"integral": nm, "x": float(xx), "interpolated": v[j].tolist(), "reference": [wre, wim],
                        "interpolated_derivative": float(dv[j, 0]), "reference_derivative": dre,
                        "how": f"WallGo.PotentialTools.defaultIntegrals.{nm}(x), .derivative(x) vs harness/thermal_ref"}
                what = "value" if bad_val else "first derivative"
                rep.violation(f"shipped {nm} table does not reproduce the {what} of the integral at x={xx}", info,
                              finding_key=KEY_RES if nearbp else f"C20:interp:{nm}:{what}:{_region(xx)}")
                worst[_region(xx)] = max(worst.get(_region(xx), 0), e_val)
    # value at zero through the tables
    for boson, exact in ((True, R.JB0), (False, R.JF0)):
        got = np.ravel(interp[boson](0.0))
        if not abs(got[0] - exact) <= 1e-06 or not abs(got[1]) <= 1e-06:
            rep.violation(f"interpolated {names[boson]}(0) is not the known value",
                          {"integral": names[boson], "interpolated": got.tolist(), "exact": exact},
                          finding_key=KEY_RES if abs(got[0] - exact) < 5e-3 else f"C20:zero-interp:{names[boson]}")

    # ---- 5. the one-loop thermal potential built from them
    from WallGo.PotentialTools.integrals import Integrals
    pots = {"direct": _potential(integrals=Integrals()), "tables": _potential(default=True)}
    ntest = 6 if quick else 60
    try:
        for kind, pot in pots.items():
            for _ in range(ntest):
                nb, nf = r.randint(0, 5), r.randint(0, 5)
                T = 10 ** r.uniform(-3, 3)
                dB = np.array([float(r.randint(1, 24)) for _ in range(nb)])
                dF = np.array([float(r.randint(1, 12)) for _ in range(nf)])
                # (a) Stefan-Boltzmann
                rep.case(key=("SB", kind, nb, nf, round(math.log10(T), 1)))
                rep.count(f"potential {kind}")
                v = float(pot.potentialOneLoopThermal((np.zeros(nb), dB, 0, 0), (np.zeros(nf), dF, 0, 0), T))
                sb = -math.pi ** 2 / 90 * (dB.sum() + 7 / 8 * dF.sum()) * T ** 4
                if not abs(v - sb) <= 1e-6 * abs(sb) + 1e-300:
                    rel = abs(v - sb) / abs(sb) if sb else math.inf
                    rep.violation("massless one-loop thermal potential is not the Stefan-Boltzmann free energy",
                                  {"integrals": kind, "T": T, "boson_dofs": dB.tolist(), "fermion_dofs": dF.tolist(), "potential": v,
                                   "stefan_boltzmann": sb, "rel_diff": rel},
                                  finding_key=KEY_RES if (kind == "tables" and rel < 5e-4) else f"C20:SB:{kind}")
                # (b) heavy particles: Boltzmann suppressed
                # inside the table and far beyond its upper end (m/T up to 1000)
                X = np.array([r.choice((r.uniform(100, 900), 10 ** r.uniform(3, 6), r.uniform(1000, 1400))) for _ in range(nb + nf)])
                from scipy.special import kv
                v = float(pot.potentialOneLoopThermal((X[:nb] * T * T, dB, 0, 0), (X[nb:] * T * T, dF, 0, 0), T))
                bound = T ** 4 / (2 * math.pi ** 2) * float(np.sum(np.concatenate([dB, dF]) * 1.05 * X * kv(2, np.sqrt(X))))
                rep.case(key=("heavy", kind, nb, nf))
                if not (abs(v) <= bound + 1e-7 * T ** 4 and v <= 1e-9 * T ** 4):
                    rep.violation("heavy particles are not Boltzmann suppressed in the thermal potential",
                                  {"integrals": kind, "T": T, "x": X.tolist(), "potential": v, "bound": bound}, finding_key=f"C20:heavy:{kind}")
                # (c) generic spectrum = T^4/(2 pi^2) sum n J_ref
                mB = np.array([r.choice([r.uniform(-19, -0.5), r.uniform(2, 60), r.uniform(0, 2)]) for _ in range(nb)])
                mF = np.array([r.uniform(2, 60) for _ in range(nf)])
                v = float(pot.potentialOneLoopThermal((mB * T * T, dB, 0, 0), (mF * T * T, dF, 0, 0), T))
                want = T ** 4 / (2 * math.pi ** 2) * (sum(d * R.ref_J(m, True) for m, d in zip(mB, dB)) + sum(d * R.ref_J(m, False) for m, d in zip(mF, dF)))
                rep.case(key=("generic", kind, nb, nf))
                if not abs(v - want) <= 2e-6 * T ** 4 * (1 + dB.sum() + dF.sum()):
                    nearbp = kind == "tables" and any(R.near_branch_point(m, True) for m in mB) and abs(v - want) <= 5e-3 * T ** 4 * dB.sum()
                    rep.violation("thermal potential differs from T^4/(2 pi^2) sum n J(m^2/T^2)",
                                  {"integrals": kind, "T": T, "msqB_over_T2": mB.tolist(), "msqF_over_T2": mF.tolist(), "dofsB": dB.tolist(),
                                   "dofsF": dF.tolist(), "potential": v, "expected": want},
                                  finding_key=KEY_RES if nearbp else f"C20:potential:{kind}")
            # (d) continuity in one mass across 0, the table ends and the branch points
            T = 1.7
            for centre in (0.0, -20.0, 1000.0, -math.pi ** 2, 0.05, 37.3):
                if kind == "direct" and centre in (37.3,):
                    continue
                for d in (1e-6, 1e-8):
                    for isB in (True, False):
                        def one(x):
                            sp = (np.array([x * T * T]), np.array([3.0]), 0, 0)
                            em = (np.zeros(0), np.zeros(0), 0, 0)
                            return float(pot.potentialOneLoopThermal(sp if isB else em, em if isB else sp, T))
                        a, b = one(centre - d), one(centre + d)
                        rep.case(key=("continuity", kind, centre, isB))
                        rep.count("continuity probes")
                        # |J'| <= 12 on the range; allow the 1e-6 table/direct seam
                        if not abs(a - b) <= T ** 4 / (2 * math.pi ** 2) * 3.0 * (12 * 2 * d + 2e-6):
                            rep.violation("thermal potential jumps under an infinitesimal change of a mass",
                                          {"integrals": kind, "T": T, "msq_over_T2": centre, "delta": d, "boson": isB, "left": a, "right": b},
                                          finding_key=f"C20:continuity:{kind}:{centre}")
    finally:
        # _potential(default=True) switched the shared defaultIntegrals to CONSTANT extrapolation: restore
        for f in (DI.Jb, DI.Jf):
            f.setExtrapolationType(extrapolationTypeLower=EExtrapolationType.NONE, extrapolationTypeUpper=EExtrapolationType.NONE)
    # history independence of the "no interpolation" path: a plain Integrals() / EffectivePotentialNoResum() evaluates the defining integrals,
    # so the value at a given (m, T) must not depend on how many other arguments the same object has been asked for before
    for label, mk in (("Integrals()", lambda: _potential(integrals=Integrals())), ("EffectivePotentialNoResum() without integrals", lambda: _potential())):
        try:
            ph = mk()
        except Exception as ex:  # noqa: BLE001
            rep.count("history potential construction raised " + type(ex).__name__)
            continue
        Th = 1.3
        em = (np.zeros(0), np.zeros(0), 0, 0)
        probes = [0.11, 0.7, 1.9, 4.3, 33.0]

        def vals():
            return [float(ph.potentialOneLoopThermal((np.array([x * Th * Th]), np.array([2.0]), 0, 0), (np.array([1.3 * x * Th * Th]), np.array([4.0]), 0, 0), Th))
                    for x in probes]
        before = vals()
        nscan = 560 if quick else 1500
        for j in range(nscan):                      # a scan over a wide range of masses, one argument per call as a minimiser would do
            xs_ = 2500.0 * (j + 0.5) / nscan
            ph.potentialOneLoopThermal((np.array([xs_ * Th * Th]), np.array([1.0]), 0, 0), (np.array([0.9 * xs_ * Th * Th]), np.array([1.0]), 0, 0), Th)
        after = vals()
        want = [Th ** 4 / (2 * math.pi ** 2) * (2.0 * R.ref_J(x, True) + 4.0 * R.ref_J(1.3 * x, False)) for x in probes]
        rep.case(key=("history", label))
        rep.count("history-independence scans")
        dh = max(abs(a - b) / abs(b) for a, b in zip(after, before))
        dr = max(abs(a - w) / abs(w) for a, w in zip(after, want))
        if not dh <= 1e-09 or not dr <= 1e-05:
            rep.violation("the thermal potential at fixed masses and temperature changes after the same object has been evaluated at many other arguments",
                          {"object": label, "T": Th, "msq_over_T2": probes, "before": before, "after": after, "defining_integrals": want,
                           "other_evaluations_in_between": nscan, "rel_change": dh, "rel_diff_from_defining_integrals": dr},
                          finding_key="C20:history")
    # independence of separately built default potentials: the owner of ONE default potential (integrals=None, no default interpolation) tabulates
    # ITS OWN Jb/Jf coarsely on [0, 25] with constant extrapolation (public API); another default potential built before, and one built afterwards,
    # must still give Stefan-Boltzmann, Boltzmann suppression at m/T = 40 and the defining integrals (negative m^2, arguments beyond 25)
    try:
        pOwn, pOther = _potential(), _potential()
        for J_ in (pOwn.integrals.Jb, pOwn.integrals.Jf):
            J_.newInterpolationTable(0.0, 25.0, 26)
            J_.setExtrapolationType(EExtrapolationType.CONSTANT, EExtrapolationType.CONSTANT)
        others = (("built before", pOther), ("built afterwards", _potential()))
    except Exception as ex:  # noqa: BLE001
        rep.count("independent-potentials construction raised " + type(ex).__name__)
        others = ()
    for label, po in others:
        from scipy.special import kv
        Ti, dBi, dFi = 80.0, np.array([1.0, 3.0]), np.array([4.0, 12.0])
        pref = Ti ** 4 / (2 * math.pi ** 2)
        info0 = {"scenario": f"default EffectivePotentialNoResum {label} another default potential tabulated its own integrals on [0,25] "
                              "(newInterpolationTable(0,25,26), CONSTANT extrapolation)", "T": Ti, "dofsB": dBi.tolist(), "dofsF": dFi.tolist()}
        spectra = [("SB", [0.0, 0.0], [0.0, 0.0]), ("heavy", [1600.0, 1600.0], [1600.0, 1600.0]), ("generic", [0.37, 4.2], [0.05, 11.3]),
                   ("generic", [-3.3, 47.0], [1.7, 140.0]), ("generic", [-14.5, -33.0], [62.5, 410.0])]
        for what, xB, xF in spectra:
            xB, xF = np.array(xB), np.array(xF)
            v = float(po.potentialOneLoopThermal((xB * Ti * Ti, dBi, 0, 0), (xF * Ti * Ti, dFi, 0, 0), Ti))
            rep.case(key=("independent", label, what, tuple(xB), tuple(xF)))
            rep.count("independent default potentials")
            if what == "SB":
                want = -math.pi ** 2 / 90 * (dBi.sum() + 7 / 8 * dFi.sum()) * Ti ** 4
                bad = not abs(v - want) <= 1e-6 * abs(want)
            elif what == "heavy":
                want = pref * float(np.sum(np.concatenate([dBi, dFi]) * 1.05 * 1600.0 * kv(2, 40.0)))      # bound on |V|
                bad = not (abs(v) <= want + 1e-7 * Ti ** 4 and v <= 1e-9 * Ti ** 4)
            else:
                want = pref * (sum(d * R.ref_J(m, True) for m, d in zip(xB, dBi)) + sum(d * R.ref_J(m, False) for m, d in zip(xF, dFi)))
                bad = not abs(v - want) <= 2e-6 * Ti ** 4 * (1 + dBi.sum() + dFi.sum())
            if bad:
                rep.violation("a default-constructed potential no longer evaluates the defining thermal integrals after ANOTHER potential configured its own "
                              f"integrals ({what}: " + {"SB": "not Stefan-Boltzmann", "heavy": "m/T=40 not Boltzmann suppressed", "generic": "differs from T^4/(2 pi^2) sum n J"}[what] + ")",
                              dict(info0, msqB_over_T2=xB.tolist(), msqF_over_T2=xF.tolist(), potential=v, expected_or_bound=want, potential_over_T4=v / Ti ** 4,
                                   how="p1 = V(); p2 = V(); p1.integrals.Jb/Jf.newInterpolationTable(0,25,26) + setExtrapolationType(CONSTANT, CONSTANT); "
                                       "p2.potentialOneLoopThermal(...) (and p3 = V() built afterwards) vs harness/thermal_ref"),
                              finding_key="C20:independent-potentials")
    # the caller's spectrum arrays, built once and used for a scan over (scalar) temperatures: they must come back unmodified, and the value at
    # a temperature must not depend on the temperatures asked before
    for label, mk in (("Integrals()", lambda: _potential(integrals=Integrals())), ("shipped tables", lambda: _potential(default=True))):
        try:
            pa = mk()
            mB_, dB_ = np.array([0.0, 0.3, 2.5, 90.0]), np.array([1.0, 3.0, 6.0, 2.0])
            mF_, dF_ = np.array([0.0, 1.7, 400.0]), np.array([4.0, 12.0, 2.0])
            keep = (mB_.copy(), mF_.copy(), dB_.copy(), dF_.copy())
            seq = [2.0, 1.0, 0.5, 3.0, 2.0]
            got = [float(pa.potentialOneLoopThermal((mB_, dB_, 0, 0), (mF_, dF_, 0, 0), T_)) for T_ in seq]
            want = [T_ ** 4 / (2 * math.pi ** 2) * (sum(d * R.ref_J(m / T_ ** 2, True) for m, d in zip(keep[0], keep[2]))
                                                   + sum(d * R.ref_J(m / T_ ** 2, False) for m, d in zip(keep[1], keep[3]))) for T_ in seq]
        except Exception as ex:  # noqa: BLE001
            rep.count("spectrum-reuse run raised " + type(ex).__name__)
            continue
        finally:
            for f_ in (DI.Jb, DI.Jf):
                f_.setExtrapolationType(extrapolationTypeLower=EExtrapolationType.NONE, extrapolationTypeUpper=EExtrapolationType.NONE)
        rep.case(key=("spectrum-reuse", label))
        rep.count("spectrum arrays reused over a temperature scan")
        changed = not (np.array_equal(mB_, keep[0]) and np.array_equal(mF_, keep[1]) and np.array_equal(dB_, keep[2]) and np.array_equal(dF_, keep[3]))
        tol_ = 2e-6 if label == "Integrals()" else 2e-3      # the shipped tables carry the known branch-point resolution (C20-Z) near x = 0
        off_ = max(abs(g - w_) / abs(w_) for g, w_ in zip(got, want))
        if changed or not abs(got[0] - got[-1]) <= 1e-12 * abs(got[0]) or (not off_ <= tol_):
            rep.violation("a spectrum array supplied by the caller is modified by potentialOneLoopThermal, or the value at a temperature depends on "
                          "the temperatures evaluated before with the same arrays",
                          {"integrals": label, "temperatures": seq, "values": got, "expected": want, "msqB_after": mB_.tolist(), "msqB_supplied": keep[0].tolist(),
                           "msqF_after": mF_.tolist(), "msqF_supplied": keep[1].tolist()}, finding_key="C20:spectrum-aliasing")
    # ERROR option refuses negative mass squared instead of silently dropping the imaginary part
    pe = _potential(integrals=Integrals(), option=EImaginaryOption.ERROR)
    try:
        pe.potentialOneLoopThermal((np.array([-1.0]), np.array([1.0]), 0, 0), (np.zeros(0), np.zeros(0), 0, 0), 1.0)
        rep.violation("imaginaryOption=ERROR accepted a negative mass squared", {}, finding_key="C20:error-option")
    except ValueError:
        pass
    rep.case(key=("error-option",))
