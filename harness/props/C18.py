"""C18 -- interpolated functions honour their evaluation contract for every call history."""
from __future__ import annotations

import os
import random
import tempfile

import numpy as np

import common as C

LEAN_MODULE = "WallGoVerif.Props.C18"
LEMMA_MODULES = ["WallGoVerif.Lemmas.Interp", "WallGoVerif.Model.Interp"]
GEN_MODULES = []
RULE = ("obligations = Lean theorems of Props.C18 about Model.Interp (invariant for every operation history incl. raising ops: table "
        "has >= 2 strictly increasing abscissae, adaptive counter below threshold, non-finite points dropped individually; evaluate/"
        "derivative return one entry per input entry with exactly the provenance the per-side mode prescribes; reread is the identity) "
        "+ line-protocol correspondence of the model with the REAL class on random operation histories (state compared after every "
        "op, provenance of every returned entry) + value-accuracy / shape / round-trip search with cubic test functions; distinct = "
        "(k, op kind, mode pair, input shape, in/below/above pattern)")
ASSUMPTIONS = ["abscissae are dyadic rationals so that float arithmetic in linspace/extension is exact and the Rat model is comparable bit for bit",
               "scipy CubicSpline is an oracle (exact on cubics, not-a-knot); interpolation accuracy is checked numerically",
               "the provenance instrumentation subclasses the real class and wraps helpers.derivative from outside (no source hooks)"]
KEY_MIDCALL = "C18:midcall-adaptive-update"


def corr(rep: C.Report, tier: str):
    import c18_ref as R
    R.M.helpers.derivative = R.fake_derivative
    try:
        lines, outs, marks, nseq = _histories(rep, tier, R)
    finally:
        R.M.helpers.derivative = R.REAL_DERIV        # undo the provenance wrapper (also when the reference raised): the search uses the plain class
    lo = C.lean_run("InterpQ", lines, timeout=1800)
    badseeds = {}
    for i, (ln, o) in enumerate(zip(lines, outs)):
        lv = lo[i] if i < len(lo) else "<missing>"
        if not R.same(o, lv) and marks[i] not in badseeds:
            j0 = max(0, i - 10)
            badseeds[marks[i]] = [{"op": lines[j], "real": outs[j], "model": lo[j] if j < len(lo) else None}
                                  for j in range(j0, i + 1) if marks[j] == marks[i]]
    rep.obligation("correspondence Model.Interp = real InterpolatableFunction on random operation histories "
                   "(outputs with provenance + full state after every op)", "correspondence", not badseeds,
                   f"{nseq} histories, {len(lines)} lines, {len(badseeds)} diverging")
    rep.extra["diverging_histories"] = list(badseeds.values())[:2]


def _histories(rep, tier, R):
    nseq, nops = (120, 14) if tier == "quick" else (3000, 22)
    lines, outs, marks = [], [], []
    seed0 = C.SEED * 100000
    for sd in range(seed0, seed0 + nseq):
        rng = random.Random(sd)
        ref = R.Ref()
        for op, extra in R.gen(rng, nops):
            if op == "DERIV":
                u, order, scale, xs, shape = extra
                ref.scale = float(scale)
                dxs = ref.dxs([float(x) for x in xs], order, u, float(scale))
                line = f"derivx {u} {order} " + " ".join(f"{R.sr(x)} {R.sr(R.fr(d))}" for x, d in zip(xs, dxs))
                out = ref.do(line, shape)
                kind = "deriv"
            else:
                line = op
                out = ref.do(line, extra)
                kind = op.split()[0]
            lines.append(line)
            outs.append(out)
            marks.append(sd)
            rep.case(key=(kind, out.split(":")[0] if out.startswith("error") else "ok", len(line.split())),
                     sample={"op": line, "real": out} if len(rep.samples) < 6 and kind in ("eval", "deriv") else None)
            rep.count(f"op {kind}" + (" -> error" if out.startswith("error") else ""))
            lines.append("get")
            outs.append(ref.do("get"))
            marks.append(sd)
    return lines, outs, marks, nseq


def search(rep: C.Report, tier: str, broken):
    """The property itself on the real class, independent of the model."""
    from WallGo.interpolatableFunction import InterpolatableFunction, EExtrapolationType as E
    r = C.rng("C18search")

    def make(k, coef):
        class Cubic(InterpolatableFunction):
            calls = None

            def _functionImplementation(self, x):
                x = np.asanyarray(x, dtype=float)
                if self.calls is not None:
                    self.calls.append(np.array(x).ravel().copy())
                cols = [c[0] + c[1] * x + c[2] * x ** 2 + c[3] * x ** 3 for c in coef[:k]]
                out = np.stack(cols, axis=-1) if k > 1 else cols[0]
                bad = np.isin(x, self.badpts)
                if k > 1:
                    out = np.where(bad[..., None], np.nan, out)
                else:
                    out = np.where(bad, np.nan, out)
                return out
        return Cubic

    modes = [E.NONE, E.ERROR, E.CONSTANT, E.FUNCTION]
    shapes = [(), (3,), (2, 3), "list"]
    n = 300 if tier == "quick" else 6000
    if broken:
        n *= 3
    for it in range(n):
        k = r.randint(1, 4)
        coef = [[r.randint(-3, 3) for _ in range(4)] for _ in range(4)]
        cls = make(k, coef)
        f = cls(bUseAdaptiveInterpolation=False, initialInterpolationPointCount=10, returnValueCount=k)
        f.badpts = []
        lo_, hi_ = r.randint(-4, 0), r.randint(1, 5)
        npt = r.choice((9, 9, 17))
        ml, mu = r.choice(modes), r.choice(modes)
        # non-finite values anywhere in the table, INCLUDING its outermost points (the function may only exist on a sub-interval)
        u_ = r.random()
        if u_ < 0.25:
            f.badpts = [lo_ + (hi_ - lo_) * r.randint(1, npt - 2) / (npt - 1)]
        elif u_ < 0.45:
            nlo, nhi = r.randint(0, 2), r.randint(0, 2)
            f.badpts = [lo_ + (hi_ - lo_) * i / (npt - 1) for i in list(range(nlo)) + list(range(npt - nhi, npt))]
        else:
            f.badpts = []
        # the modes may be chosen before or after the table is built (a later mode change rebuilds the table)
        modes_first = r.random() < 0.5
        if modes_first:
            f.setExtrapolationType(ml, mu)
        ngood = npt - len(set(f.badpts))
        try:
            f.newInterpolationTable(float(lo_), float(hi_), npt)
        except ValueError:
            if not ngood < 2:
                rep.violation("building a table with at least two finite-valued points raised ValueError",
                              {"k": k, "table": [lo_, hi_, npt], "bad": f.badpts}, finding_key="C18:scalar-drop-all" if k == 1 else "C18:table-raises")
            continue
        if not modes_first:
            f.setExtrapolationType(ml, mu)
        if r.random() < 0.4:
            # bounds that are NOT exactly representable multiples of the spacing: the extended table must end exactly there
            nlo, nhi = lo_ - r.randint(0, 3) - r.choice((0.0, 0.3 + r.random() / 3)), hi_ + r.randint(0, 3) + r.choice((0.0, 0.3 + r.random() / 7))
            pmin, pmax = r.choice((0, 1, 2, 3, 4)), r.choice((0, 1, 2, 3, 4))
            before = (f.interpolationRangeMin(), f.interpolationRangeMax())
            f.extendInterpolationTable(nlo, nhi, pmin, pmax)
            want = (nlo if (nlo < before[0] and pmin > 0) else before[0], nhi if (nhi > before[1] and pmax > 0) else before[1])
            got = (f.interpolationRangeMin(), f.interpolationRangeMax())
            rep.count("table extensions")
            if got != want and not f.badpts:
                rep.violation("an extended table does not end exactly at the requested bounds (the requested end point is out of range)",
                              {"k": k, "table": [lo_, hi_, npt], "extend_to": [nlo, nhi], "points": [pmin, pmax], "range_after": list(got),
                               "expected_range": list(want)}, finding_key="C18:extension-misses-requested-end")
        info = {"k": k, "coef": coef[:k], "modes": [ml.name, mu.name], "table": [lo_, hi_, npt], "bad": f.badpts}
        pts = np.asarray(f._interpolationPoints)
        # invariant: strictly increasing, bad points left out individually (and only those)
        good = [lo_ + (hi_ - lo_) * i / (npt - 1) for i in range(npt)]
        good = [g_ for g_ in good if g_ not in f.badpts]
        rng_ok = (not f.hasInterpolation()) or (f.interpolationRangeMin() == min(pts) and f.interpolationRangeMax() == max(pts))
        if not np.all(np.diff(pts) > 0) or any(b in pts for b in f.badpts) or not all(g_ in pts for g_ in good) or not rng_ok:
            rep.violation("table abscissae not strictly increasing / non-finite points not dropped individually",
                          dict(info, points=pts.tolist()), finding_key="C18:scalar-drop-all" if k == 1 else "C18:invariant")
            continue
        if len(pts) < 5:
            rep.count("tables with < 5 points (cubic not reproduced exactly: value checks skipped)")
            continue
        rmin, rmax = f.interpolationRangeMin(), f.interpolationRangeMax()
        shp = r.choice(shapes)
        m = 1 if shp == () else (3 if shp in ((3,), "list") else 6)
        if f.badpts:
            shp = "list" if shp != () else ()        # the number of usable test abscissae may shrink below
        xs = np.array([r.choice((r.uniform(rmin, rmax), rmin - r.uniform(0.1, 2), rmax + r.uniform(0.1, 2), rmin, rmax,
                                 rmin - r.uniform(0.001, 0.2), rmax + r.uniform(0.001, 0.2))) for _ in range(m)])
        xs = np.array([x_ for x_ in xs if x_ not in f.badpts] or [0.5 * (rmin + rmax)])
        m = len(xs)
        xs = np.array([x for x in xs])
        if shp == ():
            xs = xs[:1]
            m = 1
        x = float(xs[0]) if shp == () else (xs.tolist() if shp == "list" else xs.reshape(shp))
        truth = lambda z: (np.stack([c[0] + c[1] * z + c[2] * z ** 2 + c[3] * z ** 3 for c in coef[:k]], axis=-1)
                           if k > 1 else coef[0][0] + coef[0][1] * z + coef[0][2] * z ** 2 + coef[0][3] * z ** 3)  # noqa: E731
        below, above = xs < rmin, xs > rmax
        pattern = ("b" if below.any() else "") + ("i" if (~below & ~above).any() else "") + ("a" if above.any() else "")
        rep.case(key=(k, ml.name, mu.name, str(shp), pattern), sample=dict(info, x=np.asarray(x).tolist()) if len(rep.samples) < 10 and it % 50 == 0 else None)
        rep.count(f"eval pattern {pattern}")
        expect_error = (below.any() and ml == E.ERROR) or (above.any() and mu == E.ERROR)
        f.calls = []
        try:
            res = np.asarray(f(x))
            err = None
        except ValueError:
            err = "ValueError"
        except Exception as ex:  # noqa: BLE001
            err = type(ex).__name__
        direct_calls = np.concatenate(f.calls) if f.calls else np.array([])
        f.calls = None
        if expect_error:
            if err != "ValueError":
                rep.violation(f"out-of-range evaluation with mode ERROR did not raise ValueError (got {err})",
                              dict(info, x=np.asarray(x).tolist()), finding_key="C18:error-mode")
            continue
        if err is not None:
            rep.violation(f"evaluation raised {err} although no ERROR mode applies",
                          dict(info, x=np.asarray(x).tolist()), finding_key="C18:scalar-out-of-bounds" if err == "IndexError" else f"C18:raises:{err}")
            continue
        want_shape = np.shape(x) + ((k,) if k > 1 else ())
        if res.shape != want_shape:
            rep.violation("result shape does not match the input shape", dict(info, x=np.asarray(x).tolist(), got=list(res.shape),
                          want=list(want_shape)), finding_key="C18:shape")
            continue
        flat = res.reshape((m,) + ((k,) if k > 1 else ()))
        bothNone = ml == E.NONE and mu == E.NONE
        for i, xv in enumerate(xs):
            if below[i] or above[i]:
                md = ml if below[i] else mu
                if bothNone or md == E.NONE:
                    want, need_direct = truth(xv), True
                elif md == E.CONSTANT:
                    want, need_direct = truth(rmin if below[i] else rmax), False
                else:
                    want, need_direct = truth(xv), False          # cubic: spline extrapolation is exact
            else:
                want, need_direct = truth(xv), False
            tol = 1e-9 * (1 + np.max(np.abs(want)))
            if not np.all(np.abs(flat[i] - want) <= tol) or (need_direct != bool(np.any(direct_calls == xv))):
                rep.violation("returned entry is not what the mode on that side prescribes (value or direct-call provenance)",
                              dict(info, x=float(xv), got=np.asarray(flat[i]).tolist(), want=np.asarray(want).tolist(),
                                   direct_call_made=bool(np.any(direct_calls == xv)), direct_call_expected=need_direct,
                                   range=[float(rmin), float(rmax)]), finding_key="C18:mode-rule")
        # derivatives follow the same rule element by element
        order = r.choice((1, 2))
        dtruth = lambda z: (np.stack([(c[1] + 2 * c[2] * z + 3 * c[3] * z ** 2) if order == 1 else (2 * c[2] + 6 * c[3] * z) for c in coef[:k]], axis=-1)
                            if k > 1 else ((coef[0][1] + 2 * coef[0][2] * z + 3 * coef[0][3] * z ** 2) if order == 1 else (2 * coef[0][2] + 6 * coef[0][3] * z)))  # noqa: E731
        try:
            dres = np.asarray(f.derivative(x, order=order, scale=0.5, epsilon=1e-12))
            derr = None
        except ValueError:
            derr = "ValueError"
        except Exception as ex:  # noqa: BLE001
            derr = type(ex).__name__
        if derr is not None:
            if not expect_error and derr != "ValueError":
                rep.violation(f"derivative raised {derr}", dict(info, x=np.asarray(x).tolist(), order=order),
                              finding_key="C18:derivative-out-of-range")
            continue
        if dres.shape != want_shape:
            rep.violation("derivative shape does not match the input shape", dict(info, got=list(dres.shape), want=list(want_shape)),
                          finding_key="C18:derivative-out-of-range")
            continue
        dflat = dres.reshape((m,) + ((k,) if k > 1 else ()))
        for i, xv in enumerate(xs):
            inside = not (below[i] or above[i])
            md = None if inside else (ml if below[i] else mu)
            smooth = inside or md in (E.NONE, E.FUNCTION) or bothNone
            dist = min(abs(xv - rmin), abs(xv - rmax))
            if smooth and (inside or dist > 0.05):
                want = dtruth(xv)
                if not np.all(np.abs(dflat[i] - want) <= 1e-5 * (1 + np.max(np.abs(want)))):
                    rep.violation("derivative entry differs from the derivative of the prescribed function",
                                  dict(info, x=float(xv), order=order, got=np.asarray(dflat[i]).tolist(), want=np.asarray(want).tolist()),
                                  finding_key="C18:derivative-out-of-range")
            elif md == E.CONSTANT and dist > 0.05:
                if not np.all(np.abs(dflat[i]) <= 1e-6):
                    rep.violation("derivative outside the range with CONSTANT mode is not zero",
                                  dict(info, x=float(xv), order=order, got=np.asarray(dflat[i]).tolist()), finding_key="C18:derivative-out-of-range")
        # file round trip reproduces the same function
        if it % 10 == 0:
            fn = os.path.join(tempfile.gettempdir(), f"wgverif_c18_{os.getpid()}.txt")
            f.writeInterpolationTable(fn)
            g = cls(bUseAdaptiveInterpolation=False, initialInterpolationPointCount=10, returnValueCount=k)
            g.badpts = []
            g.readInterpolationTable(fn)
            os.unlink(fn)
            # the file holds 15 significant digits: abscissae that are not short decimals come back rounded in the last place
            zz = np.linspace(rmin, rmax, 15)[1:-1]
            rep.count("file round trips")
            ends_ok = abs(g.interpolationRangeMin() - rmin) <= 1e-14 * max(1, abs(rmin)) and abs(g.interpolationRangeMax() - rmax) <= 1e-14 * max(1, abs(rmax))
            if g.numPoints() != f.numPoints() or not ends_ok or not np.allclose(np.asarray(g._interpolatedFunction(zz)), np.asarray(f._interpolatedFunction(zz)), rtol=1e-10, atol=1e-10):
                rep.violation("writing a table and reading it back does not reproduce the same function", info, finding_key="C18:roundtrip")
    # directed: extension of tables lying at negative / mixed-sign abscissae to arbitrary float bounds ends exactly there, and the
    # requested end points are IN range afterwards (no error in ERROR mode, no second adaptive extension)
    cls = make(1, [[1, 2, 0, 1]] * 4)
    for _ in range(60 if tier == "quick" else 1500):
        f = cls(bUseAdaptiveInterpolation=False, initialInterpolationPointCount=10, returnValueCount=1)
        f.badpts = []
        a = -r.randint(1, 12) * 9 / 8
        b = a + r.randint(1, 8) * 9 / 8
        f.newInterpolationTable(a, b, r.choice((4, 5, 9)))
        f.setExtrapolationType(E.ERROR, E.ERROR)
        # bounds drawn independently of the table ends (not on the floating-point grid of the end points)
        nlo = r.uniform(a - 3, a - 1e-3)
        nhi = r.choice((r.uniform(b + 1e-3, b + 3), r.uniform(-1e-2, 1e-2), 10 ** r.uniform(-6, 0)))
        if nhi <= b:
            nhi = r.uniform(b + 1e-3, b + 3)
        pmin, pmax = r.randint(1, 5), r.randint(1, 5)
        f.extendInterpolationTable(nlo, nhi, pmin, pmax)
        rep.case(key=("extension-ends", round(a, 2), round(b, 2), pmin, pmax))
        rep.count("directed table extensions")
        info = {"table": [a, b], "extend_to": [nlo, nhi], "points": [pmin, pmax], "range_after": [f.interpolationRangeMin(), f.interpolationRangeMax()]}
        ok = f.interpolationRangeMin() == nlo and f.interpolationRangeMax() == nhi
        if ok:
            try:
                f(np.array([nlo, nhi]))
            except ValueError:
                ok = False
        if not ok:
            rep.violation("an extended table does not end exactly at the requested bounds (the requested end point is out of range)", info,
                          finding_key="C18:extension-misses-requested-end")
    # directed: the abscissae may be given as integers (python ints, integer lists and arrays): every entry, in range or not, must be what the
    # same call with float-typed input returns, for every return dimension and mode pair that does not raise
    for k in (1, 3):
        coefI = [[1.3, -2.1, 0.7, 0.31], [0.25, 1.1, 0.0, -0.9], [2.2, 0.0, 1.7, 0.0], [1.5, 1.25, 1.125, 0.3]]   # non-integer values at integer points
        clsI = make(k, coefI)
        for ml, mu in [(a_, b_) for a_ in modes for b_ in modes if E.ERROR not in (a_, b_)]:
            f = clsI(bUseAdaptiveInterpolation=False, initialInterpolationPointCount=10, returnValueCount=k)
            f.badpts = []
            f.newInterpolationTable(1.0, 4.0, 13)
            f.setExtrapolationType(ml, mu)
            for xi_ in (6, -1, 2, [0, 2, 3, 6], np.array([-2, 1, 4, 7]), np.array([[0, 2], [5, 9]], dtype=np.int64)):
                xf_ = float(xi_) if np.ndim(xi_) == 0 else np.asarray(xi_, dtype=float)
                rep.case(key=("integer-input", k, ml.name, mu.name, str(np.shape(xi_))))
                rep.count("integer-typed inputs")
                try:
                    ri, rf = np.asarray(f(xi_), dtype=float), np.asarray(f(xf_), dtype=float)
                    bad_ = ri.shape != rf.shape or not np.allclose(ri, rf, rtol=1e-12, atol=1e-12)
                    det = {"integer_input": np.asarray(xi_).tolist(), "result": ri.tolist(), "result_for_float_input": rf.tolist()}
                except Exception as ex:  # noqa: BLE001
                    bad_, det = True, {"integer_input": np.asarray(xi_).tolist(), "error": f"{type(ex).__name__}: {str(ex)[:120]}"}
                if bad_:
                    rep.violation("evaluation at integer-typed abscissae differs from the evaluation at the same abscissae given as floats",
                                  dict(det, returnValueCount=k, modes=[ml.name, mu.name], table=[1.0, 4.0, 13]), finding_key="C18:integer-input")
    # derivatives at points only just OUTSIDE the table (closer than the finite-difference stencil is wide, so that the stencil straddles the end of
    # the table) where the mode on that side is direct evaluation or spline extrapolation: both prescribe the cubic itself, whose derivative the
    # stencil reproduces -- whichever mode the OTHER side has
    for k in (1, 2, 4):
        coefE = [[1.3, -2.1, 0.7, 0.31], [0.25, 1.1, 0.0, -0.9], [2.2, 0.0, 1.7, 0.0], [-0.4, 0.6, -1.2, 0.2]]
        clsE = make(k, coefE)
        for ml in modes:
            for mu in modes:
                for order in (1, 2):
                    f = clsE(bUseAdaptiveInterpolation=False, initialInterpolationPointCount=10, returnValueCount=k)
                    f.badpts = []
                    f.newInterpolationTable(1.0, 4.0, 13)
                    f.setExtrapolationType(ml, mu)
                    for side, md in (("lower", ml), ("upper", mu)):
                        if md not in (E.NONE, E.FUNCTION):
                            continue
                        dxs = np.array([2e-4, 7e-4, 1.5e-3, 3e-3])
                        xq = 1.0 - dxs if side == "lower" else 4.0 + dxs
                        for xin in (xq, float(xq[1]), xq.reshape(2, 2)):
                            dwant = np.stack([(c[1] + 2 * c[2] * np.asarray(xin) + 3 * c[3] * np.asarray(xin) ** 2) if order == 1 else
                                              (2 * c[2] + 6 * c[3] * np.asarray(xin)) for c in coefE[:k]], axis=-1)
                            if k == 1:
                                dwant = dwant[..., 0]
                            rep.case(key=("derivative-just-outside", k, ml.name, mu.name, side, order, str(np.shape(xin))))
                            rep.count("derivative just outside the table")
                            try:
                                got = np.asarray(f.derivative(xin, order=order), dtype=float)
                                bad_ = got.shape != dwant.shape or not np.all(np.abs(got - dwant) <= 1e-4 * (1 + np.abs(dwant)))
                                det = {"got": got.tolist(), "exact": dwant.tolist()}
                            except Exception as ex:  # noqa: BLE001
                                bad_, det = True, {"error": f"{type(ex).__name__}: {str(ex)[:120]}"}
                            if bad_:
                                rep.violation("derivative just outside the table (stencil straddling its end) differs from the derivative of the function the mode "
                                              "on that side prescribes", dict(det, returnValueCount=k, modes=[ml.name, mu.name], side=side, order=order,
                                                                              x=np.asarray(xin).tolist(), table=[1.0, 4.0, 13]),
                                              finding_key="C18:derivative-just-outside")
    # directed histories: a derivative is taken, THEN the table changes (extension, mode change, new table from values), then a derivative is
    # asked inside the new range but outside the old one: it must be the derivative of the CURRENT table
    for k in (1, 3):
        coefH = [[1.3, -2.1, 0.7, 0.31], [0.25, 1.1, 0.0, -0.9], [2.2, 0.0, 1.7, 0.0]]
        clsH = make(k, coefH)
        for hist in ("extend", "modes+extend", "from-values", "extend-lower"):
            for order in (1, 2):
                f = clsH(bUseAdaptiveInterpolation=False, initialInterpolationPointCount=10, returnValueCount=k)
                f.badpts = []
                f.newInterpolationTable(1.0, 4.0, 13)
                f.derivative(np.array([2.0, 3.0]), order)                       # first use, on the old table
                try:
                    if hist == "extend":
                        f.extendInterpolationTable(1.0, 6.0, 0, 8)
                        xq = 5.25
                    elif hist == "extend-lower":
                        f.extendInterpolationTable(-1.0, 4.0, 8, 0)
                        xq = -0.5
                    elif hist == "modes+extend":
                        f.setExtrapolationType(E.CONSTANT, E.CONSTANT)
                        f.extendInterpolationTable(0.0, 6.0, 4, 8)
                        xq = 5.25
                    else:
                        xs_ = np.linspace(10.0, 14.0, 17)
                        f.newInterpolationTableFromValues(xs_, f._functionImplementation(xs_))
                        xq = 12.3
                    got = np.asarray(f.derivative(xq, order), dtype=float)
                except Exception as ex:  # noqa: BLE001
                    rep.violation("a derivative after a change of the table raised", {"history": hist, "order": order, "k": k, "error": f"{type(ex).__name__}: {str(ex)[:120]}"},
                                  finding_key="C18:derivative-after-table-change")
                    continue
                want = np.array([(c[1] + 2 * c[2] * xq + 3 * c[3] * xq ** 2) if order == 1 else (2 * c[2] + 6 * c[3] * xq) for c in coefH[:k]])
                want = want if k > 1 else want[0]
                rep.case(key=("derivative-after-table-change", k, hist, order))
                rep.count("derivative after a table change")
                if not (np.all(np.isfinite(got)) and np.allclose(got, want, rtol=1e-7, atol=1e-7)):
                    rep.violation("a derivative taken after the table changed is not the derivative of the current table (inside the new range)",
                                  {"history": "newInterpolationTable(1,4,13); derivative([2,3]); " + hist + f"; derivative({xq}, order={order})", "returnValueCount": k,
                                   "got": np.asarray(got).tolist(), "exact": np.asarray(want).tolist()}, finding_key="C18:derivative-after-table-change")
    # directed: vector-valued functions of which only ONE component is undefined (NaN or inf) below a threshold while the others are finite everywhere
    # (make() above only produces rows that are bad in ALL components): every way of building a table -- new table across the threshold, extension into
    # the undefined region, table from values, mode change (rebuild), write+read -- must not raise, must leave out exactly the abscissae below the
    # threshold, and the remaining table must reproduce the cubics. All abscissae are dyadic, so the expected abscissae are exact.
    coefP = [[1.3, -2.1, 0.7, 0.31], [0.25, 1.1, 0.0, -0.9], [2.2, 0.0, 1.7, 0.0], [-0.4, 0.6, -1.2, 0.2]]

    def makePartial(k, comp, badval):
        class Partial(InterpolatableFunction):
            def _functionImplementation(self, x):
                x = np.asanyarray(x, dtype=float)
                cols = [c[0] + c[1] * x + c[2] * x ** 2 + c[3] * x ** 3 for c in coefP[:k]]
                cols[comp] = np.where(x < 0.0, badval, cols[comp])          # this component only exists for x >= 0
                return np.stack(cols, axis=-1)
        return Partial

    truthP = lambda z, k: np.stack([c[0] + c[1] * z + c[2] * z ** 2 + c[3] * z ** 3 for c in coefP[:k]], axis=-1)  # noqa: E731
    for k, comp, badval in [(2, 0, np.nan), (2, 1, np.inf), (3, 1, np.nan), (3, 2, -np.inf), (4, 0, np.nan), (4, 3, np.nan)]:
        clsP = makePartial(k, comp, badval)
        for hist in ("new", "extend", "from-values", "new+modes", "new+write+read"):
            f = clsP(bUseAdaptiveInterpolation=False, initialInterpolationPointCount=10, returnValueCount=k)
            infoP = {"returnValueCount": k, "component_undefined_below_0": comp, "its_value_there": str(badval), "history": hist}
            rep.case(key=("partial-nonfinite-row", k, comp, str(badval), hist))
            rep.count("tables over rows that are non-finite in one component only")
            try:
                if hist == "extend":
                    f.newInterpolationTable(0.5, 3.0, 11)
                    f.extendInterpolationTable(-1.0, 3.0, 6, 0)              # new abscissae -1, -0.75, ..., 0.25: four of the six are below 0
                    wantpts = np.arange(0, 13) * 0.25
                    infoP["history"] = "newInterpolationTable(0.5,3,11); extendInterpolationTable(-1,3,6,0)"
                elif hist == "from-values":
                    xs_ = np.linspace(-0.5, 2.0, 21)
                    f.newInterpolationTableFromValues(xs_, f._functionImplementation(xs_))
                    wantpts = np.arange(0, 17) * 0.125
                    infoP["history"] = "newInterpolationTableFromValues(linspace(-0.5,2,21), f(...))"
                else:
                    f.newInterpolationTable(-1.0, 3.0, 17)
                    wantpts = np.arange(0, 13) * 0.25
                    infoP["history"] = "newInterpolationTable(-1,3,17)"
                    if hist == "new+modes":
                        f.setExtrapolationType(E.CONSTANT, E.FUNCTION)
                        infoP["history"] += "; setExtrapolationType(CONSTANT, FUNCTION)"
                    elif hist == "new+write+read":
                        fn = os.path.join(tempfile.gettempdir(), f"wgverif_c18p_{os.getpid()}.txt")
                        f.writeInterpolationTable(fn)
                        f = clsP(bUseAdaptiveInterpolation=False, initialInterpolationPointCount=10, returnValueCount=k)
                        f.readInterpolationTable(fn)
                        os.unlink(fn)
                        infoP["history"] += "; writeInterpolationTable; readInterpolationTable into a fresh object"
                pts = np.asarray(f._interpolationPoints, dtype=float)
                if pts.shape != wantpts.shape or not np.all(pts == wantpts) or not np.all(np.isfinite(np.asarray(f._interpolationValues))):
                    rep.violation("abscissae where one component is non-finite are not left out individually (exactly those, and only those)",
                                  dict(infoP, points=pts.tolist(), expected_points=wantpts.tolist()), finding_key="C18:partial-nonfinite-row")
                    continue
                zz = np.array([0.0, 0.07, 0.3, 0.95, 1.61, float(wantpts[-1])] + ([-0.7, 3.4] if hist == "new+modes" else []))
                got = np.asarray(f(zz), dtype=float)
                want = truthP(np.where(zz < 0, 0.0, zz), k)                    # CONSTANT below: the boundary value; FUNCTION above: the cubic itself
                errP = float(np.max(np.abs(got - want) / (1 + np.abs(want)))) if got.shape == want.shape else float("inf")
                rep.extra["partial_nonfinite_row_max_rel_err"] = max(rep.extra.get("partial_nonfinite_row_max_rel_err", 0.0), errP)
                if not errP <= 1e-9:
                    rep.violation("evaluation on a table built over rows that are non-finite in one component differs from the cubic (or has the wrong shape)",
                                  dict(infoP, x=zz.tolist(), got=got.tolist(), want=want.tolist()), finding_key="C18:partial-nonfinite-row")
            except Exception as ex:  # noqa: BLE001
                rep.violation("building / using a table over abscissae where only one component is non-finite raised",
                              dict(infoP, error=f"{type(ex).__name__}: {str(ex)[:120]}"), finding_key="C18:partial-nonfinite-row")
    # directed history for the mid-call adaptive update (Lean: Props.C18.finding_midcall_update)
    cls = make(1, [[1, 2, 0, 1]] * 4)
    f = cls(bUseAdaptiveInterpolation=True, initialInterpolationPointCount=10, returnValueCount=1)
    f.badpts = []
    f._evaluationsUntilAdaptiveUpdate = 3
    f.newInterpolationTable(0.0, 4.0, 5)
    f(np.array([6.0]))
    f.setExtrapolationType(E.NONE, E.CONSTANT)
    got = float(np.asarray(f(np.array([-1.0, -2.0, 5.0])))[2])
    cub = lambda z: 1 + 2 * z + z ** 3      # noqa: E731
    rep.case(key=("directed", "midcall"))
    if not abs(got - cub(4.0)) <= 1e-09:
        rep.violation("entry above the range is not the boundary value of the table in force at the call (mid-call adaptive update)",
                      {"history": ["new k=1 adaptive threshold=3", "table 0 4 5", "eval [6]", "modes NONE CONSTANT", "eval [-1,-2,5]"],
                       "x": 5.0, "got": got, "boundary_value_at_call_f(4)": cub(4.0), "f(6)": cub(6.0), "f(5)": cub(5.0)},
                      finding_key=KEY_MIDCALL)
    # adaptive histories: invariants and accuracy after many evaluations with updates
    for it in range(20 if tier == "quick" else 300):
        k = r.randint(1, 3)
        coef = [[r.randint(-2, 2) for _ in range(4)] for _ in range(4)]
        cls = make(k, coef)
        f = cls(bUseAdaptiveInterpolation=True, initialInterpolationPointCount=10, returnValueCount=k)
        f.badpts = []
        f._evaluationsUntilAdaptiveUpdate = r.choice((3, 5, 8))
        f.newInterpolationTable(0.0, 2.0, 9)
        ml, mu = r.choice((E.NONE, E.CONSTANT, E.FUNCTION)), r.choice((E.NONE, E.CONSTANT, E.FUNCTION))
        f.setExtrapolationType(ml, mu)
        hist = []
        for _ in range(12):
            xs = np.array([r.randint(-16, 32) / 8 for _ in range(r.randint(1, 4))])
            e0 = f.numPoints()
            rmin0, rmax0 = float(f.interpolationRangeMin()), float(f.interpolationRangeMax())
            tr = lambda z: (np.array([c[0] + c[1] * z + c[2] * z ** 2 + c[3] * z ** 3 for c in coef[:k]]) if k > 1
                            else coef[0][0] + coef[0][1] * z + coef[0][2] * z ** 2 + coef[0][3] * z ** 3)  # noqa: E731
            try:
                res = f(xs)
            except Exception as ex:  # noqa: BLE001
                rep.violation(f"plain evaluate raised {type(ex).__name__} during an adaptive history",
                              {"k": k, "coef": coef[:k], "modes": [ml.name, mu.name], "history": hist, "x": xs.tolist()},
                              finding_key="C18:adaptive-raises")
                break
            hist.append(xs.tolist())
            # every entry must be what the mode prescribes for the table in force when the call was made
            res = np.asarray(res).reshape((len(xs),) + ((k,) if k > 1 else ()))
            for i, xv in enumerate(xs):
                if xv < rmin0:
                    want = tr(rmin0) if ml == E.CONSTANT else tr(xv)
                elif xv > rmax0:
                    want = tr(rmax0) if mu == E.CONSTANT else tr(xv)
                else:
                    want = tr(xv)
                if not np.all(np.abs(res[i] - want) <= 1e-9 * (1 + np.max(np.abs(want)))):
                    rebuilt = f.numPoints() != e0
                    rep.violation("entry returned during an adaptive history is not what the mode prescribes for the table in force at the call",
                                  {"k": k, "coef": coef[:k], "modes": [ml.name, mu.name], "history": hist, "x": float(xv),
                                   "got": np.asarray(res[i]).tolist(), "want": np.asarray(want).tolist(), "range_at_call": [rmin0, rmax0],
                                   "table_rebuilt_during_call": rebuilt},
                                  finding_key=KEY_MIDCALL if (rebuilt and ml == E.NONE and mu in (E.CONSTANT, E.FUNCTION)) else "C18:adaptive-mode-rule")
            pts = np.asarray(f._interpolationPoints)
            rep.case(key=("adaptive", k, ml.name, mu.name, len(hist)))
            if not np.all(np.diff(pts) > 0) or not f._directEvaluateCount < f._evaluationsUntilAdaptiveUpdate:
                rep.violation("invariant broken during an adaptive history (abscissae order or counter)",
                              {"k": k, "modes": [ml.name, mu.name], "history": hist, "points": pts.tolist(), "count": f._directEvaluateCount},
                              finding_key="C18:invariant")
                break
