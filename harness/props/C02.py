"""C02 -- energy and momentum flux conserved across the wall; boundary constants equal the fluxes."""
from __future__ import annotations

import math

import numpy as np

import common as C
import hydro_common as HC

LEAN_MODULES = ["WallGoVerif.Props.C02", "WallGoVerif.Props.C02M", "WallGoVerif.Props.C02T"]
LEMMA_MODULES = ["WallGoVerif.Lemmas.Hydro", "WallGoVerif.Lemmas.Matching", "WallGoVerif.Model.Matching", "WallGoVerif.Lemmas.Template"]
GEN_MODULES = ["Helpers", "Hydro", "Template"]
VALIDATION_POINTS = (150, 3000)
RULE = ("obligations = Lean theorems of Props.C02 about regenerated Gen.R.Hydro (junction relations <=> flux conservation, "
        "residual zero set independent of the scale factor, detonation residual => conservation, c1/c2 = fluxes on both sides) "
        "+ Float translator validation + backward-error monitor of every real matching (polish the exact conservation laws) "
        "+ branch/call-site log + Props.C02M (decision logic of findMatching: Model.Matching) with exact correspondence of that model "
        "against the REAL findMatching on scripted physics/solver stubs + Props.C02T (template-model solver: T-, deflagration and detonation "
        "closed forms and boundary constants conserve the fluxes of a template EOS, regenerated Gen.R.Template); distinct = (EOS, branch, rounded vw) or (logic shape, kind)")
ASSUMPTIONS = ["scipy root(hybr), brentq, minimize_scalar(Bounded), solve_ivp are oracles; their results are monitored by backward error "
               "(distance to an exact solution of the conservation laws <= 50*(rtol + atol/T))",
               "theorem hypotheses: w = e + p, 0<v<1, e+ != e-, e+ + p- != 0, vpovm > 0 (checked on every real matching)"]
BACKWARD_TOL = 5e-5


def check_matching(rep, name, th, h, vw, tier, prop="C02"):
    """Runs the real findMatching/findHydroBoundaries at vw and judges conservation. Returns dict or None."""
    with HC.CallLog(h) as log:
        try:
            vp, vm, Tp, Tm = h.findMatching(vw)
        except Exception as ex:  # noqa: BLE001
            rep.count("matching raised " + type(ex).__name__)
            return None
    if vp is None:
        rep.count("matching None")
        return None
    vp, vm, Tp, Tm = float(vp), float(vm), float(Tp), float(Tm)
    summ = log.summary()
    branch = HC.branch_of(h, vw, vm, Tm)
    rep.count(f"branch {branch}")
    if summ["template_fallback"]:
        rep.count("template fallback taken")
    info = {"eos": name, "vw": vw, "vp": vp, "vm": vm, "Tp": Tp, "Tm": Tm, "branch": branch, "calls": summ,
            "how": "hydro_common.make_hydro(eos).findMatching(vw)"}
    rep.case(key=(name, branch, round(vw, 3)), sample=info if len(rep.samples) < 3 else None)
    if not (0 < vp < 1 and 0 < vm <= 1 and Tp > 0 and Tm > 0):
        return info
    err, ok, res = HC.polish(th, branch, vw, vp, vm, Tp, Tm)
    info.update(backward_error=err, flux_residuals=res)
    # side conditions of the theorems
    eH, eL, pH, pL = float(th.eHighT(Tp)), float(th.eLowT(Tm)), float(th.pHighT(Tp)), float(th.pLowT(Tm))
    if not (eH != eL and eH + pL != 0 and (eL + pH) / (eH + pL) > 0):
        rep.obligation("theorem side conditions on real matching", "monitor", False, str(info))
    if summ["template_fallback"] and not name.startswith("template"):
        # fallback = approximation by construction; the property demands the exact one when it exists
        if not err <= BACKWARD_TOL:
            rep.violation("template-model fallback returned although the matching does not conserve the fluxes of the model's own EOS",
                          info, finding_key=f"{prop}:fallback-inexact")
        return info
    if not ok or not err <= BACKWARD_TOL:
        rep.violation(f"returned {branch} matching is not within tolerance of a solution of the conservation laws "
                      f"(backward error {err:.3g})", info, finding_key=f"{prop}:conservation:{branch}")
    return info


def corr(rep: C.Report, tier: str):
    """Model.Matching.findMatching (Float) vs the REAL Hydrodynamics.findMatching with scripted physics and solver stubs:
    same outcome (own EOS / template fallback / detonation), same brackets handed to the root finders, in the same order."""
    r = C.rng("C02corr")
    lines, expect, kinds = [], [], []
    for _ in range(400 if tier == "quick" else 5000):
        kind, p = HC.matching_params(r)
        lines.append("match " + " ".join(str(C.f2b(x)) for x in p))
        try:
            expect.append(HC.scripted_find_matching(p))
        except Exception as ex:  # noqa: BLE001
            expect.append(f"raised {type(ex).__name__}: {ex}")
        kinds.append(kind)
    outs = C.lean_run("MatchingF", lines)
    bad = []
    for ln, e, o_, k in zip(lines, expect, outs, kinds):
        shape = e.split(" | ")[0].split()[0] + "|" + ",".join(x.split(":")[0] for x in (e.split(" | ")[1].split() if " | " in e else []))
        rep.case(key=("findMatching-logic", shape, k))
        rep.count(f"findMatching logic {shape}")
        if e != o_:
            bad.append({"params": [C.b2f(int(t)) for t in ln.split()[1:]], "real": e, "model": o_})
    rep.obligation("correspondence Model.Matching.findMatching = real Hydrodynamics.findMatching on scripted physics/solver stubs "
                   "(outcome, brackets, call order)", "correspondence", not bad and len(outs) == len(lines), f"{len(lines)} cases; {bad[:1]}")
    rep.extra["matching_logic_disagreements"] = bad[:3]
    return not bad


def search(rep: C.Report, tier: str, broken):
    r = C.rng("C02")
    nv = 7 if tier == "quick" else 40
    # obligations broke (proof or translation no longer checks): look harder for a failing input
    fam_tier = "thorough" if broken else tier
    for name, th in HC.eos_families(fam_tier):
        try:
            h = HC.make_hydro(th)
        except Exception as ex:  # noqa: BLE001
            rep.count("hydro construction raised " + type(ex).__name__)
            continue
        # a detonation as the FIRST request on a freshly built object (no deflagration/hybrid solve has run on it), and the same request after a
        # slow deflagration: both must be the exact matching of this equation of state
        try:
            from WallGo.hydrodynamics import Hydrodynamics as _H
            hf = _H(th, 10.0, 0.01, 1e-6, 1e-10)
            vdet = min(hf.vJ + 0.03, 0.97)
            if vdet > hf.vJ:
                first = check_matching(rep, name + " [fresh object, detonation first]", th, hf, vdet, tier)
                hf.findMatching(0.5 * (hf.vMin + min(hf.vJ, 0.5)))
                again = hf.findMatching(vdet)
                if first and first.get('vp') is not None and (not max((abs(float(a) - b) for a, b in zip(again, (first['vp'], first['vm'], first['Tp'], first['Tm'])))) <= 1e-12):
                    rep.violation("the matching returned for a detonation depends on which requests were made on the object before",
                                  {"eos": name, "vw": vdet, "first_request_on_fresh_object": [first["vp"], first["vm"], first["Tp"], first["Tm"]],
                                   "after_a_deflagration_request": [float(x) for x in again]}, finding_key="C02:history")
        except Exception as ex:  # noqa: BLE001
            rep.count("fresh-object detonation raised " + type(ex).__name__)
        for vw in HC.velocities(h, r, nv):
            info = check_matching(rep, name, th, h, vw, tier)
            if not info or "backward_error" not in info:
                continue
            # the template-model solver on equations of state that ARE of template form: its matching and boundary constants must conserve
            # the fluxes of that equation of state (every Tn, unequal sound speeds included)
            if name.startswith("template"):
                try:
                    tvp, tvm, tTp, tTm = map(float, h.template.findMatching(vw))
                    tc = h.template.findHydroBoundaries(vw)
                    tf = HC.fluxes(th, tvp, tvm, tTp, tTm)
                    rep.case(key=(name, "template-solver", round(vw, 3)))
                    rep.count("template-solver matchings")
                    terr = max(abs(tf[0] - tf[1]) / abs(tf[0]), abs(tf[2] - tf[3]) / abs(tf[2]), abs(tc[0] + tf[1]) / abs(tf[1]), abs(tc[1] - tf[3]) / abs(tf[3]),
                               abs(tc[0] + tf[0]) / abs(tf[0]), abs(tc[1] - tf[2]) / abs(tf[2]))
                    if not terr <= 1e-7:
                        rep.violation("template-model solver: matching / boundary constants do not conserve the fluxes of the template equation of state",
                                      {"eos": name, "vw": vw, "vp": tvp, "vm": tvm, "Tp": tTp, "Tm": tTm, "c1": float(tc[0]), "c2": float(tc[1]),
                                       "fluxes(E+,E-,M+,M-)": list(map(float, tf)), "relative_mismatch": terr,
                                       "how": "hydro_common.make_hydro(eos).template.findMatching(vw) / findHydroBoundaries(vw)"},
                                      finding_key="C02:template-solver")
                except Exception as ex:  # noqa: BLE001
                    rep.count("template-solver raised " + type(ex).__name__)
            # boundary constants handed to the wall equations
            try:
                c1, c2, Tp, Tm, vmid = h.findHydroBoundaries(vw)
            except Exception:  # noqa: BLE001
                continue
            if c1 is None or vmid is None:
                continue
            f = HC.fluxes(th, info["vp"], info["vm"], info["Tp"], info["Tm"])
            sc = abs(f[0]) + abs(f[2])
            bad = []
            if abs(c1 + f[0]) > 1e-9 * sc:
                bad.append(("c1 != -energy flux(+)", c1, -f[0]))
            if abs(c2 - f[2]) > 1e-9 * sc:
                bad.append(("c2 != momentum flux(+)", c2, f[2]))
            if abs(vmid + 0.5 * (info["vp"] + info["vm"])) > 1e-12:
                bad.append(("velocityMid", vmid))
            # both sides: within the flux mismatch that the backward error allows
            amp = max(abs(x) for x in info["flux_residuals"][:2]) + 1e-9
            if abs(c1 + f[1]) > (10 * amp + 1e-7) * abs(f[1]) and info["backward_error"] <= BACKWARD_TOL and amp > 1e-3:
                bad.append(("c1 != -energy flux(-)", c1, -f[1]))
            for b_ in bad:
                rep.violation(f"boundary constants: {b_[0]}", dict(info, c1=c1, c2=c2, velocityMid=vmid, detail=b_[1:]),
                              finding_key=f"C02:constants:{b_[0]}")
    # ---- the real Thermodynamics class with template extrapolation switched on (setExtrapolate, as WallGoManager does) and a low-T phase traced
    # only 6 % beyond Tn: fast hybrids and slow detonations heat the plasma behind the wall beyond the traced range (T- > TMaxLowT), where e, w, p
    # and the sound speed are those of the extrapolated equation of state -- which must still be ONE equation of state (e = T dp/dT - p)
    import models as _models
    thx, _mx, _ix = _models.make_thermo("toy1", {}, TnFrac=0.6, tminFrac=0.5, tmaxFrac=1.06)
    hx = HC.make_hydro(thx)
    for dv in ((-0.03, -0.015, -0.008, -0.003, 0.004, 0.02) if tier == "quick" else (-0.06, -0.03, -0.015, -0.008, -0.003, 0.002, 0.004, 0.01, 0.02, 0.05)):
        vw = hx.vJ + dv
        if not hx.vMin < vw < 0.99:
            continue
        info = check_matching(rep, "toy1 (traced, template extrapolation on, TMaxLowT = 1.06 Tn)", thx, hx, vw, tier)
        if info and info.get("Tm") is not None:
            rep.count("T- beyond the traced low-T range" if info["Tm"] > thx.TMaxLowT else "T- inside the traced low-T range")
