"""C01 -- reported wall velocity is a bracketed zero of the total pressure; history independence."""
from __future__ import annotations

import copy
import math
from fractions import Fraction
from types import SimpleNamespace

import numpy as np

import common as C
import eom_common as EC

LEAN_MODULES = ["WallGoVerif.Props.C01", "WallGoVerif.Props.C01D"]
LEMMA_MODULES = ["WallGoVerif.Lemmas.SolveWall", "WallGoVerif.Model.SolveWall", "WallGoVerif.Lemmas.DetonScan", "WallGoVerif.Model.DetonScan"]
GEN_MODULES = []
RULE = ("obligations = Lean theorems of Props.C01 about Model.SolveWall (success with a velocity => final bracket pMin<=0<=pMax, velocity is "
        "brentq's answer inside [vMin*2^k, vMax], all five failure flags of the LAST wallPressure call good; runaway <=> pMax<0 and no "
        "velocity; failure <=> ERROR; convergence-loop facts) + exact correspondence of the decision model with the REAL solveWall and "
        "the REAL wallPressure loop driven by scripted pressure functions (stubs injected from outside) + real LTE end-to-end runs: "
        "pressure sign around the reported velocity, window, returned fields = fresh evaluation, bitwise repeatability under "
        "interleaved calls and poisoned mutable state; distinct = (script class / outcome branch) and (history pattern)")
ASSUMPTIONS = ["brentq is an oracle (root within xtol inside the bracket; its result is fed to the model as an observation)",
               "convergence of the inner pressure iteration is not proved (model shows it is not bounded by maxIterations): partial",
               "end-to-end runs use toy potentials in local thermal equilibrium (no collision files needed)"]


def fr(x):
    f = Fraction(float(x))
    return str(f.numerator) if f.denominator == 1 else f"{f.numerator}/{f.denominator}"


class Arith:
    """stand-in for BoltzmannResults in solveWall's linear interpolation"""
    deltaF = Deltas = None
    truncationError = 0.0
    linearizationCriterion1 = linearizationCriterion2 = None

    def __add__(self, o): return self
    def __sub__(self, o): return self
    def __mul__(self, o): return self
    __rmul__ = __mul__


def real_solve(script):
    """runs the REAL EOM.solveWall on an object whose wallPressure is scripted."""
    from WallGo.equationOfMotion import EOM
    from WallGo.containers import WallParams
    from WallGo.results import HydroResults
    eom = object.__new__(EOM)
    eom.includeOffEq = False
    eom.errTol = script["errTol"]
    eom.pressRelErrTol = 0.3679
    eom.pressAbsErrTol = 123.0            # poisoned: must be overwritten
    eom.successTemperatureProfile = not script["flags"]["succTemp"]      # poisoned with the opposite of the final value
    eom.successWallPressure = not script["flags"]["succPress"]
    eom.wallThicknessBounds = (0.1, 100.0)
    eom.wallOffsetBounds = (-10.0, 10.0)
    eom.thermo = SimpleNamespace(Tnucl=1.0)
    eom.hydrodynamics = SimpleNamespace(findvwLTE=lambda: 0.5, vJ=script["vJ"], TMinLowT=0.5, TMaxLowT=2.0, TMinHighT=0.5, TMaxHighT=2.0,
                                        vMin=script["vMin"], fastestDeflag=lambda: script.get("fastestDeflag", 1.0),
                                        doesPhaseTraceLimitvmax=[False, False])
    eom.nbrFields = 1
    calls = []
    r = C.rng("C01stub" + str(script["id"]))

    def wallPressure(v, wallParams, atol=None, rtol=None, boltzmannResultsInput=None):
        p = script["press"](v)
        # intermediate calls set random flags; the flags that count are those of the LAST call
        fl = {"succTemp": r.random() < 0.5, "succPress": r.random() < 0.5}
        eom.successTemperatureProfile, eom.successWallPressure = fl["succTemp"], fl["succPress"]
        f = script["flags"]
        Tm = 1.0 if f["tMinusIn"] else 3.0
        Tp = 1.0 if f["tPlusIn"] else 0.1
        W = np.array([100.0 if f["saturates"] else 5.0])
        rec = {"v": v, "p": p, "flags": fl}
        calls.append(rec)
        rec["final_candidate"] = (Tm, Tp, W)
        return (p, WallParams(widths=W, offsets=np.array([0.0])), Arith(), SimpleNamespace(velocityProfile=None, fieldProfiles=None, temperatureProfile=None),
                HydroResults(temperaturePlus=Tp, temperatureMinus=Tm, velocityJouguet=script["vJ"]))
    eom.wallPressure = wallPressure
    # make the LAST call carry the scenario's success flags: wrap once more
    inner = wallPressure

    def wp2(v, *a, **k):
        out = inner(v, *a, **k)
        eom._last_v = v
        return out
    eom.wallPressure = wp2
    import scipy.optimize as so
    orig = so.root_scalar
    seen = {}

    def rs(f, *a, **k):
        res = orig(f, *a, **k)
        seen["root"], seen["conv"] = float(res.root), bool(res.converged)
        if not script["brent_converged"]:
            res.converged = False
            res.flag = "forced non-convergence (harness)"
            seen["conv"] = False
        return res
    import WallGo.equationOfMotion as EM
    EM.scipy.optimize.root_scalar = rs
    # final-call flags: patch by post-processing the last call through a closure on calls
    try:
        wpz = WallParams(widths=np.array([5.0]), offsets=np.array([0.0]))
        # the stub cannot know which call is last; emulate by forcing the scenario flags when v equals the brentq root
        base_inner = inner

        def inner_final(v, *a, **k):
            out = base_inner(v, *a, **k)
            if "root" in seen and v == seen["root"]:
                eom.successTemperatureProfile, eom.successWallPressure = script["flags"]["succTemp"], script["flags"]["succPress"]
                calls[-1]["flags"] = {"succTemp": script["flags"]["succTemp"], "succPress": script["flags"]["succPress"]}
            return out
        eom.wallPressure = inner_final
        if script.get("via_entry"):
            # the public entry point assembles the window [vMin, min(vJ, fastestDeflag())] itself
            res = EOM.findWallVelocityDeflagrationHybrid(eom, 5.0)
        else:
            res = EOM.solveWall(eom, script["vMin"], script["vMax"], wpz)
    finally:
        EM.scipy.optimize.root_scalar = orig
    return res, calls, seen, eom


def corr(rep: C.Report, tier: str):
    from WallGo.results import ESolutionType
    r = C.rng("C01corr")
    n = 120 if tier == "quick" else 3000
    lines, expect, infos = [], [], []
    for k in range(n):
        vMin = r.choice((1 / 64, 1 / 32, 1 / 16, 1 / 8))
        vMax = r.choice((0.5, 0.625, 0.75))
        vJ = r.choice((0.55, 0.7, 0.9))
        kind = r.choice(("root", "root", "root", "runaway", "allpositive", "rootnearmin", "rootneartop"))
        vstar = r.uniform(vMin * 1.5, vMax * 0.98)
        # a third of the scripts go through findWallVelocityDeflagrationHybrid: window = [hydro.vMin, min(vJ, fastestDeflag())]
        via_entry = r.random() < 0.35 or kind == "rootneartop"
        fd = 1.0
        if via_entry:
            if r.random() < 0.5:
                vJ = vMax                      # Jouguet velocity limits the window
                fd = r.choice((vMax, 0.95))
            else:
                fd = vMax                      # the tabulated range limits it
                vJ = r.choice((0.8, 0.9))
        if kind == "runaway":
            press = lambda v, a=r.uniform(0.1, 2): -a * (1 + v)                      # noqa: E731
        elif kind == "allpositive":
            press = lambda v, a=r.uniform(0.1, 2): a * (1 + v)                       # noqa: E731
        elif kind == "rootneartop":
            # stopped only in the last fraction of the tolerance below the top of the window
            vstar = vMax - 2.0 ** -10 * r.choice((0.25, 0.5, 0.75))
            press = lambda v, a=r.uniform(0.5, 3), s=vstar: a * (v - s)              # noqa: E731
        elif kind == "rootnearmin":
            vstar = r.uniform(vMin * 2.2, vMin * 7)
            press = lambda v, a=r.uniform(0.5, 3), s=vstar: a * (v - s)              # noqa: E731
        else:
            press = lambda v, a=r.uniform(0.5, 3), s=vstar: a * (v - s) * (1 + 0.3 * v)   # noqa: E731
        flags = {"succTemp": r.random() < 0.8, "succPress": r.random() < 0.8, "tMinusIn": r.random() < 0.85, "tPlusIn": r.random() < 0.85,
                 "saturates": r.random() < 0.15}
        script = {"id": k, "vMin": vMin, "vMax": vMax, "vJ": vJ, "press": press, "flags": flags, "errTol": 2.0 ** -10,
                  "brent_converged": r.random() < 0.9, "via_entry": via_entry, "fastestDeflag": fd}
        res, calls, seen, eom = real_solve(script)
        typ = {ESolutionType.DEFLAGRATION: "deflagration", ESolutionType.DETONATION: "detonation", ESolutionType.RUNAWAY: "runaway",
               ESolutionType.ERROR: "error"}.get(res.solutionType, str(res.solutionType))
        vel = "none" if res.wallVelocity is None else fr(res.wallVelocity)
        expect.append(f"{int(res.success)} {typ} {vel}")
        root = seen.get("root", 0.0)
        # pressure table exactly as observed by the real run (doubling velocities etc.)
        tab = {}
        for c in calls:
            tab[fr(c["v"])] = fr(c["p"])
        fl = calls[-1]["flags"]
        bits = "".join("1" if b else "0" for b in (fl["succTemp"], fl["succPress"], flags["tMinusIn"], flags["tPlusIn"], flags["saturates"]))
        lines.append(f"solve {fr(vMin)} {fr(vMax)} {fr(vJ)} {fr(root)} {1 if seen.get('conv', True) else 0} {bits} " +
                     " ".join(f"{a}:{b}" for a, b in tab.items()))
        info = {"script": {k_: v for k_, v in script.items() if k_ != "press"}, "kind": kind, "real": expect[-1], "wallPressure_calls": len(calls),
                "pressAbsErrTol_after": float(eom.pressAbsErrTol)}
        infos.append(info)
        rep.case(key=(kind, expect[-1].split()[1], bits), sample=info if len(rep.samples) < 3 else None)
        rep.count(f"script {kind} -> {typ}")
        # direct property checks on the real result
        if res.success and res.wallVelocity is not None:
            v = res.wallVelocity
            ok = press(script["vMax"]) >= 0 and script["vMin"] <= v <= script["vMax"] and all(flags[q] for q in ("tMinusIn", "tPlusIn")) \
                and not flags["saturates"] and fl["succTemp"] and fl["succPress"]
            sign_ok = press(v - 4 * script["errTol"]) <= 0 <= press(v + 4 * script["errTol"])
            if not (ok and sign_ok):
                rep.violation("solveWall reports success although the final bracket/flags/pressure sign do not support it",
                              dict(info, velocity=v), finding_key="C01:success-unsupported")
        if typ == "runaway" and not (press(script["vMax"]) < 0 and res.wallVelocity is None):
            rep.violation("runaway reported without negative pressure at the top of the window (or with a velocity)", info, finding_key="C01:runaway")
        if (not res.success) and typ != "error":
            rep.violation("an unsuccessful run is not labelled as an error", info, finding_key="C01:failure-label")
    outs = C.lean_run("SolveWallQ", lines)
    bad = []
    for ln, ex, out, info in zip(lines, expect, outs, infos):
        got = " ".join(out.split()[:3])
        if got != ex:
            bad.append({"line": ln[:200], "model": out, "real": ex})
    rep.obligation("correspondence Model.SolveWall.solveWall = real EOM.solveWall on scripted pressures (outcome, type, velocity)", "correspondence",
                   not bad, f"{len(lines)} scripts; {bad[:2]}")
    _loop_corr(rep, tier, r)
    _scan_corr(rep, tier, r)


def _scan_corr(rep, tier, r):
    """the REAL findWallVelocityDetonation scanning loop on scripted pressures / step proposals vs Model.DetonScan.scan"""
    def q(f):
        return str(f.numerator) if f.denominator == 1 else f"{f.numerator}/{f.denominator}"
    lines, expect = [], []
    for _ in range(300 if tier == "quick" else 4000):
        style, (vmin, vmax, nMin, nMax, only, a, fs) = EC.detonation_scan_params(r)
        lines.append(f"scan {q(vmin)} {q(vmax)} {nMin} {nMax} {only} {len(a) - 1} " + " ".join(q(x) for x in a) + " | " + " ".join(q(x) for x in fs))
        try:
            e = EC.scripted_detonation_scan(vmin, vmax, nMin, nMax, only, a, fs)
        except Exception as ex:  # noqa: BLE001
            e = "raised " + type(ex).__name__ + ": " + str(ex)[:100]
        expect.append(e)
        rep.case(key=("detonation-scan", style, e.split(" | ")[0], len(e.split(" | ")[1].split()) if " | " in e else -1, nMin, nMax, only))
        rep.count(f"detonation scan -> {e.split(' | ')[0]}")
    outs = C.lean_run("DetonScanQ", lines)
    bad = [{"line": ln[:200], "model": o_[:300], "real": e[:300]} for ln, e, o_ in zip(lines, expect, outs) if e.strip() != o_.strip()]
    rep.obligation("correspondence Model.DetonScan.scan = real EOM.findWallVelocityDetonation scanning loop on scripted pressures/step proposals "
                   "(probed velocities, brackets handed to solveWall, label)", "correspondence", not bad and len(outs) == len(lines),
                   f"{len(lines)} scans; {bad[:1]}")
    rep.extra["detonation_scan_disagreements"] = bad[:3]


def _loop_corr(rep, tier, r):
    """the REAL wallPressure convergence loop on scripted (pressure, errorSolver) streams vs Model.SolveWall.runLoop"""
    from WallGo.equationOfMotion import EOM
    from WallGo.containers import WallParams
    lines, expect = [], []
    for k in range(60 if tier == "quick" else 1500):
        eom = object.__new__(EOM)
        eom.pressAbsErrTol, eom.pressRelErrTol = 2.0 ** -12, r.choice((0.5, 0.125, 2.0 ** -6, 2.0 ** -12))
        eom.forceImproveConvergence = r.random() < 0.4
        eom.forceEnergyConservation = True
        eom.maxIterations = r.choice((4, 6, 10, 12))
        eom.includeOffEq = False
        eom.particles = []
        eom.grid = SimpleNamespace(M=5, N=3)
        eom.hydrodynamics = SimpleNamespace(vJ=0.9, findHydroBoundaries=lambda v: (0.0, 0.0, 1.0, 1.0, -0.3))
        fe = SimpleNamespace(interpolationRangeMax=lambda: 2.0, interpolationRangeMin=lambda: 0.5,
                             __call__=None)
        low = lambda T: SimpleNamespace(fieldsAtMinimum=None)      # noqa: E731
        eom.thermo = SimpleNamespace(freeEnergyLow=type("F", (), {"interpolationRangeMax": staticmethod(lambda: 2.0),
                                                               "interpolationRangeMin": staticmethod(lambda: 0.5),
                                                               "__call__": lambda s, T: SimpleNamespace(fieldsAtMinimum=None)})(),
                                     freeEnergyHigh=type("F", (), {"interpolationRangeMax": staticmethod(lambda: 2.0),
                                                                "interpolationRangeMin": staticmethod(lambda: 0.5),
                                                                "__call__": lambda s, T: SimpleNamespace(fieldsAtMinimum=None)})())
        eom._updateGrid = lambda wp, v: None
        # dyadic pressure stream: converging, oscillating, or drifting
        style = r.choice(("converge", "oscillate", "drift", "noisy"))
        p0 = r.randint(1, 8) / 4
        stream = []
        p = p0
        for i in range(40):
            if style == "converge":
                p = p + (r.randint(-4, 4) / 8) * 2.0 ** (-i)
            elif style == "oscillate":
                p = p0 + (1 if i % 2 else -1) * 0.25 * (0.5 ** (i // 3))
            elif style == "drift":
                p = p + 1 / 8
            else:
                p = p0 + r.randint(-8, 8) / 16
            e = r.choice((0.0, 0.0, 2.0 ** -14, 0.25, 1.0))
            stream.append((p, e))
        it = iter(stream)
        used = []

        def ipr(*a, **kw):
            if not used:
                used.append(("init", p0))
                return (p0, a[0], a[6], None)
            pe = next(it)
            used.append((pe[0], 0.0))          # this path sets errorSolver = 0 in the loop
            return (pe[0], a[0], a[6], None)

        def gnp(*a, **kw):
            pe = next(it)
            used.append(pe)
            return (pe[0], a[1], a[7], None, pe[1])
        eom._intermediatePressureResults = ipr
        eom._getNextPressure = gnp
        import WallGo.equationOfMotion as EM
        origP, origD = EM.Polynomial, EM.BoltzmannDeltas
        EM.Polynomial = lambda *a, **kw: None
        EM.BoltzmannDeltas = lambda **kw: None
        origR = EM.BoltzmannResults
        EM.BoltzmannResults = lambda **kw: None
        try:
            out = EOM.wallPressure(eom, 0.5, WallParams(widths=np.array([5.0]), offsets=np.array([0.0])))
        except StopIteration:
            out = None
        finally:
            EM.Polynomial, EM.BoltzmannDeltas, EM.BoltzmannResults = origP, origD, origR
        obs = used[1:]
        # when improveConvergence is off the code sets errorSolver = 0 itself
        # (the model is fed the errorSolver the loop actually saw)
        lines.append(f"loop {fr(eom.pressRelErrTol)} {fr(eom.pressAbsErrTol)} {eom.maxIterations} {1 if eom.forceImproveConvergence else 0} {fr(p0)} " +
                     " ".join(f"{fr(a)}:{fr(b)}" for a, b in obs) + f" #{style}")
        if out is None:
            expect.append("running")
        else:
            expect.append(("converged " if eom.successWallPressure else "gaveup ") + fr(out[0]))
        rep.case(key=("loop", style, expect[-1].split()[0], eom.maxIterations))
        rep.count(f"loop {style} -> {expect[-1].split()[0]}")
    # errorSolver bookkeeping: in the non-improve branch the loop uses errorSolver = 0; encode that in what the model is fed
    fixed = []
    for ln in lines:
        fixed.append(ln.split(" #")[0])
    outs = C.lean_run("SolveWallQ", fixed)
    bad = []
    for ln, ex, out in zip(lines, expect, outs):
        if not (out.startswith(ex.split()[0]) and (ex.split()[0] == "running" or abs(float(Fraction(out.split()[1])) - float(Fraction(ex.split()[1]))) < 1e-12)):
            bad.append({"line": ln[:160], "model": out, "real": ex})
    rep.obligation("correspondence Model.SolveWall.runLoop = real EOM.wallPressure convergence loop on scripted pressure streams", "correspondence",
                   not bad, f"{len(lines)} streams; {bad[:2]}")
    rep.extra["loop_disagreements"] = bad[:3]


def _fields(res):
    """the reported fields of a WallGoResults as a comparable tuple (bitwise)"""
    def a(x):
        return None if x is None else np.asarray(x, dtype=float).tobytes()
    return (res.success, res.solutionType, None if res.wallVelocity is None else float(res.wallVelocity), float(res.wallVelocityLTE) if res.wallVelocityLTE is not None else None,
            a(res.wallWidths), a(res.wallOffsets), float(res.temperaturePlus), float(res.temperatureMinus), float(res.velocityJouguet),
            a(res.temperatureProfile), a(res.velocityProfile))


def search(rep: C.Report, tier: str, broken):
    """real LTE end-to-end runs: bracketed zero, window, fields of the converged solution, history independence."""
    from WallGo.containers import WallParams
    _manager_histories(rep, tier)
    cases = [("toy1", {})] if tier == "quick" else [("toy1", {}), ("toy1", dict(E=0.07, lam=0.12)), ("toy2c", {})]
    for kind, params in cases:
        o = EC.make_eom(kind, params, M=30, key=("C01", kind, str(params)))
        eom, h, th = o["eom"], o["hydro"], o["thermo"]
        Tn = th.Tnucl
        ref = eom.findWallVelocityDeflagrationHybrid()
        info = {"model": kind, "params": params, "velocity": ref.wallVelocity, "success": ref.success, "type": str(ref.solutionType),
                "errTol": eom.errTol, "vJ": h.vJ, "vMin": h.vMin}
        rep.case(key=("e2e", kind, str(params)), sample=info)
        rep.count("end-to-end solveWall")
        if ref.success and ref.wallVelocity is not None:
            v = ref.wallVelocity
            vmax = min(h.vJ, h.fastestDeflag())
            if not (h.vMin <= v <= vmax + 1e-12):
                rep.violation("reported wall velocity outside the hydrodynamically allowed window", dict(info, window=[h.vMin, vmax]),
                              finding_key="C01:window")
            # sign change of the total pressure within the velocity tolerance (fresh evaluations with the returned wall shape)
            wp = WallParams(widths=np.array(ref.wallWidths), offsets=np.array(ref.wallOffsets))
            k = 3
            pl = eom.wallPressure(max(v - k * eom.errTol, h.vMin), wp)[0]
            ph = eom.wallPressure(min(v + k * eom.errTol, vmax), wp)[0]
            info.update(pressure_below=float(pl), pressure_above=float(ph))
            if not (pl < 0 < ph):
                rep.violation(f"total pressure does not change sign (negative below, positive above) within {k}*errTol of the reported velocity",
                              info, finding_key="C01:sign-change")
            # returned temperatures / profiles are those of the converged solution at that velocity
            p0, wp0, _, bg0, hr0 = eom.wallPressure(v, wp)
            if not abs(hr0.temperaturePlus - ref.temperaturePlus) <= 1e-09 * Tn or not abs(hr0.temperatureMinus - ref.temperatureMinus) <= 1e-09 * Tn or (not abs(hr0.velocityJouguet - ref.velocityJouguet) <= 1e-12):
                rep.violation("temperatures/Jouguet velocity returned with the result are not those of the matching at the reported velocity",
                              dict(info, fresh=[hr0.temperaturePlus, hr0.temperatureMinus], reported=[ref.temperaturePlus, ref.temperatureMinus]),
                              finding_key="C01:fields")
            if not np.max(np.abs(np.asarray(wp0.widths) - np.asarray(ref.wallWidths))) <= 0.02 * np.max(np.asarray(ref.wallWidths)) or not np.max(np.abs(np.asarray(bg0.temperatureProfile) - np.asarray(ref.temperatureProfile))) <= 0.002 * Tn:
                rep.violation("wall widths / temperature profile returned with the result are not those of the converged solution at that velocity",
                              dict(info, fresh_widths=np.asarray(wp0.widths).tolist(), reported_widths=np.asarray(ref.wallWidths).tolist()),
                              finding_key="C01:profiles")
        base = _fields(ref)
        # histories: repeat; interleave LTE / detonation search / matching calls; poison mutable state; fresh EOM on the shared hydrodynamics
        histories = {
            "repeat": [],
            "lte+matching": [lambda: h.findvwLTE(), lambda: h.findMatching(0.3), lambda: h.findMatching(min(h.vJ + 0.05, 0.95))],
            "poison": [lambda: (setattr(eom, "pressAbsErrTol", 7.0), setattr(eom, "successWallPressure", False), setattr(eom, "successTemperatureProfile", False),
                                setattr(h, "success", False), setattr(h, "doesPhaseTraceLimitvmax", [True, True]),
                                o["grid"].changePositionFalloffScale(40.0 / Tn, 60.0 / Tn, 9.0 / Tn, 3.0 / Tn), o["grid"].changeMomentumFalloffScale(3.0 * Tn))],
            "wallPressure-elsewhere": [lambda: eom.wallPressure(0.2, WallParams(widths=np.full(eom.nbrFields, 9.0 / Tn), offsets=np.zeros(eom.nbrFields)))],
        }
        if tier == "thorough":
            histories["detonation-search"] = [lambda: eom.findWallVelocityDetonation(min(h.vJ + 0.02, 0.97), 0.99, nbrPointsMin=3, nbrPointsMax=4)]
        for name, ops in histories.items():
            for op in ops:
                try:
                    op()
                except Exception:  # noqa: BLE001
                    pass
            again = eom.findWallVelocityDeflagrationHybrid()
            rep.case(key=("history", kind, name))
            rep.count("history runs")
            if _fields(again) != base:
                rep.violation(f"repeating solveWall after history '{name}' returns a different result",
                              dict(info, history=name, velocity_again=again.wallVelocity, success_again=again.success), finding_key=f"C01:history:{name}")


def _manager_histories(rep: C.Report, tier: str):
    """WallGoManager level: the result is a function of the model and the settings only (fresh WallSolver per call)."""
    import manager_common as MC
    from WallGo.containers import WallParams
    r = C.rng("C01manager")
    configs = [(20, 1e-2), (30, 1e-4)] if tier == "quick" else [(20, 1e-2), (30, 1e-4), (24, 1e-3), (36, 3e-4)]
    # GeV-like units (Tn = 115): anything the manager converts with Tnucl more than once per build shows after one repetition
    U = 100.0
    fresh = {}
    for cfg in configs:
        fresh[cfg] = MC.new_manager(*cfg, u=U).solveWall(MC.settings())
        rep.count("manager fresh solves")
    for Tn2 in ((1.12,) if tier == "quick" else (1.12, 1.18)):
        m = MC.new_manager(*configs[0], u=U)
        config_before = repr(m.config)
        seq = list(configs) + [configs[0]]
        if tier == "thorough":
            seq += [r.choice(configs) for _ in range(3)]
        prev = None
        for step, cfg in enumerate(seq):
            m.config.configGrid.spatialGridSize, m.config.configEOM.errTol = cfg
            between = r.choice(("lte", "other-point", "none", "detonation")) if step else "none"
            try:
                if between == "lte":
                    m.wallSpeedLTE()
                elif between == "other-point":            # previous benchmark point on the same manager, then back
                    MC.setup(m, Tn2, U)
                    m.solveWall(MC.settings())
                    MC.setup(m, 1.15, U)
                elif between == "detonation":
                    m.solveWallDetonation(MC.settings(), onlySmallest=True)
            except Exception:  # noqa: BLE001
                pass
            got = m.solveWall(MC.settings())
            ref = fresh[cfg]
            rep.case(key=("manager-history", cfg, between, step))
            rep.count("manager history solves")
            info = {"model": f"toy1 (unit factor {U}) via WallGoManager (harness/manager_common.py)", "history": [list(c) for c in seq[:step + 1]], "between": between,
                    "config(spatialGridSize, errTol)": list(cfg), "velocity_on_reused_manager": got.wallVelocity, "velocity_fresh_manager": ref.wallVelocity,
                    "profile_points": len(np.asarray(got.temperatureProfile)), "expected_profile_points": cfg[0] + 1}
            same = (got.success == ref.success and got.solutionType == ref.solutionType and got.wallVelocity is not None and ref.wallVelocity is not None
                    and abs(got.wallVelocity - ref.wallVelocity) <= 1e-12 and abs(got.temperaturePlus - ref.temperaturePlus) <= 1e-10
                    and np.asarray(got.temperatureProfile).shape == np.asarray(ref.temperatureProfile).shape
                    and np.allclose(got.wallWidths, ref.wallWidths, rtol=0, atol=1e-10))
            m.config.configGrid.spatialGridSize, m.config.configEOM.errTol = configs[0]
            if repr(m.config) != config_before:
                rep.violation("solver calls changed the manager's configuration behind the user's back", dict(info, config_after=repr(m.config)[:600]),
                              finding_key="C01:manager-config-mutated")
            m.config.configGrid.spatialGridSize, m.config.configEOM.errTol = cfg
            if not same:
                rep.violation("solveWall on a manager with a history returns a different result than a fresh manager with the same model and settings",
                              info, finding_key="C01:manager-history")
                continue
            # bracketed zero within the CONFIGURED tolerance, on the solver the manager builds for these settings
            if got.success and step in (1, len(seq) - 1):
                eom = m.setupWallSolver(MC.settings()).eom
                v = got.wallVelocity
                wp = WallParams(widths=np.array(got.wallWidths), offsets=np.array(got.wallOffsets))
                hy = m.hydrodynamics
                vmax = min(hy.vJ, hy.fastestDeflag())
                pl, ph = eom.wallPressure(max(v - 3 * cfg[1], hy.vMin), wp)[0], eom.wallPressure(min(v + 3 * cfg[1], vmax), wp)[0]
                info.update(window=[hy.vMin, vmax])
                if not pl < 0 < ph:
                    rep.violation("total pressure does not change sign within 3*errTol (configured) of the velocity reported by the manager",
                                  dict(info, pressure_below=float(pl), pressure_above=float(ph)), finding_key="C01:manager-sign-change")
    # tightened tolerance (two orders of magnitude below the default): the zero must be bracketed within the CONFIGURED tolerance, whatever
    # defaults the classes between the configuration and the root finder have
    for cfg in (((30, 1e-5),) if tier == "quick" else ((30, 1e-5), (24, 3e-5), (36, 3e-6))):
        m = MC.new_manager(*cfg, u=U)
        got = m.solveWall(MC.settings())
        rep.case(key=("manager-tight-tolerance", cfg))
        rep.count("manager tight-tolerance solves")
        if not (got.success and got.wallVelocity is not None):
            continue
        eom = m.setupWallSolver(MC.settings()).eom
        hy = m.hydrodynamics
        v = got.wallVelocity
        vmax = min(hy.vJ, hy.fastestDeflag())
        wp = WallParams(widths=np.array(got.wallWidths), offsets=np.array(got.wallOffsets))
        pl, ph = eom.wallPressure(max(v - 2 * cfg[1], hy.vMin), wp)[0], eom.wallPressure(min(v + 2 * cfg[1], vmax), wp)[0]
        if not pl < 0 < ph:
            rep.violation("total pressure does not change sign within 2*errTol (configured, tightened) of the velocity reported by the manager",
                          {"model": f"toy1 (unit factor {U}) via WallGoManager (harness/manager_common.py)", "config(spatialGridSize, errTol)": list(cfg),
                           "velocity": v, "pressure_below": float(pl), "pressure_above": float(ph), "window": [hy.vMin, vmax]},
                          finding_key="C01:manager-sign-change-tight")
