"""C15 -- full hydrodynamics and the template model agree on template equations of state."""
from __future__ import annotations

import math

import numpy as np

import common as C
import hydro_common as HC

LEAN_MODULES = ["WallGoVerif.Props.C15", "WallGoVerif.Props.C15A"]
LEMMA_MODULES = ["WallGoVerif.Lemmas.Template"]
GEN_MODULES = ["Helpers", "Hydro", "Template"]
VALIDATION_POINTS = (100, 2000)
RULE = ("obligations = Lean theorems of Props.C15: on a template EOS the template solver's closed forms satisfy the GENERAL "
        "solver's equations (boundaries agree, findTm = energy-flux conservation, getVp/alpha relation = momentum-flux "
        "conservation, detonation root solves tmFromvpsq and equals matchDetonPost, vJ is the general Chapman-Jouguet point, "
        "the two fluid ODEs and kappa integrands coincide) + translator validation + numerical agreement of the two real "
        "solvers over the parameter box; distinct = (parameter point, quantity, rounded vw)")
ASSUMPTIONS = ["equality of the numerical roots is a tolerance statement: both solvers are run with rtol=1e-6 and compared to 2e-4 "
               "(kappa: 2e-3), the agreement of their EQUATIONS is what is proved",
               "vMin and the LTE velocity come from root searches (oracles)"]


def param_points(tier, r):
    pts = [dict(alpha=0.2, psi=0.7, cs2=1 / 3, cb2=1 / 3, Tn=1.0),      # bag: mu == nu (defect C15-T fixed in 108cf41)
           dict(alpha=0.3, psi=0.6, cs2=0.3, cb2=0.25, Tn=100.0),
           dict(alpha=0.005, psi=0.95, cs2=0.25, cb2=0.32, Tn=0.01),
           # strong transitions ("order one"): the minimal wall velocity lies ABOVE the sound speed in front of the wall (a hybrid carries the strongest shock)
           dict(alpha=1.1, psi=0.6, cs2=0.25, cb2=0.24, Tn=1.0), dict(alpha=1.3, psi=0.55, cs2=0.30, cb2=0.28, Tn=50.0)]
    want = len(pts) + (3 if tier == "quick" else 30)
    tries = 0
    while len(pts) < want and tries < 2000:
        tries += 1
        p = dict(alpha=10 ** r.uniform(-3, 0), psi=r.uniform(0.5, 1.0), cs2=r.uniform(0.2, 1 / 3), cb2=r.uniform(0.2, 1 / 3),
                 Tn=10 ** r.uniform(-2.5, 2.5))
        e = make_eos(p)
        # a well-defined transition: positive vacuum energy (WallGo itself refuses epsilon < 0) and p_+ < p_- at Tn
        if e.eps > 0 and e.pHighT(e.Tnucl) < e.pLowT(e.Tnucl):
            pts.append(p)
    return pts


def make_eos(p):
    import models
    mu, nu = 1 + 1 / p["cs2"], 1 + 1 / p["cb2"]
    Tn = p["Tn"]
    ap = 3.0
    wN = mu * ap / 3 * Tn ** mu
    am = p["psi"] * mu * ap * Tn ** mu / (nu * Tn ** nu)
    eps = (p["alpha"] - (mu - nu) / (3 * mu)) * 3 * wN / nu
    return models.BagEOS(ap=ap, am=am, eps=eps, mu=mu, nu=nu, Tn=Tn)


def close(a, b, tol):
    return abs(a - b) <= tol * max(abs(a), abs(b), 1e-300)


def search(rep: C.Report, tier: str, broken):
    r = C.rng("C15")
    nv = 9 if tier == "quick" else 16
    for p in param_points(tier, r):
        e = make_eos(p)
        if not (e.pHighT(e.Tnucl) < e.pLowT(e.Tnucl)):
            rep.count("skipped: transition does not proceed at Tn")
            continue
        try:
            h = HC.make_hydro(e)
        except Exception as ex:  # noqa: BLE001
            rep.count("hydro construction raised " + type(ex).__name__)
            continue
        t = h.template
        name = ",".join(f"{k}={v:.4g}" for k, v in p.items())
        info0 = {"params": p, "how": "props/C15.make_eos(params) -> Hydrodynamics(eos,10,0.01,1e-6,1e-10) and its .template"}

        def cmp(what, a, b, tol, extra=None):
            rep.case(key=(name, what))
            rep.count(f"compared {what.split('@')[0]}")
            if a is None or b is None or not (np.isfinite(a) and np.isfinite(b)) or not close(float(a), float(b), tol):
                rep.violation(f"general and template solver disagree on {what}: {a} vs {b}",
                              dict(info0, quantity=what, general=None if a is None else float(a), template=None if b is None else float(b), **(extra or {})),
                              finding_key=f"C15:{what.split('@')[0]}")
        # the LTE query first, as WallGoManager does: whatever it leaves behind on the objects must not change the later answers
        try:
            cmp("vwLTE", h.findvwLTE(), t.findvwLTE(), 5e-4)
        except Exception as ex:  # noqa: BLE001
            rep.count("findvwLTE raised " + type(ex).__name__)
        cmp("vJ", h.vJ, t.vJ, 2e-5)
        cmp("vJ(fresh template)", t.vJ, type(t)(e).vJ, 1e-12)
        if not (h.vMin <= 1e-3 + 1e-12 and t.vMin == 0):
            cmp("vMin", h.vMin, max(t.vMin, 1e-3), 2e-4)
        for vw in HC.velocities(h, r, nv):
            try:
                g = h.findMatching(vw)
            except Exception as ex:  # noqa: BLE001
                rep.count("general matching raised " + type(ex).__name__)
                continue
            tm = t.findMatching(vw)
            if tm[0] is None:
                if g[0] is not None and (not vw < t.vMin * (1 + 1e-06)):
                    rep.violation("template solver returns no matching where the general solver finds one",
                                  dict(info0, vw=vw, general=[float(x) for x in g]), finding_key="C15:template-none")
                continue
            for nm, a, b in zip(("vp", "vm", "Tp", "Tm"), g, tm):
                cmp(f"matching.{nm}@{vw:.3f}", a, b, 2e-4, {"vw": vw})
            cg, ct = h.findHydroBoundaries(vw), t.findHydroBoundaries(vw)
            for nm, a, b in zip(("c1", "c2"), cg[:2], ct[:2]):
                cmp(f"boundary.{nm}@{vw:.3f}", a, b, 1e-3, {"vw": vw})
        for vw in ([0.5 * (max(h.vMin, 0.05) + h.vJ)] if tier == "quick" else [0.3 * h.vJ + 0.05, 0.9 * h.vJ, min(h.vJ + 0.1, 0.97)]):
            try:
                cmp(f"kappa@{vw:.3f}", h.efficiencyFactor(vw), t.efficiencyFactor(vw), 3e-3, {"vw": vw})
            except Exception as ex:  # noqa: BLE001
                rep.count("efficiencyFactor raised " + type(ex).__name__)
    # ---- efficiency factor of slow walls in WEAK transitions (alpha_n ~ 1e-3, psi_n close to 1): the plasma in front of the wall moves at
    # 1e-4 .. 1e-2 only, yet the shock wave carries all of kappa there
    weak = [dict(alpha=1e-3, psi=0.9995, cs2=0.31, cb2=0.28, Tn=1.0), dict(alpha=3e-3, psi=0.995, cs2=0.33, cb2=0.30, Tn=100.0)]
    if tier == "thorough":
        weak += [dict(alpha=10 ** r.uniform(-3, -2), psi=r.uniform(0.998, 0.9999), cs2=r.uniform(0.25, 1 / 3), cb2=r.uniform(0.22, 0.3),
                      Tn=10 ** r.uniform(-2, 2)) for _ in range(4)]
    for p in weak:
        e = make_eos(p)
        if not (e.eps > 0 and e.pHighT(e.Tnucl) < e.pLowT(e.Tnucl)):
            rep.count("weak-transition point skipped")
            continue
        try:
            h = HC.make_hydro(e)
        except Exception as ex:  # noqa: BLE001
            rep.count("hydro construction raised " + type(ex).__name__)
            continue
        for vw in (0.05, 0.1, 0.2, 0.35):
            if not (h.vMin < vw < h.vJ - 0.02):
                continue
            rep.case(key=("weak-kappa", str(sorted(p.items())), vw))
            rep.count("kappa of slow walls in weak transitions")
            try:
                a_, b_ = float(h.efficiencyFactor(vw)), float(h.template.efficiencyFactor(vw))
            except Exception as ex:  # noqa: BLE001
                rep.count("efficiencyFactor raised " + type(ex).__name__)
                continue
            if not (np.isfinite(a_) and np.isfinite(b_) and abs(a_ - b_) <= 3e-3 * max(abs(a_), abs(b_))):
                rep.violation(f"general and template solver disagree on the efficiency factor of a slow wall in a weak transition: {a_} vs {b_}",
                              {"params": p, "vw": vw, "general": a_, "template": b_,
                               "how": "props/C15.make_eos(params) -> Hydrodynamics(...).efficiencyFactor(vw) vs .template.efficiencyFactor(vw)"},
                              finding_key="C15:kappa-weak")
    # ---- LTE wall velocity across the runaway threshold: the transition strength is scanned through the value where the general solver's
    # answer jumps to the runaway sentinel (located by bisection); outside a 2.5 % margin around it both solvers must agree, in particular
    # just ABOVE it (both runaway) and just below it (same interior root)
    from WallGo.hydrodynamics import Hydrodynamics as _H

    def both(p_):
        e_ = make_eos(p_)
        if not (e_.eps > 0 and e_.pHighT(e_.Tnucl) < e_.pLowT(e_.Tnucl)):
            return None
        try:
            h_ = _H(e_, 10.0, 0.01, 1e-6, 1e-10)
            a_ = float(h_.findvwLTE())
        except Exception:  # noqa: BLE001
            return None
        try:
            b_ = float(h_.template.findvwLTE())
        except Exception as ex:  # noqa: BLE001
            b_ = f"raised {type(ex).__name__}: {str(ex)[:80]}"
        return a_, b_
    # (the third set: sound speeds far apart, cb = 0.465 < cs = 0.570, where hybrids with cb < vw < cs^2/cb have an upper bound on v+ ABOVE v-)
    sets = [dict(psi=0.79, cs2=0.324, cb2=0.269, Tn=1.0), dict(psi=0.9, cs2=0.30, cb2=0.25, Tn=50.0),
            dict(psi=0.629764263770335, cs2=0.3251420093311493, cb2=0.21596482977074558, Tn=0.6800773171502196)]
    if tier == "thorough":
        sets += [dict(psi=r.uniform(0.55, 0.95), cs2=r.uniform(0.25, 1 / 3), cb2=r.uniform(0.2, 0.25), Tn=10 ** r.uniform(-2, 2)) for _ in range(5)]
    for base in sets:
        lo, hi = 0.01, 0.9
        rl = both(dict(base, alpha=lo))
        while rl is None and lo < 0.5:        # smallest strength for which the transition proceeds at Tn
            lo *= 1.4
            rl = both(dict(base, alpha=lo))
        rh = both(dict(base, alpha=hi))
        if rl is None or rh is None or not (rl[0] < 1 and rh[0] == 1):
            rep.count("LTE threshold scan: no bracket")
            continue
        for _ in range(9):
            mid = math.sqrt(lo * hi)
            rm = both(dict(base, alpha=mid))
            if rm is None:
                break
            lo, hi = (mid, hi) if rm[0] < 1 else (lo, mid)
        astar = math.sqrt(lo * hi)
        for f in ((0.9, 0.96, 1.04, 1.08, 1.15, 1.3) if tier == "quick" else (0.8, 0.9, 0.95, 0.97, 1.03, 1.05, 1.08, 1.12, 1.2, 1.35, 1.6)):
            pf = dict(base, alpha=astar * f)
            res = both(pf)
            if res is None:
                continue
            a_, b_ = res
            rep.case(key=("LTE-threshold", str(sorted(base.items())), f))
            rep.count("LTE threshold scan points")
            ok_ = not isinstance(b_, str) and abs(a_ - b_) <= 5e-4 * max(abs(a_), abs(b_), 1e-300)
            if not ok_:
                rep.violation(f"general and template solver disagree on the LTE wall velocity near the runaway threshold: {a_} vs {b_}",
                              {"params": pf, "runaway_threshold_alpha(general solver, bisection)": astar, "alpha_over_threshold": f, "general": a_,
                               "template": b_, "how": "props/C15.make_eos(params) -> Hydrodynamics(...).findvwLTE() vs .template.findvwLTE()"},
                              finding_key="C15:vwLTE-threshold")
