"""C09 -- in a uniform plasma the wall pressure equals the free-energy difference."""
from __future__ import annotations

import numpy as np

import common as C
import eom_common as EC

LEAN_MODULE = "WallGoVerif.Props.C09"
LEMMA_MODULES = ["WallGoVerif.Lemmas.EOM", "WallGoVerif.Model.EOM"]
GEN_MODULES = ["Grid"]
VALIDATION_POINTS = (100, 1000)
RULE = ("obligations = Lean theorems of Props.C09 (the tanh profile's coded gradient is its exact z-derivative; for C^1 potentials "
        "-int dV/dphi . dphi/dz dz = V(phi_low) - V(phi_high) for all widths/offsets, single and multi field, integrability proved; "
        "change of variables to the compact grid coordinate with the reported Jacobian; T-independent field part) + correspondence of "
        "Model.EOM.wallProfile + real _intermediatePressureResults runs in a uniform plasma for many wall shapes and grid sizes; "
        "distinct = (model, T, widths, offsets, M)")
ASSUMPTIONS = ["the discrete Gauss-Chebyshev-Lobatto sum converges spectrally to the integral (C16): the check requires the error to be small "
               "AND to fall when M grows; Nelder-Mead is an oracle whose result (any wall shape) must not matter"]


def corr(rep: C.Report, tier: str):
    # the profile and its analytic gradient: model vs real (shared with C04), plus derivative consistency on the real method
    from WallGo.containers import WallParams
    from WallGo.fields import Fields
    r = C.rng("C09corr")
    o = EC.make_eom("toy2", M=20)
    eom = o["eom"]
    lines, expect = [], []
    for _ in range(20 if tier == "quick" else 300):
        lo = [r.uniform(0.5, 3), r.uniform(-1, 1)]
        hi = [r.uniform(-0.5, 0.5), r.uniform(-1, 1)]
        W = [r.uniform(0.5, 12), r.uniform(0.5, 12)]
        off = [0.0, r.uniform(-2, 2)]
        z = r.uniform(-30, 30)
        f, g = eom.wallProfile(np.array([z]), Fields(lo), Fields(hi), WallParams(widths=np.array(W), offsets=np.array(off)))
        lines.append(f"profile {C.f2b(z)} 2 " + " ".join(str(C.f2b(x)) for x in lo + hi + W + off))
        expect.append(list(np.asarray(f).ravel()) + list(np.asarray(g).ravel()))
        rep.case(key=("profile", round(z), round(W[0])))
    outs = C.lean_run("EOMF", lines)
    bad = [ln for ln, ex, out in zip(lines, expect, outs)
           if any(abs(C.b2f(int(t)) - e) > 1e-12 * (abs(e) + 1e-300) + 1e-300 for t, e in zip(out.split(), ex))]
    rep.obligation("correspondence Model.EOM.wallProfile = real EOM.wallProfile (value and gradient)", "correspondence", not bad, f"{len(lines)} points")


def search(rep: C.Report, tier: str, broken):
    from WallGo.containers import WallParams, BoltzmannDeltas
    from WallGo.results import BoltzmannResults
    from WallGo.polynomial import Polynomial
    r = C.rng("C09search")
    Ms = (40, 80) if tier == "quick" else (40, 50, 70, 100, 140)
    # the same potentials written in other units as well (every dimensionful number multiplied by u): field gradients of order 1e-9 … 1e+9
    variants = [("toy1", {}), ("toy2", {}), ("toy1", dict(u=1e-5))] if tier == "quick" else \
        [("toy1", {}), ("toy2", {}), ("toy1", dict(u=1e-5)), ("toy1", dict(u=1e-7)), ("toy2", dict(u=1e-4)), ("toy1", dict(u=3e3))]
    for kind, params_ in variants:
        try:
            objs = {M: EC.make_eom(kind, params_, M=M) for M in Ms}
        except Exception as ex:  # noqa: BLE001
            rep.count(f"model construction raised {type(ex).__name__} for {kind} {params_}")
            continue
        th = objs[Ms[0]]["thermo"]
        Tn = th.Tnucl
        nf = objs[Ms[0]]["eom"].nbrFields
        for rep_i in range(4 if tier == "quick" else 25):
            T = r.uniform(max(th.TMinLowT, th.TMinHighT) * 1.01, min(th.TMaxLowT, th.TMaxHighT) * 0.99)
            w0 = r.uniform(3, 9) / Tn
            W = np.array([w0 * r.uniform(1, 3) ** r.choice((-0.5, 0.5)) for _ in range(nf)])
            off = np.array([0.0] + [r.uniform(-2, 2) for _ in range(nf - 1)])
            vmid = -r.uniform(0.2, 0.6)
            errs = {}
            info = {"model": kind, "params": params_, "T": T, "widths_Tn": (W * Tn).tolist(), "offsets": off.tolist(), "velocityMid": vmid}
            thick = float(np.max(W)) * r.uniform(0.8, 1.5)
            tin, tout = (thick * r.uniform(4, 7), thick * r.uniform(1.3, 2.2))[::r.choice((1, -1))]
            centre = r.uniform(-0.5, 0.5) * thick
            for M in Ms:
                o = objs[M]
                eom, grid = o["eom"], o["grid"]
                lowv, highv = EC.vevs(o, T, T)
                zeroPoly = Polynomial(np.zeros((0, grid.M - 1)), grid, direction=("Array", "z"), basis=("Array", "Cardinal"))
                deltas = BoltzmannDeltas(Delta00=zeroPoly, Delta02=zeroPoly, Delta20=zeroPoly, Delta11=zeroPoly)
                br = BoltzmannResults(deltaF=np.zeros((0, grid.M - 1, grid.N - 1, grid.N - 1)), Deltas=deltas, truncationError=0.0,
                                      linearizationCriterion1=np.zeros(0), linearizationCriterion2=np.zeros(0))
                wp = WallParams(widths=W.copy(), offsets=off.copy())
                want = float(th.effectivePotential.evaluate(lowv, T)[0] - th.effectivePotential.evaluate(highv, T)[0])
                sc = abs(want) + 1e-3 * Tn ** 4
                # (a) the pressure integral for exactly this wall shape, assembled from the real pieces
                eom._updateGrid(wp, vmid)
                fields, dphi = eom.wallProfile(grid.xiValues, lowv, highv, wp)
                Tprof = np.full(grid.M - 1, T)
                dV = th.effectivePotential.derivField(fields, Tprof)
                dz, _, _ = grid.getCompactificationDerivatives()
                p2 = float(Polynomial(np.sum(np.array(dV * dphi), axis=1), grid).integrate(weight=-dz))
                # (b) the real code path (minimises the action for the shape first: ANY resulting shape must give the same pressure)
                p, wp2, _, _ = eom._intermediatePressureResults(WallParams(widths=W.copy(), offsets=off.copy()), lowv, highv, 0.0, 0.0, vmid, br, T, T,
                                                               temperatureProfileInput=Tprof, velocityProfileInput=np.full(grid.M - 1, vmid),
                                                               multiplier=1.0)
                info[f"M={M}"] = {"pressure_given_shape": p2, "pressure_after_minimisation": float(p), "V_low_minus_V_high": want}
                # (c) a user-chosen grid with UNEQUAL tails (what _updateGrid produces with out-of-equilibrium particles): the code path
                # does not rebuild the grid, so the pressure integral must be right on it as well
                grid.changePositionFalloffScale(tin, tout, thick, centre)
                p3, _, _, _ = eom._intermediatePressureResults(WallParams(widths=W.copy(), offsets=off.copy()), lowv, highv, 0.0, 0.0, vmid, br, T, T,
                                                              temperatureProfileInput=Tprof, velocityProfileInput=np.full(grid.M - 1, vmid),
                                                              multiplier=1.0)
                info[f"M={M}"]["unequal_tails"] = {"tailInside": tin, "tailOutside": tout, "thickness": thick, "pressure": float(p3)}
                errs[M] = (abs(p2 - want) / sc, abs(p - want) / sc, abs(p3 - want) / sc)
                rep.case(key=(kind, str(params_), M, round(T / Tn, 3), round(float(W[0] * Tn), 1)), sample=dict(info) if len(rep.samples) < 3 and M == Ms[-1] else None)
                rep.count(f"pressure {kind}{'' if not params_ else ' ' + str(params_)} M={M}")
            e_first, e_last = max(errs[Ms[0]]), max(errs[Ms[-1]])
            # discretisation error: small at M=40 for shapes inside the property's box, and falling spectrally with M
            finite = all(np.isfinite(x) for m_ in Ms for x in errs[m_])
            if not finite or not e_first <= 0.02 or (not e_last <= max(1e-06, 0.2 * e_first)) or (not e_last <= 0.0001):
                rep.violation("wall pressure in a uniform plasma differs from V(phi_low) - V(phi_high) (beyond the spectrally "
                              "decreasing discretisation error)", dict(info, rel_errors_by_M={m: list(map(float, errs[m])) for m in Ms}),
                              finding_key=f"C09:pressure:{kind}" + ("" if not params_ else ":units"))
    # ---- second clause: the field-dependent part of the potential does not depend on temperature (V = -a T^4 + V0(phi)): the pressure is
    # V0(low) - V0(high) for ANY temperature profile through the wall, not only a uniform one
    import WallGo
    from WallGo.fields import Fields

    class TIndep(WallGo.EffectivePotential):
        fieldCount = 2
        effectivePotentialError = 1e-12

        def evaluate(self, fields, temperature):
            f = Fields(fields)
            h, s_ = f.getField(0), f.getField(1)
            T = np.asarray(temperature)
            return -3.0 * T ** 4 + 0.25 * 0.9 * (h ** 2 - 1.0) ** 2 + 0.5 * 0.7 * s_ ** 2 * (h ** 2 + 0.2) + 0.25 * 0.4 * s_ ** 4 - 0.08 * h ** 3 - 0.35 * s_ ** 2

        def V0(self, h, s_):
            return 0.25 * 0.9 * (h ** 2 - 1.0) ** 2 + 0.5 * 0.7 * s_ ** 2 * (h ** 2 + 0.2) + 0.25 * 0.4 * s_ ** 4 - 0.08 * h ** 3 - 0.35 * s_ ** 2
    pot = TIndep()
    pot.configureDerivatives(WallGo.VeffDerivativeSettings(temperatureVariationScale=0.1, fieldValueVariationScale=[1.0, 1.0]))
    lowv, highv = Fields([1.05, 0.0]), Fields([0.0, 0.8])          # any two field-space points: the identity holds for every end points of the profile
    want = float(pot.V0(1.05, 0.0) - pot.V0(0.0, 0.8))
    o = EC.make_eom("toy2", M=Ms[-1])
    eom, grid = o["eom"], o["grid"]
    for rep_i in range(3 if tier == "quick" else 12):
        W = np.array([r.uniform(3, 8), r.uniform(3, 8)])
        off = np.array([0.0, r.uniform(-1.5, 1.5)])
        wp = WallParams(widths=W.copy(), offsets=off.copy())
        eom._updateGrid(wp, -0.4)
        fields, dphi = eom.wallProfile(grid.xiValues, lowv, highv, wp)
        z = np.asarray(grid.xiValues)
        for tk, Tprof in (("uniform", np.full(grid.M - 1, 0.9)), ("tanh", 0.9 + 0.15 * np.tanh(z / 5.0)), ("wiggly", 0.9 + 0.1 * np.sin(z / 3.0) * np.exp(-(z / 20.0) ** 2))):
            dV = pot.derivField(fields, Tprof)
            dz, _, _ = grid.getCompactificationDerivatives()
            p_ = float(Polynomial(np.sum(np.array(dV * dphi), axis=1), grid).integrate(weight=-dz))
            rep.case(key=("T-independent-field-part", tk, rep_i))
            rep.count(f"T-independent field part, {tk} temperature profile")
            if not abs(p_ - want) <= 1e-5 * abs(want):
                rep.violation("for a potential whose field-dependent part does not depend on temperature the wall pressure differs from V(low) - V(high) "
                              "when the temperature varies through the wall",
                              {"potential": "V = -3 T^4 + V0(h, s) (two fields, harness/props/C09.TIndep)", "temperature_profile": tk, "widths": W.tolist(),
                               "offsets": off.tolist(), "pressure": p_, "V0(low)-V0(high)": want, "M": int(grid.M),
                               "how": "EOM.wallProfile + EffectivePotential.derivField(fields, Tprofile) + Polynomial.integrate(weight=-dz)"},
                              finding_key="C09:T-independent-field-part")
                break
