"""C17 -- grid coordinate maps: monotone bijections with consistent Jacobians; rescale history."""
from __future__ import annotations

from fractions import Fraction

import numpy as np

import common as C

LEAN_MODULES = ["WallGoVerif.Props.C17", "WallGoVerif.Props.C17H"]
LEMMA_MODULES = ["WallGoVerif.Lemmas.GridMaps", "WallGoVerif.Model.GridState"]
GEN_MODULES = ["Grid", "Grid3"]
VALIDATION_POINTS = (200, 5000)
RULE = ("obligations = Lean theorems of Props.C17 (HasDerivAt map = Jacobian for all three directions of both grids, "
        "Jacobian >= (1-smoothing)L/(r(1-chi^2)) > 0, centre slope L/r, inverse on the simple grid, momentum inverses) and "
        "Props.C17H (rescale history) about regenerated Gen.R.Grid/Grid3 + Float translator validation + exact (Rat) "
        "correspondence of the parameter-state model with real Grid3Scales objects over random rescale sequences + "
        "property evaluation on real grids; distinct = (grid kind, parameter decade tuple, op sequence)")
ASSUMPTIONS = ["real arithmetic stands for doubles: finite-difference comparison tolerance 1e-5 relative",
               "admissible three-scale parameters = the constructor's asserts (incl. smoothing < 1 after the fix commit)"]
KEY_E = "C17:grid3-compactify-not-inverse"


def fr(x):
    f = Fraction(x)
    return str(f.numerator) if f.denominator == 1 else f"{f.numerator}/{f.denominator}"


def _rand_g3(r, dyadic=False):
    def q(x):
        return round(x * 64) / 64 if dyadic else x
    L = q(10 ** r.uniform(-2, 2)) or 1 / 64
    ratio = q(r.uniform(0.1, 0.9)) or 0.5
    s = q(r.uniform(0.02, 0.95)) or 1 / 64
    lim = L * (0.5 + s) / ratio
    tIn = q(lim * (1.02 + 10 ** r.uniform(-1, 2))) + (1 / 64 if dyadic else 0)
    tOut = q(lim * (1.02 + 10 ** r.uniform(-1, 2))) + (1 / 64 if dyadic else 0)
    c = q(r.uniform(-3, 3) * L)
    T = q(10 ** r.uniform(-2, 2)) or 1 / 64
    return dict(tailLengthInside=tIn, tailLengthOutside=tOut, wallThickness=L, momentumFalloffT=T,
                ratioPointsWall=ratio, smoothing=s, wallCenter=c)


def corr(rep: C.Report, tier: str):
    from WallGo.grid3Scales import Grid3Scales
    r = C.rng("C17hist")
    nseq = 60 if tier == "quick" else 1500
    lines, expect = [], []
    bad_fresh = 0
    for k in range(nseq):
        p = _rand_g3(r, dyadic=True)
        try:
            g = Grid3Scales(8, 5, **p)
        except AssertionError:
            continue
        lines.append("init " + " ".join(fr(p[x]) for x in ("tailLengthInside", "tailLengthOutside", "wallThickness",
                                                           "ratioPointsWall", "smoothing", "wallCenter", "momentumFalloffT")))
        expect.append(None)
        cur = dict(p)
        ops = []
        for _ in range(r.randint(1, 6)):
            if r.random() < 0.6:
                q = _rand_g3(r, dyadic=True)
                # keep ratio/smoothing of the object: tails must satisfy the assert with THOSE
                lim = q["wallThickness"] * (0.5 + cur["smoothing"]) / cur["ratioPointsWall"]
                tin = round((lim * 1.5 + 0.1) * 64) / 64 + 1 / 64
                tout = round((lim * 2.5 + 0.1) * 64) / 64 + 1 / 64
                mode = r.random()
                if mode < 0.25:         # pure translation of the wall: same three lengths, new centre
                    tin, tout, q["wallThickness"] = cur["tailLengthInside"], cur["tailLengthOutside"], cur["wallThickness"]
                elif mode < 0.35:       # only one length changes
                    tout, q["wallThickness"] = cur["tailLengthOutside"], cur["wallThickness"]
                    tin = cur["tailLengthInside"] + 1 / 64
                elif mode < 0.4:        # identical call repeated
                    tin, tout, q["wallThickness"], q["wallCenter"] = cur["tailLengthInside"], cur["tailLengthOutside"], cur["wallThickness"], cur["wallCenter"]
                elif mode < 0.55:       # the wall is moved (back) to the origin: an explicit centre of exactly zero, given as float, int or -0.0
                    q["wallCenter"] = r.choice((0.0, 0, -0.0))
                g.changePositionFalloffScale(tin, tout, q["wallThickness"], q["wallCenter"])
                cur.update(tailLengthInside=tin, tailLengthOutside=tout, wallThickness=q["wallThickness"], wallCenter=q["wallCenter"])
                lines.append(f"pos {fr(tin)} {fr(tout)} {fr(q['wallThickness'])} {fr(q['wallCenter'])}")
                ops.append("pos")
            else:
                T = round(10 ** r.uniform(-2, 2) * 64) / 64 + 1 / 64
                g.changeMomentumFalloffScale(T)
                cur["momentumFalloffT"] = T
                lines.append(f"mom {fr(T)}")
                ops.append("mom")
            expect.append(None)
        lines.append("get")
        expect.append([g.tailLengthInside, g.tailLengthOutside, g.wallThickness, g.ratioPointsWall, g.smoothing,
                       g.wallCenter, g.momentumFalloffT, g.positionFalloff])
        # history clause on the real object: every cached array equals that of a fresh grid (bitwise)
        f = Grid3Scales(8, 5, **cur)
        same = all(np.array_equal(a, b) for a, b in zip(
            list(g.getCoordinates()) + list(g.getCompactificationDerivatives()) + [np.array([g.aIn, g.aOut])],
            list(f.getCoordinates()) + list(f.getCompactificationDerivatives()) + [np.array([f.aIn, f.aOut])]))
        rep.case(key=("hist", tuple(ops), round(np.log10(cur["wallThickness"]))),
                 sample={"init": p, "ops": ops, "final": cur} if k < 2 else None)
        rep.count("history sequences")
        if not same:
            bad_fresh += 1
            rep.violation("rescaled Grid3Scales differs from a freshly constructed grid with the same scales",
                          {"init": p, "final": cur, "ops": ops}, finding_key="C17:history")
    outs = C.lean_run("GridStateQ", lines)
    bad = 0
    for ln, ex, out in zip(lines, expect, outs):
        if ex is None:
            if out.strip() != "ok":
                bad += 1
            continue
        got = [float(Fraction(t)) for t in out.split()]
        if got != [float(x) for x in ex]:
            bad += 1
            rep.notes.append(f"state model mismatch: model={got} real={ex}")
    rep.obligation("correspondence Model.GridState = Grid3Scales attributes over rescale sequences (exact)", "correspondence",
                   bad == 0, f"{len(lines)} ops, {bad} mismatches")
    rep.obligation("real rescaled grid == fresh grid (bitwise, all cached arrays)", "correspondence", bad_fresh == 0,
                   f"{nseq} sequences")


def search(rep: C.Report, tier: str, broken):
    from WallGo.grid import Grid
    from WallGo.grid3Scales import Grid3Scales
    r = C.rng("C17search")
    n = 120 if tier == "quick" else 3000
    chis = np.unique(np.concatenate([np.linspace(-0.999, 0.999, 41), [-0.999999, 0.999999, 0.0]]))
    for k in range(n):
        p = _rand_g3(r)
        for kind in ("grid3", "grid"):
            try:
                g = Grid3Scales(6, 5, **p) if kind == "grid3" else Grid(6, 5, p["wallThickness"], p["momentumFalloffT"])
            except AssertionError:
                continue
            rep.case(key=(kind, round(np.log10(p["wallThickness"])), round(p["ratioPointsWall"], 1), round(p["smoothing"], 1),
                          round(np.log10(p["tailLengthInside"]))))
            rep.count(f"search {kind}")
            z, pz, pp = g.decompactify(chis, chis, chis)
            dz, dpz, dpp = g.compactificationDerivatives(chis, chis, chis)
            info = {"kind": kind, "params": p}
            # strictly increasing
            for nm, arr in (("z", z), ("pz", pz), ("pp", pp)):
                if not np.all(np.diff(arr) > 0):
                    rep.violation(f"{kind} map {nm} not strictly increasing", dict(info, direction=nm,
                                  chi=chis.tolist(), values=np.asarray(arr).tolist()), finding_key=f"C17:monotone:{kind}:{nm}")
            # Jacobian = derivative (central differences with relative step)
            def d5(i, hh):
                f = lambda x: g.decompactify(x, x, x)[i]     # noqa: E731
                return (-f(chis + 2 * hh) + 8 * f(chis + hh) - 8 * f(chis - hh) + f(chis - 2 * hh)) / (12 * hh)
            for nm, i, jac in (("z", 0, dz), ("pz", 1, dpz), ("pp", 2, dpp)):
                # best of three step sizes: truncation error (sharp steps of width aIn/aOut) vs rounding noise
                rels = [np.abs(d5(i, e * (1 - np.abs(chis))) - jac) / np.abs(jac) for e in (1e-3, 1e-4, 1e-5)]
                rel = np.minimum(np.minimum(rels[0], rels[1]), rels[2])
                num = d5(i, 1e-4 * (1 - np.abs(chis)))
                # close to the poles chi = +-1 the float evaluation of the map itself is too noisy for differences
                # (the float evaluation of the three-scale map cancels terms of size tail/a and carries absolute
                # noise ~1e-8 |z|, measured against a 50-digit evaluation; differences of it are only good to ~1e-3)
                rel = np.where(np.abs(chis) <= 0.95, rel, 0.0)
                if np.any(rel > (2e-3 if kind == "grid3" and nm == "z" else 1e-6)) or np.any(np.asarray(jac) <= 0):
                    i = int(np.argmax(rel))
                    rep.violation(f"{kind} Jacobian of {nm} is not the derivative of the map (or not positive)",
                                  dict(info, direction=nm, chi=float(chis[i]), jacobian=float(np.asarray(jac)[i]),
                                       finite_difference=float(num[i])), finding_key=f"C17:jacobian:{kind}:{nm}")
            # origin and centre slope
            z0 = float(g.decompactify(np.array(0.0), np.array(0.0), np.array(0.0))[0])
            centre = p["wallCenter"] if kind == "grid3" else 0.0
            if not abs(z0 - centre) <= 1e-09 * (abs(centre) + p['wallThickness']):
                rep.violation(f"{kind}: compact origin not mapped to the wall centre", dict(info, z0=z0, centre=centre),
                              finding_key=f"C17:origin:{kind}")
            if kind == "grid3":
                s0 = float(g.compactificationDerivatives(np.array(0.0), np.array(0.0), np.array(0.0))[0])
                want = p["wallThickness"] / p["ratioPointsWall"]
                if not abs(s0 - want) <= 1e-09 * want:
                    rep.violation("grid3: slope at the centre is not wallThickness/ratioPointsWall",
                                  dict(info, slope=s0, expected=want), finding_key="C17:centre-slope")
            # inverse offered by the same object (which must leave the arrays it is given alone: physical -> compact -> physical below)
            z, pz, pp = (np.array(a_, dtype=float) for a_ in (z, pz, pp))
            keep = [a_.copy() for a_ in (z, pz, pp)]
            zc, pzc, ppc = g.compactify(z, pz, pp)
            for nm, a_, k_ in zip(("z", "pz", "pp"), (z, pz, pp), keep):
                if not np.array_equal(a_, k_):
                    rep.violation(f"{kind}.compactify overwrote the {nm} array it was given (float64 ndarray)",
                                  dict(info, direction=nm, before=k_.tolist(), after=a_.tolist()), finding_key=f"C17:compactify-in-place:{nm}")
                    z, pz, pp = keep
                    break
            if k % 10 == 0:
                # the coordinates cached by the grid object itself are such arrays
                c0 = [np.array(a_, copy=True) for a_ in g.getCoordinates()]
                g.compactify(*g.getCoordinates())
                if not all(np.array_equal(a_, b_) for a_, b_ in zip(c0, g.getCoordinates())):
                    rep.violation(f"{kind}.compactify(*grid.getCoordinates()) changed the coordinates stored in the grid object",
                                  dict(info), finding_key="C17:compactify-in-place:cached")
            inner = np.abs(chis) < 0.99
            for nm, back in (("z", zc), ("pz", pzc), ("pp", ppc)):
                err = np.max(np.abs(np.asarray(back)[inner] - chis[inner]))
                if not err <= 1e-06:
                    rep.violation(f"{kind}.compactify does not undo decompactify in direction {nm} (max error {err:.3g})",
                                  dict(info, direction=nm, max_error=float(err)),
                                  finding_key=KEY_E if (kind == "grid3" and nm == "z") else f"C17:inverse:{kind}:{nm}")
    # extreme but admissible separation of scales (tails 10 ... 1e4 wall thicknesses: the smoothed steps at chi = +-r become very sharp).  Finite
    # differences of the float map are useless there, so the Jacobian is tied to the map the other way round: its integral over an interval of
    # chi (adaptive quadrature, break points at the steps) is the difference of the map.  With the centre-slope test above (on the reported
    # Jacobian) the interval around chi = 0 ties the slope of the MAP at the centre as well.  Unchanged code: <= 6e-6 (float noise of the map).
    from scipy.integrate import quad
    seps = (1e1, 1e3, 1e4) if tier == "quick" else (1e1, 1e2, 1e3, 3e3, 1e4)
    for tl in seps:
        for rr in (0.25, 0.5, 0.75):
            for ss in (0.05, 0.1, 0.3):
                for L in ((1.0,) if tier == "quick" else (0.01, 1.0, 100.0)):
                    par = dict(tailLengthInside=tl * L, tailLengthOutside=2 * tl * L, wallThickness=L, momentumFalloffT=1.0, ratioPointsWall=rr,
                               smoothing=ss, wallCenter=0.3 * L)
                    g = Grid3Scales(6, 5, **par)
                    J = lambda x: float(g.compactificationDerivatives(np.array(x), np.array(0.0), np.array(0.0))[0])   # noqa: E731
                    Z = lambda x: float(g.decompactify(np.array(x), np.array(0.0), np.array(0.0))[0])                   # noqa: E731
                    edges = [-0.9, -0.75, -0.6, -0.3, -0.02, 0.02, 0.3, 0.6, 0.75, 0.9]
                    zmax = max(abs(Z(-0.9)), abs(Z(0.9)))
                    rep.case(key=("scale-separation", tl, rr, ss, L))
                    rep.count("extreme scale separation: integral of the Jacobian vs the map")
                    for a, b in zip(edges[:-1], edges[1:]):
                        I = quad(J, a, b, points=[x for x in (-rr, rr) if a < x < b] or None, epsabs=0, epsrel=1e-11, limit=400)[0]
                        d = Z(b) - Z(a)
                        if not abs(I - d) <= 2e-4 * (abs(d) + 1e-7 * zmax):
                            rep.violation("grid3: the integral of the reported Jacobian over an interval of chi is not the difference of the position map",
                                          dict(kind="grid3", params=par, chi_from=a, chi_to=b, integral_of_jacobian=I, map_difference=d),
                                          finding_key="C17:jacobian-integral")
                            break
    # the constructor must reject smoothing >= 1 (fixed defect C17-I must not return)
    for s in (1.0, 1.5, 3.0):
        try:
            g = Grid3Scales(6, 5, 107.0, 8.0, 1.0, 1.0, 0.5, s, 0.0)
            zz = g.decompactify(chis, chis, chis)[0]
            if not np.all(np.diff(zz) > 0):
                rep.violation("Grid3Scales accepts smoothing >= 1 and its position map is not monotone",
                              {"smoothing": s, "params": "tails 107/8, L=1, r=0.5"}, finding_key="C17:smoothing-ge-1")
        except AssertionError:
            pass
        rep.case(key=("smoothing>=1", s))
