"""C19 -- finite-difference derivatives exact on low-degree polynomials."""
from __future__ import annotations

import itertools
from fractions import Fraction

import numpy as np

import common as C

LEAN_MODULE = "WallGoVerif.Props.C19"
LEMMA_MODULES = ["WallGoVerif.Lemmas.Stencil", "WallGoVerif.Model.Deriv"]
GEN_MODULES = []
USES_TABLES = True
RULE = ("obligations = Lean theorems of Props.C19 (moment conditions by decide +kernel over the regenerated tables, "
        "generic exactness lemma, in-bounds, shapes) + exact correspondence of Model.Deriv (K=Rat) with "
        "helpers.derivative/gradient/hessian on dyadic inputs (positions, selected row) + exactness/in-bounds/shape "
        "search on the real helpers; distinct non-trivial = (n, order, row, relative position, log2 h, degree) tuples")
ASSUMPTIONS = [
    "dyadic x, h, bounds and integer polynomial coefficients make the Python float evaluation points exact, so rows and "
    "positions are compared exactly; the final weighted sum is compared to 1e-12 (1/12-type coefficients round)",
    "np.arange/float rounding of non-dyadic steps is outside the real-number model (float-edge stream is a test)",
]
KNOWN_KEY_NARROW = "C19:narrow-two-sided-bounds"


def frac(x) -> str:
    f = Fraction(x)
    return str(f.numerator) if f.denominator == 1 else f"{f.numerator}/{f.denominator}"


def poly(cs):
    def f(y, *a):
        y = np.asarray(y, dtype=float)
        out = np.zeros_like(y)
        for c in reversed(cs):
            out = out * y + c
        return out
    return f


def exact_deriv(cs, n, x):
    d = list(cs)
    for _ in range(n):
        d = [k * d[k] for k in range(1, len(d))]
    return sum(Fraction(c) * Fraction(x) ** k for k, c in enumerate(d))


def corr(rep: C.Report, tier: str):
    """Model.Deriv (exact Rat) vs helpers.derivative on dyadic inputs."""
    from WallGo import helpers
    r = C.rng("C19corr")
    lines, cases = [], []
    hs = [2.0 ** -k for k in range(0, 11)] + [2.0 ** k for k in (1, 3)]
    for n, order in itertools.product((1, 2), (2, 4)):
        npts = {(1, 2): 2, (2, 2): 3, (1, 4): 4, (2, 4): 5}[(n, order)]
        for h in (hs if tier == "thorough" else hs[::2]):
            # positions relative to a bound: 0, 1/2, 1, 3/2, 2, 5/2, 3 steps, and far
            for rel in (0, 0.5, 1, 1.5, 2, 2.5, 3, 8):
                for side in ("lo", "hi", "none", "both"):
                    lo, hi = None, None
                    x = float(r.randint(-8, 8)) / 4
                    if side == "lo":
                        lo = x - rel * h
                    elif side == "hi":
                        hi = x + rel * h
                    elif side == "both":
                        lo, hi = x - rel * h, x - rel * h + 8 * h + r.randint(0, 3) * h
                        if not (lo <= x <= hi):
                            continue
                    deg = r.randint(0, npts - 1)
                    cs = [r.randint(-3, 3) for _ in range(deg + 1)]
                    bounds = None if (lo is None and hi is None) else (-np.inf if lo is None else lo, np.inf if hi is None else hi)
                    seen = []
                    base = poly(cs)

                    def f(y, *a, _seen=seen, _base=base):
                        _seen.append(np.array(y, dtype=float).ravel().tolist())
                        return _base(y)
                    try:
                        res = float(helpers.derivative(f, x, n=n, order=order, bounds=bounds, dx=h))
                    except AssertionError:
                        continue
                    lines.append(f"deriv {n} {order} {frac(x)} {frac(h)} {'none' if lo is None else frac(lo)} "
                                 f"{'none' if hi is None else frac(hi)} " + " ".join(str(c) for c in cs))
                    cases.append((n, order, x, h, lo, hi, cs, seen[0], res, rel, side))
    outs = C.lean_run("DerivQ", lines)
    bad = 0
    for ln, cs_, out in zip(lines, cases, outs):
        n, order, x, h, lo, hi, cs, pypos, res, rel, side = cs_
        row, pos, val = [t.strip() for t in out.split("|")]
        mpos = [float(Fraction(t)) for t in pos.split()]
        mval = float(Fraction(val))
        rep.case(key=(n, order, int(row), rel, side, h, len(cs)),
                 sample={"op": ln, "model": out, "python_positions": pypos, "python_result": res} if len(rep.samples) < 4 else None)
        rep.count(f"corr row {n}/{order}/{row}")
        fsum = float(np.sum(np.abs(poly(cs)(np.array(pypos))))) if pypos else 0.0
        # rounding of the weighted sum: function values times |coefficients| <= 10 times 1/h^n
        if mpos != pypos or abs(mval - res) > 1e-13 * (abs(mval) + 10 * fsum / h ** n) + 1e-300:
            bad += 1
            if bad <= 3:
                rep.notes.append(f"corr disagreement: {ln} model={out} python pos={pypos} res={res}")
    rep.obligation("correspondence Model.Deriv(K=Rat) = helpers.derivative (rows, positions exact; result 1e-12)",
                   "correspondence", bad == 0, f"{len(lines)} cases, {bad} disagreements")
    # gradient / hessian central stencils and axis normalisation
    lines2, exp2 = [], []
    for order in (2, 4):
        for h in (0.5, 0.125, 2.0):
            deg = order
            cs = [r.randint(-3, 3) for _ in range(deg + 1)]
            g = poly(cs)
            res = helpers.gradient(lambda X, _g=g: _g(X[..., 0]), np.array([0.0, 1.0]), order=order, dx=np.array([h, 1.0]), axis=0)
            lines2.append(f"grad {order} {frac(h)} " + " ".join(map(str, cs)))
            exp2.append(float(np.asarray(res).ravel()[0]))
            for a, b in ((1, 1), (2, 1), (0, 2), (3, 2) if order == 4 else (1, 2)):
                hi_, hj_ = h, 2 * h
                res = helpers.hessian(lambda X, a=a, b=b: X[..., 0] ** a * X[..., 1] ** b, np.array([0.0, 0.0]),
                                      order=order, dx=np.array([hi_, hj_]), xAxis=0, yAxis=1)
                lines2.append(f"hess {order} {frac(hi_)} {frac(hj_)} {a} {b}")
                exp2.append(float(np.asarray(res).ravel()[0]))
            cs3 = [r.randint(-3, 3) for _ in range(order + 2)]
            g3 = poly(cs3)
            res = helpers.hessian(lambda X, _g=g3: _g(X[..., 0]), np.array([0.0]), order=order, dx=np.array([h]))
            lines2.append(f"hessdiag {order} {frac(h)} " + " ".join(map(str, cs3)))
            exp2.append(float(np.asarray(res).ravel()[0]))
    outs2 = C.lean_run("DerivQ", lines2)
    bad2 = [(l, o, e) for l, o, e in zip(lines2, outs2, exp2) if abs(float(Fraction(o)) - e) > 1e-9 * (1 + abs(e))]
    for l in lines2:
        rep.case(key=("gh",) + tuple(l.split()[:4]))
    rep.obligation("correspondence Model.Deriv gradComp/hessEntry = helpers.gradient/hessian", "correspondence",
                   not bad2, f"{len(lines2)} cases; {bad2[:2]}")


def search(rep: C.Report, tier: str, broken):
    """The property itself on the real helpers: exactness, in-bounds, shapes."""
    from WallGo import helpers
    r = C.rng("C19search")
    N = 400 if tier == "quick" else 6000
    if broken:
        N *= 3
    npts = {(1, 2): 2, (2, 2): 3, (1, 4): 4, (2, 4): 5}
    for i in range(N):
        n, order = r.choice((1, 2)), r.choice((2, 4))
        h = 10.0 ** r.uniform(-5, 5) if r.random() < 0.5 else 2.0 ** r.randint(-12, 12)
        x = r.uniform(-3, 3) * r.choice((1.0, h, 100.0))
        side = r.choice(("none", "lo", "hi", "both", "narrow"))
        rel = r.choice((0, 0.3, 1, 1.7, 2, 2.5, 5))
        lo = hi = None
        if side == "lo":
            lo = x - rel * h
        elif side == "hi":
            hi = x + rel * h
        elif side == "both":
            lo, hi = x - rel * h, x - rel * h + r.uniform(5, 9) * h
        elif side == "narrow":
            lo, hi = x - rel * h * 0.4, x - rel * h * 0.4 + r.uniform(1.0, 3.9) * h
        if lo is not None and hi is not None and not (lo <= x <= hi):
            continue
        deg = r.randint(0, npts[(n, order)] - 1)
        cs = [r.randint(-5, 5) for _ in range(deg + 1)]
        # expand around x so the numbers stay O(1): P(y) = sum c_k ((y-x)/h)^k
        def P(y, _cs=cs, _x=x, _h=h):
            t = (np.asarray(y, dtype=float) - _x) / _h
            out = np.zeros_like(t)
            for c in reversed(_cs):
                out = out * t + c
            return out
        seen = []

        def f(y, *a):
            seen.append(np.array(y, dtype=float).ravel())
            return P(y)
        bounds = None if (lo is None and hi is None) else (-np.inf if lo is None else lo, np.inf if hi is None else hi)
        try:
            res = float(helpers.derivative(f, x, n=n, order=order, bounds=bounds, dx=h))
        except AssertionError:
            continue
        exact = (cs[n] if n < len(cs) else 0) * (1 if n == 1 else 2) / h ** n
        scale = sum(abs(c) for c in cs) * 4 ** deg / h ** n + 1e-300
        rep.case(key=(n, order, side, rel, deg, round(np.log10(h))))
        rep.count(f"search {side}")
        if not abs(res - exact) <= 1e-09 * scale:
            rep.violation(f"derivative n={n} order={order} not exact on a degree-{deg} polynomial",
                          {"n": n, "order": order, "x": x, "dx": h, "bounds": [lo, hi], "coeffs_in_(y-x)/h": cs,
                           "result": res, "exact": exact, "call": "helpers.derivative(P, x, n, order, bounds, dx=h)"},
                          finding_key=f"C19:inexact:{n}:{order}")
        if bounds is not None:
            pts = np.concatenate(seen)
            if lo is not None and (not pts.min() >= lo) or (hi is not None and (not pts.max() <= hi)):
                narrow = lo is not None and hi is not None and (hi - lo) < npts[(n, order)] * h * (1 + 1e-12)
                rep.violation(f"derivative evaluated f outside bounds (n={n}, order={order})",
                              {"n": n, "order": order, "x": x, "dx": h, "bounds": [lo, hi],
                               "evaluated": pts.tolist(), "width_in_steps": None if lo is None or hi is None else (hi - lo) / h},
                              finding_key=KNOWN_KEY_NARROW if narrow else f"C19:out-of-bounds:{n}:{order}:{side}")
    # directed float-edge stream: the point lies EXACTLY one or two (floating-point) steps from a finite bound, with non-dyadic steps; the
    # stencil has to be chosen with the same step the abscissae are computed with, or its outermost node lands a few ulp outside
    for i in range(1500 if tier == "quick" else 20000):
        n, order = r.choice((1, 2)), r.choice((2, 4))
        h = 10.0 ** r.uniform(-5, 5)
        x = r.uniform(-3, 3) * r.choice((1.0, h, 100.0))
        k = r.choice((1, 2)) if order == 4 else 1
        side = r.choice(("lo", "hi"))
        lo, hi = (x - k * h, np.inf) if side == "lo" else (-np.inf, x + k * h)
        seen = []

        def f2(y, *a):
            seen.append(np.array(y, dtype=float).ravel())
            return np.asarray(y, dtype=float) * 0.0 + 1.0
        try:
            helpers.derivative(f2, x, n=n, order=order, bounds=(lo, hi), dx=h)
        except AssertionError:
            continue
        pts = np.concatenate(seen)
        rep.case(key=("aligned", n, order, side, k, round(np.log10(h))))
        rep.count("lattice-aligned points next to a bound")
        if not pts.min() >= lo or not pts.max() <= hi:
            rep.violation(f"derivative evaluated f outside bounds (n={n}, order={order}) for a point exactly {k} step(s) from the bound",
                          {"n": n, "order": order, "x": x, "dx": h, "bounds": [lo, hi], "evaluated": pts.tolist(),
                           "overshoot": float(max(lo - pts.min(), pts.max() - hi))}, finding_key=f"C19:out-of-bounds:aligned:{side}")
            break
    # WallGo's own call site: EffectivePotential.derivT uses bounds (0, inf)
    for k in range(40 if tier == "quick" else 400):
        T = 10 ** r.uniform(-3, 1)
        scale = 10 ** r.uniform(-2, 1)
        pts = []

        def g(y, *a):
            pts.append(np.array(y, dtype=float).ravel())
            return np.asarray(y) ** 3
        res = float(helpers.derivative(g, T, n=1, order=4, epsilon=1e-15, scale=scale, bounds=(0, np.inf)))
        rep.case(key=("derivT", round(np.log10(T), 1), round(np.log10(scale), 1)))
        if not np.concatenate(pts).min() >= 0 or not abs(res - 3 * T * T) <= 1e-06 * (3 * T * T + scale ** 2):
            rep.violation("temperature derivative leaves [0,inf) or is inexact on T^3",
                          {"T": T, "scale": scale, "points": np.concatenate(pts).tolist(), "result": res},
                          finding_key="C19:derivT")
    # WallGo's other call site: EffectivePotential packs (fields, T) into one array for gradient()/hessian().  A potential that is a polynomial of
    # degree <= 4 in the fields and in T (the four-point stencils are exact on it up to rounding), at non-integer temperatures, with the field
    # values given as floats AND as integers (Fields([2, 1]) is an integer array): same derivatives, equal to the closed forms
    import models as _models
    import WallGo as _WG
    pot = _models.toy2_class()(D=0.1, E=0.06, lam=0.1, T0=1.0, a=3.0, ms2=0.5, ls=0.2, kap=0.3)
    pot.configureDerivatives(_WG.VeffDerivativeSettings(temperatureVariationScale=0.5, fieldValueVariationScale=[0.5, 0.5]))
    for Tq in (3.75, 0.5, 2.0, 1.3):
        for xs_ in ([2, 1], [3, -2], [1, 0]):
            for dt in (float, int, np.int32):
                F = _WG.Fields(np.array([xs_], dtype=dt))
                xf = np.array(xs_, dtype=float)
                g_exact = pot.grad(xf, Tq)
                h_exact = pot.hess(xf, Tq)
                dT_exact = 2 * pot.D * Tq * xf[0] ** 2 - pot.E * xf[0] ** 3 - 4 * pot.a * Tq ** 3
                dgT_exact = np.array([4 * pot.D * Tq * xf[0] - 3 * pot.E * xf[0] ** 2, 0.0])
                got = {"derivField": (np.asarray(pot.derivField(F, Tq), dtype=float).ravel(), g_exact),
                       "deriv2Field2": (np.asarray(pot.deriv2Field2(F, Tq), dtype=float).reshape(2, 2), h_exact),
                       "deriv2FieldT": (np.asarray(pot.deriv2FieldT(F, Tq), dtype=float).ravel(), dgT_exact),
                       "derivT": (np.asarray(pot.derivT(F, Tq), dtype=float).ravel(), np.array([dT_exact]))}
                rep.case(key=("potential-derivatives", Tq, tuple(xs_), np.dtype(dt).name))
                rep.count("EffectivePotential derivatives of a polynomial potential (float and integer field arrays)")
                for nm_, (gv, ev) in got.items():
                    if not np.max(np.abs(gv - ev)) <= 1e-6 * (1 + np.max(np.abs(ev))):
                        rep.violation(f"EffectivePotential.{nm_} of a polynomial potential (degree <= 4) differs from the exact derivative",
                                      {"potential": "toy2 (D=0.1,E=0.06,lam=0.1,a=3,ms2=0.5,ls=0.2,kap=0.3)", "fields": list(xs_), "fields_dtype": np.dtype(dt).name,
                                       "T": Tq, "got": gv.tolist(), "exact": np.asarray(ev).tolist()}, finding_key=f"C19:potential:{nm_}")
    # shapes and axis selections for gradient / hessian
    shapes = [(3,), (2, 3), (4, 2, 3), (1, 1, 2)]
    for shp in shapes:
        d = shp[-1]
        X = np.array([[r.uniform(-1, 1) for _ in range(d)] for _ in range(int(np.prod(shp[:-1])))]).reshape(shp)
        A = np.array([[r.randint(-2, 2) for _ in range(d)] for _ in range(d)], dtype=float)
        A = A + A.T
        bvec = np.array([r.randint(-2, 2) for _ in range(d)], dtype=float)

        def q(Z):
            return 0.5 * np.einsum("...i,ij,...j->...", Z, A, Z) + Z @ bvec
        for order in (2, 4):
            axes_list = [None] + [list(c) for k in range(1, d + 1) for c in itertools.combinations(range(d), k)][:6] + [-1, [d - 1, 0]]
            for ax in axes_list:
                gr = helpers.gradient(q, X, order=order, dx=0.25, axis=ax)
                idx = list(range(d)) if ax is None else ([ax] if isinstance(ax, int) else ax)
                exp = (X @ A + bvec)[..., idx]
                rep.case(key=("grad", shp, order, str(ax)))
                if gr.shape != exp.shape or not np.max(np.abs(gr - exp)) <= 1e-09:
                    rep.violation("gradient shape/value wrong on a quadratic form",
                                  {"shape": shp, "order": order, "axis": ax, "got_shape": list(gr.shape), "expected_shape": list(exp.shape),
                                   "maxerr": float(np.max(np.abs(gr - exp))) if gr.shape == exp.shape else None},
                                  finding_key=f"C19:gradient:{order}")
                for ay in (None, ax):
                    hs_ = helpers.hessian(q, X, order=order, dx=0.25, xAxis=ax, yAxis=ay)
                    idy = list(range(d)) if ay is None else ([ay] if isinstance(ay, int) else ay)
                    exph = np.broadcast_to(A[np.ix_(idx, idy)], shp[:-1] + (len(idx), len(idy)))
                    rep.case(key=("hess", shp, order, str(ax), str(ay)))
                    if hs_.shape != exph.shape or not np.max(np.abs(hs_ - exph)) <= 1e-08:
                        rep.violation("hessian shape/value wrong on a quadratic form",
                                      {"shape": shp, "order": order, "xAxis": ax, "yAxis": ay, "got_shape": list(hs_.shape),
                                       "expected_shape": list(exph.shape)}, finding_key=f"C19:hessian:{order}")
    # hessian exactness class (total degree <= order+1 for mixed entries)
    for order in (2, 4):
        for a in range(0, 6):
            for b in range(0, 6):
                if a + b > order + 1:
                    continue
                res = helpers.hessian(lambda Z, a=a, b=b: Z[..., 0] ** a * Z[..., 1] ** b, np.array([0.0, 0.0]), order=order,
                                      dx=np.array([0.5, 0.25]))
                exp = np.zeros((2, 2))
                if (a, b) == (1, 1):
                    exp[0, 1] = exp[1, 0] = 1
                if (a, b) == (2, 0):
                    exp[0, 0] = 2
                if (a, b) == (0, 2):
                    exp[1, 1] = 2
                rep.case(key=("hessmono", order, a, b))
                if not np.max(np.abs(res - exp)) <= 1e-09:
                    rep.violation(f"hessian not exact on x^{a} y^{b} (order {order})",
                                  {"order": order, "a": a, "b": b, "got": res.tolist(), "expected": exp.tolist()},
                                  finding_key=f"C19:hessmono:{order}")


def KNOWN_EXPLAINS(broken, known_hit):
    return False
