"""C11 -- a traced phase is one genuine minimum, tabulated only where it exists; critical temperature."""
from __future__ import annotations

import math
from fractions import Fraction

import numpy as np

import common as C

LEAN_MODULE = "WallGoVerif.Props.C11"
LEMMA_MODULES = ["WallGoVerif.Lemmas.Tracer", "WallGoVerif.Model.Tracer"]
GEN_MODULES = []
RULE = ("obligations = Lean theorems of Props.C11 about Model.Tracer (a step enters the table only while the smallest Hessian "
        "eigenvalue is positive and before any break; table strictly increasing; possible range = [min+2dT, max-2dT]; flags <=> the "
        "table ends short of the requested end; reaching the bound => unflagged; critical-temperature bracket has a sign change and the "
        "low-T phase is favoured below it when the high-T phase is favoured at TMax) + exact correspondence of the model with the real "
        "tracePhase driven by a logging RK45 subclass (step records -> table, range, flags) + closed-form checks of every tabulated "
        "point (gradient, Hessian, branch, interpolation accuracy, spinodal stops, Tc); distinct = (model, phase, range kind, dT, paranoid)")
ASSUMPTIONS = ["RK45, BFGS re-minimisation and eigvalsh are oracles; 'same continuous branch' (no minimiser hopping) cannot be a theorem and is "
               "hunted by the closed-form comparison: partial", "step records are logged from outside by substituting a subclass for "
               "scipy.integrate.RK45 in WallGo.freeEnergy's namespace and wrapping the potential's deriv2Field2 (no source hooks)"]
KEY_TC_DIR = "C11:critical-temperature-direction"


def fr(x):
    f = Fraction(float(x))
    return str(f.numerator) if f.denominator == 1 else f"{f.numerator}/{f.denominator}"


class Logger:
    """substitute for scipy.integrate.RK45 inside WallGo.freeEnergy + eigenvalue log"""

    def __init__(self, pot):
        import WallGo.freeEnergy as FE
        self.FE, self.pot = FE, pot
        self.dirs = []          # per direction: list of [t, step_size, mineig]
        self.cur = None

    def __enter__(self):
        FE, log = self.FE, self
        self._rk = FE.scipyint.RK45
        base = self._rk

        class LoggingRK45(base):
            def __init__(s, *a, **k):
                super().__init__(*a, **k)
                log.cur = []
                log.dirs.append(log.cur)

            def step(s):
                r = super().step()
                log.cur.append([float(s.t), float(s.step_size) if s.step_size is not None else math.nan, None])
                return r
        FE.scipyint.RK45 = LoggingRK45
        self._d2 = self.pot.deriv2Field2

        def d2(fields, T):
            res = self._d2(fields, T)
            if log.cur is not None and log.cur and log.cur[-1][2] is None:
                log.cur[-1][2] = float(np.min(np.linalg.eigvalsh(np.asarray(res).reshape(np.asarray(res).shape[-2:]))))
            return res
        self.pot.deriv2Field2 = d2
        return self

    def __exit__(self, *a):
        self.FE.scipyint.RK45 = self._rk
        self.pot.deriv2Field2 = self._d2


def _cases(tier, r):
    """(kind, params, phase, TMinFrac, TMaxFrac, dTfac, paranoid) -- ranges chosen to stay inside, or to cross a spinodal"""
    out = []
    for kind, params in (("toy1", {}), ("toy1", dict(E=0.07, lam=0.12)), ("toy2c", {})):
        for phase in ("high", "low"):
            for rng_kind in ("inside", "cross"):
                for paranoid in ((True,) if tier == "quick" else (True, False)):
                    out.append((kind, params, phase, rng_kind, r.choice((0.5, 1.0, 2.0)), paranoid))
    # spectator field: the parameter set and step for which the re-minimisation rolls over the barrier just before the spinodal
    for dTfac in ((1.0,) if tier == "quick" else (0.5, 1.0, 2.0)):
        out.append(("toy2", dict(E=0.07, lam=0.12), "low", "cross", dTfac, True))
    # ... and a looser tracing tolerance (rTol = 1e-4), where that roll-over is frequent: 8th element of the case
    for kind, params, dTfac in ((("toy2", {}, 1.4), ("toy2", dict(D=0.15, E=0.08, lam=0.11), 1.0), ("toy1", {}, 1.4)) if tier == "quick" else
                                (("toy2", {}, 1.4), ("toy2", {}, 0.7), ("toy2", dict(D=0.15, E=0.08, lam=0.11), 1.0), ("toy2", dict(E=0.05, lam=0.09), 2.0),
                                 ("toy1", {}, 1.4), ("toy1", dict(E=0.07, lam=0.12), 2.0), ("toy1r", dict(theta=0.6), 1.4))):
        out.append((kind, params, "low", "cross", dTfac, True, 1e-4))
    # rotated field basis: non-diagonal Hessian at the traced minimum (the spinodal is where an EIGENVALUE vanishes)
    for theta in ((0.6,) if tier == "quick" else (0.6, math.pi / 4, 1.3)):
        for phase, rng_kind in (("low", "cross"), ("low", "inside"), ("high", "cross")):
            out.append(("toy1r", dict(theta=theta), phase, rng_kind, 1.0, True))
            if tier == "thorough":
                out.append(("toy1r", dict(theta=theta, m2=0.3), phase, rng_kind, 2.0, False))
    if tier == "thorough":
        out += [("toy1", dict(u=50.0), "low", "cross", 1.0, True), ("toy1", dict(u=0.02), "high", "inside", 1.0, True)]
    # small units (T ~ 1e-3 .. 1e-5) with a starting guess that is only approximately at the minimum (3 % off, as the documentation allows):
    # the starting point and every re-minimisation must still converge to the minimum (tolerances relative to the size of the potential)
    for u_, par_ in (((1e-3, True), (1e-3, False), (1e-5, True)) if tier == "quick" else ((1e-3, True), (1e-3, False), (1e-5, True), (1e-5, False), (1e-2, True), (40.0, True))):
        out.append(("toy1", dict(u=u_, guess_off=0.03), "low", "inside", 1.0, par_))
    if tier == "thorough":
        out.append(("toy2", dict(u=1e-4, guess_off=-0.04), "low", "inside", 1.0, True))
    # GeV-like numbers with the starting guess typed as INTEGERS (Fields([200]) instead of Fields([200.0])): an approximate guess like any other
    for par_ in ((True, False) if tier == "quick" else (True, False, True)):
        out.append(("toy1", dict(u=100.0, int_guess=True), "low", "inside", 1.0, par_))
    return out


def _setup(kind, params, phase, rng_kind):
    import models
    import WallGo
    from WallGo.freeEnergy import FreeEnergy
    from WallGo.fields import Fields
    params = dict(params)
    guess_off = params.pop("guess_off", 0.0)
    int_guess = params.pop("int_guess", False)
    if kind == "toy1":
        ref = models.toy1_class()(**params)
        Tc = ref.Tc()
        Tn = ref.T0 + 0.6 * (Tc - ref.T0)
        ref.configureDerivatives(WallGo.VeffDerivativeSettings(temperatureVariationScale=0.1 * ref.T0, fieldValueVariationScale=float(ref.phiBroken(Tn))))
        guess = Fields([0.0]) if phase == "high" else Fields([float(ref.phiBroken(Tn))])
        spin_lo, spin_hi = (ref.T0, None) if phase == "high" else (None, ref.T1())
        exact_field = (lambda T: np.array([0.0])) if phase == "high" else (lambda T: np.array([float(ref.phiBroken(T))]))
        exact_V = (lambda T: float(ref.VSym(T))) if phase == "high" else (lambda T: float(ref.VBroken(T)))
        model = ref
    elif kind == "toy2":
        # first-order field + SPECTATOR field (0 in both phases): leaving the branch changes ONE component only
        model = models.toy2_class()(**params)
        ref = models.toy1_class()(**{k: v for k, v in params.items() if k in ("D", "E", "lam", "T0", "a", "u")})
        Tc = ref.Tc()
        Tn = ref.T0 + 0.6 * (Tc - ref.T0)
        pb = float(ref.phiBroken(Tn))
        model.configureDerivatives(WallGo.VeffDerivativeSettings(temperatureVariationScale=0.1 * ref.T0, fieldValueVariationScale=[pb, pb]))
        guess = Fields([0.0, 0.0]) if phase == "high" else Fields([pb, 0.0])
        spin_lo, spin_hi = (ref.T0, None) if phase == "high" else (None, ref.T1())
        exact_field = (lambda T: np.array([0.0, 0.0])) if phase == "high" else (lambda T: np.array([float(ref.phiBroken(T)), 0.0]))
        exact_V = (lambda T: float(ref.VSym(T))) if phase == "high" else (lambda T: float(ref.VBroken(T)))
    elif kind == "toy1r":
        ref = models.toy1r_class()(**params)
        Tc = ref.Tc()
        Tn = ref.T0 + 0.6 * (Tc - ref.T0)
        pb = float(ref.phiBroken(Tn))
        ref.configureDerivatives(WallGo.VeffDerivativeSettings(temperatureVariationScale=0.1 * ref.T0, fieldValueVariationScale=[pb, pb]))
        guess = Fields([0.0, 0.0]) if phase == "high" else Fields(ref.brokenPoint(Tn).tolist())
        spin_lo, spin_hi = (ref.T0, None) if phase == "high" else (None, ref.T1())
        exact_field = (lambda T: np.array([0.0, 0.0])) if phase == "high" else (lambda T: ref.brokenPoint(T))
        exact_V = (lambda T: float(ref.VSym(T))) if phase == "high" else (lambda T: float(ref.VBroken(T)))
        model = ref
    else:
        model = models.toy2c_class()(**params)
        Tc = model.Tc()
        Tn = model.T0 + 0.6 * (Tc - model.T0)
        pb, sh = float(model.phiB(Tn)), float(model.sH(Tn))
        model.configureDerivatives(WallGo.VeffDerivativeSettings(temperatureVariationScale=0.1 * model.T0, fieldValueVariationScale=[pb, sh]))
        T1 = model.T0 * math.sqrt(8 * model.lam * model.D / (8 * model.lam * model.D - 9 * model.E ** 2))
        if phase == "high":
            guess = Fields([0.0, sh])
            # (0, s_h) is a minimum while 2D(T^2-T0^2) + kap s_h^2 > 0 and T < Ts
            f = lambda T: 2 * model.D * (T ** 2 - model.T0 ** 2) + model.kap * model.cs * (model.Ts ** 2 - T ** 2) / model.ls   # noqa: E731
            from scipy.optimize import brentq
            lo_sp = brentq(f, 0.3 * model.T0, Tn) if f(0.3 * model.T0) < 0 else None
            spin_lo, spin_hi = lo_sp, None          # at Ts the minimum merges continuously into (0,0) and goes on existing
            exact_field = lambda T: np.array([0.0, float(model.sH(T)) if T < model.Ts else 0.0])    # noqa: E731
            exact_V = lambda T: float(model.VHigh(T)) if T < model.Ts else float(-model.a * T ** 4)    # noqa: E731
        else:
            guess = Fields([pb, 0.0])
            spin_lo, spin_hi = None, T1
            exact_field = lambda T: np.array([float(model.phiB(T)), 0.0])   # noqa: E731
            exact_V = lambda T: float(model.VLow(T))   # noqa: E731
    if guess_off:
        guess = Fields((np.asarray(guess)[0] * (1.0 + guess_off)).tolist())
    if int_guess:
        guess = Fields([int(round(float(x_))) for x_ in np.asarray(guess)[0]])
    fe = FreeEnergy(model, Tn, guess)
    fe.disableAdaptiveInterpolation()
    if rng_kind == "inside":
        TMin = max(0.7 * Tn, (spin_lo or 0) * 1.03)
        TMax = min(1.08 * Tn, (spin_hi or 1e9) * 0.97)
    else:
        TMin = 0.5 * Tn if spin_lo is None else spin_lo * 0.9
        TMax = 1.5 * Tn if spin_hi is None else spin_hi * 1.1
    return model, fe, Tn, TMin, TMax, spin_lo, spin_hi, exact_field, exact_V


def corr(rep: C.Report, tier: str):
    r = C.rng("C11")
    lines, expect, infos = [], [], []
    for case in _cases(tier, r):
        kind, params, phase, rng_kind, dTfac, paranoid = case[:6]
        model, fe, Tn, TMin, TMax, spin_lo, spin_hi, exact_field, exact_V = _setup(kind, params, phase, rng_kind)
        rTol = case[6] if len(case) > 6 else 1e-6
        dT = dTfac * model.derivativeSettings.temperatureVariationScale * rTol ** 0.25
        with Logger(model) as log:
            try:
                fe.tracePhase(TMin, TMax, dT, rTol, spinodal=True, paranoid=paranoid)
                outcome = "ok"
            except RuntimeError:
                outcome = "error:RuntimeError"
            except AssertionError:
                outcome = "error:AssertionError"
        T0 = fe.startingTemperature
        recs = []
        for d in log.dirs[:2]:
            recs.append(" ".join(f"{fr(t)}:{1 if (e is not None and e > 0) else 0}:{1 if (ss < 1e-16 * T0) else 0}" for t, ss, e in d))
        while len(recs) < 2:
            recs.append("")
        lines.append(f"trace {fr(T0)} {fr(max(0.0, TMin))} {fr(TMax)} {fr(dT)} | {recs[0]} | {recs[1]}")
        if outcome == "ok":
            pts = ",".join(fr(t) for t in fe._interpolationPoints)
            exp = (f"ok table={pts} min={fr(Fraction(float(min(fe._interpolationPoints))) + 2 * Fraction(float(dT)))} "
                   f"minflag={int(bool(fe.minPossibleTemperature[1]))} "
                   f"max={fr(Fraction(float(max(fe._interpolationPoints))) - 2 * Fraction(float(dT)))} maxflag={int(bool(fe.maxPossibleTemperature[1]))}")
        else:
            exp = outcome
        expect.append(exp)
        info = {"model": kind, "params": params, "phase": phase, "range": rng_kind, "TMin": TMin, "TMax": TMax, "dT": dT, "paranoid": paranoid,
                "steps_up": len(log.dirs[0]) if log.dirs else 0, "steps_down": len(log.dirs[1]) if len(log.dirs) > 1 else 0,
                "outcome": outcome, "minPossible": list(fe.minPossibleTemperature), "maxPossible": list(fe.maxPossibleTemperature)}
        infos.append(info)
        info["rTol"] = rTol
        rep.case(key=(kind, str(sorted(params.items())), phase, rng_kind, dTfac, paranoid, rTol), sample=info if len(rep.samples) < 4 else None)
        rep.count(f"trace {phase} {rng_kind}")
        if outcome == "ok":
            _judge(rep, info, fe, Tn, TMin, TMax, dT, rTol, spin_lo, spin_hi, exact_field, exact_V, model)
    outs = C.lean_run("TracerQ", lines)
    bad = []
    for ln, ex, out, info in zip(lines, expect, outs, infos):
        if not _same(ex, out):
            bad.append({"case": info, "model": out[:300], "real": ex[:300]})
    rep.obligation("correspondence Model.Tracer.tracePhase = real FreeEnergy.tracePhase on logged step records (table, range, flags)",
                   "correspondence", not bad, f"{len(lines)} traces; {bad[:1]}")
    rep.extra["tracer_disagreements"] = bad[:2]
    # the coarse scan of findCriticalTemperature: the REAL method on stub phases (dyadic numbers, scripted sign pattern of F_low - F_high), the
    # bracket handed to the root finder against Model.Tracer.criticalBracket fed with the evaluations the real loop made
    from types import SimpleNamespace
    import WallGo.thermodynamics as TH
    from WallGo.exceptions import WallGoError
    lines, expect = [], []
    for _ in range(150 if tier == "quick" else 2000):
        dT_ = Fraction(r.choice((1, 2, 4)), 8)
        TMin_ = Fraction(r.randint(8, 40), 8)
        n_ = r.randint(1, 14)
        TMax_ = TMin_ + n_ * dT_ + r.choice((Fraction(0), dT_ / 2, dT_ / 4))
        style = r.choice(("one-crossing", "one-crossing", "two-crossings", "none", "zeros"))
        k1 = r.randint(0, n_)
        k2 = r.randint(0, n_)
        s0 = r.choice((1.0, -1.0))

        def dF(T, TMax_=TMax_, dT_=dT_, k1=k1, k2=k2, s0=s0, style=style):
            k = (Fraction(TMax_) - Fraction(T)) / dT_            # number of steps below TMax
            if style == "none":
                return s0
            if style == "zeros" and k == k1:
                return 0.0
            flips = (k > k1) + ((k > k2) if style == "two-crossings" else 0)
            return s0 * (-1.0) ** flips
        seen = []
        th = TH.Thermodynamics.__new__(TH.Thermodynamics)

        def mk(sign):
            def call(T):
                v = dF(T)
                seen.append((Fraction(float(T)), v))
                return SimpleNamespace(veffValue=np.array(v if sign > 0 else 0.0))
            ns = SimpleNamespace(hasInterpolation=lambda: True)
            return call, ns
        lowcall, _ = mk(1)

        class Stub:
            def __init__(self, f):
                self.f = f

            def hasInterpolation(self):
                return True

            def __call__(self, T):
                return self.f(T)
        th.freeEnergyLow = Stub(lowcall)
        th.freeEnergyHigh = Stub(lambda T: SimpleNamespace(veffValue=np.array(0.0)))
        th._getCoexistenceRange = lambda TMin_=TMin_, TMax_=TMax_: (float(TMin_), float(TMax_))
        got = {}
        saved = TH.scipy.optimize.root_scalar

        def root_scalar(f, bracket=None, **kw):
            got["bracket"] = (Fraction(float(bracket[0])), Fraction(float(bracket[1])))
            return SimpleNamespace(converged=True, root=0.5 * (bracket[0] + bracket[1]))
        TH.scipy.optimize.root_scalar = root_scalar
        try:
            TH.Thermodynamics.findCriticalTemperature(th, float(dT_), 1e-6)
            e = f"{fr(got['bracket'][0])} {fr(got['bracket'][1])}"
        except WallGoError:
            e = "none"
        except Exception as ex:  # noqa: BLE001
            e = f"raised {type(ex).__name__}"
        finally:
            TH.scipy.optimize.root_scalar = saved
        tab = {}
        for T, v in seen:
            tab.setdefault(T, int(np.sign(v)))
        lines.append(f"bracket {fr(TMin_)} {fr(TMax_)} {fr(dT_)} " + " ".join(f"{fr(T)}:{sg}" for T, sg in tab.items()))
        expect.append(e)
        rep.case(key=("Tc-bracket", style, e == "none"))
        rep.count(f"critical-temperature scan {style}")
    outs = C.lean_run("TracerQ", lines)
    bad = [{"real": e, "model": o_, "line": ln[:200]} for ln, e, o_ in zip(lines, expect, outs) if e != o_.strip()]
    rep.obligation("correspondence Model.Tracer.criticalBracket = real Thermodynamics.findCriticalTemperature coarse scan (bracket handed to the root finder)",
                   "correspondence", not bad and len(outs) == len(lines), f"{len(lines)} scans; {str(bad[:1])[:300]}")
    rep.extra["critical_bracket_disagreements"] = bad[:2]


def _same(a, b):
    if a == b:
        return True
    ta, tb = a.split(), b.split()
    if len(ta) != len(tb):
        return False
    for x, y in zip(ta, tb):
        if x == y:
            continue
        # min=/max= involve 2*dT added in float by the code and in Rat by the model: compare numerically
        if "=" in x and x.split("=")[0] == y.split("=")[0] and x.split("=")[0] in ("min", "max"):
            if abs(float(Fraction(x.split("=")[1])) - float(Fraction(y.split("=")[1]))) <= 1e-12 * (1 + abs(float(Fraction(x.split("=")[1])))):
                continue
        return False
    return True


def _judge(rep, info, fe, Tn, TMin, TMax, dT, rTol, spin_lo, spin_hi, exact_field, exact_V, model):
    """closed-form judgement of a traced phase"""
    Ts = np.asarray(fe._interpolationPoints)
    vals = np.asarray(fe._interpolationValues)
    # every tabulated point: vanishing gradient, positive-definite Hessian (closed forms), on the branch of the starting point
    lo_ok = spin_lo if spin_lo is not None else -math.inf
    hi_ok = spin_hi if spin_hi is not None else math.inf
    scale_f = np.max(np.abs(exact_field(Tn))) + 1e-3 * Tn
    gscale = float(np.max(np.abs(np.diag(model.hess(exact_field(Tn), Tn))))) * scale_f
    prev = None
    for T, row in zip(Ts, vals):
        if not (lo_ok * (1 - 1e-6) < T < hi_ok * (1 + 1e-6)):
            rep.violation("a tabulated point lies outside the temperature range where the phase exists (beyond a spinodal)",
                          dict(info, T=float(T), spinodals=[spin_lo, spin_hi]), finding_key="C11:beyond-spinodal")
            return
        x = row[:-1]
        g = model.grad(x, T)
        H = model.hess(x, T)
        mineig = float(np.min(np.linalg.eigvalsh(H)))
        if not np.max(np.abs(g)) <= 0.0001 * gscale or not mineig >= -1e-06 * gscale / scale_f:
            rep.violation("a tabulated point is not a local minimum of the potential (closed-form gradient/Hessian)",
                          dict(info, T=float(T), tabulated=x.tolist(), gradient=g.tolist(), min_hessian_eigenvalue=mineig), finding_key="C11:not-minimum")
            return
        ef = exact_field(T)
        if not np.all(np.isfinite(ef)):
            # T beyond the spinodal by less than the 1e-6 allowance admitted above (the tracer locates the spinodal to ~1e-7: the last few
            # tabulated points sit 2e-8 ... 2e-7 beyond it), where the closed form of the branch has no real value any more: the point has
            # passed the gradient/Hessian test; only its continuity with the previous point is left to judge
            rep.count("tabulated point within rounding of the spinodal (closed-form branch not real)")
            ef = x
        if not np.max(np.abs(x - ef)) <= 0.05 * scale_f or (prev is not None and (not np.max(np.abs(x - prev)) <= 0.2 * scale_f)):
            rep.violation("the tabulated minimum left the continuous branch of the starting point (minimiser hopping)",
                          dict(info, T=float(T), tabulated=x.tolist(), branch=ef.tolist()), finding_key="C11:branch")
            return
        prev = x
        ev = float(model.evaluate(__import__("WallGo").fields.Fields(x.tolist()), T)[0])
        if not abs(row[-1] - ev) <= 1e-10 * (abs(ev) + Tn ** 4):
            rep.violation("tabulated free energy is not the potential evaluated at the tabulated minimum", dict(info, T=float(T), tabulated=float(row[-1]), potential=ev),
                          finding_key="C11:value")
            return
    # flags and coverage
    req_lo, req_hi = max(TMin, 0.0), TMax
    crosses_lo = spin_lo is not None and req_lo < spin_lo
    crosses_hi = spin_hi is not None and req_hi > spin_hi
    for side, crosses, flag, end, req in (("lower", crosses_lo, fe.minPossibleTemperature[1], Ts.min(), req_lo),
                                           ("upper", crosses_hi, fe.maxPossibleTemperature[1], Ts.max(), req_hi)):
        if crosses and not flag:
            rep.violation(f"the phase disappears inside the requested range but the {side} end is not flagged",
                          dict(info, side=side, table_end=float(end), requested=req), finding_key=f"C11:flag-missing:{side}")
        if (not crosses) and flag:
            rep.violation(f"the {side} end is flagged as a genuine disappearance although the phase exists over the whole requested range",
                          dict(info, side=side, table_end=float(end), requested=req), finding_key=f"C11:flag-spurious:{side}")
        if not crosses and (not abs(end - req) <= 1e-09 * Tn):
            rep.violation(f"the table does not reach the requested {side} end although the phase exists there",
                          dict(info, side=side, table_end=float(end), requested=req), finding_key=f"C11:coverage:{side}")
    # interpolation accuracy inside the possible range
    a, b_ = fe.minPossibleTemperature[0], fe.maxPossibleTemperature[0]
    for T in np.linspace(a, b_, 25):
        v = fe(T)
        ev = exact_V(T)
        if not abs(float(v.veffValue) - ev) <= 50 * rTol * (abs(ev - exact_V(Tn)) + 0.001 * Tn ** 4):
            rep.violation("interpolated free energy differs from the exact minimum by more than the tracing tolerance",
                          dict(info, T=float(T), interpolated=float(v.veffValue), exact=ev, rTol=rTol), finding_key="C11:interp-accuracy")
            break
    # outside the possible range evaluation must raise
    from WallGo.exceptions import WallGoError
    for T in (a - 3 * dT, b_ + 3 * dT):
        try:
            fe(T)
            rep.violation("evaluating a traced phase outside its tabulated range does not raise", dict(info, T=float(T)), finding_key="C11:outside")
        except (WallGoError, ValueError):
            pass


def search(rep: C.Report, tier: str, broken):
    """critical temperature vs closed form, direction of the crossing."""
    import models
    for params in (({}, dict(E=0.07, lam=0.12)) if tier == "quick" else ({}, dict(E=0.07, lam=0.12), dict(u=30.0), dict(D=0.15, E=0.08, lam=0.11))):
        th, model, info = models.make_thermo("toy1", params, TnFrac=0.6, tminFrac=0.8, tmaxFrac=1.12)
        dT = info["dT"]
        try:
            Tc = th.findCriticalTemperature(dT=dT, rTol=1e-6)
        except Exception as ex:  # noqa: BLE001
            rep.count("findCriticalTemperature raised " + type(ex).__name__)
            continue
        rep.case(key=("Tc", str(sorted(params.items()))), sample={"params": params, "Tc": Tc, "exact": info["Tc"]})
        if not abs(Tc - info['Tc']) <= 1e-05 * info['Tc']:
            rep.violation("critical temperature is not where the free energies cross", {"params": params, "Tc": Tc, "exact": info["Tc"]},
                          finding_key="C11:Tc-value")
        below = Tc * (1 - 1e-3)
        if not float(th.freeEnergyLow(below).veffValue) < float(th.freeEnergyHigh(below).veffValue):
            rep.violation("low-temperature phase is not favoured just below the returned critical temperature",
                          {"params": params, "Tc": Tc}, finding_key=KEY_TC_DIR)
    # findCriticalTemperature tracing the phases ITSELF (untraced FreeEnergy objects), paranoid on and off, over a range that
    # extends past both spinodals: tables must stop at the spinodals (flagged), Tc must be the closed-form crossing
    import WallGo
    from WallGo.thermodynamics import Thermodynamics
    from WallGo.fields import Fields
    for params in ({}, dict(E=0.07, lam=0.12)):
        for paranoid in (True, False):
            ref = models.toy1_class()(**params)
            Tc0, T0_, T1_ = ref.Tc(), ref.T0, ref.T1()
            Tn = T0_ + 0.6 * (Tc0 - T0_)
            ref.configureDerivatives(WallGo.VeffDerivativeSettings(temperatureVariationScale=0.1 * T0_, fieldValueVariationScale=float(ref.phiBroken(Tn))))
            th = Thermodynamics(ref, Tn, Fields([float(ref.phiBroken(Tn))]), Fields([0.0]))
            lo, hi = 0.85 * T0_, 1.2 * T1_
            for fe in (th.freeEnergyHigh, th.freeEnergyLow):
                fe.minPossibleTemperature[0], fe.maxPossibleTemperature[0] = lo, hi
            dT = 0.1 * T0_ * 1e-6 ** 0.25
            info = {"model": "toy1", "params": params, "paranoid": paranoid, "requested_range": [lo, hi], "spinodals": [T0_, T1_],
                    "how": "Thermodynamics on UNTRACED FreeEnergy objects; findCriticalTemperature(dT, 1e-6, paranoid) traces them itself"}
            rep.case(key=("Tc-self-traced", str(sorted(params.items())), paranoid))
            rep.count("findCriticalTemperature self-traced")
            try:
                Tc = th.findCriticalTemperature(dT=dT, rTol=1e-6, paranoid=paranoid)
            except Exception as ex:  # noqa: BLE001
                rep.violation(f"findCriticalTemperature on untraced phases raised {type(ex).__name__}", dict(info, error=str(ex)[:200]),
                              finding_key="C11:Tc-self-traced-raises")
                continue
            lowT = np.asarray(th.freeEnergyLow._interpolationPoints)   # pylint: disable=protected-access
            highT = np.asarray(th.freeEnergyHigh._interpolationPoints)   # pylint: disable=protected-access
            info.update(Tc=Tc, exact=Tc0, low_table=[float(lowT.min()), float(lowT.max())], high_table=[float(highT.min()), float(highT.max())],
                        low_flags=[bool(th.freeEnergyLow.minPossibleTemperature[1]), bool(th.freeEnergyLow.maxPossibleTemperature[1])],
                        high_flags=[bool(th.freeEnergyHigh.minPossibleTemperature[1]), bool(th.freeEnergyHigh.maxPossibleTemperature[1])])
            if not lowT.max() <= T1_ * (1 + 1e-05) or not highT.min() >= T0_ * (1 - 1e-05):   # 10 rTol: the spinodal itself is only resolved to the tracing tolerance
                rep.violation("a phase traced by findCriticalTemperature is tabulated beyond its spinodal", info, finding_key="C11:beyond-spinodal")
            elif not (th.freeEnergyLow.maxPossibleTemperature[1] and th.freeEnergyHigh.minPossibleTemperature[1]):
                rep.violation("a phase disappears inside the range traced by findCriticalTemperature but the end is not flagged", info,
                              finding_key="C11:flag-missing:self-traced")
            if not abs(Tc - Tc0) <= 1e-05 * Tc0:
                rep.violation("critical temperature (phases traced by findCriticalTemperature itself) is not where the free energies cross",
                              info, finding_key="C11:Tc-value")
    # requested ranges whose ends lie on the lattice T0 + k*dT (round numbers, as users type them): the accumulated steps miss the end of the
    # range by a few ulp, and the integrator then adds a step of rounding size.  The interpolated free energy must still agree with the closed form inside the advertised range.
    from WallGo.freeEnergy import FreeEnergy
    ra = C.rng("C11aligned")
    for k in range(14 if tier == "quick" else 120):
        u = 10 ** ra.uniform(-5, 2)
        params = ra.choice(({}, dict(E=0.07, lam=0.12), dict(a=30.0)))
        ref = models.toy1_class()(u=u, **params)
        T0_, Tc0, T1_ = ref.T0, ref.Tc(), ref.T1()
        Tn = T0_ + 0.6 * (Tc0 - T0_)
        ref.configureDerivatives(WallGo.VeffDerivativeSettings(temperatureVariationScale=0.1 * T0_, fieldValueVariationScale=float(ref.phiBroken(Tn))))
        dT = ra.choice((0.0025, 0.003, 0.001, 0.004)) * T0_
        phase = ra.choice(("low", "high"))
        paranoid = ra.choice((True, False))
        nu_, nd_ = ra.randint(3, 14), ra.randint(3, 12)
        Tstart = T0_ * (ra.choice((1.0, 1.02, 1.05)) if phase == "low" else 1.2)
        TMin, TMax = Tstart - nd_ * dT, Tstart + nu_ * dT
        if phase == "low" and TMax > 0.97 * T1_:
            continue
        guess = Fields([float(ref.phiBroken(Tstart))]) if phase == "low" else Fields([0.0])
        exact = (lambda T, ref=ref: float(ref.VBroken(T))) if phase == "low" else (lambda T, ref=ref: float(ref.VSym(T)))
        fe = FreeEnergy(ref, Tstart, guess)
        fe.disableAdaptiveInterpolation()
        info = {"model": "toy1", "params": dict(params, u=u), "phase": phase, "paranoid": paranoid, "startingTemperature": Tstart, "TMin": TMin, "TMax": TMax,
                "dT": dT, "rTol": 1e-6, "how": "FreeEnergy(model, Tstart, exact minimum).tracePhase(Tstart - nd*dT, Tstart + nu*dT, dT, 1e-6, paranoid=...)"}
        rep.case(key=("aligned-range", k))
        rep.count("lattice-aligned ranges")
        try:
            fe.tracePhase(TMin, TMax, dT, 1e-6, spinodal=True, paranoid=paranoid)
        except Exception as ex:  # noqa: BLE001
            rep.count("aligned trace raised " + type(ex).__name__)
            continue
        pts = np.asarray(fe._interpolationPoints)   # pylint: disable=protected-access
        info["smallest_node_spacing_over_dT"] = float(np.diff(pts).min() / dT)
        a_, b_ = fe.minPossibleTemperature[0], fe.maxPossibleTemperature[0]
        worst = (0.0, 0.0, None)
        for T in np.linspace(a_, b_, 60):
            ev = exact(T)
            ed = (exact(T * (1 + 1e-6)) - exact(T * (1 - 1e-6))) / (2e-6 * T)
            e0 = abs(float(fe(T).veffValue) - ev) / abs(ev)
            e1 = abs(float(fe.derivative(T, order=1).veffValue) - ed) / abs(ed)
            if e0 > worst[0]:
                worst = (e0, e1, float(T))
        # judged on the VALUE only (the property's clause); the derivative error at that temperature is recorded for information
        if not worst[0] <= 3e-06:
            rep.violation("inside the advertised range the interpolated free energy differs from the potential at the exact minimum by more than the requested "
                          "tracing tolerance (rTol = 1e-6, relative)", dict(info, rel_error_F=worst[0], rel_error_dFdT_there=worst[1], at_T=worst[2],
                                                              advertised_range=[float(a_), float(b_)]), finding_key="C11:interp-accuracy-aligned")
    # the SAME FreeEnergy object traced a second time over the same requested range (e.g. with a smaller step after the "step size seems too
    # large" warning): the phase still disappears inside the requested range, so the end must still be flagged, the table must still stop there
    for phase in ("low", "high"):
        for paranoid in (True, False):
            model, fe, Tn, TMin, TMax, spin_lo, spin_hi, exact_field, exact_V = _setup("toy1", dict(E=0.07, lam=0.12), phase, "cross")
            dT = model.derivativeSettings.temperatureVariationScale * 1e-6 ** 0.25
            rep.case(key=("retrace", phase, paranoid))
            rep.count("re-traced FreeEnergy objects")
            try:
                fe.tracePhase(TMin, TMax, dT, 1e-6, spinodal=True, paranoid=paranoid)
                first = (list(fe.minPossibleTemperature), list(fe.maxPossibleTemperature))
                fe.tracePhase(TMin, TMax, 0.5 * dT, 1e-6, spinodal=True, paranoid=paranoid)
            except Exception as ex:  # noqa: BLE001
                rep.count("re-trace raised " + type(ex).__name__)
                continue
            Tst = np.asarray(fe._interpolationPoints)   # pylint: disable=protected-access
            info = {"model": "toy1", "params": dict(E=0.07, lam=0.12), "phase": phase, "paranoid": paranoid, "requested_range": [TMin, TMax],
                    "spinodals": [spin_lo, spin_hi], "after_first_trace": first,
                    "after_second_trace": [list(fe.minPossibleTemperature), list(fe.maxPossibleTemperature)], "table": [float(Tst.min()), float(Tst.max())]}
            if phase == "low" and not fe.maxPossibleTemperature[1]:
                rep.violation("after tracing the same object a second time over the same range the upper end is no longer flagged although the phase "
                              "disappears inside the requested range", info, finding_key="C11:flag-missing:retrace")
            if phase == "high" and not fe.minPossibleTemperature[1]:
                rep.violation("after tracing the same object a second time over the same range the lower end is no longer flagged although the phase "
                              "disappears inside the requested range", info, finding_key="C11:flag-missing:retrace")
            if spin_hi is not None and (not Tst.max() <= spin_hi * (1 + 1e-05)) or (spin_lo is not None and (not Tst.min() >= spin_lo * (1 - 1e-05))):
                rep.violation("after a second trace the table extends beyond a spinodal", info, finding_key="C11:beyond-spinodal")
    # two crossings inside the coexistence range (the low-T phase is favoured only between them; high-T favoured at the top of the range, so
    # the direction is the documented one): the critical temperature is the crossing BELOW which the low-T phase is favoured, i.e. the upper one
    from types import SimpleNamespace
    import WallGo.thermodynamics as TH

    class _Phase:
        def __init__(self, f):
            self.f = f

        def hasInterpolation(self):
            return True

        def __call__(self, T):
            return SimpleNamespace(veffValue=np.array(self.f(T)))
    for Tlo, Thi, rng_ in ((80.0, 110.0, (60.0, 130.0)), (0.81, 0.93, (0.7, 1.0))) if tier == "quick" else \
            ((80.0, 110.0, (60.0, 130.0)), (0.81, 0.93, (0.7, 1.0)), (95.0, 96.5, (90.0, 100.0)), (3e3, 4.4e3, (2e3, 5e3))):
        th = TH.Thermodynamics.__new__(TH.Thermodynamics)
        scale = Thi ** 2
        th.freeEnergyHigh = _Phase(lambda T: -3.0 * T ** 4)
        th.freeEnergyLow = _Phase(lambda T, Tlo=Tlo, Thi=Thi, scale=scale: -3.0 * T ** 4 + 0.01 * scale * (T - Tlo) * (T - Thi))
        th._getCoexistenceRange = lambda rng_=rng_: rng_
        dT_ = (rng_[1] - rng_[0]) / 57.3
        rep.case(key=("Tc-two-crossings", Tlo, Thi))
        rep.count("two crossings in the coexistence range")
        try:
            Tc = TH.Thermodynamics.findCriticalTemperature(th, dT_, 1e-8)
        except Exception as ex:  # noqa: BLE001
            rep.count("two-crossing findCriticalTemperature raised " + type(ex).__name__)
            continue
        dlt = 0.05 * (Thi - Tlo)
        below = float(th.freeEnergyLow(Tc - dlt).veffValue - th.freeEnergyHigh(Tc - dlt).veffValue)
        if not abs(Tc - Thi) <= 1e-06 * Thi or not below < 0:
            rep.violation("with two crossings in the coexistence range (high-T phase favoured at its top) the returned critical temperature is not the "
                          "crossing below which the low-temperature phase is favoured",
                          {"crossings": [Tlo, Thi], "coexistence_range": list(rng_), "dT": dT_, "Tc_returned": float(Tc),
                           "F_low_minus_F_high_just_below_Tc": below,
                           "how": "Thermodynamics.findCriticalTemperature on stub phases F_high = -3T^4, F_low = F_high + c (T-Tlo)(T-Thi)"},
                          finding_key="C11:Tc-two-crossings")
    # direction: swap the roles of the phases (the labelled low-T phase is favoured ABOVE the crossing)
    th, model, info = models.make_thermo("toy1", {}, TnFrac=0.6, tminFrac=0.8, tmaxFrac=1.12, key="swapped-for-C11")
    th.freeEnergyHigh, th.freeEnergyLow = th.freeEnergyLow, th.freeEnergyHigh
    try:
        Tc = th.findCriticalTemperature(dT=info["dT"], rTol=1e-6)
        below = Tc * (1 - 1e-3)
        rep.case(key=("Tc", "swapped"))
        if not float(th.freeEnergyLow(below).veffValue) < float(th.freeEnergyHigh(below).veffValue):
            rep.violation("findCriticalTemperature returns a crossing below which the labelled low-temperature phase is DISfavoured "
                          "(direction of the sign change is never checked)", {"setup": "toy1 with the two FreeEnergy objects swapped", "Tc": Tc},
                          finding_key=KEY_TC_DIR)
    except Exception as ex:  # noqa: BLE001
        rep.count("swapped findCriticalTemperature raised " + type(ex).__name__)
    finally:
        th.freeEnergyHigh, th.freeEnergyLow = th.freeEnergyLow, th.freeEnergyHigh
