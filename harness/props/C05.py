"""C05 -- LTE wall velocity conserves entropy flux across the wall."""
from __future__ import annotations

import math

import numpy as np

import common as C
import hydro_common as HC

LEAN_MODULES = ["WallGoVerif.Props.C05", "WallGoVerif.Props.C05L"]
LEMMA_MODULES = ["WallGoVerif.Lemmas.Hydro", "WallGoVerif.Lemmas.LTE", "WallGoVerif.Model.LTE"]
GEN_MODULES = ["Helpers", "Hydro"]
VALIDATION_POINTS = (100, 2000)
VALIDATE_ONLY = {"matchingLTE", "deflagPostLTE", "vpvmAndvpovm", "inverseMappingT", "mappingT", "gammaSq", "boostVelocity"}
RULE = ("obligations = Lean theorems of Props.C05 (deflagPostLTE returns T+^2 gamma+^2 = T-^2 gamma-^2; the 2x2 LTE residual has "
        "entropy conservation built in and its zero set = conservation laws; decision model of findvwLTE: interior result => final "
        "bracketed branch, sentinel 1 => one of three named conditions, sentinel 0 => mismatch negative at vMin) + translator "
        "validation + Props.C05L (executable Model.LTE of the same decision logic incl. shock(vw) = v+ vw - cs+^2(T+), window top, sentinels, final "
        "bracket; linked to the T05.2 model) with exact correspondence against the REAL findvwLTE on scripted physics and bisection stubs "
        "+ real findvwLTE runs judged on the real matching; distinct = (EOS, outcome class) or (scripted style, outcome)")
ASSUMPTIONS = ["'mismatch keeps one sign over the whole window' is sampled on a velocity grid (the code only tests the end point): partial",
               "parameter points closer than 2% in velocity to a solution-type threshold are excluded as the property's margin"]


def corr(rep: C.Report, tier: str):
    """Model.LTE.findvwLTE (Float) vs the REAL Hydrodynamics.findvwLTE with scripted physics (matchDeflagOrHyb, solveHydroShock, csqHighT linear
    in their arguments, a convergence flag that fails above a threshold velocity) and a 50-step bisection for both root_scalar calls (raising
    ValueError without a sign change): same sentinel or same final bracket and root, bit for bit."""
    r = C.rng("C05corr")
    lines, expect, kinds = [], [], []
    for _ in range(500 if tier == "quick" else 6000):
        kind, p = HC.lte_params(r)
        try:
            e, sq = HC.scripted_lte(*p)
        except Exception as ex:  # noqa: BLE001
            e, sq = f"raised {type(ex).__name__}: {str(ex)[:80]}", (p[11] + p[12] * p[0]) ** 0.5
        lines.append("lte " + " ".join(str(C.f2b(float(x))) for x in (p[0], p[1], p[2], sq) + tuple(p[3:13])))
        expect.append(e)
        kinds.append(kind)
    outs = C.lean_run("LTEF", lines)
    bad = []
    for ln, k, e, o_ in zip(lines, kinds, expect, outs):
        rep.case(key=("findvwLTE-logic", k, o_.split()[0]))
        rep.count(f"findvwLTE logic {k.split('/')[0]} {o_.split()[0]}")
        if e != o_:
            bad.append({"kind": k, "params(Tn,vMin,vJ,sqrtCs,p0,p1,t0,t1,fa,s0,s1,s2,q0,q1)": [C.b2f(int(t)) for t in ln.split()[1:]], "real": e, "model": o_})
    rep.obligation("correspondence Model.LTE.findvwLTE = real Hydrodynamics.findvwLTE on scripted physics/solver stubs (sentinels, window top, "
                   "final bracket, root)", "correspondence", not bad and len(outs) == len(lines), f"{len(lines)} cases; {str(bad[:1])[:400]}")
    rep.extra["lte_logic_disagreements"] = bad[:3]


def _manager_scan(rep: C.Report, tier: str):
    """WallGoManager.wallSpeedLTE() over a scan of nucleation temperatures on ONE manager: after every setup the value must be the LTE
    velocity of the CURRENT thermodynamics (entropy condition judged on the current matching)."""
    import manager_common as MC
    m = MC.new_manager(20, 1e-3)
    h0 = m.hydrodynamics
    for Tn in ((1.15, 1.12, 1.18) if tier == "quick" else (1.15, 1.12, 1.18, 1.15, 1.10, 1.2)):
        MC.setup(m, Tn)
        v = float(m.wallSpeedLTE())
        h = m.hydrodynamics
        want = float(h.findvwLTE())
        rep.case(key=("manager-LTE-scan", Tn))
        rep.count("manager LTE scan")
        info = {"model": "toy1 via WallGoManager, setupThermodynamicsHydrodynamics repeated on one manager", "Tn": Tn, "wallSpeedLTE": v,
                "findvwLTE_of_current_hydrodynamics": want}
        bad = abs(v - want) > 1e-9
        if 0 < v < 1:
            vp, vm, Tp, Tm = map(float, h.matchDeflagOrHyb(v))
            ent = Tp * math.sqrt(HC.gsq(vp)) / (Tm * math.sqrt(HC.gsq(vm))) - 1
            info["entropy_mismatch"] = ent
            bad = bad or abs(ent) > 1e-5
        if bad:
            rep.violation("WallGoManager.wallSpeedLTE() is not the LTE velocity of the current thermodynamics (entropy flux not conserved there)",
                          info, finding_key="C05:manager-scan")


def _independent_mismatch(th, h, grid):
    """Tn(shock) - Tn on the velocity grid from an independent solution of energy-, momentum- and entropy-flux conservation across the wall
    (unknowns T+, T-; v- = min(vw, cs-(T-)); v+ from T+ gamma+ = T- gamma-), each point started from the previous one.  None if any point fails."""
    from scipy.optimize import fsolve
    Tn = h.Tnucl
    out = []
    x = None
    for vw in grid:
        def res(y, vw=vw):
            Tp, Tm = abs(y[0]), abs(y[1])
            vm2 = min(vw * vw, float(th.csqLowT(Tm)))
            vp2 = 1.0 - Tp * Tp * (1.0 - vm2) / (Tm * Tm)
            if not 0 < vp2 < 1:
                return [1e3 * (1 + abs(vp2)), 1e3]
            vp, vm = math.sqrt(vp2), math.sqrt(vm2)
            f = HC.fluxes(th, vp, vm, Tp, Tm)
            return [(f[0] - f[1]) / abs(f[1]), (f[2] - f[3]) / abs(f[3])]
        if x is None:
            try:
                vp0, vm0, Tp0, Tm0 = map(float, h.matchDeflagOrHyb(float(vw)))
            except Exception:  # noqa: BLE001
                return None
            x = [Tp0, Tm0]
        sol, _, ier, _ = fsolve(res, x, full_output=True, xtol=1e-13)
        r_ = res(sol)
        if max(abs(r_[0]), abs(r_[1])) > 1e-9:
            return None
        x = [abs(sol[0]), abs(sol[1])]
        Tp, Tm = x
        vm2 = min(vw * vw, float(th.csqLowT(Tm)))
        vp = math.sqrt(1.0 - Tp * Tp * (1.0 - vm2) / (Tm * Tm))
        try:
            out.append(float(h.solveHydroShock(float(vw), vp, Tp)) - Tn)
        except Exception:  # noqa: BLE001
            return None
    return out


def _manager_strong(rep: C.Report, tier: str):
    """The LTE velocity as WallGoManager delivers it (its own Hydrodynamics object, built from ITS configuration) for strong transitions, where the
    plasma in front of the wall is heated by more than 20 %: it must be the LTE velocity of a Hydrodynamics object built with the configured
    hydrodynamics settings (which the main loop judges against the conservation laws)."""
    import logging
    import WallGo
    import models
    from WallGo.hydrodynamics import Hydrodynamics
    pts = [(0.5, 0.5), (0.7, 0.5), (0.4, 0.8), (0.5861152296785911, 0.5906026662043081)] + ([(0.3, 0.6), (0.6, 0.55), (0.8, 0.5), (0.9, 0.8)] if tier == "thorough" else [])
    for psi_, tf_ in pts:
        th = models.BagEOS(ap=3.0, am=3.0 * psi_, eps=1.0 - psi_, Tn=tf_)
        m = WallGo.WallGoManager()
        m.setVerbosity(logging.ERROR)
        cfg = m.config.configHydrodynamics
        try:
            ref = Hydrodynamics(th, cfg.tmax, cfg.tmin, cfg.relativeTol, cfg.absoluteTol)
            want = float(ref.findvwLTE())
        except Exception as ex:  # noqa: BLE001
            rep.count("manager-strong reference raised " + type(ex).__name__)
            continue
        rep.case(key=("manager-strong", psi_, tf_))
        rep.count("manager LTE, strong transitions")
        info = {"eos": f"bag psi={psi_}, Tn/Tc={tf_}, alpha_n={float(th.alpha(tf_)):.3f}", "configured(tmax,tmin,rtol,atol)": [cfg.tmax, cfg.tmin, cfg.relativeTol, cfg.absoluteTol],
                "LTE_velocity_with_configured_settings": want,
                "how": "m = WallGoManager(); m.thermodynamics = eos; m._initHydrodynamics(eos); m.wallSpeedLTE()"}
        try:
            m.thermodynamics = th
            m._initHydrodynamics(th)      # pylint: disable=protected-access
            got = float(m.wallSpeedLTE())
        except AttributeError:
            rep.count("manager-strong: private entry point not available")
            continue
        except Exception as ex:  # noqa: BLE001
            rep.violation("WallGoManager.wallSpeedLTE() raises for a strong transition for which the configured hydrodynamics settings give an LTE velocity",
                          dict(info, error=f"{type(ex).__name__}: {str(ex)[:200]}"), finding_key="C05:manager-strong")
            continue
        if not abs(got - want) <= 1e-06:
            hy = m.hydrodynamics
            rep.violation("WallGoManager.wallSpeedLTE() differs from the LTE velocity obtained with the configured hydrodynamics settings",
                          dict(info, wallSpeedLTE=got, window_used=[float(hy.TMinHydro / hy.Tnucl), float(hy.TMaxHydro / hy.Tnucl)]),
                          finding_key="C05:manager-strong")


def search(rep: C.Report, tier: str, broken):
    import models
    r = C.rng("C05")
    fams = HC.eos_families(tier, negative_eps=True)
    # add template points designed to hit the sentinels
    fams += [("template-weak:alpha small", models.BagEOS(ap=3.0, am=2.97, eps=0.002, Tn=1.0)),
             ("template-strong", models.BagEOS(ap=3.0, am=1.2, eps=0.8, Tn=1.0))]
    # strongly supercooled bag models (alpha_n ~ 0.6 .. 3, T+ up to ~2 Tn at the smallest velocity): the general solver's vMin and the template's
    # vMin are the same number computed by two root finders, so which initial guess the matching at vw = vMin gets must not depend on their rounding
    strong = [(0.5861152296785911, 0.5906026662043081), (0.4583785204632266, 0.626339560799656), (0.17044267256886714, 0.7751693635672426),
              (0.5, 0.5), (0.7, 0.5), (0.3, 0.6)]
    for _ in range(4 if tier == "quick" else 60):
        strong.append((r.uniform(0.15, 0.9), r.uniform(0.47, 0.85)))
    for psi_, Tn_ in strong:
        e_ = models.BagEOS(ap=3.0, am=3.0 * psi_, eps=1.0 - psi_, Tn=Tn_)
        if float(e_.alpha(Tn_)) > 0.45:
            fams.append((f"bag-strongly-supercooled:psi={psi_!r},Tn/Tc={Tn_!r},alpha={float(e_.alpha(Tn_)):.3f}", e_))
    # temperature-dependent sound speed in the HIGH-T phase, nucleation temperatures a few per cent on the non-runaway side of the runaway
    # threshold (Tn ~ 0.739 for these parameters): the LTE root is a hybrid 2-5 % below vJ, where cs+^2(T+) differs from cs+^2(Tn)
    for Tn_ in ((0.77, 0.78, 0.80) if tier == "quick" else (0.73, 0.745, 0.75, 0.76, 0.77, 0.78, 0.79, 0.80, 0.83, 0.86)):
        fams.append((f"soft-highT-sound-speed:c=0.7,Ts=0.8,amp=0.62,cb2=0.22,Tn/Tc={Tn_}", models.SoftEOS(Tn=Tn_)))
    # the same bag equations of state written in units where all temperatures are small (Tc = 0.01, 0.005: an MeV-scale transition in GeV):
    # energy densities are then ~1e-8 and below, and nothing may treat them as "close to" each other or to zero
    for psi_, tfrac_, Tc_ in (((0.9, 0.9, 0.01), (0.8, 0.7, 0.005)) if tier == "quick" else ((0.9, 0.9, 0.01), (0.8, 0.7, 0.005), (0.99, 0.99, 0.01), (0.9, 0.9, 1e-3))):
        fams.append((f"bag-small-units:psi={psi_},Tn/Tc={tfrac_},Tc={Tc_}",
                     models.BagEOS(ap=3.0, am=3.0 * psi_, eps=(1.0 - psi_) * Tc_ ** 4, Tn=tfrac_ * Tc_)))
    _manager_scan(rep, tier)
    _manager_strong(rep, tier)
    for name, th in fams:
        try:
            h = HC.make_hydro(th)
            vlte = float(h.findvwLTE())
        except Exception as ex:  # noqa: BLE001
            rep.count("findvwLTE raised " + type(ex).__name__)
            continue
        Tn = h.Tnucl
        cls = "interior" if 0 < vlte < 1 else ("runaway" if vlte == 1 else "static")
        rep.count(f"outcome {cls}")
        info = {"eos": name, "vwLTE": vlte, "vMin": h.vMin, "vJ": h.vJ, "Tn": Tn}
        rep.case(key=(name, cls), sample=info if len(rep.samples) < 4 else None)

        def diff(vw):
            vp, _, Tp, _ = h.matchDeflagOrHyb(vw)
            return h.solveHydroShock(vw, vp, Tp) - Tn
        if cls == "interior":
            vp, vm, Tp, Tm = map(float, h.matchDeflagOrHyb(vlte))
            ent = Tp * math.sqrt(HC.gsq(vp)) - Tm * math.sqrt(HC.gsq(vm))
            branch = HC.branch_of(h, vlte, vm, Tm)
            err, ok, res = HC.polish(th, branch, vlte, vp, vm, Tp, Tm)
            tn = h.solveHydroShock(vlte, vp, Tp)
            info.update(vp=vp, vm=vm, Tp=Tp, Tm=Tm, entropy_mismatch=ent, backward_error=err, shockTn=float(tn))
            if not abs(ent) <= 1e-08 * Tp:
                rep.violation("LTE matching does not satisfy T+ gamma+ = T- gamma-", info, finding_key="C05:entropy")
            if not ok or not err <= 5e-05:
                rep.violation("LTE matching does not conserve energy-momentum", info, finding_key="C05:conservation")
            if not abs(tn - Tn) <= 0.0001 * Tn:
                rep.violation("LTE matching does not reach the nucleation temperature ahead of the shock", info, finding_key="C05:Tn")
            if not (h.vMin * (1 - 1e-9) <= vlte <= h.vJ):
                rep.violation("LTE velocity outside the deflagration/hybrid window", info, finding_key="C05:window")
        else:
            vmax = h.vJ - 1e-6
            grid = [v for v in np.linspace(max(h.vMin, 0.02) * 1.02, vmax * 0.98, 6 if tier == "quick" else 25)]
            signs = []
            conv = True
            for v in grid:
                try:
                    signs.append(float(diff(float(v))))
                    conv = conv and bool(h.success)
                except Exception:  # noqa: BLE001
                    signs.append(math.nan)
            info["inner_solves_converged"] = conv
            if not conv:
                # the code's own 2x2 solve did not converge somewhere on the grid (its initial guess may be at fault): judge the sentinel with an
                # INDEPENDENT solution of the same three conservation laws, continued in vw from the slow end of the window
                indep = _independent_mismatch(th, h, grid)
                if indep is None:
                    rep.count("sentinel case skipped: neither the code's nor the independent 2x2 solve converged on the grid")
                    continue
                rep.count("sentinel judged with the independent LTE solve")
                signs = indep
                info["mismatch_from"] = "independent continuation solve (harness/props/C05._independent_mismatch)"
            info.update(grid=list(map(float, grid)), mismatch=signs)
            fin = [s for s in signs if math.isfinite(s)]
            if cls == "static" and fin and not fin[0] < 0:
                rep.violation("static sentinel returned but the mismatch at the smallest velocity does not have the stopping sign",
                              info, finding_key="C05:static")
            if cls == "runaway" and fin and any(s < -1e-6 * Tn for s in fin) and all(math.isfinite(s) for s in signs):
                # a sign change inside the window means a root exists: runaway sentinel is wrong (outside the margin)
                idx = [i for i, s in enumerate(signs) if s < 0]
                # the grid ends 2 % below the top of the window (the stated margin): a negative mismatch at ANY of its points, after positive ones,
                # means an LTE root exists at least that far inside the window
                if idx and (not 0 >= idx[0]):
                    rep.violation("runaway sentinel returned although the entropy mismatch changes sign inside the window",
                                  info, finding_key="C05:runaway")
