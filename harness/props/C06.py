"""C06 -- matching solutions physically admissible and correctly classified; Jouguet = Chapman-Jouguet point."""
from __future__ import annotations

import math

import numpy as np

import common as C
import hydro_common as HC

LEAN_MODULES = ["WallGoVerif.Props.C06", "WallGoVerif.Props.C06J", "WallGoVerif.Props.C06W"]
LEMMA_MODULES = ["WallGoVerif.Lemmas.Hydro", "WallGoVerif.Lemmas.Jouguet", "WallGoVerif.Model.Jouguet", "WallGoVerif.Lemmas.Window",
                 "WallGoVerif.Model.Window"]
GEN_MODULES = ["Helpers", "Hydro"]
VALIDATION_POINTS = (100, 2000)
RULE = ("obligations = Lean theorems of Props.C06 about regenerated Gen.R.Hydro (vm^2 = max(min(vw^2, cs-^2),0); deflagration vm=vw<=cs-, "
        "hybrid vm=cs-; detonation passes vp=vw,Tp=Tn through; vpDerivNum is the numerator of d(v+^2)/dT-; vpDerivNum=0 <=> cs-^2 = v-^2 "
        "(Chapman-Jouguet); orderings <=> EOS inequalities) + translator validation + admissibility/classification monitors on "
        "every real matching incl. artificially tight phase ranges; distinct = (EOS, branch, rounded vw) and (EOS, range cut)")
ASSUMPTIONS = ["truth of the EOS inequalities (v+<v- for deflagrations etc.) is physics of the sampled EOS, monitored not proved",
               "fastestDeflag/slowestDeton: monotonicity of T+-(vw) is sampled on a velocity grid"]


def corr(rep: C.Report, tier: str):
    """Model.Jouguet.search (Float) vs the REAL findJouguetVelocity bracket search: stub equation of state and a stub root_scalar that
    captures the residual function (installed from outside); same method (brentq/secant), same bracket, same number of widening steps."""
    r = C.rng("C06corr")
    lines, expect = [], []
    for _ in range(300 if tier == "quick" else 4000):
        ln, e = HC.scripted_jouguet(*HC.jouguet_params(r))
        lines.append(ln)
        expect.append(e)
    outs = C.lean_run("JouguetF", lines)
    bad = []
    for ln, e, o_ in zip(lines, expect, outs):
        rep.case(key=("jouguet-search", o_.split()[0], o_.split()[3] if len(o_.split()) > 3 else "?"))
        rep.count(f"jouguet search {o_.split()[0]}")
        if not o_.startswith(e + " "):
            bad.append({"real": e, "model": o_, "line": ln[:160]})
    rep.obligation("correspondence Model.Jouguet.search = real Hydrodynamics.findJouguetVelocity bracket search (method, bracket, steps)",
                   "correspondence", not bad and len(outs) == len(lines), f"{len(lines)} searches; {bad[:1]}")
    rep.extra["jouguet_disagreements"] = bad[:3]
    # fastestDeflag / slowestDeton: stub findMatching and root_scalar (raising ValueError like brentq when there is no sign change)
    lines, expect = [], []
    for _ in range(400 if tier == "quick" else 5000):
        k, p = HC.window_params(r)
        toks = [str(C.f2b(x)) for x in p]
        if k == "deflag":
            toks[-2:] = [str(p[-2]), str(p[-1])]
        lines.append(k + " " + " ".join(toks))
        try:
            expect.append(HC.scripted_window(k, p))
        except Exception as ex:  # noqa: BLE001
            expect.append(f"raised {type(ex).__name__}")
    outs = C.lean_run("WindowF", lines)
    bad = []
    for ln, e, o_ in zip(lines, expect, outs):
        rep.case(key=("window", ln.split()[0], " ".join(o_.split()[1:])))
        rep.count(f"window {ln.split()[0]}")
        if e != o_:
            bad.append({"real": e, "model": o_, "line": ln[:160]})
    rep.obligation("correspondence Model.Window.fastestDeflag/slowestDeton = real Hydrodynamics.fastestDeflag/slowestDeton on stub matchings "
                   "(velocity, flag updates)", "correspondence", not bad and len(outs) == len(lines), f"{len(lines)} cases; {bad[:1]}")
    rep.extra["window_disagreements"] = bad[:3]


def search(rep: C.Report, tier: str, broken):
    import models
    r = C.rng("C06")
    nv = 8 if tier == "quick" else 40
    for name, th in HC.eos_families("thorough" if broken else tier):
        try:
            h = HC.make_hydro(th)
        except Exception:  # noqa: BLE001
            continue
        Tn = h.Tnucl
        for vw in HC.velocities(h, r, nv):
            try:
                vp, vm, Tp, Tm = h.findMatching(vw)
            except Exception:  # noqa: BLE001
                rep.count("matching raised")
                continue
            if vp is None:
                continue
            vp, vm, Tp, Tm = map(float, (vp, vm, Tp, Tm))
            cs = math.sqrt(float(th.csqLowT(Tm)))
            branch = HC.branch_of(h, vw, vm, Tm)
            info = {"eos": name, "vw": vw, "vp": vp, "vm": vm, "Tp": Tp, "Tm": Tm, "Tn": Tn, "cs_minus": cs, "vJ": h.vJ, "branch": branch}
            rep.case(key=(name, branch, round(vw, 3)), sample=info if len(rep.samples) < 3 else None)
            rep.count(f"branch {branch}")
            bad = []
            if not (0 < vp < 1 and 0 < vm < 1):
                bad.append("speeds not strictly in (0,1)")
            if not (Tp > 0 and Tm > 0):
                bad.append("non-positive temperature")
            if branch == "deflagration":
                if vm != vw:
                    bad.append("deflagration: v- != vw")
                if vm > cs * (1 + 1e-9):
                    bad.append("deflagration: v- above sound speed")
                if not vp < vm:
                    bad.append("deflagration: v+ >= v-")
                if not Tp > Tn * (1 - 1e-9):
                    bad.append("deflagration: T+ <= Tn")
            elif branch == "hybrid":
                if abs(vm - cs) > 1e-9:
                    bad.append("hybrid: v- != cs-")
                if not vp < vm:
                    bad.append("hybrid: v+ >= v-")
            else:
                if vp != vw or Tp != Tn:
                    bad.append("detonation: v+ != vw or T+ != Tn")
                if not vm < vp:
                    bad.append("detonation: v- >= v+")
                if vm < cs * (1 - 1e-4):
                    bad.append("detonation: v- below sound speed (strong branch)")
            for b in bad:
                rep.violation(f"inadmissible/misclassified matching: {b}", info, finding_key=f"C06:{b.split(':')[0]}:{b}")
        # the deflagration/hybrid transition: locate vw* = cs-(T-(vw*)) by bisection on the real matching, scan around it
        def gap(v):
            m = h.findMatching(v)
            return None if m[0] is None else v - math.sqrt(float(th.csqLowT(float(m[3]))))
        try:
            cs0 = math.sqrt(float(th.csqLowT(Tn)))
            a, b_ = max(h.vMin * 1.05, 0.6 * cs0), min(1.15 * cs0, h.vJ - 1e-3)
            ga, gb = gap(a), gap(b_)
            if ga is not None and gb is not None and ga < 0 < gb:
                for _ in range(28):
                    mid = 0.5 * (a + b_)
                    gm = gap(mid)
                    if gm is None:
                        break
                    a, b_ = (mid, b_) if gm < 0 else (a, mid)
                vstar = 0.5 * (a + b_)
                nscan = 24 if tier == "quick" else 120
                for k in range(nscan):
                    vw = vstar + 3e-3 * (2 * (k + 0.5) / nscan - 1) * (1.0 if k % 3 else 0.1)
                    vp, vm, Tp, Tm = map(float, h.findMatching(vw))
                    cs = math.sqrt(float(th.csqLowT(Tm)))
                    rep.case(key=(name, "transition", k))
                    rep.count("transition scan points")
                    info = {"eos": name, "vw": vw, "vp": vp, "vm": vm, "Tp": Tp, "Tm": Tm, "cs_minus": cs, "transition_at": vstar}
                    if not vm <= vw * (1 + 1e-12) or not vm <= cs * (1 + 1e-09) or (not abs(vm - min(vw, cs)) <= 1e-09):
                        rep.violation("at the deflagration/hybrid transition the returned v- is not min(vw, cs-(T-))", info,
                                      finding_key="C06:transition")
        except Exception as ex:  # noqa: BLE001
            rep.count("transition scan raised " + type(ex).__name__)
        # Chapman-Jouguet: just above vJ a detonation has v- ~ cs-(T-)  (square-root approach)
        try:
            vpj, vmj, Tpj, Tmj = h.matchDeton(h.vJ * (1 + 1e-7) + 1e-9)
            csj = math.sqrt(float(th.csqLowT(Tmj)))
            rep.case(key=(name, "CJ"))
            if not abs(vmj - csj) <= 0.005:
                rep.violation("Jouguet velocity is not the Chapman-Jouguet point (v- != cs- just above vJ)",
                              {"eos": name, "vJ": h.vJ, "vm": float(vmj), "cs_minus": csj, "Tm": float(Tmj)}, finding_key="C06:CJ")
        except Exception as ex:  # noqa: BLE001
            rep.count("matchDeton at vJ raised " + type(ex).__name__)
    # strongly supercooled transitions: a Jouguet wall reheats the plasma to more than twice Tn, and the low-T range ends below that
    # temperature; the equation of state is analytic, so vJ (the Chapman-Jouguet point) must not depend on where the range ends
    from WallGo.hydrodynamics import Hydrodynamics as _H
    strong = [("twostep", 0.3), ("bag", 0.4)] + ([("twostep", 0.31), ("twostep", 0.33), ("bag", 0.45), ("bag", 0.5)] if tier == "thorough" or broken else [])
    for kind, Tn_ in strong:
        def mk(Tmax):
            if kind == "twostep":
                return models.twostep_eos(Tn=Tn_, Tmax=50.0 if Tmax is None else Tmax)
            return models.BagEOS(ap=3.0, am=2.4, eps=0.2, Tn=Tn_, TmaxP=Tmax)
        try:
            hw = _H(mk(None), 10.0, 0.01, 1e-6, 1e-10)
            _, _, _, TmJ = hw.matchDeton(hw.vJ * (1 + 1e-7) + 1e-9)
        except Exception as ex:  # noqa: BLE001
            rep.count("strongly supercooled reference raised " + type(ex).__name__)
            continue
        for f in (0.5, 0.97) if tier == "quick" and not broken else (0.2, 0.5, 0.8, 0.97, 1.2):
            cutT = Tn_ + f * (float(TmJ) - Tn_)
            e2 = mk(cutT)
            rep.case(key=("strong-supercooling", kind, Tn_, f))
            rep.count("strongly supercooled range cuts")
            info = {"eos": f"{kind}:Tn={Tn_}", "TMaxLowT": cutT, "Tminus_at_vJ": float(TmJ), "vJ_wide_range": hw.vJ}
            try:
                h2 = _H(e2, 10.0, 0.01, 1e-6, 1e-10)
                vpj, vmj, Tpj, Tmj = h2.matchDeton(h2.vJ * (1 + 1e-7) + 1e-9)
                csj = math.sqrt(float(e2.csqLowT(Tmj)))
            except Exception as ex:  # noqa: BLE001
                rep.violation("no detonation exists at the advertised Jouguet velocity of a strongly supercooled transition with a short "
                              "low-T range", dict(info, error=f"{type(ex).__name__}: {ex}"[:200]), finding_key="C06:CJ-strong")
                continue
            if not abs(h2.vJ - hw.vJ) <= 1e-06 or not abs(vmj - csj) <= 0.005:
                rep.violation("Jouguet velocity depends on where the tabulated low-T range ends (not the Chapman-Jouguet point)",
                              dict(info, vJ=h2.vJ, vm=float(vmj), cs_minus=csj), finding_key="C06:CJ-strong")
    # a scan over equations of state at ONE nucleation temperature on ONE velocity grid, a fresh Hydrodynamics object per EOS: every matching
    # must be classified and admissible for ITS equation of state, whatever was asked of other objects before
    scan = [("twostep", models.twostep_eos(Tn=0.9)), ("bag psi=0.9", models.BagEOS(ap=3.0, am=2.7, eps=0.1, Tn=0.9)),
            ("bag psi=0.6", models.BagEOS(ap=3.0, am=1.8, eps=0.4, Tn=0.9)), ("template", models.BagEOS(ap=3.0, am=2.2, eps=0.3, mu=4.2, nu=3.8, Tn=0.9))]
    for nm_, e_ in scan:
        try:
            h_ = _H(e_, 10.0, 0.01, 1e-6, 1e-10)
        except Exception:  # noqa: BLE001
            continue
        for vw in (0.3, 0.6, 0.7, 0.8, 0.95):
            if vw <= h_.vMin:
                continue
            try:
                vp, vm, Tp, Tm = map(float, h_.findMatching(vw))
            except Exception:  # noqa: BLE001
                continue
            cs = math.sqrt(float(e_.csqLowT(Tm)))
            rep.case(key=("eos-scan-same-Tn", nm_, vw))
            rep.count("EOS scan at one Tn and one velocity grid")
            bad = []
            if vw > h_.vJ:
                if vp != vw or Tp != h_.Tnucl or not vm < vp:
                    bad.append("above vJ the matching is not a detonation (v+ = vw, T+ = Tn, v- < v+)")
            else:
                if not vp < vm or not Tp > h_.Tnucl * (1 - 1e-9):
                    bad.append("below vJ the matching is not a deflagration/hybrid (v+ < v-, T+ > Tn)")
                if abs(vm - min(vw, cs)) > 1e-7:
                    bad.append("v- is not min(vw, cs-(T-))")
            # junction conditions judged by backward error (distance to an exact solution), not by the raw flux residual, which gamma^2 amplifies
            try:
                err_, ok_, _ = HC.polish(e_, HC.branch_of(h_, vw, vm, Tm), vw, vp, vm, Tp, Tm)
            except Exception:  # noqa: BLE001
                err_, ok_ = 0.0, True
            if not ok_ or err_ > 5e-5:
                bad.append("the matching does not satisfy the junction conditions of this equation of state")
            for b in bad:
                rep.violation(f"EOS scan at one nucleation temperature: {b}",
                              {"eos": nm_, "Tn": 0.9, "vw": vw, "vJ": h_.vJ, "vp": vp, "vm": vm, "Tp": Tp, "Tm": Tm, "cs_minus": cs,
                               "earlier_in_this_process": "the preceding equations of state of the scan, same velocities"},
                              finding_key="C06:eos-scan-history")
    # phase-temperature ranges that cut the window short (bag/template EOS with artificial upper ranges).
    # The cuts are derived from the real matching: T-(v1) and T+(v2) for chosen v1, v2, so that each phase alone, both with the
    # high-T phase reached first, and both with the LOW-T phase reached first all occur.
    e0 = models.BagEOS(ap=3.0, am=2.4, eps=0.2, mu=4.0, nu=4.0, Tn=1.0)
    from WallGo.hydrodynamics import Hydrodynamics
    h0 = Hydrodynamics(e0, 10.0, 0.01, 1e-6, 1e-10)
    va, vb = 0.3 * h0.vJ + 0.05, 0.75 * h0.vJ
    (_, _, TpA, TmA), (_, _, TpB, TmB) = h0.findMatching(va), h0.findMatching(vb)
    cuts = [(float(TpA), None), (None, float(TmA)), (float(TpA), float(TmB)), (float(TpB), float(TmA))]
    # the low-T range ends where only the detonations CLOSEST to the Jouguet velocity exceed it (T- falls with vw above vJ): the slowest admissible
    # detonation is then a few 1e-3 above vJ
    for dv_ in ((0.002, 0.03) if tier == "quick" else (0.0005, 0.002, 0.005, 0.03, 0.1)):
        cuts.append((None, float(h0.findMatching(h0.vJ + dv_)[3])))
    if tier == "thorough":
        for _ in range(6):
            v1, v2 = sorted((r.uniform(0.1, 0.95) * h0.vJ, r.uniform(0.1, 0.95) * h0.vJ))
            (_, _, Tp1, Tm1), (_, _, Tp2, Tm2) = h0.findMatching(v1), h0.findMatching(v2)
            cuts += [(float(Tp1), float(Tm2)), (float(Tp2), float(Tm1))]
    for hiH, hiL in cuts:
        e = models.BagEOS(ap=3.0, am=2.4, eps=0.2, mu=4.0, nu=4.0, Tn=1.0)
        e.freeEnergyHigh.maxPossibleTemperature = [hiH if hiH else np.inf, False]
        e.freeEnergyLow.maxPossibleTemperature = [hiL if hiL else np.inf, False]
        h = Hydrodynamics(e, 10.0, 0.01, 1e-6, 1e-10)
        vmax = h.fastestDeflag()
        rep.case(key=("cut", hiH, hiL))
        rep.count("range cuts")
        info = {"TMaxHighT": hiH, "TMaxLowT": hiL, "fastestDeflag": vmax, "vJ": h.vJ}
        for vw in np.linspace(h.vMin + 0.02, vmax - 1e-4, 7):
            _, _, Tp, Tm = h.findMatching(float(vw))
            if hiH and (not Tp <= hiH * (1 + 1e-06)) or (hiL and (not Tm <= hiL * (1 + 1e-06))):
                rep.violation("a wall slower than the advertised fastest deflagration has a temperature outside the tabulated range",
                              dict(info, vw=float(vw), Tp=float(Tp), Tm=float(Tm)), finding_key="C06:fastestDeflag")
        if vmax < h.vJ - 1e-6:
            _, _, Tp, Tm = h.findMatching(min(vmax + 5e-3, h.vJ - 1e-3))
            inside = (not hiH or Tp <= hiH) and (not hiL or Tm <= hiL)
            if inside:
                rep.violation("advertised fastest deflagration is not where the range is reached (faster walls still inside)",
                              dict(info, Tp=float(Tp), Tm=float(Tm)), finding_key="C06:fastestDeflag-notsharp")
        if hiL:
            vmin = h.slowestDeton()
            info2 = {"TMaxLowT": hiL, "slowestDeton": vmin, "vJ": h.vJ}
            rep.case(key=("cutdet", hiL))
            if vmin < 1:
                for vw in np.linspace(min(vmin, 0.999), 0.999, 5):
                    _, _, Tp, Tm = h.findMatching(float(vw))
                    if not Tm <= hiL * (1 + 1e-06):
                        rep.violation("a detonation faster than the advertised slowest one has T- outside the tabulated range",
                                      dict(info2, vw=float(vw), Tm=float(Tm)), finding_key="C06:slowestDeton")
