"""C12 -- the Boltzmann solution reflects the physics, not the discretisation choices."""
from __future__ import annotations

import itertools
import math

import numpy as np

import common as C
import boltz_common as B

LEAN_MODULE = "WallGoVerif.Props.C12"
LEMMA_MODULES = ["WallGoVerif.Lemmas.Boltz", "WallGoVerif.Model.Boltz"]
GEN_MODULES = ["Boltz"]
VALIDATE_ONLY = {"sourceTerm", "dfeq", "feq"}
VALIDATION_POINTS = (200, 4000)
RULE = ("obligations = Lean theorems of Props.C12 (homogeneous background => source = 0 => deviation = 0 under the solve contract; "
        "operator in basis B = cardinal operator composed with the collocation matrices => represented function and moments are "
        "basis independent; reshape order is a bijection) + translator validation of the pointwise source term + entry-wise "
        "correspondence of the operator/source data flow (Model.Boltz) with the real buildLinearEquations for all four basis pairs + "
        "residual / homogeneity / basis-independence / finite-difference-convergence monitors on the real solver; "
        "distinct = (M, N, particles, basis pair, derivative mode, background kind)")
ASSUMPTIONS = ["np.linalg.solve is an oracle (contract A x = s for nonsingular A; residual monitored)",
               "convergence RATE of finite differences is not proved: the monitor only requires the FD-spectral difference to decrease with M",
               "collision operators are harness-written (diagonal-dominated random tensors), not physical collision integrals"]
BASES = [("Cardinal", "Cardinal"), ("Cardinal", "Chebyshev"), ("Chebyshev", "Cardinal"), ("Chebyshev", "Chebyshev")]


def corr(rep: C.Report, tier: str):
    """entries of the real operator vs Model.Boltz.liouvilleEntry/collisionEntry fed with the real ingredients."""
    from WallGo.polynomial import Polynomial
    r = C.rng("C12corr")
    lines, expect = [], []
    for (bM, bN), npart in itertools.product(BASES, (1, 2)):
        M, N = 4, 3
        solver, grid, parts, clean = B.make_solver(M=M, N=N, basisM=bM, basisN=bN, nparticles=npart, stats=("Fermion", "Boson"), y2=(0.3, 0.7))
        try:
            solver.setBackground(B.background(grid, dv=0.05, dT=0.03, dphi=0.6, phi0=0.1))
            op, src, liou, coll = solver.buildLinearEquations()
            bg = solver.background
            tp = Polynomial(bg.temperatureProfile, grid, "Cardinal", "z", True)
            TChi, TRz, TRp = tp.matrix(bM, "z"), tp.matrix(bN, "pz"), tp.matrix(bN, "pp")
            DChi, DRz = tp.derivMatrix(bM, "z")[1:-1], tp.derivMatrix(bN, "pz")[1:-1]
            msqFull = np.array([p.msqVacuum(bg.fieldProfiles) for p in parts])
            dMsq = Polynomial(msqFull, grid, ("Array", "Cardinal"), ("Array", "z"), True).derivative(1).coefficients[:, 1:-1]
            xi, pz, pp = grid.getCoordinates()
            msq = msqFull[:, 1:-1]
            vW = bg.velocityWall
            gW = 1 / math.sqrt(1 - vW ** 2)
            dxidchi, dpzdrz, _ = grid.getCompactificationDerivatives()
            nM, nN = M - 1, N - 1
            total = npart * nM * nN * nN
            idx = [(a, i, j, k) for a in range(npart) for i in range(nM) for j in range(nN) for k in range(nN)]
            picks = [(r.choice(idx), r.choice(idx)) for _ in range(40 if tier == "quick" else 400)]
            for (a, i, j, k), (b_, l, m, n) in picks:
                E = math.sqrt(msq[a, i] + pz[j] ** 2 + pp[k] ** 2)
                pW = gW * (pz[j] - vW * E)
                row = ((a * nM + i) * nN + j) * nN + k
                col = ((b_ * nM + l) * nN + m) * nN + n
                vals = [1 / dxidchi[i], pW, 1 / dpzdrz[j], gW, dMsq[a, i], DChi[i, l], TRz[j, m], TRp[k, n], TChi[i, l], DRz[j, m]]
                lines.append(f"liou {1 if a == b_ else 0} " + " ".join(str(C.f2b(x)) for x in vals))
                expect.append(float(np.reshape(liou, (total, total), order="C")[row, col]))
                T_i = bg.temperatureProfile[1:-1][i]
                lines.append("coll " + " ".join(str(C.f2b(x)) for x in (solver.collisionMultiplier, T_i, TChi[i, l], solver.collisionArray[a, j, k, b_, m, n])))
                expect.append(float(np.reshape(coll, (total, total), order="C")[row, col]))
                lines.append(f"flat {nM} {nN} {a} {i} {j} {k}")
                expect.append(("int", row))
                rep.case(key=("entry", bM, bN, npart, a == b_))
        finally:
            clean()
    outs = C.lean_run("BoltzF", lines)
    bad = []
    for ln, e, o in zip(lines, expect, outs):
        if isinstance(e, tuple):
            if int(o) != e[1]:
                bad.append((ln[:30], o, e))
        else:
            g = C.b2f(int(o))
            if abs(g - e) > 1e-11 * (abs(e) + 1e-300) + 1e-300:
                bad.append((ln[:30], g, e))
    rep.obligation("correspondence Model.Boltz operator entries / flat index = real buildLinearEquations (4 basis pairs, 1-2 particles)",
                   "correspondence", not bad, f"{len(lines)} entries; {bad[:2]}")


def _to_cardinal(solver, grid, dF):
    from WallGo.polynomial import Polynomial
    p = Polynomial(dF.copy(), grid, ("Array", solver.basisM, solver.basisN, solver.basisN), ("Array", "z", "pz", "pp"), False)
    p.changeBasis(("Array", "Cardinal", "Cardinal", "Cardinal"))
    return p.coefficients


def search(rep: C.Report, tier: str, broken):
    r = C.rng("C12search")
    # "weak": a background that is almost, but not exactly, homogeneous (relative variations 1e-10): the source is tiny in absolute terms, the
    # deviation must still solve the linear system (and is NOT zero)
    kinds = {"T": dict(dT=0.04), "v": dict(dv=0.05), "field": dict(dphi=0.8, phi0=0.1), "all": dict(dT=0.03, dv=0.04, dphi=0.6, phi0=0.1),
             "weak": dict(dT=3e-11, dv=4e-11, dphi=6e-11, phi0=0.1)}
    sizes = [(6, 3), (8, 5)] if tier == "quick" else [(6, 3), (8, 5), (12, 5), (10, 7)]
    for (M, N), npart in itertools.product(sizes, (1, 2)):
        ref = {}
        shared_bg = None          # ONE background object handed to all four basis combinations (as a user comparing bases would)
        for bM, bN in BASES:
            solver, grid, parts, clean = B.make_solver(M=M, N=N, basisM=bM, basisN=bN, nparticles=npart, stats=("Fermion", "Boson"),
                                                       y2=(0.3, 0.7), seed=7)
            try:
                # homogeneous background => deviation vanishes identically
                solver.setBackground(B.background(grid))
                dF0 = solver.solveBoltzmannEquations()
                rep.case(key=("homog", M, N, npart, bM, bN))
                if not np.max(np.abs(dF0)) <= 1e-12:
                    rep.violation("homogeneous background gives a non-vanishing deviation",
                                  {"M": M, "N": N, "particles": npart, "basis": [bM, bN], "max_abs_deltaF": float(np.max(np.abs(dF0)))},
                                  finding_key="C12:homogeneous")
                for kind, kw in kinds.items():
                    solver.setBackground(B.background(grid, **kw))
                    op, src, _, _ = solver.buildLinearEquations()
                    dF = solver.solveBoltzmannEquations()
                    resid = np.max(np.abs(op @ dF.ravel() - src)) / (np.max(np.abs(src)) + 1e-300)
                    rep.case(key=("solve", M, N, npart, bM, bN, kind))
                    rep.count(f"solve {kind}")
                    if not resid <= 1e-09:
                        rep.violation("returned deviation does not satisfy the assembled linear system",
                                      {"M": M, "N": N, "basis": [bM, bN], "background": kind, "relative_residual": float(resid)},
                                      finding_key="C12:residual")
                    card = _to_cardinal(solver, grid, dF)
                    deltas = solver.getDeltas(dF).Deltas
                    cur = (card, np.array([deltas.Delta00.coefficients, deltas.Delta02.coefficients, deltas.Delta20.coefficients,
                                           deltas.Delta11.coefficients]))
                    if kind == "all":
                        # the same background OBJECT used again (by this solver, and by the solvers of the other bases before it): the result must
                        # be the one of a fresh background, and the caller's object must not have been modified
                        if shared_bg is None:
                            shared_bg = B.background(grid, **kw)
                            shared_before = (np.array(shared_bg.velocityProfile, copy=True), np.array(shared_bg.temperatureProfile, copy=True),
                                             np.array(shared_bg.fieldProfiles, copy=True), float(shared_bg.velocityWall), float(shared_bg.velocityMid))
                        for rep_ in (1, 2):
                            solver.setBackground(shared_bg)
                            dFs = solver.solveBoltzmannEquations()
                            rep.case(key=("shared-background", M, N, npart, bM, bN, rep_))
                            rep.count("shared background solves")
                            es = np.max(np.abs(dFs - dF)) / (np.max(np.abs(dF)) + 1e-300)
                            changed = max(float(np.max(np.abs(np.asarray(shared_bg.velocityProfile) - shared_before[0]))),
                                          float(np.max(np.abs(np.asarray(shared_bg.temperatureProfile) - shared_before[1]))),
                                          float(np.max(np.abs(np.asarray(shared_bg.fieldProfiles) - shared_before[2]))),
                                          abs(float(shared_bg.velocityWall) - shared_before[3]), abs(float(shared_bg.velocityMid) - shared_before[4]))
                            if not es <= 1e-10 or not changed <= 0:
                                rep.violation("solving with a background object that was used before (other basis / same solver) differs from solving with a "
                                              "fresh copy of it, or setBackground modified the caller's background",
                                              {"M": M, "N": N, "particles": npart, "basis": [bM, bN], "use_number_on_this_solver": rep_,
                                               "rel_diff_deltaF_vs_fresh_background": float(es), "max_change_of_callers_background": changed},
                                              finding_key="C12:background-reuse")
                                break
                    if kind not in ref:
                        ref[kind] = (cur, (bM, bN))
                    else:
                        (c0, d0), b0 = ref[kind]
                        e1 = np.max(np.abs(cur[0] - c0)) / (np.max(np.abs(c0)) + 1e-300)
                        e2 = np.max(np.abs(cur[1] - d0)) / (np.max(np.abs(d0)) + 1e-300)
                        if not e1 <= 1e-07 or not e2 <= 1e-07:
                            rep.violation("the deviation (as a function on phase space) or its moments depend on the polynomial basis",
                                          {"M": M, "N": N, "particles": npart, "basis": [bM, bN], "reference_basis": list(b0), "background": kind,
                                           "rel_diff_deltaF": float(e1), "rel_diff_moments": float(e2)}, finding_key="C12:basis-dependence")
            finally:
                clean()
    # finite differences -> spectral as the spatial grid is refined, each background ingredient separately
    Ms = (10, 20, 40) if tier == "quick" else (10, 20, 40, 80)
    for kind, kw in list(kinds.items()) + [("all, two species", kinds["all"]), ("field, three species", kinds["field"])]:
        nsp = 1 if "species" not in kind else (2 if "two" in kind else 3)
        errs = []
        for M in Ms:
            out = []
            for deriv in ("Spectral", "Finite Difference"):
                solver, grid, parts, clean = B.make_solver(M=M, N=5, basisM="Cardinal", basisN="Cardinal", derivatives=deriv, seed=3, nparticles=nsp,
                                                           stats=("Fermion", "Boson"), y2=(0.3, 1.1, 0.05), dofs=(12, 6, 2))
                try:
                    solver.setBackground(B.background(grid, **kw))
                    op, src, liou, _ = solver.buildLinearEquations()
                    out.append((src, liou))
                finally:
                    clean()
            es = np.max(np.abs(out[0][0] - out[1][0])) / np.max(np.abs(out[0][0]))
            el = np.max(np.abs(out[0][1] - out[1][1])) / np.max(np.abs(out[0][1]))
            errs.append((float(es), float(el)))
        rep.case(key=("fd", kind), sample={"background": kind, "M": list(Ms), "rel_diff_source_liouville": errs} if len(rep.samples) < 6 else None)
        rep.count("fd convergence series")
        if not (errs[-1][0] < 0.6 * errs[0][0] and errs[-1][0] < 0.2 and errs[-1][1] < errs[0][1]):
            rep.violation("finite-difference source/Liouville terms do not converge to the spectral ones as the grid is refined",
                          {"background": kind, "M": list(Ms), "rel_diff_source_liouville": errs}, finding_key=f"C12:fd-convergence:{kind}")
