"""C16 -- spectral polynomial calculus exact on the grid's polynomial space."""
from __future__ import annotations

import itertools
import math

import numpy as np

import common as C

LEAN_MODULES = ["WallGoVerif.Props.C16", "WallGoVerif.Props.C16Cheb"]
LEMMA_MODULES = ["WallGoVerif.Lemmas.PolyCardinal", "WallGoVerif.Lemmas.ChebyshevModel", "WallGoVerif.Lemmas.Lobatto",
                 "WallGoVerif.Model.Poly"]
GEN_MODULES = []
RULE = ("obligations = Lean theorems of Props.C16 (cardinal = Lagrange basis, exact evaluation, exact derivative at all nodes, "
        "linearity, axis commutation) and Props.C16Cheb (Chebyshev recurrences, restricted bases span/independent, derivative "
        "matrix, basis-change matrix nonsingular, Gauss-Chebyshev-Lobatto exactness, end weights immaterial) about Model.Poly + "
        "correspondence of Model.Poly (Float) with the real Polynomial class for every grid size/direction/endpoint flag + "
        "exactness search on the real class; distinct = (M, N, direction, endpoints, operation, degree)")
ASSUMPTIONS = ["Model.Poly is hand-written; tied to polynomial.py by entry-wise comparison of all matrices (rel 1e-12) on every run",
               "numpy.linalg.inv is an oracle (contract: inverse of a nonsingular matrix; nonsingularity proved in Lean)"]
DIRS = ("z", "pz", "pp")


def b(x):
    return str(C.f2b(x))


def _grid(M, N):
    from WallGo.grid import Grid
    return Grid(M, N, 1.0, 1.0)


def corr(rep: C.Report, tier: str):
    from WallGo.polynomial import Polynomial
    import warnings
    warnings.simplefilter("ignore")
    Ms = range(2, 15) if tier == "thorough" else (2, 3, 4, 7, 10, 14)
    Ns = range(3, 14, 2) if tier == "thorough" else (3, 5, 9, 13)
    r = C.rng("C16corr")
    lines, expect, tags = [], [], []
    for M, N in itertools.product(Ms, Ns):
        if tier == "quick" and (M * N) % 3 == 1:
            continue
        g = _grid(M, N)
        p0 = Polynomial(np.zeros(M - 1), g, "Cardinal", "z", False)
        for d, e in itertools.product(DIRS, (False, True)):
            xs = g.getCompactCoordinates(True, d)
            xsb = " ".join(b(x) for x in xs)
            for cmd, real in (("chebmat", lambda: p0.matrix("Chebyshev", d, e)),
                              ("cardderiv", lambda: p0.derivMatrix("Cardinal", d, e)),
                              ("chebderiv", lambda: p0.derivMatrix("Chebyshev", d, e))):
                lines.append(f"{cmd} {d} {int(e)} 0 {xsb}")
                expect.append(np.asarray(real(), dtype=float).ravel())
                tags.append((M, N, d, e, cmd))
            # evaluation of random coefficient vectors at random points, both bases
            kept = g.getCompactCoordinates(e, d)
            for basis, cmd in (("Cardinal", "evalcard"), ("Chebyshev", "evalcheb")):
                c = np.array([r.uniform(-1, 1) for _ in range(kept.size)])
                x = r.uniform(-1, 1)
                poly = Polynomial(c, g, basis, d, e)
                lines.append(f"{cmd} {d} {int(e)} {1 + c.size} {b(x)} " + " ".join(b(v) for v in c) + " " + xsb)
                expect.append(np.array([poly.evaluate(np.array([x]))]))
                tags.append((M, N, d, e, cmd))
    outs = C.lean_run("PolyF", lines)
    bad = []
    for ln, ex, out, tg in zip(lines, expect, outs, tags):
        got = np.array([C.b2f(int(t)) for t in out.split()]) if out.strip() not in ("bad-op", "") else np.array([])
        rep.case(key=tg, sample={"op": " ".join(ln.split()[:4]), "first_values_model": got[:3].tolist(),
                                 "first_values_real": ex[:3].tolist()} if len(rep.samples) < 3 else None)
        rep.count(f"corr {tg[4]}")
        scale = np.max(np.abs(ex)) + 1e-300
        if got.shape != ex.shape or np.max(np.abs(got - ex)) > 1e-11 * scale:
            bad.append((tg, float(np.max(np.abs(got - ex))) if got.shape == ex.shape else "shape"))
    rep.obligation("correspondence Model.Poly(Float) = Polynomial matrices/evaluation (all sizes, directions, endpoint flags)",
                   "correspondence", not bad, f"{len(lines)} objects compared; {bad[:3]}")
    # integration weights: real integrate == sum c_j sqrt(1-x_j^2) w(x_j) weight_j with the model's weights
    lines2, exp2, tg2 = [], [], []
    for M, N in itertools.product((2, 5, 8), (3, 7)):
        g = _grid(M, N)
        for d, e in itertools.product(DIRS, (False, True)):
            xs = g.getCompactCoordinates(True, d)
            kept = g.getCompactCoordinates(e, d)
            n = {"z": M, "pz": N, "pp": N - 1}[d]
            c = np.array([r.uniform(-1, 1) for _ in range(kept.size)])
            w = np.array([r.uniform(0.5, 1.5) for _ in range(kept.size)])
            real = Polynomial(c.copy(), g, "Cardinal", d, e).integrate(weight=w)
            lines2.append(f"weights {d} {int(e)} 1 {b(math.pi / n)} " + " ".join(b(x) for x in xs))
            exp2.append((float(real), c, w, kept))
            tg2.append((M, N, d, e))
    outs2 = C.lean_run("PolyF", lines2)
    bad2 = []
    for out, (real, c, w, kept), tg in zip(outs2, exp2, tg2):
        wt = np.array([C.b2f(int(t)) for t in out.split()])
        mine = float(np.sum(c * w * np.sqrt(1 - kept ** 2) * wt)) if wt.shape == c.shape else math.nan
        rep.case(key=("weights",) + tg)
        if not abs(mine - real) <= 1e-12 * (abs(real) + 1):
            bad2.append((tg, mine, real))
    rep.obligation("correspondence Model.Poly.gclWeights reproduces Polynomial.integrate", "correspondence", not bad2, str(bad2[:2]))


def _sqrtweight_moment(k):
    """int_{-1}^{1} x^k sqrt(1-x^2) dx"""
    if k % 2:
        return 0.0
    m = k // 2
    return math.pi * math.factorial(2 * m) / (2 ** (2 * m + 1) * math.factorial(m) * math.factorial(m + 1))


def search(rep: C.Report, tier: str, broken):
    from WallGo.polynomial import Polynomial
    import warnings
    warnings.simplefilter("ignore")
    r = C.rng("C16search")
    sizes = [(M, N) for M in (range(2, 15) if tier == "thorough" else (2, 3, 5, 8, 12)) for N in ((3, 5, 7, 9, 11, 13) if tier == "thorough" else (3, 7, 11))]
    reps = 2 if tier == "quick" else 6

    def viol(what, data, key):
        rep.violation(what, data, finding_key=key)

    for M, N in sizes:
        g = _grid(M, N)
        for d, e in itertools.product(DIRS, (False, True)):
            n = {"z": M, "pz": N, "pp": N - 1}[d]
            xs = g.getCompactCoordinates(True, d)
            kept = g.getCompactCoordinates(e, d)
            for _ in range(reps):
                deg = r.randint(0, n)
                q = np.polynomial.Polynomial([r.uniform(-1, 1) for _ in range(deg + 1)])
                if not e:
                    # representable functions vanish at the dropped end points
                    vanish = np.polynomial.Polynomial([1, 0, -1]) if d != "pp" else np.polynomial.Polynomial([1, -1])
                    if vanish.degree() > n:
                        continue
                    q = np.polynomial.Polynomial([r.uniform(-1, 1) for _ in range(max(n - vanish.degree(), 0) + 1)][: r.randint(1, max(n - vanish.degree(), 0) + 1)]) * vanish
                vals = q(kept)
                scale = np.max(np.abs(q(np.linspace(-1, 1, 50)))) + 1e-300
                info = {"M": M, "N": N, "direction": d, "endpoints": e, "poly_coeffs_low_to_high": q.coef.tolist()}
                rep.case(key=(M, N, d, e, q.degree()))
                rep.count(f"search {d} endpoints={e}")
                P = Polynomial(vals.copy(), g, "Cardinal", d, e)
                # evaluation anywhere, both representations
                x = np.array([r.uniform(-1, 1) for _ in range(5)])
                ev = np.array([P.evaluate(np.array([t])) for t in x])
                if np.max(np.abs(ev - q(x))) > 1e-9 * scale:
                    viol("cardinal evaluation is not the polynomial's value", dict(info, x=x.tolist(), got=ev.tolist(), want=q(x).tolist()), f"C16:evalcard:{d}:{e}")
                Pc = Polynomial(vals.copy(), g, "Cardinal", d, e)
                Pc.changeBasis("Chebyshev")
                evc = np.array([Pc.evaluate(np.array([t])) for t in x])
                if np.max(np.abs(evc - q(x))) > 1e-8 * scale * (1 + n) ** 2:
                    viol("Chebyshev evaluation after changeBasis is not the polynomial's value", dict(info, x=x.tolist(), got=evc.tolist(), want=q(x).tolist()), f"C16:evalcheb:{d}:{e}")
                Pc.changeBasis("Cardinal")
                if np.max(np.abs(Pc.coefficients - vals)) > 1e-8 * scale * (1 + n) ** 2:
                    viol("cardinal -> Chebyshev -> cardinal does not return the coefficients", dict(info, got=Pc.coefficients.tolist(), want=vals.tolist()), f"C16:roundtrip:{d}:{e}")
                # derivative at ALL nodes incl. boundaries, from either basis
                for basis in ("Cardinal", "Chebyshev"):
                    Pd = Polynomial(vals.copy(), g, "Cardinal", d, e)
                    Pd.changeBasis(basis)
                    D = Pd.derivative(0)
                    want = q.deriv()(xs)
                    if D.coefficients.shape != want.shape or np.max(np.abs(D.coefficients - want)) > 1e-7 * scale * (1 + n) ** 4:
                        viol(f"derivative ({basis} basis) is not the exact derivative at the grid points",
                             dict(info, basis=basis, got=D.coefficients.tolist(), want=want.tolist()), f"C16:deriv:{basis}:{d}:{e}")
                # integration: exact when integrand = s(x) sqrt(1-x^2) with deg s <= 2n-3 ; take s = q*u
                if 2 * n - 3 - q.degree() >= 0:
                    u = np.polynomial.Polynomial([r.uniform(-1, 1) for _ in range(r.randint(0, 2 * n - 3 - q.degree()) + 1)])
                    w = u(kept) * np.sqrt(1 - kept ** 2)
                    got = Polynomial(vals.copy(), g, "Cardinal", d, e).integrate(weight=w)
                    s = (q * u).coef
                    want = sum(ck * _sqrtweight_moment(k) for k, ck in enumerate(s))
                    sc = sum(abs(ck) * (_sqrtweight_moment(k) + 1e-3) for k, ck in enumerate(s)) + 1e-300
                    if abs(got - want) > 1e-9 * sc:
                        viol("integrate is not exact on the Gauss-Chebyshev-Lobatto exactness class",
                             dict(info, weight_poly=u.coef.tolist(), got=float(got), want=float(want)), f"C16:integrate:{d}:{e}")
    # integrate() must leave the object it was called on a valid representation of the same polynomial (it may change its basis, but then
    # label and numbers have to agree): evaluate / integrate again / convert afterwards and compare with a fresh object
    for M, N in ((4, 5), (7, 3)) if tier == "quick" else ((4, 5), (7, 3), (9, 7), (3, 9)):
        g = _grid(M, N)
        for d, e in (("z", False), ("z", True), ("pz", False), ("pp", True)):
            n = len(g.getCompactCoordinates(e, d))
            vals = np.array([r.uniform(-1, 1) for _ in range(n)])
            for basis in ("Cardinal", "Chebyshev"):
                def fresh():
                    q = Polynomial(vals.copy(), g, "Cardinal", d, e)
                    if basis == "Chebyshev":
                        q.changeBasis("Chebyshev")
                    return q
                used = fresh()
                used.integrate(weight=np.ones(n))
                rep.case(key=("reuse-after-integrate", M, N, d, e, basis))
                rep.count("reuse after integrate")
                x = np.array([r.uniform(-0.9, 0.9) for _ in range(4)])
                bad = []
                ev_u = np.array([used.evaluate(np.array([t_])) for t_ in x])
                ev_f = np.array([fresh().evaluate(np.array([t_])) for t_ in x])
                if not np.allclose(ev_u, ev_f, rtol=1e-9, atol=1e-9):
                    bad.append("evaluate")
                if abs(used.integrate(weight=np.ones(n)) - fresh().integrate(weight=np.ones(n))) > 1e-9:
                    bad.append("second integrate")
                u2, f2 = used, fresh()
                u2.changeBasis("Cardinal"), f2.changeBasis("Cardinal")
                if not np.allclose(np.asarray(u2.coefficients), np.asarray(f2.coefficients), rtol=1e-9, atol=1e-9):
                    bad.append("grid values after changeBasis('Cardinal')")
                if bad:
                    viol(f"after integrate() the same object no longer represents the same polynomial: {bad}",
                         {"M": M, "N": N, "direction": d, "endpoints": e, "basis": basis, "differing": bad}, f"C16:reuse-after-integrate:{basis}")
    # mixed-direction basis change in ONE call (some axes Cardinal -> Chebyshev while others go Chebyshev -> Cardinal): every axis must be converted
    # in its own direction.  Oracle: grid values of an explicit tensor polynomial, Chebyshev coefficients by solving T c = values with the T_n(x_i)
    # matrices built here; integrate(axis=k) with the other axes left in the Chebyshev basis against the closed-form sqrt(1-x^2) moments
    def cheb_T(g, d, e):
        x = g.getCompactCoordinates(e, d)
        nmax = {"z": g.M, "pz": g.N, "pp": g.N - 1}[d]
        V = np.cos(np.arange(nmax + 1)[None, :] * np.arccos(x)[:, None])  # T_n(x_i), n = 0..nmax
        if e:
            return V
        if d == "pp":
            return V[:, 1:] - 1.0  # restricted to vanish at x = +1
        return V[:, 2:] - np.where(np.arange(2, nmax + 1) % 2 == 0, 1.0, x[:, None])  # restricted to vanish at x = +-1

    def to_basis(vals, Ts, basis):
        out = vals
        for ax, bs in enumerate(basis):
            if bs == "Chebyshev":
                out = np.moveaxis(np.linalg.solve(Ts[ax], np.moveaxis(out, ax, 0).reshape(Ts[ax].shape[0], -1)).reshape(np.moveaxis(out, ax, 0).shape), 0, ax)
        return out

    def outer(vs):
        out = vs[0]
        for v in vs[1:]:
            out = out[..., None] * v
        return out

    for (M, N), dirs, e in itertools.product(((3, 5), (6, 7)) if tier == "quick" else ((3, 5), (6, 7), (4, 9), (9, 5), (12, 11)), (("z", "pz"), ("z", "pz", "pp")), (False, True)):
        g = _grid(M, N)
        rank = len(dirs)
        Ts = [cheb_T(g, d, e) for d in dirs]
        xsk = [g.getCompactCoordinates(e, d) for d in dirs]
        # sum of two products of 1-D polynomials of admissible degree (all sizes here have n >= 3, so degree <= n is also inside the quadrature's class)
        terms = []
        for _ in range(2):
            fac = []
            for d in dirs:
                n = {"z": M, "pz": N, "pp": N - 1}[d]
                vanish = np.polynomial.Polynomial([1]) if e else (np.polynomial.Polynomial([1, 0, -1]) if d != "pp" else np.polynomial.Polynomial([1, -1]))
                fac.append(np.polynomial.Polynomial([r.uniform(-1, 1) for _ in range(r.randint(0, n - vanish.degree()) + 1)]) * vanish)
            terms.append(fac)
        vals = sum(outer([q(x) for q, x in zip(fac, xsk)]) for fac in terms)
        info = {"M": M, "N": N, "directions": dirs, "endpoints": e, "polynomial": "sum over terms of the product over axes of the 1-D polynomials below",
                "terms_coeffs_low_to_high": [[q.coef.tolist() for q in fac] for fac in terms]}
        allb = list(itertools.product(("Cardinal", "Chebyshev"), repeat=rank))
        for F, G in itertools.product(allb, allb):
            if F == G:
                continue
            rep.case(key=("mixed-changebasis", M, N, rank, e, F, G))
            rep.count("mixed-direction changeBasis")
            P = Polynomial(to_basis(vals, Ts, F).copy(), g, F, dirs, e)
            P.changeBasis(G)
            want = to_basis(vals, Ts, G)
            got = np.asarray(P.coefficients)
            err = float(np.max(np.abs(got - want))) if got.shape == want.shape else math.inf
            if not err <= 1e-9 * (np.max(np.abs(want)) + 1):
                where = [i for i, t in enumerate(G) if t == "Cardinal" and F[i] == "Chebyshev"]
                viol("one changeBasis call with mixed directions is not the axis-by-axis conversion (axes that became Cardinal do not hold the grid values)",
                     dict(info, from_basis=F, to_basis=G, axes_chebyshev_to_cardinal=where, max_abs_error=err, largest_expected=float(np.max(np.abs(want))),
                          how="Polynomial(coeffs in from_basis, grid, from_basis, directions, endpoints).changeBasis(to_basis)"), "C16:mixed-changebasis")
        for F, k in itertools.product(allb, range(rank)):
            if "Chebyshev" not in F:
                continue
            rep.case(key=("mixed-integrate", M, N, rank, e, F, k))
            rep.count("integrate with other axes Chebyshev")
            w = np.sqrt(1 - xsk[k] ** 2).reshape([-1 if i == k else 1 for i in range(rank)])
            res = Polynomial(to_basis(vals, Ts, F).copy(), g, F, dirs, e).integrate(axis=k, weight=w)
            rest = [i for i in range(rank) if i != k]
            card = sum(sum(ck * _sqrtweight_moment(j) for j, ck in enumerate(fac[k].coef)) * outer([fac[i](xsk[i]) for i in rest]) for fac in terms)
            want = to_basis(card, [Ts[i] for i in rest], [F[i] for i in rest])
            got = np.asarray(res.coefficients)
            err = float(np.max(np.abs(got - want))) if got.shape == want.shape else math.inf
            if tuple(res.basis) != tuple(F[i] for i in rest) or not err <= 1e-9 * (np.max(np.abs(want)) + 1):
                viol("integrate(axis=k) of a polynomial whose other axes are in the Chebyshev basis is not the exact integral in that basis",
                     dict(info, basis=F, axis=k, weight="sqrt(1-x_k^2)", result_basis=list(res.basis), max_abs_error=err, largest_expected=float(np.max(np.abs(want)))),
                     "C16:mixed-integrate")
    # multi-axis: operations along different axes act independently, commute and are linear
    for M, N in ((4, 5), (6, 3)) if tier == "quick" else ((4, 5), (6, 3), (9, 7), (3, 9)):
        g = _grid(M, N)
        shape = (2, M - 1, N - 1, N - 1)
        A = np.array([r.uniform(-1, 1) for _ in range(int(np.prod(shape)))]).reshape(shape)
        B = np.array([r.uniform(-1, 1) for _ in range(int(np.prod(shape)))]).reshape(shape)
        mk = lambda arr: Polynomial(arr.copy(), g, ("Array", "Cardinal", "Cardinal", "Cardinal"), ("Array", "z", "pz", "pp"), False)  # noqa: E731
        rep.case(key=("rank4", M, N))
        # axis-wise application: the derivative along axis k of a rank-4 array is the 1-D derivative of every fibre along k
        dirs = ("Array", "z", "pz", "pp")
        for ax in (1, 2, 3):
            try:
                full = np.asarray(mk(A).derivative(ax).coefficients)
            except Exception as ex:  # noqa: BLE001
                viol(f"derivative along axis {ax} of a rank-4 polynomial raises {type(ex).__name__}",
                     {"M": M, "N": N, "shape": shape, "axis": ax, "error": str(ex)[:200],
                      "how": "Polynomial(A, grid, (Array,Cardinal,Cardinal,Cardinal), (Array,z,pz,pp), False).derivative(axis)"}, f"C16:rank4-derivative-raises:{ax}")
                continue
            fib = lambda v, d=dirs[ax]: np.asarray(Polynomial(np.array(v), g, "Cardinal", d, False).derivative(0).coefficients)  # noqa: E731
            ref = np.apply_along_axis(fib, ax, A)
            rep.count("rank-4 axis-wise derivative checks")
            if full.shape != ref.shape or np.max(np.abs(full - ref)) > 1e-9 * (np.max(np.abs(ref)) + 1):
                viol(f"derivative along axis {ax} of a rank-4 polynomial is not the 1-D derivative of each fibre (other axes disturbed)",
                     {"M": M, "N": N, "shape": shape, "axis": ax, "got_shape": list(full.shape), "want_shape": list(ref.shape)}, f"C16:rank4-derivative:{ax}")
        try:
            mk(A).derivative(1).derivative(2), mk(A).derivative((1, 2))
        except Exception as ex:  # noqa: BLE001
            viol(f"multi-axis derivative raises {type(ex).__name__}", {"M": M, "N": N, "shape": shape, "error": str(ex)[:200]}, "C16:rank4-derivative-raises:multi")
            continue
        d01 = mk(A).derivative(1).derivative(2).coefficients
        d10 = mk(A).derivative(2).derivative(1).coefficients
        d_both = mk(A).derivative((1, 2)).coefficients
        if np.max(np.abs(d01 - d10)) > 1e-9 * np.max(np.abs(d01)) or np.max(np.abs(d01 - d_both)) > 1e-9 * np.max(np.abs(d01)):
            viol("derivatives along different axes do not commute", {"M": M, "N": N, "shape": shape}, "C16:axes-commute")
        lin = mk(A + 2.5 * B).derivative(1).coefficients - (mk(A).derivative(1).coefficients + 2.5 * mk(B).derivative(1).coefficients)
        if np.max(np.abs(lin)) > 1e-9 * (np.max(np.abs(A)) + 1) * M ** 2:
            viol("derivative is not linear", {"M": M, "N": N}, "C16:linear")
        pa = mk(A)
        pa.changeBasis(("Array", "Chebyshev", "Cardinal", "Chebyshev"))
        pa.changeBasis(("Array", "Cardinal", "Cardinal", "Cardinal"))
        if np.max(np.abs(pa.coefficients - A)) > 1e-8:
            viol("mixed-axis basis change round trip is not the identity", {"M": M, "N": N}, "C16:roundtrip-rank4")
        i1 = mk(A).integrate(axis=(2, 3), weight=np.ones(shape)).coefficients
        i2 = mk(A).integrate(axis=3, weight=np.ones(shape)).integrate(axis=2, weight=np.ones(shape[:3])).coefficients
        if np.max(np.abs(i1 - i2)) > 1e-10 * (np.max(np.abs(i1)) + 1):
            viol("integration over two axes differs from iterated integration", {"M": M, "N": N}, "C16:integrate-axes")
