"""C04 -- plasma profile inside the wall conserves energy-momentum pointwise."""
from __future__ import annotations

import math

import numpy as np

import common as C
import eom_common as EC

LEAN_MODULES = ["WallGoVerif.Props.C04", "WallGoVerif.Props.C04P", "WallGoVerif.Props.C04L"]
LEMMA_MODULES = ["WallGoVerif.Lemmas.EOM", "WallGoVerif.Model.EOM", "WallGoVerif.Lemmas.ProfilePoint", "WallGoVerif.Model.ProfilePoint", "WallGoVerif.Model.ProfileLoop"]
GEN_MODULES = ["Helpers", "Hydro"]
VALIDATE_ONLY = {"hydroBoundaries", "gammaSq"}
VALIDATION_POINTS = (100, 1000)
RULE = ("obligations = Lean theorems of Props.C04 about Model.EOM (plasmaVelocity is the unique subluminal root of T30 = s1; "
        "temperatureProfileEqLHS = T33 - s2; a returned point reproduces both conserved components incl. the out-of-equilibrium part; "
        "(T+,-v+) and (T-,-v-) solve the equations with the hydrodynamic boundary constants; deltaToTmunu = boosted plasma-frame tensor; "
        "bracket direction and success flag logic) + Float correspondence of Model.EOM with the real EOM methods + recomputation of "
        "T30/T33 from every returned profile point on real runs + Props.C04P (Model.ProfilePoint: which root findPlasmaProfilePoint brackets -- "
        "detonation below, deflagration/hybrid above the minimum of the left-hand side, always with a sign change) with exact correspondence "
        "of that model against the REAL findPlasmaProfilePoint on scripted left-hand sides and solver stubs + Props.C04L (loop and success flag of "
        "findPlasmaProfile, Model.ProfileLoop, same kind of correspondence); "
        "distinct = (model, vw branch, wall shape, grid point class) or (branch, shape of the scripted left-hand side, outcome)")
ASSUMPTIONS = ["minimize_scalar(Bounded)/brentq are oracles; which root the heuristic bracket reaches is potential dependent (monitored)",
               "out-of-equilibrium moments are exercised through the model/correspondence (harness-chosen Deltas), real runs are LTE"]
KEY_NOROOT = "C04:success-flag-no-root-branch"


def _b(x):
    return str(C.f2b(float(x)))


def corr(rep: C.Report, tier: str):
    from WallGo.containers import WallParams, BoltzmannDeltas
    from WallGo.polynomial import Polynomial
    from WallGo.fields import Fields, FieldPoint
    import WallGo.equationOfMotion as EM
    r = C.rng("C04corr")
    lines, expect = [], []
    for kind in ("toy1", "toy2"):
        o = EC.make_eom(kind, M=20)
        eom, th, grid = o["eom"], o["thermo"], o["grid"]
        nf = eom.nbrFields
        Tn = th.Tnucl
        for _ in range(6 if tier == "quick" else 60):
            lo = [r.uniform(0.5, 3) for _ in range(nf)]
            hi = [r.uniform(-0.5, 0.5) for _ in range(nf)]
            W = [r.uniform(2, 12) / Tn for _ in range(nf)]
            off = [0.0] + [r.uniform(-2, 2) for _ in range(nf - 1)]
            wp = WallParams(widths=np.array(W), offsets=np.array(off))
            z = r.uniform(-20, 20) / Tn
            f, g = eom.wallProfile(np.array([z]), Fields(lo), Fields(hi), wp)
            lines.append(f"profile {_b(z)} {nf} " + " ".join(_b(x) for x in lo + hi + W + off))
            expect.append(list(np.asarray(f).ravel()) + list(np.asarray(g).ravel()))
            # plasmaVelocity / LHS: enthalpy and veff taken from the real potential, formula from the model
            T = r.uniform(0.8, 1.3) * Tn
            fp = FieldPoint(np.asarray(f)[0])
            s1, s2 = r.uniform(-3, -0.05) * Tn ** 4, r.uniform(0.1, 3) * Tn ** 4
            ent = float(-T * th.effectivePotential.derivT(fp, T))
            veff = float(th.effectivePotential.evaluate(fp, T))
            lines.append(f"vplasma {_b(ent)} {_b(s1)}")
            expect.append([eom.plasmaVelocity(fp, T, s1)])
            dp = FieldPoint(np.asarray(g)[0])
            lines.append(f"lhs {nf} " + " ".join(_b(x) for x in list(np.asarray(g)[0]) + [veff, ent, s1, s2]))
            expect.append([eom.temperatureProfileEqLHS(fp, dp, T, s1, s2)])
            # _updateGrid: capture what is handed to the grid
            seen = {}
            orig = grid.changePositionFalloffScale
            grid.changePositionFalloffScale = lambda a, b_, c, d: seen.update(v=(a, b_, c, d))
            vmid = -r.uniform(0.1, 0.7)
            try:
                eom._updateGrid(wp, vmid)
            finally:
                grid.changePositionFalloffScale = orig
            lines.append(f"updategrid {nf} " + " ".join(_b(x) for x in W + off + [vmid, eom.meanFreePathScale, 1.0 if eom.includeOffEq else 0.0,
                                                                                  grid.smoothing, grid.ratioPointsWall]))
            expect.append(list(seen["v"]))
            # kinetic term: action with the potential part switched off from outside
            origI = Polynomial.integrate
            Polynomial.integrate = lambda self, *a, **k: 0.0
            try:
                zero = Polynomial(np.zeros((0, grid.M - 1)), grid, direction=("Array", "z"), basis=("Array", "Cardinal"))
                K = eom.action(wp, Fields(lo), Fields(hi), np.full(grid.M - 1, T), zero)
            finally:
                Polynomial.integrate = origI
            lines.append(f"kinetic {nf} " + " ".join(_b(x) for x in lo + hi + W))
            expect.append([K])
            rep.case(key=("corr", kind, nf))
    # deltaToTmunu with harness-chosen moments and mock particles
    o = EC.make_eom("toy1", M=20)
    eom, grid = o["eom"], o["grid"]
    from types import SimpleNamespace
    for npart in (1, 2, 3):
        parts = [SimpleNamespace(totalDOFs=r.choice((1, 6, 12)), msqVacuum=(lambda f, y=r.uniform(0, 2): y * 1.0)) for _ in range(npart)]
        msqs = [p.msqVacuum(None) for p in parts]
        D = {n: np.array([[r.uniform(-1, 1) for _ in range(grid.M - 1)] for _ in range(npart)]) for n in ("Delta00", "Delta02", "Delta20", "Delta11")}
        deltas = SimpleNamespace(**{n: SimpleNamespace(coefficients=v) for n, v in D.items()})
        saved = eom.particles
        eom.particles = parts
        try:
            idx = r.randint(0, grid.M - 2)
            vmid = -r.uniform(0.05, 0.8)
            t30, t33 = eom.deltaToTmunu(idx, None, vmid, deltas)
        finally:
            eom.particles = saved
        flat = []
        for i, p in enumerate(parts):
            flat += [p.totalDOFs, msqs[i], D["Delta00"][i, idx], D["Delta02"][i, idx], D["Delta20"][i, idx], D["Delta11"][i, idx]]
        lines.append(f"tmunu {_b(vmid)} {npart} " + " ".join(_b(x) for x in flat))
        expect.append([float(t30), float(t33)])
        rep.case(key=("corr", "tmunu", npart))
    outs = C.lean_run("EOMF", lines)
    bad = []
    for ln, ex, out in zip(lines, expect, outs):
        got = [C.b2f(int(t)) for t in out.split()] if out.strip() != "bad-op" else []
        if len(got) != len(ex) or any(abs(a - b_) > 1e-11 * (abs(b_) + 1e-300) + 1e-300 for a, b_ in zip(got, ex)):
            bad.append((ln.split()[0], got[:4], [float(x) for x in ex[:4]]))
    rep.obligation("correspondence Model.EOM(Float) = real EOM.wallProfile/plasmaVelocity/temperatureProfileEqLHS/_updateGrid/action kinetic/deltaToTmunu",
                   "correspondence", not bad, f"{len(lines)} calls; {bad[:3]}")
    tm_bad = [b for b in bad if b[0] == "tmunu"]
    if tm_bad:
        # Props.C04 (T04.3) proves the model value to BE the 30/33 component of the boosted plasma-frame tensor: a disagreement is a failing input
        ln = next(l_ for l_ in lines if l_.startswith("tmunu") and any(abs(C.b2f(int(t)) - 0) >= 0 for t in l_.split()[1:2]))
        rep.violation("EOM.deltaToTmunu (the out-of-equilibrium T30/T33 that enter the profile equations) differs from the boosted plasma-frame tensor "
                      "assembled from the same moments (Props.C04 T04.3)",
                      {"real_vs_model(first values)": [list(map(float, tm_bad[0][2])), list(map(float, tm_bad[0][1]))],
                       "one_input(vmid, nparticles, [dofs, msq, D00, D02, D20, D11]*)": [C.b2f(int(t)) if i != 1 else int(t) for i, t in enumerate(ln.split()[1:])]},
                      finding_key="C04:tmunu")
    # branch logic of findPlasmaProfilePoint: the REAL method on scripted left-hand sides (parabolas) with minimize_scalar / root_scalar stubs
    lines, expect, kinds = [], [], []
    for _ in range(400 if tier == "quick" else 6000):
        kind, p = EC.profile_point_params(r)
        lines.append("point " + " ".join(_b(x) for x in p))
        kinds.append(kind)
        try:
            expect.append(EC.scripted_profile_point(*p))
        except Exception as ex:  # noqa: BLE001
            expect.append(f"raised {type(ex).__name__}: {str(ex)[:80]}")
    outs = C.lean_run("ProfilePointF", lines)
    bad = []
    for ln, k, e, o_ in zip(lines, kinds, expect, outs):
        rep.case(key=("profile-point-logic", k, o_.split()[0]))
        rep.count(f"profile point {k.split('/')[0]} {o_.split()[0]}")
        if e != o_:
            bad.append({"kind": k, "params(Tn,Tplus,Tminus,tmin,c0,c1,c2)": [C.b2f(int(t)) for t in ln.split()[1:]], "real": e, "model": o_})
    rep.obligation("correspondence Model.ProfilePoint.profilePoint = real EOM.findPlasmaProfilePoint on scripted left-hand sides "
                   "(early return, multiplier, marching loop, bracket handed to root_scalar)", "correspondence", not bad and len(outs) == len(lines),
                   f"{len(lines)} cases; {str(bad[:1])[:400]}")
    rep.extra["profile_point_disagreements"] = bad[:3]
    # the loop of findPlasmaProfile and its success flag: the REAL method on scripted per-point results
    lines, expect = [], []
    for _ in range(200 if tier == "quick" else 3000):
        style, pts = EC.profile_loop_params(r)
        lines.append("loop " + " ".join(f"{_b(a)} {_b(b_)}" for a, b_ in pts))
        try:
            expect.append(EC.scripted_profile_loop(pts))
        except Exception as ex:  # noqa: BLE001
            expect.append(f"raised {type(ex).__name__}: {str(ex)[:80]}")
        rep.case(key=("profile-loop", style, len(pts)))
        rep.count(f"profile loop {style}")
    outs = C.lean_run("ProfileLoopF", lines)
    bad = [{"real": e, "model": o_, "line": ln[:200]} for ln, e, o_ in zip(lines, expect, outs) if e != o_]
    rep.obligation("correspondence Model.ProfileLoop.findPlasmaProfile = real EOM.findPlasmaProfile on scripted point results (profile, success flag)",
                   "correspondence", not bad and len(outs) == len(lines), f"{len(lines)} cases; {str(bad[:1])[:300]}")


def search(rep: C.Report, tier: str, broken):
    from WallGo.containers import WallParams, BoltzmannDeltas
    from WallGo.polynomial import Polynomial
    r = C.rng("C04search")
    # toy2c: two-step model, BOTH fields move across the wall (toy2: only one does)
    cases = [("toy1", {}, 1e-3), ("toy2c", {}, 1e-3), ("toy2c", {}, 1e-5)] if tier == "quick" else \
        [("toy1", {}, 1e-3), ("toy2", {}, 1e-3), ("toy2c", {}, 1e-3), ("toy2c", {}, 1e-5), ("toy1", {}, 1e-5), ("toy1", dict(E=0.07, lam=0.12), 1e-3),
         ("toy2", dict(kap=0.8), 1e-4)]
    for kind, params, errTol in cases:
        o = EC.make_eom(kind, params, M=30, errTol=errTol)
        eom, th, h, grid = o["eom"], o["thermo"], o["hydro"], o["grid"]
        nf = eom.nbrFields
        Tn = th.Tnucl
        zeroPoly = Polynomial(np.zeros((0, grid.M - 1)), grid, direction=("Array", "z"), basis=("Array", "Cardinal"))
        deltas = BoltzmannDeltas(Delta00=zeroPoly, Delta02=zeroPoly, Delta20=zeroPoly, Delta11=zeroPoly)
        slow = [v for v in (0.04, 0.08) if v > 1.1 * h.vMin]        # slow walls: |v| << 1 inside the wall (non-relativistic regime)
        # detonations only just above vJ as well: there T- exceeds the temperature where the residual of the profile equation has its minimum
        # in front of the wall, so which side of that minimum is searched decides between the supersonic and the subsonic root
        vws = slow[:1] + [0.3, 0.5 * (math.sqrt(float(th.csqLowT(Tn))) + h.vJ), h.vJ + 3e-4, min(h.vJ + 0.1, 0.95)] if tier == "quick" else \
            slow + [0.1, 0.3, 0.5, 0.5 * (math.sqrt(float(th.csqLowT(Tn))) + h.vJ), h.vJ + 1e-4, h.vJ + 3e-4, h.vJ + 1.5e-3, h.vJ + 4e-3, h.vJ + 0.05, 0.8, 0.95]
        for vw in vws:
            try:
                c1, c2, Tp, Tm, vmid = h.findHydroBoundaries(vw)
                vp, vm, _, _ = h.findMatching(vw)
            except Exception:  # noqa: BLE001
                rep.count("hydro raised")
                continue
            if not (th.TMinLowT < Tm < th.TMaxLowT and th.TMinHighT < Tp < th.TMaxHighT):
                rep.count("matching outside traced range (skipped)")
                continue
            lowv, highv = EC.vevs(o, Tp, Tm)
            for shape in range(2 if tier == "quick" else 6):
                W = np.array([r.uniform(3, 10) / Tn for _ in range(nf)])
                off = np.array([0.0] + [r.uniform(-1, 1) for _ in range(nf - 1)])
                wp = WallParams(widths=W, offsets=off)
                eom._updateGrid(wp, vmid)
                if shape % 2 == 1:
                    # long tails (what _updateGrid chooses when out-of-equilibrium particles are included: mean free path >> wall width):
                    # grid points far outside the wall, where the scalar background has saturated but the moments have not
                    thick_ = float(np.max(W))
                    grid.changePositionFalloffScale(10 * thick_, 10 * thick_, thick_, 0.0)
                fields, dphi = eom.wallProfile(grid.xiValues, lowv, highv, wp)
                # every second shape: supplied out-of-equilibrium moments (small, smooth, NOT vanishing in the tails of the grid)
                with_moments = shape % 2 == 1
                tout = np.zeros((2, grid.M - 1))
                saved_particles = eom.particles
                if with_moments:
                    from types import SimpleNamespace as NS
                    parts_ = [NS(totalDOFs=12, msqVacuum=(lambda f, y=0.3 * Tn ** 2: y)), NS(totalDOFs=6, msqVacuum=(lambda f, y=0.0: y))]
                    zz = np.asarray(grid.xiValues) * Tn
                    amp = 3e-4 * Tn ** 4
                    Dm = {n_: np.array([amp * c_ * (1.0 + 0.5 * np.tanh(zz / 40.0 + k_) + 0.2 * np.sin(zz / 25.0)) / (Tn ** 2 if n_ == "Delta00" else 1.0)
                                        for k_, c_ in enumerate((1.0, -0.6))])
                          for n_ in ("Delta00", "Delta02", "Delta20", "Delta11")}
                    # which of the four moments are supplied cycles from case to case: all of them, only the second moments (Delta00 == 0: the
                    # m^2 Delta00 terms cancel in T30/T33, so Delta00 says nothing about whether there is an out-of-equilibrium part), one at a time
                    pats_ = (("Delta00", "Delta02", "Delta20", "Delta11"), ("Delta02", "Delta20", "Delta11"), ("Delta02",), ("Delta11",), ("Delta20",),
                             ("Delta00", "Delta20"))
                    pat_ = pats_[getattr(search, "_npat", 0) % len(pats_)]
                    search._npat = getattr(search, "_npat", 0) + 1
                    for n_ in Dm:
                        if n_ not in pat_:
                            Dm[n_] = np.zeros_like(Dm[n_])
                    rep.count("moments supplied: " + "+".join(pat_))
                    deltas_used = NS(**{n_: NS(coefficients=v_) for n_, v_ in Dm.items()})
                    eom.particles = parts_
                    g2 = 1 / (1 - vmid ** 2)
                    u0, u3 = math.sqrt(g2), math.sqrt(g2) * vmid
                    ub0, ub3 = u3, u0
                    for a_, pt in enumerate(parts_):
                        msq_ = pt.msqVacuum(None)
                        d00, d02, d20, d11 = (Dm[n_][a_] for n_ in ("Delta00", "Delta02", "Delta20", "Delta11"))
                        A_, B_ = 3 * d20 - d02 - msq_ * d00, 3 * d02 - d20 + msq_ * d00
                        tout[0] += pt.totalDOFs * (A_ * u3 * u0 + B_ * ub3 * ub0 + 2 * d11 * (u3 * ub0 + ub3 * u0)) / 2
                        tout[1] += pt.totalDOFs * ((A_ * u3 * u3 + B_ * ub3 * ub3 + 4 * d11 * u3 * ub3) / 2 - (msq_ * d00 + d02 - d20) / 2)
                else:
                    deltas_used = deltas
                try:
                    Tprof, vprof = eom.findPlasmaProfile(c1, c2, vmid, fields, dphi, deltas_used, Tp, Tm)
                finally:
                    eom.particles = saved_particles
                branch = "detonation" if vw > h.vJ else "deflag/hybrid"
                info = {"model": kind, "params": params, "errTol": errTol, "vw": vw, "branch": branch, "widths_Tn": (W * Tn).tolist(), "offsets": off.tolist(),
                        "c1": float(c1), "c2": float(c2), "Tp": float(Tp), "Tm": float(Tm)}
                rep.count(f"profiles {branch}" + (" with moments" if with_moments else ""))
                info["with_out_of_equilibrium_moments"] = "+".join(pat_) if with_moments else False
                if not eom.successTemperatureProfile:
                    rep.count("profile solver reported failure")
                    continue
                worst = (0.0, None)
                for i in range(len(Tprof)):
                    fp, dp = fields.getFieldPoint(i), dphi.getFieldPoint(i)
                    T, v = float(Tprof[i]), float(vprof[i])
                    w = float(-T * th.effectivePotential.derivT(fp, T))
                    V = float(th.effectivePotential.evaluate(fp, T))
                    t30 = w * v / (1 - v * v) + tout[0][i]
                    t33 = 0.5 * float(np.sum(np.asarray(dp) ** 2)) - V + w * v * v / (1 - v * v) + tout[1][i]
                    e = max(abs(t30 - c1) / abs(c1), abs(t33 - c2) / abs(c2))
                    if e > worst[0]:
                        worst = (e, i)
                rep.case(key=(kind, errTol, branch, round(vw, 2), shape), sample=dict(info, worst_rel_residual=worst[0]) if len(rep.samples) < 4 else None)
                # the bracketed root is found to rtol = errTol/10 in T; T33 ~ T^4 => residual up to ~4 errTol/10 of c2
                if not worst[0] <= errTol:
                    i = worst[1]
                    # second stage: BACKWARD error.  The root finder stops when T is within xtol + rtol*T (rtol = errTol/10) of a root; near the
                    # sonic point the residual is steep in T.  Recompute T33 along the T30 constraint at T(1 -+ 4 rtol): a sign change means
                    # an exact solution lies within the solver's own tolerance of the returned temperature.
                    fp_, dp_ = fields.getFieldPoint(i), dphi.getFieldPoint(i)

                    def res33(T_):
                        w_ = float(-T_ * th.effectivePotential.derivT(fp_, T_))
                        s1_ = float(c1) - tout[0][i]
                        v_ = (-w_ + math.sqrt(4 * s1_ ** 2 + w_ ** 2)) / (2 * s1_)
                        return (0.5 * float(np.sum(np.asarray(dp_) ** 2)) - float(th.effectivePotential.evaluate(fp_, T_)) + w_ * v_ * v_ / (1 - v_ * v_)
                                + tout[1][i] - float(c2)), v_
                    T_i = float(Tprof[i])
                    dlt = 4 * (1e-10 + errTol / 10 * T_i)
                    (ra, _va), (rb, _vb), (r0, v0) = res33(T_i - dlt), res33(T_i + dlt), res33(T_i)
                    if ra * rb <= 0 and abs(v0 - float(vprof[i])) <= 1e-6:
                        rep.count("residual above errTol but an exact solution lies within the solver's temperature tolerance")
                        continue
                    # no-root branch: the residual minimum is >= 0 and the minimiser is returned with the success flag still set
                    fp, dp = fields.getFieldPoint(i), dphi.getFieldPoint(i)
                    lhs = eom.temperatureProfileEqLHS(fp, dp, float(Tprof[i]), float(c1) - tout[0][i], float(c2) - tout[1][i])
                    rep.violation("a grid point reported as successful does not reproduce the conserved T30/T33",
                                  dict(info, grid_index=int(i), T=float(Tprof[i]), v=float(vprof[i]), rel_residual=worst[0], lhs_at_returned_T=float(lhs)),
                                  finding_key=KEY_NOROOT if lhs > 0 else "C04:pointwise-conservation")
                # far in front / behind: tends to the matching values
                ends = ((Tprof[-1], vprof[-1], Tp, -vp, "front"), (Tprof[0], vprof[0], Tm, -vm, "behind")) if not with_moments else ()
                for Tg, vg, Tw, vwant, where in ends:
                    if not abs(Tg - Tw) <= 0.002 * Tw or not abs(vg - vwant) <= 0.002:
                        rep.violation(f"profile far {where} the wall does not tend to the hydrodynamic matching values",
                                      dict(info, where=where, T_grid=float(Tg), v_grid=float(vg), T_matching=float(Tw), v_matching=float(vwant)),
                                      finding_key=f"C04:asymptotics:{where}:{branch}")
