"""C03 -- matched flow reaches the nucleation temperature ahead of the wall; efficiency factor."""
from __future__ import annotations

import math

import numpy as np

import common as C
import hydro_common as HC

LEAN_MODULE = "WallGoVerif.Props.C03"
LEMMA_MODULES = ["WallGoVerif.Lemmas.Template"]
GEN_MODULES = ["Helpers", "Hydro", "Template"]
VALIDATION_POINTS = (100, 2000)
VALIDATE_ONLY = {"shockDE", "shockEvent", "TiiShock", "dxiAndWdv", "gammaSq", "boostVelocity", "matchDetonPost", "vpvmAndvpovm"}
RULE = ("obligations = Lean theorems of Props.C03 (shockDE components are the self-similar flow equations written in v; TiiShock=0 "
        "<=> energy-flux continuity at the front; front event = mu*xi=cs^2; constant sound speed => momentum-flux continuity; "
        "template shooting residual <=> the same two conditions; detonation passes vw,Tn through; kappa integrand = kinetic energy) "
        "+ translator validation + an INDEPENDENT integrator written in the similarity variable xi (harness-owned) re-deriving Tn "
        "and kappa from every real matching; distinct = (EOS, branch, rounded vw)")
ASSUMPTIONS = ["solve_ivp/simpson in the real code and in the harness integrator are numerical oracles; agreement is judged at 2e-4 (Tn) "
               "and 1e-2 (kappa: Simpson on 501 resampled points in the code, Simpson on the dense output in the harness)", "the ODE solution itself cannot be a theorem: partial on integration accuracy"]


KEY_VMIN = "C03:near-vMin-bracket-end-unconverged"


def mu_(xi, v):
    return (xi - v) / (1 - xi * v)


def integrate_shock(th, vw, vp, Tp):
    """Independent integrator in xi from the wall to the shock front. Returns (xi_sh, v_sh, T_sh, kappa-integral)."""
    from scipy.integrate import solve_ivp
    v0 = mu_(vw, vp)

    def rhs(xi, y):
        v, T, _ = y
        cs2 = float(th.csqHighT(T))
        m = mu_(xi, v)
        dv = 2 * v / xi / (HC.gsq(v) * (1 - v * xi) * (m * m / cs2 - 1))
        dT = T * HC.gsq(v) * m * dv
        dK = xi * xi * v * v * HC.gsq(v) * float(th.wHighT(T))
        return [dv, dT, dK]

    def ev(xi, y):
        return mu_(xi, y[0]) * xi - float(th.csqHighT(y[1]))
    ev.terminal = True
    if ev(vw, [v0, Tp, 0]) >= 0 or v0 <= 0:
        return vw, v0, Tp, 0.0
    sol = solve_ivp(rhs, [vw, 1.0 - 1e-9], [v0, Tp, 0.0], events=ev, rtol=1e-10, atol=1e-14)
    return float(sol.t[-1]), float(sol.y[0, -1]), float(sol.y[1, -1]), float(sol.y[2, -1])


def integrate_rarefaction(th, vw, vm, Tm):
    """kappa-integral of the rarefaction wave behind the wall.  At a hybrid wall mu(xi,v) = cs exactly, where d v/d xi is
    infinite, so this part is integrated in v (harness-owned equations, tight tolerances): d xi/dv, dT/dv, dK/dv."""
    from scipy.integrate import solve_ivp
    v0 = mu_(vw, vm)
    if v0 <= 1e-12:
        return 0.0

    def rhs(v, y):
        xi, T, _ = y
        cs2 = float(th.csqLowT(T))
        m = mu_(xi, v)
        dxi = xi * HC.gsq(v) * (1 - v * xi) * (m * m / cs2 - 1) / (2 * v)
        dT = T * HC.gsq(v) * m
        dK = xi * xi * v * v * HC.gsq(v) * float(th.wLowT(T)) * dxi
        return [dxi, dT, dK]
    sol = solve_ivp(rhs, [v0, 1e-10], [vw, Tm, 0.0], rtol=1e-10, atol=1e-14)
    return -float(sol.y[2, -1])      # xi decreases along the integration: the integral over increasing xi is minus this


def search(rep: C.Report, tier: str, broken):
    from scipy.optimize import brentq
    r = C.rng("C03")
    nv = 5 if tier == "quick" else 25
    import models as _models
    fams = list(HC.eos_families(tier))
    # the same equations of state written in other units (all temperatures multiplied by s): solver tolerances on dimensionless unknowns (v+) must
    # not pick up the size of the temperatures
    for s_ in ((1e4,) if tier == "quick" else (1e4, 1e-3, 3e2)):
        fams.append((f"twostep:Tn=0.6, temperatures x {s_:g}", _models.ScaledEOS(_models.twostep_eos(Tn=0.6), s_)))
        if tier == "thorough":
            fams.append((f"twostep:Tn=0.8, temperatures x {s_:g}", _models.ScaledEOS(_models.twostep_eos(Tn=0.8), s_)))
    # stronger two-step transitions (alpha_n 0.27, 0.45) with walls only just above the minimal velocity, where the true v+ is small
    fams.append(("twostep:abrok=0.5,asym=0.1,musq=0.4,Tn=0.6", _models.twostep_eos(abrok=0.5, asym=0.1, musq=0.4, Tn=0.6)))
    if tier == "thorough":
        fams.append(("twostep:abrok=0.3,asym=0.05,musq=0.5,Tn=0.6", _models.twostep_eos(abrok=0.3, asym=0.05, musq=0.5, Tn=0.6)))
    for name, th in fams:
        try:
            # scaled-unit families with the looser absolute tolerance the package's own tests use (1e-6); `atol` is an ABSOLUTE tolerance on
            # temperatures too, so in units where the temperatures are small it is scaled down with them (1e-6 on T = 6e-4 is a 2e-3 tolerance
            # and the answers are correspondingly rough -- that is the setting, not a defect)
            if "temperatures x" in name:
                h = HC.make_hydro(th, atol=1e-6 * min(1.0, float(getattr(th, "s", 1.0))))
            else:
                h = HC.make_hydro(th)
        except Exception:  # noqa: BLE001
            continue
        Tn = h.Tnucl
        alN, wN = h.template.alN, float(th.wHighT(Tn))
        vws_ = list(HC.velocities(h, r, nv))
        if h.vMin > 0.05:
            vws_ += [h.vMin + 0.002, h.vMin + 0.011, h.vMin + 0.02, h.vMin + 0.045]
        for vw in vws_:
            try:
                vp, vm, Tp, Tm = map(float, h.findMatching(vw))
            except Exception:  # noqa: BLE001
                rep.count("matching raised")
                continue
            branch = HC.branch_of(h, vw, vm, Tm)
            info = {"eos": name, "vw": vw, "vp": vp, "vm": vm, "Tp": Tp, "Tm": Tm, "Tn": Tn, "branch": branch}
            rep.case(key=(name, branch, round(vw, 3)), sample=info if len(rep.samples) < 3 else None)
            rep.count(f"branch {branch}")
            kSW = 0.0
            if branch == "detonation":
                if vp != vw or Tp != Tn:
                    rep.violation("detonation: plasma in front of the wall is not undisturbed (v+ != vw or T+ != Tn)", info,
                                  finding_key="C03:detonation-front")
            else:
                xs, vs, Ts, K = integrate_shock(th, vw, vp, Tp)
                u = mu_(xs, vs)
                tgt = float(th.wHighT(Ts)) * HC.gsq(u) * u

                def f(tn):
                    return float(th.wHighT(tn)) * HC.gsq(xs) * xs - tgt
                try:
                    tn = brentq(f, 0.2 * Tn, Ts * (1 + 1e-9) + 1e-300, xtol=1e-14, rtol=1e-13)
                except ValueError:
                    tn = math.nan
                info.update(xi_shock=xs, v_shock=vs, T_shock=Ts, Tn_reached=tn)
                if not abs(tn - Tn) <= 2e-4 * Tn:
                    # diagnosis of known finding C03-V: the returned v+ sits at the lower end of the shooting bracket (vBracketLow), where the
                    # inner 2x2 matching does not converge and makes the residual jump
                    atlow = abs(vp - h.vBracketLow) < 0.2 * h.vBracketLow and vw < h.vMin + 0.06
                    if atlow:
                        try:
                            h.matchDeflagOrHyb(vw, h.vBracketLow)
                            atlow = not h.success
                        except Exception:  # noqa: BLE001
                            pass
                    rep.violation("integrating the fluid equations from (vw, v+, T+) to the shock front does not arrive at the nucleation temperature",
                                  dict(info, vBracketLow=h.vBracketLow, vMin=h.vMin), finding_key=KEY_VMIN if atlow else f"C03:Tn:{branch}")
                # constant sound speed ahead => momentum flux continuity at the front as well
                cs2a, cs2b = float(th.csqHighT(Tn)), float(th.csqHighT(Ts))
                if abs(cs2a - cs2b) < 1e-9 and math.isfinite(tn):
                    lhs = float(th.wHighT(tn)) * HC.gsq(xs) * xs * xs + float(th.pHighT(tn))
                    rhs_ = float(th.wHighT(Ts)) * HC.gsq(u) * u * u + float(th.pHighT(Ts))
                    if not abs(lhs - rhs_) <= 1e-05 * (abs(lhs) + abs(rhs_)):
                        rep.violation("momentum flux not continuous across the shock front for a constant-sound-speed EOS",
                                      dict(info, momentum_flux_ahead=lhs, momentum_flux_behind=rhs_), finding_key="C03:front-momentum")
                kSW = 4 * K / (vw ** 3 * alN * wN)
            # efficiency factor = kinetic-energy integral of the same flow
            # always for the hybrids just below the Jouguet velocity (where the template model's vJ and the model's own differ), plus a few others
            if tier == "thorough" or (0 < h.vJ - vw < 0.02) or len([1 for k in rep.nontrivial if k[0] == name]) <= 4:
                try:
                    kap = float(h.efficiencyFactor(vw))
                except Exception as ex:  # noqa: BLE001
                    rep.count("efficiencyFactor raised " + type(ex).__name__)
                    continue
                kRW = 0.0
                if vw * vw > float(th.csqLowT(Tm)):
                    kRW = 4 * integrate_rarefaction(th, vw, vm, Tm) / (vw ** 3 * alN * wN)
                mine = kSW + kRW
                info.update(kappa=kap, kappa_independent=mine)
                rep.count("kappa compared")
                if not abs(kap - mine) <= 1e-2 * max(abs(kap), abs(mine)) + 1e-6:
                    rep.violation("efficiency factor differs from the kinetic-energy integral of the flow profile", info,
                                  finding_key=f"C03:kappa:{branch}")
    # ---- a scan over equations of state at ONE nucleation temperature and ONE fixed velocity grid, a fresh Hydrodynamics object per EOS (what a
    # parameter scan does): every answer must be the one of ITS equation of state, whatever was computed before in the same process
    import models
    from WallGo.hydrodynamics import Hydrodynamics as _H
    # (p+ < p- at Tn = 1 for all of them; the sound speed in FRONT of the wall differs from one to the next)
    scan = [dict(ap=3.0, am=2.4, eps=0.25), dict(ap=3.0, am=2.0, eps=0.5, mu=4.2, nu=3.7), dict(ap=3.0, am=2.7, eps=0.15, mu=3.9, nu=4.3),
            dict(ap=3.0, am=2.85, eps=0.08), dict(ap=4.0, am=3.0, eps=0.45, mu=4.4, nu=4.0)]
    if tier == "thorough":
        scan += [dict(ap=3.0, am=r.uniform(1.9, 2.6), eps=r.uniform(0.3, 0.5), mu=r.uniform(3.8, 4.4), nu=r.uniform(3.8, 4.4)) for _ in range(6)]
    for par in scan:
        e = models.BagEOS(Tn=1.0, **par)
        if e.pHighT(1.0) >= e.pLowT(1.0):
            continue
        try:
            h = _H(e, 10.0, 0.01, 1e-6, 1e-10)
        except Exception:  # noqa: BLE001
            continue
        for vw in (0.3, 0.45, 0.6):
            if not (h.vMin < vw < h.vJ):
                continue
            try:
                vp, vm, Tp, Tm = map(float, h.findMatching(vw))
            except Exception:  # noqa: BLE001
                continue
            xs, vs, Ts, K = integrate_shock(e, vw, vp, Tp)
            u = mu_(xs, vs)
            tgt = float(e.wHighT(Ts)) * HC.gsq(u) * u
            try:
                tn = brentq(lambda t: float(e.wHighT(t)) * HC.gsq(xs) * xs - tgt, 0.2, Ts * (1 + 1e-9), xtol=1e-14, rtol=1e-13)
            except ValueError:
                tn = math.nan
            rep.case(key=("eos-scan-same-Tn", str(sorted(par.items())), vw))
            rep.count("EOS scan at one Tn and one velocity grid")
            if not abs(tn - 1.0) <= 2e-4:
                rep.violation("in a scan over equations of state at one nucleation temperature (fresh Hydrodynamics per EOS, same wall velocities) the matched "
                              "flow of a later EOS does not arrive at the nucleation temperature",
                              {"eos": par, "Tn": 1.0, "vw": vw, "vp": vp, "vm": vm, "Tp": Tp, "Tm": Tm, "Tn_reached": tn,
                               "earlier_in_this_process": "the preceding entries of the scan list, same vw grid (0.3, 0.45, 0.6)"},
                              finding_key="C03:eos-scan-history")
