"""C07 -- results covariant under a change of units."""
from __future__ import annotations

import math

import numpy as np

import common as C
import eom_common as EC

LEAN_MODULE = "WallGoVerif.Props.C07"
LEMMA_MODULES = ["WallGoVerif.Lemmas.Scaling"]
GEN_MODULES = ["Helpers", "Thermo", "Hydro", "Template", "Grid", "Grid3", "Boltz"]
VALIDATION_POINTS = (60, 1000)
RULE = ("obligations = Lean weight theorems of Props.C07 for every regenerated formula family (EOS incl. extrapolation parameters, "
        "junction relations, boundary constants, shock equations, template closed forms, grid maps, Boltzmann integrand/source) and "
        "for the hand models (EOM, finite-difference stencils), plus which tolerance predicates are invariant + translator validation + "
        "metamorphic end-to-end runs of the real code under unit factors 1e-2..1e2 with default and tightened tolerances; "
        "distinct = (model, unit factor, tolerance setting, quantity)")
ASSUMPTIONS = ["iterative solvers are oracles: dimensionless outputs compared within solver tolerance (2*errTol for the wall velocity, "
               "1e-5 for hydrodynamic quantities), dimensionful ones by the proved weights",
               "absolute constants inside scipy defaults (BFGS gtol, Nelder-Mead xatol/fatol) are exercised, not modelled"]


KEY_LARGE = "C07:large-units-minimiser"


def _run(kind, u, tol):
    params = dict(u=u)
    o = EC.make_eom(kind, params, M=30, errTol=tol["errTol"], pressRelErrTol=tol["prt"], maxIterations=tol["maxIt"],
                    key=("C07", kind, u, tuple(sorted(tol.items()))))
    eom, h, th = o["eom"], o["hydro"], o["thermo"]
    Tn = th.Tnucl
    res = eom.findWallVelocityDeflagrationHybrid()
    vp, vm, Tp, Tm = h.findMatching(0.4)
    c1, c2, _, _, _ = h.findHydroBoundaries(0.4)
    return {"Tn/u": Tn / u, "vJ": h.vJ, "vMin": h.vMin, "vLTE": float(h.findvwLTE()), "alpha": float(th.alpha(Tn)), "vw": res.wallVelocity, "success": res.success,
            "type": str(res.solutionType), "Tplus/Tn": res.temperaturePlus / Tn, "Tminus/Tn": res.temperatureMinus / Tn,
            "widths*Tn": (np.asarray(res.wallWidths) * Tn).tolist(), "offsets": np.asarray(res.wallOffsets).tolist(),
            "matching(0.4)": [float(vp), float(vm), float(Tp) / Tn, float(Tm) / Tn], "c1/u^4": float(c1) / u ** 4, "c2/u^4": float(c2) / u ** 4,
            "p(Tn)/u^4": float(th.pHighT(Tn)) / u ** 4, "TminPossible/u": th.freeEnergyLow.minPossibleTemperature[0] / u}


def search(rep: C.Report, tier: str, broken):
    r = C.rng("C07")
    tols = [dict(errTol=1e-3, prt=0.3679, maxIt=10)]
    if tier == "thorough":
        tols.append(dict(errTol=1e-4, prt=0.05, maxIt=30))
    us = [1e-2, 1e2] if tier == "quick" else [1e-2, 0.1, 3.7, 25.0, 1e2]
    kinds = ["toy1"] if tier == "quick" else ["toy1", "toy2c"]
    for kind in kinds:
        for tol in tols:
            base = _run(kind, 1.0, tol)
            for u in us:
                try:
                    got = _run(kind, u, tol)
                except Exception as ex:  # noqa: BLE001
                    rep.violation(f"the solver chain (hydrodynamics, LTE velocity, wall solve) raises under the unit factor {u} although it works for the factor 1",
                                  {"model": kind, "unit_factor": u, "tolerances": tol, "error": f"{type(ex).__name__}: {str(ex)[:300]}", "base": base,
                                   "how": "eom_common.make_eom(kind, dict(u=u)) then findWallVelocityDeflagrationHybrid / findMatching(0.4) / findvwLTE"},
                                  finding_key=f"C07:{kind}:raises")
                    continue
                info = {"model": kind, "unit_factor": u, "tolerances": tol, "base": base, "scaled": got,
                        "how": "eom_common.make_eom(kind, dict(u=u)) : T0, fields and V rescaled by u, u, u^4"}
                rep.case(key=(kind, u, tol["errTol"]), sample=info if len(rep.samples) < 2 else None)
                rep.count(f"runs {kind}")
                bad = []
                for q, t in (("Tn/u", 1e-9), ("vJ", 1e-6), ("vLTE", 2e-5), ("alpha", 1e-6), ("Tplus/Tn", 1e-3), ("Tminus/Tn", 1e-3),
                             ("c1/u^4", 1e-5), ("c2/u^4", 1e-5), ("p(Tn)/u^4", 1e-7), ("TminPossible/u", 1e-6)):
                    a, b = base[q], got[q]
                    if abs(a - b) > t * max(abs(a), abs(b), 1e-300):
                        bad.append(q)
                if base["success"] != got["success"] or base["type"] != got["type"]:
                    bad.append("success/type")
                if base["vw"] is None or got["vw"] is None or abs(base["vw"] - got["vw"]) > 2 * tol["errTol"]:
                    bad.append("vw")
                if max(abs(a - b) for a, b in zip(base["matching(0.4)"], got["matching(0.4)"])) > 1e-5:
                    bad.append("matching")
                if max(abs(a - b) for a, b in zip(base["widths*Tn"], got["widths*Tn"])) > 0.03 * max(base["widths*Tn"]):
                    bad.append("widths*Tn")
                if max(abs(a - b) for a, b in zip(base["offsets"], got["offsets"])) > 0.05:
                    bad.append("offsets")
                if bad:
                    rep.violation(f"results are not covariant under the unit factor {u}: {bad}", dict(info, differing=bad),
                                  finding_key=f"C07:{kind}:{','.join(sorted(bad))}")
    # the whole pipeline through WallGoManager (lengths entered in units of 1/Tnucl: manager.py buildGrid/buildEOM/setupWallSolver)
    import manager_common as MC

    def mrun(u, scalar_scale=False, first_step=None):
        m = MC.new_manager(20, 1e-3, u=u, scalar_scale=scalar_scale, first_step=first_step)
        res = m.solveWall(MC.settings())
        Tn = 1.15 * u
        hy = m.hydrodynamics
        ws = m.setupWallSolver(MC.settings())
        return {"vw": res.wallVelocity, "success": res.success, "type": str(res.solutionType), "vLTE": float(m.wallSpeedLTE()), "vJ": float(hy.vJ),
                "Tplus/Tn": res.temperaturePlus / Tn, "Tminus/Tn": res.temperatureMinus / Tn, "widths*Tn": (np.asarray(res.wallWidths) * Tn).tolist(),
                "gridTail*Tn": float(ws.grid.tailLengthInside) * Tn, "gridThickness*Tn": float(ws.grid.wallThickness) * Tn,
                "initialWallThickness*Tn": float(ws.initialWallThickness) * Tn, "meanFreePath*Tn": float(ws.eom.meanFreePathScale) * Tn,
                "momentumFalloff/Tn": float(ws.grid.momentumFalloffT) / Tn,
                # dimensionful outputs of the setup: the temperature ranges over which the two phases were tabulated
                "TMinHighT/Tn": float(m.thermodynamics.TMinHighT) / Tn, "TMaxHighT/Tn": float(m.thermodynamics.TMaxHighT) / Tn,
                "TMinLowT/Tn": float(m.thermodynamics.TMinLowT) / Tn, "TMaxLowT/Tn": float(m.thermodynamics.TMaxLowT) / Tn}
    mbase = mrun(1.0)
    # the base model has T ~ 1; a GeV-like model (the same potential with T ~ 100) under factors up to 1e2 reaches 1e4
    for u in ((1e-2, 1e2, 3e3, 1e4) if tier == "quick" else (1e-2, 0.2, 13.0, 1e2, 1e3, 3e3, 1e4)):
        try:
            got = mrun(u)
        except Exception as ex:  # noqa: BLE001
            rep.violation(f"WallGoManager pipeline fails under the unit factor {u} although it works for the factor 1",
                          {"unit_factor": u, "error": f"{type(ex).__name__}: {str(ex)[:300]}", "base": mbase,
                           "how": "harness/manager_common.new_manager(20, 1e-3, u=u).solveWall(settings())"}, finding_key="C07:manager:raises")
            continue
        rep.case(key=("manager", u))
        rep.count("manager runs")
        bad = []
        for q, t in (("vJ", 1e-6), ("vLTE", 2e-5), ("Tplus/Tn", 1e-3), ("Tminus/Tn", 1e-3), ("gridTail*Tn", 1e-12), ("gridThickness*Tn", 1e-12),
                     ("initialWallThickness*Tn", 1e-12), ("meanFreePath*Tn", 1e-12), ("momentumFalloff/Tn", 1e-12),
                     ("TMinHighT/Tn", 1e-4), ("TMaxHighT/Tn", 1e-4), ("TMinLowT/Tn", 1e-4), ("TMaxLowT/Tn", 1e-4)):
            if abs(mbase[q] - got[q]) > t * max(abs(mbase[q]), abs(got[q]), 1e-300):
                bad.append(q)
        if mbase["success"] != got["success"] or mbase["type"] != got["type"] or mbase["vw"] is None or got["vw"] is None \
                or abs(mbase["vw"] - got["vw"]) > 2e-3:
            bad.append("vw")
        elif max(abs(a - b) for a, b in zip(mbase["widths*Tn"], got["widths*Tn"])) > 0.03 * max(mbase["widths*Tn"]):
            bad.append("widths*Tn")
        if bad:
            rep.violation(f"WallGoManager results are not covariant under the unit factor {u}: {bad}",
                          {"unit_factor": u, "base": mbase, "scaled": got, "differing": bad,
                           "how": "harness/manager_common.new_manager(20, 1e-3, u=u).solveWall(settings())"}, finding_key=f"C07:manager:{','.join(sorted(bad))}")
    # a symmetric phase that is not conformal (field-independent + hsq T0^2 T^2 term: cs^2(Tn) = 0.304): formulas that are only exact for
    # cs^2 = 1/3 or Tn = 1 show up under a change of units
    def hrun(u):
        m = MC.new_manager(20, 1e-3, u=u, model_kwargs=dict(hsq=1.0))
        res = m.solveWall(MC.settings())
        Tn = 1.15 * u
        return {"vw": res.wallVelocity, "success": res.success, "vLTE": float(m.wallSpeedLTE()), "vJ": float(m.hydrodynamics.vJ),
                "Tplus/Tn": res.temperaturePlus / Tn, "Tminus/Tn": res.temperatureMinus / Tn, "widths*Tn": (np.asarray(res.wallWidths) * Tn).tolist(),
                "TMaxHighT/Tn": float(m.thermodynamics.TMaxHighT) / Tn, "TMaxLowT/Tn": float(m.thermodynamics.TMaxLowT) / Tn}
    hbase = hrun(1.0)
    for u in ((1e2, 1e-2) if tier == "quick" else (1e2, 1e-2, 30.0, 0.2, 3e3)):
        rep.case(key=("manager-nonconformal", u))
        rep.count("manager runs, non-conformal symmetric phase")
        try:
            got = hrun(u)
        except Exception as ex:  # noqa: BLE001
            rep.violation(f"WallGoManager pipeline (non-conformal symmetric phase) fails under the unit factor {u} although it works for the factor 1",
                          {"unit_factor": u, "error": f"{type(ex).__name__}: {str(ex)[:300]}", "base": hbase,
                           "how": "harness/manager_common.new_manager(20, 1e-3, u=u, model_kwargs=dict(hsq=1.0)).solveWall(settings())"},
                          finding_key="C07:manager-nonconformal:raises")
            continue
        bad = [q for q, t in (("vJ", 1e-6), ("vLTE", 2e-5), ("Tplus/Tn", 1e-3), ("Tminus/Tn", 1e-3), ("TMaxHighT/Tn", 1e-4), ("TMaxLowT/Tn", 1e-4))
               if abs(hbase[q] - got[q]) > t * max(abs(hbase[q]), abs(got[q]))]
        if hbase["success"] != got["success"] or got["vw"] is None or abs(hbase["vw"] - got["vw"]) > 2e-3:
            bad.append("vw")
        elif max(abs(a - b) for a, b in zip(hbase["widths*Tn"], got["widths*Tn"])) > 0.03 * max(hbase["widths*Tn"]):
            bad.append("widths*Tn")
        if bad:
            rep.violation(f"WallGoManager results (non-conformal symmetric phase) are not covariant under the unit factor {u}: {bad}",
                          {"unit_factor": u, "base": hbase, "scaled": got, "differing": bad}, finding_key=f"C07:manager-nonconformal:{','.join(sorted(bad))}")
    # the field variation scale given as ONE number instead of a one-entry list (both forms are documented): same results in every unit system
    for u in ((1e2, 3e3) if tier == "quick" else (1e-2, 13.0, 1e2, 3e3, 1e4)):
        rep.case(key=("manager-scalar-scale", u))
        rep.count("manager runs with a scalar field scale")
        try:
            got = mrun(u, scalar_scale=True)
        except Exception as ex:  # noqa: BLE001
            rep.violation(f"WallGoManager pipeline with the field variation scale given as a single number fails under the unit factor {u}",
                          {"unit_factor": u, "error": f"{type(ex).__name__}: {str(ex)[:300]}", "base": mbase,
                           "how": "harness/manager_common.new_manager(20, 1e-3, u=u, scalar_scale=True).solveWall(settings())"},
                          finding_key="C07:manager-scalar-scale:raises")
            continue
        bad = [q for q, t in (("vJ", 1e-6), ("vLTE", 2e-5), ("Tplus/Tn", 1e-3), ("Tminus/Tn", 1e-3)) if abs(mbase[q] - got[q]) > t * max(abs(mbase[q]), abs(got[q]))]
        if mbase["success"] != got["success"] or got["vw"] is None or abs(mbase["vw"] - got["vw"]) > 2e-3:
            bad.append("vw")
        if bad:
            rep.violation(f"WallGoManager results with a scalar field variation scale are not covariant under the unit factor {u}: {bad}",
                          {"unit_factor": u, "base": mbase, "scaled": got, "differing": bad}, finding_key=f"C07:manager-scalar-scale:{','.join(sorted(bad))}")
    # a configured starting step of the phase tracer (a dimensionless setting: "in units of the maximum step size dT"): same results in every unit system
    for fs_ in ((0.5,) if tier == "quick" else (0.5, 1.0, 0.05)):
        for u in ((1.0, 1e-2, 1e2) if tier == "quick" else (1.0, 1e-2, 0.2, 13.0, 1e2)):
            rep.case(key=("manager-first-step", fs_, u))
            rep.count("manager runs with a configured phaseTracerFirstStep")
            try:
                got = mrun(u, first_step=fs_)
            except Exception as ex:  # noqa: BLE001
                rep.violation(f"WallGoManager pipeline with phaseTracerFirstStep={fs_} (in units of dT) fails under the unit factor {u}",
                              {"unit_factor": u, "phaseTracerFirstStep": fs_, "error": f"{type(ex).__name__}: {str(ex)[:300]}",
                               "how": "harness/manager_common.new_manager(20, 1e-3, u=u, first_step=...).solveWall(settings())"},
                              finding_key="C07:manager-first-step:raises")
                continue
            bad = [q for q, t in (("vJ", 1e-6), ("vLTE", 2e-5), ("Tplus/Tn", 1e-3)) if abs(mbase[q] - got[q]) > t * max(abs(mbase[q]), abs(got[q]))]
            if got["vw"] is None or abs(mbase["vw"] - got["vw"]) > 2e-3:
                bad.append("vw")
            if bad:
                rep.violation(f"WallGoManager results with phaseTracerFirstStep={fs_} differ from the default-step results under the unit factor {u}: {bad}",
                              {"unit_factor": u, "phaseTracerFirstStep": fs_, "base": mbase, "scaled": got, "differing": bad},
                              finding_key=f"C07:manager-first-step:{','.join(sorted(bad))}")
    # the SAME model object solved again in other units: parameters updated in place and setupThermodynamicsHydrodynamics re-run with all
    # inputs (Tn, phase guesses, variation scales) rescaled, as its docstring asks whenever details of the model change
    m = MC.new_manager(20, 1e-3, u=1.0)
    first = m.solveWall(MC.settings())
    for u in ((0.05,) if tier == "quick" else (0.05, 20.0, 0.3)):
        m.model.getEffectivePotential().unit = u
        rep.case(key=("manager-same-model", u))
        rep.count("manager re-setup of the same model in other units")
        try:
            MC.setup(m, 1.15, u)
            res = m.solveWall(MC.settings())
        except Exception as ex:  # noqa: BLE001
            rep.violation(f"re-running the setup of the same model with all dimensionful inputs multiplied by {u} fails",
                          {"unit_factor": u, "error": f"{type(ex).__name__}: {str(ex)[:300]}"}, finding_key="C07:manager-same-model:raises")
            continue
        th = m.thermodynamics
        got = {"vJ": float(m.hydrodynamics.vJ), "vw": res.wallVelocity, "TMaxLowT/Tn": th.TMaxLowT / (1.15 * u), "TMinLowT/Tn": th.TMinLowT / (1.15 * u),
               "widths*Tn": (np.asarray(res.wallWidths) * 1.15 * u).tolist()}
        fresh_m = MC.new_manager(20, 1e-3, u=u)
        fr_ = fresh_m.solveWall(MC.settings())
        want = {"vJ": float(fresh_m.hydrodynamics.vJ), "vw": fr_.wallVelocity, "TMaxLowT/Tn": fresh_m.thermodynamics.TMaxLowT / (1.15 * u),
                "TMinLowT/Tn": fresh_m.thermodynamics.TMinLowT / (1.15 * u), "widths*Tn": (np.asarray(fr_.wallWidths) * 1.15 * u).tolist()}
        bad = [q for q, t in (("vJ", 1e-6), ("TMaxLowT/Tn", 1e-4), ("TMinLowT/Tn", 1e-4)) if abs(got[q] - want[q]) > t * abs(want[q])]
        if got["vw"] is None or want["vw"] is None or abs(got["vw"] - want["vw"]) > 2e-3:
            bad.append("vw")
        if bad:
            rep.violation(f"the same model object re-solved with all dimensionful inputs multiplied by {u} differs from a fresh model in those units: {bad}",
                          {"unit_factor": u, "reused_model": got, "fresh_model": want, "differing": bad, "first_solve_velocity": first.wallVelocity},
                          finding_key=f"C07:manager-same-model:{','.join(sorted(bad))}")
    # two-field GeV-like model (Tn = 100 u) through the manager: offsets and both widths as well
    def xrun(u):
        m, _model = MC.new_xsm_manager(u=u)
        res = m.solveWall(MC.settings())
        Tn = 100.0 * u
        return {"vw": res.wallVelocity, "success": res.success, "vJ": float(m.hydrodynamics.vJ), "vLTE": float(m.wallSpeedLTE()),
                "widths*Tn": (np.asarray(res.wallWidths) * Tn).tolist(), "offsets": np.asarray(res.wallOffsets).tolist(),
                "Tplus/Tn": res.temperaturePlus / Tn}
    xbase = xrun(1.0)
    for u in ((1e-2, 30.0, 100.0) if tier == "quick" else (1e-2, 0.1, 10.0, 30.0, 100.0)):
        rep.case(key=("xsm-manager", u))
        rep.count("xsm manager runs")
        try:
            got = xrun(u)
        except Exception as ex:  # noqa: BLE001
            rep.violation(f"two-field model: WallGoManager pipeline fails under the unit factor {u} although it works for the factor 1",
                          {"unit_factor": u, "error": f"{type(ex).__name__}: {str(ex)[:300]}", "base": xbase,
                           "how": "harness/manager_common.new_xsm_manager(u=u)[0].solveWall(settings())"},
                          finding_key="C07:xsm:raises")
            continue
        bad = [q for q, t in (("vJ", 1e-6), ("vLTE", 5e-5), ("Tplus/Tn", 1e-3)) if abs(xbase[q] - got[q]) > t * abs(xbase[q])]
        if xbase["success"] != got["success"] or got["vw"] is None or abs(xbase["vw"] - got["vw"]) > 2e-3:
            bad.append("vw")
        if max(abs(a - b) for a, b in zip(xbase["widths*Tn"], got["widths*Tn"])) > 0.03 * max(xbase["widths*Tn"]):
            bad.append("widths*Tn")
        if max(abs(a - b) for a, b in zip(xbase["offsets"], got["offsets"])) > 0.05:
            bad.append("offsets")
        if bad:
            rep.violation(f"two-field model: WallGoManager results are not covariant under the unit factor {u}: {bad}",
                          {"unit_factor": u, "base": xbase, "scaled": got, "differing": bad}, finding_key=f"C07:xsm:{','.join(sorted(bad))}")
    # formula level on real objects: thermodynamics and hydrodynamics of rescaled models agree pointwise by the proved weights
    import models
    for u in ((1e-2, 1e2) if tier == "quick" else (1e-2, 0.3, 17.0, 1e2)):
        th1, _, i1 = models.make_thermo("toy1", {}, TnFrac=0.6, tminFrac=0.5, tmaxFrac=1.12)
        thu, _, iu = models.make_thermo("toy1", dict(u=u), TnFrac=0.6, tminFrac=0.5, tmaxFrac=1.12)
        for T in np.linspace(0.3, 2.5, 12 if tier == "quick" else 60):
            for nm, w in (("pHighT", 4), ("dpHighT", 3), ("ddpHighT", 2), ("eLowT", 4), ("wLowT", 4), ("csqLowT", 0), ("csqHighT", 0)):
                a = float(getattr(th1, nm)(T)) * u ** w
                b = float(getattr(thu, nm)(T * u))
                rep.case(key=("eos", u, nm, round(T, 2)))
                # outside the tabulated range the power-law extrapolation amplifies the O(tracing tolerance) noise of the boundary sound speed
                inside = max(th1.TMinHighT, th1.TMinLowT) <= T <= min(th1.TMaxHighT, th1.TMaxLowT)
                if not abs(a - b) <= (2e-05 if inside else 0.001) * max(abs(a), abs(b)) + 1e-12 * u ** w:
                    rep.violation(f"thermodynamic function {nm} is not covariant (weight {w}) under the unit factor {u}",
                                  {"unit_factor": u, "T": float(T), "function": nm, "scaled_base": a, "rescaled_model": b},
                                  finding_key=f"C07:eos:{nm}")
                    break
