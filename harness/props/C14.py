"""C14 -- collision data act identically after loading, basis change and interpolation."""
from __future__ import annotations

import itertools
import math
import shutil

import numpy as np

import common as C
import coll_common as CC

LEAN_MODULE = "WallGoVerif.Props.C14"
LEMMA_MODULES = ["WallGoVerif.Lemmas.Collision", "WallGoVerif.Lemmas.CollisionCheb", "WallGoVerif.Model.Collision"]
GEN_MODULES = []
RULE = ("obligations = Lean theorems of Props.C14 about Model.Collision (block (i,j) = file (i,j) for every ordered pair, exact "
        "characterisation of the load-error conditions, failed load leaves the installed array in place) and matrix theorems "
        "(basis change preserves the operator's action; the code's collocation matrix is invertible; interpolated operator = "
        "E*C*P acts as evaluate-after-apply on low-order distributions; correct axis rearrangement) + correspondence of the load "
        "model with real HDF5 directories (outcome, error class, block placement, previous array kept) and of the real "
        "basis change / interpolation with E*C*P assembled from Model.Poly's matrices; distinct = (n particles, stored size, "
        "target size, stored basis, requested basis, fault pattern)")
ASSUMPTIONS = ["files that exist are well-formed HDF5 with the expected dataset (KeyError/OSError paths are not modelled)",
               "np.linalg.inv is an oracle; comparisons at rel 1e-9"]
BAS = {"Cardinal": "card", "Chebyshev": "cheb"}


def corr(rep: C.Report, tier: str):
    from WallGo.grid import Grid
    from WallGo.collisionArray import CollisionArray
    from WallGo.boltzmann import BoltzmannSolver
    from WallGo.exceptions import CollisionLoadError
    r = C.rng("C14")
    base = CC.scratch()
    nrep = 40 if tier == "quick" else 600
    lines, real = [], []
    bad_place, bad_keep = 0, 0
    try:
        # directed family after the random one: every single missing MIXED pair (all diagonal files present) for 2 and 3 particles --
        # the random victim above is rarely a mixed pair of a multi-particle directory, and a loader that treats an absent (a, b),
        # a != b, file as "no scattering" would otherwise go unseen; same-size/same-basis so the load itself is the only question
        directed = [(len(nm), v) for nm in ("AB", "ABC") for v in itertools.permutations(nm, 2)]
        for k in range(nrep + len(directed)):
            npart = r.choice((1, 2, 2, 3))
            names = ["A", "B", "C"][:npart]
            Nst = r.choice((5, 7, 9))
            gridN = r.choice([n for n in (3, 5, 7, 9, 11) if n <= Nst + 2])
            bst = r.choice(("Cardinal", "Chebyshev"))
            breq = r.choice(("Cardinal", "Chebyshev"))
            fault = r.choice(("none", "none", "none", "missing", "size", "basis", "unknown"))
            if k >= nrep:
                npart, fault, Nst, gridN, breq = directed[k - nrep][0], "missing", 5, 5, bst
                names = ["A", "B", "C"][:npart]
            sizes = {(a, b): Nst for a in names for b in names}
            bts = {(a, b): bst for a in names for b in names}
            skip = ()
            pairs = [(a, b) for a in names for b in names]
            victim = r.choice(pairs)
            if k >= nrep:
                victim = directed[k - nrep][1]
            if fault == "missing":
                skip = (victim,)
            elif fault == "size" and len(pairs) > 1:
                sizes[victim] = Nst + 2
            elif fault == "basis" and len(pairs) > 1:
                bts[victim] = "Chebyshev" if bst == "Cardinal" else "Cardinal"
            elif fault == "unknown":
                bts[victim] = "Legendre"
            rngnp = np.random.default_rng(r.randint(0, 2 ** 31))
            blocks = {p: rngnp.normal(size=(sizes[p] - 1,) * 4) for p in pairs}
            d = CC.write_dir(base / f"d{k}", names, sizes, bts, blocks, skip)
            parts = [CC.mkpart(n) for n in names]
            grid = Grid(4, gridN, 1.0, 1.0)
            # solver with a previously installed array (sentinel object)
            solver = BoltzmannSolver(grid, "Cardinal", breq)
            solver.updateParticleList(parts)
            sentinel = object()
            solver.collisionArray = sentinel
            try:
                solver.loadCollisions(d)
                outcome = "ok"
            except CollisionLoadError:
                outcome = "error:CollisionLoadError"
            except Exception as ex:  # noqa: BLE001
                outcome = "error:" + type(ex).__name__
            toks = []
            for (a, b) in pairs:
                if (a, b) in skip:
                    toks.append("-")
                else:
                    toks.append(f"{sizes[(a, b)]}:{BAS.get(bts[(a, b)], 'other')}:{pairs.index((a, b)) + 1}")
            lines.append(f"load {gridN} {npart} " + " ".join(toks))
            real.append(outcome)
            rep.case(key=(npart, Nst, gridN, bst, breq, fault), sample={"op": lines[-1], "real": outcome} if k < 3 else None)
            rep.count(f"fault {fault} -> {outcome.split(':')[0]}")
            if skip:
                # a directory with a file missing is not a complete set: the class method must refuse it too, and the solver
                # must still hold the array installed before (the statement: complete array OR load error, for every pattern of missing files)
                try:
                    CollisionArray.newFromDirectory(d, grid, breq, parts)
                    direct = "ok"
                except Exception as ex:  # noqa: BLE001
                    direct = "error:" + type(ex).__name__
                rep.count(f"missing {'mixed' if skip[0][0] != skip[0][1] else 'diagonal'} pair of {npart} -> {outcome.split(':')[0]}")
                if outcome == "ok" or direct == "ok":
                    i, j = names.index(skip[0][0]), names.index(skip[0][1])
                    got = solver.collisionArray if outcome == "ok" else CollisionArray.newFromDirectory(d, grid, breq, parts)
                    rep.violation("a directory with a collision file missing loads without a CollisionLoadError: an incomplete array is installed "
                                  "in place of the previously loaded one",
                                  {"dir": lines[-1], "particles": names, "missing_file": f"collisions_{skip[0][0]}_{skip[0][1]}.hdf5",
                                   "loadCollisions": outcome, "newFromDirectory": direct, "previous_array_kept": solver.collisionArray is sentinel,
                                   "max_abs_of_block_for_missing_pair": float(np.max(np.abs(got[i, :, :, j, :, :])))},
                                  finding_key="C14:missing-file-accepted")
                    continue
            if outcome != "ok":
                if solver.collisionArray is not sentinel:
                    bad_keep += 1
                    rep.violation("a failed collision load replaced the previously installed array",
                                  {"dir": lines[-1], "outcome": outcome}, finding_key="C14:failed-load-replaces")
                if outcome != "error:CollisionLoadError":
                    rep.violation(f"collision load failed with {outcome} instead of a CollisionLoadError",
                                  {"dir": lines[-1], "fault": fault}, finding_key="C14:assertion-instead-of-load-error"
                                  if "Assertion" in outcome else f"C14:wrong-error:{outcome}")
                continue
            ca = solver.collisionArray
            if gridN == Nst and bst == breq:
                for i, a in enumerate(names):
                    for j, b in enumerate(names):
                        if not np.array_equal(ca[i, :, :, j, :, :], blocks[(a, b)]):
                            bad_place += 1
                            rep.violation("loaded block differs from the numbers stored for that ordered pair",
                                          {"dir": lines[-1], "pair": [a, b]}, finding_key="C14:block-placement")
            # per-pair independence: every block equals the result of loading that pair alone
            if npart > 1:
                a = r.choice(names)
                d1 = CC.write_dir(base / f"s{k}", [a], Nst, bst, {(a, a): blocks[(a, a)]})
                c1 = CollisionArray.newFromDirectory(d1, grid, breq, [CC.mkpart(a)])
                i = names.index(a)
                err = np.max(np.abs(ca[i, :, :, i, :, :] - c1[0, :, :, 0, :, :]))
                rep.count("independence checks")
                if not err <= 1e-09 * (np.max(np.abs(c1[:])) + 1):
                    rep.violation("block of a particle pair depends on which other particles are present",
                                  {"dir": lines[-1], "pair": [a, a], "max_abs_diff": float(err), "interpolated": gridN != Nst},
                                  finding_key="C14:interpolation-multi-particle" if gridN != Nst else "C14:pair-dependence")
        outs = C.lean_run("CollisionQ", lines)
        bad = [(l, o, re_) for l, o, re_ in zip(lines, outs, real) if (o.split()[0] if o.startswith("ok") else o) != re_]
        rep.obligation("correspondence Model.Collision.newFromDirectory outcome = real loadCollisions outcome", "correspondence",
                       not bad, f"{len(lines)} directories; {bad[:2]}")
        rep.obligation("block placement and previous-array-kept on the real solver", "correspondence", bad_place == 0 and bad_keep == 0,
                       f"{bad_place} misplaced, {bad_keep} replaced")
        _numeric(rep, tier, base, r)
    finally:
        shutil.rmtree(base, ignore_errors=True)


_mm: dict = {}
_ce: dict = {}


def _model_mats(grid, d):
    """T (restricted Chebyshev collocation matrix, interior nodes) and the node list from the Lean model."""
    key = (grid.N, d)
    if key not in _mm:
        _mm[key] = _model_mats0(grid, d)
    return _mm[key]


def _model_mats0(grid, d):
    xs = grid.getCompactCoordinates(True, d)
    out = C.lean_run("PolyF", [f"chebmat {d} 0 0 " + " ".join(str(C.f2b(x)) for x in xs)])[0]
    v = np.array([C.b2f(int(t)) for t in out.split()])
    n = int(round(math.sqrt(v.size)))
    return v.reshape(n, n), xs


def _cardinal_eval(gridSrc, d, targets):
    """E[p', p] = C_p(x'_{p'}) for the interior cardinal functions of the source grid, from the Lean model."""
    key = (gridSrc.N, d, len(targets))
    if key not in _ce:
        _ce[key] = _cardinal_eval0(gridSrc, d, targets)
    return _ce[key]


def _cardinal_eval0(gridSrc, d, targets):
    xs = gridSrc.getCompactCoordinates(True, d)
    lo = 1 if d != "pp" else 0
    nint = xs.size - (2 if d != "pp" else 1)
    lines = [f"cardinal {d} 0 2 {C.f2b(float(lo + p))} {C.f2b(x)} " + " ".join(str(C.f2b(t)) for t in xs)
             for x in targets for p in range(nint)]
    outs = C.lean_run("PolyF", lines)
    return np.array([C.b2f(int(o)) for o in outs]).reshape(len(targets), nint)


def _lagrange(nodes, x):
    """L[i, a] = a-th Lagrange cardinal function of `nodes` at x[i] (plain numpy, any node positions)."""
    out = np.ones((len(x), len(nodes)))
    for a, m in itertools.permutations(range(len(nodes)), 2):
        out[:, a] *= (x - nodes[m]) / (nodes[a] - nodes[m])
    return out


def _tbar(x, n, d):
    """restricted Chebyshev polynomials at x: pz orders 2..n+1 (minus 1 or x), pp orders 1..n (minus 1)."""
    k = np.arange(2, n + 2) if d == "pz" else np.arange(1, n + 1)
    t = np.cos(k[None, :] * np.arccos(np.clip(x, -1.0, 1.0))[:, None])
    return t - (np.where(k[None, :] % 2 == 0, 1.0, x[:, None]) if d == "pz" else 1.0)


def _uniform_spacing(rep, tier, base, r):
    """interpolation on grids with spacing='Uniform' (admitted by Grid): the stored numbers live on the UNIFORM nodes of the stored
    size (that is where an equal-size load puts them), so the loaded smaller array must act on every low-order distribution like
    the stored operator evaluated (Lagrange on the stored nodes, node positions taken from the grids) at the new uniform points.
    Oracle is numpy only; the code's Gauss-Lobatto path is covered above."""
    from WallGo.grid import Grid
    from WallGo.collisionArray import CollisionArray
    combos = [(7, 5), (9, 5), (5, 3)] if tier == "quick" else [(7, 5), (9, 5), (9, 7), (5, 3), (11, 7)]
    for (Ns, Nt), bst, breq, npart in itertools.product(combos, ("Cardinal", "Chebyshev"), ("Cardinal", "Chebyshev"), (1, 2)):
        names = ["A", "B"][:npart]
        rngnp = np.random.default_rng(r.randint(0, 2 ** 31))
        blocks = {(a, b): rngnp.normal(size=(Ns - 1,) * 4) for a in names for b in names}
        d = CC.write_dir(base / "uni", names, Ns, bst, blocks)
        gs, gt = Grid(4, Ns, 1.0, 1.0, "Uniform"), Grid(4, Nt, 1.0, 1.0, "Uniform")
        real = CollisionArray.newFromDirectory(d, gt, breq, [CC.mkpart(n) for n in names])
        n = Nt - 1
        Lz = _lagrange(np.concatenate(([-1.0], gs.rzValues, [1.0])), gt.rzValues)[:, 1:-1]     # operator output vanishes at rz = -1, 1
        Lp = _lagrange(np.concatenate((gs.rpValues, [1.0])), gt.rpValues)[:, :-1]               # ... and at rp = 1
        worst = 0.0
        for i, a in enumerate(names):
            for j, b in enumerate(names):
                Cst = blocks[(a, b)]
                # columns = the low-order distributions Tbar_J(pz) Tbar_K(pp), J, K < n, in the stored representation
                Clow = Cst[:, :, :n, :n] if bst == "Chebyshev" else np.einsum("pqjk,jJ,kK->pqJK", Cst, _tbar(gs.rzValues, n, "pz"), _tbar(gs.rpValues, n, "pp"))
                want = np.einsum("Pp,Qq,pqJK->PQJK", Lz, Lp, Clow)
                got = real[i, :, :, j, :, :]
                if breq == "Cardinal":                    # cardinal coefficients of a distribution = its values at the new nodes
                    got = np.einsum("PQjk,jJ,kK->PQJK", got, _tbar(gt.rzValues, n, "pz"), _tbar(gt.rpValues, n, "pp"))
                worst = max(worst, float(np.max(np.abs(got - want)) / (np.max(np.abs(want)) + 1e-300)))
        rep.case(key=("interp-uniform", Ns, Nt, bst, breq, npart))
        rep.count("uniform-spacing interpolation comparisons")
        if not worst <= 1e-08:
            rep.violation("on a grid with spacing='Uniform' the array interpolated to a smaller grid does not act on low-order distributions "
                          "like the stored operator (on the uniform nodes of the stored size) evaluated at the new grid points",
                          {"spacing": "Uniform", "M": 4, "stored_N": Ns, "target_N": Nt, "stored_basis": bst, "requested_basis": breq,
                           "particles": npart, "max_rel_diff": worst}, finding_key="C14:interp-uniform-spacing")


def _numeric(rep, tier, base, r):
    """basis change and interpolation of the real class vs the matrices of Model.Poly (E * C * T ... )."""
    from WallGo.grid import Grid
    from WallGo.collisionArray import CollisionArray
    combos = [(7, 5), (9, 5), (5, 3)] if tier == "quick" else [(7, 5), (9, 5), (9, 7), (5, 3), (11, 7), (11, 5)]
    for (Ns, Nt), bst, breq, npart in itertools.product(combos, ("Cardinal", "Chebyshev"), ("Cardinal", "Chebyshev"), (1, 2)):
        names = ["A", "B"][:npart]
        rngnp = np.random.default_rng(r.randint(0, 2 ** 31))
        blocks = {(a, b): rngnp.normal(size=(Ns - 1,) * 4) for a in names for b in names}
        d = CC.write_dir(base / "num", names, Ns, bst, blocks)
        gs, gt = Grid(4, Ns, 1.0, 1.0), Grid(4, Nt, 1.0, 1.0)
        parts = [CC.mkpart(n) for n in names]
        real = CollisionArray.newFromDirectory(d, gt, breq, parts)
        Tz_s, _ = _model_mats(gs, "pz")
        Tp_s, _ = _model_mats(gs, "pp")
        Tz_t, _ = _model_mats(gt, "pz")
        Tp_t, _ = _model_mats(gt, "pp")
        Ez = _cardinal_eval(gs, "pz", gt.rzValues)
        Ep = _cardinal_eval(gs, "pp", gt.rpValues)
        n = Nt - 1
        worst = 0.0
        for i, a in enumerate(names):
            for j, b in enumerate(names):
                Cst = blocks[(a, b)]                       # axes (rz, rp, j, k) in the stored basis on (j, k)
                Cch = Cst if bst == "Chebyshev" else np.einsum("pqjk,jJ,kK->pqJK", Cst, Tz_s, Tp_s)    # C' = C * T
                Cint = np.einsum("Pp,Qq,pqJK->PQJK", Ez, Ep, Cch)[:, :, :n, :n]                         # E * C' * P
                want = Cint if breq == "Chebyshev" else np.einsum("PQJK,Jj,Kk->PQjk", Cint, np.linalg.inv(Tz_t), np.linalg.inv(Tp_t))
                got = real[i, :, :, j, :, :]
                worst = max(worst, float(np.max(np.abs(got - want)) / (np.max(np.abs(want)) + 1e-300)))
        rep.case(key=("interp", Ns, Nt, bst, breq, npart))
        rep.count("interpolation/basis-change comparisons")
        if not worst <= 1e-08:
            rep.violation("real interpolation/basis change differs from E*C*T*P assembled from the model's matrices",
                          {"stored_N": Ns, "target_N": Nt, "stored_basis": bst, "requested_basis": breq, "particles": npart,
                           "max_rel_diff": worst}, finding_key="C14:interpolation-multi-particle" if npart > 1 else "C14:interp-numeric")
    _uniform_spacing(rep, tier, base, r)
    # interpolation must not disturb the source array (it may go on being used)
    for bst in ("Cardinal", "Chebyshev"):
        rngnp = np.random.default_rng(r.randint(0, 2 ** 31))
        blk = rngnp.normal(size=(6,) * 4)
        d = CC.write_dir(base / "src", ["A"], 7, bst, {("A", "A"): blk})
        g7 = Grid(4, 7, 1.0, 1.0)
        src = CollisionArray.newFromDirectory(d, g7, bst, [CC.mkpart("A")])
        before = (np.array(src[:]).copy(), src.getBasisType())
        for Nt in (5, 3):
            CollisionArray.interpolateCollisionArray(src, Grid(4, Nt, 1.0, 1.0))
        rep.case(key=("source-untouched", bst))
        if src.getBasisType() != before[1] or not np.array_equal(np.array(src[:]), before[0]):
            rep.violation("interpolating a collision array to a smaller grid modifies the SOURCE array (its action on distributions changes)",
                          {"stored_basis": bst, "basis_label_after": src.getBasisType(),
                           "max_abs_change": float(np.max(np.abs(np.array(src[:]) - before[0])))}, finding_key="C14:interpolation-mutates-source")
    # action preserved by a basis change on the same grid (any distribution)
    for N in (5, 7):
        rngnp = np.random.default_rng(r.randint(0, 2 ** 31))
        blk = rngnp.normal(size=(N - 1,) * 4)
        d = CC.write_dir(base / "act", ["A"], N, "Cardinal", {("A", "A"): blk})
        g = Grid(4, N, 1.0, 1.0)
        cheb = CollisionArray.newFromDirectory(d, g, "Chebyshev", [CC.mkpart("A")])
        Tz, _ = _model_mats(g, "pz")
        Tp, _ = _model_mats(g, "pp")
        c = rngnp.normal(size=(N - 1, N - 1))                      # Chebyshev coefficients of a distribution
        v = np.einsum("jJ,kK,JK->jk", Tz, Tp, c)                   # its grid values
        a1 = np.einsum("pqjk,jk->pq", blk, v)
        a2 = np.einsum("pqjk,jk->pq", cheb[0, :, :, 0, :, :], c)
        rep.case(key=("action", N))
        if not np.max(np.abs(a1 - a2)) <= 1e-09 * np.max(np.abs(a1)):
            rep.violation("changing the basis changes the result of applying the collision operator to a distribution",
                          {"N": N, "max_abs_diff": float(np.max(np.abs(a1 - a2)))}, finding_key="C14:basis-action")
